// goshape renders the four hand-unrolled CFB routines of x/cipher/block.go as values of the
// small statement language of coq/Lib/CfbShape.v:
//
//	goshape <repo> <file relative to repo> <out.v> <func> ...
//
// Every statement of a function is matched against a fixed set of forms (the header
// assignments, the for loop with its two window slices, the switch with its cases, and inside
// them: 64-bit xor through unsafe pointers, xor.Bytes16Align, block.Encrypt, base += C, the
// tbl/next swap, xorBytes, fallthrough).  Literals (offsets, bounds, strides, labels) and the
// roles of the buffers are copied, not interpreted; a statement that has none of the forms
// becomes SUnknown (inside loop / switch) or is counted in sh_extra, so that the lemmas of
// coq/C16/Shape.v, which give the statements their meaning and equate them with the model's
// unrolled steps, stop compiling when the source changes shape.
package main

import (
	"fmt"
	"go/ast"
	"go/parser"
	"go/token"
	"os"
	"path/filepath"
	"strconv"
	"strings"
)

type fnShape struct {
	tbl, next        [2]int64
	hasNext          bool
	encIv            string
	ndiv, loopdiv    int64
	windowS, windowD int64
	body             []string
	switchmod        int64
	cases            []string
	extra            int
	sliceLo          map[string]int64  // tbl -> lo offset in buf
	ptrs             map[string]string // ptr var -> "KOff n"
}

func lit(e ast.Expr) (int64, bool) {
	if e == nil {
		return 0, true
	}
	if b, ok := e.(*ast.BasicLit); ok && b.Kind == token.INT {
		v, err := strconv.ParseInt(b.Value, 0, 64)
		return v, err == nil
	}
	return 0, false
}

func ident(e ast.Expr) string {
	if i, ok := e.(*ast.Ident); ok {
		return i.Name
	}
	return ""
}

func z(v int64) string {
	if v < 0 {
		return fmt.Sprintf("(%d)", v)
	}
	return fmt.Sprintf("%d", v)
}

func memOf(name string) (string, bool, bool) { // (MD|MS, isWindowVar, ok)
	switch name {
	case "d":
		return "MD", true, true
	case "s":
		return "MS", true, true
	case "dst":
		return "MD", false, true
	case "src":
		return "MS", false, true
	}
	return "", false, false
}

// &X[idx] as a location: d[c] / s[c] -> LConst m c None; dst[base] / src[base] -> LBase m
func (f *fnShape) locOfIndex(x ast.Expr, idx ast.Expr) (string, bool) {
	m, win, ok := memOf(ident(x))
	if !ok {
		return "", false
	}
	if win {
		if c, ok := lit(idx); ok && idx != nil {
			return fmt.Sprintf("(LConst %s %s None)", m, z(c)), true
		}
		return "", false
	}
	if ident(idx) == "base" {
		return fmt.Sprintf("(LBase %s)", m), true
	}
	return "", false
}

// X[lo:hi] / X[base:] as a location
func (f *fnShape) locOfSlice(e ast.Expr) (string, bool) {
	se, ok := e.(*ast.SliceExpr)
	if !ok || se.Slice3 {
		return "", false
	}
	m, win, ok := memOf(ident(se.X))
	if !ok {
		return "", false
	}
	if win {
		lo, ok1 := lit(se.Low)
		hi, ok2 := lit(se.High)
		if ok1 && ok2 && se.High != nil {
			return fmt.Sprintf("(LConst %s %s (Some %s))", m, z(lo), z(hi)), true
		}
		return "", false
	}
	if ident(se.Low) == "base" && se.High == nil {
		return fmt.Sprintf("(LBase %s)", m), true
	}
	return "", false
}

// (*uint64)(unsafe.Pointer(&X[idx])) -> X, idx
func castAddr(e ast.Expr) (ast.Expr, ast.Expr, bool) {
	c, ok := e.(*ast.CallExpr)
	if !ok || len(c.Args) != 1 {
		return nil, nil, false
	}
	p, ok := c.Fun.(*ast.ParenExpr)
	if !ok {
		return nil, nil, false
	}
	st, ok := p.X.(*ast.StarExpr)
	if !ok || ident(st.X) != "uint64" {
		return nil, nil, false
	}
	c2, ok := c.Args[0].(*ast.CallExpr)
	if !ok || len(c2.Args) != 1 {
		return nil, nil, false
	}
	sel, ok := c2.Fun.(*ast.SelectorExpr)
	if !ok || ident(sel.X) != "unsafe" || sel.Sel.Name != "Pointer" {
		return nil, nil, false
	}
	u, ok := c2.Args[0].(*ast.UnaryExpr)
	if !ok || u.Op != token.AND {
		return nil, nil, false
	}
	ix, ok := u.X.(*ast.IndexExpr)
	if !ok {
		return nil, nil, false
	}
	return ix.X, ix.Index, true
}

// *(*uint64)(unsafe.Pointer(&X[idx]))
func derefCast(e ast.Expr) (ast.Expr, ast.Expr, bool) {
	st, ok := e.(*ast.StarExpr)
	if !ok {
		return nil, nil, false
	}
	return castAddr(st.X)
}

func ksVar(name string) (string, bool) {
	switch name {
	case "tbl":
		return "KTbl", true
	case "next":
		return "KNext", true
	}
	return "", false
}

// the key-stream operand of a 64-bit xor: *ptr or *(*uint64)(unsafe.Pointer(&tbl[0]))
func (f *fnShape) ks64(e ast.Expr) (string, bool) {
	if st, ok := e.(*ast.StarExpr); ok {
		if p := ident(st.X); p != "" {
			k, ok := f.ptrs[p]
			return k, ok
		}
	}
	if x, idx, ok := derefCast(e); ok {
		if c, ok := lit(idx); ok && c == 0 && idx != nil {
			return ksVar(ident(x))
		}
	}
	return "", false
}

func isCall(e ast.Expr, pkg, fn string) (*ast.CallExpr, bool) {
	c, ok := e.(*ast.CallExpr)
	if !ok {
		return nil, false
	}
	if pkg == "" {
		return c, ident(c.Fun) == fn
	}
	sel, ok := c.Fun.(*ast.SelectorExpr)
	return c, ok && ident(sel.X) == pkg && sel.Sel.Name == fn
}

func (f *fnShape) stmt(s ast.Stmt) string {
	switch t := s.(type) {
	case *ast.AssignStmt:
		if t.Tok == token.ASSIGN && len(t.Lhs) == 1 && len(t.Rhs) == 1 {
			// *(*uint64)(&X[i]) = *(*uint64)(&Y[j]) ^ K
			if dx, di, ok := derefCast(t.Lhs[0]); ok {
				if b, ok := t.Rhs[0].(*ast.BinaryExpr); ok && b.Op == token.XOR {
					if sx, si, ok := derefCast(b.X); ok {
						d, ok1 := f.locOfIndex(dx, di)
						sl, ok2 := f.locOfIndex(sx, si)
						k, ok3 := f.ks64(b.Y)
						if ok1 && ok2 && ok3 {
							return fmt.Sprintf("SXor 8 %s %s %s", d, sl, k)
						}
					}
				}
			}
		}
		if t.Tok == token.ADD_ASSIGN && len(t.Lhs) == 1 && ident(t.Lhs[0]) == "base" {
			if c, ok := lit(t.Rhs[0]); ok {
				return fmt.Sprintf("SBase %s", z(c))
			}
		}
		if t.Tok == token.ASSIGN && len(t.Lhs) == 2 && len(t.Rhs) == 2 &&
			ident(t.Lhs[0]) == "tbl" && ident(t.Lhs[1]) == "next" && ident(t.Rhs[0]) == "next" && ident(t.Rhs[1]) == "tbl" {
			return "SSwap"
		}
	case *ast.ExprStmt:
		if c, ok := isCall(t.X, "xor", "Bytes16Align"); ok && len(c.Args) == 3 {
			d, ok1 := f.locOfSlice(c.Args[0])
			sl, ok2 := f.locOfSlice(c.Args[1])
			k, ok3 := ksVar(ident(c.Args[2]))
			if ok1 && ok2 && ok3 {
				return fmt.Sprintf("SXor 16 %s %s %s", d, sl, k)
			}
		}
		if c, ok := isCall(t.X, "block", "Encrypt"); ok && len(c.Args) == 2 {
			k, ok1 := ksVar(ident(c.Args[0]))
			sl, ok2 := f.locOfSlice(c.Args[1])
			if ok1 && ok2 {
				return fmt.Sprintf("SEnc %s %s", k, sl)
			}
		}
		if c, ok := isCall(t.X, "", "xorBytes"); ok && len(c.Args) == 3 {
			d, ok1 := f.locOfSlice(c.Args[0])
			sl, ok2 := f.locOfSlice(c.Args[1])
			k, ok3 := ksVar(ident(c.Args[2]))
			if ok1 && ok2 && ok3 {
				return fmt.Sprintf("SRem %s %s %s", d, sl, k)
			}
		}
	case *ast.BranchStmt:
		if t.Tok == token.FALLTHROUGH {
			return "SFall"
		}
	}
	return "SUnknown"
}

// X := src[base:][0:W]
func windowOf(s ast.Stmt, v, from string) (int64, bool) {
	a, ok := s.(*ast.AssignStmt)
	if !ok || a.Tok != token.DEFINE || len(a.Lhs) != 1 || ident(a.Lhs[0]) != v {
		return 0, false
	}
	outer, ok := a.Rhs[0].(*ast.SliceExpr)
	if !ok {
		return 0, false
	}
	inner, ok := outer.X.(*ast.SliceExpr)
	if !ok || ident(inner.X) != from || ident(inner.Low) != "base" || inner.High != nil {
		return 0, false
	}
	lo, ok1 := lit(outer.Low)
	hi, ok2 := lit(outer.High)
	return hi, ok1 && ok2 && lo == 0 && outer.High != nil
}

func divBy(e ast.Expr, what func(ast.Expr) bool, op token.Token) (int64, bool) {
	b, ok := e.(*ast.BinaryExpr)
	if !ok || b.Op != op || !what(b.X) {
		return 0, false
	}
	return lit(b.Y)
}

func shape(fn *ast.FuncDecl) *fnShape {
	f := &fnShape{sliceLo: map[string]int64{}, ptrs: map[string]string{}, ndiv: -1, loopdiv: -1, windowS: -1, windowD: -1, switchmod: -1}
	f.tbl = [2]int64{-1, -1}
	isN := func(e ast.Expr) bool { return ident(e) == "n" }
	isLenSrc := func(e ast.Expr) bool {
		c, ok := isCall(e, "", "len")
		return ok && len(c.Args) == 1 && ident(c.Args[0]) == "src"
	}
	for _, s := range fn.Body.List {
		switch t := s.(type) {
		case *ast.AssignStmt:
			if t.Tok == token.DEFINE && len(t.Lhs) == 1 && len(t.Rhs) == 1 {
				name := ident(t.Lhs[0])
				if se, ok := t.Rhs[0].(*ast.SliceExpr); ok && ident(se.X) == "buf" && !se.Slice3 && (name == "tbl" || name == "next") {
					lo, ok1 := lit(se.Low)
					hi, ok2 := lit(se.High)
					if ok1 && ok2 && se.High != nil {
						f.sliceLo[name] = lo
						if name == "tbl" {
							f.tbl = [2]int64{lo, hi}
						} else {
							f.next, f.hasNext = [2]int64{lo, hi}, true
						}
						continue
					}
				}
				if name == "n" {
					if k, ok := divBy(t.Rhs[0], isLenSrc, token.QUO); ok {
						f.ndiv = k
						continue
					}
				}
				if name == "base" {
					if c, ok := lit(t.Rhs[0]); ok && c == 0 {
						continue
					}
				}
				if x, idx, ok := castAddr(t.Rhs[0]); ok { // ptr := (*uint64)(unsafe.Pointer(&tbl[0]))
					if lo, ok := f.sliceLo[ident(x)]; ok {
						if c, ok := lit(idx); ok && idx != nil {
							f.ptrs[name] = fmt.Sprintf("(KOff %s)", z(lo+c))
							continue
						}
					}
				}
			}
			f.extra++
		case *ast.ExprStmt:
			if c, ok := isCall(t.X, "block", "Encrypt"); ok && len(c.Args) == 2 && ident(c.Args[1]) == "iv" && f.encIv == "" {
				if k, ok := ksVar(ident(c.Args[0])); ok {
					f.encIv = k
					continue
				}
			}
			f.extra++
		case *ast.ForStmt:
			okLoop := f.loopdiv == -1
			if init, ok := t.Init.(*ast.AssignStmt); !ok || init.Tok != token.DEFINE || ident(init.Lhs[0]) != "i" {
				okLoop = false
			} else if c, ok := lit(init.Rhs[0]); !ok || c != 0 {
				okLoop = false
			}
			if post, ok := t.Post.(*ast.IncDecStmt); !ok || post.Tok != token.INC || ident(post.X) != "i" {
				okLoop = false
			}
			cond, ok := t.Cond.(*ast.BinaryExpr)
			if !ok || cond.Op != token.LSS || ident(cond.X) != "i" {
				okLoop = false
			} else if k, ok := divBy(cond.Y, isN, token.QUO); ok {
				f.loopdiv = k
			} else {
				okLoop = false
			}
			if !okLoop || len(t.Body.List) < 2 {
				f.extra++
				continue
			}
			ws, ok1 := windowOf(t.Body.List[0], "s", "src")
			wd, ok2 := windowOf(t.Body.List[1], "d", "dst")
			rest := t.Body.List[2:]
			if !ok1 || !ok2 {
				rest = t.Body.List
			} else {
				f.windowS, f.windowD = ws, wd
			}
			for _, b := range rest {
				f.body = append(f.body, f.stmt(b))
			}
		case *ast.SwitchStmt:
			if t.Init != nil || f.switchmod != -1 {
				f.extra++
				continue
			}
			k, ok := divBy(t.Tag, isN, token.REM)
			if !ok {
				f.extra++
				continue
			}
			f.switchmod = k
			for _, cc := range t.Body.List {
				cl := cc.(*ast.CaseClause)
				label := int64(-1)
				if len(cl.List) == 1 {
					if c, ok := lit(cl.List[0]); ok {
						label = c
					}
				}
				var ss []string
				for _, b := range cl.Body {
					ss = append(ss, f.stmt(b))
				}
				f.cases = append(f.cases, fmt.Sprintf("(%s, [%s])", z(label), strings.Join(ss, "; ")))
			}
		default:
			f.extra++
		}
	}
	return f
}

func (f *fnShape) coq(name string) string {
	next := "None"
	if f.hasNext {
		next = fmt.Sprintf("(Some (%s, %s))", z(f.next[0]), z(f.next[1]))
	}
	enc := "None"
	if f.encIv != "" {
		enc = "(Some " + f.encIv + ")"
	}
	var b strings.Builder
	fmt.Fprintf(&b, "Definition go_%s_shape : shfn := {|\n", name)
	fmt.Fprintf(&b, "  sh_tbl := (%s, %s);\n  sh_next := %s;\n  sh_enc_iv := %s;\n", z(f.tbl[0]), z(f.tbl[1]), next, enc)
	fmt.Fprintf(&b, "  sh_ndiv := %s;\n  sh_loopdiv := %s;\n  sh_window_s := %s;\n  sh_window_d := %s;\n", z(f.ndiv), z(f.loopdiv), z(f.windowS), z(f.windowD))
	fmt.Fprintf(&b, "  sh_body := [\n    %s];\n", strings.Join(f.body, ";\n    "))
	fmt.Fprintf(&b, "  sh_switchmod := %s;\n  sh_cases := [\n    %s];\n", z(f.switchmod), strings.Join(f.cases, ";\n    "))
	fmt.Fprintf(&b, "  sh_extra := %d |}.\n", f.extra)
	return b.String()
}

func main() {
	if len(os.Args) < 5 {
		fmt.Fprintln(os.Stderr, "usage: goshape <repo> <file> <out.v> <func> ...")
		os.Exit(2)
	}
	repo, file, out := os.Args[1], os.Args[2], os.Args[3]
	fset := token.NewFileSet()
	af, err := parser.ParseFile(fset, filepath.Join(repo, file), nil, 0)
	var b strings.Builder
	fmt.Fprintf(&b, "(* GENERATED by tools/goshape from %s - do not edit.\n   The statements of the unrolled CFB routines, rendered in the language of Lib/CfbShape.v. *)\n", file)
	b.WriteString("From Coq Require Import ZArith List.\nFrom FV Require Import Lib.CfbShape.\nImport ListNotations.\nLocal Open Scope Z_scope.\n\n")
	for _, name := range os.Args[4:] {
		var fd *ast.FuncDecl
		if err == nil {
			for _, d := range af.Decls {
				if f, ok := d.(*ast.FuncDecl); ok && f.Recv == nil && f.Name.Name == name && f.Body != nil {
					fd = f
				}
			}
		}
		if fd == nil {
			fmt.Fprintf(&b, "(* %s: not found in %s (the lemmas that need go_%s_shape fail) *)\n\n", name, file, name)
			continue
		}
		b.WriteString(shape(fd).coq(name))
		b.WriteString("\n")
	}
	old, _ := os.ReadFile(out)
	if string(old) != b.String() {
		if err := os.WriteFile(out, []byte(b.String()), 0o644); err != nil {
			fmt.Fprintln(os.Stderr, err)
			os.Exit(1)
		}
	}
}
