module goshape

go 1.16
