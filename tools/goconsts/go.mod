module goconsts

go 1.16
