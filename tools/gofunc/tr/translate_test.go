package tr

import (
	"flag"
	"os"
	"os/exec"
	"path/filepath"
	"regexp"
	"sort"
	"strings"
	"testing"
)

var update = flag.Bool("update", false, "rewrite testdata/golden/*.v")

// callees in other packages the fixtures use (always given first)
var foreign = []string{"clockNow#extern", "fixture/dep:Twice", "fixture/dep:Cfg.Apply", "encoding/binary:bigEndian.Uint16", "encoding/binary:bigEndian.Uint32",
	"encoding/binary:bigEndian.Uint64", "encoding/binary:littleEndian.Uint16", "encoding/binary:littleEndian.Uint32", "encoding/binary:littleEndian.Uint64",
	"encoding/binary:littleEndian.PutUint16", "encoding/binary:littleEndian.PutUint32", "encoding/binary:bigEndian.PutUint64", "io:ReadFull#externw",
	"Nodes.Len", "Nodes.Less", "Nodes.Swap", "fixture/hp:Up@Nodes", "fixture/hp:Down@Nodes", "fixture/hp:Fix@Nodes"}

func scanAll(p *Pkg) (*Translator, map[string]*Func) {
	var names []string
	for n := range p.Decls {
		names = append(names, n)
	}
	sort.Strings(names)
	T := New(p, "go_")
	res := map[string]*Func{}
	for _, n := range foreign {
		T.Translate(n)
	}
	for progress := true; progress; { // callees first
		progress = false
		for _, n := range names {
			if f := res[n]; f != nil && f.Err == nil {
				continue
			}
			f := T.Translate(n)
			res[n] = f
			if f.Err == nil {
				progress = true
			}
		}
	}
	return T, res
}

// every function of testdata/basic is inside the subset
func TestBasicTranslates(t *testing.T) {
	_, res := scanAll(Load("../testdata", "fixture", "basic"))
	if len(res) < 80 {
		t.Fatalf("only %d functions found", len(res))
	}
	for n, f := range res {
		if n == "clockNow" {
			continue // declared external
		}
		if f.Err != nil && !strings.HasSuffix(n, "Prefix") {
			t.Errorf("%s: %v", n, f.Err)
		}
		if f.Err == nil && strings.HasSuffix(n, "Prefix") {
			t.Errorf("%s: translated as a whole", n)
		}
	}
}

// fragments: the longest translatable prefix, and what is handed on
func TestPrefix(t *testing.T) {
	T := New(Load("../testdata", "fixture", "basic"), "go_")
	f := T.Translate("Ring.RangePrefix#prefix")
	if f.Err != nil || f.Prefix != 7 || strings.Join(f.Vars, " ") != "v_start v_end v_n v_size" || f.Monadic {
		t.Errorf("RangePrefix: err=%v prefix=%d vars=%v monadic=%v", f.Err, f.Prefix, f.Vars, f.Monadic)
	}
	g := T.Translate("WalkPrefix#prefix")
	if g.Err != nil || g.Prefix != 4 || strings.Join(g.Vars, " ") != "v_b v_k v_first v_total" || !g.Monadic || !g.Fuel {
		t.Errorf("WalkPrefix: err=%v prefix=%d vars=%v monadic=%v fuel=%v", g.Err, g.Prefix, g.Vars, g.Monadic, g.Fuel)
	}
	if h := T.Translate("Sum"); h.Err != nil {
		t.Fatal(h.Err)
	}
	if h := T.Translate("LoopCall"); h.Err != nil { // calls Sum: fine
		t.Errorf("LoopCall: %v", h.Err)
	}
	if T.Funcs["fixture/basic.WalkPrefix"] != nil {
		t.Errorf("a fragment must not be callable")
	}
}

// the exact Gallina for a hand-checked selection (one function per rule); -update rewrites it
func TestGolden(t *testing.T) {
	names := []string{"AddU8", "AddI8", "ConstShift", "VarShl", "ShlS", "Div", "ConstDiv", "Cmp", "EqB", "Clamp", "Normalize",
		"Shadow", "Named", "Swap", "Switch", "Ring.Next", "Ring.Len", "Ring.Twice", "Ring.Deep", "Outer", "At", "Tail", "BE16", "AndSafe",
		"Guard", "Search", "Ring.Search", "Hash", "Ring.RangePrefix#prefix", "WalkPrefix#prefix", "Fill", "SetAt", "SwapEnds", "PutBE16", "ArrayArg", "MakeCopy", "Rotate1", "Frame.Stamp", "Frame.StampTwice", "Check", "Classify", "encoding/binary:littleEndian.Uint16", "encoding/binary:littleEndian.PutUint16", "Buf.Put16", "Buf.Get16", "Buf.Get8", "Buf.Peek16", "Nodes.Len", "Nodes.Less", "Nodes.Swap", "fixture/hp:Up@Nodes", "fixture/hp:Down@Nodes", "fixture/hp:Fix@Nodes", "Sched.Bump", "Slots.Take", "Slots.Resize", "Counter.SetSeq", "Counter.Bump", "Counter.Drain", "Counter.SumHist", "clockNow#extern", "Counter.Stamp", "fixture/dep:Cfg.Apply", "Holder.Scaled", "encoding/binary:bigEndian.Uint16", "UseStd", "io:ReadFull#externw", "ReadLen", "Find", "RangeAssign", "Forever", "Nested", "LoopSwitch", "Sum", "LoopCall"}
	T := New(Load("../testdata", "fixture", "basic"), "go_")
	for _, n := range names {
		if f := T.Translate(n); f.Err != nil {
			t.Fatalf("%s: %v", n, f.Err)
		}
	}
	got := T.File()
	path := filepath.Join("..", "testdata", "golden", "basic.v")
	if *update {
		os.MkdirAll(filepath.Dir(path), 0o755)
		if err := os.WriteFile(path, []byte(got), 0o644); err != nil {
			t.Fatal(err)
		}
		return
	}
	want, err := os.ReadFile(path)
	if err != nil {
		t.Fatal(err)
	}
	if string(want) != got {
		gl, wl := strings.Split(got, "\n"), strings.Split(string(want), "\n")
		for i := 0; i < len(gl) && i < len(wl); i++ {
			if gl[i] != wl[i] {
				t.Fatalf("golden mismatch at line %d:\n got: %s\nwant: %s", i+1, gl[i], wl[i])
			}
		}
		t.Fatalf("golden mismatch: %d lines, want %d", len(gl), len(wl))
	}
}

// every function of testdata/bad is refused, for the reason its `// want:` comment states
func TestBadRefused(t *testing.T) {
	p := Load("../testdata", "fixture", "bad")
	T0 := New(p, "go_")
	T0.Translate("clock#extern")
	T0.Translate("S.ext#extern")
	res := map[string]*Func{}
	for pass := 0; pass < 3; pass++ {
		for n := range p.Decls {
			if f := res[n]; (f == nil || f.Err != nil) && n != "clock" && n != "S.ext" {
				res[n] = T0.Translate(n)
			}
		}
	}
	src, err := os.ReadFile("../testdata/bad/bad.go")
	if err != nil {
		t.Fatal(err)
	}
	re := regexp.MustCompile(`// want: (.*)\nfunc (?:\((?:\w+ )?\*?(\w+)\) )?(\w+)`)
	ms := re.FindAllStringSubmatch(string(src), -1)
	if len(ms) < 25 {
		t.Fatalf("only %d want comments found", len(ms))
	}
	for _, m := range ms {
		name := m[3]
		if m[2] != "" {
			name = m[2] + "." + m[3]
		}
		f := res[name]
		switch {
		case f == nil:
			t.Errorf("%s: not seen", name)
		case f.Err == nil:
			t.Errorf("%s: translated, want refusal (%s):\n%s", name, m[1], f.Text)
		case !strings.Contains(f.Err.Error(), m[1]):
			t.Errorf("%s: refused with %q, want %q", name, f.Err, m[1])
		case !strings.Contains(f.Text, "NOT TRANSLATABLE"):
			t.Errorf("%s: no NOT TRANSLATABLE comment in the output", name)
		}
	}
}

// a refused callee poisons its callers, whatever the order the names are given in
func TestCalleeOrder(t *testing.T) {
	T := New(Load("../testdata", "fixture", "basic"), "go_")
	if f := T.Translate("CallPlain"); f.Err == nil || !strings.Contains(f.Err.Error(), "untranslated function AddU8") {
		t.Errorf("CallPlain before AddU8: %v", f.Err)
	}
	if f := T.Translate("NoSuchFunction"); f.Err == nil {
		t.Errorf("missing function accepted")
	}
}

// differential validation of every fixture against the compiled Go code (needs coqc and the
// compiled coq/Lib/GoSem.vo; skipped with -short)
func TestDifferential(t *testing.T) {
	if testing.Short() {
		t.Skip("-short")
	}
	if _, err := exec.LookPath("coqc"); err != nil {
		t.Skip("coqc not found")
	}
	coq, _ := filepath.Abs("../../../coq")
	if _, err := os.Stat(filepath.Join(coq, "Lib", "GoSem.vo")); err != nil {
		t.Skip("coq/Lib/GoSem.vo not built")
	}
	_, res := scanAll(Load("../testdata", "fixture", "basic"))
	var names []string
	for n := range res {
		names = append(names, n)
	}
	sort.Strings(names)
	// callees first: translate in dependency order by repeating (the validator reports the rest)
	T := New(Load("../testdata", "fixture", "basic"), "go_")
	ordered := append([]string{}, foreign...)
	done := map[string]bool{}
	for _, n := range foreign {
		T.Translate(n)
		done[n] = true
	}
	for progress := true; progress; {
		progress = false
		for _, n := range names {
			if !done[n] && T.Translate(n).Err == nil {
				done[n], progress = true, true
				ordered = append(ordered, n)
			}
		}
	}
	work := t.TempDir()
	args := append([]string{"run", "./validate", "-n", "40", "-sparecap", "../gofunc/testdata", "fixture", "basic", coq, work, "go_"}, ordered...)
	cmd := exec.Command("go", args...)
	cmd.Dir = ".."
	cmd.Env = append(os.Environ(), "GOFLAGS=-mod=mod", "GOPROXY=off", "GOSUMDB=off", "GOTOOLCHAIN=local")
	out, err := cmd.CombinedOutput()
	if err != nil {
		s := string(out)
		if len(s) > 4000 {
			s = s[len(s)-4000:]
		}
		t.Fatalf("validate: %v\n%s", err, s)
	}
	if !strings.Contains(string(out), "agree with the compiled Go code") {
		t.Fatalf("unexpected output:\n%s", out)
	}
}
