package tr

import (
	"go/ast"
	"go/build"
	"go/importer"
	"go/parser"
	"go/token"
	"go/types"
	"os"
	"path/filepath"
	"sort"
	"strings"
)

// Pkg is one type-checked package of the repository (nothing is fetched: packages of the
// module are parsed from <root>, the standard library is type-checked from GOROOT source,
// third-party imports become empty packages — a function that needs them is not translatable).
type Pkg struct {
	Root  string // directory of the module
	Mod   string // module path
	Path  string // import path of this package
	Fset  *token.FileSet
	Types *types.Package
	Info  *types.Info
	Files []*ast.File
	Decls map[string]*ast.FuncDecl // "F" or "T.M"
}

type imp struct {
	root, mod string
	fset      *token.FileSet
	std       types.Importer
	cache     map[string]*types.Package
}

func (im *imp) Import(path string) (*types.Package, error) {
	if p, ok := im.cache[path]; ok {
		return p, nil
	}
	if path == im.mod || strings.HasPrefix(path, im.mod+"/") {
		rel := strings.TrimPrefix(strings.TrimPrefix(path, im.mod), "/")
		p, _, _ := im.check(rel, path)
		return p, nil
	}
	first := strings.Split(path, "/")[0]
	if !strings.Contains(first, ".") {
		if p, err := im.std.Import(path); err == nil {
			im.cache[path] = p
			return p, nil
		}
	}
	p := types.NewPackage(path, path[strings.LastIndex(path, "/")+1:])
	p.MarkComplete()
	im.cache[path] = p
	return p, nil
}

// goFiles selects the files of a directory the way the go tool does without build tags
// (so the `//go:build verif` hooks are left out, *_test.go too).
func goFiles(dir string) []string {
	var names []string
	if bp, err := build.Default.ImportDir(dir, 0); err == nil {
		names = append(append(names, bp.GoFiles...), bp.CgoFiles...)
	} else if ents, err2 := os.ReadDir(dir); err2 == nil { // e.g. several packages in one directory
		for _, e := range ents {
			n := e.Name()
			if strings.HasSuffix(n, ".go") && !strings.HasSuffix(n, "_test.go") && !strings.Contains(n, "verif") {
				names = append(names, n)
			}
		}
	}
	sort.Strings(names)
	return names
}

func (im *imp) check(rel, path string) (*types.Package, *types.Info, []*ast.File) {
	dir := filepath.Join(im.root, rel)
	var files []*ast.File
	for _, n := range goFiles(dir) {
		if f, err := parser.ParseFile(im.fset, filepath.Join(dir, n), nil, 0); f != nil && err == nil {
			files = append(files, f)
		}
	}
	info := &types.Info{Types: map[ast.Expr]types.TypeAndValue{}, Uses: map[*ast.Ident]types.Object{}, Defs: map[*ast.Ident]types.Object{}, Selections: map[*ast.SelectorExpr]*types.Selection{}, Scopes: map[ast.Node]*types.Scope{}}
	conf := types.Config{Importer: im, Error: func(error) {}, FakeImportC: true}
	p, _ := conf.Check(path, im.fset, files, info)
	if p == nil {
		p = types.NewPackage(path, "x")
	}
	im.cache[path] = p
	return p, info, files
}

// Load type-checks the package in directory <root>/<rel> of module mod.
func Load(root, mod, rel string) *Pkg {
	fset := token.NewFileSet()
	im := &imp{root: root, mod: mod, fset: fset, std: importer.ForCompiler(fset, "source", nil), cache: map[string]*types.Package{}}
	path := mod
	if rel != "." && rel != "" {
		path = mod + "/" + rel
	}
	tp, info, files := im.check(rel, path)
	p := &Pkg{Root: root, Mod: mod, Path: path, Fset: fset, Types: tp, Info: info, Files: files, Decls: map[string]*ast.FuncDecl{}}
	for _, f := range files {
		for _, d := range f.Decls {
			fd, ok := d.(*ast.FuncDecl)
			if !ok {
				continue
			}
			p.Decls[DeclName(fd)] = fd
		}
	}
	return p
}

// LoadImport loads another package by import path: a package of the same module from its
// directory, anything else from GOROOT/src (the standard library).
func (p *Pkg) LoadImport(path string) *Pkg {
	if path == p.Mod || strings.HasPrefix(path, p.Mod+"/") {
		rel := strings.TrimPrefix(strings.TrimPrefix(path, p.Mod), "/")
		if rel == "" {
			rel = "."
		}
		return Load(p.Root, p.Mod, rel)
	}
	return Load(filepath.Join(build.Default.GOROOT, "src", filepath.FromSlash(path)), path, ".")
}

// DeclName is "F" for a function and "T.M" for a method of T or *T.
func DeclName(fd *ast.FuncDecl) string {
	name := fd.Name.Name
	if fd.Recv != nil && len(fd.Recv.List) == 1 {
		rt := fd.Recv.List[0].Type
		if s, ok := rt.(*ast.StarExpr); ok {
			rt = s.X
		}
		if ix, ok := rt.(*ast.IndexExpr); ok { // generic receiver T[K]
			rt = ix.X
		}
		if id, ok := rt.(*ast.Ident); ok {
			name = id.Name + "." + name
		}
	}
	return name
}
