package tr

// Writes to memory: elements of integer slices / arrays and of slices of structs, copy, make,
// calls of functions that write, and the checks that keep the value model (a slice is the
// list of its elements) sound in the presence of aliasing.  Rules: see ../main.go.

import (
	"fmt"
	"go/ast"
	"go/token"
	"go/types"
	"hash/crc32"
	"sort"
	"strings"
)

// ---------------------------------------------------------------- error codes

// an error value is a Z: 0 = nil, 1 = any error made on the spot (fmt.Errorf, errors.New),
// a package-level error variable = a code derived from its qualified name (stable from run to
// run; the table is emitted at the head of the generated file)
func (T *Translator) errCode(v *types.Var) string {
	return T.errCodeNamed(v.Pkg().Path(), v.Pkg().Name(), v.Name())
}

func (T *Translator) errCodeNamed(pkgPath, pkgName, varName string) string {
	q := pkgPath + "." + varName
	name := "go_err_" + pkgName + "_" + varName
	if T.Errs == nil {
		T.Errs = map[string]*ErrVar{}
	}
	if e := T.Errs[name]; e != nil {
		if e.Qual != q {
			return "0 (* two error variables called " + name + " *)"
		}
		return name
	}
	code := int64(crc32.ChecksumIEEE([]byte(q))%2147483000) + 2
	for _, e := range T.Errs {
		if e.Code == code {
			code++
		}
	}
	T.Errs[name] = &ErrVar{Name: name, Qual: q, Code: code, Pkg: pkgPath, Var: varName}
	return name
}

// ErrVar is one line of the table of error codes.
type ErrVar struct {
	Name, Qual, Pkg, Var string
	Code                 int64
}

func (T *Translator) errTable() string {
	var names []string
	for n := range T.Errs {
		names = append(names, n)
	}
	sort.Strings(names)
	var b strings.Builder
	if len(names) > 0 {
		b.WriteString("(* error values are Z: 0 = nil, 1 = an error made on the spot (fmt.Errorf, errors.New), and\n   one code per package-level error variable (derived from its qualified name) *)\n")
	}
	for _, n := range names {
		fmt.Fprintf(&b, "Definition %s : Z := %d. (* %s *)\n", n, T.Errs[n].Code, T.Errs[n].Qual)
	}
	if len(names) > 0 {
		b.WriteString("\n")
	}
	return b.String()
}

// a package-level variable of type error, named directly or through its package
func (t *ft) errVar(e ast.Expr) (*types.Var, bool) {
	var id *ast.Ident
	switch x := unparen(e).(type) {
	case *ast.Ident:
		id = x
	case *ast.SelectorExpr:
		if t.info.Selections[x] != nil {
			return nil, false
		}
		id = x.Sel
	default:
		return nil, false
	}
	v, ok := t.info.Uses[id].(*types.Var)
	if !ok || v.Pkg() == nil || v.Parent() != v.Pkg().Scope() || KindOf(v.Type()) != KErr {
		return nil, false
	}
	return v, true
}

func isNil(info *types.Info, e ast.Expr) bool {
	id, ok := unparen(e).(*ast.Ident)
	if !ok {
		return false
	}
	_, isnil := info.Uses[id].(*types.Nil)
	return isnil
}

// ---------------------------------------------------------------- destinations

// dest describes where a write goes: a variable or input of list kind (base), possibly a
// window base[lo:hi] of it
type dest struct {
	base   string // Gallina name of the list
	v      *types.Var
	in     *Input
	lo, hi string // "" = absent
}

func (d *dest) whole() bool { return d.lo == "" && d.hi == "" }

// the list-valued location an expression names: x, p.f, and windows x[a:], x[a:b], x[:b], x[:]
func (t *ft) dest(e ast.Expr) (*dest, bool) {
	switch x := unparen(e).(type) {
	case *ast.Ident:
		v, ok := t.info.Uses[x].(*types.Var)
		if !ok {
			return nil, false
		}
		if n, ok := t.names[v]; ok && KindOf(v.Type()) == KList {
			return &dest{base: n, v: v, in: t.scalar[v]}, true
		}
	case *ast.SelectorExpr, *embedExpr:
		if p, path, leaf, ok := t.pathOf(x); ok && len(path) > 0 && KindOf(leaf) == KList {
			n := t.input(p, path, false, leaf)
			return &dest{base: n, in: t.inputs[inputKey(p, path)]}, true
		}
	case *ast.SliceExpr:
		d, ok := t.dest(x.X)
		if !ok || !d.whole() || x.Slice3 {
			return nil, false
		}
		if x.Low != nil {
			d.lo = t.expr(x.Low)
		}
		if x.High != nil {
			d.hi = t.expr(x.High)
			if d.lo == "" {
				d.lo = "0"
			}
		}
		return d, true
	}
	return nil, false
}

func inputKey(param int, path []string) string {
	return fmt.Sprintf("%d.%s", param, strings.Join(path, "."))
}

// put the new content w of the window back into its base (w has the length of the window)
func (t *ft) storeBack(d *dest, w string) {
	switch {
	case d.whole():
		t.letAs(d.base, w)
	default:
		lo := d.lo
		if lo == "" {
			lo = "0"
		}
		t.letAs(d.base, fmt.Sprintf("(go_splice %s %s %s)", d.base, lo, w))
	}
}

// ---------------------------------------------------------------- slices of structs

// q[i].f for q a parameter / field of type []*S or []S: the list standing for field f of the
// elements (all such lists of one slice have its length; the elements are ASSUMED non-nil and
// pairwise distinct), and the index expression
func (t *ft) elemField(e ast.Expr) (list string, in *Input, idx ast.Expr, ok bool) {
	sel, isSel := unparen(e).(*ast.SelectorExpr)
	if !isSel {
		return "", nil, nil, false
	}
	s := t.info.Selections[sel]
	if s == nil || s.Kind() != types.FieldVal || len(s.Index()) != 1 {
		return "", nil, nil, false
	}
	ix, isIx := unparen(sel.X).(*ast.IndexExpr)
	if !isIx {
		return "", nil, nil, false
	}
	p, path, leaf, pok := t.pathOf(ix.X)
	if !pok {
		return "", nil, nil, false
	}
	if _, isSt := structElem(leaf); !isSt || KindOf(s.Type()) == KNone || KindOf(s.Type()) == KList {
		return "", nil, nil, false
	}
	full := append(append([]string{}, path...), "[]", sel.Sel.Name)
	n := t.inputAs(p, full, s.Type(), KList)
	return n, t.inputs[inputKey(p, full)], ix.Index, true
}

// all representable fields of the elements of a slice of structs, in declaration order
func (t *ft) elemFields(e ast.Expr) (lists []string, ins []*Input, ok bool) {
	p, path, leaf, pok := t.pathOf(e)
	if !pok {
		return nil, nil, false
	}
	st, isSt := structElem(leaf)
	if !isSt {
		return nil, nil, false
	}
	for i := 0; i < st.NumFields(); i++ {
		f := st.Field(i)
		if k := KindOf(f.Type()); k == KNone || k == KList {
			continue // travels with the element, invisible here
		}
		full := append(append([]string{}, path...), "[]", f.Name())
		lists = append(lists, t.inputAs(p, full, f.Type(), KList))
		ins = append(ins, t.inputs[inputKey(p, full)])
	}
	return lists, ins, len(lists) > 0
}

// ---------------------------------------------------------------- what a piece of code assigns

// targets reports the locations the nodes assign: local variables (fv) and inputs (fi: fields
// of parameters, and parameters themselves when they are written through).  through = the
// write goes to the memory behind a slice (element write, copy, writing call), not to the
// variable.
func (t *ft) targets(parts []ast.Node, fv func(v *types.Var, through bool, pos token.Pos), fi func(in *Input, through bool, pos token.Pos)) {
	var lhs func(e ast.Expr, through bool, pos token.Pos)
	lhs = func(e ast.Expr, through bool, pos token.Pos) {
		switch x := unparen(e).(type) {
		case nil:
		case *ast.Ident:
			if v := t.localVar(x); v != nil {
				fv(v, through, pos)
				if in := t.scalar[v]; in != nil && through {
					if _, isSl := v.Type().Underlying().(*types.Slice); isSl { // (an array parameter is a copy)
						fi(in, true, pos)
					}
				}
			}
		case *ast.SelectorExpr:
			if _, in, _, ok := t.elemField(x); ok {
				fi(in, true, pos)
			} else if in := t.writtenPath(x); in != nil {
				fi(in, through, pos)
			}
		case *ast.IndexExpr:
			if _, ins, ok := t.elemFields(x.X); ok {
				for _, in := range ins {
					fi(in, true, pos)
				}
			} else {
				lhs(x.X, true, pos)
			}
		case *ast.SliceExpr:
			lhs(x.X, true, pos)
		case *embedExpr:
			if in := t.writtenPath(x); in != nil {
				fi(in, through, pos)
			}
		}
	}
	for _, p := range parts {
		ast.Inspect(p, func(n ast.Node) bool {
			switch y := n.(type) {
			case *ast.AssignStmt:
				for _, l := range y.Lhs {
					lhs(l, false, y.Pos())
				}
			case *ast.IncDecStmt:
				lhs(y.X, false, y.Pos())
			case *ast.RangeStmt:
				if y.Tok == token.ASSIGN {
					lhs(y.Key, false, y.Pos())
					lhs(y.Value, false, y.Pos())
				}
			case *ast.CallExpr:
				t.callTargets(y, func(a ast.Expr) { lhs(a, true, y.Pos()) }, func(in *Input) { fi(in, true, y.Pos()) })
			}
			return true
		})
	}
}

// what a call writes: slice arguments (fa: the argument expression, written through) and
// fields of struct arguments (fi: the caller's input for that field)
func (t *ft) callTargets(x *ast.CallExpr, fa func(ast.Expr), fi func(*Input)) {
	fo, recv, bi := t.resolve(x)
	if bi == "copy" && len(x.Args) == 2 {
		fa(x.Args[0])
		return
	}
	if fo == nil {
		return
	}
	actual := x.Args
	if recv != nil {
		actual = append([]ast.Expr{recv}, x.Args...)
	}
	if callee := t.calleeOf(fo, actual); callee != nil && callee.Err == nil {
		for _, w := range callee.Written {
			if w.Param >= len(actual) {
				continue
			}
			a := actual[w.Param]
			if len(w.Path) == 0 {
				fa(a)
				continue
			}
			if p, path, _, ok := t.pathOf(a); ok {
				full := append(append([]string{}, path...), w.Path...)
				t.inputAs(p, full, w.Type, w.Kind)
				fi(t.inputs[inputKey(p, full)])
			}
		}
		return
	}
	if t.T.ExternW[key(fo)] {
		for _, a := range x.Args {
			if KindOf(t.typeOf(a)) == KList {
				fa(a)
			}
		}
	}
}

// the function a call invokes (nil for builtins, conversions, function values), its receiver
// expression if it is a method, and the name of the builtin if it is one
func (t *ft) resolve(x *ast.CallExpr) (fo *types.Func, recv ast.Expr, builtin string) {
	var obj types.Object
	switch f := unparen(x.Fun).(type) {
	case *ast.Ident:
		obj = t.info.Uses[f]
	case *ast.SelectorExpr:
		if sel := t.info.Selections[f]; sel != nil {
			if sel.Kind() != types.MethodVal {
				return nil, nil, ""
			}
			obj, recv = sel.Obj(), f.X
			if ix := sel.Index(); len(ix) > 1 { // a method promoted from an embedded field: name the field
				ty, e := t.typeOf(f.X), &embedExpr{Expr: f.X}
				for _, i := range ix[:len(ix)-1] {
					if p, ok := ty.Underlying().(*types.Pointer); ok {
						ty = p.Elem()
					}
					st, ok := ty.Underlying().(*types.Struct)
					if !ok {
						return nil, nil, ""
					}
					e.names, ty = append(e.names, st.Field(i).Name()), st.Field(i).Type()
				}
				e.ty = ty
				recv = e
			}
			if m := t.boundMethod(f.X, f.Sel.Name); m != nil { // a method of an interface parameter bound to a type
				obj = m
			}
		} else {
			obj = t.info.Uses[f.Sel]
		}
	}
	if b, ok := obj.(*types.Builtin); ok {
		return nil, nil, b.Name()
	}
	fo, _ = obj.(*types.Func)
	return fo, recv, ""
}

// the translated function a call of fo with these arguments reaches: fo itself, or - when an
// argument is an interface parameter bound to a type ("F@T") - its instance for that type
func (t *ft) calleeOf(fo *types.Func, actual []ast.Expr) *Func {
	k := key(fo)
	if t.fn.Bind != "" {
		for _, a := range actual {
			if id, ok := unparen(a).(*ast.Ident); ok {
				if v, ok := t.info.Uses[id].(*types.Var); ok && t.bound[v] != nil {
					if c := t.T.Funcs[k+"@"+t.fn.Bind]; c != nil {
						return c
					}
				}
			}
		}
	}
	for _, a := range actual { // an argument of a named type for which an instance "F@T" exists
		ty := t.typeOf(a)
		if ty == nil {
			continue
		}
		if p, ok := ty.(*types.Pointer); ok {
			ty = p.Elem()
		}
		if n, ok := ty.(*types.Named); ok {
			if c := t.T.Funcs[k+"@"+n.Obj().Name()]; c != nil {
				return c
			}
		}
	}
	return t.T.Funcs[k]
}

// h.M for h an interface parameter bound to type T: the method M of T
func (t *ft) boundMethod(recv ast.Expr, name string) *types.Func {
	id, ok := unparen(recv).(*ast.Ident)
	if !ok {
		return nil
	}
	v, ok := t.info.Uses[id].(*types.Var)
	if !ok || t.bound[v] == nil {
		return nil
	}
	obj, _, _ := types.LookupFieldOrMethod(t.bound[v], true, t.T.Pkg.Types, name)
	m, _ := obj.(*types.Func)
	return m
}

// ---------------------------------------------------------------- aliasing

// The value model (a slice is the list of its elements) is sound only while no two names
// stand for overlapping memory that is written.  aliasCheck refuses the function unless
//   - a local slice variable or parameter that is written through is assigned at most at its
//     declaration (a parameter: never), and
//   - whenever a slice variable or field gets its value from another slice, array or field
//     (x := y, x = y[i:j], x := T(y), x := f(y)), every write through x or y comes textually
//     before that statement, and the statement is not inside a loop.
func (t *ft) aliasCheck(body *ast.BlockStmt, stmts []ast.Stmt) {
	var loops []ast.Node
	ast.Inspect(body, func(n ast.Node) bool {
		switch n.(type) {
		case *ast.ForStmt, *ast.RangeStmt:
			loops = append(loops, n)
		}
		return true
	})
	inLoop := func(p token.Pos) bool {
		for _, l := range loops {
			if inside(p, l) {
				return true
			}
		}
		return false
	}
	isSlice := func(ty types.Type) bool {
		if ty == nil {
			return false
		}
		_, ok := ty.Underlying().(*types.Slice)
		return ok
	}
	// the name of the list an expression of slice type shares its memory with ("" = fresh)
	var carriers func(e ast.Expr) []string
	carriers = func(e ast.Expr) []string {
		switch x := unparen(e).(type) {
		case *ast.Ident:
			if v, ok := t.info.Uses[x].(*types.Var); ok {
				if n, ok := t.names[v]; ok && KindOf(v.Type()) == KList {
					return []string{n}
				}
			}
		case *ast.SelectorExpr:
			if p, path, leaf, ok := t.pathOf(x); ok && len(path) > 0 && KindOf(leaf) == KList {
				return []string{t.input(p, path, false, leaf)}
			}
		case *ast.SliceExpr:
			return carriers(x.X)
		case *ast.CallExpr:
			if tv, ok := t.info.Types[x.Fun]; ok && tv.IsType() && len(x.Args) == 1 {
				if _, isStr := t.typeOf(x.Args[0]).Underlying().(*types.Basic); isStr {
					return nil // []byte(s) of a string: a copy
				}
				return carriers(x.Args[0])
			}
			if _, _, bi := t.resolve(x); bi == "make" {
				return nil
			}
			var out []string
			for _, a := range x.Args {
				if isSlice(t.typeOf(a)) || func() bool { _, ok := arrayLen(t.typeOf(a)); return ok }() {
					out = append(out, carriers(a)...)
				}
			}
			return out
		}
		return nil
	}
	plain := map[string]int{} // plain assignments to slice variables
	check := func(l ast.Expr, r ast.Expr, pos token.Pos, isDecl bool) {
		lt := t.typeOf(l)
		if !isSlice(lt) || KindOf(lt) != KList {
			return
		}
		var x string
		switch y := unparen(l).(type) {
		case *ast.Ident:
			v := t.localVar(y)
			if v == nil {
				return
			}
			x = t.names[v]
			if x == "" { // not declared yet (this is its declaration): name it as declare will
				x = t.declare(v)
			}
			plain[x]++
			if t.paramIndex(v) >= 0 {
				plain[x]++ // a parameter has its value from the start
			}
		case *ast.SelectorExpr:
			cs := carriers(y)
			if len(cs) == 0 {
				return
			}
			x = cs[0]
		default:
			return
		}
		if r == nil {
			return
		}
		for _, y := range carriers(r) {
			late := inLoop(pos)
			for _, n := range []string{x, y} {
				for _, wp := range t.writePos[n] {
					if wp >= pos {
						late = true
					}
				}
			}
			if late && (len(t.writePos[x]) > 0 || len(t.writePos[y]) > 0) {
				t.fail("%s and %s share memory that is written afterwards (or in a loop)", x, y)
			}
		}
	}
	for _, st := range stmts {
		ast.Inspect(st, func(n ast.Node) bool {
			switch y := n.(type) {
			case *ast.AssignStmt:
				if y.Tok != token.ASSIGN && y.Tok != token.DEFINE {
					return true
				}
				for i, l := range y.Lhs {
					var r ast.Expr
					if len(y.Rhs) == len(y.Lhs) {
						r = y.Rhs[i]
					} else if len(y.Rhs) == 1 {
						r = y.Rhs[0]
					}
					check(l, r, y.Pos(), y.Tok == token.DEFINE)
				}
			case *ast.ValueSpec:
				for i, l := range y.Names {
					var r ast.Expr
					if len(y.Values) == len(y.Names) {
						r = y.Values[i]
					} else if len(y.Values) == 1 {
						r = y.Values[0]
					}
					check(l, r, y.Pos(), true)
				}
			}
			return true
		})
	}
	for n, k := range plain {
		if k > 1 && len(t.writePos[n]) > 0 {
			t.fail("slice variable %s is written through and assigned more than once", n)
		}
	}
}

// the method "T.M" of package pkg, declared or not (an interface method has no declaration)
func lookupMethod(pkg *Pkg, decl string) *types.Func {
	i := strings.Index(decl, ".")
	if i < 0 {
		return nil
	}
	obj := pkg.Types.Scope().Lookup(decl[:i])
	if obj == nil {
		return nil
	}
	m, _, _ := types.LookupFieldOrMethod(types.NewPointer(obj.Type()), true, pkg.Types, decl[i+1:])
	if m == nil {
		m, _, _ = types.LookupFieldOrMethod(obj.Type(), true, pkg.Types, decl[i+1:])
	}
	f, _ := m.(*types.Func)
	return f
}

// which field paths of type []interface{} are used as lists (indexed, assigned, passed on),
// not only under len(): these are inputs of type list Z, the others just their length
func (t *ft) findListUses(stmts []ast.Stmt) {
	for _, st := range stmts {
		var stack []ast.Node
		ast.Inspect(st, func(n ast.Node) bool {
			if n == nil {
				stack = stack[:len(stack)-1]
				return true
			}
			if e, ok := n.(ast.Expr); ok {
				if ty := t.typeOf(e); ty != nil && tokList(ty) {
					if p, path, _, ok := t.pathOf(e); ok {
						underLen := false
						if len(stack) > 0 {
							if c, ok := stack[len(stack)-1].(*ast.CallExpr); ok {
								if _, _, bi := t.resolve(c); bi == "len" {
									underLen = true
								}
							}
						}
						if !underLen {
							t.listUsed[inputKey(p, path)] = true
						}
					}
				}
			}
			stack = append(stack, n)
			return true
		})
	}
	// a callee that takes the list makes it a list here too
	for _, st := range stmts {
		ast.Inspect(st, func(n ast.Node) bool {
			c, ok := n.(*ast.CallExpr)
			if !ok {
				return true
			}
			fo, recv, _ := t.resolve(c)
			if fo == nil {
				return true
			}
			actual := c.Args
			if recv != nil {
				actual = append([]ast.Expr{recv}, c.Args...)
			}
			if callee := t.calleeOf(fo, actual); callee != nil && callee.Err == nil {
				for _, in := range callee.Inputs {
					if in.Param < len(actual) && len(in.Path) > 0 && !in.LenOnly && in.Type != nil && tokList(in.Type) {
						if p, path, _, ok := t.pathOf(actual[in.Param]); ok {
							t.listUsed[inputKey(p, append(append([]string{}, path...), in.Path...))] = true
						}
					}
				}
			}
			return true
		})
	}
}

// ---------------------------------------------------------------- intrinsics

// bytes.Buffer is not translated from its source: a value of that type is the list of its
// unread bytes, and these methods are the go_buf_* functions of coq/Lib/GoSem.v (the
// documented behaviour of the standard library type; io.EOF enters as its error code).
func (T *Translator) intrinsics() {
	list := func(i int, written bool) *Input {
		return &Input{Name: fmt.Sprintf("a%d", i), Kind: KList, Param: i, Written: written}
	}
	z := func(i int) *Input { return &Input{Name: fmt.Sprintf("a%d", i), Kind: KZ, Param: i} }
	intT, errT, byteT := types.Typ[types.Int], types.Universe.Lookup("error").Type(), types.Typ[types.Uint8]
	add := func(k, coq string, nparams int, inputs []*Input, res []Kind, resGo []types.Type, written []*Input) {
		f := &Func{Name: k, Coq: coq, Params: make([]*types.Var, nparams), Inputs: inputs, ResGo: resGo, Written: written}
		f.Results = append(append([]Kind{}, res...), make([]Kind, 0)...)
		for _, w := range written {
			f.Results = append(f.Results, w.Kind)
		}
		T.Funcs[k] = f
	}
	b0, p1 := list(0, true), list(1, false)
	add("(bytes.Buffer).Write", "go_buf_write", 2, []*Input{b0, p1}, []Kind{KZ, KErr}, []types.Type{intT, errT}, []*Input{b0})
	add("(bytes.Buffer).WriteByte", "go_buf_write_byte", 2, []*Input{b0, z(1)}, []Kind{KErr}, []types.Type{errT}, []*Input{b0})
	p1w := list(1, true)
	add("(bytes.Buffer).Read", "go_buf_read go_err_io_EOF", 2, []*Input{b0, p1w}, []Kind{KZ, KErr}, []types.Type{intT, errT}, []*Input{b0, p1w})
	add("(bytes.Buffer).ReadByte", "go_buf_read_byte go_err_io_EOF", 1, []*Input{b0}, []Kind{KZ, KErr}, []types.Type{byteT, errT}, []*Input{b0})
	r0 := list(0, false)
	add("(bytes.Buffer).Bytes", "go_buf_bytes", 1, []*Input{r0}, []Kind{KList}, []types.Type{types.NewSlice(byteT)}, nil)
	add("(bytes.Buffer).Len", "go_len", 1, []*Input{r0}, []Kind{KZ}, []types.Type{intT}, nil)
}

// x.f1.f2 where the fields are embedded ones left implicit in the source (b.WriteByte for
// b.Buffer.WriteByte)
type embedExpr struct {
	ast.Expr
	names []string
	ty    types.Type
}
