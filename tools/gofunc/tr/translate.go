// Package tr translates a subset of Go functions into Gallina.  The rules are stated in
// ../main.go (the head of that file is the reference); this file implements them.
package tr

import (
	"fmt"
	"go/ast"
	"go/constant"
	"go/token"
	"go/types"
	"path/filepath"
	"sort"
	"strings"
)

// Kind is the Gallina type a Go value is represented by.
type Kind int

const (
	KNone Kind = iota
	KZ         // every integer type: Z
	KBool      // bool
	KList      // []intN / []uintN / [N]intN / string (its bytes) / bytes.Buffer (its unread bytes): list Z
	KErr       // error: Z (0 = nil, see errCode)
	KTok       // interface{}: an opaque token, Z (0 = nil)
)

func (k Kind) Coq() string {
	switch k {
	case KZ, KErr, KTok:
		return "Z"
	case KBool:
		return "bool"
	case KList:
		return "list Z"
	}
	return "?"
}

func (k Kind) zero() string {
	switch k {
	case KBool:
		return "false"
	case KList:
		return "nil"
	}
	return "0"
}

// width and signedness of an integer type (word-sized types are taken as 64 bit)
func intInfo(ty types.Type) (bits int, signed bool, ok bool) {
	if ty == nil {
		return 0, false, false
	}
	b, isb := ty.Underlying().(*types.Basic)
	if !isb {
		return 0, false, false
	}
	switch b.Kind() {
	case types.Int8:
		return 8, true, true
	case types.Int16:
		return 16, true, true
	case types.Int32:
		return 32, true, true
	case types.Int64, types.Int:
		return 64, true, true
	case types.Uint8:
		return 8, false, true
	case types.Uint16:
		return 16, false, true
	case types.Uint32:
		return 32, false, true
	case types.Uint64, types.Uint, types.Uintptr:
		return 64, false, true
	}
	return 0, false, false
}

func KindOf(ty types.Type) Kind {
	if ty == nil {
		return KNone
	}
	if _, _, ok := intInfo(ty); ok {
		return KZ
	}
	switch u := ty.Underlying().(type) {
	case *types.Basic:
		if u.Kind() == types.Bool || u.Kind() == types.UntypedBool {
			return KBool
		}
		if u.Kind() == types.String {
			return KList
		}
		if u.Kind() == types.UntypedInt || u.Kind() == types.UntypedRune {
			return KZ
		}
	case *types.Slice:
		if _, _, ok := intInfo(u.Elem()); ok {
			return KList
		}
		if KindOf(u.Elem()) == KTok {
			return KList
		}
	case *types.Array:
		if _, _, ok := intInfo(u.Elem()); ok {
			return KList
		}
	case *types.Interface:
		if types.Identical(ty, types.Universe.Lookup("error").Type()) {
			return KErr
		}
		if u.NumMethods() == 0 {
			return KTok
		}
	case *types.Struct:
		if isBytesBuffer(ty) {
			return KList
		}
	}
	return KNone
}

// bytes.Buffer is represented by its unread bytes (its methods are the go_buf_* of GoSem.v)
func isBytesBuffer(ty types.Type) bool {
	n, ok := ty.(*types.Named)
	return ok && n.Obj().Pkg() != nil && n.Obj().Pkg().Path() == "bytes" && n.Obj().Name() == "Buffer"
}

// the element struct of a slice of structs / of pointers to structs ([]*S, []S)
func structElem(ty types.Type) (*types.Struct, bool) {
	if ty == nil {
		return nil, false
	}
	sl, ok := ty.Underlying().(*types.Slice)
	if !ok {
		return nil, false
	}
	el := sl.Elem()
	if p, ok := el.Underlying().(*types.Pointer); ok {
		el = p.Elem()
	}
	if isBytesBuffer(el) {
		return nil, false
	}
	st, ok := el.Underlying().(*types.Struct)
	return st, ok
}

func arrayLen(ty types.Type) (int64, bool) {
	if ty == nil {
		return 0, false
	}
	a, ok := ty.Underlying().(*types.Array)
	if !ok {
		return 0, false
	}
	return a.Len(), true
}

// the zero value of a variable of type ty
func zeroOf(ty types.Type) string {
	if n, ok := arrayLen(ty); ok {
		return fmt.Sprintf("(go_zeros %d)", n)
	}
	return KindOf(ty).zero()
}

func pow2(n int) string {
	return constant.Shift(constant.MakeInt64(1), token.SHL, uint(n)).ExactString()
}

// the value e (any Z) converted to the integer type ty
func wrap(ty types.Type, e string) string {
	bits, signed, ok := intInfo(ty)
	if !ok {
		return e
	}
	if !signed {
		return fmt.Sprintf("((%s) mod %s)", e, pow2(bits))
	}
	return fmt.Sprintf("(((%s) + %s) mod %s - %s)", e, pow2(bits-1), pow2(bits), pow2(bits-1))
}

func lit(v constant.Value) string {
	s := v.ExactString()
	if strings.HasPrefix(s, "-") {
		return "(" + s + ")"
	}
	return s
}

// Input is one parameter of the generated definition.
type Input struct {
	Name    string     // Gallina name
	Kind    Kind       // its type (LenOnly: Z)
	Param   int        // index of the Go parameter it comes from (receiver = 0 for methods)
	Path    []string   // field path below that parameter (empty: the parameter itself)
	LenOnly bool       // the input is len(...) of a slice whose elements are not integers
	Type    types.Type // Go type of the parameter / field
	Written bool       // the function assigns this field: its final value is part of the result
	Oracle  string     // not "": the value returned by this call of a function outside the set
}

// forwarded: the callee has inputs that stand for what external calls inside it returned
// (Oracle); the caller gets one input of its own for each of them, per call site:
// x_<callee>_<k>_<name of the callee's input without x_> = that input of the k-th call of callee.
func (t *ft) forwarded(x *ast.CallExpr, fo *types.Func, callee *Func, want *Input) string {
	fw := t.oracles[x]
	if fw == nil {
		mark := fmt.Sprintf(" of %s)", fo.Name())
		n := 1
		seen := map[string]bool{}
		for _, o := range t.orcl {
			if i := strings.Index(o.Oracle, " (in call "); i >= 0 && strings.Contains(o.Oracle[i:], mark+"#") {
				k := o.Oracle[i:strings.Index(o.Oracle, "#")]
				if !seen[k] {
					seen[k] = true
					n++
				}
			}
		}
		for _, in := range callee.Inputs {
			if in.Oracle == "" {
				continue
			}
			h := strings.Index(in.Oracle, "#")
			tag := fmt.Sprintf("%s (in call %d%s#%s", in.Oracle[:h], n, mark, in.Oracle[h+1:])
			ni := &Input{Name: t.unique(fmt.Sprintf("x_%s_%d_%s", fo.Name(), n, strings.TrimPrefix(in.Name, "x_"))), Kind: in.Kind, Param: -1, Type: in.Type, Oracle: tag}
			fw = append(fw, ni)
			t.orcl = append(t.orcl, ni)
		}
		t.oracles[x] = fw
	}
	i := 0
	for _, in := range callee.Inputs {
		if in.Oracle == "" {
			continue
		}
		if in == want {
			return fw[i].Name
		}
		i++
	}
	return t.fail("internal: forwarded input of %s not found", callee.Name)
}

// Func is the result of translating one function.
type Func struct {
	Name    string // "F" or "T.M"; "import/path:F" for a function of another package
	Coq     string // name of the generated definition
	Pkg     *Pkg
	Decl    *ast.FuncDecl
	Obj     *types.Func
	Params  []*types.Var // receiver first
	Inputs  []*Input
	Results []Kind
	ResGo   []types.Type
	Extern  bool     // "F#extern": not translated; calls of F are inputs of their callers
	Bind    string   // "F@T": the interface parameters of F that T implements stand for a value of type T
	Prefix  int      // > 0: only the first Prefix statements of the body are translated ("F#prefix")
	Vars    []string // prefix: the variables handed on (Reached (...))
	Written []*Input // the fields it assigns (their final values follow the results)
	Monadic bool     // result type is `outcome ...` (the function can panic or loop)
	Fuel    bool     // first parameter is fuel : nat
	Loops   []string
	Err     error
	Text    string // the generated Gallina (or the NOT TRANSLATABLE comment)
}

func (f *Func) ResType() string {
	if f.Prefix > 0 {
		return "@RES@" // known once the prefix is translated; filled in by finish
	}
	var parts []string
	for _, k := range f.Results {
		parts = append(parts, k.Coq())
	}
	if len(parts) == 1 && !strings.Contains(parts[0], " ") {
		return parts[0]
	}
	return "(" + strings.Join(parts, " * ") + ")"
}

// Translator holds the functions translated so far (callees must come first).
type Translator struct {
	Pkg     *Pkg // the package the unqualified names belong to
	others  map[string]*Pkg
	Extern  map[string]bool    // functions declared "F#extern": what their calls return is an input
	ExternW map[string]bool    // ... declared "F#externw": they also write their slice arguments
	Errs    map[string]*ErrVar // the error variables met, by Gallina name
	Prefix  string
	Funcs   map[string]*Func // by key()
	Order   []*Func
}

func New(p *Pkg, prefix string) *Translator {
	T := &Translator{Pkg: p, others: map[string]*Pkg{}, Extern: map[string]bool{}, ExternW: map[string]bool{}, Prefix: prefix, Funcs: map[string]*Func{}}
	T.intrinsics()
	return T
}

func key(f *types.Func) string { return strings.Replace(f.FullName(), "*", "", -1) }

// something to put in front of a term: `bind (term) (fun name => ...)`, or `let name := term in ...`
type bind struct {
	name, term string
	let        bool
}

type cont func() string

type ctx struct {
	ret func(string) string // `return v`
	brk cont                // `break`
	cnt cont                // `continue`
}

type loopInfo struct {
	name    string
	state   []*types.Var
	pstate  []*Input // fields assigned in the loop: part of its state as well
	envDecl string   // parameters of the body definition (without fuel and state)
	envArgs string   // the same names as arguments
	fuel    bool
	stTy    string
	rng     *rangeInfo // for a range loop
}

// per-function translation state
type ft struct {
	T        *Translator
	info     *types.Info
	fn       *Func
	pure     bool // second pass: no outcome wrapper
	effect   bool // something can panic or loop
	effects  int  // how many such places were translated so far
	err      error
	names    map[*types.Var]string
	taken    map[string]bool
	inputs   map[string]*Input
	order    []*Input // path inputs in order of first use
	pre      []bind
	tmpN     int
	loopN    int
	loops    []string
	memo     map[ast.Stmt]*loopInfo
	touched  []map[*Input]bool
	fuel     []bool
	named    []*types.Var // named results
	written  []*Input     // fields the function assigns, in source order
	oracles  map[*ast.CallExpr][]*Input
	orcl     []*Input
	retIndex map[*ast.ReturnStmt]int   // prefix mode: the return statements of the function, numbered in source order
	prefix   int                       // prefix mode: number of statements
	scalar   map[*types.Var]*Input     // the inputs standing for parameters of a representable type
	bound    map[*types.Var]types.Type // "F@T": interface parameters standing for a T
	listUsed map[string]bool           // field paths of type []interface{} used as lists (not just under len)
	stmtCall *ast.CallExpr             // the call that may write (it is a statement, or the only right-hand side)
	writePos map[string][]token.Pos    // where each list-valued location (by Gallina name) is written through
	vars     []*types.Var              // prefix mode: the variables handed on
}

func (t *ft) fail(format string, a ...interface{}) string {
	if t.err == nil {
		t.err = fmt.Errorf(format, a...)
	}
	return "0"
}

func (t *ft) fresh(prefix string) string {
	for {
		t.tmpN++
		n := fmt.Sprintf("%s%d", prefix, t.tmpN)
		if !t.taken[n] {
			t.taken[n] = true
			return n
		}
	}
}

func (t *ft) unique(base string) string {
	n := base
	for i := 2; t.taken[n]; i++ {
		n = fmt.Sprintf("%s_%d", base, i)
	}
	t.taken[n] = true
	return n
}

func (t *ft) useFuel() {
	for i := range t.fuel {
		t.fuel[i] = true
	}
}

func (t *ft) paramIndex(v *types.Var) int {
	for i, p := range t.fn.Params {
		if p == v {
			return i
		}
	}
	return -1
}

// a selector chain of fields rooted at a parameter: p, p.f, p.f.g, (*p).f
func (t *ft) pathOf(e ast.Expr) (param int, path []string, leaf types.Type, ok bool) {
	switch x := e.(type) {
	case *embedExpr:
		i, p, _, ok := t.pathOf(x.Expr)
		if !ok {
			return 0, nil, nil, false
		}
		return i, append(append([]string{}, p...), x.names...), x.ty, true
	case *ast.ParenExpr:
		return t.pathOf(x.X)
	case *ast.StarExpr:
		return t.pathOf(x.X)
	case *ast.Ident:
		v, isVar := t.info.Uses[x].(*types.Var)
		if !isVar {
			return 0, nil, nil, false
		}
		i := t.paramIndex(v)
		if i < 0 {
			return 0, nil, nil, false
		}
		if bt := t.bound[v]; bt != nil {
			return i, nil, bt, true
		}
		return i, nil, v.Type(), true
	case *ast.SelectorExpr:
		sel := t.info.Selections[x]
		if sel == nil || sel.Kind() != types.FieldVal {
			return 0, nil, nil, false
		}
		i, p, _, ok := t.pathOf(x.X)
		if !ok {
			return 0, nil, nil, false
		}
		return i, append(append([]string{}, p...), x.Sel.Name), sel.Type(), true
	}
	return 0, nil, nil, false
}

// the input standing for a field path (or for the length of a slice of non-integers)
func (t *ft) input(param int, path []string, lenOnly bool, ty types.Type) string {
	if lenOnly {
		if t.listUsed[inputKey(param, path)] { // the slice itself is an input: its length is computed
			return "(go_len " + t.input(param, path, false, ty) + ")"
		}
		return t.inputAs(param, append(append([]string{}, path...), "#len"), ty, KZ)
	}
	kind := KindOf(ty)
	if kind == KNone {
		return t.fail("value of unsupported type %s", ty)
	}
	return t.inputAs(param, path, ty, kind)
}

// the input for this path, of the given kind (paths through "[]" are the fields of the
// elements of a slice of structs: one list per field)
func (t *ft) inputAs(param int, path []string, ty types.Type, kind Kind) string {
	lenOnly := len(path) > 0 && path[len(path)-1] == "#len"
	if lenOnly {
		path = path[:len(path)-1]
	}
	k := inputKey(param, path)
	if lenOnly {
		k += "#len"
	}
	in := t.inputs[k]
	if in == nil {
		base := "v_"
		if lenOnly {
			base = "n_"
		}
		base += t.fn.Params[param].Name()
		if t.fn.Params[param].Name() == "" || t.fn.Params[param].Name() == "_" {
			base += fmt.Sprintf("arg%d", param)
		}
		for _, p := range path {
			if p != "[]" {
				base += "_" + p
			}
		}
		in = &Input{Name: t.unique(base), Kind: kind, Param: param, Path: path, LenOnly: lenOnly, Type: ty}
		t.inputs[k] = in
		t.order = append(t.order, in)
	}
	for _, s := range t.touched {
		s[in] = true
	}
	return in.Name
}

func (t *ft) local(v *types.Var) (string, bool) {
	n, ok := t.names[v]
	return n, ok
}

func (t *ft) declare(v *types.Var) string {
	if n, ok := t.names[v]; ok { // the same declaration, reached again in a repeated continuation
		return n
	}
	if KindOf(v.Type()) == KNone {
		return t.fail("local variable %s of unsupported type %s", v.Name(), v.Type())
	}
	n := t.unique("v_" + v.Name())
	t.names[v] = n
	return n
}

func tuple(parts []string) string {
	if len(parts) == 1 {
		return parts[0]
	}
	return "(" + strings.Join(parts, ", ") + ")"
}

func ind(s string) string {
	return "  " + strings.Replace(s, "\n", "\n  ", -1)
}

// ---------------------------------------------------------------- expressions
// expr returns an atomic Gallina term (identifier, literal or parenthesised); whatever can
// panic on the way is appended to t.pre and bound before the statement that uses the term.

func (t *ft) isConst(e ast.Expr) (constant.Value, bool) {
	if tv, ok := t.info.Types[e]; ok && tv.Value != nil {
		return tv.Value, true
	}
	return nil, false
}

func (t *ft) typeOf(e ast.Expr) types.Type {
	if x, ok := e.(*embedExpr); ok {
		return x.ty
	}
	if tv, ok := t.info.Types[e]; ok {
		return tv.Type
	}
	if id, ok := e.(*ast.Ident); ok {
		if o := t.info.Uses[id]; o != nil {
			return o.Type()
		}
		if o := t.info.Defs[id]; o != nil {
			return o.Type()
		}
	}
	return nil
}

func (t *ft) expr(e ast.Expr) string {
	if v, ok := t.isConst(e); ok {
		switch v.Kind() {
		case constant.Int:
			return lit(v)
		case constant.Bool:
			if constant.BoolVal(v) {
				return "true"
			}
			return "false"
		}
		return t.fail("constant of unsupported kind: %s", v.String())
	}
	if isNil(t.info, e) {
		return t.fail("nil in a place where its type is not known to the translator")
	}
	if v, ok := t.errVar(e); ok {
		return t.T.errCode(v)
	}
	switch x := e.(type) {
	case *ast.ParenExpr:
		return t.expr(x.X)
	case *ast.Ident:
		v, isVar := t.info.Uses[x].(*types.Var)
		if !isVar {
			return t.fail("unsupported identifier %s", x.Name)
		}
		if n, ok := t.local(v); ok {
			return n
		}
		if t.paramIndex(v) >= 0 {
			return t.fail("parameter %s of type %s used as a value", x.Name, v.Type())
		}
		if v.Parent() == v.Pkg().Scope() {
			return t.fail("package-level variable %s", x.Name)
		}
		return t.fail("unsupported variable %s", x.Name)
	case *embedExpr:
		if p, path, leaf, ok := t.pathOf(x); ok && KindOf(leaf) != KNone {
			return t.input(p, path, false, leaf)
		}
		return t.fail("unsupported embedded field")
	case *ast.SelectorExpr:
		if l, _, idx, ok := t.elemField(x); ok { // q[i].f
			return t.bindTmp(fmt.Sprintf("go_index %s %s", l, t.expr(idx)))
		}
		if p, path, leaf, ok := t.pathOf(x); ok {
			if KindOf(leaf) == KNone {
				return t.fail("field %s of unsupported type %s", x.Sel.Name, leaf)
			}
			return t.input(p, path, false, leaf)
		}
		return t.fail("unsupported selector .%s", x.Sel.Name)
	case *ast.IndexExpr:
		if KindOf(t.typeOf(x.X)) != KList {
			return t.fail("index into a value of type %s", t.typeOf(x.X))
		}
		l, i := t.expr(x.X), t.expr(x.Index)
		return t.bindTmp(fmt.Sprintf("go_index %s %s", l, i))
	case *ast.SliceExpr:
		if KindOf(t.typeOf(x.X)) != KList || x.Max != nil || x.Slice3 {
			return t.fail("slice expression s[i:j:k], or of a value that is not a list")
		}
		l := t.expr(x.X)
		switch {
		case x.Low == nil && x.High == nil:
			return l // s[:], a[:]
		case x.High == nil:
			return t.bindTmp(fmt.Sprintf("go_slice_from %s %s", l, t.expr(x.Low)))
		}
		lo := "0"
		if x.Low != nil {
			lo = t.expr(x.Low)
		}
		// beyond len(s) the result depends on cap(s), which the lists do not record: Panic (see RULES)
		return t.bindTmp(fmt.Sprintf("go_slice %s %s %s", l, lo, t.expr(x.High)))
	case *ast.CallExpr:
		return t.call(x)
	case *ast.UnaryExpr:
		ty := t.typeOf(e)
		switch x.Op {
		case token.ADD:
			return t.expr(x.X)
		case token.SUB:
			if KindOf(ty) != KZ {
				break
			}
			return wrap(ty, "- "+t.expr(x.X))
		case token.XOR:
			if KindOf(ty) != KZ {
				break
			}
			return wrap(ty, "Z.lnot "+t.expr(x.X))
		case token.NOT:
			return "(negb " + t.expr(x.X) + ")"
		}
		return t.fail("unsupported unary %s", x.Op)
	case *ast.BinaryExpr:
		if x.Op == token.LAND || x.Op == token.LOR {
			return t.shortCircuit(x)
		}
		a, b := t.exprAs(x.X, t.typeOf(x.Y)), t.exprAs(x.Y, t.typeOf(x.X))
		return t.binop(x.Op, t.typeOf(e), x.X, x.Y, a, b)
	}
	return t.fail("unsupported expression %T", e)
}

// e where a value of type ty is expected (this is how nil gets its meaning)
func (t *ft) exprAs(e ast.Expr, ty types.Type) string {
	if isNil(t.info, e) {
		switch KindOf(ty) {
		case KErr, KTok:
			return "0"
		case KList:
			if _, isSl := ty.Underlying().(*types.Slice); isSl {
				return "nil" // a nil slice is the empty list (nil and empty are not told apart)
			}
		}
		return t.fail("nil of type %s", ty)
	}
	return t.expr(e)
}

func (t *ft) bindTmp(term string) string {
	t.effect = true
	t.effects++
	n := t.fresh("t")
	t.pre = append(t.pre, bind{name: n, term: term})
	return n
}

// bind the outcome term to the given name or pattern (a variable that is updated in place)
func (t *ft) bindAs(name, term string) {
	t.effect = true
	t.effects++
	t.pre = append(t.pre, bind{name: name, term: term})
}

func (t *ft) letAs(name, term string) {
	t.pre = append(t.pre, bind{name: name, term: term, let: true})
}

// a && b, a || b: b is evaluated (and can panic) only when a does not decide
func (t *ft) shortCircuit(x *ast.BinaryExpr) string {
	a := t.expr(x.X)
	saved := t.pre
	t.pre = nil
	b := t.expr(x.Y)
	pb := t.pre
	t.pre = saved
	op := "&&"
	if x.Op == token.LOR {
		op = "||"
	}
	if len(pb) == 0 {
		return fmt.Sprintf("(%s %s %s)", a, op, b)
	}
	rhs := wrapBinds(pb, "Ok "+b)
	if x.Op == token.LAND {
		return t.bindTmp(fmt.Sprintf("if %s then %s else Ok false", a, strings.Replace(rhs, "\n", " ", -1)))
	}
	return t.bindTmp(fmt.Sprintf("if %s then Ok true else %s", a, strings.Replace(rhs, "\n", " ", -1)))
}

// x op y with result type ty; a, b are the translated operands
func (t *ft) binop(op token.Token, ty types.Type, xe, ye ast.Expr, a, b string) string {
	xk := KindOf(t.typeOf(xe))
	if isNil(t.info, xe) {
		xk = KindOf(t.typeOf(ye))
	}
	switch op {
	case token.EQL, token.NEQ:
		var r string
		switch xk {
		case KZ:
			r = fmt.Sprintf("(%s =? %s)", a, b)
		case KBool:
			r = fmt.Sprintf("(Bool.eqb %s %s)", a, b)
		case KErr, KTok: // against nil or an error variable only (other comparisons can panic, or compare pointers)
			_, xv := t.errVar(xe)
			_, yv := t.errVar(ye)
			if !(isNil(t.info, xe) || isNil(t.info, ye) || xv || yv) {
				return t.fail("comparison of two values of type %s", t.typeOf(xe))
			}
			r = fmt.Sprintf("(%s =? %s)", a, b)
		case KList:
			if _, isSl := t.typeOf(xe).Underlying().(*types.Slice); isSl && (isNil(t.info, xe) || isNil(t.info, ye)) {
				return t.fail("comparison of a slice with nil (nil and empty slices are not told apart)")
			}
			return t.fail("comparison of values of type %s", t.typeOf(xe))
		default:
			return t.fail("comparison of values of type %s", t.typeOf(xe))
		}
		if op == token.NEQ {
			return "(negb " + r + ")"
		}
		return r
	case token.LSS, token.LEQ, token.GTR, token.GEQ:
		if xk != KZ {
			return t.fail("ordering of values of type %s", t.typeOf(xe))
		}
		return fmt.Sprintf("(%s %s? %s)", a, op, b)
	}
	if _, _, ok := intInfo(ty); !ok {
		return t.fail("operator %s on type %s", op, ty)
	}
	switch op {
	case token.SHL, token.SHR:
		cnt := b
		if c, isc := t.isConst(ye); isc {
			if constant.Sign(c) < 0 {
				return t.fail("negative constant shift count")
			}
		} else {
			cty := t.typeOf(ye)
			cbits, signed, ok := intInfo(cty)
			if !ok {
				return t.fail("shift count of type %s", cty)
			}
			_ = cbits
			if signed {
				cnt = t.bindTmp("go_shift_count " + b) // negative count: run-time panic
			}
			// a count >= the width gives 0 (or -1); Z.min keeps the evaluation cheap
			bits, _, _ := intInfo(ty)
			cnt = fmt.Sprintf("(Z.min %s %d)", cnt, bits)
		}
		if op == token.SHL {
			return wrap(ty, fmt.Sprintf("Z.shiftl %s %s", a, cnt))
		}
		return fmt.Sprintf("(Z.shiftr %s %s)", a, cnt)
	case token.OR:
		return fmt.Sprintf("(Z.lor %s %s)", a, b)
	case token.AND:
		return fmt.Sprintf("(Z.land %s %s)", a, b)
	case token.XOR:
		return fmt.Sprintf("(Z.lxor %s %s)", a, b)
	case token.AND_NOT:
		return fmt.Sprintf("(Z.ldiff %s %s)", a, b)
	case token.ADD:
		return wrap(ty, a+" + "+b)
	case token.SUB:
		return wrap(ty, a+" - "+b)
	case token.MUL:
		return wrap(ty, a+" * "+b)
	case token.QUO, token.REM:
		f := "quot"
		if op == token.REM {
			f = "rem"
		}
		if c, isc := t.isConst(ye); isc && constant.Sign(c) != 0 {
			return wrap(ty, fmt.Sprintf("Z.%s %s %s", f, a, b))
		}
		return wrap(ty, t.bindTmp(fmt.Sprintf("go_%s %s %s", f, a, b))) // divisor 0: run-time panic
	}
	return t.fail("unsupported operator %s", op)
}

func unparen(e ast.Expr) ast.Expr {
	for {
		p, ok := e.(*ast.ParenExpr)
		if !ok {
			return e
		}
		e = p.X
	}
}

func (t *ft) call(x *ast.CallExpr) string {
	// conversion T(e)
	if tv, ok := t.info.Types[x.Fun]; ok && tv.IsType() {
		if len(x.Args) != 1 {
			return t.fail("conversion with %d args", len(x.Args))
		}
		if KindOf(tv.Type) == KList && KindOf(t.typeOf(x.Args[0])) == KList && !isBytesBuffer(tv.Type) {
			if _, isArr := arrayLen(tv.Type); !isArr { // []byte(s), string(b), V1Header(b): the same list
				return t.expr(x.Args[0])
			}
		}
		if _, _, ok := intInfo(tv.Type); !ok {
			return t.fail("conversion to non-integer type %s", tv.Type)
		}
		if KindOf(t.typeOf(x.Args[0])) != KZ {
			return t.fail("conversion from non-integer type %s", t.typeOf(x.Args[0]))
		}
		return wrap(tv.Type, t.expr(x.Args[0]))
	}
	if x.Ellipsis.IsValid() {
		return t.fail("variadic call")
	}
	fo, recv, builtin := t.resolve(x)
	switch builtin {
	case "":
	case "len":
		a := x.Args[0]
		if KindOf(t.typeOf(a)) == KList {
			if tokList(t.typeOf(a)) {
				if p, path, leaf, ok := t.pathOf(a); ok && !t.listUsed[inputKey(p, path)] {
					return t.input(p, path, true, leaf) // a slice of interface{} used for its length only
				}
			}
			return "(go_len " + t.expr(a) + ")"
		}
		if _, isSlice := t.typeOf(a).Underlying().(*types.Slice); isSlice {
			if p, path, leaf, ok := t.pathOf(a); ok {
				return t.input(p, path, true, leaf)
			}
		}
		return t.fail("len of a value of type %s", t.typeOf(a))
	case "min", "max":
		if KindOf(t.typeOf(x)) != KZ || len(x.Args) == 0 {
			return t.fail("builtin %s", builtin)
		}
		r := t.expr(x.Args[0])
		for _, a := range x.Args[1:] {
			r = fmt.Sprintf("(Z.%s %s %s)", builtin, r, t.expr(a))
		}
		return r
	case "make":
		if _, isSl := t.typeOf(x).Underlying().(*types.Slice); !isSl || KindOf(t.typeOf(x)) != KList || len(x.Args) != 2 {
			return t.fail("make other than make([]T, n) of a slice of integers")
		}
		return t.bindTmp("go_make " + t.expr(x.Args[1]))
	case "copy":
		if x != t.stmtCall {
			return t.fail("copy inside an expression")
		}
		d, ok := t.dest(x.Args[0])
		if !ok || KindOf(t.typeOf(x.Args[1])) != KList {
			return t.fail("copy into something that is not (a window of) a local slice, parameter or field")
		}
		w0 := t.window(d)
		src := t.expr(x.Args[1])
		w, n := t.fresh("t"), t.fresh("t")
		t.letAs("'"+tuple([]string{w, n}), fmt.Sprintf("go_copy %s %s", w0, src))
		t.storeBack(d, w)
		return n
	default:
		return t.fail("builtin %s", builtin)
	}
	if fo == nil {
		return t.fail("unsupported call")
	}
	actual := x.Args
	if recv != nil {
		actual = append([]ast.Expr{recv}, x.Args...)
	}
	if v, ok := t.errorf(fo, x); ok {
		return v
	}
	callee := t.calleeOf(fo, actual)
	if callee == nil || callee.Err != nil {
		if v, ok := t.oracle(x, fo, recv); ok {
			return v
		}
		return t.fail("call of untranslated function %s", strings.TrimPrefix(key(fo), fo.Pkg().Path()+"."))
	}
	if len(callee.Written) > 0 && x != t.stmtCall {
		return t.fail("call of %s, which writes memory, inside an expression", callee.Name)
	}
	if callee.Prefix > 0 {
		return t.fail("call of a fragment")
	}
	if sig := fo.Type().(*types.Signature); sig.Variadic() {
		return t.fail("variadic call")
	}
	if len(actual) != len(callee.Params) {
		return t.fail("call of %s with %d arguments", callee.Name, len(actual))
	}
	for i, a := range actual { // an argument the callee reads nothing of is not evaluated: it must be harmless
		reads := false
		for _, in := range callee.Inputs {
			reads = reads || in.Param == i
		}
		if !reads && !harmless(a) {
			return t.fail("argument %d of %s is not a plain name", i, callee.Name)
		}
	}
	var args []string
	dests := map[*Input]*dest{}
	for _, in := range callee.Inputs {
		if in.Oracle != "" { // what an external call inside the callee returned: an input of ours as well
			if in.Written {
				return t.fail("call of %s, which calls external functions that write memory", callee.Name)
			}
			if len(t.touched) > 0 {
				return t.fail("call of %s, which calls external functions, inside a loop", callee.Name)
			}
			args = append(args, t.forwarded(x, fo, callee, in))
			continue
		}
		a := actual[in.Param]
		switch {
		case len(in.Path) == 0 && !in.LenOnly && in.Written: // a slice the callee writes: (a window of) a list of ours
			d, ok := t.dest(a)
			if !ok {
				return t.fail("argument of %s that the callee writes is not (a window of) a local slice, parameter or field", callee.Name)
			}
			dests[in] = d
			args = append(args, t.window(d))
		case len(in.Path) == 0 && !in.LenOnly:
			args = append(args, t.exprAs(a, in.Type))
		default:
			p, path, _, ok := t.pathOf(a)
			if !ok {
				return t.fail("argument of %s that is not a parameter or a field of one", callee.Name)
			}
			full := append(append([]string{}, path...), in.Path...)
			if in.LenOnly {
				args = append(args, t.input(p, full, true, in.Type))
			} else {
				args = append(args, t.inputAs(p, full, in.Type, in.Kind))
			}
		}
	}
	term := callee.Coq
	if strings.Contains(term, "go_err_io_EOF") {
		t.T.errCodeNamed("io", "io", "EOF")
	}
	for in, d := range dests { // two arguments sharing the memory that is written: not what the callee was translated for
		for _, a := range actual {
			if d2, ok := t.peekBase(a); ok && d2 == d.base && a != actual[in.Param] {
				return t.fail("arguments of %s share the list %s, which it writes", callee.Name, d.base)
			}
		}
	}
	if callee.Fuel {
		t.useFuel()
		term += " fuel"
	}
	if len(args) > 0 {
		term += " " + strings.Join(args, " ")
	}
	if len(callee.Written) > 0 { // results, then the new contents of what it wrote
		var res, pat []string
		for range callee.ResGo {
			res = append(res, t.fresh("t"))
		}
		pat = append(pat, res...)
		var back []func()
		for _, w := range callee.Written {
			switch d := dests[w]; {
			case d == nil: // a field of a struct argument: our input for that field
				p, path, _, _ := t.pathOf(actual[w.Param])
				full := append(append([]string{}, path...), w.Path...)
				in := t.inputs[inputKey(p, full)]
				if in == nil || !in.Written {
					return t.fail("internal: field written by %s not registered", callee.Name)
				}
				pat = append(pat, in.Name)
			case d.whole():
				pat = append(pat, d.base)
			default:
				w := t.fresh("t")
				pat = append(pat, w)
				back = append(back, func() { t.storeBack(d, w) })
			}
		}
		name := pat[0]
		if len(pat) > 1 {
			name = "'" + tuple(pat)
		}
		if callee.Monadic {
			t.bindAs(name, term)
		} else {
			t.letAs(name, "("+term+")")
		}
		for _, f := range back {
			f()
		}
		return tuple(res)
	}
	if callee.Monadic {
		return t.bindTmp(term)
	}
	if callee.Fuel || len(args) > 0 {
		term = "(" + term + ")"
	}
	return term
}

// the list an argument expression is (a window of), without evaluating anything
func (t *ft) peekBase(e ast.Expr) (string, bool) {
	switch x := unparen(e).(type) {
	case *ast.SliceExpr:
		return t.peekBase(x.X)
	case *ast.Ident:
		if v, ok := t.info.Uses[x].(*types.Var); ok {
			if n, ok := t.names[v]; ok && KindOf(v.Type()) == KList {
				return n, true
			}
		}
	case *ast.SelectorExpr, *embedExpr:
		if p, path, leaf, ok := t.pathOf(x); ok && len(path) > 0 && KindOf(leaf) == KList {
			return t.input(p, path, false, leaf), true
		}
	}
	return "", false
}

// a slice of interface{} values
func tokList(ty types.Type) bool {
	sl, ok := ty.Underlying().(*types.Slice)
	return ok && KindOf(sl.Elem()) == KTok
}

// the current content of a destination window, as a term
func (t *ft) window(d *dest) string {
	switch {
	case d.whole():
		return d.base
	case d.hi == "":
		return t.bindTmp(fmt.Sprintf("go_slice_from %s %s", d.base, d.lo))
	}
	return t.bindTmp(fmt.Sprintf("go_slice %s %s %s", d.base, d.lo, d.hi))
}

// fmt.Errorf(...) / errors.New(...): some non-nil error (code 1); the arguments are evaluated
func (t *ft) errorf(fo *types.Func, x *ast.CallExpr) (string, bool) {
	if k := key(fo); k != "fmt.Errorf" && k != "errors.New" {
		return "", false
	}
	for i, a := range x.Args {
		if _, isConst := t.isConst(a); isConst {
			continue
		}
		if i == 0 {
			return t.fail("error message that is not a constant"), true
		}
		t.expr(a)
	}
	return "1", true
}

// the full name of the function or method a call invokes ("" if it is not a declared one)
func (t *ft) calleeName(x *ast.CallExpr) string {
	var obj types.Object
	switch f := unparen(x.Fun).(type) {
	case *ast.Ident:
		obj = t.info.Uses[f]
	case *ast.SelectorExpr:
		if sel := t.info.Selections[f]; sel != nil {
			obj = sel.Obj()
		} else {
			obj = t.info.Uses[f.Sel]
		}
	}
	if fo, ok := obj.(*types.Func); ok {
		return key(fo)
	}
	return ""
}

// calls that are skipped: locking (the semantics is sequential) and log output; their
// arguments must be constants or plain names, so that skipping them loses no panic
func (t *ft) ignored(x *ast.CallExpr) bool {
	switch n := t.calleeName(x); n {
	case "(sync.Mutex).Lock", "(sync.Mutex).Unlock", "(sync.RWMutex).Lock", "(sync.RWMutex).Unlock", "(sync.RWMutex).RLock", "(sync.RWMutex).RUnlock",
		"log.Printf", "log.Println", "log.Print":
	default:
		return false
	}
	if sel, ok := unparen(x.Fun).(*ast.SelectorExpr); ok && !harmless(sel.X) {
		return false
	}
	for _, a := range x.Args {
		if _, isConst := t.isConst(a); !isConst && !harmless(a) {
			return false
		}
	}
	return true
}

// a call of a function or method declared "F#extern" / "T.M#extern", outside any loop: its
// results are inputs of the definition (x_<name>_<k>: "what this call returned").  Arguments of
// a representable type are still evaluated; any other argument, and the receiver, must be a
// plain name.  Declared "#externw", it also writes its slice arguments: their new contents are
// inputs as well (x_<name>_<k>_w<i>, ASSUMED of the length of the argument).  ASSUMED: the
// function does not touch anything else the translated function reads or writes.
func (t *ft) oracle(x *ast.CallExpr, fo *types.Func, recv ast.Expr) (string, bool) {
	sig := fo.Type().(*types.Signature)
	if !t.T.Extern[key(fo)] || sig.Variadic() {
		return "", false
	}
	if len(t.touched) > 0 {
		return t.fail("call of the external function %s inside a loop", fo.Name()), true
	}
	if recv != nil && !harmless(recv) {
		return t.fail("call of the external method %s on something that is not a plain name", fo.Name()), true
	}
	for i := 0; i < sig.Results().Len(); i++ {
		if KindOf(sig.Results().At(i).Type()) == KNone {
			return t.fail("external function %s with a result of type %s", fo.Name(), sig.Results().At(i).Type()), true
		}
	}
	writes := t.T.ExternW[key(fo)]
	if writes && x != t.stmtCall {
		return t.fail("call of %s, which writes memory, inside an expression", fo.Name()), true
	}
	var dests []*dest
	for i, a := range x.Args {
		switch k := KindOf(t.typeOf(a)); {
		case k == KList && writes:
			d, ok := t.dest(a)
			if !ok {
				return t.fail("argument %d of %s is not (a window of) a local slice, parameter or field", i, fo.Name()), true
			}
			t.window(d) // evaluated for its panics
			dests = append(dests, d)
		case k != KNone || isNil(t.info, a):
			if !isNil(t.info, a) {
				t.expr(a) // evaluated for its panics
			}
		case !harmless(a):
			return t.fail("argument %d of the external function %s is not a plain name", i, fo.Name()), true
		}
	}
	ins := t.oracles[x]
	if ins == nil {
		n := 1
		seen := map[string]bool{}
		for _, o := range t.orcl {
			if strings.HasPrefix(o.Oracle, fo.Name()+"#") && !seen[o.Oracle] {
				seen[o.Oracle] = true
				n++
			}
		}
		tag := fmt.Sprintf("%s#%d", fo.Name(), n)
		for i := 0; i < sig.Results().Len(); i++ {
			name := fmt.Sprintf("x_%s_%d", fo.Name(), n)
			if sig.Results().Len() > 1 {
				name += fmt.Sprintf("_%d", i+1)
			}
			in := &Input{Name: t.unique(name), Kind: KindOf(sig.Results().At(i).Type()), Param: -1, Type: sig.Results().At(i).Type(), Oracle: tag}
			ins = append(ins, in)
			t.orcl = append(t.orcl, in)
		}
		for i := range dests {
			in := &Input{Name: t.unique(fmt.Sprintf("x_%s_%d_w%d", fo.Name(), n, i+1)), Kind: KList, Param: -1, Oracle: tag, Written: true}
			ins = append(ins, in)
			t.orcl = append(t.orcl, in)
		}
		t.oracles[x] = ins
	}
	var names []string
	for i, in := range ins {
		if i < sig.Results().Len() {
			names = append(names, in.Name)
		} else {
			t.storeBack(dests[i-sig.Results().Len()], in.Name)
		}
	}
	if len(names) == 0 {
		return "tt", true
	}
	return tuple(names), true
}

// the call an expression consists of, up to parentheses, unary operators, conversions and
// operations with a constant (f(x), !f(x), T(f(x)), f(x) != 0): the only place besides a
// statement of its own where a call may write memory
func (t *ft) soleCall(e ast.Expr) *ast.CallExpr {
	for {
		switch x := e.(type) {
		case *ast.ParenExpr:
			e = x.X
		case *ast.UnaryExpr:
			e = x.X
		case *ast.BinaryExpr:
			if _, c := t.isConst(x.Y); c {
				e = x.X
			} else if _, c := t.isConst(x.X); c {
				e = x.Y
			} else {
				return nil
			}
		case *ast.CallExpr:
			if tv, ok := t.info.Types[x.Fun]; ok && tv.IsType() && len(x.Args) == 1 {
				e = x.Args[0]
				continue
			}
			return x
		default:
			return nil
		}
	}
}

// a name or a selector chain of names: evaluating it has no effect
func harmless(e ast.Expr) bool {
	switch x := e.(type) {
	case *embedExpr:
		return harmless(x.Expr)
	case *ast.Ident:
		return true
	case *ast.ParenExpr:
		return harmless(x.X)
	case *ast.SelectorExpr:
		return harmless(x.X)
	}
	return false
}

func wrapBinds(bs []bind, body string) string {
	var b strings.Builder
	closing := 0
	for _, x := range bs {
		if x.let {
			fmt.Fprintf(&b, "let %s := %s in\n", x.name, x.term)
			continue
		}
		fmt.Fprintf(&b, "bind (%s) (fun %s =>\n", x.term, x.name)
		closing++
	}
	b.WriteString(body)
	b.WriteString(strings.Repeat(")", closing))
	return b.String()
}

// seq runs build (which translates expressions, then the rest of the statements) and binds
// whatever the expressions needed in front of the term it returns.
func (t *ft) seq(build func() string) string {
	saved := t.pre
	t.pre = nil
	body := build()
	bs := t.pre
	t.pre = saved
	return wrapBinds(bs, body)
}

// ---------------------------------------------------------------- statements
// block translates a statement list in continuation-passing style: k() is the term for
// "what happens after the list"; the text of k is repeated in every branch that reaches it.

func (t *ft) block(list []ast.Stmt, c *ctx, k cont) string {
	if len(list) == 0 {
		return k()
	}
	return t.stmt(list[0], c, func() string { return t.block(list[1:], c, k) })
}

func (t *ft) lhs(e ast.Expr) string {
	id, ok := unparen(e).(*ast.Ident)
	if !ok {
		if in := t.writtenPath(e); in != nil {
			for _, w := range t.written {
				if w == in {
					return in.Name
				}
			}
		}
		return t.fail("assignment to something that is neither a local variable nor a field of a parameter")
	}
	if id.Name == "_" {
		return "_"
	}
	if v, ok := t.info.Defs[id].(*types.Var); ok {
		return t.declare(v)
	}
	if v, ok := t.info.Uses[id].(*types.Var); ok {
		if n, ok := t.local(v); ok {
			return n
		}
	}
	return t.fail("assignment to %s, which is not a local variable", id.Name)
}

// p.f[.g] on the left of an assignment: the input standing for that field
func (t *ft) writtenPath(e ast.Expr) *Input {
	_, isSel := unparen(e).(*ast.SelectorExpr)
	_, isEmb := e.(*embedExpr)
	if !isSel && !isEmb {
		return nil
	}
	p, path, leaf, ok := t.pathOf(e)
	if !ok || len(path) == 0 || KindOf(leaf) == KNone {
		return nil
	}
	if _, byValue := t.fn.Params[p].Type().Underlying().(*types.Struct); byValue {
		t.fail("assignment to a field of %s, a struct passed by value", t.fn.Params[p].Name())
		return nil
	}
	t.input(p, path, false, leaf)
	return t.inputs[fmt.Sprintf("%d.%s", p, strings.Join(path, "."))]
}

// the fields assigned, and the parameter slices written through, anywhere in the given
// statements, in source order
func (t *ft) collectWritten(list []ast.Stmt) {
	var nodes []ast.Node
	for _, st := range list {
		nodes = append(nodes, st)
	}
	t.targets(nodes, func(v *types.Var, through bool, pos token.Pos) {
		if through && KindOf(v.Type()) == KList {
			n := t.declare(v) // (named now, so that the aliasing check sees the write)
			t.writePos[n] = append(t.writePos[n], pos)
		}
	}, func(in *Input, through bool, pos token.Pos) {
		if !in.Written {
			in.Written = true
			t.written = append(t.written, in)
		}
		if through {
			t.writePos[in.Name] = append(t.writePos[in.Name], pos)
		}
	})
}

func (t *ft) writtenNames() []string {
	var ns []string
	for _, in := range t.written {
		ns = append(ns, in.Name)
	}
	return ns
}

func (t *ft) assign(lhs []ast.Expr, rhs []ast.Expr, next cont) string {
	return t.seq(func() string {
		if len(rhs) == 1 {
			t.stmtCall = t.soleCall(rhs[0])
		}
		elem := false
		for _, l := range lhs {
			if _, isIx := unparen(l).(*ast.IndexExpr); isIx {
				elem = true
			}
			if _, _, _, ok := t.elemField(l); ok {
				elem = true
			}
		}
		if elem {
			return t.assignElems(lhs, rhs, next)
		}
		var vals []string
		for i, r := range rhs {
			if len(rhs) == len(lhs) {
				vals = append(vals, t.exprAs(r, t.typeOf(lhs[i])))
			} else {
				vals = append(vals, t.expr(r))
			}
		}
		var names []string
		for _, l := range lhs {
			names = append(names, t.lhs(l))
		}
		if len(names) == 1 {
			if names[0] == "_" {
				return next()
			}
			return fmt.Sprintf("let %s := %s in\n%s", names[0], vals[0], next())
		}
		return fmt.Sprintf("let '%s := %s in\n%s", tuple(names), tuple(vals), next())
	})
}

// an assignment with s[i] or q[i].f (or q[i], q a slice of structs) on its left: the operands
// and the right-hand sides first, then the assignments from left to right (Go's two phases)
func (t *ft) assignElems(lhs []ast.Expr, rhs []ast.Expr, next cont) string {
	if len(lhs) != len(rhs) {
		return t.fail("assignment of several results to slice elements")
	}
	type lval struct {
		name  string   // a variable (plain assignment)
		lists []string // or the lists to update at idx
		idx   string
	}
	many := len(lhs) > 1
	hold := func(v string) string { // with several assignments, values are fixed before any of them happens
		if !many {
			return v
		}
		n := t.fresh("t")
		t.letAs(n, v)
		return n
	}
	var lvs []lval
	for _, l := range lhs {
		switch x := unparen(l).(type) {
		case *ast.IndexExpr:
			if lists, _, ok := t.elemFields(x.X); ok { // a whole element of a slice of structs
				lvs = append(lvs, lval{lists: lists, idx: hold(t.expr(x.Index))})
			} else if d, ok := t.dest(x.X); ok && d.whole() {
				lvs = append(lvs, lval{lists: []string{d.base}, idx: hold(t.expr(x.Index))})
			} else {
				return t.fail("assignment to an element of something that is not a local slice, array, parameter or field")
			}
		default:
			if list, _, idx, ok := t.elemField(l); ok {
				lvs = append(lvs, lval{lists: []string{list}, idx: hold(t.expr(idx))})
			} else {
				lvs = append(lvs, lval{name: t.lhs(l)})
			}
		}
	}
	var vals [][]string
	for i, r := range rhs {
		if ix, isIx := unparen(r).(*ast.IndexExpr); isIx {
			if lists, _, ok := t.elemFields(ix.X); ok { // q[j]: the fields of that element
				j := t.expr(ix.Index)
				var fs []string
				for _, l := range lists {
					fs = append(fs, t.bindTmp(fmt.Sprintf("go_index %s %s", l, j)))
				}
				vals = append(vals, fs)
				continue
			}
		}
		ty := t.typeOf(lhs[i])
		vals = append(vals, []string{hold(t.exprAs(r, ty))})
	}
	for i, lv := range lvs {
		switch {
		case lv.name == "_":
		case lv.name != "":
			t.letAs(lv.name, vals[i][0])
		case len(lv.lists) != len(vals[i]):
			return t.fail("assignment between elements of different kinds")
		default:
			for k, l := range lv.lists {
				t.bindAs(l, fmt.Sprintf("go_update %s %s %s", l, lv.idx, vals[i][k]))
			}
		}
	}
	return next()
}

// x op= e, x++ where x is s[i] or q[i].f: the list to update and the index
func (t *ft) elemLhs(e ast.Expr) (list, idx string, ok bool) {
	if l, _, ix, ok := t.elemField(e); ok {
		return l, t.expr(ix), true
	}
	if x, isIx := unparen(e).(*ast.IndexExpr); isIx {
		if d, ok := t.dest(x.X); ok && d.whole() {
			return d.base, t.expr(x.Index), true
		}
	}
	return "", "", false
}

func (t *ft) stmt(s ast.Stmt, c *ctx, next cont) string {
	if t.err != nil {
		return "0"
	}
	switch x := s.(type) {
	case *ast.EmptyStmt:
		return next()
	case *ast.BlockStmt:
		return t.block(x.List, c, next)
	case *ast.ReturnStmt:
		if t.prefix > 0 { // a fragment ends here; what is returned is not part of it
			w := "tt"
			if len(t.written) > 0 {
				w = tuple(t.writtenNames())
			}
			return c.ret(fmt.Sprintf("(Returned %d %s)", t.retIndex[x], w))
		}
		return t.seq(func() string {
			var parts []string
			if len(x.Results) == 0 {
				if len(t.named) == 0 && len(t.fn.ResGo) > 0 {
					return t.fail("return without values")
				}
				for _, v := range t.named {
					parts = append(parts, t.names[v])
				}
			}
			if len(x.Results) == 1 {
				t.stmtCall = t.soleCall(x.Results[0])
			}
			for i, r := range x.Results {
				if len(x.Results) == len(t.fn.ResGo) {
					parts = append(parts, t.exprAs(r, t.fn.ResGo[i]))
				} else {
					parts = append(parts, t.expr(r))
				}
			}
			if len(t.written) > 0 && len(x.Results) == 1 && len(t.fn.ResGo) > 1 {
				return t.fail("return of a call with several results in a function that writes fields")
			}
			return c.ret(tuple(append(parts, t.writtenNames()...)))
		})
	case *ast.ExprStmt:
		if call, ok := x.X.(*ast.CallExpr); ok {
			if id, ok := unparen(call.Fun).(*ast.Ident); ok {
				if b, ok := t.info.Uses[id].(*types.Builtin); ok && b.Name() == "panic" {
					t.effect = true
					t.effects++
					return "Panic"
				}
			}
		}
		if call, ok := x.X.(*ast.CallExpr); ok && t.ignored(call) {
			return next()
		}
		if call, ok := x.X.(*ast.CallExpr); ok { // a call for its effects: what it writes, its panics
			return t.seq(func() string {
				t.stmtCall = call
				t.call(call)
				return next()
			})
		}
		return t.fail("expression statement")
	case *ast.DeferStmt:
		if t.ignored(x.Call) && strings.HasSuffix(t.calleeName(x.Call), "nlock") { // defer mu.Unlock()
			return next()
		}
		return t.fail("unsupported statement *ast.DeferStmt")
	case *ast.DeclStmt:
		gd := x.Decl.(*ast.GenDecl)
		if gd.Tok == token.CONST {
			return next()
		}
		if gd.Tok != token.VAR {
			return t.fail("local %s declaration", gd.Tok)
		}
		k := next
		for i := len(gd.Specs) - 1; i >= 0; i-- {
			vs, k0 := gd.Specs[i].(*ast.ValueSpec), k
			var lhs []ast.Expr
			for _, n := range vs.Names {
				lhs = append(lhs, n)
			}
			if len(vs.Values) > 0 {
				k = func() string { return t.assign(lhs, vs.Values, k0) }
				continue
			}
			k = func() string {
				out := ""
				for _, n := range vs.Names {
					if n.Name == "_" {
						continue
					}
					v := t.info.Defs[n].(*types.Var)
					out += fmt.Sprintf("let %s := %s in\n", t.declare(v), zeroOf(v.Type()))
				}
				return out + k0()
			}
		}
		return k()
	case *ast.AssignStmt:
		if x.Tok == token.DEFINE || x.Tok == token.ASSIGN {
			return t.assign(x.Lhs, x.Rhs, next)
		}
		if len(x.Lhs) != 1 || len(x.Rhs) != 1 {
			return t.fail("unsupported assignment")
		}
		ops := map[token.Token]token.Token{token.ADD_ASSIGN: token.ADD, token.SUB_ASSIGN: token.SUB, token.MUL_ASSIGN: token.MUL,
			token.QUO_ASSIGN: token.QUO, token.REM_ASSIGN: token.REM, token.AND_ASSIGN: token.AND, token.OR_ASSIGN: token.OR,
			token.XOR_ASSIGN: token.XOR, token.SHL_ASSIGN: token.SHL, token.SHR_ASSIGN: token.SHR, token.AND_NOT_ASSIGN: token.AND_NOT}
		op, ok := ops[x.Tok]
		if !ok {
			return t.fail("unsupported assignment %s", x.Tok)
		}
		return t.seq(func() string {
			a, b := t.expr(x.Lhs[0]), t.expr(x.Rhs[0])
			v := t.binop(op, t.typeOf(x.Lhs[0]), x.Lhs[0], x.Rhs[0], a, b)
			if l, i, ok := t.elemLhs(x.Lhs[0]); ok {
				t.bindAs(l, fmt.Sprintf("go_update %s %s %s", l, i, v))
				return next()
			}
			return fmt.Sprintf("let %s := %s in\n%s", t.lhs(x.Lhs[0]), v, next())
		})
	case *ast.IncDecStmt:
		return t.seq(func() string {
			a, op := t.expr(x.X), " + 1"
			if x.Tok == token.DEC {
				op = " - 1"
			}
			if l, i, ok := t.elemLhs(x.X); ok {
				t.bindAs(l, fmt.Sprintf("go_update %s %s %s", l, i, wrap(t.typeOf(x.X), a+op)))
				return next()
			}
			return fmt.Sprintf("let %s := %s in\n%s", t.lhs(x.X), wrap(t.typeOf(x.X), a+op), next())
		})
	case *ast.IfStmt:
		body := func() string {
			if !abrupt(x.Body) && (x.Else == nil || !abrupt(x.Else)) {
				return t.ifJoin(x, c, next)
			}
			return t.seq(func() string {
				t.stmtCall = t.soleCall(x.Cond)
				cnd := t.expr(x.Cond)
				thenS := t.block(x.Body.List, c, next)
				var elseS string
				switch e := x.Else.(type) {
				case nil:
					elseS = next()
				default:
					elseS = t.stmt(e, c, next)
				}
				return fmt.Sprintf("if %s then\n%s\nelse\n%s", cnd, ind(thenS), ind(elseS))
			})
		}
		if x.Init != nil {
			return t.stmt(x.Init, c, body)
		}
		return body()
	case *ast.SwitchStmt:
		body := func() string { return t.switchStmt(x, c, next) }
		if x.Init != nil {
			return t.stmt(x.Init, c, body)
		}
		return body()
	case *ast.ForStmt:
		body := func() string { return t.loopCall(t.loop(x, x.Cond, x.Post, x.Body, nil), c, next) }
		if x.Init != nil {
			return t.stmt(x.Init, c, body)
		}
		return body()
	case *ast.RangeStmt:
		return t.rangeStmt(x, c, next)
	case *ast.BranchStmt:
		if x.Label != nil {
			return t.fail("labelled %s", x.Tok)
		}
		switch x.Tok {
		case token.BREAK:
			if c.brk != nil {
				return c.brk()
			}
		case token.CONTINUE:
			if c.cnt != nil {
				return c.cnt()
			}
		}
		return t.fail("unsupported %s", x.Tok)
	}
	return t.fail("unsupported statement %T", s)
}

// abrupt: the statement contains a return, break, continue, goto or panic(...) - control may
// leave it other than by falling off its end
func abrupt(n ast.Node) bool {
	found := false
	ast.Inspect(n, func(m ast.Node) bool {
		switch y := m.(type) {
		case *ast.ReturnStmt, *ast.BranchStmt:
			found = true
		case *ast.CallExpr:
			if id, ok := unparen(y.Fun).(*ast.Ident); ok && id.Name == "panic" {
				found = true
			}
		}
		return !found
	})
	return found
}

// an `if` whose branches can only fall through: its value is the tuple of the outer variables
// the branches assign, bound before the statements that follow (these are not repeated)
func (t *ft) ifJoin(x *ast.IfStmt, c *ctx, next cont) string {
	parts := []ast.Node{x.Body}
	if x.Else != nil {
		parts = append(parts, x.Else)
	}
	assigned, _ := t.assignedUsed(parts)
	var vars []*types.Var
	for v := range assigned {
		if _, known := t.names[v]; known && !inside(v.Pos(), x) {
			vars = append(vars, v)
		}
	}
	sort.Slice(vars, func(i, j int) bool { return vars[i].Pos() < vars[j].Pos() })
	names := []string{}
	for _, v := range vars {
		names = append(names, t.names[v])
	}
	for _, in := range t.assignedPaths(parts) {
		names = append(names, in.Name)
	}
	pat := "tt"
	if len(names) > 0 {
		pat = tuple(names)
	}
	return t.seq(func() string {
		t.stmtCall = t.soleCall(x.Cond)
		cnd := t.expr(x.Cond)
		n0 := t.effects
		join := func() string { return "@JOIN@" }
		thenS := t.block(x.Body.List, c, join)
		elseS := "@JOIN@"
		if x.Else != nil {
			elseS = t.stmt(x.Else, c, join)
		}
		ite := fmt.Sprintf("if %s then\n%s\nelse\n%s", cnd, ind(thenS), ind(elseS))
		if t.effects == n0 { // nothing in the branches can panic or loop
			if len(names) == 0 {
				return next()
			}
			bnd := names[0]
			if len(names) > 1 {
				bnd = "'" + pat
			}
			return fmt.Sprintf("let %s :=\n%s in\n%s", bnd, ind(strings.Replace(ite, "@JOIN@", pat, -1)), next())
		}
		bnd := "_"
		if len(names) == 1 {
			bnd = names[0]
		} else if len(names) > 1 {
			bnd = "'" + pat
		}
		return fmt.Sprintf("bind (%s) (fun %s =>\n%s)", strings.Replace(ite, "@JOIN@", "Ok "+pat, -1), bnd, next())
	})
}

func (t *ft) switchStmt(x *ast.SwitchStmt, c *ctx, next cont) string {
	return t.seq(func() string {
		head, tag, tagKind := "", "", KBool
		if x.Tag != nil {
			tagKind = KindOf(t.typeOf(x.Tag))
			if tagKind != KZ && tagKind != KBool {
				return t.fail("switch on a value of type %s", t.typeOf(x.Tag))
			}
			v := t.expr(x.Tag)
			tag = t.fresh("t")
			head = fmt.Sprintf("let %s := %s in\n", tag, v)
		}
		c2 := *c
		c2.brk = next
		var deflt *ast.CaseClause
		var clauses []*ast.CaseClause
		for _, s := range x.Body.List {
			cc := s.(*ast.CaseClause)
			if cc.List == nil {
				deflt = cc
			} else {
				clauses = append(clauses, cc)
			}
		}
		var conds []string
		for _, cc := range clauses {
			var alts []string
			for _, e := range cc.List {
				n := len(t.pre)
				v := t.expr(e)
				if len(t.pre) != n {
					return t.fail("case expression that can panic")
				}
				switch {
				case x.Tag == nil:
					alts = append(alts, v)
				case tagKind == KZ:
					alts = append(alts, fmt.Sprintf("(%s =? %s)", tag, v))
				default:
					alts = append(alts, fmt.Sprintf("(Bool.eqb %s %s)", tag, v))
				}
			}
			cnd := alts[0]
			if len(alts) > 1 {
				cnd = "(" + strings.Join(alts, " || ") + ")"
			}
			conds = append(conds, cnd)
		}
		var acc string
		if deflt != nil {
			acc = t.block(deflt.Body, &c2, next)
		} else {
			acc = next()
		}
		for i := len(clauses) - 1; i >= 0; i-- {
			acc = fmt.Sprintf("if %s then\n%s\nelse\n%s", conds[i], ind(t.block(clauses[i].Body, &c2, next)), ind(acc))
		}
		return head + acc
	})
}

// ---------------------------------------------------------------- loops

func (t *ft) localVar(id *ast.Ident) *types.Var {
	v, ok := t.info.Uses[id].(*types.Var)
	if !ok {
		v, ok = t.info.Defs[id].(*types.Var)
	}
	if !ok || v.IsField() || v.Pkg() == nil || v.Parent() == v.Pkg().Scope() {
		return nil
	}
	return v
}

func inside(p token.Pos, n ast.Node) bool { return n != nil && n.Pos() <= p && p < n.End() }

// the local variables that the given parts of the function assign / mention
func (t *ft) assignedUsed(parts []ast.Node) (assigned, used map[*types.Var]bool) {
	assigned, used = map[*types.Var]bool{}, map[*types.Var]bool{}
	t.targets(parts, func(v *types.Var, _ bool, _ token.Pos) { assigned[v] = true }, func(*Input, bool, token.Pos) {})
	for _, p := range parts {
		ast.Inspect(p, func(n ast.Node) bool {
			if y, ok := n.(*ast.Ident); ok {
				if v := t.localVar(y); v != nil {
					used[v] = true
				}
			}
			return true
		})
	}
	return assigned, used
}

// the fields (of parameters) that the given parts assign, in the order of t.written
func (t *ft) assignedPaths(parts []ast.Node) []*Input {
	hit := map[*Input]bool{}
	t.targets(parts, func(*types.Var, bool, token.Pos) {}, func(in *Input, _ bool, _ token.Pos) { hit[in] = true })
	var out []*Input
	for _, in := range t.written {
		if hit[in] && len(in.Path) > 0 { // (a parameter slice written through is a variable, not a path)
			out = append(out, in)
		}
	}
	return out
}

type rangeInfo struct {
	idx  string // hidden index variable
	list string // the slice ranged over (evaluated once)
	key  *ast.Ident
	val  *ast.Ident
	def  bool
}

// loop generates (once) the body/loop definitions for a for statement.
func (t *ft) loop(node ast.Stmt, cond ast.Expr, post ast.Stmt, body *ast.BlockStmt, rng *rangeInfo) *loopInfo {
	if li := t.memo[node]; li != nil {
		return li
	}
	t.effect = true
	t.loopN++
	li := &loopInfo{name: fmt.Sprintf("%s_loop%d", t.fn.Coq, t.loopN), rng: rng}
	t.memo[node] = li
	if t.pure {
		t.fail("loop in a pure function")
		return li
	}
	// variables assigned in the loop and living across iterations: the loop state
	parts := []ast.Node{body}
	if cond != nil {
		parts = append(parts, cond)
	}
	if post != nil {
		parts = append(parts, post)
	}
	assigned, used := t.assignedUsed(parts)
	mark := func(e ast.Expr) {
		if id, ok := unparen(e).(*ast.Ident); ok {
			if v := t.localVar(id); v != nil {
				assigned[v] = true
			}
		}
	}
	if rng != nil && !rng.def { // for k, v = range s: outer variables assigned by every iteration
		for _, id := range []*ast.Ident{rng.key, rng.val} {
			if id != nil {
				mark(id)
				if v := t.localVar(id); v != nil {
					used[v] = true
				}
			}
		}
	}
	perIter := func(v *types.Var) bool { // declared by the body (or by `k, v := range`): fresh in every iteration
		if inside(v.Pos(), body) {
			return true
		}
		if rng != nil && rng.def && ((rng.key != nil && v == t.info.Defs[rng.key]) || (rng.val != nil && v == t.info.Defs[rng.val])) {
			return true
		}
		return false
	}
	var env []*types.Var
	for v := range used {
		if perIter(v) {
			continue
		}
		if _, known := t.names[v]; !known {
			continue // a struct parameter: reached through its field paths only
		}
		if assigned[v] {
			li.state = append(li.state, v)
		} else {
			env = append(env, v)
		}
	}
	sort.Slice(li.state, func(i, j int) bool { return li.state[i].Pos() < li.state[j].Pos() })
	sort.Slice(env, func(i, j int) bool { return env[i].Pos() < env[j].Pos() })
	var stNames, stTys []string
	if rng != nil {
		stNames, stTys = append(stNames, rng.idx), append(stTys, "Z")
	}
	for _, v := range li.state {
		stNames, stTys = append(stNames, t.names[v]), append(stTys, KindOf(v.Type()).Coq())
	}
	li.pstate = t.assignedPaths(parts)
	inState := map[*Input]bool{}
	for _, in := range li.pstate {
		stNames, stTys = append(stNames, in.Name), append(stTys, in.Kind.Coq())
		inState[in] = true
	}
	stTuple := "tt"
	li.stTy = "unit"
	if len(stNames) > 0 {
		stTuple = tuple(stNames)
		li.stTy = strings.Join(stTys, " * ")
		if len(stTys) > 1 {
			li.stTy = "(" + li.stTy + ")"
		}
	}
	// the body
	t.touched = append(t.touched, map[*Input]bool{})
	t.fuel = append(t.fuel, false)
	c2 := &ctx{ret: func(v string) string { return "Ok (Ret " + v + ")" }}
	c2.brk = func() string { return "Ok (Done " + stTuple + ")" }
	c2.cnt = func() string {
		again := func() string { return "Ok (Next " + stTuple + ")" }
		if rng != nil {
			return fmt.Sprintf("let %s := %s + 1 in\n%s", rng.idx, rng.idx, again())
		}
		if post != nil {
			return t.stmt(post, &ctx{ret: c2.ret}, again)
		}
		return again()
	}
	term := t.seq(func() string {
		iter := func() string { return t.block(body.List, c2, c2.cnt) }
		switch {
		case rng != nil:
			head := ""
			elem := fmt.Sprintf("(nth (Z.to_nat %s) %s 0)", rng.idx, rng.list)
			for i, id := range []*ast.Ident{rng.key, rng.val} {
				if id == nil || id.Name == "_" {
					continue
				}
				var n string
				if rng.def {
					n = t.declare(t.info.Defs[id].(*types.Var))
				} else {
					n = t.lhs(id)
				}
				head += fmt.Sprintf("let %s := %s in\n", n, []string{rng.idx, elem}[i])
			}
			return fmt.Sprintf("if %s <? go_len %s then\n%s\nelse\n  Ok (Done %s)", rng.idx, rng.list, ind(head+iter()), stTuple)
		case cond != nil:
			return fmt.Sprintf("if %s then\n%s\nelse\n  Ok (Done %s)", t.expr(cond), ind(iter()), stTuple)
		}
		return iter()
	})
	touched := t.touched[len(t.touched)-1]
	t.touched = t.touched[:len(t.touched)-1]
	li.fuel = t.fuel[len(t.fuel)-1]
	t.fuel = t.fuel[:len(t.fuel)-1]
	// environment: the inputs and the outer variables the loop reads but does not assign
	type pv struct{ name, ty string }
	var ps []pv
	for _, in := range append(append([]*Input{}, t.order...), t.orcl...) {
		if touched[in] && !inState[in] {
			ps = append(ps, pv{in.Name, in.Kind.Coq()})
		}
	}
	if rng != nil {
		ps = append(ps, pv{rng.list, "list Z"})
	}
	for _, v := range env {
		ps = append(ps, pv{t.names[v], KindOf(v.Type()).Coq()})
	}
	var names, tys []string
	for _, p := range ps {
		names, tys = append(names, p.name), append(tys, p.ty)
	}
	li.envDecl, li.envArgs = paramDecl(names, tys), ""
	if len(names) > 0 {
		li.envArgs = " " + strings.Join(names, " ")
	}
	fuelDecl, fuelArg := "", ""
	if li.fuel {
		fuelDecl, fuelArg = " (fuel : nat)", " fuel"
	}
	stParam, open := "st", ""
	switch len(stNames) {
	case 0:
	case 1:
		stParam = stNames[0]
	default:
		open = fmt.Sprintf("let '%s := st in\n", stTuple)
	}
	res := t.fn.ResType()
	bodyApp := li.name + "_body" + fuelArg + li.envArgs
	if fuelArg+li.envArgs != "" {
		bodyApp = "(" + bodyApp + ")"
	}
	def := fmt.Sprintf("Definition %s_body%s%s (%s : %s) : outcome (step %s %s) :=\n%s.\n\n", li.name, fuelDecl, li.envDecl, stParam, li.stTy, li.stTy, res, ind(open+term))
	def += fmt.Sprintf("Definition %s (fuel : nat)%s (%s : %s) : outcome (%s + %s) :=\n  go_loop fuel %s %s.\n\n", li.name, li.envDecl, stParam, li.stTy, li.stTy, res, bodyApp, stParam)
	t.loops = append(t.loops, def)
	return li
}

func (t *ft) stateTuple(li *loopInfo, rng *rangeInfo) string {
	var n []string
	if rng != nil {
		n = append(n, rng.idx)
	}
	for _, v := range li.state {
		n = append(n, t.names[v])
	}
	for _, in := range li.pstate {
		n = append(n, in.Name)
	}
	if len(n) == 0 {
		return "tt"
	}
	return tuple(n)
}

// the loop in the flow of its function: run it, then go on with the state it left
func (t *ft) loopCall(li *loopInfo, c *ctx, next cont) string {
	if t.err != nil {
		return "0"
	}
	t.useFuel()
	t.effects++
	st := t.stateTuple(li, nil)
	return fmt.Sprintf("match %s fuel%s %s with\n| Ok (inl %s) =>\n%s\n| Ok (inr ret_v) => %s\n| Panic => Panic\n| OutOfFuel => OutOfFuel\nend",
		li.name, li.envArgs, st, st, ind(next()), c.ret("ret_v"))
}

// for k, v := range s  (s a slice of integers): a loop over a hidden index
func (t *ft) rangeStmt(x *ast.RangeStmt, c *ctx, next cont) string {
	xt := t.typeOf(x.X)
	if _, isSlice := xt.Underlying().(*types.Slice); !isSlice || KindOf(xt) != KList {
		return t.fail("range over a value of type %s", xt)
	}
	return t.seq(func() string {
		rng := &rangeInfo{def: x.Tok == token.DEFINE}
		if id, ok := x.Key.(*ast.Ident); ok {
			rng.key = id
		} else if x.Key != nil {
			return t.fail("range key that is not a variable")
		}
		if id, ok := x.Value.(*ast.Ident); ok {
			rng.val = id
		} else if x.Value != nil {
			return t.fail("range value that is not a variable")
		}
		l := t.expr(x.X)
		li := t.memo[x]
		if li == nil {
			rng.idx, rng.list = t.unique("r_idx"), t.unique("r_list")
			li = t.loop(x, nil, nil, x.Body, rng)
		}
		rng = li.rng
		if t.err != nil {
			return "0"
		}
		t.useFuel()
		t.effects++
		st := t.stateTuple(li, rng)
		return fmt.Sprintf("let %s := %s in\nlet %s := 0 in\nmatch %s fuel%s %s with\n| Ok (inl %s) =>\n%s\n| Ok (inr ret_v) => %s\n| Panic => Panic\n| OutOfFuel => OutOfFuel\nend",
			rng.list, l, rng.idx, li.name, li.envArgs, st, st, ind(next()), c.ret("ret_v"))
	})
}

// "(a b : Z) (c : list Z)": consecutive parameters of one type share a binder
func paramDecl(names, tys []string) string {
	var b strings.Builder
	for i := 0; i < len(names); {
		j := i
		for j < len(names) && tys[j] == tys[i] {
			j++
		}
		fmt.Fprintf(&b, " (%s : %s)", strings.Join(names[i:j], " "), tys[i])
		i = j
	}
	return b.String()
}

// ---------------------------------------------------------------- functions

// Translate translates the function or method called name ("F" / "T.M", or
// "import/path:F" / "import/path:T.M" for a callee in another package) and records it.
func (T *Translator) Translate(name string) *Func {
	frag, ext, extw := strings.HasSuffix(name, "#prefix"), strings.HasSuffix(name, "#extern") || strings.HasSuffix(name, "#externw"), strings.HasSuffix(name, "#externw")
	base := strings.TrimSuffix(strings.TrimSuffix(strings.TrimSuffix(name, "#prefix"), "#externw"), "#extern")
	bindTo := ""
	if i := strings.LastIndex(base, "@"); i >= 0 {
		base, bindTo = base[:i], base[i+1:]
	}
	pkg, decl, coq := T.Pkg, base, T.Prefix+strings.Replace(base, ".", "_", 1)
	if i := strings.LastIndex(base, ":"); i >= 0 {
		path := base[:i]
		decl = base[i+1:]
		if T.others[path] == nil {
			T.others[path] = T.Pkg.LoadImport(path)
		}
		pkg = T.others[path]
		coq = T.Prefix + pkg.Types.Name() + "_" + strings.Replace(decl, ".", "_", 1)
	}
	if bindTo != "" {
		coq += "_" + bindTo
	}
	if frag {
		coq += "_prefix"
	}
	fd := pkg.Decls[decl]
	fn := &Func{Name: name, Coq: coq, Pkg: pkg, Decl: fd, Bind: bindTo}
	T.Order = append(T.Order, fn)
	if ext && (fd == nil || fd.Recv != nil) { // a method, possibly of an interface: found through the type
		fn.Extern = true
		if m := lookupMethod(pkg, decl); m != nil {
			T.Extern[key(m)] = true
			T.ExternW[key(m)] = extw
			fn.Text = fmt.Sprintf("(* %s: declared EXTERNAL - not translated; what each call of it returns is an input\n   (x_%s_<k>) of the definitions below that call it *)\n\n", name, m.Name())
			return fn
		}
		fn.Err = fmt.Errorf("not found in the source")
		fn.Text = fmt.Sprintf("(* %s: not found in the source *)\n\n", name)
		return fn
	}
	if fd == nil || fd.Body == nil {
		fn.Err = fmt.Errorf("not found in the source")
		fn.Text = fmt.Sprintf("(* %s: not found in the source *)\n\n", name)
		return fn
	}
	fn.Obj, _ = pkg.Info.Defs[fd.Name].(*types.Func)
	if ext { // declared external: nothing is translated, its calls become inputs (see oracle)
		fn.Extern = true
		if fn.Obj == nil {
			fn.Err = fmt.Errorf("not type-checked")
			fn.Text = fmt.Sprintf("(* %s: NOT TRANSLATABLE: %v *)\n\n", name, fn.Err)
			return fn
		}
		T.Extern[key(fn.Obj)] = true
		T.ExternW[key(fn.Obj)] = extw
		fn.Text = fmt.Sprintf("(* %s: declared EXTERNAL - not translated; what each call of it returns is an input\n   (x_%s_<k>) of the definitions below that call it *)\n\n", name, fd.Name.Name)
		return fn
	}
	pos := pkg.Fset.Position(fd.Pos())
	where := fmt.Sprintf("%s (%s:%d)", name, filepath.Base(pos.Filename), pos.Line)
	if fn.Obj == nil {
		fn.Err = fmt.Errorf("not type-checked")
	} else {
		func() {
			defer func() { // e.g. an expression go/types could not type: never crash, never guess
				if r := recover(); r != nil {
					fn.Err = fmt.Errorf("internal error: %v", r)
				}
			}()
			first, last := 0, 0 // whole function
			if frag {           // the longest translatable prefix of the body, up to its first top-level return
				first, last = len(fd.Body.List), 1
				for i, st := range fd.Body.List {
					if _, isRet := st.(*ast.ReturnStmt); isRet && i < first {
						first = i
					}
				}
			}
			for k := first; k >= last; k-- {
				fn.Prefix = k
				t := T.run(fn, false)
				if t.err == nil && !t.effect {
					t = T.run(fn, true) // nothing can panic or loop: a plain definition
				}
				fn.Err = t.err
				if fn.Err == nil {
					T.finish(fn, t, filepath.Base(pos.Filename))
					break
				}
			}
			if frag && len(fd.Body.List) == 0 {
				fn.Err = fmt.Errorf("empty body")
			}
		}()
	}
	if fn.Err != nil {
		fn.Text = fmt.Sprintf("(* %s: NOT TRANSLATABLE: %v *)\n\n", where, fn.Err)
	}
	if fn.Obj != nil && !frag { // (a fragment is never the target of a call)
		k := key(fn.Obj)
		if bindTo != "" {
			k += "@" + bindTo
		}
		T.Funcs[k] = fn
	}
	return fn
}

func (T *Translator) run(fn *Func, pure bool) *ft {
	t := &ft{T: T, info: fn.Pkg.Info, fn: fn, pure: pure, names: map[*types.Var]string{}, taken: map[string]bool{"fuel": true, "st": true, "ret_v": true},
		inputs: map[string]*Input{}, memo: map[ast.Stmt]*loopInfo{}, fuel: []bool{false}}
	sig := fn.Obj.Type().(*types.Signature)
	if sig.TypeParams() != nil || sig.RecvTypeParams() != nil {
		t.fail("generic function")
		return t
	}
	if sig.Variadic() {
		t.fail("variadic function")
		return t
	}
	fn.Params, fn.Results, fn.ResGo = nil, nil, nil
	if sig.Recv() != nil {
		fn.Params = append(fn.Params, sig.Recv())
	}
	for i := 0; i < sig.Params().Len(); i++ {
		fn.Params = append(fn.Params, sig.Params().At(i))
	}
	t.prefix = fn.Prefix
	t.oracles = map[*ast.CallExpr][]*Input{}
	t.scalar, t.bound, t.listUsed, t.writePos = map[*types.Var]*Input{}, map[*types.Var]types.Type{}, map[string]bool{}, map[string][]token.Pos{}
	if fn.Bind != "" { // "F@T": interface parameters that T (or *T) implements stand for a T
		obj := T.Pkg.Types.Scope().Lookup(fn.Bind)
		if obj == nil {
			t.fail("type %s not found", fn.Bind)
			return t
		}
		for _, p := range fn.Params {
			if it, ok := p.Type().Underlying().(*types.Interface); ok && it.NumMethods() > 0 &&
				(types.Implements(obj.Type(), it) || types.Implements(types.NewPointer(obj.Type()), it)) {
				t.bound[p] = obj.Type()
			}
		}
		if len(t.bound) == 0 {
			t.fail("no interface parameter that %s implements", fn.Bind)
			return t
		}
	}
	// parameters of a supported type are inputs and local variables at once
	var scalar []*Input
	for i, p := range fn.Params {
		if k := KindOf(p.Type()); k != KNone {
			base := "v_" + p.Name()
			if p.Name() == "" || p.Name() == "_" {
				base = fmt.Sprintf("v_arg%d", i)
			}
			n := t.unique(base)
			t.names[p] = n
			in := &Input{Name: n, Kind: k, Param: i, Type: p.Type()}
			scalar = append(scalar, in)
			t.scalar[p] = in
		}
	}
	stmts := fn.Decl.Body.List
	if t.prefix > 0 {
		stmts = stmts[:t.prefix]
	}
	t.findListUses(stmts)
	t.collectWritten(stmts)
	t.aliasCheck(fn.Decl.Body, stmts)
	if t.err != nil {
		return t
	}
	t.retIndex = map[*ast.ReturnStmt]int{}
	ast.Inspect(fn.Decl.Body, func(n ast.Node) bool {
		if r, ok := n.(*ast.ReturnStmt); ok {
			t.retIndex[r] = len(t.retIndex) + 1
		}
		_, lit := n.(*ast.FuncLit)
		return !lit
	})
	if sig.Results().Len() == 0 && t.prefix == 0 && len(t.written) == 0 {
		t.fail("function without a result")
		return t
	}
	for i := 0; i < sig.Results().Len() && t.prefix == 0; i++ {
		r := sig.Results().At(i)
		if KindOf(r.Type()) == KNone {
			t.fail("result of unsupported type %s", r.Type())
			return t
		}
		fn.Results, fn.ResGo = append(fn.Results, KindOf(r.Type())), append(fn.ResGo, r.Type())
	}
	for _, in := range t.written { // (known before the body is translated: loops mention the result type)
		if t.prefix == 0 {
			fn.Results = append(fn.Results, in.Kind)
		}
	}
	head := ""
	for i := 0; i < sig.Results().Len(); i++ {
		if r := sig.Results().At(i); t.prefix > 0 {
			if r.Name() != "" && r.Name() != "_" && KindOf(r.Type()) != KNone {
				head += fmt.Sprintf("let %s := %s in\n", t.declare(r), zeroOf(r.Type()))
			}
		} else if r.Name() != "" && r.Name() != "_" {
			t.named = append(t.named, r)
			head += fmt.Sprintf("let %s := %s in\n", t.declare(r), zeroOf(r.Type()))
		} else if r.Name() == "_" {
			t.fail("blank named result")
		}
	}
	if t.prefix == 0 && len(t.named) != 0 && len(t.named) != sig.Results().Len() {
		t.fail("partly named results")
	}
	c := &ctx{ret: func(v string) string { return "Ok " + v }}
	if pure {
		c.ret = func(v string) string { return v }
	}
	body := head + t.block(stmts, c, func() string {
		if t.prefix > 0 { // hand on the variables of the function's own scope
			if t.vars == nil {
				scope := t.info.Scopes[fn.Decl.Type]
				for v := range t.names {
					if v.Parent() == scope {
						t.vars = append(t.vars, v)
					}
				}
				sort.Slice(t.vars, func(i, j int) bool { return t.vars[i].Pos() < t.vars[j].Pos() })
			}
			var parts []string
			for _, v := range t.vars {
				parts = append(parts, t.names[v])
			}
			for _, w := range t.written {
				if t.scalar[t.fn.Params[w.Param]] != w { // (a parameter written through is among the variables already)
					parts = append(parts, w.Name)
				}
			}
			if len(parts) == 0 {
				parts = []string{"tt"}
			}
			return c.ret("(Reached " + tuple(parts) + ")")
		}
		if sig.Results().Len() == 0 { // a function without results that writes fields: falls off its end
			return c.ret(tuple(t.writtenNames()))
		}
		if pure {
			return t.fail("control reaches the end of the function")
		}
		return "Panic (* not reached: Go demands a terminating statement *)"
	})
	// inputs in parameter order; the field paths of one parameter in order of first use
	fn.Inputs = nil
	for i := range fn.Params {
		for _, in := range scalar {
			if in.Param == i {
				fn.Inputs = append(fn.Inputs, in)
			}
		}
		for _, in := range t.order {
			if in.Param == i {
				fn.Inputs = append(fn.Inputs, in)
			}
		}
	}
	fn.Inputs = append(fn.Inputs, t.orcl...) // what the calls outside the set returned, in source order
	fn.Monadic, fn.Fuel, fn.Loops = !pure, t.fuel[0], t.loops
	fn.Text = body
	fn.Vars, fn.Results = nil, fn.Results[:len(fn.Results):len(fn.Results)]
	for _, v := range t.vars {
		fn.Vars = append(fn.Vars, t.names[v])
		fn.Results = append(fn.Results, KindOf(v.Type()))
	}
	fn.Written = t.written
	for _, in := range t.written {
		if t.prefix > 0 && t.scalar[fn.Params[in.Param]] == in {
			continue
		}
		fn.Vars = append(fn.Vars, in.Name)
		if t.prefix > 0 {
			fn.Results = append(fn.Results, in.Kind)
		}
	}
	return t
}

func (T *Translator) finish(fn *Func, t *ft, file string) {
	var names, tys []string
	for _, in := range fn.Inputs {
		names, tys = append(names, in.Name), append(tys, in.Kind.Coq())
	}
	ps := paramDecl(names, tys)
	if fn.Fuel {
		ps = " (fuel : nat)" + ps
	}
	res, note := fn.ResType(), ""
	if fn.Prefix > 0 {
		var tys []string
		for _, k := range fn.Results {
			tys = append(tys, k.Coq())
		}
		if len(tys) == 0 {
			tys = []string{"unit"}
		}
		var wtys, wnames []string
		for _, in := range fn.Written {
			wtys, wnames = append(wtys, in.Kind.Coq()), append(wnames, in.Name)
		}
		if len(wtys) == 0 {
			wtys, wnames = []string{"unit"}, []string{"tt"}
		}
		res = "(frag (" + strings.Join(wtys, " * ") + ") (" + strings.Join(tys, " * ") + "))"
		list := fn.Decl.Body.List
		line := func(p token.Pos) int { return fn.Pkg.Fset.Position(p).Line }
		var rets []string
		ast.Inspect(fn.Decl.Body, func(n ast.Node) bool {
			if r, ok := n.(*ast.ReturnStmt); ok && r.Pos() < list[fn.Prefix-1].End() {
				rets = append(rets, fmt.Sprintf("%d: line %d", len(rets)+1, line(r.Pos())))
			}
			_, lit := n.(*ast.FuncLit)
			return !lit
		})
		note = fmt.Sprintf(": the first %d of the %d statements of the body (lines %d-%d).\n   Returned k %s = the k-th return statement of the function was reached (%s), with these values of the fields assigned;\n   Reached %s = control reaches the next statement with these variables",
			fn.Prefix, len(list), line(list[0].Pos()), line(list[fn.Prefix-1].End()), tuple(wnames), strings.Join(rets, ", "), tuple(append([]string{}, fn.Vars...)))
	}
	if len(fn.Written) > 0 && fn.Prefix == 0 {
		var ws []string
		for _, in := range fn.Written {
			ws = append(ws, in.Name)
		}
		note += fmt.Sprintf(".\n   The fields it assigns follow its results: %s", strings.Join(ws, ", "))
	}
	for _, in := range fn.Inputs {
		if in.Oracle != "" {
			what := "returned"
			if in.Written {
				what = "left in its slice argument"
			}
			note += fmt.Sprintf(".\n   %s = what call %s of %s %s", in.Name, in.Oracle[strings.Index(in.Oracle, "#")+1:], in.Oracle[:strings.Index(in.Oracle, "#")], what)
		}
	}
	full := res
	if fn.Monadic {
		full = "outcome " + res
	}
	var b strings.Builder
	fmt.Fprintf(&b, "(* %s, %s%s *)\n", fn.Name, file, note)
	for _, l := range fn.Loops {
		b.WriteString(strings.Replace(l, "@RES@", res, -1))
	}
	fmt.Fprintf(&b, "Definition %s%s : %s :=\n%s.\n\n", fn.Coq, ps, full, ind(fn.Text))
	fn.Text = b.String()
}

// does the text mention something defined in coq/Lib/GoSem.v?
func usesSem(text string) bool {
	for _, w := range []string{"list Z", "go_len", "go_index", "go_update", "go_slice", "go_splice", "go_make", "go_zeros", "go_copy", "go_buf_"} {
		if strings.Contains(text, w) {
			return true
		}
	}
	return false
}

// File is the text of the generated .v file for the functions translated so far.
func (T *Translator) File() string {
	var b strings.Builder
	b.WriteString("(* GENERATED by tools/gofunc from the Go source on every run.  Do not edit.\n   One Gallina definition per translated Go function; all values are Z, fixed-width\n   semantics (wrap-around of conversions and operators) made explicit. *)\n")
	b.WriteString("From Coq Require Import ZArith Bool.\n")
	sem := false
	for _, f := range T.Order {
		if f.Err == nil && !f.Extern && (f.Monadic || f.Prefix > 0 || usesSem(f.Text)) {
			sem = true
		}
	}
	if sem {
		b.WriteString("From Coq Require Import List.\nFrom FV Require Import Lib.GoSem.\n")
	}
	b.WriteString("Open Scope Z_scope.\n\n")
	b.WriteString(T.errTable())
	for _, f := range T.Order {
		b.WriteString(f.Text)
	}
	return b.String()
}
