// gofunc: a small Go -> Gallina translator for an imperative, integer-valued subset of Go.
//
// It type-checks a package of the repository (go/ast + go/types; nothing is fetched) and
// translates the named functions/methods into Gallina definitions.  The output is regenerated
// on every run (bin/regen), so the Coq theorems about these definitions (cNN_src_*) are
// re-checked against what the source says now.  This program, coq/Lib/GoSem.v and the rules
// below are part of the trusted base of those theorems.  The rules are tested by
// `go test ./...` in this directory (fixtures under testdata/) and validated differentially
// against the compiled Go code by validate/ (bin/validate-gofunc).
//
// usage: gofunc <repo root> <module path> <pkgdir> <out.v> <prefix> Func [Type.Method | import/path:Func | F#prefix | F#extern ...]
//        gofunc -scan <repo root> <module path> <pkgdir>      (list what is translatable)

/* ------------------------------------------------------------------------------ RULES
Values.   Every integer type (intN, uintN, int, uint, uintptr; word size = 64 bit) is Z;
  bool is bool; a slice of integers ([]uintN, []intN, named types over them) and a string
  (its bytes) are `list Z`.  Nothing else has a representation.
  Inputs are ASSUMED to lie in the range of their Go types (nothing is wrapped on entry);
  every operation keeps its result in range:
    conversion T(e), + - * / % << unary - ^   of unsigned type uintN:  (e) mod 2^N
                                              of signed type intN:  two's complement
                                              ((e + 2^(N-1)) mod 2^N - 2^(N-1))
    & | ^ &^ >>            Z.land Z.lor Z.lxor Z.ldiff Z.shiftr (closed on in-range values;
                           Z.shiftr of a negative number is the arithmetic shift)
    / %                    Z.quot Z.rem (truncated); a divisor that is not a non-zero
                           constant: go_quot/go_rem = Panic when it is 0
    << >> by a variable    count n of signed type: Panic when n < 0; the count is capped
                           (Z.min n N) - Go gives 0 (or -1) for n >= N as well
    == != < <= > >=        Z.eqb ... (Bool.eqb on bools);  && || !  with short circuit
    constants              folded by go/types, emitted as literals
    len(s)                 go_len s (Z.of_nat (length s))
    s[i]                   go_index s i: Panic unless 0 <= i < len s
    s[i:]                  go_slice_from s i: Panic unless 0 <= i <= len s
                           (s[:j], s[i:j] depend on cap(s): not translatable)
    min, max               Z.min, Z.max
Parameters.  A parameter (or receiver) of a representable type is one parameter of the
  definition, v_<name>.  A parameter of struct / pointer-to-struct type contributes one
  parameter per field path that the body reads, v_<name>_<field>[_<field>...], in order of
  first use (pointers on the path are ASSUMED non-nil).  len(p.f) of a slice of
  non-integers is the parameter n_<name>_<field> (ASSUMED >= 0).  Fields, slices and
  package-level variables cannot be written (fields of parameters can: see "Fields written"),
  so a field the function does not assign is constant during the call.
Fields written.  A function may assign fields of its parameters (p.f = e, p.f op= e, p.f++):
  the field is a parameter as above and at the same time a variable of the definition; the
  final values of all fields the function assigns are appended to its results (a function
  without results then has just these).  A function that writes fields cannot be called
  from translated code.  Slice elements, maps and pointers still cannot be written.
Skipped calls.  The statements mu.Lock() / mu.Unlock() / mu.RLock() / mu.RUnlock() on a
  sync.Mutex / sync.RWMutex, `defer mu.Unlock()` / `defer mu.RUnlock()`, and log.Printf /
  log.Print / log.Println with constant or plain-name arguments are dropped: the semantics is
  that of one goroutine, log output is not modelled.
External functions.  "F#extern" (given before its callers) declares the package-level function
  F, with integer/bool parameters and results, external: it is not translated and every call
  site of it (outside loops only) becomes a parameter x_F_<k> of the calling definition -
  "what the k-th call of F in this function returned"; the arguments are still evaluated.
  This is how a clock enters.  ASSUMED: F does not touch the fields its callers read or write.
  Definitions with such parameters are not validated differentially.
Statements.  x := e, var x T [= e], x = e, x op= e, x++, x--, a, b = e1, e2 (parallel),
  a, b := f(...), _ = e (evaluated for its panics), if/else if/else (with init), switch on
  an integer/bool tag or tagless (no fallthrough; case expressions must not be able to
  panic), for cond {}, for init; cond; post {}, for {}, for i, v := range s (s a slice of
  integers), break, continue, return (also bare, with named results), panic(...), blocks.
  Only local variables can be assigned.  Each Go variable gets one Gallina name (a second
  variable of the same name: v_x_2); an assignment is a `let` that shadows it.
  An `if` whose branches contain no return/break/continue/panic is an expression whose value
  is the tuple of the outer variables its branches assign; it is bound (let / bind) in front
  of the statements that follow.  Any other `if`/`switch` is translated in
  continuation-passing style: the statements after it are repeated in each branch that
  falls through.
Loops.  Each loop becomes  <f>_loopK_body : ... -> state -> outcome (step state result)
  (one iteration: Next s / Done s on a false condition or break / Ret r on return) and
  <f>_loopK fuel ... state := go_loop fuel (<f>_loopK_body ...) state.  The state is the
  tuple of the outer variables the loop assigns (in declaration order; a range loop's
  hidden index r_idx first); the outer variables and inputs it only reads are extra
  parameters.  Every loop and every called function that loops gets the same `fuel : nat`
  = the bound on the iterations of each single loop.
Calls.  Only functions/methods that were translated before (names are given callees first).
  A callee in another package is named "import/path:F" or "import/path:T.M" and translated
  from its source like any other: a package of the module from its directory, anything
  else from GOROOT/src (e.g. "encoding/binary:bigEndian.Uint16"); its definition is called
  <prefix><pkg>_<T>_<M>.  A struct argument must itself be a parameter or a field path; an
  argument (or receiver) the callee reads nothing of is not evaluated and must be a plain
  name (binary.BigEndian).
Files.  Those the go tool would compile without build tags (so `//go:build verif` hooks and
  *_test.go are left out).
Results.  One result: its type; several: a tuple.  A function in which nothing can panic
  and nothing loops is a plain definition `: T`; any other is `: outcome T`
  (Ok v | Panic | OutOfFuel, see coq/Lib/GoSem.v) and takes `fuel` first if it loops.
Fragments.  "F#prefix" translates the longest translatable PREFIX of the body of F (a function
  that as a whole is outside the subset): its first k statements, stopping in front of the
  first top-level return.  <prefix>F_prefix : frag W V (coq/Lib/GoSem.v):
    Returned n w   control reached the n-th return statement of F (source order) inside the
                   prefix; w = the values, at that point, of the fields the prefix assigns
                   (tt if none); what the statement returns is not part of the fragment
    Reached v      control reaches statement k+1; v = the representable parameters, the
                   variables declared at the top level of the body (declaration order) and
                   the assigned fields.
  The comment in front of the definition says which statements and lines it covers; if the
  source changes so that k changes, the tuple changes shape and dependent proofs stop
  compiling.  A fragment cannot be called and is not validated differentially.
Everything else (floats, maps, channels, pointers, closures, defer, go, select, goto,
  labels, append/make/copy, writes to slice elements, calls outside the set, other defers,
  generic or variadic functions, range over strings/maps/channels/integers) makes the
  function `NOT TRANSLATABLE: reason`: a comment in the output, so a proof that needs the
  definition stops compiling.
Not modelled: data races, stack overflow, out-of-memory, nil receivers.
*/

package main

import (
	"fmt"
	"os"
	"sort"

	"gofunc/tr"
)

func main() {
	if len(os.Args) == 5 && os.Args[1] == "-scan" {
		scan(os.Args[2], os.Args[3], os.Args[4])
		return
	}
	if len(os.Args) < 7 {
		fmt.Fprintln(os.Stderr, "usage: gofunc <repo> <module> <pkgdir> <out.v> <prefix> names...")
		os.Exit(2)
	}
	root, mod, rel, out, prefix := os.Args[1], os.Args[2], os.Args[3], os.Args[4], os.Args[5]
	T := tr.New(tr.Load(root, mod, rel), prefix)
	for _, n := range os.Args[6:] { // in the order given: callees first
		if f := T.Translate(n); f.Err != nil {
			fmt.Fprintf(os.Stderr, "gofunc: %s %s: %v\n", rel, n, f.Err)
		}
	}
	text := T.File()
	if old, err := os.ReadFile(out); err == nil && string(old) == text {
		return
	}
	if err := os.WriteFile(out, []byte(text), 0o644); err != nil {
		fmt.Fprintln(os.Stderr, err)
		os.Exit(1)
	}
}

// scan tries every function of the package (repeating until no new one succeeds, so that
// callees come first) and prints which are translatable.
func scan(root, mod, rel string) {
	p := tr.Load(root, mod, rel)
	var names []string
	for n := range p.Decls {
		names = append(names, n)
	}
	sort.Strings(names)
	T := tr.New(p, "go_")
	done := map[string]bool{}
	reason := map[string]error{}
	for progress := true; progress; {
		progress = false
		for _, n := range names {
			if done[n] {
				continue
			}
			f := T.Translate(n)
			if f.Err == nil {
				done[n], progress = true, true
				kind := "plain"
				if f.Monadic {
					kind = "outcome"
				}
				fmt.Printf("OK   %-40s %s\n", n, kind)
			}
			reason[n] = f.Err
		}
	}
	for _, n := range names {
		if !done[n] {
			fmt.Printf("no   %-40s %v\n", n, reason[n])
			if f := T.Translate(n + "#prefix"); f.Err == nil && f.Prefix > 1 { // a fragment of it?
				fmt.Printf("     %-40s #prefix: %d of %d statements, hands on %v\n", "", f.Prefix, len(f.Decl.Body.List), f.Vars)
			}
		}
	}
}
