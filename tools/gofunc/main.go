// gofunc: a small Go -> Gallina translator for an imperative, integer-valued subset of Go.
//
// It type-checks a package of the repository (go/ast + go/types; nothing is fetched) and
// translates the named functions/methods into Gallina definitions.  The output is regenerated
// on every run (bin/regen), so the Coq theorems about these definitions (cNN_src_*) are
// re-checked against what the source says now.  This program, coq/Lib/GoSem.v and the rules
// below are part of the trusted base of those theorems.  The rules are tested by
// `go test ./...` in this directory (fixtures under testdata/) and validated differentially
// against the compiled Go code by validate/ (bin/validate-gofunc).
//
// usage: gofunc <repo root> <module path> <pkgdir> <out.v> <prefix> Func [Type.Method | import/path:Func | F#prefix | F#extern | F#externw | F@T ...]
//        gofunc -scan <repo root> <module path> <pkgdir>      (list what is translatable)

/* ------------------------------------------------------------------------------ RULES
Values.   Every integer type (intN, uintN, int, uint, uintptr; word size = 64 bit) is Z;
  bool is bool; a slice of integers ([]uintN, []intN, named types over them), an array of
  integers ([N]uintN: a list of length N; `var a [N]T` is N zeros; arrays are values: a copy
  is a copy), a string (its bytes) and a bytes.Buffer (its unread bytes, see "bytes.Buffer")
  are `list Z`.  A nil slice is the empty list: nil and empty slices are NOT told apart
  (comparing a slice with nil is not translatable).
  error is Z: 0 = nil; 1 = an error made on the spot (fmt.Errorf / errors.New with a constant
  format; the other arguments are evaluated); a package-level error variable = a code derived
  from its qualified name (crc32, stable from run to run; the table `go_err_<pkg>_<Name>` is
  emitted at the head of the output).  ASSUMED: distinct error variables hold distinct,
  non-nil errors and are never reassigned.  Errors are only compared with nil or with an
  error variable.  An error returned by an external function is whatever Z it is given as.
  interface{} is Z too: an opaque token, 0 = nil (ASSUMED: distinct values, distinct tokens);
  tokens can be stored, passed on, returned and compared with nil, nothing else; a slice of
  interface{} is a `list Z` of tokens (if a function only takes its len(): the parameter
  n_<path>, as before).
  Nothing else has a representation.
  Inputs are ASSUMED to lie in the range of their Go types (nothing is wrapped on entry);
  every operation keeps its result in range:
    conversion T(e), + - * / % << unary - ^   of unsigned type uintN:  (e) mod 2^N
                                              of signed type intN:  two's complement
                                              ((e + 2^(N-1)) mod 2^N - 2^(N-1))
    & | ^ &^ >>            Z.land Z.lor Z.lxor Z.ldiff Z.shiftr (closed on in-range values;
                           Z.shiftr of a negative number is the arithmetic shift)
    / %                    Z.quot Z.rem (truncated); a divisor that is not a non-zero
                           constant: go_quot/go_rem = Panic when it is 0
    << >> by a variable    count n of signed type: Panic when n < 0; the count is capped
                           (Z.min n N) - Go gives 0 (or -1) for n >= N as well
    == != < <= > >=        Z.eqb ... (Bool.eqb on bools);  && || !  with short circuit
    constants              folded by go/types, emitted as literals
    len(s)                 go_len s (Z.of_nat (length s))
    s[i]                   go_index s i: Panic unless 0 <= i < len s
    s[i:]                  go_slice_from s i: Panic unless 0 <= i <= len s
    s[i:j], s[:j]          go_slice s i j: Panic unless 0 <= i <= j <= len s.  In Go j may
                           exceed len s up to cap s, which a list does not record:
                           ASSUMED: no slice is resliced beyond its length (such a reslice is
                           Panic here, not in Go; the validator gives slices spare capacity
                           to find code that relies on it).  s[:] is s.  s[i:j:k]: no.
    make([]T, n)           go_make n: Panic when n < 0, else n zeros (make with a capacity: no;
                           running out of memory is not modelled)
    []byte(s), string(b), T(s) for slice types: the same list
    min, max               Z.min, Z.max
Parameters.  A parameter (or receiver) of a representable type is one parameter of the
  definition, v_<name>.  A parameter of struct / pointer-to-struct type contributes one
  parameter per field path that the body reads, v_<name>_<field>[_<field>...], in order of
  first use (pointers on the path are ASSUMED non-nil).  len(p.f) of a slice of
  non-integers is the parameter n_<name>_<field> (ASSUMED >= 0).  Package-level variables cannot be written; what can is
  described under "Memory written": a field or list the function does not write is constant
  during the call.
Memory written.  A function may assign fields of its pointer parameters (p.f = e, p.f op= e,
  p.f++; not of a struct passed by value) and elements of lists: s[i] = e, s[i] op= e, s[i]++,
  a, b = ... with elements on the left (operands and right-hand sides first, then the
  assignments left to right, as in Go), copy(dst, src) (as a statement or `n := copy(..)`),
  where the list is a local slice or array, a slice parameter, or a field; s[i] = e is
  go_update s i e: Panic unless 0 <= i < len s.  The location is a variable of the
  definition; the final values of every field assigned and of every slice PARAMETER written
  through are appended to the results, in order of first write (a function without results
  then has just these).
  A call of a translated function that writes memory may only be a statement of its own, the
  only right-hand side of an assignment, a returned value, or an `if` condition (possibly under
  `!`); a slice argument it writes must be a list as above or a window x[i:], x[i:j], x[:j],
  x[:] of one: the new content is spliced back (go_splice).
  ALIASING.  A slice is translated as the list of its elements, which is sound only while no
  two names stand for overlapping memory that is written.  Therefore:
    - ASSUMED: distinct slice parameters / fields of the function do not overlap each other
      (a caller in translated code that passes the same list for two arguments of which one
      is written is refused);
    - a local slice variable or parameter that is written through may be assigned at most
      once, at its declaration (a parameter: never);
    - whenever a slice variable or field gets its value from another slice, array or field
      (x := y, x = y[i:j], x := T(y), x := f(y)), every write through x or y must come textually
      before that statement, and the statement must not be inside a loop;
    otherwise the function is NOT TRANSLATABLE.
Slices of structs.  For a parameter or field q of type []*S or []S (S a struct), q[i].f is
  element i of the list v_<q>_f: one `list Z` per integer / bool field of S that is used, all of
  the length of q (len(q) is the parameter n_<q>; ASSUMED equal to their lengths).  ASSUMED:
  the elements are non-nil and pairwise distinct pointers.  q[i].f = e updates that list;
  q[i] = q[j] and q[i], q[j] = q[j], q[i] move all representable fields of the element (the
  others travel with it unseen).  An element cannot be copied to a variable.
Interface parameters.  "F@T" translates F with each parameter of interface type that T (or *T)
  implements standing for a value of type T: a method call on it is the call of T's method,
  and passing it on calls the instance "G@T" of G.  The definition is <prefix><pkg>_F_T
  (container/heap:up@timerHeap -> go_heap_up_timerHeap).  A call of F from translated code
  with an argument of type T reaches this instance.
bytes.Buffer.  Not translated from its source: a value of that type (also as an embedded
  field) is the list of its unread bytes, and Write, WriteByte, Read, ReadByte, Bytes, Len are
  go_buf_write, go_buf_write_byte, go_buf_read, go_buf_read_byte, go_buf_bytes, go_len of
  coq/Lib/GoSem.v, written after the documentation of the type (Read of an empty buffer
  into a non-empty p: (0, io.EOF); otherwise min(len p, unread) bytes, nil).  ASSUMED: the
  slice Bytes() returns is only read.
Skipped calls.  The statements mu.Lock() / mu.Unlock() / mu.RLock() / mu.RUnlock() on a
  sync.Mutex / sync.RWMutex, `defer mu.Unlock()` / `defer mu.RUnlock()`, and log.Printf /
  log.Print / log.Println with constant or plain-name arguments are dropped: the semantics is
  that of one goroutine, log output is not modelled.
External functions.  "F#extern", "T.M#extern", "import/path:T.M#extern" (given before the
  callers; T may be an interface) declare a function or method external: it is not translated
  and every call site of it (outside loops only) becomes parameters x_F_<k>[_<i>] of the
  calling definition - "what the k-th call of F in this function returned" (results of any
  representable type).  Arguments of a representable type are still evaluated; other
  arguments and the receiver must be plain names.  "#externw" in place of "#extern": the
  function also writes its slice arguments; their new contents are parameters x_F_<k>_w<i>
  (ASSUMED of the length of the argument) and are spliced back.  This is how a clock, a
  reader (io:ReadFull#externw) or a marshaller enters.  ASSUMED: F touches nothing else the
  callers read or write.  Definitions with such parameters are not validated differentially.
  A translated function G that calls external functions can itself be called (outside loops;
  not if it calls "#externw" functions): each such parameter x_<name> of G becomes a parameter
  x_G_<k>_<name> of the caller - "that answer, inside the k-th call of G in this function".
Statements.  x := e, var x T [= e], x = e, x op= e, x++, x--, a, b = e1, e2 (parallel),
  a, b := f(...), _ = e (evaluated for its panics), if/else if/else (with init), switch on
  an integer/bool tag or tagless (no fallthrough; case expressions must not be able to
  panic), for cond {}, for init; cond; post {}, for {}, for i, v := range s (s a slice of
  integers), break, continue, return (also bare, with named results), panic(...), blocks, a
  call as a statement (for what it writes and its panics).
  Apart from "Memory written", only local variables can be assigned.  Each Go variable gets one Gallina name (a second
  variable of the same name: v_x_2); an assignment is a `let` that shadows it.
  An `if` whose branches contain no return/break/continue/panic is an expression whose value
  is the tuple of the outer variables its branches assign; it is bound (let / bind) in front
  of the statements that follow.  Any other `if`/`switch` is translated in
  continuation-passing style: the statements after it are repeated in each branch that
  falls through.
Loops.  Each loop becomes  <f>_loopK_body : ... -> state -> outcome (step state result)
  (one iteration: Next s / Done s on a false condition or break / Ret r on return) and
  <f>_loopK fuel ... state := go_loop fuel (<f>_loopK_body ...) state.  The state is the
  tuple of the outer variables the loop assigns (in declaration order; a range loop's
  hidden index r_idx first); the outer variables and inputs it only reads are extra
  parameters.  Every loop and every called function that loops gets the same `fuel : nat`
  = the bound on the iterations of each single loop.
Calls.  Only functions/methods that were translated before (names are given callees first).
  A callee in another package is named "import/path:F" or "import/path:T.M" and translated
  from its source like any other: a package of the module from its directory, anything
  else from GOROOT/src (e.g. "encoding/binary:bigEndian.Uint16"); its definition is called
  <prefix><pkg>_<T>_<M>.  A struct argument must itself be a parameter or a field path; an
  argument (or receiver) the callee reads nothing of is not evaluated and must be a plain
  name (binary.BigEndian).
Files.  Those the go tool would compile without build tags (so `//go:build verif` hooks and
  *_test.go are left out).
Results.  One result: its type; several: a tuple.  A function in which nothing can panic
  and nothing loops is a plain definition `: T`; any other is `: outcome T`
  (Ok v | Panic | OutOfFuel, see coq/Lib/GoSem.v) and takes `fuel` first if it loops.
Fragments.  "F#prefix" translates the longest translatable PREFIX of the body of F (a function
  that as a whole is outside the subset): its first k statements, stopping in front of the
  first top-level return.  <prefix>F_prefix : frag W V (coq/Lib/GoSem.v):
    Returned n w   control reached the n-th return statement of F (source order) inside the
                   prefix; w = the values, at that point, of the fields the prefix assigns
                   (tt if none); what the statement returns is not part of the fragment
    Reached v      control reaches statement k+1; v = the representable parameters, the
                   variables declared at the top level of the body (declaration order) and
                   the assigned fields.
  The comment in front of the definition says which statements and lines it covers; if the
  source changes so that k changes, the tuple changes shape and dependent proofs stop
  compiling.  A fragment cannot be called and is not validated differentially.
Everything else (floats, maps, channels, pointers, closures, defer, go, select, goto,
  labels, append, cap, unsafe, type assertions, calls outside the set, other defers,
  generic or variadic functions, range over strings/maps/channels/integers) makes the
  function `NOT TRANSLATABLE: reason`: a comment in the output, so a proof that needs the
  definition stops compiling.
Not modelled: data races, stack overflow, out-of-memory, nil receivers.
*/

package main

import (
	"fmt"
	"os"
	"sort"

	"gofunc/tr"
)

func main() {
	if len(os.Args) == 5 && os.Args[1] == "-scan" {
		scan(os.Args[2], os.Args[3], os.Args[4])
		return
	}
	if len(os.Args) < 7 {
		fmt.Fprintln(os.Stderr, "usage: gofunc <repo> <module> <pkgdir> <out.v> <prefix> names...")
		os.Exit(2)
	}
	root, mod, rel, out, prefix := os.Args[1], os.Args[2], os.Args[3], os.Args[4], os.Args[5]
	T := tr.New(tr.Load(root, mod, rel), prefix)
	for _, n := range os.Args[6:] { // in the order given: callees first
		if f := T.Translate(n); f.Err != nil {
			fmt.Fprintf(os.Stderr, "gofunc: %s %s: %v\n", rel, n, f.Err)
		}
	}
	text := T.File()
	if old, err := os.ReadFile(out); err == nil && string(old) == text {
		return
	}
	if err := os.WriteFile(out, []byte(text), 0o644); err != nil {
		fmt.Fprintln(os.Stderr, err)
		os.Exit(1)
	}
}

// scan tries every function of the package (repeating until no new one succeeds, so that
// callees come first) and prints which are translatable.
func scan(root, mod, rel string) {
	p := tr.Load(root, mod, rel)
	var names []string
	for n := range p.Decls {
		names = append(names, n)
	}
	sort.Strings(names)
	T := tr.New(p, "go_")
	done := map[string]bool{}
	reason := map[string]error{}
	for progress := true; progress; {
		progress = false
		for _, n := range names {
			if done[n] {
				continue
			}
			f := T.Translate(n)
			if f.Err == nil {
				done[n], progress = true, true
				kind := "plain"
				if f.Monadic {
					kind = "outcome"
				}
				fmt.Printf("OK   %-40s %s\n", n, kind)
			}
			reason[n] = f.Err
		}
	}
	for _, n := range names {
		if !done[n] {
			fmt.Printf("no   %-40s %v\n", n, reason[n])
			if f := T.Translate(n + "#prefix"); f.Err == nil && f.Prefix > 1 { // a fragment of it?
				fmt.Printf("     %-40s #prefix: %d of %d statements, hands on %v\n", "", f.Prefix, len(f.Decl.Body.List), f.Vars)
			}
		}
	}
}
