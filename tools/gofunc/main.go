// gofunc: a small Go -> Gallina translator for straight-line integer functions.
// It type-checks a package of the repository (go/types; nothing fetched) and translates the
// named functions/methods whose body is a single `return <expr>` built from parameters,
// constants, integer conversions, shifts, bitwise and arithmetic operators, comparisons and
// calls of other translated functions.  Every value is a Z; fixed-width semantics are made
// explicit: a conversion or an operation of unsigned type uintN is wrapped `mod 2^N`, of
// signed type intN it is re-interpreted in two's complement.  The output is regenerated on
// every run, so the Coq theorems about these definitions are re-checked against what the
// source says now.
//
// usage: gofunc <repo root> <module path> <pkgdir> <out.v> <prefix> Func [Type.Method ...]
package main

import (
	"fmt"
	"go/ast"
	"go/constant"
	"go/importer"
	"go/parser"
	"go/token"
	"go/types"
	"os"
	"path/filepath"
	"sort"
	"strings"
)

type imp struct {
	root, mod string
	fset      *token.FileSet
	std       types.Importer
	cache     map[string]*types.Package
}

func (im *imp) Import(path string) (*types.Package, error) {
	if p, ok := im.cache[path]; ok {
		return p, nil
	}
	if path == im.mod || strings.HasPrefix(path, im.mod+"/") {
		rel := strings.TrimPrefix(strings.TrimPrefix(path, im.mod), "/")
		p, _, _ := im.check(rel, path)
		return p, nil
	}
	first := strings.Split(path, "/")[0]
	if !strings.Contains(first, ".") {
		if p, err := im.std.Import(path); err == nil {
			im.cache[path] = p
			return p, nil
		}
	}
	p := types.NewPackage(path, path[strings.LastIndex(path, "/")+1:])
	p.MarkComplete()
	im.cache[path] = p
	return p, nil
}

func (im *imp) check(rel, path string) (*types.Package, *types.Info, []*ast.File) {
	dir := filepath.Join(im.root, rel)
	pkgs, _ := parser.ParseDir(im.fset, dir, func(fi os.FileInfo) bool {
		n := fi.Name()
		return !strings.HasSuffix(n, "_test.go") && !strings.Contains(n, "verif")
	}, 0)
	var files []*ast.File
	for n, p := range pkgs {
		if strings.HasSuffix(n, "_test") {
			continue
		}
		names := []string{}
		for fn := range p.Files {
			names = append(names, fn)
		}
		sort.Strings(names)
		for _, fn := range names {
			files = append(files, p.Files[fn])
		}
		break
	}
	info := &types.Info{Types: map[ast.Expr]types.TypeAndValue{}, Uses: map[*ast.Ident]types.Object{}, Defs: map[*ast.Ident]types.Object{}, Selections: map[*ast.SelectorExpr]*types.Selection{}}
	conf := types.Config{Importer: im, Error: func(error) {}, FakeImportC: true}
	p, _ := conf.Check(path, im.fset, files, info)
	if p == nil {
		p = types.NewPackage(path, "x")
	}
	im.cache[path] = p
	return p, info, files
}

type tr struct {
	info   *types.Info
	prefix string
	want   map[string]bool
	err    error
}

func (t *tr) fail(format string, a ...interface{}) string {
	if t.err == nil {
		t.err = fmt.Errorf(format, a...)
	}
	return "0"
}

// width and signedness of an integer type (word-sized types are taken as 64 bit)
func intInfo(ty types.Type) (bits int, signed bool, ok bool) {
	b, isb := ty.Underlying().(*types.Basic)
	if !isb {
		return 0, false, false
	}
	switch b.Kind() {
	case types.Int8:
		return 8, true, true
	case types.Int16:
		return 16, true, true
	case types.Int32:
		return 32, true, true
	case types.Int64, types.Int:
		return 64, true, true
	case types.Uint8:
		return 8, false, true
	case types.Uint16:
		return 16, false, true
	case types.Uint32:
		return 32, false, true
	case types.Uint64, types.Uint, types.Uintptr:
		return 64, false, true
	}
	return 0, false, false
}

func pow2(n int) string { return new(bigInt).pow2(n) }

type bigInt struct{}

func (bigInt) pow2(n int) string { return constant.Shift(constant.MakeInt64(1), token.SHL, uint(n)).ExactString() }

func wrap(ty types.Type, e string) string {
	bits, signed, ok := intInfo(ty)
	if !ok {
		return e
	}
	if !signed {
		return fmt.Sprintf("((%s) mod %s)", e, pow2(bits))
	}
	return fmt.Sprintf("(((%s) + %s) mod %s - %s)", e, pow2(bits-1), pow2(bits), pow2(bits-1))
}

func lit(v constant.Value) string {
	s := v.ExactString()
	if strings.HasPrefix(s, "-") {
		return "(" + s + ")"
	}
	return s
}

func (t *tr) expr(e ast.Expr) string {
	if tv, ok := t.info.Types[e]; ok && tv.Value != nil {
		v := tv.Value
		if v.Kind() == constant.Int {
			return lit(v)
		}
		if v.Kind() == constant.Bool {
			if constant.BoolVal(v) {
				return "true"
			}
			return "false"
		}
	}
	switch x := e.(type) {
	case *ast.ParenExpr:
		return t.expr(x.X)
	case *ast.Ident:
		return "v_" + x.Name
	case *ast.CallExpr:
		// conversion?
		if tv, ok := t.info.Types[x.Fun]; ok && tv.IsType() {
			if len(x.Args) != 1 {
				return t.fail("conversion with %d args", len(x.Args))
			}
			if _, _, ok := intInfo(tv.Type); !ok {
				return t.fail("conversion to non-integer type %s", tv.Type)
			}
			return wrap(tv.Type, t.expr(x.Args[0]))
		}
		// method call recv.M(args) or function call F(args) of a translated function
		switch f := x.Fun.(type) {
		case *ast.SelectorExpr:
			if sel, ok := t.info.Selections[f]; ok && sel.Kind() == types.MethodVal {
				named := sel.Recv()
				if p, ok := named.(*types.Pointer); ok {
					named = p.Elem()
				}
				name := named.(*types.Named).Obj().Name() + "." + f.Sel.Name
				if !t.want[name] {
					return t.fail("call of untranslated method %s", name)
				}
				args := []string{t.expr(f.X)}
				for _, a := range x.Args {
					args = append(args, t.expr(a))
				}
				return "(" + t.prefix + strings.Replace(name, ".", "_", 1) + " " + strings.Join(args, " ") + ")"
			}
		case *ast.Ident:
			if !t.want[f.Name] {
				return t.fail("call of untranslated function %s", f.Name)
			}
			args := []string{}
			for _, a := range x.Args {
				args = append(args, t.expr(a))
			}
			return "(" + t.prefix + f.Name + " " + strings.Join(args, " ") + ")"
		}
		return t.fail("unsupported call")
	case *ast.UnaryExpr:
		ty := t.info.Types[e].Type
		switch x.Op {
		case token.SUB:
			return wrap(ty, "- "+t.expr(x.X))
		case token.XOR:
			return wrap(ty, "Z.lnot "+t.expr(x.X))
		case token.NOT:
			return "(negb " + t.expr(x.X) + ")"
		}
		return t.fail("unsupported unary %s", x.Op)
	case *ast.BinaryExpr:
		a, b := t.expr(x.X), t.expr(x.Y)
		ty := t.info.Types[e].Type
		switch x.Op {
		case token.SHL:
			return wrap(ty, fmt.Sprintf("Z.shiftl %s %s", a, b))
		case token.SHR:
			return fmt.Sprintf("(Z.shiftr %s %s)", a, b)
		case token.OR:
			return fmt.Sprintf("(Z.lor %s %s)", a, b)
		case token.AND:
			return fmt.Sprintf("(Z.land %s %s)", a, b)
		case token.XOR:
			return fmt.Sprintf("(Z.lxor %s %s)", a, b)
		case token.AND_NOT:
			return fmt.Sprintf("(Z.ldiff %s %s)", a, b)
		case token.ADD:
			return wrap(ty, a+" + "+b)
		case token.SUB:
			return wrap(ty, a+" - "+b)
		case token.MUL:
			return wrap(ty, a+" * "+b)
		case token.QUO:
			return wrap(ty, fmt.Sprintf("Z.quot %s %s", a, b))
		case token.REM:
			return wrap(ty, fmt.Sprintf("Z.rem %s %s", a, b))
		case token.EQL:
			return fmt.Sprintf("(%s =? %s)", a, b)
		case token.NEQ:
			return fmt.Sprintf("(negb (%s =? %s))", a, b)
		case token.LSS:
			return fmt.Sprintf("(%s <? %s)", a, b)
		case token.LEQ:
			return fmt.Sprintf("(%s <=? %s)", a, b)
		case token.GTR:
			return fmt.Sprintf("(%s >? %s)", a, b)
		case token.GEQ:
			return fmt.Sprintf("(%s >=? %s)", a, b)
		case token.LAND:
			return fmt.Sprintf("(%s && %s)", a, b)
		case token.LOR:
			return fmt.Sprintf("(%s || %s)", a, b)
		}
		return t.fail("unsupported operator %s", x.Op)
	}
	return t.fail("unsupported expression %T", e)
}

func main() {
	if len(os.Args) < 7 {
		fmt.Fprintln(os.Stderr, "usage: gofunc <repo> <module> <pkgdir> <out.v> <prefix> names...")
		os.Exit(2)
	}
	root, mod, rel, out, prefix := os.Args[1], os.Args[2], os.Args[3], os.Args[4], os.Args[5]
	names := os.Args[6:]
	fset := token.NewFileSet()
	im := &imp{root: root, mod: mod, fset: fset, std: importer.ForCompiler(fset, "source", nil), cache: map[string]*types.Package{}}
	path := mod
	if rel != "." {
		path = mod + "/" + rel
	}
	_, info, files := im.check(rel, path)
	want := map[string]bool{}
	for _, n := range names {
		want[n] = true
	}
	decls := map[string]*ast.FuncDecl{}
	for _, f := range files {
		for _, d := range f.Decls {
			fd, ok := d.(*ast.FuncDecl)
			if !ok {
				continue
			}
			name := fd.Name.Name
			if fd.Recv != nil && len(fd.Recv.List) == 1 {
				rt := fd.Recv.List[0].Type
				if s, ok := rt.(*ast.StarExpr); ok {
					rt = s.X
				}
				if id, ok := rt.(*ast.Ident); ok {
					name = id.Name + "." + name
				}
			}
			decls[name] = fd
		}
	}
	var b strings.Builder
	b.WriteString("(* GENERATED by tools/gofunc from the Go source on every run.  Do not edit.\n   One Gallina definition per translated Go function; all values are Z, fixed-width\n   semantics (wrap-around of conversions and operators) made explicit. *)\n")
	b.WriteString("From Coq Require Import ZArith Bool.\nOpen Scope Z_scope.\n\n")
	for _, n := range names { // in the order given: callees first
		fd := decls[n]
		cname := prefix + strings.Replace(n, ".", "_", 1)
		if fd == nil || fd.Body == nil {
			b.WriteString(fmt.Sprintf("(* %s: not found in the source *)\n\n", n))
			continue
		}
		t := &tr{info: info, prefix: prefix, want: want}
		var params []string
		if fd.Recv != nil {
			for _, f := range fd.Recv.List {
				for _, id := range f.Names {
					params = append(params, "v_"+id.Name)
				}
			}
		}
		for _, f := range fd.Type.Params.List {
			for _, id := range f.Names {
				params = append(params, "v_"+id.Name)
			}
		}
		var body string
		if len(fd.Body.List) == 1 {
			if r, ok := fd.Body.List[0].(*ast.ReturnStmt); ok && len(r.Results) == 1 {
				body = t.expr(r.Results[0])
			} else {
				t.fail("body is not a single return of one value")
			}
		} else {
			t.fail("body has %d statements", len(fd.Body.List))
		}
		pos := fset.Position(fd.Pos())
		if t.err != nil {
			b.WriteString(fmt.Sprintf("(* %s (%s:%d): NOT TRANSLATABLE: %v *)\n\n", n, filepath.Base(pos.Filename), pos.Line, t.err))
			continue
		}
		ret := "Z"
		if res := fd.Type.Results; res != nil && len(res.List) == 1 {
			if tv, ok := info.Types[res.List[0].Type]; ok {
				if bt, ok := tv.Type.Underlying().(*types.Basic); ok && bt.Kind() == types.Bool {
					ret = "bool"
				}
			}
		}
		ps := ""
		if len(params) > 0 {
			ps = " (" + strings.Join(params, " ") + " : Z)"
		}
		b.WriteString(fmt.Sprintf("(* %s, %s *)\nDefinition %s%s : %s :=\n  %s.\n\n", n, filepath.Base(pos.Filename), cname, ps, ret, body))
	}
	text := b.String()
	if old, err := os.ReadFile(out); err == nil && string(old) == text {
		return
	}
	if err := os.WriteFile(out, []byte(text), 0o644); err != nil {
		fmt.Fprintln(os.Stderr, err)
		os.Exit(1)
	}
}
