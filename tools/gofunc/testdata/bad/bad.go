// Package bad: every function here is outside the subset; the comment in front of it holds
// (a part of) the reason the translator must give.
package bad

import "math/bits"

type S struct {
	n    int
	m    map[int]int
	next *S
	arr  [4]byte
	f    float64
}

var global int

// want: result of unsupported type float64
func Float(a float64) float64 { return a * 2 }

// want: conversion from non-integer type float64
func FromFloat(a float64) int { return int(a) }

// want: function without a result
func Void(a int) {}

// want: package-level variable global
func Global(a int) int { return a + global }

// want: index into a value of type map[int]int
func (s *S) Map(k int) int { return s.m[k] }

// want: call of untranslated function
func Std(a uint32) int { return bits.Len32(a) }

// want: builtin append
func Append(b []byte) []byte { return append(b, 1) }

// want: variadic function
func Variadic(a ...int) int { return len(a) }

// want: unsupported statement *ast.DeferStmt
func Defer(a int) int {
	defer func() {}()
	return a
}

// want: unsupported statement *ast.GoStmt
func Go(a int) int {
	go func() {}()
	return a
}

// want: unsupported statement *ast.LabeledStmt
func Label(a int) int {
outer:
	for {
		for {
			break outer
		}
	}
	return a
}

// want: labelled goto
func Goto(a int) int {
	if a > 0 {
		goto end
	}
	a++
end:
	return a
}

// want: unsupported fallthrough
func Fall(a int) int {
	switch a {
	case 1:
		a++
		fallthrough
	case 2:
		a++
	}
	return a
}

// want: range over a value of type string
func RangeStr(s string) int {
	n := 0
	for range s {
		n++
	}
	return n
}

// want: unsupported unary &
func Pointer(a int) int {
	p := &a
	return *p
}

// want: field next of unsupported type
func (s *S) Next() bool { return s.next == nil }

// want: parameter s of type *fixture/bad.S used as a value
func Escape(s *S) bool { return s == nil }

// want: unsupported expression *ast.FuncLit
func Closure(a int) int {
	f := func() int { return a }
	return f()
}

// want: case expression that can panic
func CasePanics(b []byte, a byte) int {
	switch a {
	case b[0]:
		return 1
	}
	return 0
}

// want: generic function
func Generic[T any](a int) int { return a }

// want: comparison of values of type string
func StrEq(a, b string) bool { return a == b }

// want: operator + on type string
func Concat(a, b string) string { return a + b }

// want: unsupported statement *ast.TypeSwitchStmt
func TypeSwitch(v interface{}) int {
	switch v.(type) {
	case int:
		return 1
	}
	return 0
}

// want: call of S.Bump, which writes memory, inside an expression
func (s *S) CallsWriter(a int) int { return s.Bump(a) + s.n }

func (s *S) Bump(a int) int {
	s.n += a
	return s.n
}

// want: inside a loop
func ExternInLoop(n int) int {
	t := 0
	for i := 0; i < n; i++ {
		t += clock()
	}
	return t
}

func clock() int { return global }

// want: unsupported statement *ast.DeferStmt
func DeferOther(s *S) int {
	defer s.Bump(1)
	return 0
}

// want: share memory that is written afterwards
func AliasWrite(b []byte) byte {
	t := b[1:]
	t[0] = 1
	return b[1]
}

// want: is written through and assigned more than once
func Rebind(b []byte) {
	b[0] = 1
	b = b[1:]
}

// want: a struct passed by value
func (s S) SetByValue(a int) int {
	s.n = a
	return s.n
}

func fill2(dst, src []byte) {
	dst[0] = src[0]
}

// want: share the list v_b, which it writes
func SharedArgs(b []byte) {
	fill2(b, b[1:])
}

// want: comparison of two values of type error
func CmpErrs(a, b error) bool { return a == b }

// want: comparison of a slice with nil
func NilSlice(b []byte) bool { return b == nil }

// want: slice expression s[i:j:k]
func Slice3(b []byte) int { return len(b[0:1:2]) }

// want: make other than make([]T, n)
func MakeCap(n int) int { return len(make([]byte, n, 2*n)) }

// want: copy inside an expression
func CopyExpr(a, b []byte) int { return copy(a, b) + len(a) }

// want: unsupported expression *ast.TypeAssertExpr
func Assert(v interface{}) int { return v.(int) }

// want: call of the external method
func ExternRecv(s *S) int { return s.twice().ext() }

func (s *S) twice() *S { return s }

func (s *S) ext() int { return global }
