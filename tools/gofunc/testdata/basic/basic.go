// Package basic: fixtures for the gofunc translator.  Every function here must translate,
// and the differential validation (tools/gofunc/validate) runs each of them on random inputs
// against the Gallina the translator produced.
package basic

import (
	"encoding/binary"
	"log"
	"sync"

	"fixture/dep"
)

const (
	Shift = 3
	Mask  = 0x7f
)

type ID uint32

type Bytes []byte

type Ring struct {
	buf    []interface{}
	head   int
	count  int
	keys   []uint32
	inner  *Inner
	active bool
}

type Inner struct {
	length int
	limit  int64
	data   []int16
}

// ---- straight-line expressions (plain definitions)

func AddU8(a, b uint8) uint8      { return a + b }
func AddI8(a, b int8) int8        { return a + b }
func SubU32(a, b uint32) uint32   { return a - b }
func MulI32(a, b int32) int32     { return a * b }
func MulU64(a, b uint64) uint64   { return a * b }
func NegI16(a int16) int16        { return -a }
func NegU16(a uint16) uint16      { return -a }
func NotU8(a uint8) uint8         { return ^a }
func NotI64(a int64) int64        { return ^a }
func Bits(a, b uint16) uint16     { return (a&b | a ^ b) &^ (b >> 2) }
func BitsI(a, b int32) int32      { return (a&b | a ^ b) &^ (b >> 2) }
func ConstDiv(a int32) int32      { return a/7 + a%7 }
func ConstDivNeg(a int64) int64   { return a / -3 }
func ConstShift(a uint32) uint32  { return a<<Shift | a>>29 }
func SignedShr(a int32) int32     { return a >> 4 }
func Conv(a int64) uint8          { return uint8(int16(a)) }
func ConvS(a uint64) int8         { return int8(a) }
func ConvID(s uint8, i uint16) ID { return ID(uint32(s)<<16 | uint32(i)) }
func (n ID) High() uint8          { return uint8(n >> 16) }
func Cmp(a, b int64) bool         { return a < b && a <= b || !(a > b) && a >= b || a != b }
func EqB(a, b bool) bool          { return a == b != true }
func UseConst(a uint32) uint32    { return a&Mask + Shift }
func VarShl(a uint32, n uint8) uint32 {
	return a << n
}
func VarShr(a int64, n uint16) int64 {
	return a >> n
}
func VarShlSigned(a int16, n uint32) int16 {
	return a << n
}
func MinMax(a, b, c int32) int32 { return min(a, b, c) + max(a, b) }
func CallPlain(a, b uint8) uint8 { return AddU8(AddU8(a, b), 1) }
func (n ID) Next() ID            { return ConvID(n.High(), uint16(n)+1) }

// ---- statements without panics or loops (still plain definitions)

func Abs(a int32) int32 {
	if a < 0 {
		return -a
	}
	return a
}

func Clamp(x, lo, hi int) int {
	if x < lo {
		x = lo
	} else if x > hi {
		x = hi
	}
	return x
}

func Normalize(start, end, llen int) (int, int, bool) {
	if start < 0 {
		start = llen + start
	}
	if end < 0 {
		end = llen + end
	}
	if start < 0 {
		start = 0
	}
	if start > end || start >= llen {
		return 0, 0, false
	}
	if end >= llen {
		end = llen - 1
	}
	return start, end, true
}

func Locals(a uint16) uint16 {
	var x uint16
	var y, z uint16 = a, 2
	w := y * z
	x += w
	x -= 1
	x *= 3
	x |= 0x10
	x &= 0xfff
	x ^= 5
	x <<= 2
	x >>= 1
	x &^= 8
	x++
	y--
	return x + y
}

func Swap(a, b int8) (int8, int8) {
	a, b = b, a+b
	return a, b
}

func Shadow(a int) int {
	x := a
	if a > 0 {
		x := 2
		x++
		a += x
	}
	{
		x := x + 1
		a += x
	}
	return x + a
}

func Named(a, b uint8) (sum uint8, carry bool) {
	sum = a + b
	if sum < a {
		carry = true
		return
	}
	return sum, false
}

func Switch(k int, b bool) int {
	r := 0
	switch k {
	case 1, 2:
		r = 10
	case 3:
		if b {
			break
		}
		r = 30
	default:
		r = -1
	}
	switch {
	case k > 100:
		return r + 1000
	case b:
		r++
	}
	switch b {
	case true:
		r += 2
	}
	return r
}

func SwitchInit(k uint8) uint8 {
	switch x := k & 3; x {
	case 0:
		return 7
	case 1:
		return x + 1
	}
	if y := k >> 4; y > 3 {
		return y
	}
	return 0
}

func Multi(a int) (int, bool) {
	q, ok := Named(uint8(a), 200)
	var s, _ = Swap(int8(q), 1)
	_, t := Swap(s, 2)
	return int(t), ok
}

func RetCall(a, b int8) (int8, int8) { return Swap(a, b) }

func (r *Ring) Next(i int) int     { return (i + 1) & (len(r.buf) - 1) }
func (r *Ring) Len() int           { return r.count }
func (r *Ring) Deep() int64        { return r.inner.limit + int64(r.inner.length) }
func (r *Ring) Active() bool       { return r.active && r.count > 0 }
func (r *Ring) Twice(i int) int    { return r.Next(r.Next(i)) + r.Len() }
func (r Ring) ByValue() int        { return r.head + r.count }
func Outer(r *Ring, k int) int     { return r.Twice(k) + len(r.keys) }
func (in *Inner) Room() int64      { return in.limit - int64(in.length) }
func (r *Ring) InnerRoom() int64   { return r.inner.Room() }
func LenOf(b []byte, s string) int { return len(b) + len(s) }
func (b Bytes) Size() int          { return len(b) }

// ---- callees in other packages (translated first: "fixture/dep:Twice", "encoding/binary:bigEndian.Uint16", ...)

type Holder struct {
	cfg  dep.Cfg
	pcfg *dep.Cfg
}

func UseDep(a uint8) uint8             { return dep.Twice(a) + 1 }
func (h *Holder) Scaled(a uint8) uint8 { return h.pcfg.Apply(a) + h.cfg.Scale }
func UseStd(b []byte, off int) uint16  { return binary.BigEndian.Uint16(b[off:]) }
func UseLE(b []byte) uint32            { return binary.LittleEndian.Uint32(b) }
func UseStd64(b []byte) (uint64, uint64) {
	return binary.BigEndian.Uint64(b), binary.LittleEndian.Uint64(b[1:])
}

// ---- panics

func Div(a, b int32) int32        { return a / b }
func Rem(a, b uint16) uint16      { return a % b }
func DivMin(a, b int8) int8       { return a/b + a%b }
func ShlS(a uint32, n int) uint32 { return a << n }
func ShrS(a int32, n int8) int32  { return a >> n }
func At(b []byte, i int) byte     { return b[i] }
func (b Bytes) Third() byte       { return b[2] }
func StrAt(s string, i int) byte  { return s[i] }
func At16(b []int16, i uint8) int16 {
	return b[i] + 1
}
func Tail(b []byte, i int) []byte { return b[i:] }
func TailLen(b []uint32, i int) int {
	return len(b[i:])
}
func BE16(b []byte) uint16 {
	_ = b[1]
	return uint16(b[1]) | uint16(b[0])<<8
}
func BE16At(b []byte, off int) uint16 { return BE16(b[off:]) }
func Guard(b []byte, i int) byte {
	if i < 0 || i >= len(b) {
		panic("out of range")
	}
	return b[i]
}
func AndSafe(b []byte, i int) bool    { return i >= 0 && i < len(b) && b[i] > 10 }
func OrSafe(b []byte, i int) bool     { return i < 0 || i >= len(b) || b[i] > 10 }
func AndBoth(b []byte, i, j int) bool { return b[i] > 1 && b[j] > 1 }
func (r *Ring) Key(i int) uint32      { return r.keys[i] }
func (r *Ring) Data(i int) int16      { return r.inner.data[i] }
func CallPanics(b []byte, i int) int {
	x := At(b, i)
	if x > 100 {
		return int(x) - int(Guard(b, i+1))
	}
	return int(x)
}
func IfPanics(b []byte, i int) int {
	if b[i] == 0 {
		return 0
	} else if b[i+1] == 0 {
		return 1
	}
	return 2
}
func SwitchPanics(b []byte, i int) int {
	switch b[i] {
	case 0:
		return 0
	case 1, 2:
		return int(b[0])
	}
	return -1
}

// ---- loops

func Sum(b []byte) int {
	s := 0
	for i := 0; i < len(b); i++ {
		s += int(b[i])
	}
	return s
}

func SumRange(b []uint16) (n uint16) {
	for _, v := range b {
		n += v
	}
	return
}

func RangeIdx(b []int8) int {
	last := -1
	for i := range b {
		if b[i] < 0 {
			last = i
		}
	}
	return last
}

func RangeAssign(b []uint8) (int, uint8) {
	var i int
	var v uint8
	for i, v = range b {
		if v == 0 {
			break
		}
	}
	return i, v
}

func Find(b []uint32, x uint32) int {
	for i, v := range b {
		if v == x {
			return i
		}
	}
	return -1
}

func Search(keys []uint32, h uint32) int {
	lo, hi := 0, len(keys)
	for lo < hi {
		mid := lo + (hi-lo)/2
		if keys[mid] <= h {
			lo = mid + 1
		} else {
			hi = mid
		}
	}
	if lo >= len(keys) {
		lo = 0
	}
	return lo
}

func (r *Ring) Search(h uint32) int { return Search(r.keys, h) }

func RoundUp(min, want int) int {
	c := min
	for c < want {
		c <<= 1
		if c <= 0 {
			return -1
		}
	}
	return c
}

func Hash(s string) uint32 {
	var h = uint32(2166136261)
	for i := 0; i < len(s); i++ {
		var c = byte(s[i])
		h ^= uint32(c)
		h *= 16777619
	}
	return h
}

func Collatz(n uint16) int {
	steps := 0
	for n != 1 {
		if n == 0 {
			break
		}
		if n%2 == 0 {
			n /= 2
		} else {
			if n > 20000 {
				return -1
			}
			n = 3*n + 1
		}
		steps++
		if steps > 300 {
			continue
		}
	}
	return steps
}

func Forever(n uint8) int {
	k := 0
	for {
		if n == 0 {
			return k
		}
		n >>= 1
		k++
	}
}

func Nested(b []byte, w int) int {
	total := 0
	for i := 0; i+w <= len(b); i += w {
		row := 0
		for j := 0; j < w; j++ {
			if b[i+j] == 0xff {
				continue
			}
			row += int(b[i+j])
		}
		if row > 500 {
			break
		}
		total += row
	}
	return total
}

func NestedRet(rows []uint8, n int) (int, int) {
	for i := 0; i < n; i++ {
		for j := 0; j < n; j++ {
			if rows[i*n+j] == 7 {
				return i, j
			}
		}
	}
	return -1, -1
}

func LoopCall(b []byte) int {
	t := 0
	for i := 0; i < len(b); i++ {
		t += Sum(b[i:])
	}
	return t
}

func LoopSwitch(b []byte) int {
	n := 0
	for _, v := range b {
		switch {
		case v == 0:
			break
		case v > 200:
			continue
		default:
			n++
		}
		n += 2
	}
	return n
}

func IfThenLoop(b []byte, skip bool) int {
	s := 0
	if skip {
		s = 100
	}
	for _, v := range b {
		s += int(v)
	}
	if s > 1000 {
		s = 1000
	}
	return s
}

func CountDown(n uint8) (c int) {
	for i := n; i > 0; i-- {
		c += int(i)
	}
	return c
}

func UvarintLen(x uint64) int {
	i := 0
	for x >= 0x80 {
		x >>= 7
		i++
	}
	return i + 1
}

// ---- fragments ("F#prefix"): functions that are outside the subset as a whole

type node struct{ next *node }

func (r *Ring) RangePrefix(start, end int) []uint32 {
	n := len(r.keys)
	if start < 0 {
		start += n
	}
	if end < 0 {
		end += n
	}
	if start < 0 {
		start = 0
	}
	if start > end || start >= n {
		return nil
	}
	if end >= n {
		end = n - 1
	}
	size := end - start + 1
	out := make([]uint32, 0, size)
	for i := start; i <= end; i++ {
		out = append(out, r.keys[i])
	}
	return out
}

func WalkPrefix(b []byte, k int) *node {
	first := b[0]
	total := 0
	for _, v := range b {
		total += int(v)
	}
	if int(first) > k {
		panic("too big")
	}
	var n *node
	for i := 0; i < total; i++ {
		n = &node{next: n}
	}
	return n
}

// ---- fields written, locks and log output skipped, external calls as inputs

type Counter struct {
	mu    sync.Mutex
	seq   int64
	last  int64
	wraps uint8
	hist  []uint16
}

var now int64

func clockNow() int64 { return now }

func (c *Counter) SetSeq(v int64) { c.seq = v }

func (c *Counter) Bump(by int64) int64 {
	c.mu.Lock()
	defer c.mu.Unlock()
	if by < 0 {
		log.Printf("negative step %d", by)
		return c.seq
	}
	c.seq += by
	if c.seq > 1000 {
		c.seq = 0
		c.wraps++
	}
	c.last = c.seq
	return c.seq
}

func (c *Counter) Drain() (n int) {
	for c.seq > 0 {
		c.seq -= 7
		n++
		if n > 50 {
			c.wraps = 0
			break
		}
	}
	return n
}

func (c *Counter) SumHist() (total uint16, ok bool) {
	for _, h := range c.hist {
		total += h
		c.last = int64(h)
	}
	return total, c.last > 0
}

// uses the clock: translated with clockNow declared "clockNow#extern"
func (c *Counter) Stamp(limit int64) (int64, bool) {
	t := clockNow()
	if t > limit {
		return 0, false
	}
	if t < c.last {
		c.wraps++
	}
	c.last = t
	return t<<10 | c.seq&1023, true
}

// ---- joined ifs (branches that only fall through) in all positions

func JoinPanic(b []byte, i int, flag bool) int {
	x := 1
	if flag {
		x = int(b[i])
	} else if i > 3 {
		_ = b[i-3]
	}
	if i < 0 {
		_ = b[0]
	}
	y := x
	if x > 10 {
		if flag {
			y = x / i
		} else {
			y -= x
		}
		x++
	}
	return x + y
}

func JoinLoop(b []uint8) (lo, hi int) {
	for i, v := range b {
		if v < 128 {
			lo += int(v)
			if i%2 == 0 {
				lo++
			}
		} else {
			hi += int(v)
		}
		if lo > 1000 {
			lo = 0
		}
	}
	return
}

func (c *Counter) JoinFields(v int64, b []uint16) int64 {
	if v > c.last {
		c.last = v
		if v > 100 {
			c.wraps++
		}
	} else {
		c.seq--
	}
	for _, h := range b {
		if int64(h) > c.seq {
			c.seq = int64(h)
		}
	}
	return c.seq + c.last
}

func JoinSwitch(k int8, b []int8) int8 {
	r := k
	if k > 0 {
		switch k {
		case 1:
			r = 10
		case 2:
			r = b[0]
		default:
			r = -k
		}
	}
	return r
}
