package basic

import (
	"bytes"
	"encoding/binary"
	"errors"
	"fmt"
	"io"

	"fixture/hp"
)

// ---- writes to slice elements, arrays, make, copy, windows

func Fill(b []byte, v byte) {
	for i := range b {
		b[i] = v
	}
}

func SetAt(b []uint16, i int, v uint16) uint16 {
	old := b[i]
	b[i] = v
	b[i] += 3
	b[i]++
	return old
}

func SwapEnds(s []int32) {
	if len(s) < 2 {
		return
	}
	s[0], s[len(s)-1] = s[len(s)-1], s[0]
}

func Reverse(s []int8) int {
	n := 0
	for i, j := 0, len(s)-1; i < j; i, j = i+1, j-1 {
		s[i], s[j] = s[j], s[i]
		n++
	}
	return n
}

func PutBE16(b []byte, v uint16) {
	_ = b[1]
	b[0] = byte(v >> 8)
	b[1] = byte(v)
}

func LocalArray(v uint32) (uint32, byte) {
	var tmp [4]byte
	tmp[0] = byte(v)
	tmp[1] = byte(v >> 8)
	tmp[2] = byte(v >> 16)
	tmp[3] = byte(v >> 24)
	cp := tmp
	cp[0] = 0xff
	return uint32(tmp[0]) | uint32(tmp[3])<<8 | uint32(cp[0])<<16, tmp[len(tmp)-1]
}

func ArrayArg(v uint16, at int) []byte {
	var buf [6]byte
	PutBE16(buf[at:], v)
	PutBE16(buf[:], ^v)
	PutBE16(buf[2:4], v+1)
	return buf[:]
}

func StdPut(v uint32, w uint64) (uint32, byte, byte) {
	var a [4]byte
	var b [10]byte
	binary.LittleEndian.PutUint32(a[:], v)
	binary.BigEndian.PutUint64(b[1:], w)
	return binary.BigEndian.Uint32(a[:]), b[1], b[9]
}

func MakeCopy(src []byte, n int) ([]byte, int) {
	dst := make([]byte, n)
	k := copy(dst, src)
	if k > 1 {
		copy(dst[1:], src[:1])
	}
	return dst, k
}

func Middle(s []uint32, i, j int) uint32 {
	if j > len(s) { // (beyond len the result depends on cap(s), which the translation does not know)
		return 0
	}
	m := s[i:j]
	t := uint32(0)
	for _, v := range m {
		t += v
	}
	return t + uint32(len(s[:j]))
}

func Rotate1(s []byte) {
	if len(s) == 0 {
		return
	}
	first := s[0]
	copy(s, s[1:])
	s[len(s)-1] = first
}

func Histogram(data []byte) [4]int {
	var h [4]int
	for _, d := range data {
		h[d&3]++
	}
	return h
}

type Frame struct {
	hdr  [4]byte
	body []byte
	n    int
}

func (f *Frame) Stamp(v byte) {
	f.hdr[0] = v
	f.hdr[3] = v + 1
	if len(f.body) > 0 {
		f.body[0] = f.hdr[3]
	}
	f.n++
}

func (f *Frame) Grow(k int) {
	nb := make([]byte, len(f.body)+k)
	copy(nb, f.body)
	f.body = nb
}

func (f *Frame) StampTwice(v byte) int {
	f.Stamp(v)
	f.Stamp(v + 2)
	return f.n
}

// ---- errors as values

var ErrShort = errors.New("short")
var ErrBig = errors.New("big")

func Check(n int) error {
	if n < 2 {
		return ErrShort
	}
	if n > 100 {
		return ErrBig
	}
	if n == 50 {
		return fmt.Errorf("fifty %d", n)
	}
	return nil
}

func Classify(n int) (int, error) {
	err := Check(n)
	if err == ErrShort {
		return 1, nil
	}
	if err != nil {
		return 0, err
	}
	if e2 := Check(n * 3); e2 != nil && e2 != ErrBig {
		return 2, io.EOF
	}
	return 3, nil
}

// ---- bytes.Buffer (embedded, as in qnet.Buffer)

type Buf struct {
	bytes.Buffer
	count int
}

func (b *Buf) Put16(n uint16) {
	var tmp [2]byte
	binary.LittleEndian.PutUint16(tmp[:], n)
	b.Write(tmp[:])
	b.count++
}

func (b *Buf) Put8(n uint8) { b.WriteByte(n) }

func (b *Buf) Get16() uint16 {
	var tmp [2]byte
	if _, err := b.Read(tmp[:]); err != nil {
		panic(err)
	}
	return binary.LittleEndian.Uint16(tmp[:])
}

func (b *Buf) Get8() (uint8, bool) {
	c, err := b.ReadByte()
	if err != nil {
		return 0, err == io.EOF
	}
	return c, false
}

func (b *Buf) Peek16() uint16 {
	var data = b.Bytes()
	if len(data) < 2 {
		panic(ErrShort)
	}
	return binary.LittleEndian.Uint16(data[:2])
}

func (b *Buf) RoundTrip(n uint16) (uint16, int) {
	b.Put16(n)
	b.Put8(7)
	v := b.Get16()
	return v, b.Len()
}

// ---- slices of pointers to structs: one list per field; interface parameters bound to a type

type Node struct {
	id    int
	at    int
	due   int64
	label string
}

type Nodes []*Node

func (q Nodes) Len() int { return len(q) }

func (q Nodes) Less(i, j int) bool {
	if q[i].due == q[j].due {
		return q[i].id > q[j].id
	}
	return q[i].due < q[j].due
}

func (q Nodes) Swap(i, j int) {
	q[i], q[j] = q[j], q[i]
	q[i].at = i
	q[j].at = j
}

func (q Nodes) Touch(i int, d int64) int64 {
	q[i].due += d
	q[i].at++
	return q[i].due
}

type Sched struct {
	heap Nodes
	now  int64
}

func (s *Sched) Bump(i int) {
	s.heap[i].due = s.now
	hp.Fix(s.heap, i)
}

// ---- interface{} values as tokens

type Slots struct {
	buf  []interface{}
	head int
}

func (s *Slots) Put(v interface{}) {
	s.buf[s.head] = v
	s.head = (s.head + 1) & (len(s.buf) - 1)
}

func (s *Slots) Take() interface{} {
	s.head = (s.head - 1) & (len(s.buf) - 1)
	v := s.buf[s.head]
	s.buf[s.head] = nil
	return v
}

func (s *Slots) Empty(i int) bool { return s.buf[i] == nil }

func (s *Slots) Resize() {
	nb := make([]interface{}, len(s.buf)*2)
	copy(nb, s.buf[s.head:])
	s.buf = nb
	s.head = 0
}

// ---- external calls that write a slice argument ("io:ReadFull#externw")

func ReadLen(r io.Reader) (int, error) {
	var tmp [2]byte
	if _, err := io.ReadFull(r, tmp[:]); err != nil {
		return 0, err
	}
	n := binary.BigEndian.Uint16(tmp[:])
	if n < 2 {
		return 0, fmt.Errorf("length %d too small", n)
	}
	return int(n) - 2, nil
}
