module fixture

go 1.21
