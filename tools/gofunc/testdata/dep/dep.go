// Package dep: callees in another package of the module (fixture for cross-package calls).
package dep

type Cfg struct {
	Scale uint8
	Limit int
}

func Twice(x uint8) uint8 { return x * 2 }

func (c *Cfg) Apply(x uint8) uint8 { return x*c.Scale + uint8(c.Limit) }
