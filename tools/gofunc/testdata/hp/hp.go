// Package hp: a copy of the sift loops of container/heap, for the fixtures of interface
// parameters bound to a type ("fixture/hp:Up@Nodes").
package hp

type Interface interface {
	Len() int
	Less(i, j int) bool
	Swap(i, j int)
}

func Up(h Interface, j int) {
	for {
		i := (j - 1) / 2 // parent
		if i == j || !h.Less(j, i) {
			break
		}
		h.Swap(i, j)
		j = i
	}
}

func Down(h Interface, i0, n int) bool {
	i := i0
	for {
		j1 := 2*i + 1
		if j1 >= n || j1 < 0 { // j1 < 0 after int overflow
			break
		}
		j := j1 // left child
		if j2 := j1 + 1; j2 < n && h.Less(j2, j1) {
			j = j2 // = 2*i + 2  // right child
		}
		if !h.Less(j, i) {
			break
		}
		h.Swap(i, j)
		i = j
	}
	return i > i0
}

func Fix(h Interface, i int) {
	if !Down(h, i, h.Len()) {
		Up(h, i)
	}
}
