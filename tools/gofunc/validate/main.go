// validate: differential validation of the gofunc translator.
//
// For every named function it (1) translates it with the same code bin/regen uses, (2) writes
// a Go test into the function's own package - through `go test -overlay`, so the source tree
// is not touched - that builds random in-range inputs (receiver fields included), runs the
// REAL compiled function under recover() and prints inputs and result as Gallina terms, and
// (3) writes a Coq file that evaluates the generated definition on the same inputs with
// vm_compute and compares.  Any difference (value, Panic vs Ok, OutOfFuel) is reported.
//
// usage: validate [-n cases] [-seed s] [-fuel f] <root> <module> <pkgdir> <coq dir> <work dir> <prefix> names...
package main

import (
	"encoding/json"
	"flag"
	"fmt"
	"go/ast"
	"go/types"
	"os"
	"os/exec"
	"path/filepath"
	"regexp"
	"sort"
	"strconv"
	"strings"

	"gofunc/tr"
)

type gen struct {
	pkg     *types.Package
	imports map[string]string // path -> name
	built   map[string]bool   // slices of structs already constructed
	small   bool              // integers are kept small
	idx     bool              // integers are mostly small indices
	b       strings.Builder
}

func (g *gen) qual(p *types.Package) string {
	if p == g.pkg {
		return ""
	}
	g.imports[p.Path()] = p.Name()
	return p.Name()
}

func (g *gen) ty(t types.Type) string { return types.TypeString(t, g.qual) }

func (g *gen) pf(format string, a ...interface{}) { fmt.Fprintf(&g.b, format, a...) }

// Go expression producing a random value of type t (representable kinds only)
func (g *gen) value(t types.Type) string {
	if tr.KindOf(t) == tr.KList { // (the elements of a list are not indices)
		saved := g.idx
		g.idx = false
		defer func() { g.idx = saved }()
	}
	switch tr.KindOf(t) {
	case tr.KZ:
		b := t.Underlying().(*types.Basic)
		bits, signed := 64, b.Info()&types.IsUnsigned == 0
		switch b.Kind() {
		case types.Int8, types.Uint8:
			bits = 8
		case types.Int16, types.Uint16:
			bits = 16
		case types.Int32, types.Uint32:
			bits = 32
		}
		if g.small { // the function allocates (make): lengths beyond a few hundred would exhaust the memory
			return fmt.Sprintf("%s(gfR.smallInt(%v))", g.ty(t), signed)
		}
		if g.idx { // the function has lists among its inputs: most integers are plausible indices
			return fmt.Sprintf("%s(gfR.index(%d, %v))", g.ty(t), bits, signed)
		}
		return fmt.Sprintf("%s(gfR.integer(%d, %v))", g.ty(t), bits, signed)
	case tr.KBool:
		return fmt.Sprintf("%s(gfR.next()&1 == 1)", g.ty(t))
	case tr.KErr:
		return "gfR.err()"
	case tr.KTok:
		return "gfR.tok()"
	case tr.KList:
		if b, ok := t.Underlying().(*types.Basic); ok && b.Kind() == types.String {
			return fmt.Sprintf("%s(gfR.bytes())", g.ty(t))
		}
		if n, ok := t.(*types.Named); ok && n.Obj().Pkg() != nil && n.Obj().Pkg().Path() == "bytes" && n.Obj().Name() == "Buffer" {
			g.imports["bytes"] = "bytes"
			return "*bytes.NewBuffer(gfR.bytes())"
		}
		if a, ok := t.Underlying().(*types.Array); ok {
			return fmt.Sprintf("func() %s { var a %s; for i := range a { a[i] = %s }; return a }()", g.ty(t), g.ty(t), g.value(a.Elem()))
		}
		el := t.Underlying().(*types.Slice).Elem()
		if tr.KindOf(el) == tr.KTok {
			return fmt.Sprintf("func() %s { n := gfR.length(); s := make(%s, n, n+gfR.spare()); for i := range s { s[i] = gfR.tok() }; return s }()", g.ty(t), g.ty(t))
		}
		// (sometimes with spare capacity: code that reslices beyond len behaves differently then)
		return fmt.Sprintf("func() %s { n := gfR.length(); s := make(%s, n, n+gfR.spare()); sorted := gfR.next()%%5 < 2; for i := range s { s[i] = %s }; if sorted { sort.Slice(s, func(i, j int) bool { return s[i] < s[j] }) }; return s }()",
			g.ty(t), g.ty(t), g.value(el))
	}
	return ""
}

func deref(t types.Type) (types.Type, bool) {
	if p, ok := t.Underlying().(*types.Pointer); ok {
		return p.Elem(), true
	}
	return t, false
}

// statements that set the field path of variable v (a pointer to struct) and the Go
// expression that reads the leaf back
func (g *gen) setPath(v string, root types.Type, in *tr.Input) (read string, err error) {
	cur, curT := v, root
	for i, name := range in.Path {
		if name == "[]" { // the field in.Path[i+1] of the elements of this slice of structs
			g.buildStructSlice(cur, curT)
			return fmt.Sprintf("gfField(%s, %q)", cur, in.Path[i+1]), nil
		}
		obj, index, _ := types.LookupFieldOrMethod(curT, true, g.pkg, name)
		if obj == nil {
			return "", fmt.Errorf("field %s not found", name)
		}
		for j, ix := range index {
			st, ok := curT.Underlying().(*types.Struct)
			if !ok {
				return "", fmt.Errorf("field %s of a non-struct", name)
			}
			f := st.Field(ix)
			if !f.Exported() && f.Pkg() != g.pkg {
				return "", fmt.Errorf("field %s of another package", f.Name())
			}
			cur += "." + f.Name()
			last := i == len(in.Path)-1 && j == len(index)-1
			ft := f.Type()
			if !last {
				if el, isPtr := deref(ft); isPtr {
					g.pf("\tif %s == nil {\n\t\t%s = new(%s)\n\t}\n", cur, cur, g.ty(el))
					ft = el
				}
			}
			curT = ft
		}
	}
	if in.LenOnly {
		if _, isSt := structSliceElem(curT); isSt {
			g.buildStructSlice(cur, curT)
		} else {
			g.pf("\t%s = make(%s, gfR.length())\n", cur, g.ty(curT))
		}
		return "len(" + cur + ")", nil
	}
	g.pf("\t%s = %s\n", cur, g.value(curT))
	if tr.KindOf(curT) == tr.KList && strings.HasSuffix(g.ty(curT), "bytes.Buffer") {
		return cur + ".Bytes()", nil
	}
	return cur, nil
}

func structSliceElem(t types.Type) (*types.Struct, bool) {
	sl, ok := t.Underlying().(*types.Slice)
	if !ok {
		return nil, false
	}
	el, _ := deref(sl.Elem())
	st, ok := el.Underlying().(*types.Struct)
	return st, ok
}

// a slice of (pointers to) structs with distinct elements, every integer / bool field random
func (g *gen) buildStructSlice(cur string, t types.Type) {
	if g.built[cur] {
		return
	}
	g.built[cur] = true
	sl := t.Underlying().(*types.Slice)
	el, isPtr := deref(sl.Elem())
	st := el.Underlying().(*types.Struct)
	g.pf("\t%s = make(%s, gfR.length())\n\tfor i := range %s {\n\t\tvar e %s\n", cur, g.ty(t), cur, g.ty(el))
	for i := 0; i < st.NumFields(); i++ {
		f := st.Field(i)
		if k := tr.KindOf(f.Type()); (k == tr.KZ || k == tr.KBool) && (f.Exported() || f.Pkg() == g.pkg) {
			g.pf("\t\te.%s = %s\n", f.Name(), g.value(f.Type()))
		}
	}
	if isPtr {
		g.pf("\t\t%s[i] = &e\n\t}\n", cur)
	} else {
		g.pf("\t\t%s[i] = e\n\t}\n", cur)
	}
}

func main() {
	n := flag.Int("n", 100, "cases per function")
	seed := flag.Int64("seed", 1, "seed")
	fuel := flag.Int("fuel", 2000, "fuel given to the Gallina definitions")
	spare := flag.Bool("sparecap", false, "give input slices spare capacity (finds code that reslices beyond len: Panic in the translation, not in Go)")
	flag.Parse()
	a := flag.Args()
	if len(a) < 7 {
		fmt.Fprintln(os.Stderr, "usage: validate [-n N] [-seed S] [-fuel F] <root> <module> <pkgdir> <coq dir> <work dir> <prefix> names...")
		os.Exit(2)
	}
	root, mod, rel, coqdir, work, prefix, names := a[0], a[1], a[2], a[3], a[4], a[5], a[6:]
	root, _ = filepath.Abs(root)
	work, _ = filepath.Abs(work)
	coqdir, _ = filepath.Abs(coqdir)
	must(os.MkdirAll(work, 0o755))
	p := tr.Load(root, mod, rel)
	T := tr.New(p, prefix)
	var fns []*tr.Func
	failed := 0
	for _, name := range names {
		f := T.Translate(name)
		if f.Err != nil {
			fmt.Printf("validate: %s %s: NOT TRANSLATABLE: %v\n", rel, name, f.Err)
			failed++
			continue
		}
		fns = append(fns, f)
	}
	must(os.WriteFile(filepath.Join(work, "Gen.v"), []byte(T.File()), 0o644))

	// which functions allocate (make), directly or through a callee
	allocates := map[*tr.Func]bool{}
	for changed := true; changed; {
		changed = false
		for _, f := range fns {
			if allocates[f] {
				continue
			}
			hit := strings.Contains(f.Text, "go_make")
			for _, c := range fns {
				if allocates[c] && strings.Contains(f.Text, c.Coq+" ") {
					hit = true
				}
			}
			if hit {
				allocates[f], changed = true, true
			}
		}
	}

	// ---- the Go side
	g := &gen{pkg: p.Types, imports: map[string]string{}}
	skipped := map[int]string{}
	var body strings.Builder
	for k, f := range fns {
		// an exported function of another package with an interface parameter bound to a type of this
		// package ("container/heap:Fix@timerHeap") can be called from here
		boundCall := f.Pkg != p && f.Bind != "" && f.Prefix == 0 && f.Decl.Recv == nil && ast.IsExported(f.Decl.Name.Name) && p.Types.Scope().Lookup(f.Bind) != nil
		if f.Pkg != p && !boundCall { // a callee in another package (e.g. encoding/binary): exercised through its callers
			skipped[k] = "other package"
			continue
		}
		if f.Prefix > 0 { // the first statements of a function cannot be run on their own
			skipped[k] = "fragment"
			continue
		}
		if f.Extern {
			skipped[k] = "extern"
			continue
		}
		uses := false
		for _, in := range f.Inputs {
			uses = uses || in.Oracle != ""
		}
		if uses { // what the external calls return cannot be chosen from here
			skipped[k] = "oracle"
			continue
		}
		if f.Bind != "" && !boundCall {
			skipped[k] = "other package"
			continue
		}
		g.b.Reset()
		g.built = map[string]bool{}
		g.small = allocates[f]
		g.idx = false
		for _, in := range f.Inputs {
			if in.Kind == tr.KList {
				g.idx = true
			}
		}
		g.pf("func gfCase%d(w *bufio.Writer) {\n", k)
		var args []string // actual arguments of the Go call
		reads := map[*tr.Input]string{}
		var bad error
		for i, pv := range f.Params {
			v := fmt.Sprintf("p%d", i)
			if it, isIface := pv.Type().Underlying().(*types.Interface); isIface && boundCall && it.NumMethods() > 0 {
				bt := p.Types.Scope().Lookup(f.Bind).Type() // the parameter stands for a value of this type
				g.pf("\tvar %s %s\n", v, g.ty(bt))
				g.buildStructSlice(v, bt)
				for _, in := range f.Inputs {
					if in.Param == i {
						if in.LenOnly {
							reads[in] = "len(" + v + ")"
						} else if len(in.Path) == 2 && in.Path[0] == "[]" {
							reads[in] = fmt.Sprintf("gfField(%s, %q)", v, in.Path[1])
						} else {
							bad = fmt.Errorf("cannot build parameter %s", pv.Name())
						}
					}
				}
				if types.Implements(bt, it) {
					args = append(args, v)
				} else {
					args = append(args, "&"+v)
				}
				continue
			}
			el, isPtr := deref(pv.Type())
			_, isStruct := el.Underlying().(*types.Struct)
			switch {
			case tr.KindOf(pv.Type()) != tr.KNone:
				g.pf("\tvar %s %s = %s\n", v, g.ty(pv.Type()), g.value(pv.Type()))
				for _, in := range f.Inputs {
					if in.Param == i {
						reads[in] = v
					}
				}
				args = append(args, v)
			case func() bool { _, ok := structSliceElem(pv.Type()); return ok }():
				g.pf("\tvar %s %s\n", v, g.ty(pv.Type()))
				g.buildStructSlice(v, pv.Type())
				for _, in := range f.Inputs {
					if in.Param == i {
						if in.LenOnly {
							reads[in] = "len(" + v + ")"
						} else if len(in.Path) == 2 && in.Path[0] == "[]" {
							reads[in] = fmt.Sprintf("gfField(%s, %q)", v, in.Path[1])
						} else {
							bad = fmt.Errorf("cannot build parameter %s", pv.Name())
						}
					}
				}
				args = append(args, v)
			case isStruct:
				g.pf("\tvar %s = new(%s)\n", v, g.ty(el))
				for _, in := range f.Inputs {
					if in.Param == i {
						r, err := g.setPath(v, el, in)
						if err != nil {
							bad = err
						}
						reads[in] = r
					}
				}
				if isPtr {
					args = append(args, v)
				} else {
					args = append(args, "*"+v)
				}
			default: // e.g. a slice of non-integers used through len() only, or an unused parameter
				g.pf("\tvar %s %s\n", v, g.ty(pv.Type()))
				for _, in := range f.Inputs {
					if in.Param == i {
						if !in.LenOnly || len(in.Path) != 0 {
							bad = fmt.Errorf("cannot build parameter %s", pv.Name())
						}
						g.pf("\t%s = make(%s, gfR.length())\n", v, g.ty(pv.Type()))
						reads[in] = "len(" + v + ")"
					}
				}
				args = append(args, v)
			}
		}
		if bad != nil {
			skipped[k] = bad.Error()
			continue
		}
		var ins []string
		for _, in := range f.Inputs {
			ins = append(ins, "gfCoq("+reads[in]+")")
		}
		g.pf("\tin := []string{%s}\n", strings.Join(ins, ", "))
		var rs []string
		for i := range f.ResGo {
			rs = append(rs, fmt.Sprintf("r%d", i))
		}
		outs := append([]string{}, rs...) // the results, then the fields the function assigned
		for _, in := range f.Written {
			outs = append(outs, reads[in])
		}
		call := f.Decl.Name.Name + "(" + strings.Join(args, ", ") + ")"
		if boundCall {
			g.imports[f.Pkg.Types.Path()] = f.Pkg.Types.Name()
			call = f.Pkg.Types.Name() + "." + call
		}
		if f.Decl.Recv != nil {
			recv := args[0]
			if strings.HasPrefix(recv, "*") {
				recv = "(" + recv + ")"
			}
			call = recv + "." + f.Decl.Name.Name + "(" + strings.Join(args[1:], ", ") + ")"
		}
		if len(rs) > 0 {
			call = strings.Join(rs, ", ") + " := " + call
		}
		g.pf("\tres := gfCall(%d, func() []interface{} {\n\t\t%s\n\t\treturn []interface{}{%s}\n\t})\n", k, call, strings.Join(outs, ", "))
		g.pf("\tfmt.Fprintf(w, \"%d\\t%%s\\t%%s\\n\", strings.Join(in, \" \"), res)\n}\n\n", k)
		body.WriteString(g.b.String())
	}
	// the error variables of the table, as Go expressions (those the test can name)
	var errCases, errVals strings.Builder
	var enames []string
	for n := range T.Errs {
		enames = append(enames, n)
	}
	sort.Strings(enames)
	for _, n := range enames {
		e := T.Errs[n]
		q := e.Var
		if e.Pkg != p.Types.Path() {
			if !ast.IsExported(e.Var) {
				continue
			}
			q = filepath.Base(e.Pkg) + "." + e.Var
			g.imports[e.Pkg] = filepath.Base(e.Pkg)
			body.WriteString("var _ = " + q + "\n")
		}
		fmt.Fprintf(&errCases, "\tcase %s:\n\t\treturn \"%d\"\n", q, e.Code)
		fmt.Fprintf(&errVals, "%s, ", q)
	}
	support := strings.Replace(goSupport, "SEED", strconv.FormatInt(*seed, 10), 1)
	if *spare {
		support = strings.Replace(support, "const gfSpare = 1", "const gfSpare = 3", 1)
	}
	support = strings.Replace(support, "/*ERRCASES*/", errCases.String(), 1)
	support = strings.Replace(support, "/*ERRVALS*/", errVals.String(), 1)
	var src strings.Builder
	fmt.Fprintf(&src, "package %s\n\nimport (\n\t\"bufio\"\n\t\"errors\"\n\t\"fmt\"\n\t\"os\"\n\t\"reflect\"\n\t\"sort\"\n\t\"strings\"\n\t\"testing\"\n\t\"time\"\n", p.Types.Name())
	std := map[string]bool{"bufio": true, "errors": true, "fmt": true, "os": true, "reflect": true, "sort": true, "strings": true, "testing": true, "time": true}
	for path, name := range g.imports {
		if strings.Contains(body.String(), name+".") && !std[path] { // (a skipped function may have asked for it)
			fmt.Fprintf(&src, "\t%s %q\n", name, path)
		}
	}
	src.WriteString(")\n\n" + support + body.String())
	src.WriteString("func TestGofuncValidate(t *testing.T) {\n\tf, err := os.Create(os.Getenv(\"GOFUNC_OUT\"))\n\tif err != nil {\n\t\tt.Fatal(err)\n\t}\n\tw := bufio.NewWriter(f)\n")
	for k := range fns {
		if _, skip := skipped[k]; !skip {
			fmt.Fprintf(&src, "\tfor i := 0; i < %d && gfHangs[%d] < 3; i++ {\n\t\tgfCase%d(w)\n\t}\n", *n, k, k)
		}
	}
	src.WriteString("\tw.Flush()\n\tf.Close()\n}\n")
	testFile := filepath.Join(work, "gofunc_validate_test.go")
	must(os.WriteFile(testFile, []byte(src.String()), 0o644))
	pkgDir := filepath.Join(root, rel)
	overlay := map[string]string{filepath.Join(pkgDir, "zz_gofunc_validate_test.go"): testFile}
	if ents, err := os.ReadDir(pkgDir); err == nil { // the package's own tests are not needed (nor their dependencies)
		for _, e := range ents {
			if strings.HasSuffix(e.Name(), "_test.go") {
				overlay[filepath.Join(pkgDir, e.Name())] = ""
			}
		}
	}
	ov, _ := json.Marshal(map[string]interface{}{"Replace": overlay})
	must(os.WriteFile(filepath.Join(work, "overlay.json"), ov, 0o644))
	casesFile := filepath.Join(work, "cases.txt")
	os.Remove(casesFile)
	rp := "./" + rel
	cmd := exec.Command("go", "test", "-overlay="+filepath.Join(work, "overlay.json"), "-vet=off", "-count=1", "-timeout=600s", "-run", "^TestGofuncValidate$", rp)
	cmd.Dir = root
	cmd.Env = append(os.Environ(), "GOFUNC_OUT="+casesFile, "GOFLAGS=-mod=mod", "GOPROXY=off", "GOSUMDB=off", "GOTOOLCHAIN=local")
	if out, err := cmd.CombinedOutput(); err != nil {
		fmt.Printf("validate: go test failed in %s: %v\n%s\n", rel, err, tail(string(out), 3000))
		os.Exit(1)
	}
	raw, err := os.ReadFile(casesFile)
	must(err)

	// ---- the Coq side
	type cs struct{ args, want string }
	cases := make([][]cs, len(fns))
	for _, line := range strings.Split(strings.TrimSpace(string(raw)), "\n") {
		parts := strings.Split(line, "\t")
		if len(parts) != 3 {
			continue
		}
		k, _ := strconv.Atoi(parts[0])
		cases[k] = append(cases[k], cs{parts[1], parts[2]})
	}
	var v strings.Builder
	v.WriteString("From Coq Require Import ZArith List Bool.\nFrom FV Require Import Lib.GoSem.\nFrom GV Require Import Gen.\nImport ListNotations.\nOpen Scope Z_scope.\n\n")
	v.WriteString("Fixpoint falses (i : nat) (l : list bool) : list nat :=\n  match l with [] => [] | b :: r => if b then falses (S i) r else i :: falses (S i) r end.\n\nDefinition is_oof {A : Type} (o : outcome A) : bool := match o with OutOfFuel => true | _ => false end.\n\n")
	bad := 0
	for k, f := range fns {
		if why, skip := skipped[k]; skip {
			if f.Pkg != p {
				fmt.Printf("validate: %-12s %-28s callee in another package: validated through its callers only\n", rel, f.Name)
				continue
			}
			if f.Prefix > 0 {
				fmt.Printf("validate: %-12s %-28s fragment of a function body: cannot be run on its own, not validated\n", rel, f.Name)
				continue
			}
			if why == "extern" {
				continue
			}
			if why == "oracle" {
				fmt.Printf("validate: %-12s %-28s calls functions declared #extern: their results cannot be chosen, not validated\n", rel, f.Name)
				continue
			}
			fmt.Printf("validate: %s %s: SKIPPED (%s)\n", rel, f.Name, why)
			failed++
			continue
		}
		eq := ""
		for i, kd := range f.Results {
			e := map[tr.Kind]string{tr.KZ: "Z.eqb", tr.KErr: "Z.eqb", tr.KTok: "Z.eqb", tr.KBool: "Bool.eqb", tr.KList: "list_eqb"}[kd]
			if i == 0 {
				eq = e
			} else {
				eq = fmt.Sprintf("(prod_eqb %s %s)", eq, e)
			}
		}
		if f.Monadic {
			eq = "(outcome_eqb " + eq + ")"
		}
		if f.Fuel { // Coq ran out of fuel where Go came to an end: inconclusive, counted apart
			eq = fmt.Sprintf("(fun a b => (is_oof a && negb (is_oof b)) || %s a b)", eq)
		}
		fmt.Fprintf(&v, "Definition cases_%d : list bool := [\n", k)
		for i, c := range cases[k] {
			want := c.want
			if !f.Monadic {
				if want == "Panic" || want == "OutOfFuel" {
					fmt.Printf("validate: %s %s: MISMATCH: the Go function ended in %s on (%s) but its translation is a plain definition\n", rel, f.Name, want, c.args)
					bad++
					want = "0"
				}
				want = strings.TrimPrefix(want, "Ok ")
			}
			call := f.Coq
			if f.Fuel {
				call += fmt.Sprintf(" %d%%nat", *fuel)
			}
			if c.args != "" {
				call += " " + c.args
			}
			sep := ";"
			if i == len(cases[k])-1 {
				sep = ""
			}
			fmt.Fprintf(&v, "  %s (%s) (%s)%s\n", eq, call, want, sep)
		}
		fmt.Fprintf(&v, "].\nDefinition bad_%d := Eval vm_compute in falses 0 cases_%d.\nPrint bad_%d.\n\n", k, k, k)
		if f.Fuel {
			fmt.Fprintf(&v, "Definition oof_%d : list bool := [\n", k)
			for i, c := range cases[k] {
				sep := ";"
				if i == len(cases[k])-1 {
					sep = ""
				}
				call := fmt.Sprintf("%s %d%%nat", f.Coq, *fuel)
				if c.args != "" {
					call += " " + c.args
				}
				fmt.Fprintf(&v, "  negb (is_oof (%s) && negb (is_oof (%s : outcome %s)))%s\n", call, c.want, f.ResType(), sep)
			}
			fmt.Fprintf(&v, "].\nDefinition nofuel_%d := Eval vm_compute in falses 0 oof_%d.\nPrint nofuel_%d.\n\n", k, k, k)
		}
	}
	must(os.WriteFile(filepath.Join(work, "Check.v"), []byte(v.String()), 0o644))
	for _, file := range []string{"Gen.v", "Check.v"} {
		c := exec.Command("timeout", "1800", "coqc", "-Q", coqdir, "FV", "-Q", work, "GV", file)
		c.Dir = work
		out, err := c.CombinedOutput()
		if err != nil {
			fmt.Printf("validate: coqc %s failed: %v\n%s\n", file, err, tail(string(out), 3000))
			os.Exit(1)
		}
		if file == "Check.v" {
			nofuel := map[int]int{}
			for _, m := range regexp.MustCompile(`(?s)nofuel_(\d+) = (.*?)\n\s+: list nat`).FindAllStringSubmatch(string(out), -1) {
				k, _ := strconv.Atoi(m[1])
				nofuel[k] = len(regexp.MustCompile(`\d+`).FindAllString(strings.Replace(m[2], "%nat", "", -1), -1))
			}
			re := regexp.MustCompile(`(?s)\bbad_(\d+) = (.*?)\n\s+: list nat`)
			seen := map[int]bool{}
			for _, m := range re.FindAllStringSubmatch(string(out), -1) {
				k, _ := strconv.Atoi(m[1])
				seen[k] = true
				idx := regexp.MustCompile(`\d+`).FindAllString(strings.Replace(m[2], "%nat", "", -1), -1)
				oks, panics, hangs := 0, 0, 0
				for _, c := range cases[k] {
					switch c.want {
					case "Panic":
						panics++
					case "OutOfFuel":
						hangs++
					default:
						oks++
					}
				}
				status := "ok"
				if nf := nofuel[k]; nf > 0 {
					status = fmt.Sprintf("ok (%d inconclusive: Gallina out of fuel at %d where Go ended)", nf, *fuel)
					if 4*nf > len(cases[k]) {
						status = fmt.Sprintf("%d of %d cases out of fuel: TOO MANY", nf, len(cases[k]))
						bad++
					}
				}
				if len(idx) > 0 {
					status = fmt.Sprintf("%d MISMATCHES", len(idx))
					bad += len(idx)
				}
				fmt.Printf("validate: %-12s %-28s %4d cases (%d returned, %d panicked, %d did not end): %s\n", rel, fns[k].Name, len(cases[k]), oks, panics, hangs, status)
				for j, s := range idx {
					if j >= 5 {
						break
					}
					i, _ := strconv.Atoi(s)
					fmt.Printf("    MISMATCH %s %s  Go: %s\n", fns[k].Coq, cases[k][i].args, cases[k][i].want)
				}
			}
			for k := range fns {
				if _, skip := skipped[k]; !skip && !seen[k] {
					fmt.Printf("validate: %s %s: no verdict from Coq\n", rel, fns[k].Name)
					bad++
				}
			}
		}
	}
	if bad > 0 || failed > 0 {
		fmt.Printf("validate: %s: FAILED (%d mismatches, %d functions not validated)\n", rel, bad, failed)
		os.Exit(1)
	}
	fmt.Printf("validate: %s: all %d functions that can be run agree with the compiled Go code\n", rel, len(fns)-len(skipped))
}

func must(err error) {
	if err != nil {
		fmt.Fprintln(os.Stderr, "validate:", err)
		os.Exit(1)
	}
}

func tail(s string, n int) string {
	if len(s) > n {
		return s[len(s)-n:]
	}
	return s
}

// support code of the generated test
const goSupport = `type gfRand struct{ s uint64 }

var gfR = &gfRand{s: SEED*0x9E3779B97F4A7C15 + 0x1234567}

func (r *gfRand) next() uint64 { // xorshift64*
	r.s ^= r.s >> 12
	r.s ^= r.s << 25
	r.s ^= r.s >> 27
	return r.s * 2685821657736338717
}

// the bit pattern of a random in-range value: small, boundary, or log-uniform magnitude
func (r *gfRand) integer(bits int, signed bool) uint64 {
	var v uint64
	switch c := r.next() % 100; {
	case c < 30:
		v = r.next() % 10
		if signed {
			v -= 2
		}
	case c < 45:
		v = r.next() % 44
		if signed {
			v -= 3
		}
	case c < 65:
		k := uint(r.next() % uint64(bits))
		b := []uint64{0, 1, 2, ^uint64(0), ^uint64(0) - 1, 1 << (bits - 1), 1<<(bits-1) - 1, 1<<(bits-1) + 1, 1 << k, 1<<k - 1, 1<<k + 1}
		v = b[r.next()%uint64(len(b))]
	default:
		w := uint(r.next()%uint64(bits)) + 1
		v = r.next() >> (64 - w)
		if signed && r.next()&1 == 1 {
			v = -v
		}
	}
	if bits < 64 {
		v &= 1<<uint(bits) - 1
		if signed && v>>(uint(bits)-1) == 1 {
			v |= ^uint64(0) << uint(bits)
		}
	}
	return v
}

func (r *gfRand) index(bits int, signed bool) uint64 {
	if r.next()%10 < 6 {
		return r.next() % 6
	}
	return r.integer(bits, signed)
}

func (r *gfRand) smallInt(signed bool) uint64 {
	if r.next()%10 < 6 {
		return r.next() % 8
	}
	v := r.next() % 300
	if signed && r.next()%8 == 0 {
		v = -(r.next() % 4)
	}
	return v
}

// spare capacity of the slices handed to the function (0 unless -sparecap)
const gfSpare = 1

func (r *gfRand) spare() int { return int(r.next() % gfSpare) }

func (r *gfRand) length() int {
	switch c := r.next() % 10; {
	case c < 1:
		return 0
	case c < 2:
		return 1
	case c < 7:
		return 2 + int(r.next()%7)
	}
	return 9 + int(r.next()%32)
}

func (r *gfRand) bytes() []byte {
	b := make([]byte, r.length())
	for i := range b {
		b[i] = byte(r.integer(8, false))
	}
	return b
}

// an error value as its code (see the table in the generated file): 0 = nil, 1 = made on the spot
func gfErr(e error) string {
	switch e {
	case nil:
		return "0"
/*ERRCASES*/	}
	return "1"
}

func (r *gfRand) err() error {
	es := []error{nil, nil, errors.New("some error"), /*ERRVALS*/}
	return es[r.next()%uint64(len(es))]
}

// a value of type interface{}: nil or a boxed positive int (its token)
func (r *gfRand) tok() interface{} {
	if r.next()%4 == 0 {
		return nil
	}
	return int(r.next()%1000) + 1
}

// the field called name of the elements of a slice of (pointers to) structs
func gfField(s interface{}, name string) []interface{} {
	x := reflect.ValueOf(s)
	out := make([]interface{}, x.Len())
	for i := range out {
		e := x.Index(i)
		if e.Kind() == reflect.Ptr {
			e = e.Elem()
		}
		f := e.FieldByName(name)
		switch f.Kind() {
		case reflect.Bool:
			out[i] = f.Bool()
		case reflect.Int, reflect.Int8, reflect.Int16, reflect.Int32, reflect.Int64:
			out[i] = f.Int()
		default:
			out[i] = f.Uint()
		}
	}
	return out
}

// a value as a Gallina term
func gfCoq(v interface{}) string {
	if v == nil {
		return "0"
	}
	if e, ok := v.(error); ok {
		return gfErr(e)
	}
	x := reflect.ValueOf(v)
	switch x.Kind() {
	case reflect.Bool:
		if x.Bool() {
			return "true"
		}
		return "false"
	case reflect.Int, reflect.Int8, reflect.Int16, reflect.Int32, reflect.Int64:
		if x.Int() < 0 {
			return fmt.Sprintf("(%d)", x.Int())
		}
		return fmt.Sprintf("%d", x.Int())
	case reflect.Uint, reflect.Uint8, reflect.Uint16, reflect.Uint32, reflect.Uint64, reflect.Uintptr:
		return fmt.Sprintf("%d", x.Uint())
	case reflect.String:
		return gfCoq([]byte(x.String()))
	case reflect.Slice, reflect.Array:
		var p []string
		for i := 0; i < x.Len(); i++ {
			p = append(p, strings.Trim(gfCoq(x.Index(i).Interface()), "()"))
		}
		return "[" + strings.Join(p, "; ") + "]"
	}
	panic("gfCoq: unsupported value")
}

var _ = sort.Ints

var gfHangs = map[int]int{}

// run the real function: its results, "Panic", or "OutOfFuel" when it is still running after
// half a second (the goroutine is abandoned; a function that hangs 3 times gets no more cases)
func gfCall(k int, f func() []interface{}) string {
	done := make(chan string, 1)
	go func() {
		defer func() {
			if e := recover(); e != nil {
				done <- "Panic"
			}
		}()
		var p []string
		for _, v := range f() {
			p = append(p, gfCoq(v))
		}
		if len(p) == 1 {
			done <- "Ok " + p[0]
		} else {
			done <- "Ok (" + strings.Join(p, ", ") + ")"
		}
	}()
	select {
	case r := <-done:
		return r
	case <-time.After(500 * time.Millisecond):
		gfHangs[k]++
		return "OutOfFuel"
	}
}

`
