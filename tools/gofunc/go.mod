module gofunc

go 1.16
