(* C16 — correspondence: decode a case written by the Go harness, run the model on the same
   inputs, compare with what the implementation returned, and evaluate the property's
   executable form (textbook CFB, round trip, length, xor-keystream, identity) on the
   implementation's own outputs.

   case = (input observed)
   input  = (0 bs mul key iv encbuf0 decbuf0 (op ...))     toy block cipher session on one instance
              op = (0 seed len)  Encrypt(lcg seed len)
                   (1 j 0)       Decrypt(output of op j)   (j is an earlier Encrypt)
                   (2 seed len)  Decrypt(lcg seed len)
                   (3 ..) (4 ..) (5 ..)  the same three with a separate destination buffer;
                   every buffer sits at a misalignment (mod 8) derived from its seed
            (1 key iv seed len)                            salsa20 (keystream is an oracle table)
            (2 seed len)                                   none
            (3 name key iv ((seed len) ...))               a cipher made by the factory: messages
                                                           encrypted in order, decrypted in reverse order
            (4 bs mul key iv dec seed len)                 crypto/cipher's own CFB stream over the toy block
                                                           (ties the model std_cfb to the stock library)
            (5 name key iv seed len)                       factory slicing: NewCrypt(name, key, iv) on keys / ivs
                                                           of any length; the oracle table lists, for every stock
                                                           cipher c and key-prefix length n that can be built,
                                                           stock CFB of the message under c keyed with key[:n]
                                                           and iv[:bs] (salsa20: key[:32], nonce iv[:8])
            (6 name keyA ivA keyB ivB seed len)            two instances whose key / iv differ in one byte
            (7 key iv ((name keylen) ...) seed len)        one secret given to many names in ONE process, in
                                                           this creation order: NewCrypt(name, key[:keylen], iv);
                                                           every instance must be what it would be alone
            (8 bs mul key iv encbuf decbuf seed1 len1 seed2 len2 ((k off n spare doff) ...))
                                                           toy block, messages as windows buf1[off:off+n] (slice
                                                           capacity off+n+spare) of a patterned buffer: k = 0/1
                                                           Encrypt/Decrypt in place, 2/3 into buf2[doff:doff+n]
            (9 name key iv seed1 len1 ((k off n spare) ...))   the same in place with a factory-made cipher
            (10 name key iv seed nmsgs)                    one instance, Encrypt and Decrypt on two goroutines
            (12 seed nmsgs)                                every factory name on its own goroutine with its own
                                                           instances, all at once; observed (panicked (bad_i ...))
            (13 direct name key iv what how seed len)      ownership of the argument buffers: construct from the
                                                           caller's key / iv buffers, then overwrite them (what: 1 key,
                                                           2 iv, 3 both; how: 1 zeros, 2 0xFF, 3 other bytes) before the
                                                           first and again before the second Encrypt; observed
                                                           (ctor_panicked run_panicked key_after_ctor iv_after_ctor enc1
                                                            enc2 dec table_for_the_pristine_key_and_iv)
            (11 ctor key iv seed len)                      an exported constructor called directly (aes, 3des, sm4,
                                                           twofish, xtea, salsa20, none); observed as for 5
   observed = (panicked (out ...))        for 0
              (keystream enc dec)         for 1   (dec = Decrypt(enc) on a second instance)
              (enc dec)                   for 2
              (panicked ((enc dec ref) ...))  for 3   (ref = the stock implementation's output:
                                                       crypto/cipher CFB with the first IV block /
                                                       salsa20.XORKeyStream / identity; an oracle table)
              (panicked out)              for 4
              (ctor_panicked run_panicked enc dec ((cipher n ref) ...) accessor_panicked Key() IV())   for 5, 11
              (panickedA encA panickedB encB)                             for 6
              (((ctor_panicked run_panicked enc dec) ...) ((cipher n ref) ...))   for 7
              (panicked (written_buffer_after_op ...) final_buf1 final_buf2)      for 8
              (panicked ((buffer_after_op ref) ...))   for 9 (ref = stock CFB of the window before the op)
              (panicked bad_encrypts bad_decrypts first_bad)                      for 10 *)
From Coq Require Import ZArith NArith List Bool Arith.
From FV Require Import Lib.Sx C16.Model.
Import ListNotations.

Definition nlist_eqb := list_eqb N.eqb.

(* message bodies are regenerated on both sides from (seed, length): a 16-bit LCG
   x' = (141 x + 13849) mod 2^16, byte = x' / 256 *)
Fixpoint lcg_bytes (n : nat) (x : N) : list N :=
  match n with
  | O => []
  | S k => let x' := N.land (141 * x + 13849) 65535 in
           N.shiftr x' 8 :: lcg_bytes k x'
  end.
Definition lcg (seed len : Z) : list N := lcg_bytes (Z.to_nat len) (N.land (Z.to_N seed) 65535).

(* the toy block cipher: out[i] = (mul*b[i] + key[i mod |key|] + b[(i+1) mod bs] + i) mod 256 *)
Fixpoint toy_go (mul : N) (key b : list N) (bs i n : nat) : list N :=
  match n with
  | O => []
  | S k => N.land (mul * nth i b 0 + nth (i mod (length key)) key 0 + nth ((i + 1) mod bs) b 0 + N.of_nat i)%N 255
           :: toy_go mul key b bs (S i) k
  end.
Definition toy (bs : nat) (mul : N) (key : list N) (b : list N) : list N := toy_go mul key b bs 0 bs.

Inductive dop : Type := DEnc (m : list N) | DDecOf (j : nat) | DDec (m : list N).

Definition dop_of_sx (s : sx) : option dop :=
  match s with
  | SList [SInt 0%Z; SInt a; SInt b] => Some (DEnc (lcg a b))
  | SList [SInt 1%Z; SInt j; SInt _] => Some (DDecOf (Z.to_nat j))
  | SList [SInt 2%Z; SInt a; SInt b] => Some (DDec (lcg a b))
  (* 3, 4, 5: the same calls with a separate destination buffer (same returned bytes) *)
  | SList [SInt 3%Z; SInt a; SInt b] => Some (DEnc (lcg a b))
  | SList [SInt 4%Z; SInt j; SInt _] => Some (DDecOf (Z.to_nat j))
  | SList [SInt 5%Z; SInt a; SInt b] => Some (DDec (lcg a b))
  | _ => None
  end.

(* the model run: a cryptor instance stepped through the ops; DecOf refers to the model's own output *)
Fixpoint mrun (bs : nat) (E : list N -> list N) (iv : list N) (c : cryptor) (ops : list dop)
  (outs : list (list N)) : option (list (list N)) :=
  match ops with
  | [] => Some outs
  | o :: r =>
      let mo := match o with
                | DEnc m => Enc m
                | DDecOf j => Dec (nth j outs [])
                | DDec m => Dec m
                end in
      match cstep bs E iv c mo with
      | Some (out, c') => mrun bs E iv c' r (outs ++ [out])
      | None => None
      end
  end.

(* the property on the implementation's outputs *)
Definition plain_of (ops : list dop) (j : nat) : list N :=
  match nth_error ops j with Some (DEnc m) => m | _ => [] end.

Fixpoint prop_outs (bs : nat) (E : list N -> list N) (ivb : list N) (all ops : list dop)
  (outs : list (list N)) : verdict :=
  match ops, outs with
  | o :: r, out :: outs' =>
      let v :=
        match o with
        | DEnc m =>
            vjoin (check_that (nlist_eqb out (cfb_enc bs E ivb m)) (VPropFail 1))
                  (check_that (length out =? length m) (VPropFail 3))
        | DDecOf j =>
            vjoin (check_that (nlist_eqb out (plain_of all j)) (VPropFail 2))
                  (check_that (length out =? length (plain_of all j)) (VPropFail 3))
        | DDec m =>
            vjoin (check_that (nlist_eqb out (cfb_dec bs E ivb m)) (VPropFail 4))
                  (check_that (length out =? length m) (VPropFail 3))
        end in
      vjoin v (prop_outs bs E ivb all r outs')
  | _, _ => VOk
  end.

Fixpoint corr_outs (i : nat) (m o : list (list N)) : verdict :=
  match m, o with
  | [], [] => VOk
  | x :: m', y :: o' => if nlist_eqb x y then corr_outs (S i) m' o' else VMismatch 1
  | _, _ => VMismatch 2
  end.

(* factory-made real ciphers: only the property, against the oracle table *)
Fixpoint prop_factory (specs obs : list sx) : verdict :=
  match specs, obs with
  | [], [] => VOk
  | SList [SInt seed; SInt len] :: specs', SList [SBytes enc; SBytes dec; SBytes ref] :: obs' =>
      let m := lcg seed len in
      vjoin (vjoin (check_that (nlist_eqb enc ref) (VPropFail 1))
                   (vjoin (check_that (nlist_eqb dec m) (VPropFail 2))
                          (check_that ((length enc =? length m) && (length dec =? length m)) (VPropFail 3))))
            (prop_factory specs' obs')
  | _, _ => VBad
  end.

(* factory slicing (kinds 5, 6): the model chooses cipher and key prefix, the oracle table / the
   second instance answers *)
Definition cid_num (c : cid) : Z :=
  match c with AES => 1 | SM4 => 2 | TWOFISH => 3 | TDES => 4 | XTEA => 5 end%Z.

Fixpoint table_find (c : Z) (n : nat) (t : list sx) : option (list N) :=
  match t with
  | SList [SInt c'; SInt n'; SBytes ref] :: r =>
      if Z.eqb c c' && Z.eqb (Z.of_nat n) n' then Some ref else table_find c n r
  | _ => None
  end.

(* The ciphertext of an instance the model accepts must be stock CFB under the cipher the
   model selects keyed with the model's used_key and iv[:bs] (the interoperability sentence):
   a difference is a property failure (1); a missing table entry or a different panic outcome
   is a model / code mismatch (10, 11, 12). *)
Definition check_inst (oi : option inst) (m : list N) (cp rp : Z) (enc dec : list N) (t : list sx)
  : verdict :=
  match oi with
  | None => check_that (Z.eqb cp 1) (VMismatch 10)
  | Some i =>
      (* the model accepts key and iv: a panic of the code is a property failure (7) *)
      if Z.eqb cp 1 then VPropFail 7 else
      match i with
      | IBlock c k iv' _ =>
          if length iv' <? cid_bs c then check_that (Z.eqb rp 1) (VMismatch 11)
          else if Z.eqb rp 1 then VPropFail 7
          else match table_find (cid_num c) (length k) t with
               | Some ref => vjoin (check_that (nlist_eqb dec m) (VPropFail 2))
                                   (check_that (nlist_eqb enc ref) (VPropFail 1))
               | None => VMismatch 12
               end
      | IStream k _ =>
          if Z.eqb rp 1 then VPropFail 7
          else match table_find 6 (length k) t with
               | Some ref => vjoin (check_that (nlist_eqb dec m) (VPropFail 5))
                                   (check_that (nlist_eqb enc ref) (VPropFail 1))
               | None => VMismatch 12
               end
      | INone => if Z.eqb rp 1 then VPropFail 7
                 else check_that (nlist_eqb enc m && nlist_eqb dec m) (VPropFail 6)
      end
  end.

Definition check_slicing (name key iv : list N) (m : list N) (cp rp : Z) (enc dec : list N) (t : list sx)
  : verdict := check_inst (new_crypt name key iv) m cp rp enc dec t.

(* the accessors Key() and IV() of an instance the code did make *)
Definition check_acc (oi : option inst) (cp accp : Z) (k v : list N) : verdict :=
  match oi with
  | Some i => if Z.eqb cp 1 then VOk
              else check_that (Z.eqb accp 0 && nlist_eqb k (acc_key i) && nlist_eqb v (acc_iv i)) (VMismatch 15)
  | None => VOk
  end.

(* do the two instances use the same key bytes and the same iv bytes, according to the model? *)
Definition same_used (a b : inst) : bool :=
  match a, b with
  | IBlock c k iv _, IBlock c' k' iv' _ =>
      nlist_eqb k k' && nlist_eqb (firstn (cid_bs c) iv) (firstn (cid_bs c') iv')
  | IStream k n, IStream k' n' => nlist_eqb k k' && nlist_eqb n n'
  | INone, INone => true
  | _, _ => false
  end.
Definition runs (i : inst) : bool :=
  match i with IBlock c _ iv _ => negb (length iv <? cid_bs c) | _ => true end.

(* kind 7: many instances created in one process, in the given order, from the same secret *)
Fixpoint check_family (key iv m : list N) (t : list sx) (entries results : list sx) : verdict :=
  match entries, results with
  | [], [] => VOk
  | SList [SBytes name; SInt kl] :: entries', SList [SInt cp; SInt rp; SBytes enc; SBytes dec; SBytes enc2] :: results' =>
      (* enc2: the same message encrypted again after all the other instances were used *)
      vjoin (vjoin (check_slicing name (firstn (Z.to_nat kl) key) iv m cp rp enc dec t)
                   (check_slicing name (firstn (Z.to_nat kl) key) iv m cp rp enc2 dec t))
            (check_family key iv m t entries' results')
  | _, _ => VBad
  end.

(* kinds 8, 9: messages as windows of a larger buffer.  The property on the implementation's
   buffers: every byte outside the window of the op is unchanged (8) and the window is CFB of
   what it held (1 / 4); the model (bstep) must produce the same buffers (14). *)
Definition outside_eq (off n : nat) (a b : list N) : bool :=
  (length a =? length b) && nlist_eqb (firstn off a) (firstn off b) &&
  nlist_eqb (skipn (off + n) a) (skipn (off + n) b).

Fixpoint bcheck (bs : nat) (E : list N -> list N) (iv : list N) (s : bstate) (i1 i2 : list N)
  (ops obs : list sx) (fin1 fin2 : list N) : verdict :=
  match ops, obs with
  | [], [] =>
      vjoin (check_that (nlist_eqb i1 fin1 && nlist_eqb i2 fin2) (VPropFail 8))
            (check_that (nlist_eqb (mem1 s) fin1 && nlist_eqb (mem2 s) fin2) (VMismatch 14))
  | SList [SInt k; SInt off; SInt n; SInt _; SInt doff] :: ops', SBytes o :: obs' =>
      let off := Z.to_nat off in let n := Z.to_nat n in let doff := Z.to_nat doff in
      let inplace := Z.ltb k 2 in
      let isenc := Z.eqb k 0 || Z.eqb k 2 in
      let bo := if Z.eqb k 0 then BEnc off n else if Z.eqb k 1 then BDec off n
                else if Z.eqb k 2 then BEncTo off n doff else BDecTo off n doff in
      match bstep bs E iv s bo with
      | None => VMismatch 4
      | Some s' =>
          let prevw := rd off n i1 in
          let ivb := firstn bs iv in
          let target := if inplace then i1 else i2 in
          let woff := if inplace then off else doff in
          let vprop :=
            vjoin (check_that (outside_eq woff n target o) (VPropFail 8))
                  (if isenc then check_that (nlist_eqb (rd woff n o) (cfb_enc bs E ivb prevw)) (VPropFail 1)
                   else check_that (nlist_eqb (rd woff n o) (cfb_dec bs E ivb prevw)) (VPropFail 4)) in
          let vcorr := check_that (nlist_eqb o (if inplace then mem1 s' else mem2 s')) (VMismatch 14) in
          vjoin (vjoin vprop vcorr)
                (bcheck bs E iv s' (if inplace then o else i1) (if inplace then i2 else o) ops' obs' fin1 fin2)
      end
  | _, _ => VBad
  end.

Fixpoint brun (bs : nat) (E : list N -> list N) (iv : list N) (s : bstate) (ops : list sx) : bool :=
  match ops with
  | [] => true
  | SList [SInt k; SInt off; SInt n; SInt _; SInt doff] :: ops' =>
      let off := Z.to_nat off in let n := Z.to_nat n in let doff := Z.to_nat doff in
      let bo := if Z.eqb k 0 then BEnc off n else if Z.eqb k 1 then BDec off n
                else if Z.eqb k 2 then BEncTo off n doff else BDecTo off n doff in
      match bstep bs E iv s bo with Some s' => brun bs E iv s' ops' | None => false end
  | _ => false
  end.

(* factory-made cipher on windows of one buffer, in place; ref = stock CFB of the window's
   previous content (oracle) *)
Fixpoint fcheck (i1 : list N) (ops obs : list sx) : verdict :=
  match ops, obs with
  | [], [] => VOk
  | SList [SInt k; SInt off; SInt n; SInt _] :: ops', SList [SBytes o; SBytes ref] :: obs' =>
      let off := Z.to_nat off in let n := Z.to_nat n in
      vjoin (vjoin (check_that (outside_eq off n i1 o) (VPropFail 8))
                   (check_that (nlist_eqb (rd off n o) ref) (if Z.eqb k 0 then VPropFail 1 else VPropFail 2)))
            (fcheck o ops' obs')
  | _, _ => VBad
  end.

(* kind 13: ownership of the argument buffers.  oi = the model's instance for the pristine
   key / iv.  The constructor must leave its arguments alone (11); with the caller's buffers
   overwritten before each call every ciphertext is still the one for the pristine values,
   table t0, and the decryption still returns the message (12). *)
Definition inst_entry (i : inst) : option (Z * nat) :=
  match i with
  | IBlock c k _ _ => Some (cid_num c, length k)
  | IStream k _ => Some (6%Z, length k)
  | INone => None
  end.

Definition check_owner (oi : option inst) (key iv m : list N) (cp rp : Z) (ka va enc1 enc2 dec : list N)
  (t0 : list sx) : verdict :=
  match oi with
  | None => check_that (Z.eqb cp 1) (VMismatch 10)
  | Some i =>
      if Z.eqb cp 1 then VPropFail 7 else
      let vargs := check_that (nlist_eqb ka key && nlist_eqb va iv) (VPropFail 11) in
      let runs := match i with IBlock c _ _ _ => negb (length iv <? cid_bs c) | _ => true end in
      if negb runs then vargs
      else if Z.eqb rp 1 then vjoin vargs (VPropFail 7)
      else
        match inst_entry i with
        | None => vjoin vargs (check_that (nlist_eqb enc1 m && nlist_eqb enc2 m && nlist_eqb dec m) (VPropFail 6))
        | Some (c, n) =>
            match table_find c n t0 with
            | Some r0 => vjoin vargs (check_that (nlist_eqb enc1 r0 && nlist_eqb enc2 r0 && nlist_eqb dec m) (VPropFail 12))
            | None => VMismatch 12
            end
        end
  end.

Definition check (c : sx) : verdict :=
  match c with
  | SList [SList [SInt 0%Z; SInt bs; SInt mul; SBytes key; SBytes iv; SBytes eb; SBytes db; SList ops];
           SList [SInt panicked; SList outs]] =>
      match map_opt dop_of_sx ops, map_opt sx_bytes outs with
      | Some ops, Some outs =>
          let bs := Z.to_nat bs in
          let E := toy bs (Z.to_N mul) key in
          match mrun bs E iv (mkcr eb db) ops [] with
          | None => check_that (Z.eqb panicked 1) (VMismatch 4)
          | Some mouts =>
              if Z.eqb panicked 1 then VMismatch 4
              else vjoin (prop_outs bs E (firstn bs iv) ops ops outs) (corr_outs 0 mouts outs)
          end
      | _, _ => VBad
      end
  | SList [SList [SInt 1%Z; SBytes _; SBytes _; SInt seed; SInt len]; SList [SBytes ks; SBytes enc; SBytes dec]] =>
      let m := lcg seed len in
      let ksf := fun i => nth i ks 0%N in
      vjoin (vjoin (check_that (nlist_eqb dec m) (VPropFail 5))
                   (check_that ((length enc =? length m) && (length dec =? length m)) (VPropFail 3)))
            (vjoin (check_that (nlist_eqb (stream_encrypt ksf m) enc) (VMismatch 5))
                   (check_that (nlist_eqb (stream_decrypt ksf enc) dec) (VMismatch 6)))
  | SList [SList [SInt 2%Z; SInt seed; SInt len]; SList [SBytes enc; SBytes dec]] =>
      let m := lcg seed len in
      vjoin (check_that (nlist_eqb enc m && nlist_eqb dec m) (VPropFail 6))
            (vjoin (check_that (nlist_eqb (none_encrypt m) enc) (VMismatch 7))
                   (check_that (nlist_eqb (none_decrypt enc) dec) (VMismatch 8)))
  | SList [SList [SInt 3%Z; SBytes _; SBytes _; SBytes _; SList specs]; SList [SInt panicked; SList obs]] =>
      if Z.eqb panicked 1 then VPropFail 7 else prop_factory specs obs
  | SList [SList [SInt 4%Z; SInt bs; SInt mul; SBytes key; SBytes iv; SInt dec; SInt seed; SInt len];
           SList [SInt panicked; SBytes out]] =>
      let bs := Z.to_nat bs in
      match std_cfb bs (toy bs (Z.to_N mul) key) (Z.eqb dec 1) iv (lcg seed len) with
      | None => check_that (Z.eqb panicked 1) (VMismatch 9)
      | Some m => check_that (Z.eqb panicked 0 && nlist_eqb m out) (VMismatch 9)
      end
  | SList [SList [SInt 5%Z; SBytes name; SBytes key; SBytes iv; SInt seed; SInt len];
           SList [SInt cp; SInt rp; SBytes enc; SBytes dec; SList t; SInt accp; SBytes ka; SBytes va]] =>
      vjoin (check_slicing name key iv (lcg seed len) cp rp enc dec t)
            (check_acc (new_crypt name key iv) cp accp ka va)
  | SList [SList [SInt 11%Z; SBytes ctor; SBytes key; SBytes iv; SInt seed; SInt len];
           SList [SInt cp; SInt rp; SBytes enc; SBytes dec; SList t; SInt accp; SBytes ka; SBytes va]] =>
      vjoin (check_inst (new_direct ctor key iv) (lcg seed len) cp rp enc dec t)
            (check_acc (new_direct ctor key iv) cp accp ka va)
  | SList [SList [SInt 6%Z; SBytes name; SBytes keyA; SBytes ivA; SBytes keyB; SBytes ivB; SInt seed; SInt len];
           SList [SInt pA; SBytes encA; SInt pB; SBytes encB]] =>
      match new_crypt name keyA ivA, new_crypt name keyB ivB with
      | Some a, Some b =>
          if runs a && runs b then
            if Z.eqb pA 1 || Z.eqb pB 1 then VMismatch 11
            else check_that (Bool.eqb (same_used a b) (nlist_eqb encA encB)) (VMismatch 13)
          else VOk
      | _, _ => VOk
      end
  | SList [SList [SInt 7%Z; SBytes key; SBytes iv; SList entries; SInt seed; SInt len];
           SList [SList results; SList t]] =>
      check_family key iv (lcg seed len) t entries results
  | SList [SList [SInt 7%Z; SBytes key; SBytes iv; SList entries; SInt seed; SInt len; SInt _];
           SList [SList results; SList t]] =>
      (* the same with every instance built from one shared key buffer and one shared IV buffer *)
      check_family key iv (lcg seed len) t entries results
  | SList [SList [SInt 8%Z; SInt bs; SInt mul; SBytes key; SBytes iv; SBytes eb; SBytes db;
                   SInt s1; SInt l1; SInt s2; SInt l2; SList ops];
           SList [SInt panicked; SList obs; SBytes fin1; SBytes fin2]] =>
      let bs := Z.to_nat bs in
      let E := toy bs (Z.to_N mul) key in
      let m1 := lcg s1 l1 in let m2 := lcg s2 l2 in
      let s0 := mkbs m1 m2 (mkcr eb db) in
      if Z.eqb panicked 1 then check_that (negb (brun bs E iv s0 ops)) (VMismatch 4)
      else bcheck bs E iv s0 m1 m2 ops obs fin1 fin2
  | SList [SList [SInt 9%Z; SBytes _; SBytes _; SBytes _; SInt s1; SInt l1; SList ops];
           SList [SInt panicked; SList obs]] =>
      if Z.eqb panicked 1 then VPropFail 7 else fcheck (lcg s1 l1) ops obs
  | SList [SList [SInt 10%Z; SBytes _; SBytes _; SBytes _; SInt _; SInt _];
           SList [SInt panicked; SInt be; SInt bd; SList _]] =>
      if Z.eqb panicked 1 then VPropFail 7
      else check_that (Z.eqb be 0 && Z.eqb bd 0) (VPropFail 9)
  | SList [SList [SInt 12%Z; SInt _; SInt _]; SList [SInt panicked; SList bad]] =>
      if Z.eqb panicked 1 then VPropFail 7
      else check_that (forallb (fun b => match b with SInt 0%Z => true | _ => false end) bad) (VPropFail 10)
  | SList [SList [SInt 13%Z; SInt direct; SBytes name; SBytes key; SBytes iv; SInt _; SInt _; SInt seed; SInt len];
           SList [SInt cp; SInt rp; SBytes ka; SBytes va; SBytes enc1; SBytes enc2; SBytes dec; SList t0]] =>
      check_owner (if Z.eqb direct 1 then new_direct name key iv else new_crypt name key iv)
                  key iv (lcg seed len) cp rp ka va enc1 enc2 dec t0
  | _ => VBad
  end.
