(* C16 - tie of the model's UNROLLED STRUCTURE to the Go source.
   tools/goshape renders encrypt8/16 and decrypt8/16 of x/cipher/block.go, statement by
   statement, into the small language of Lib/CfbShape.v (Generated/CipherShape.v, rewritten
   from the source on every run: offsets, slice bounds, strides, case labels and the roles of
   the buffers are copied from the source; a statement of no known form becomes SUnknown).
   This file gives each statement form its meaning on the model's memory (one memory for the
   packet because dst = src; the scratch buffer; the offsets of the slice headers tbl and
   next; base) and proves, by computation with the block function E and the memory symbolic,
   that the statements of the source ARE the model's steps (chunk by chunk: the statements of
   one block are evaluated on an arbitrary memory and give exactly enc_step / dec_step):
     - the loop body is enc_stride / dec_stride and advances base by one 8-block window;
     - entering the switch at label k runs enc_tail k / dec_tail k and then the remainder;
     - the header constants are the model's (tbl = buf[0:bs], next = buf[bs:2bs], n = len/bs,
       n/8 iterations over windows of 8*bs bytes, switch n%8), nothing else is in the function.
   A changed index, bound, stride, label, buffer role, a missing swap or fallthrough, or an
   extra statement makes one of these lemmas fail to compile.
   Trusted here: the pattern matcher of tools/goshape and the meaning given to the six
   statement forms below (hand-written, a few lines each); control flow outside the forms
   (the for header `i := 0; i < n/K; i++`, the switch tag `n % K`) is matched syntactically. *)
From Coq Require Import ZArith NArith List Bool Arith.
From FV Require Import Lib.CfbShape Generated.CipherShape C16.Model.
Import ListNotations.

Section Interp.
  Variable bs : nat.
  Variable E : list N -> list N.

  (* offsets of the slice headers tbl and next in buf, base, the memory *)
  Record ist : Type := mkist { i_t : nat; i_n : nat; i_base : nat; i_st : st }.

  Definition mem_eqb (a b : shmem) : bool :=
    match a, b with MD, MD | MS, MS => true | _, _ => false end.

  Definition loc_off (i : ist) (l : shloc) : nat :=
    match l with LConst _ lo _ => Z.to_nat lo | LBase _ => i_base i end.

  (* the expected view; a constant location is non-negative and, when it has an upper bound,
     exactly one block long *)
  Definition loc_ok (l : shloc) (m : shmem) : bool :=
    match l with
    | LConst m' lo hi =>
        mem_eqb m m' && (0 <=? lo)%Z &&
        match hi with None => true | Some h => (h - lo =? Z.of_nat bs)%Z end
    | LBase m' => mem_eqb m m'
    end.

  Definition ks_off (i : ist) (k : shks) : option nat :=
    match k with
    | KOff o => if (0 <=? o)%Z then Some (Z.to_nat o) else None
    | KTbl => Some (i_t i)
    | KNext => Some (i_n i)
    end.

  (* encview: the view block.Encrypt reads its input from (d in encrypt: the block just
     written; s in decrypt: the ciphertext block before it is overwritten) *)
  Definition interp_stmt (encview : shmem) (s : shstmt) (i : ist) : option ist :=
    let m := i_st i in
    match s with
    | SXor w d sl k =>
        if (w =? Z.of_nat bs)%Z && loc_ok d MD && loc_ok sl MS && Nat.eqb (loc_off i d) (loc_off i sl) then
          match ks_off i k with
          | Some ko =>
              let off := loc_off i d in
              Some (mkist (i_t i) (i_n i) (i_base i)
                      (mkst (wr off (xorl (rd off bs (data m)) (rd ko bs (buf m))) (data m)) (buf m)))
          | None => None
          end
        else None
    | SEnc k src =>
        match k with
        | KOff _ => None
        | _ =>
            if loc_ok src encview then
              match ks_off i k with
              | Some ko =>
                  Some (mkist (i_t i) (i_n i) (i_base i)
                          (mkst (data m) (wr ko (Eb bs E (skipn (loc_off i src) (data m))) (buf m))))
              | None => None
              end
            else None
        end
    | SBase inc =>
        if (0 <=? inc)%Z then Some (mkist (i_t i) (i_n i) (i_base i + Z.to_nat inc) m) else None
    | SSwap => Some (mkist (i_n i) (i_t i) (i_base i) m)
    | SRem d sl k =>
        match d, sl, ks_off i k with
        | LBase MD, LBase MS, Some ko =>
            Some (mkist (i_t i) (i_n i) (i_base i)
                    (mkst (wr (i_base i) (xorl (skipn (i_base i) (data m)) (rd ko bs (buf m))) (data m)) (buf m)))
        | _, _, _ => None
        end
    | SFall => Some i
    | SUnknown => None
    end.

  Fixpoint interp_stmts (encview : shmem) (l : list shstmt) (i : ist) : option ist :=
    match l with
    | [] => Some i
    | s :: r => match interp_stmt encview s i with
                | Some i' => interp_stmts encview r i'
                | None => None
                end
    end.

  Fixpoint ends_with_fall (l : list shstmt) : bool :=
    match l with
    | [] => false
    | [SFall] => true
    | _ :: r => ends_with_fall r
    end.

  (* case bodies from the head of the list on, following fallthrough *)
  Fixpoint run_cases (encview : shmem) (cs : list (Z * list shstmt)) (i : ist) : option ist :=
    match cs with
    | [] => Some i
    | (_, body) :: r =>
        match interp_stmts encview body i with
        | Some i' => if ends_with_fall body then run_cases encview r i' else Some i'
        | None => None
        end
    end.

  (* switch k { case L: ... }: the first case whose label is k *)
  Fixpoint interp_switch (encview : shmem) (cs : list (Z * list shstmt)) (k : Z) (i : ist) : option ist :=
    match cs with
    | [] => Some i
    | (l, body) :: r => if (l =? k)%Z then run_cases encview cs i else interp_switch encview r k i
    end.
End Interp.

(* the constants outside the statement lists *)
Definition header_ok (f : shfn) (bs : nat) (decrypt : bool) : bool :=
  let b := Z.of_nat bs in
  (fst (sh_tbl f) =? 0)%Z && (snd (sh_tbl f) =? b)%Z &&
  match sh_next f, decrypt with
  | None, false => true
  | Some (lo, hi), true => (lo =? b)%Z && (hi =? 2 * b)%Z
  | _, _ => false
  end &&
  match sh_enc_iv f with Some KTbl => true | _ => false end &&
  (sh_ndiv f =? b)%Z && (sh_loopdiv f =? 8)%Z &&
  (sh_window_s f =? 8 * b)%Z && (sh_window_d f =? 8 * b)%Z &&
  (sh_switchmod f =? 8)%Z && (sh_extra f =? 0)%Z.

Definition all_k : list nat := [0; 1; 2; 3; 4; 5; 6; 7].

(* ---------- proof engine: the statements of one block at a time, on an arbitrary memory ---------- *)
Lemma interp_split bs E v (l1 l2 : list shstmt) i i' :
  interp_stmts bs E v l1 i = Some i' -> interp_stmts bs E v (l1 ++ l2) i = interp_stmts bs E v l2 i'.
Proof.
  revert i. induction l1 as [|a r IH]; intros i H; cbn [interp_stmts app] in *.
  - injection H as <-. reflexivity.
  - destruct (interp_stmt bs E v a i) as [i1|]; [|discriminate]. apply IH. exact H.
Qed.

Lemma interp_split2 bs E v (a b : shstmt) r i i' :
  interp_stmts bs E v [a; b] i = Some i' -> interp_stmts bs E v (a :: b :: r) i = interp_stmts bs E v r i'.
Proof. exact (interp_split bs E v [a; b] r i i'). Qed.

Lemma run_cases_cons bs E v l body r i i' :
  interp_stmts bs E v body i = Some i' ->
  run_cases bs E v ((l, body) :: r) i = if ends_with_fall body then run_cases bs E v r i' else Some i'.
Proof. intros H. cbn [run_cases]. rewrite H. reflexivity. Qed.

Definition dummy : st := mkst [] [].
Definition ist_hdr (i : ist) : nat * nat * nat := (i_t i, i_n i, i_base i).

(* the location a statement works on, and the scratch offset it reads / writes *)
Definition stmt_loc (s : shstmt) : shloc :=
  match s with SXor _ d _ _ => d | SEnc _ src => src | SRem d _ _ => d | _ => LBase MD end.
Definition stmt_ks (s : shstmt) : shks :=
  match s with SXor _ _ _ k => k | SEnc k _ => k | SRem _ _ k => k | _ => KTbl end.
Definition first_xor (l : list shstmt) : shstmt :=
  match filter (fun s => match s with SXor _ _ _ _ => true | _ => false end) l with x :: _ => x | [] => SUnknown end.
Definition first_enc (l : list shstmt) : shstmt :=
  match filter (fun s => match s with SEnc _ _ => true | _ => false end) l with x :: _ => x | [] => SUnknown end.
Definition opt_nat (o : option nat) : nat := match o with Some n => n | None => 0 end.

(* chunk: [bs E v t n b s] the current state, [l] the statements of one block, [mk] which
   model step they must be.  Proves  interp l (state with ANY memory s0) = state' with (step s0)
   by evaluation on the symbolic memory of ONE step, and returns the header of state'. *)
Ltac chunk_enc H bs E v l t n b :=
  let i0 := constr:(mkist t n b dummy) in
  let off := eval vm_compute in (loc_off i0 (stmt_loc (first_xor l))) in
  let r := eval vm_compute in (option_map ist_hdr (interp_stmts bs E v l i0)) in
  lazymatch r with
  | Some (?t', ?n', ?b') =>
      assert (H : forall s0, interp_stmts bs E v l (mkist t n b s0) = Some (mkist t' n' b' (enc_step bs E off s0)))
        by abstract (intro; reflexivity)
  end.

Ltac chunk_dec H bs E v l t n b :=
  let i0 := constr:(mkist t n b dummy) in
  let off := eval vm_compute in (loc_off i0 (stmt_loc (first_xor l))) in
  let rdo := eval vm_compute in (opt_nat (ks_off i0 (stmt_ks (first_xor l)))) in
  let wro := eval vm_compute in (opt_nat (ks_off i0 (stmt_ks (first_enc l)))) in
  let r := eval vm_compute in (option_map ist_hdr (interp_stmts bs E v l i0)) in
  lazymatch r with
  | Some (?t', ?n', ?b') =>
      assert (H : forall s0, interp_stmts bs E v l (mkist t n b s0) = Some (mkist t' n' b' (dec_step bs E rdo wro off s0)))
        by abstract (intro; reflexivity)
  end.

(* loop body: two statements per block, then `base += W` *)
Ltac body_pairs chunk :=
  repeat lazymatch goal with
  | |- interp_stmts ?bs ?E ?v (?a :: ?b :: ?c :: ?r) (mkist ?t ?n ?bb ?s) = _ =>
      let H := fresh "H" in
      chunk H bs E v constr:([a; b]) t n bb;
      rewrite (interp_split2 bs E v a b (c :: r) _ _ (H s)); clear H
  end.

(* switch: one case body per block *)
Ltac tail_cases chunk :=
  repeat lazymatch goal with
  | |- option_map _ (run_cases ?bs ?E ?v ((?l, ?body) :: (?l2, ?body2) :: ?r) (mkist ?t ?n ?bb ?s)) = _ =>
      let H := fresh "H" in
      chunk H bs E v body t n bb;
      rewrite (run_cases_cons bs E v l body ((l2, body2) :: r) _ _ (H s)); clear H; cbn [ends_with_fall]
  end.

(* the last case (`case 0`, the remainder) on a memory made abstract again *)
Ltac finish_tail :=
  cbn [enc_tail enc_case dec_tail dec_case Nat.leb fst snd Nat.add];
  lazymatch goal with
  | |- option_map _ (run_cases _ _ _ _ (mkist _ _ _ ?S)) = _ =>
      let s1 := fresh "s1" in generalize S; intro s1; reflexivity
  end.

Ltac enter_switch :=
  cbn [interp_switch sh_cases go_encrypt8_shape go_encrypt16_shape go_decrypt8_shape go_decrypt16_shape
       Z.of_nat Pos.of_succ_nat Pos.succ Z.eqb Pos.eqb].

(* ---------- encrypt8 ---------- *)
Lemma src_encrypt8_header : header_ok go_encrypt8_shape 8 false = true.
Proof. reflexivity. Qed.

Lemma src_encrypt8_body E s :
  interp_stmts 8 E MD (sh_body go_encrypt8_shape) (mkist 0 8 0 s) =
  Some (mkist 0 8 (8 * 8) (enc_stride 8 E s)).
Proof. unfold enc_stride. cbn [sh_body go_encrypt8_shape]. body_pairs chunk_enc. reflexivity. Qed.

Lemma src_encrypt8_tail E s :
  Forall (fun k => option_map i_st (interp_switch 8 E MD (sh_cases go_encrypt8_shape) (Z.of_nat k) (mkist 0 8 0 s)) =
                   Some (enc_rem 8 (enc_tail 8 E k (0, s)))) all_k.
Proof. unfold all_k. repeat (apply Forall_cons; [enter_switch; tail_cases chunk_enc; finish_tail|]). apply Forall_nil. Qed.

(* ---------- encrypt16 ---------- *)
Lemma src_encrypt16_header : header_ok go_encrypt16_shape 16 false = true.
Proof. reflexivity. Qed.

Lemma src_encrypt16_body E s :
  interp_stmts 16 E MD (sh_body go_encrypt16_shape) (mkist 0 16 0 s) =
  Some (mkist 0 16 (8 * 16) (enc_stride 16 E s)).
Proof. unfold enc_stride. cbn [sh_body go_encrypt16_shape]. body_pairs chunk_enc. reflexivity. Qed.

Lemma src_encrypt16_tail E s :
  Forall (fun k => option_map i_st (interp_switch 16 E MD (sh_cases go_encrypt16_shape) (Z.of_nat k) (mkist 0 16 0 s)) =
                   Some (enc_rem 16 (enc_tail 16 E k (0, s)))) all_k.
Proof. unfold all_k. repeat (apply Forall_cons; [enter_switch; tail_cases chunk_enc; finish_tail|]). apply Forall_nil. Qed.

(* ---------- decrypt8 ---------- *)
Lemma src_decrypt8_header : header_ok go_decrypt8_shape 8 true = true.
Proof. reflexivity. Qed.

Lemma src_decrypt8_body E s :
  interp_stmts 8 E MS (sh_body go_decrypt8_shape) (mkist 0 8 0 s) =
  Some (mkist 0 8 (8 * 8) (dec_stride 8 E s)).
Proof. unfold dec_stride. cbn [sh_body go_decrypt8_shape]. body_pairs chunk_dec. reflexivity. Qed.

Lemma src_decrypt8_tail E s :
  Forall (fun k => option_map i_st (interp_switch 8 E MS (sh_cases go_decrypt8_shape) (Z.of_nat k) (mkist 0 8 0 s)) =
                   Some (dec_rem 8 (dec_tail 8 E k ((0, 8), (0, s))))) all_k.
Proof. unfold all_k. repeat (apply Forall_cons; [enter_switch; tail_cases chunk_dec; finish_tail|]). apply Forall_nil. Qed.

(* ---------- decrypt16 ---------- *)
Lemma src_decrypt16_header : header_ok go_decrypt16_shape 16 true = true.
Proof. reflexivity. Qed.

Lemma src_decrypt16_body E s :
  interp_stmts 16 E MS (sh_body go_decrypt16_shape) (mkist 0 16 0 s) =
  Some (mkist 0 16 (8 * 16) (dec_stride 16 E s)).
Proof. unfold dec_stride. cbn [sh_body go_decrypt16_shape]. body_pairs chunk_dec. reflexivity. Qed.

Lemma src_decrypt16_tail E s :
  Forall (fun k => option_map i_st (interp_switch 16 E MS (sh_cases go_decrypt16_shape) (Z.of_nat k) (mkist 0 16 0 s)) =
                   Some (dec_rem 16 (dec_tail 16 E k ((0, 16), (0, s))))) all_k.
Proof. unfold all_k. repeat (apply Forall_cons; [enter_switch; tail_cases chunk_dec; finish_tail|]). apply Forall_nil. Qed.
