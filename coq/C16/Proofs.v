(* C16 — lemmas. *)
From Coq Require Import NArith List Bool Arith Lia.
From FV Require Import C16.Model.
Import ListNotations.

(* ---------- stream cipher and none ---------- *)
Lemma stream_from_involution ks : forall msg i, stream_from ks i (stream_from ks i msg) = msg.
Proof.
  induction msg as [|b r IH]; intros i; cbn [stream_from]; [reflexivity|].
  rewrite IH. f_equal. rewrite N.lxor_assoc, N.lxor_nilpotent, N.lxor_0_r. reflexivity.
Qed.

Lemma stream_from_length ks : forall msg i, length (stream_from ks i msg) = length msg.
Proof. induction msg as [|b r IH]; intros i; cbn [stream_from length]; [reflexivity|]. rewrite IH. reflexivity. Qed.

Lemma stream_involution ks msg : stream_decrypt ks (stream_encrypt ks msg) = msg.
Proof. apply stream_from_involution. Qed.
