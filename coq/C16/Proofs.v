(* C16 — lemmas.  Route: (1) one model step on a structured memory; (2) the unrolled stride
   and the fall-through tail are iterations of that step; (3) k iterations over k full
   blocks compute the block-level recursion encK / decK; (4) textbook CFB on
   (full blocks ++ short tail) is the same recursion; (5) assemble, for every length. *)
From Coq Require Import NArith List Bool Arith Lia.
From FV Require Import C16.Model.
Import ListNotations.

(* ---------- xorl ---------- *)
Lemma xorl_length : forall a b, length (xorl a b) = Nat.min (length a) (length b).
Proof.
  induction a as [|x a IH]; intros [|y b]; cbn [xorl length Nat.min]; try reflexivity.
  rewrite IH. reflexivity.
Qed.

Lemma xorl_nil_l b : xorl [] b = [].
Proof. reflexivity. Qed.

Lemma xorl_nil_r a : xorl a [] = [].
Proof. destruct a; reflexivity. Qed.

Lemma xorl_invol : forall a k, length a <= length k -> xorl (xorl a k) k = a.
Proof.
  induction a as [|x a IH]; intros [|y k] H; cbn [xorl length] in *; try reflexivity; try lia.
  rewrite IH by lia. f_equal.
  rewrite N.lxor_assoc, N.lxor_nilpotent, N.lxor_0_r. reflexivity.
Qed.

(* ---------- memory ---------- *)
Lemma skipn_at {A} (pre x : list A) off : length pre = off -> skipn off (pre ++ x) = x.
Proof. intros <-. rewrite skipn_app, skipn_all, Nat.sub_diag. reflexivity. Qed.

Lemma firstn_at {A} (pre x : list A) off : length pre = off -> firstn off (pre ++ x) = pre.
Proof. intros <-. rewrite firstn_app, firstn_all, Nat.sub_diag. cbn. apply app_nil_r. Qed.

Lemma skipn_skipn_add {A} (l : list A) : forall b a, skipn a (skipn b l) = skipn (b + a) l.
Proof.
  induction l as [|x l IH]; intros b a.
  - rewrite !skipn_nil. reflexivity.
  - destruct b as [|b]; [reflexivity|]. cbn [skipn Nat.add]. apply IH.
Qed.

Lemma rd_at pre blk post off n :
  length pre = off -> length blk = n -> rd off n (pre ++ blk ++ post) = blk.
Proof. intros Hp Hb. unfold rd. rewrite (skipn_at _ _ _ Hp). apply firstn_at. exact Hb. Qed.

Lemma wr_at pre blk post b off :
  length pre = off -> length blk = length b -> wr off b (pre ++ blk ++ post) = pre ++ b ++ post.
Proof.
  intros Hp Hb. unfold wr. rewrite (firstn_at _ _ _ Hp). f_equal. f_equal.
  rewrite app_assoc. apply skipn_at. rewrite app_length. lia.
Qed.

Lemma rd_0 ks brest n : length ks = n -> rd 0 n (ks ++ brest) = ks.
Proof. intros H. exact (rd_at [] ks brest 0 n eq_refl H). Qed.

Lemma wr_0 ks brest b : length ks = length b -> wr 0 b (ks ++ brest) = b ++ brest.
Proof. intros H. exact (wr_at [] ks brest b 0 eq_refl H). Qed.

Lemma wr_length off b m : off + length b <= length m -> length (wr off b m) = length m.
Proof.
  intros H. unfold wr. rewrite !app_length, firstn_length, skipn_length. lia.
Qed.

Definition fullb (bs : nat) (b : list N) : Prop := length b = bs.

Lemma concat_full_length bs (bl : list (list N)) :
  Forall (fullb bs) bl -> length (concat bl) = bs * length bl.
Proof.
  induction 1 as [|b bl Hb _ IH]; cbn [concat length]; [lia|].
  rewrite app_length, IH, Hb. lia.
Qed.

Section Generic.
  Variable bs : nat.
  Variable E : list N -> list N.
  Hypothesis Hbs : 0 < bs.

  Notation Eb := (Eb bs E).
  Notation full := (fullb bs).

  Lemma fit_length l : length (fit bs l) = bs.
  Proof. unfold fit. rewrite firstn_length, app_length, repeat_length. lia. Qed.

  Lemma Eb_length x : length (Eb x) = bs.
  Proof. apply fit_length. Qed.

  Lemma Eb_app c r : length c = bs -> Eb (c ++ r) = Eb c.
  Proof.
    intros Hc. unfold Model.Eb. rewrite (firstn_at c r bs Hc).
    replace (firstn bs c) with c by (rewrite <- Hc, firstn_all; reflexivity). reflexivity.
  Qed.

  Lemma Eb_firstn x : Eb (firstn bs x) = Eb x.
  Proof. unfold Model.Eb. rewrite firstn_firstn, Nat.min_id. reflexivity. Qed.

  (* ================= encryption ================= *)

  (* (1) one step on a structured memory *)
  Lemma enc_step_at pre blk post ks brest off :
    length pre = off -> full blk -> full ks ->
    enc_step bs E off (mkst (pre ++ blk ++ post) (ks ++ brest)) =
    mkst (pre ++ xorl blk ks ++ post) (Eb (xorl blk ks) ++ brest).
  Proof.
    intros Hp Hb Hk. unfold enc_step. cbn [data buf].
    rewrite (rd_at pre blk post off bs Hp Hb).
    rewrite (rd_0 ks brest bs Hk).
    assert (Hx : length (xorl blk ks) = bs) by (rewrite xorl_length, Hb, Hk; lia).
    rewrite (wr_at pre blk post (xorl blk ks) off Hp) by (rewrite Hx; exact Hb).
    rewrite (skipn_at _ _ _ Hp). rewrite (Eb_app _ _ Hx).
    rewrite (wr_0 ks brest (Eb (xorl blk ks))) by (rewrite Eb_length; exact Hk).
    reflexivity.
  Qed.

  (* (2) iteration of the step *)
  Fixpoint enc_iter (k off : nat) (s : st) : nat * st :=
    match k with
    | O => (off, s)
    | S k' => enc_iter k' (off + bs) (enc_step bs E off s)
    end.

  Lemma enc_stride_iter s : enc_stride bs E s = snd (enc_iter 8 0 s).
  Proof.
    unfold enc_stride. cbn [enc_iter snd].
    replace (0 * bs) with 0 by lia.
    replace (1 * bs) with (0 + bs) by lia.
    replace (2 * bs) with (0 + bs + bs) by lia.
    replace (3 * bs) with (0 + bs + bs + bs) by lia.
    replace (4 * bs) with (0 + bs + bs + bs + bs) by lia.
    replace (5 * bs) with (0 + bs + bs + bs + bs + bs) by lia.
    replace (6 * bs) with (0 + bs + bs + bs + bs + bs + bs) by lia.
    replace (7 * bs) with (0 + bs + bs + bs + bs + bs + bs + bs) by lia.
    reflexivity.
  Qed.

  Lemma enc_tail_iter k off s : k <= 7 -> enc_tail bs E k (off, s) = enc_iter k off s.
  Proof.
    intros Hk. unfold enc_tail, enc_case.
    do 8 (destruct k as [|k]; [cbn [Nat.leb enc_iter]; reflexivity|]). lia.
  Qed.

  (* (3) the block-level recursion: ciphertext blocks and the keystream block left in tbl *)
  Fixpoint encK (ks : list N) (bl : list (list N)) : list (list N) * list N :=
    match bl with
    | [] => ([], ks)
    | p :: r => let c := xorl p ks in
                let (cs, k') := encK (Eb c) r in (c :: cs, k')
    end.

  Lemma encK_app ks bl1 bl2 :
    encK ks (bl1 ++ bl2) =
    (fst (encK ks bl1) ++ fst (encK (snd (encK ks bl1)) bl2), snd (encK (snd (encK ks bl1)) bl2)).
  Proof.
    revert ks. induction bl1 as [|p r IH]; intros ks; cbn [encK app fst snd].
    - destruct (encK ks bl2); reflexivity.
    - rewrite IH. destruct (encK (Eb (xorl p ks)) r) as [cs k']. cbn [fst snd app]. reflexivity.
  Qed.

  Lemma encK_ks_full ks bl : full ks -> full (snd (encK ks bl)).
  Proof.
    revert ks. induction bl as [|p r IH]; intros ks Hk; cbn [encK snd]; [exact Hk|].
    specialize (IH (Eb (xorl p ks)) (Eb_length _)).
    destruct (encK (Eb (xorl p ks)) r). exact IH.
  Qed.

  Lemma encK_full ks bl : full ks -> Forall full bl -> Forall full (fst (encK ks bl)).
  Proof.
    intros Hk Hbl. revert ks Hk. induction Hbl as [|p r Hp _ IH]; intros ks Hk; cbn [encK fst]; [constructor|].
    specialize (IH (Eb (xorl p ks)) (Eb_length _)).
    destruct (encK (Eb (xorl p ks)) r). cbn [fst] in *. constructor; [|exact IH].
    unfold fullb in *. rewrite xorl_length, Hp, Hk. lia.
  Qed.

  Lemma encK_length ks bl : length (fst (encK ks bl)) = length bl.
  Proof.
    revert ks. induction bl as [|p r IH]; intros ks; cbn [encK fst length]; [reflexivity|].
    specialize (IH (Eb (xorl p ks))). destruct (encK (Eb (xorl p ks)) r). cbn [fst length] in *. lia.
  Qed.

  Lemma enc_iter_spec bl : forall pre post ks brest off,
    length pre = off -> Forall full bl -> full ks ->
    enc_iter (length bl) off (mkst (pre ++ concat bl ++ post) (ks ++ brest)) =
    (off + bs * length bl,
     mkst (pre ++ concat (fst (encK ks bl)) ++ post) (snd (encK ks bl) ++ brest)).
  Proof.
    induction bl as [|p r IH]; intros pre post ks brest off Hp Hbl Hk.
    - cbn [length enc_iter concat encK fst snd]. f_equal. lia.
    - apply Forall_cons_iff in Hbl. destruct Hbl as [Hpf Hr].
      cbn [length enc_iter concat encK]. rewrite <- app_assoc.
      rewrite (enc_step_at pre p (concat r ++ post) ks brest off Hp Hpf Hk).
      assert (Hx : length (xorl p ks) = bs) by (unfold fullb in *; rewrite xorl_length, Hpf, Hk; lia).
      replace (pre ++ xorl p ks ++ concat r ++ post) with ((pre ++ xorl p ks) ++ concat r ++ post)
        by (rewrite <- app_assoc; reflexivity).
      rewrite (IH (pre ++ xorl p ks) post (Eb (xorl p ks)) brest (off + bs))
        by (try rewrite app_length; try apply Eb_length; try assumption; lia).
      destruct (encK (Eb (xorl p ks)) r) as [cs k']. cbn [fst snd concat].
      f_equal; [lia|]. f_equal. rewrite <- !app_assoc. reflexivity.
  Qed.

  Lemma enc_stride_spec bl ks brest :
    Forall full bl -> length bl = 8 -> full ks ->
    enc_stride bs E (mkst (concat bl) (ks ++ brest)) =
    mkst (concat (fst (encK ks bl))) (snd (encK ks bl) ++ brest).
  Proof.
    intros Hbl Hlen Hk. rewrite enc_stride_iter. rewrite <- Hlen.
    pose proof (enc_iter_spec bl [] [] ks brest 0 eq_refl Hbl Hk) as H.
    cbn [app] in H. rewrite !app_nil_r in H. rewrite H. reflexivity.
  Qed.

  Lemma firstn_skipn_blocks (bl : list (list N)) n :
    Forall full bl -> Forall full (firstn n bl) /\ Forall full (skipn n bl).
  Proof.
    intros H. rewrite <- (firstn_skipn n bl) in H. apply Forall_app in H. exact H.
  Qed.

  Lemma enc_loop_spec iters : forall bl done rest ks brest,
    Forall full bl -> length bl = 8 * iters -> full ks ->
    enc_loop bs E iters done (concat bl ++ rest) (ks ++ brest) =
    (done ++ concat (fst (encK ks bl)), mkst rest (snd (encK ks bl) ++ brest)).
  Proof.
    induction iters as [|it IH]; intros bl done rest ks brest Hbl Hlen Hk.
    - destruct bl; [|cbn in Hlen; lia]. cbn [enc_loop concat encK fst snd app]. rewrite app_nil_r. reflexivity.
    - cbn [enc_loop].
      destruct (firstn_skipn_blocks bl 8 Hbl) as [H1 H2].
      assert (L1 : length (firstn 8 bl) = 8) by (rewrite firstn_length; lia).
      assert (L2 : length (skipn 8 bl) = 8 * it) by (rewrite skipn_length; lia).
      pose proof (firstn_skipn 8 bl) as Ebl.
      remember (firstn 8 bl) as bl1 eqn:E1. remember (skipn 8 bl) as bl2 eqn:E2.
      clear E1 E2 Hbl Hlen. subst bl.
      assert (Lc : length (concat bl1) = 8 * bs)
        by (rewrite (concat_full_length bs _ H1), L1; lia).
      rewrite concat_app, <- app_assoc.
      rewrite (firstn_at _ _ _ Lc), (skipn_at _ _ _ Lc).
      rewrite (enc_stride_spec _ ks brest H1 L1 Hk). cbn [data buf].
      rewrite (IH bl2 _ rest _ brest H2 L2 (encK_ks_full ks _ Hk)).
      rewrite encK_app. cbn [fst snd].
      rewrite concat_app, app_assoc. reflexivity.
  Qed.

  (* the remainder: xorBytes(dst[base:], src[base:], tbl) *)
  Lemma enc_rem_spec pre tail ks brest off :
    length pre = off -> length tail <= bs -> full ks ->
    enc_rem bs (off, mkst (pre ++ tail) (ks ++ brest)) = mkst (pre ++ xorl tail ks) (ks ++ brest).
  Proof.
    intros Hp Ht Hk. unfold enc_rem. cbn [data buf].
    rewrite (skipn_at _ _ _ Hp), (rd_0 ks brest bs Hk).
    f_equal.
    pose proof (wr_at pre tail [] (xorl tail ks) off Hp) as H. rewrite !app_nil_r in H.
    apply H. unfold fullb in Hk. rewrite xorl_length, Hk. lia.
  Qed.

  (* (4) textbook CFB on full blocks ++ short tail *)
  Lemma cfb_enc_aux_nil fuel fb : cfb_enc_aux bs E fuel fb [] = [].
  Proof. destruct fuel; reflexivity. Qed.

  Lemma cfb_enc_blocks bl : forall fuel fb tail,
    Forall full bl -> length tail < bs -> length (concat bl ++ tail) <= fuel ->
    cfb_enc_aux bs E fuel fb (concat bl ++ tail) =
    concat (fst (encK (Eb fb) bl)) ++ xorl tail (snd (encK (Eb fb) bl)).
  Proof.
    induction bl as [|p r IH]; intros fuel fb tail Hbl Ht Hf.
    - cbn [concat app encK fst snd] in *.
      destruct tail as [|t tl]; [rewrite cfb_enc_aux_nil; reflexivity|].
      destruct fuel as [|f]; [cbn in Hf; lia|]. cbn [cfb_enc_aux].
      rewrite firstn_all2 by lia. rewrite skipn_all2 by lia. rewrite cfb_enc_aux_nil, app_nil_r. reflexivity.
    - apply Forall_cons_iff in Hbl. destruct Hbl as [Hp Hr]. cbn [concat] in *. rewrite <- app_assoc in *.
      rewrite app_length in Hf. unfold fullb in Hp.
      destruct fuel as [|f]; [lia|]. cbn [cfb_enc_aux].
      destruct p as [|p0 pr]; [cbn in Hp; lia|].
      change ((p0 :: pr) ++ concat r ++ tail) with ((p0 :: pr) ++ (concat r ++ tail)).
      remember (p0 :: pr) as p eqn:Ep.
      assert (Hne : p ++ concat r ++ tail <> []) by (subst p; discriminate).
      destruct (p ++ concat r ++ tail) as [|z zs] eqn:Ez; [contradiction|]. rewrite <- Ez.
      rewrite (firstn_at p _ bs Hp), (skipn_at p _ bs Hp).
      rewrite (IH f (xorl p (Eb fb)) tail Hr Ht) by lia.
      cbn [encK]. destruct (encK (Eb (xorl p (Eb fb))) r) as [cs k']. cbn [fst snd concat].
      rewrite <- app_assoc. reflexivity.
  Qed.

  (* every message is full blocks ++ a short tail *)
  Fixpoint blocks_of (n : nat) (l : list N) : list (list N) :=
    match n with
    | O => []
    | S k => firstn bs l :: blocks_of k (skipn bs l)
    end.

  Lemma blocks_of_spec n : forall l, n * bs <= length l ->
    Forall full (blocks_of n l) /\ length (blocks_of n l) = n /\
    l = concat (blocks_of n l) ++ skipn (n * bs) l.
  Proof.
    induction n as [|k IH]; intros l Hl.
    - cbn. repeat split; constructor.
    - cbn [blocks_of]. destruct (IH (skipn bs l)) as (F & L & C).
      { rewrite skipn_length. cbn in Hl. lia. }
      repeat split.
      + constructor; [|exact F]. unfold fullb. rewrite firstn_length. cbn in Hl. lia.
      + cbn [length]. lia.
      + cbn [concat]. rewrite <- app_assoc.
        replace (skipn (S k * bs) l) with (skipn (k * bs) (skipn bs l))
          by (rewrite skipn_skipn_add; replace (bs + k * bs) with (S k * bs) by lia; reflexivity).
        rewrite <- C. symmetry. apply firstn_skipn.
  Qed.

  Lemma decompose (msg : list N) :
    exists bl tail, msg = concat bl ++ tail /\ Forall full bl /\ length tail < bs /\
                    length bl = length msg / bs.
  Proof.
    set (n := length msg / bs).
    assert (Hn : n * bs <= length msg) by (unfold n; rewrite Nat.mul_comm; apply Nat.mul_div_le; lia).
    destruct (blocks_of_spec n msg Hn) as (F & L & C).
    exists (blocks_of n msg), (skipn (n * bs) msg). repeat split; try assumption.
    rewrite skipn_length. unfold n.
    pose proof (Nat.div_mod (length msg) bs ltac:(lia)) as D.
    pose proof (Nat.mod_upper_bound (length msg) bs ltac:(lia)) as U. lia.
  Qed.

  (* (5) assembly *)
  Theorem encrypt_is_cfb iv msg b :
    bs <= length iv -> bs <= length b ->
    exists b', encrypt_bs bs E iv (mkst msg b) = Some (mkst (cfb_enc bs E (firstn bs iv) msg) b')
               /\ length b' = length b.
  Proof.
    intros Hiv Hb. unfold encrypt_bs. cbn [data buf].
    replace (length iv <? bs) with false by (symmetry; apply Nat.ltb_ge; lia).
    replace (length b <? bs) with false by (symmetry; apply Nat.ltb_ge; lia).
    cbn [orb].
    destruct (decompose msg) as (bl & tail & Em & Fbl & Lt & Ln). subst msg.
    rewrite <- Ln. clear Ln.
    (* the specification side, on blocks *)
    assert (Hspec : cfb_enc bs E (firstn bs iv) (concat bl ++ tail) =
                    concat (fst (encK (Eb iv) bl)) ++ xorl tail (snd (encK (Eb iv) bl))).
    { unfold cfb_enc. rewrite (cfb_enc_blocks bl _ _ tail Fbl Lt) by lia. rewrite Eb_firstn. reflexivity. }
    rewrite Hspec. clear Hspec.
    (* scratch = first bs bytes ++ rest *)
    assert (Eb0 : wr 0 (Eb iv) b = Eb iv ++ skipn bs b).
    { unfold wr. cbn [firstn app Nat.add]. rewrite Eb_length. reflexivity. }
    rewrite Eb0. clear Eb0.
    assert (Lr : bs + length (skipn bs b) = length b) by (rewrite skipn_length; lia).
    remember (skipn bs b) as brest eqn:Ebr. clear Ebr.
    (* split the blocks at the stride boundary *)
    remember (length bl) as n eqn:En.
    assert (Dn : n = 8 * (n / 8) + n mod 8) by (apply Nat.div_mod; lia).
    assert (Un : n mod 8 < 8) by (apply Nat.mod_upper_bound; lia).
    destruct (firstn_skipn_blocks bl (8 * (n / 8)) Fbl) as [F1 F2].
    assert (L1 : length (firstn (8 * (n / 8)) bl) = 8 * (n / 8)) by (rewrite firstn_length; lia).
    assert (L2 : length (skipn (8 * (n / 8)) bl) = n mod 8) by (rewrite skipn_length; lia).
    pose proof (firstn_skipn (8 * (n / 8)) bl) as Ebl.
    remember (firstn (8 * (n / 8)) bl) as bl1 eqn:E1. remember (skipn (8 * (n / 8)) bl) as bl2 eqn:E2.
    clear E1 E2 En Fbl. subst bl.
    assert (Hk0 : full (Eb iv)) by apply Eb_length.
    rewrite concat_app, <- app_assoc.
    rewrite (enc_loop_spec (n / 8) bl1 [] (concat bl2 ++ tail) (Eb iv) brest F1 L1 Hk0).
    cbn [app]. rewrite encK_app. cbn [fst snd].
    remember (snd (encK (Eb iv) bl1)) as k1 eqn:Ek1.
    assert (Hk1 : full k1) by (subst k1; apply encK_ks_full; exact Hk0).
    rewrite enc_tail_iter by lia. rewrite <- L2.
    pose proof (enc_iter_spec bl2 [] tail k1 brest 0 eq_refl F2 Hk1) as H. cbn [app] in H.
    rewrite H. clear H.
    remember (snd (encK k1 bl2)) as k2 eqn:Ek2.
    assert (Hk2 : full k2) by (subst k2; apply encK_ks_full; exact Hk1).
    assert (Lc2 : length (concat (fst (encK k1 bl2))) = 0 + bs * length bl2).
    { rewrite (concat_full_length bs) by (apply encK_full; assumption). rewrite encK_length. lia. }
    rewrite (enc_rem_spec _ tail k2 brest _ Lc2 ltac:(lia) Hk2). cbn [data buf].
    exists (k2 ++ brest). split.
    - f_equal. f_equal. rewrite concat_app, <- app_assoc. reflexivity.
    - rewrite app_length. unfold fullb in Hk2. lia.
  Qed.

  (* ================= decryption ================= *)

  (* layout of the scratch buffer: tbl content t, next content x; f = headers swapped *)
  Definition lay (f : bool) (t x brest : list N) : list N :=
    if f then x ++ t ++ brest else t ++ x ++ brest.
  Definition offs (f : bool) : nat * nat := if f then (bs, 0) else (0, bs).

  Lemma lay_length f t x brest : length (lay f t x brest) = length t + length x + length brest.
  Proof. destruct f; cbn [lay]; rewrite !app_length; lia. Qed.

  Lemma rd_lay f t x brest : full t -> full x -> rd (fst (offs f)) bs (lay f t x brest) = t.
  Proof.
    intros Ht Hx. destruct f; cbn [offs lay fst].
    - apply rd_at; assumption.
    - apply rd_0; assumption.
  Qed.

  (* (1) one step: the new tbl is written over the old next; the old tbl becomes next *)
  Lemma dec_step_at f pre c post t x brest off :
    length pre = off -> full c -> full t -> full x ->
    dec_step bs E (fst (offs f)) (snd (offs f)) off (mkst (pre ++ c ++ post) (lay f t x brest)) =
    mkst (pre ++ xorl c t ++ post) (lay (negb f) (Eb c) t brest).
  Proof.
    intros Hp Hc Ht Hx. unfold dec_step. cbn [data buf].
    rewrite (skipn_at _ _ _ Hp), (Eb_app _ _ Hc), (rd_at pre c post off bs Hp Hc).
    assert (He : length (Eb c) = bs) by apply Eb_length.
    assert (Hxl : length (xorl c t) = length c) by (unfold fullb in *; rewrite xorl_length, Hc, Ht; lia).
    destruct f; cbn [offs lay fst snd negb].
    - rewrite (wr_0 x (t ++ brest) (Eb c)) by (rewrite He; exact Hx).
      rewrite (rd_at (Eb c) t brest bs bs He Ht).
      rewrite (wr_at pre c post (xorl c t) off Hp) by (symmetry; exact Hxl). reflexivity.
    - rewrite (wr_at t x brest (Eb c) bs Ht) by (rewrite He; exact Hx).
      rewrite (rd_0 t (Eb c ++ brest) bs Ht).
      rewrite (wr_at pre c post (xorl c t) off Hp) by (symmetry; exact Hxl). reflexivity.
  Qed.

  (* (2) iteration *)
  Fixpoint dec_iter (k : nat) (p : dstate) : dstate :=
    match k with
    | O => p
    | S k' => let '((toff, noff), (off, s)) := p in
              dec_iter k' ((noff, toff), (off + bs, dec_step bs E toff noff off s))
    end.

  Lemma dec_stride_iter s : dec_stride bs E s = snd (snd (dec_iter 8 ((0, bs), (0, s)))).
  Proof.
    unfold dec_stride. cbn [dec_iter snd].
    replace (0 * bs) with 0 by lia.
    replace (1 * bs) with (0 + bs) by lia.
    replace (2 * bs) with (0 + bs + bs) by lia.
    replace (3 * bs) with (0 + bs + bs + bs) by lia.
    replace (4 * bs) with (0 + bs + bs + bs + bs) by lia.
    replace (5 * bs) with (0 + bs + bs + bs + bs + bs) by lia.
    replace (6 * bs) with (0 + bs + bs + bs + bs + bs + bs) by lia.
    replace (7 * bs) with (0 + bs + bs + bs + bs + bs + bs + bs) by lia.
    reflexivity.
  Qed.

  Lemma dec_tail_iter k p : k <= 7 -> dec_tail bs E k p = dec_iter k p.
  Proof.
    intros Hk. destruct p as [[toff noff] [off s]]. unfold dec_tail, dec_case.
    do 8 (destruct k as [|k]; [cbn [Nat.leb dec_iter]; reflexivity|]). lia.
  Qed.

  (* (3) block level: plaintext blocks and the keystream block left in tbl; the junk left in next *)
  Fixpoint decK (t : list N) (cl : list (list N)) : list (list N) * list N :=
    match cl with
    | [] => ([], t)
    | c :: r => let (ps, t') := decK (Eb c) r in (xorl c t :: ps, t')
    end.
  Fixpoint junkK (t x : list N) (cl : list (list N)) : list N :=
    match cl with
    | [] => x
    | c :: r => junkK (Eb c) t r
    end.
  Fixpoint flips (f : bool) (n : nat) : bool :=
    match n with O => f | S k => flips (negb f) k end.

  Lemma decK_app t cl1 cl2 :
    decK t (cl1 ++ cl2) =
    (fst (decK t cl1) ++ fst (decK (snd (decK t cl1)) cl2), snd (decK (snd (decK t cl1)) cl2)).
  Proof.
    revert t. induction cl1 as [|c r IH]; intros t; cbn [decK app fst snd].
    - destruct (decK t cl2); reflexivity.
    - rewrite IH. destruct (decK (Eb c) r) as [ps t']. cbn [fst snd app]. reflexivity.
  Qed.

  Lemma junkK_app t x cl1 cl2 :
    junkK t x (cl1 ++ cl2) = junkK (snd (decK t cl1)) (junkK t x cl1) cl2.
  Proof.
    revert t x. induction cl1 as [|c r IH]; intros t x; cbn [junkK decK app snd]; [reflexivity|].
    rewrite IH. destruct (decK (Eb c) r) as [ps t']. reflexivity.
  Qed.

  Lemma decK_t_full t cl : full t -> full (snd (decK t cl)).
  Proof.
    revert t. induction cl as [|c r IH]; intros t Ht; cbn [decK snd]; [exact Ht|].
    specialize (IH (Eb c) (Eb_length _)). destruct (decK (Eb c) r). exact IH.
  Qed.

  Lemma junkK_full t x cl : full t -> full x -> full (junkK t x cl).
  Proof.
    revert t x. induction cl as [|c r IH]; intros t x Ht Hx; cbn [junkK]; [exact Hx|].
    apply IH; [apply Eb_length | exact Ht].
  Qed.

  Lemma decK_full t cl : full t -> Forall full cl -> Forall full (fst (decK t cl)).
  Proof.
    intros Ht Hcl. revert t Ht. induction Hcl as [|c r Hc _ IH]; intros t Ht; cbn [decK fst]; [constructor|].
    specialize (IH (Eb c) (Eb_length _)).
    destruct (decK (Eb c) r). cbn [fst] in *. constructor; [|exact IH].
    unfold fullb in *. rewrite xorl_length, Hc, Ht. lia.
  Qed.

  Lemma decK_length t cl : length (fst (decK t cl)) = length cl.
  Proof.
    revert t. induction cl as [|c r IH]; intros t; cbn [decK fst length]; [reflexivity|].
    specialize (IH (Eb c)). destruct (decK (Eb c) r). cbn [fst length] in *. lia.
  Qed.

  Lemma flips_even f : flips f 8 = f.
  Proof. destruct f; reflexivity. Qed.

  Lemma dec_iter_spec cl : forall f pre post t x brest off,
    length pre = off -> Forall full cl -> full t -> full x ->
    dec_iter (length cl) (offs f, (off, mkst (pre ++ concat cl ++ post) (lay f t x brest))) =
    (offs (flips f (length cl)),
     (off + bs * length cl,
      mkst (pre ++ concat (fst (decK t cl)) ++ post)
           (lay (flips f (length cl)) (snd (decK t cl)) (junkK t x cl) brest))).
  Proof.
    induction cl as [|c r IH]; intros f pre post t x brest off Hp Hcl Ht Hx.
    - cbn [length dec_iter concat decK junkK flips fst snd]. do 2 f_equal. lia.
    - apply Forall_cons_iff in Hcl. destruct Hcl as [Hc Hr].
      cbn [length dec_iter concat decK junkK flips]. rewrite <- app_assoc.
      assert (Hstep : forall s',
        (let '(toff, noff, (off0, s0)) := (offs f, (off, s')) in
         dec_iter (length r) (noff, toff, (off0 + bs, dec_step bs E toff noff off0 s0))) =
        dec_iter (length r) (offs (negb f), (off + bs, dec_step bs E (fst (offs f)) (snd (offs f)) off s')))
        by (intros s'; destruct f; reflexivity).
      rewrite Hstep. clear Hstep.
      rewrite (dec_step_at f pre c (concat r ++ post) t x brest off Hp Hc Ht Hx).
      assert (Hxl : length (xorl c t) = bs) by (unfold fullb in *; rewrite xorl_length, Hc, Ht; lia).
      replace (pre ++ xorl c t ++ concat r ++ post) with ((pre ++ xorl c t) ++ concat r ++ post)
        by (rewrite <- app_assoc; reflexivity).
      rewrite (IH (negb f) (pre ++ xorl c t) post (Eb c) t brest (off + bs))
        by (try rewrite app_length; try apply Eb_length; try assumption; lia).
      destruct (decK (Eb c) r) as [ps t']. cbn [fst snd concat].
      do 2 f_equal; [lia|]. f_equal. rewrite <- !app_assoc. reflexivity.
  Qed.

  Lemma dec_stride_spec cl t x brest :
    Forall full cl -> length cl = 8 -> full t -> full x ->
    dec_stride bs E (mkst (concat cl) (t ++ x ++ brest)) =
    mkst (concat (fst (decK t cl))) (snd (decK t cl) ++ junkK t x cl ++ brest).
  Proof.
    intros Hcl Hlen Ht Hx. rewrite dec_stride_iter. rewrite <- Hlen.
    pose proof (dec_iter_spec cl false [] [] t x brest 0 eq_refl Hcl Ht Hx) as H.
    cbn [app offs lay] in H. rewrite !app_nil_r in H. rewrite H.
    rewrite Hlen, flips_even. reflexivity.
  Qed.

  Lemma dec_loop_spec iters : forall cl done rest t x brest,
    Forall full cl -> length cl = 8 * iters -> full t -> full x ->
    dec_loop bs E iters done (concat cl ++ rest) (t ++ x ++ brest) =
    (done ++ concat (fst (decK t cl)),
     mkst rest (snd (decK t cl) ++ junkK t x cl ++ brest)).
  Proof.
    induction iters as [|it IH]; intros cl done rest t x brest Hcl Hlen Ht Hx.
    - destruct cl; [|cbn in Hlen; lia]. cbn [dec_loop concat decK junkK fst snd app]. rewrite app_nil_r. reflexivity.
    - cbn [dec_loop].
      destruct (firstn_skipn_blocks cl 8 Hcl) as [H1 H2].
      assert (L1 : length (firstn 8 cl) = 8) by (rewrite firstn_length; lia).
      assert (L2 : length (skipn 8 cl) = 8 * it) by (rewrite skipn_length; lia).
      pose proof (firstn_skipn 8 cl) as Ecl.
      remember (firstn 8 cl) as cl1 eqn:E1. remember (skipn 8 cl) as cl2 eqn:E2.
      clear E1 E2 Hcl Hlen. subst cl.
      assert (Lc : length (concat cl1) = 8 * bs)
        by (rewrite (concat_full_length bs _ H1), L1; lia).
      rewrite concat_app, <- app_assoc.
      rewrite (firstn_at _ _ _ Lc), (skipn_at _ _ _ Lc).
      rewrite (dec_stride_spec _ t x brest H1 L1 Ht Hx). cbn [data buf].
      rewrite (IH cl2 _ rest _ _ brest H2 L2 (decK_t_full t _ Ht) (junkK_full t x _ Ht Hx)).
      rewrite decK_app, junkK_app. cbn [fst snd].
      rewrite concat_app. f_equal. symmetry. apply app_assoc.
  Qed.

  Lemma dec_rem_spec f pre tail t x brest off :
    length pre = off -> length tail <= bs -> full t -> full x ->
    dec_rem bs (offs f, (off, mkst (pre ++ tail) (lay f t x brest))) =
    mkst (pre ++ xorl tail t) (lay f t x brest).
  Proof.
    intros Hp Hl Ht Hx. unfold dec_rem.
    replace (offs f) with (fst (offs f), snd (offs f)) by (destruct f; reflexivity).
    cbn [data buf]. rewrite (skipn_at _ _ _ Hp), (rd_lay f t x brest Ht Hx).
    f_equal.
    pose proof (wr_at pre tail [] (xorl tail t) off Hp) as H. rewrite !app_nil_r in H.
    apply H. unfold fullb in Ht. rewrite xorl_length, Ht. lia.
  Qed.

  (* (4) textbook CFB decryption on full blocks ++ short tail *)
  Lemma cfb_dec_aux_nil fuel fb : cfb_dec_aux bs E fuel fb [] = [].
  Proof. destruct fuel; reflexivity. Qed.

  Lemma cfb_dec_blocks cl : forall fuel fb tail,
    Forall full cl -> length tail < bs -> length (concat cl ++ tail) <= fuel ->
    cfb_dec_aux bs E fuel fb (concat cl ++ tail) =
    concat (fst (decK (Eb fb) cl)) ++ xorl tail (snd (decK (Eb fb) cl)).
  Proof.
    induction cl as [|c r IH]; intros fuel fb tail Hcl Ht Hf.
    - cbn [concat app decK fst snd] in *.
      destruct tail as [|t tl]; [rewrite cfb_dec_aux_nil; reflexivity|].
      destruct fuel as [|f]; [cbn in Hf; lia|]. cbn [cfb_dec_aux].
      rewrite firstn_all2 by lia. rewrite skipn_all2 by lia. rewrite cfb_dec_aux_nil, app_nil_r. reflexivity.
    - apply Forall_cons_iff in Hcl. destruct Hcl as [Hc Hr]. cbn [concat] in *. rewrite <- app_assoc in *.
      rewrite app_length in Hf. unfold fullb in Hc.
      destruct fuel as [|f]; [lia|]. cbn [cfb_dec_aux].
      destruct c as [|c0 cr]; [cbn in Hc; lia|].
      change ((c0 :: cr) ++ concat r ++ tail) with ((c0 :: cr) ++ (concat r ++ tail)).
      remember (c0 :: cr) as c eqn:Ec.
      assert (Hne : c ++ concat r ++ tail <> []) by (subst c; discriminate).
      destruct (c ++ concat r ++ tail) as [|z zs] eqn:Ez; [contradiction|]. rewrite <- Ez.
      rewrite (firstn_at c _ bs Hc), (skipn_at c _ bs Hc).
      rewrite (IH f c tail Hr Ht) by lia.
      cbn [decK]. destruct (decK (Eb c) r) as [ps t']. cbn [fst snd concat].
      rewrite <- app_assoc. reflexivity.
  Qed.

  (* (5) assembly *)
  Theorem decrypt_is_cfb iv ct b :
    bs <= length iv -> 2 * bs <= length b ->
    exists b', decrypt_bs bs E iv (mkst ct b) = Some (mkst (cfb_dec bs E (firstn bs iv) ct) b')
               /\ length b' = length b.
  Proof.
    intros Hiv Hb. unfold decrypt_bs. cbn [data buf].
    replace (length iv <? bs) with false by (symmetry; apply Nat.ltb_ge; lia).
    replace (length b <? 2 * bs) with false by (symmetry; apply Nat.ltb_ge; lia).
    cbn [orb].
    destruct (decompose ct) as (cl & tail & Em & Fcl & Lt & Ln). subst ct.
    rewrite <- Ln. clear Ln.
    assert (Hspec : cfb_dec bs E (firstn bs iv) (concat cl ++ tail) =
                    concat (fst (decK (Eb iv) cl)) ++ xorl tail (snd (decK (Eb iv) cl))).
    { unfold cfb_dec. rewrite (cfb_dec_blocks cl _ _ tail Fcl Lt) by lia. rewrite Eb_firstn. reflexivity. }
    rewrite Hspec. clear Hspec.
    (* scratch = tbl ++ next ++ rest *)
    assert (Eb0 : wr 0 (Eb iv) b = Eb iv ++ firstn bs (skipn bs b) ++ skipn bs (skipn bs b)).
    { unfold wr. cbn [firstn app Nat.add]. rewrite Eb_length, firstn_skipn. reflexivity. }
    rewrite Eb0. clear Eb0.
    assert (Hx0 : full (firstn bs (skipn bs b))) by (unfold fullb; rewrite firstn_length, skipn_length; lia).
    assert (Lr : 2 * bs + length (skipn bs (skipn bs b)) = length b) by (rewrite !skipn_length; lia).
    remember (firstn bs (skipn bs b)) as x0 eqn:Ex0. clear Ex0.
    remember (skipn bs (skipn bs b)) as brest eqn:Ebr. clear Ebr.
    remember (length cl) as n eqn:En.
    assert (Dn : n = 8 * (n / 8) + n mod 8) by (apply Nat.div_mod; lia).
    assert (Un : n mod 8 < 8) by (apply Nat.mod_upper_bound; lia).
    destruct (firstn_skipn_blocks cl (8 * (n / 8)) Fcl) as [F1 F2].
    assert (L1 : length (firstn (8 * (n / 8)) cl) = 8 * (n / 8)) by (rewrite firstn_length; lia).
    assert (L2 : length (skipn (8 * (n / 8)) cl) = n mod 8) by (rewrite skipn_length; lia).
    pose proof (firstn_skipn (8 * (n / 8)) cl) as Ecl.
    remember (firstn (8 * (n / 8)) cl) as cl1 eqn:E1. remember (skipn (8 * (n / 8)) cl) as cl2 eqn:E2.
    clear E1 E2 En Fcl. subst cl.
    assert (Hk0 : full (Eb iv)) by apply Eb_length.
    rewrite concat_app, <- app_assoc.
    rewrite (dec_loop_spec (n / 8) cl1 [] (concat cl2 ++ tail) (Eb iv) x0 brest F1 L1 Hk0 Hx0).
    cbn [app]. rewrite decK_app. cbn [fst snd].
    remember (snd (decK (Eb iv) cl1)) as t1 eqn:Et1.
    assert (Ht1 : full t1) by (subst t1; apply decK_t_full; exact Hk0).
    remember (junkK (Eb iv) x0 cl1) as x1 eqn:Ex1.
    assert (Hx1 : full x1) by (subst x1; apply junkK_full; assumption).
    rewrite dec_tail_iter by lia. rewrite <- L2.
    pose proof (dec_iter_spec cl2 false [] tail t1 x1 brest 0 eq_refl F2 Ht1 Hx1) as H.
    cbn [app offs lay] in H. cbn [offs lay] in H.
    change (0, bs, (0, {| data := concat cl2 ++ tail; buf := t1 ++ x1 ++ brest |}))
      with ((0, bs), (0, {| data := concat cl2 ++ tail; buf := t1 ++ x1 ++ brest |})).
    rewrite H. clear H.
    remember (snd (decK t1 cl2)) as t2 eqn:Et2.
    assert (Ht2 : full t2) by (subst t2; apply decK_t_full; exact Ht1).
    remember (junkK t1 x1 cl2) as x2 eqn:Ex2.
    assert (Hx2 : full x2) by (subst x2; apply junkK_full; assumption).
    assert (Lc2 : length (concat (fst (decK t1 cl2))) = 0 + bs * length cl2).
    { rewrite (concat_full_length bs) by (apply decK_full; assumption). rewrite decK_length. lia. }
    rewrite (dec_rem_spec _ _ tail t2 x2 brest _ Lc2 ltac:(lia) Ht2 Hx2). cbn [data buf].
    exists (lay (flips false (length cl2)) t2 x2 brest). split.
    - f_equal. f_equal. rewrite concat_app, <- app_assoc. reflexivity.
    - rewrite lay_length. unfold fullb in Ht2, Hx2. lia.
  Qed.

  (* ================= round trip and lengths (specification level) ================= *)
  Lemma decK_encK bl : forall ks, Forall full bl -> full ks ->
    decK ks (fst (encK ks bl)) = (bl, snd (encK ks bl)).
  Proof.
    induction bl as [|p r IH]; intros ks Hbl Hk; cbn [encK decK fst snd]; [reflexivity|].
    apply Forall_cons_iff in Hbl. destruct Hbl as [Hp Hr].
    specialize (IH (Eb (xorl p ks)) Hr (Eb_length _)).
    destruct (encK (Eb (xorl p ks)) r) as [cs k']. cbn [fst snd decK] in *.
    rewrite IH. rewrite xorl_invol by (unfold fullb in *; lia). reflexivity.
  Qed.

  Theorem cfb_roundtrip fb msg : cfb_dec bs E fb (cfb_enc bs E fb msg) = msg.
  Proof.
    destruct (decompose msg) as (bl & tail & Em & Fbl & Lt & _). subst msg.
    unfold cfb_enc. rewrite (cfb_enc_blocks bl _ fb tail Fbl Lt) by lia.
    assert (Hk : full (Eb fb)) by apply Eb_length.
    pose proof (encK_full (Eb fb) bl Hk Fbl) as Fcs.
    pose proof (encK_ks_full (Eb fb) bl Hk) as Hk'.
    assert (Lt' : length (xorl tail (snd (encK (Eb fb) bl))) < bs)
      by (rewrite xorl_length; unfold fullb in Hk'; lia).
    unfold cfb_dec. rewrite (cfb_dec_blocks _ _ fb _ Fcs Lt') by lia.
    rewrite (decK_encK bl (Eb fb) Fbl Hk). cbn [fst snd].
    rewrite xorl_invol by (unfold fullb in Hk'; lia). reflexivity.
  Qed.

  Theorem cfb_enc_length fb msg : length (cfb_enc bs E fb msg) = length msg.
  Proof.
    destruct (decompose msg) as (bl & tail & Em & Fbl & Lt & _). subst msg.
    unfold cfb_enc. rewrite (cfb_enc_blocks bl _ fb tail Fbl Lt) by lia.
    assert (Hk : full (Eb fb)) by apply Eb_length.
    pose proof (encK_ks_full (Eb fb) bl Hk) as Hk'. unfold fullb in Hk'.
    rewrite !app_length, xorl_length, (concat_full_length bs _ (encK_full _ _ Hk Fbl)),
      (concat_full_length bs _ Fbl), encK_length. lia.
  Qed.

  Theorem cfb_dec_length fb ct : length (cfb_dec bs E fb ct) = length ct.
  Proof.
    destruct (decompose ct) as (cl & tail & Em & Fcl & Lt & _). subst ct.
    unfold cfb_dec. rewrite (cfb_dec_blocks cl _ fb tail Fcl Lt) by lia.
    assert (Hk : full (Eb fb)) by apply Eb_length.
    pose proof (decK_t_full (Eb fb) cl Hk) as Hk'. unfold fullb in Hk'.
    rewrite !app_length, xorl_length, (concat_full_length bs _ (decK_full _ _ Hk Fcl)),
      (concat_full_length bs _ Fcl), decK_length. lia.
  Qed.

  Lemma cfb_enc_nil fb : cfb_enc bs E fb [] = [].
  Proof. reflexivity. Qed.
  Lemma cfb_dec_nil fb : cfb_dec bs E fb [] = [].
  Proof. reflexivity. Qed.

  (* ================= crypto/cipher's CFB stream is textbook CFB ================= *)
  Lemma xorl_firstn_l : forall a k n, length k <= n -> xorl (firstn n a) k = xorl a k.
  Proof.
    induction a as [|x a IH]; intros k n Hk.
    - rewrite firstn_nil. reflexivity.
    - destruct k as [|y k]; [rewrite !xorl_nil_r; reflexivity|].
      destruct n as [|n]; [cbn in Hk; lia|]. cbn [firstn xorl]. rewrite IH by (cbn in Hk; lia). reflexivity.
  Qed.

  Lemma std_cfb_loop_nil fuel dec next out used : std_cfb_loop bs E fuel dec next out used [] = [].
  Proof. destruct fuel; reflexivity. Qed.

  Lemma wr_all d next : length d = length next -> wr 0 d next = d.
  Proof.
    intros H. unfold wr. cbn [firstn app Nat.add]. rewrite H, skipn_all, app_nil_r. reflexivity.
  Qed.

  Lemma std_enc_loop fuel : forall next out src,
    full next -> full out -> length src <= fuel ->
    std_cfb_loop bs E fuel false next out bs src = cfb_enc_aux bs E fuel next src.
  Proof.
    induction fuel as [|f IH]; intros next out src Hn Ho Hf; [reflexivity|].
    cbn [std_cfb_loop cfb_enc_aux]. destruct src as [|z zs]; [reflexivity|].
    remember (z :: zs) as m eqn:Em.
    unfold fullb in Ho, Hn. rewrite Ho, Nat.eqb_refl. cbn [skipn Nat.add].
    rewrite (xorl_firstn_l m (Eb next) bs) by (rewrite Eb_length; lia).
    set (d := xorl m (Eb next)).
    assert (Ld : length d = Nat.min (length m) bs) by (unfold d; rewrite xorl_length, Eb_length; reflexivity).
    f_equal.
    destruct (Nat.le_gt_cases bs (length m)) as [Hge | Hlt].
    - assert (Ldb : length d = bs) by lia. rewrite Ldb.
      rewrite wr_all by lia.
      apply IH; [exact Ldb | apply Eb_length |].
      rewrite skipn_length. assert (0 < length m) by (subst m; cbn; lia). lia.
    - rewrite (skipn_all2 m) by lia. rewrite (skipn_all2 m) by lia.
      rewrite std_cfb_loop_nil, cfb_enc_aux_nil. reflexivity.
  Qed.

  Lemma std_dec_loop fuel : forall next out src,
    full next -> full out -> length src <= fuel ->
    std_cfb_loop bs E fuel true next out bs src = cfb_dec_aux bs E fuel next src.
  Proof.
    induction fuel as [|f IH]; intros next out src Hn Ho Hf; [reflexivity|].
    cbn [std_cfb_loop cfb_dec_aux]. destruct src as [|z zs]; [reflexivity|].
    remember (z :: zs) as m eqn:Em.
    unfold fullb in Ho, Hn. rewrite Ho, Nat.eqb_refl. cbn [skipn Nat.add].
    rewrite (xorl_firstn_l m (Eb next) bs) by (rewrite Eb_length; lia).
    set (d := xorl m (Eb next)).
    assert (Ld : length d = Nat.min (length m) bs) by (unfold d; rewrite xorl_length, Eb_length; reflexivity).
    f_equal. rewrite Nat.sub_0_r, Hn.
    destruct (Nat.le_gt_cases bs (length m)) as [Hge | Hlt].
    - assert (Ldb : length d = bs) by lia. rewrite Ldb.
      rewrite Nat.min_l by lia.
      rewrite wr_all by (rewrite firstn_length; lia).
      apply IH; [unfold fullb; rewrite firstn_length; lia | apply Eb_length |].
      rewrite skipn_length. assert (0 < length m) by (subst m; cbn; lia). lia.
    - rewrite (skipn_all2 m) by lia. rewrite (skipn_all2 m) by lia.
      rewrite std_cfb_loop_nil, cfb_dec_aux_nil. reflexivity.
  Qed.

  Theorem std_cfb_is_textbook iv msg :
    length iv = bs ->
    std_cfb bs E false iv msg = Some (cfb_enc bs E iv msg) /\
    std_cfb bs E true iv msg = Some (cfb_dec bs E iv msg).
  Proof.
    intros Hiv. unfold std_cfb. rewrite Hiv, Nat.eqb_refl. split; f_equal.
    - apply std_enc_loop; [exact Hiv | apply repeat_length | lia].
    - apply std_dec_loop; [exact Hiv | apply repeat_length | lia].
  Qed.
End Generic.

(* ---------- stream cipher and none ---------- *)
Lemma stream_from_involution ks : forall msg i, stream_from ks i (stream_from ks i msg) = msg.
Proof.
  induction msg as [|b r IH]; intros i; cbn [stream_from]; [reflexivity|].
  rewrite IH. f_equal. rewrite N.lxor_assoc, N.lxor_nilpotent, N.lxor_0_r. reflexivity.
Qed.

Lemma stream_from_length ks : forall msg i, length (stream_from ks i msg) = length msg.
Proof. induction msg as [|b r IH]; intros i; cbn [stream_from length]; [reflexivity|]. rewrite IH. reflexivity. Qed.

Lemma stream_involution ks msg : stream_decrypt ks (stream_encrypt ks msg) = msg.
Proof. apply stream_from_involution. Qed.

(* ================= the two supported block sizes; cryptor instances ================= *)
Definition supported (bsz : nat) : Prop := bsz = 8 \/ bsz = 16.
Definition cr_ok (bsz : nat) (c : cryptor) : Prop :=
  bsz <= length (encbuf c) /\ 2 * bsz <= length (decbuf c).

Lemma supported_pos bsz : supported bsz -> 0 < bsz.
Proof. intros [-> | ->]; lia. Qed.

Lemma encrypt_supported bsz E iv msg b :
  supported bsz -> bsz <= length iv -> bsz <= length b ->
  exists b', encrypt bsz E iv (mkst msg b) = Some (mkst (cfb_enc bsz E (firstn bsz iv) msg) b')
             /\ length b' = length b.
Proof.
  intros [-> | ->] Hiv Hb.
  - exact (encrypt_is_cfb 8 E ltac:(lia) iv msg b Hiv Hb).
  - exact (encrypt_is_cfb 16 E ltac:(lia) iv msg b Hiv Hb).
Qed.

Lemma decrypt_supported bsz E iv ct b :
  supported bsz -> bsz <= length iv -> 2 * bsz <= length b ->
  exists b', decrypt bsz E iv (mkst ct b) = Some (mkst (cfb_dec bsz E (firstn bsz iv) ct) b')
             /\ length b' = length b.
Proof.
  intros [-> | ->] Hiv Hb.
  - exact (decrypt_is_cfb 8 E ltac:(lia) iv ct b Hiv Hb).
  - exact (decrypt_is_cfb 16 E ltac:(lia) iv ct b Hiv Hb).
Qed.

Lemma roundtrip_supported bsz E iv msg se sd :
  supported bsz -> bsz <= length iv -> bsz <= length se -> 2 * bsz <= length sd ->
  exists s1 s2, encrypt bsz E iv (mkst msg se) = Some s1 /\
                decrypt bsz E iv (mkst (data s1) sd) = Some s2 /\
                data s2 = msg /\ length (data s1) = length msg.
Proof.
  intros Hs Hiv Hse Hsd.
  destruct (encrypt_supported bsz E iv msg se Hs Hiv Hse) as (b1 & H1 & _).
  destruct (decrypt_supported bsz E iv (cfb_enc bsz E (firstn bsz iv) msg) sd Hs Hiv Hsd) as (b2 & H2 & _).
  eexists; eexists. split; [exact H1|]. cbn [data]. split; [exact H2|]. cbn [data].
  split; [apply cfb_roundtrip | apply cfb_enc_length]; apply supported_pos; exact Hs.
Qed.

Lemma length_supported bsz E iv msg se sd :
  supported bsz -> bsz <= length iv -> bsz <= length se -> 2 * bsz <= length sd ->
  exists s1 s2, encrypt bsz E iv (mkst msg se) = Some s1 /\ decrypt bsz E iv (mkst msg sd) = Some s2 /\
                length (data s1) = length msg /\ length (data s2) = length msg.
Proof.
  intros Hs Hiv Hse Hsd.
  destruct (encrypt_supported bsz E iv msg se Hs Hiv Hse) as (b1 & H1 & _).
  destruct (decrypt_supported bsz E iv msg sd Hs Hiv Hsd) as (b2 & H2 & _).
  eexists; eexists. split; [exact H1|]. split; [exact H2|]. cbn [data].
  split; [apply cfb_enc_length | apply cfb_dec_length]; apply supported_pos; exact Hs.
Qed.

Lemma cstep_spec bsz E iv c o :
  supported bsz -> bsz <= length iv -> cr_ok bsz c ->
  exists c', cstep bsz E iv c o = Some (cfb_op bsz E iv o, c') /\ cr_ok bsz c'.
Proof.
  intros Hs Hiv [He Hd]. destruct o as [m | m]; cbn [cstep cfb_op].
  - destruct (encrypt_supported bsz E iv m (encbuf c) Hs Hiv He) as (b' & H & L). rewrite H. cbn [data buf].
    eexists. split; [reflexivity|]. split; cbn [encbuf decbuf]; lia.
  - destruct (decrypt_supported bsz E iv m (decbuf c) Hs Hiv Hd) as (b' & H & L). rewrite H. cbn [data buf].
    eexists. split; [reflexivity|]. split; cbn [encbuf decbuf]; lia.
Qed.

Lemma crun_spec bsz E iv ops : forall c,
  supported bsz -> bsz <= length iv -> cr_ok bsz c ->
  exists c', crun bsz E iv c ops = Some (map (cfb_op bsz E iv) ops, c') /\ cr_ok bsz c'.
Proof.
  induction ops as [|o r IH]; intros c Hs Hiv Hc; cbn [crun map].
  - exists c. split; [reflexivity | exact Hc].
  - destruct (cstep_spec bsz E iv c o Hs Hiv Hc) as (c1 & H1 & Hc1). rewrite H1.
    destruct (IH c1 Hs Hiv Hc1) as (c2 & H2 & Hc2). rewrite H2.
    exists c2. split; [reflexivity | exact Hc2].
Qed.

Lemma nth_map_nil (f : list N -> list N) (l : list (list N)) :
  f [] = [] -> forall j, nth j (map f l) [] = f (nth j l []).
Proof.
  intros Hf. induction l as [|x l IH]; intros [|j]; cbn [map nth]; try (symmetry; exact Hf); try reflexivity.
  apply IH.
Qed.

(* packets encrypted in order by one instance; any selection of them (any order, losses,
   duplicates) decrypted by another instance in any scratch state gives the selected plaintexts *)
Lemma any_order bsz E iv (ms : list (list N)) (sel : list nat) cs cr :
  supported bsz -> bsz <= length iv -> cr_ok bsz cs -> cr_ok bsz cr ->
  exists cts cs' pts cr',
    crun bsz E iv cs (map Enc ms) = Some (cts, cs') /\
    crun bsz E iv cr (map (fun j => Dec (nth j cts [])) sel) = Some (pts, cr') /\
    pts = map (fun j => nth j ms []) sel.
Proof.
  intros Hs Hiv Hcs Hcr.
  destruct (crun_spec bsz E iv (map Enc ms) cs Hs Hiv Hcs) as (cs' & H1 & _).
  set (cts := map (cfb_op bsz E iv) (map Enc ms)) in *.
  destruct (crun_spec bsz E iv (map (fun j => Dec (nth j cts [])) sel) cr Hs Hiv Hcr) as (cr' & H2 & _).
  exists cts, cs'. eexists. exists cr'. split; [exact H1|]. split; [exact H2|].
  rewrite map_map. apply map_ext. intros j. cbn [cfb_op].
  unfold cts. rewrite map_map. cbn [cfb_op].
  rewrite (nth_map_nil (fun m => cfb_enc bsz E (firstn bsz iv) m) ms eq_refl j).
  apply cfb_roundtrip. apply supported_pos; exact Hs.
Qed.

(* the packet code is byte-identical to the stock CFB stream keyed with the first IV block *)
Lemma equals_stock_cfb bsz E iv msg se sd :
  supported bsz -> bsz <= length iv -> bsz <= length se -> 2 * bsz <= length sd ->
  option_map data (encrypt bsz E iv (mkst msg se)) = std_cfb bsz E false (firstn bsz iv) msg /\
  option_map data (decrypt bsz E iv (mkst msg sd)) = std_cfb bsz E true (firstn bsz iv) msg.
Proof.
  intros Hs Hiv Hse Hsd.
  destruct (encrypt_supported bsz E iv msg se Hs Hiv Hse) as (b1 & H1 & _).
  destruct (decrypt_supported bsz E iv msg sd Hs Hiv Hsd) as (b2 & H2 & _).
  rewrite H1, H2. cbn [option_map data].
  assert (Hl : length (firstn bsz iv) = bsz) by (rewrite firstn_length; lia).
  destruct (std_cfb_is_textbook bsz E (supported_pos bsz Hs) (firstn bsz iv) msg Hl) as [Se Sd].
  rewrite Se, Sd. split; reflexivity.
Qed.

(* ================= the unsafe uint64 xor is the bytewise xor ================= *)
Definition is_byte (x : N) : Prop := (x < 256)%N.

Lemma land_lxor_distr a b c : N.land (N.lxor a b) c = N.lxor (N.land a c) (N.land b c).
Proof.
  apply N.bits_inj. intros n. rewrite !N.land_spec, !N.lxor_spec, !N.land_spec.
  destruct (N.testbit a n), (N.testbit b n), (N.testbit c n); reflexivity.
Qed.

Lemma lxor_mod256 a b : (N.lxor a b mod 256 = N.lxor (a mod 256) (b mod 256))%N.
Proof.
  change 256%N with (2 ^ 8)%N. rewrite <- !N.land_ones. apply land_lxor_distr.
Qed.

Lemma lxor_div256 a b : (N.lxor a b / 256 = N.lxor (a / 256) (b / 256))%N.
Proof.
  change 256%N with (2 ^ 8)%N. rewrite <- !N.shiftr_div_pow2. apply N.shiftr_lxor.
Qed.

Lemma byte_cons_mod x L : is_byte x -> ((x + 256 * L) mod 256 = x)%N.
Proof.
  intros Hx. rewrite N.mul_comm, N.mod_add by discriminate. apply N.mod_small. exact Hx.
Qed.

Lemma byte_cons_div x L : is_byte x -> ((x + 256 * L) / 256 = L)%N.
Proof.
  intros Hx. rewrite N.mul_comm, N.div_add by discriminate. rewrite N.div_small by exact Hx. reflexivity.
Qed.

Lemma le_xor_bytewise : forall a b,
  length a = length b -> Forall is_byte a -> Forall is_byte b ->
  le_store (length a) (N.lxor (le_load a) (le_load b)) = xorl a b.
Proof.
  induction a as [|x a IH]; intros [|y b] Hl Ha Hb; cbn [length] in Hl; try discriminate; [reflexivity|].
  apply Forall_cons_iff in Ha. destruct Ha as [Hx Ha].
  apply Forall_cons_iff in Hb. destruct Hb as [Hy Hb].
  cbn [length le_store le_load xorl].
  rewrite lxor_mod256, lxor_div256, !byte_cons_mod, !byte_cons_div by assumption.
  f_equal. apply IH; [lia | assumption | assumption].
Qed.

Lemma xorl_rev : forall a b, length a = length b -> xorl (rev a) (rev b) = rev (xorl a b).
Proof.
  assert (Happ : forall a1 b1 a2 b2, length a1 = length b1 ->
            xorl (a1 ++ a2) (b1 ++ b2) = xorl a1 b1 ++ xorl a2 b2).
  { induction a1 as [|x a1 IH]; intros [|y b1] a2 b2 H; cbn [length] in H; try discriminate; [reflexivity|].
    cbn [app xorl]. rewrite IH by lia. reflexivity. }
  induction a as [|x a IH]; intros [|y b] Hl; cbn [length] in Hl; try discriminate; [reflexivity|].
  cbn [rev xorl]. rewrite Happ by (rewrite !rev_length; lia). rewrite IH by lia. reflexivity.
Qed.

Lemma u64_xor_bytewise s t :
  length s = 8 -> length t = 8 -> Forall is_byte s -> Forall is_byte t ->
  xor_u64_le s t = xorl s t /\ xor_u64_be s t = xorl s t.
Proof.
  intros Ls Lt Hs Ht. unfold xor_u64_le, xor_u64_be. split.
  - rewrite <- Ls. apply le_xor_bytewise; [lia | assumption | assumption].
  - replace 8 with (length (rev s)) by (rewrite rev_length; exact Ls).
    rewrite le_xor_bytewise.
    + rewrite xorl_rev by lia. apply rev_involutive.
    + rewrite !rev_length. lia.
    + apply Forall_rev. exact Hs.
    + apply Forall_rev. exact Ht.
Qed.

(* ================= the factory ================= *)
Lemma cid_bs_supported c : supported (cid_bs c).
Proof. destruct c; [right | right | right | left | left]; reflexivity. Qed.

Section FactoryProofs.
  Variable BC : cid -> list N -> list N -> list N.
  Variable KS : list N -> list N -> nat -> N.

  Lemma irun_block c k iv ops : forall cr outs cr',
    crun (cid_bs c) (BC c k) iv cr ops = Some (outs, cr') ->
    irun BC KS (IBlock c k iv cr) ops = Some (outs, IBlock c k iv cr').
  Proof.
    induction ops as [|o r IH]; intros cr outs cr' H; cbn [crun irun istep] in *.
    - injection H as <- <-. reflexivity.
    - destruct (cstep (cid_bs c) (BC c k) iv cr o) as [[out cr1]|]; [|discriminate].
      destruct (crun (cid_bs c) (BC c k) iv cr1 r) as [[outs1 cr2]|] eqn:Hr; [|discriminate].
      injection H as <- <-. rewrite (IH cr1 outs1 cr2 Hr). reflexivity.
  Qed.

  Lemma used_key_prefix klen key k :
    used_key klen key = Some k ->
    k = firstn (length k) key /\ length k <= length key /\
    match klen with Some n => length k = n | None => k = key end.
  Proof.
    destruct klen as [n|]; cbn [used_key].
    - destruct (n <=? length key) eqn:Hn; [|discriminate]. intros [= <-].
      apply Nat.leb_le in Hn. rewrite firstn_length, Nat.min_l by exact Hn. repeat split; lia.
    - destruct ((length key =? 16) || (length key =? 24) || (length key =? 32)); [|discriminate].
      intros [= <-]. rewrite firstn_all. repeat split; lia.
  Qed.

  Lemma factory_block_is_cfb name key iv c klen k :
    factory_kind name = FBlock c klen -> used_key klen key = Some k -> cid_bs c <= length iv ->
    exists i, new_crypt name key iv = Some i /\
      forall ops, exists i',
        irun BC KS i ops = Some (map (cfb_op (cid_bs c) (BC c k) iv) ops, i').
  Proof.
    intros Hk Hu Hiv. unfold new_crypt. rewrite Hk, Hu. eexists. split; [reflexivity|].
    intros ops.
    destruct (crun_spec (cid_bs c) (BC c k) iv ops
                (mkcr (repeat 0%N (cid_bs c)) (repeat 0%N (2 * cid_bs c)))
                (cid_bs_supported c) Hiv) as (cr' & Hrun & _).
    { split; cbn [encbuf decbuf]; rewrite repeat_length; lia. }
    eexists. apply irun_block. exact Hrun.
  Qed.

  (* only key[:n] and iv[:bs] matter *)
  Lemma factory_prefix_only name c klen k key1 iv1 key2 iv2 i1 i2 ops :
    factory_kind name = FBlock c klen ->
    used_key klen key1 = Some k -> used_key klen key2 = Some k ->
    cid_bs c <= length iv1 -> cid_bs c <= length iv2 ->
    firstn (cid_bs c) iv1 = firstn (cid_bs c) iv2 ->
    new_crypt name key1 iv1 = Some i1 -> new_crypt name key2 iv2 = Some i2 ->
    option_map fst (irun BC KS i1 ops) = option_map fst (irun BC KS i2 ops).
  Proof.
    intros Hk Hu1 Hu2 Hl1 Hl2 Hiv H1 H2.
    destruct (factory_block_is_cfb name key1 iv1 c klen k Hk Hu1 Hl1) as (j1 & N1 & R1).
    destruct (factory_block_is_cfb name key2 iv2 c klen k Hk Hu2 Hl2) as (j2 & N2 & R2).
    rewrite H1 in N1. injection N1 as <-. rewrite H2 in N2. injection N2 as <-.
    destruct (R1 ops) as (i1' & E1). destruct (R2 ops) as (i2' & E2). rewrite E1, E2. cbn [option_map fst].
    f_equal. apply map_ext. intros [m|m]; cbn [cfb_op]; rewrite Hiv; reflexivity.
  Qed.

  (* short key: the factory panics; short iv: the first call panics *)
  Lemma factory_rejects name key iv c klen :
    factory_kind name = FBlock c klen ->
    (used_key klen key = None -> new_crypt name key iv = None) /\
    (forall k o r, used_key klen key = Some k -> length iv < cid_bs c ->
       exists i, new_crypt name key iv = Some i /\ irun BC KS i (o :: r) = None).
  Proof.
    intros Hk. unfold new_crypt. rewrite Hk. split.
    - intros ->. reflexivity.
    - intros k o r -> Hiv. eexists. split; [reflexivity|].
      cbn [irun istep]. apply Nat.ltb_lt in Hiv.
      destruct c, o; cbn [cid_bs] in *; cbn [cstep encrypt decrypt];
        unfold encrypt8, encrypt16, decrypt8, decrypt16, encrypt_bs, decrypt_bs; cbn [data buf];
        rewrite Hiv; reflexivity.
  Qed.

  Lemma factory_stream_none name key iv :
    (factory_kind name = FStream -> 32 <= length key ->
       exists nonce, length nonce = 8 /\ firstn (Nat.min 8 (length iv)) nonce = firstn 8 iv /\
         new_crypt name key iv = Some (IStream (firstn 32 key) nonce) /\
         forall ops, irun BC KS (IStream (firstn 32 key) nonce) ops =
                     Some (map (fun o => stream_encrypt (KS (firstn 32 key) nonce) (op_msg o)) ops,
                           IStream (firstn 32 key) nonce)) /\
    (factory_kind name = FNone ->
       new_crypt name key iv = Some INone /\
       forall ops, irun BC KS INone ops = Some (map op_msg ops, INone)).
  Proof.
    split.
    - intros Hk Hlen. exists (firstn 8 (iv ++ repeat 0%N 8)).
      split; [rewrite firstn_length, app_length, repeat_length; lia|].
      split.
      { rewrite firstn_firstn. replace (Nat.min (Nat.min 8 (length iv)) 8) with (Nat.min 8 (length iv)) by lia.
        rewrite firstn_app.
        replace (Nat.min 8 (length iv) - length iv) with 0 by lia. rewrite firstn_O, app_nil_r.
        destruct (Nat.le_gt_cases 8 (length iv)).
        - rewrite Nat.min_l by lia. reflexivity.
        - rewrite Nat.min_r by lia. rewrite firstn_all. symmetry. apply firstn_all2. lia. }
      split.
      { unfold new_crypt. rewrite Hk. replace (32 <=? length key) with true by (symmetry; apply Nat.leb_le; exact Hlen). reflexivity. }
      induction ops as [|o r IH]; cbn [irun istep map]; [reflexivity|]. rewrite IH. reflexivity.
    - intros Hk. split; [unfold new_crypt; rewrite Hk; reflexivity|].
      induction ops as [|o r IH]; cbn [irun istep map]; [reflexivity|]. rewrite IH. reflexivity.
  Qed.
End FactoryProofs.

(* ================= the frame: a message inside a larger buffer ================= *)
Lemma split3 (mem : list N) off n :
  off + n <= length mem ->
  mem = firstn off mem ++ rd off n mem ++ skipn (off + n) mem /\
  length (firstn off mem) = off /\ length (rd off n mem) = n.
Proof.
  intros H. unfold rd. split; [|split].
  - rewrite <- (skipn_skipn_add mem off n). rewrite firstn_skipn, firstn_skipn. reflexivity.
  - rewrite firstn_length. lia.
  - rewrite firstn_length, skipn_length. lia.
Qed.

Lemma wr_frame (mem out : list N) off n :
  off + n <= length mem -> length out = n ->
  length (wr off out mem) = length mem /\
  firstn off (wr off out mem) = firstn off mem /\
  skipn (off + n) (wr off out mem) = skipn (off + n) mem /\
  rd off n (wr off out mem) = out.
Proof.
  intros H Ho. destruct (split3 mem off n H) as (Em & Lp & Lw).
  remember (firstn off mem) as pre eqn:Epre. remember (rd off n mem) as w eqn:Ew0.
  remember (skipn (off + n) mem) as post eqn:Epost. clear Epre Ew0.
  assert (Ew : wr off out mem = pre ++ out ++ post).
  { rewrite Em. apply wr_at; [exact Lp | lia]. }
  rewrite Ew. repeat split.
  - rewrite Em. rewrite !app_length. lia.
  - apply firstn_at. exact Lp.
  - rewrite app_assoc. apply skipn_at. rewrite app_length. lia.
  - apply rd_at; assumption.
Qed.

Lemma rd_outside (a b : list N) off n off2 n2 :
  length a = length b -> firstn off a = firstn off b -> skipn (off + n) a = skipn (off + n) b ->
  off2 + n2 <= off \/ off + n <= off2 ->
  rd off2 n2 a = rd off2 n2 b.
Proof.
  intros Hl Hf Hs [H | H]; unfold rd.
  - (* before the window *)
    rewrite <- (firstn_skipn off a), <- (firstn_skipn off b), Hf.
    destruct (Nat.le_gt_cases off (length b)) as [Hb | Hb].
    + assert (Lb : length (firstn off b) = off) by (rewrite firstn_length; lia).
      rewrite !skipn_app, !firstn_app, !skipn_length, Lb.
      replace (off2 - off) with 0 by lia. cbn [skipn].
      replace (n2 - (off - off2)) with 0 by lia. rewrite !firstn_O. reflexivity.
    + rewrite (skipn_all2 a) by lia. rewrite (skipn_all2 b) by lia. reflexivity.
  - (* behind the window *)
    replace off2 with ((off + n) + (off2 - (off + n))) by lia.
    rewrite <- (skipn_skipn_add a (off + n) (off2 - (off + n))).
    rewrite <- (skipn_skipn_add b (off + n) (off2 - (off + n))). rewrite Hs. reflexivity.
Qed.

Lemma encrypt_at_frame bsz E iv mem off n scratch :
  supported bsz -> bsz <= length iv -> bsz <= length scratch -> off + n <= length mem ->
  exists mem' scratch',
    encrypt_at bsz E iv mem off n scratch = Some (mem', scratch') /\
    length scratch' = length scratch /\ length mem' = length mem /\
    firstn off mem' = firstn off mem /\ skipn (off + n) mem' = skipn (off + n) mem /\
    rd off n mem' = cfb_enc bsz E (firstn bsz iv) (rd off n mem).
Proof.
  intros Hs Hiv Hb Hm. unfold encrypt_at.
  replace (length mem <? off + n) with false by (symmetry; apply Nat.ltb_ge; lia).
  destruct (encrypt_supported bsz E iv (rd off n mem) scratch Hs Hiv Hb) as (b' & He & Lb).
  rewrite He. cbn [data buf]. eexists; eexists. split; [reflexivity|]. split; [exact Lb|].
  apply wr_frame; [exact Hm|].
  rewrite (cfb_enc_length bsz E (supported_pos bsz Hs)). apply (split3 mem off n Hm).
Qed.

Lemma decrypt_at_frame bsz E iv mem off n scratch :
  supported bsz -> bsz <= length iv -> 2 * bsz <= length scratch -> off + n <= length mem ->
  exists mem' scratch',
    decrypt_at bsz E iv mem off n scratch = Some (mem', scratch') /\
    length scratch' = length scratch /\ length mem' = length mem /\
    firstn off mem' = firstn off mem /\ skipn (off + n) mem' = skipn (off + n) mem /\
    rd off n mem' = cfb_dec bsz E (firstn bsz iv) (rd off n mem).
Proof.
  intros Hs Hiv Hb Hm. unfold decrypt_at.
  replace (length mem <? off + n) with false by (symmetry; apply Nat.ltb_ge; lia).
  destruct (decrypt_supported bsz E iv (rd off n mem) scratch Hs Hiv Hb) as (b' & He & Lb).
  rewrite He. cbn [data buf]. eexists; eexists. split; [reflexivity|]. split; [exact Lb|].
  apply wr_frame; [exact Hm|].
  rewrite (cfb_dec_length bsz E (supported_pos bsz Hs)). apply (split3 mem off n Hm).
Qed.

(* another packet in the same buffer is not touched, whichever of the two calls runs *)
Lemma neighbour_untouched bsz E iv mem off n se sd off2 n2 :
  supported bsz -> bsz <= length iv -> bsz <= length se -> 2 * bsz <= length sd ->
  off + n <= length mem -> off2 + n2 <= off \/ off + n <= off2 ->
  exists me be md bd,
    encrypt_at bsz E iv mem off n se = Some (me, be) /\
    decrypt_at bsz E iv mem off n sd = Some (md, bd) /\
    rd off2 n2 me = rd off2 n2 mem /\ rd off2 n2 md = rd off2 n2 mem.
Proof.
  intros Hs Hiv Hse Hsd Hm Hd.
  destruct (encrypt_at_frame bsz E iv mem off n se Hs Hiv Hse Hm) as (me & be & He & _ & Le & Fe & Se & _).
  destruct (decrypt_at_frame bsz E iv mem off n sd Hs Hiv Hsd Hm) as (md & bd & Hdd & _ & Ld & Fd & Sd & _).
  exists me, be, md, bd. repeat split; try assumption.
  - apply (rd_outside me mem off n off2 n2 Le Fe Se Hd).
  - apply (rd_outside md mem off n off2 n2 Ld Fd Sd Hd).
Qed.

(* the two directions of one instance have disjoint footprints *)
Lemma duplex_footprints bsz E iv c c' m :
  (encbuf c = encbuf c' ->
     option_map fst (cstep bsz E iv c (Enc m)) = option_map fst (cstep bsz E iv c' (Enc m)) /\
     (forall out c1, cstep bsz E iv c (Enc m) = Some (out, c1) -> decbuf c1 = decbuf c)) /\
  (decbuf c = decbuf c' ->
     option_map fst (cstep bsz E iv c (Dec m)) = option_map fst (cstep bsz E iv c' (Dec m)) /\
     (forall out c1, cstep bsz E iv c (Dec m) = Some (out, c1) -> encbuf c1 = encbuf c)).
Proof.
  split; intros H; cbn [cstep]; rewrite <- H.
  - split.
    + destruct (encrypt bsz E iv (mkst m (encbuf c))); reflexivity.
    + intros out c1. destruct (encrypt bsz E iv (mkst m (encbuf c))); [|discriminate].
      intros [= _ <-]. reflexivity.
  - split.
    + destruct (decrypt bsz E iv (mkst m (decbuf c))); reflexivity.
    + intros out c1. destruct (decrypt bsz E iv (mkst m (decbuf c))); [|discriminate].
      intros [= _ <-]. reflexivity.
Qed.

(* ================= any block-cipher instance; direct constructors; round trip of instances ================= *)
Section InstProofs.
  Variable BC : cid -> list N -> list N -> list N.
  Variable KS : list N -> list N -> nat -> N.

  Lemma iblock_is_cfb c k iv cr :
    cr_ok (cid_bs c) cr -> cid_bs c <= length iv ->
    forall ops, exists i',
      irun BC KS (IBlock c k iv cr) ops = Some (map (cfb_op (cid_bs c) (BC c k) iv) ops, i').
  Proof.
    intros Hc Hiv ops.
    destruct (crun_spec (cid_bs c) (BC c k) iv ops cr (cid_bs_supported c) Hiv Hc) as (cr' & Hrun & _).
    eexists. apply irun_block. exact Hrun.
  Qed.

  Lemma direct_is_cfb ctor key iv c k iv' cr :
    new_direct ctor key iv = Some (IBlock c k iv' cr) -> cid_bs c <= length iv ->
    k = key /\ iv' = iv /\
    forall ops, exists i',
      irun BC KS (IBlock c k iv' cr) ops = Some (map (cfb_op (cid_bs c) (BC c key) iv) ops, i').
  Proof.
    unfold new_direct. intros H Hiv.
    assert (G : forall c0, Some (IBlock c0 key iv (mkcr (repeat 0%N (cid_bs c0)) (repeat 0%N (2 * cid_bs c0))))
                           = Some (IBlock c k iv' cr) ->
                k = key /\ iv' = iv /\ cr_ok (cid_bs c) cr).
    { intros c0 [= -> <- <- <-]. repeat split; cbn [encbuf decbuf]; rewrite repeat_length; lia. }
    assert (K : k = key /\ iv' = iv /\ cr_ok (cid_bs c) cr).
    { repeat match type of H with
             | (if ?b then _ else _) = _ => destruct b
             end; try discriminate; try (eapply G; exact H). }
    destruct K as (-> & -> & Hc). repeat split. apply iblock_is_cfb; assumption.
  Qed.

  (* decrypting what an equally made instance encrypted, any selection in any order *)
  Definition usable (i : inst) : Prop :=
    match i with IBlock c _ iv cr => cr_ok (cid_bs c) cr /\ cid_bs c <= length iv | _ => True end.

  Lemma stream_map_roundtrip ks (ms : list (list N)) (sel : list nat) :
    map (fun j => stream_encrypt ks (nth j (map (stream_encrypt ks) ms) [])) sel = map (fun j => nth j ms []) sel.
  Proof.
    apply map_ext. intros j. rewrite (nth_map_nil (stream_encrypt ks) ms eq_refl j).
    apply (stream_involution ks).
  Qed.

  Lemma irun_stream k n ops :
    irun BC KS (IStream k n) ops = Some (map (fun o => stream_encrypt (KS k n) (op_msg o)) ops, IStream k n).
  Proof. induction ops as [|o r IH]; cbn [irun istep map]; [reflexivity|]. rewrite IH. reflexivity. Qed.

  Lemma irun_none ops : irun BC KS INone ops = Some (map op_msg ops, INone).
  Proof. induction ops as [|o r IH]; cbn [irun istep map]; [reflexivity|]. rewrite IH. reflexivity. Qed.

  Lemma inst_roundtrip (i : inst) (ms : list (list N)) (sel : list nat) :
    usable i ->
    exists cts i1 pts i2,
      irun BC KS i (map Enc ms) = Some (cts, i1) /\
      irun BC KS i (map (fun j => Dec (nth j cts [])) sel) = Some (pts, i2) /\
      pts = map (fun j => nth j ms []) sel /\ map (@length N) cts = map (@length N) ms.
  Proof.
    intros Hu. destruct i as [c k iv cr | k n |].
    - destruct Hu as [Hc Hiv].
      destruct (iblock_is_cfb c k iv cr Hc Hiv (map Enc ms)) as (i1 & H1).
      set (cts := map (cfb_op (cid_bs c) (BC c k) iv) (map Enc ms)) in *.
      destruct (iblock_is_cfb c k iv cr Hc Hiv (map (fun j => Dec (nth j cts [])) sel)) as (i2 & H2).
      exists cts, i1. eexists. exists i2. split; [exact H1|]. split; [exact H2|]. split.
      + rewrite map_map. apply map_ext. intros j. cbn [cfb_op]. unfold cts. rewrite map_map. cbn [cfb_op].
        rewrite (nth_map_nil (fun m => cfb_enc (cid_bs c) (BC c k) (firstn (cid_bs c) iv) m) ms eq_refl j).
        apply cfb_roundtrip. apply supported_pos, cid_bs_supported.
      + unfold cts. rewrite !map_map. apply map_ext. intros m. cbn [cfb_op].
        apply cfb_enc_length. apply supported_pos, cid_bs_supported.
    - exists (map (fun o => stream_encrypt (KS k n) (op_msg o)) (map Enc ms)), (IStream k n).
      eexists. exists (IStream k n).
      split; [apply irun_stream|]. split; [apply irun_stream|].
      rewrite !map_map. cbn [op_msg]. split.
      + apply (stream_map_roundtrip (KS k n) ms sel).
      + apply map_ext. intros m. apply stream_from_length.
    - assert (Hm : map op_msg (map Enc ms) = ms).
      { clear. induction ms as [|m r IH]; cbn [map op_msg]; [reflexivity|]. rewrite IH. reflexivity. }
      exists (map op_msg (map Enc ms)), INone. eexists. exists INone.
      split; [apply irun_none|]. split; [apply irun_none|]. rewrite Hm. split; [|reflexivity].
      clear. induction sel as [|j r IH]; cbn [map op_msg]; [reflexivity|]. rewrite IH. reflexivity.
  Qed.

  Lemma new_crypt_usable name key iv i :
    new_crypt name key iv = Some i ->
    (forall c k iv' cr, i = IBlock c k iv' cr -> cid_bs c <= length iv) -> usable i.
  Proof.
    unfold new_crypt. intros H Hiv.
    destruct (factory_kind name) as [c klen | |].
    - destruct (used_key klen key) as [k|]; [|discriminate]. injection H as <-. cbn [usable]. split.
      + split; cbn [encbuf decbuf]; rewrite repeat_length; lia.
      + apply (Hiv c k iv _ eq_refl).
    - destruct (32 <=? length key); [|discriminate]. injection H as <-. exact I.
    - injection H as <-. exact I.
  Qed.
End InstProofs.

(* separate destination: window of the first buffer into a window of the second *)
Lemma bstep_to_frame bsz E iv s off n doff :
  supported bsz -> bsz <= length iv -> cr_ok bsz (inst_cr s) ->
  off + n <= length (mem1 s) -> doff + n <= length (mem2 s) ->
  (exists s', bstep bsz E iv s (BEncTo off n doff) = Some s' /\
     mem1 s' = mem1 s /\ length (mem2 s') = length (mem2 s) /\
     firstn doff (mem2 s') = firstn doff (mem2 s) /\ skipn (doff + n) (mem2 s') = skipn (doff + n) (mem2 s) /\
     rd doff n (mem2 s') = cfb_enc bsz E (firstn bsz iv) (rd off n (mem1 s)) /\ cr_ok bsz (inst_cr s')) /\
  (exists s', bstep bsz E iv s (BDecTo off n doff) = Some s' /\
     mem1 s' = mem1 s /\ length (mem2 s') = length (mem2 s) /\
     firstn doff (mem2 s') = firstn doff (mem2 s) /\ skipn (doff + n) (mem2 s') = skipn (doff + n) (mem2 s) /\
     rd doff n (mem2 s') = cfb_dec bsz E (firstn bsz iv) (rd off n (mem1 s)) /\ cr_ok bsz (inst_cr s')).
Proof.
  intros Hs Hiv [Hce Hcd] H1 H2. cbn [bstep].
  replace (length (mem1 s) <? off + n) with false by (symmetry; apply Nat.ltb_ge; lia).
  replace (length (mem2 s) <? doff + n) with false by (symmetry; apply Nat.ltb_ge; lia).
  cbn [orb]. split.
  - destruct (encrypt_supported bsz E iv (rd off n (mem1 s)) (encbuf (inst_cr s)) Hs Hiv Hce) as (b' & He & Lb).
    rewrite He. cbn [data buf]. eexists. split; [reflexivity|]. cbn [mem1 mem2 inst_cr]. split; [reflexivity|].
    assert (Ln : length (cfb_enc bsz E (firstn bsz iv) (rd off n (mem1 s))) = n).
    { rewrite (cfb_enc_length bsz E (supported_pos bsz Hs)). apply (split3 _ off n H1). }
    destruct (wr_frame (mem2 s) _ doff n H2 Ln) as (A & B & C & D).
    repeat split; try assumption; cbn [encbuf decbuf]; lia.
  - destruct (decrypt_supported bsz E iv (rd off n (mem1 s)) (decbuf (inst_cr s)) Hs Hiv Hcd) as (b' & He & Lb).
    rewrite He. cbn [data buf]. eexists. split; [reflexivity|]. cbn [mem1 mem2 inst_cr]. split; [reflexivity|].
    assert (Ln : length (cfb_dec bsz E (firstn bsz iv) (rd off n (mem1 s))) = n).
    { rewrite (cfb_dec_length bsz E (supported_pos bsz Hs)). apply (split3 _ off n H1). }
    destruct (wr_frame (mem2 s) _ doff n H2 Ln) as (A & B & C & D).
    repeat split; try assumption; cbn [encbuf decbuf]; lia.
Qed.

(* ================= ownership of the argument buffers ================= *)
Lemma owner_values BC KS (ops : list wop) : forall w,
  wrun BC KS w ops = option_map fst (irun BC KS (w_inst w) (calls ops)).
Proof.
  induction ops as [|o r IH]; intros w; cbn [wrun calls irun option_map fst]; [reflexivity|].
  destruct o as [o | b | b]; cbn [calls irun].
  - destruct (istep BC KS (w_inst w) o) as [[out i']|]; [|reflexivity].
    rewrite (IH (mkworld (w_key w) (w_iv w) i')). cbn [w_inst].
    destruct (irun BC KS i' (calls r)) as [[outs i'']|]; reflexivity.
  - apply (IH (mkworld b (w_iv w) (w_inst w))).
  - apply (IH (mkworld (w_key w) b (w_inst w))).
Qed.

Lemma wnew_frame name keybuf ivbuf w :
  wnew name keybuf ivbuf = Some w ->
  w_key w = keybuf /\ w_iv w = ivbuf /\ new_crypt name keybuf ivbuf = Some (w_inst w).
Proof.
  unfold wnew. destruct (new_crypt name keybuf ivbuf) as [i|]; [|discriminate].
  intros [= <-]. repeat split.
Qed.
