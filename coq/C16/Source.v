(* C16 - tie of the Coq model to the Go source, first part.
   xorBytes (x/cipher/block.go), translated whole by tools/gofunc into Generated/CipherXor.v
   (the loop `for i := 0; i < n; i++ { dst[i] = a[i] ^ b[i] }` with its element writes), is the
   model's [xorl] written over the front of dst - the `case 0` tail of encrypt8 / encrypt16 /
   decrypt8 / decrypt16 (Model.v: enc_rem, dec_rem use  wr base (xorl ...)).
   encrypt8/16, decrypt8/16 themselves are outside the translator's subset (see the props note). *)
From Coq Require Import ZArith NArith List Bool Lia.
From FV Require Import Lib.GoSem Generated.CipherXor C16.Model.
Import ListNotations.
Local Open Scope Z_scope.

Definition zb (l : list N) : list Z := map Z.of_N l.

Lemma zb_length l : length (zb l) = length l.
Proof. apply map_length. Qed.

Ltac Zify.zify_post_hook ::= Z.div_mod_to_equations.

Lemma wrap64 x : - 9223372036854775808 <= x < 9223372036854775808 ->
  (x + 9223372036854775808) mod 18446744073709551616 - 9223372036854775808 = x.
Proof. intros H. lia. Qed.

Lemma index_mid (p r : list Z) x : go_index (p ++ x :: r) (Z.of_nat (length p)) = Ok x.
Proof.
  unfold go_index, go_len. rewrite app_length. cbn [length].
  replace ((0 <=? Z.of_nat (length p)) && (Z.of_nat (length p) <? Z.of_nat (length p + S (length r))))
    with true by (symmetry; apply andb_true_intro; split; [apply Z.leb_le|apply Z.ltb_lt]; lia).
  rewrite Nat2Z.id, nth_middle. reflexivity.
Qed.

Lemma index_end (p : list Z) : go_index p (Z.of_nat (length p)) = Panic.
Proof.
  unfold go_index, go_len. rewrite Z.ltb_irrefl, andb_false_r. reflexivity.
Qed.

Lemma list_upd_mid (p r : list Z) x v : list_upd (p ++ x :: r) (length p) v = p ++ v :: r.
Proof. induction p as [|y p IH]; cbn; [reflexivity|]. rewrite IH. reflexivity. Qed.

Lemma update_mid (p r : list Z) x v : go_update (p ++ x :: r) (Z.of_nat (length p)) v = Ok (p ++ v :: r).
Proof.
  unfold go_update, go_len. rewrite app_length. cbn [length].
  replace ((0 <=? Z.of_nat (length p)) && (Z.of_nat (length p) <? Z.of_nat (length p + S (length r))))
    with true by (symmetry; apply andb_true_intro; split; [apply Z.leb_le|apply Z.ltb_lt]; lia).
  rewrite Nat2Z.id, list_upd_mid. reflexivity.
Qed.

Lemma update_end (p : list Z) v : go_update p (Z.of_nat (length p)) v = Panic.
Proof.
  unfold go_update, go_len. rewrite Z.ltb_irrefl, andb_false_r. reflexivity.
Qed.

Lemma lxor_of_N x y : Z.lxor (Z.of_N x) (Z.of_N y) = Z.of_N (N.lxor x y).
Proof. destruct x, y; reflexivity. Qed.

(* the loop, from index i = |pa| = |pb| = |pd| on: n = i + min(|ra|, |rb|) *)
Lemma xor_loop (ra : list N) : forall (rb : list N) (pa pb pd rd : list Z) fuel,
  length pa = length pd -> length pb = length pd ->
  (length pd + length (xorl ra rb) < 2 ^ 62)%nat ->
  (length (xorl ra rb) < fuel)%nat ->
  go_xorBytes_loop1 fuel (pa ++ zb ra) (pb ++ zb rb)
      (Z.of_nat (length pd + length (xorl ra rb))) (pd ++ rd, Z.of_nat (length pd)) =
  if (length (xorl ra rb) <=? length rd)%nat
  then Ok (inl (pd ++ zb (xorl ra rb) ++ skipn (length (xorl ra rb)) rd,
                Z.of_nat (length pd + length (xorl ra rb))))
  else Panic.
Proof.
  unfold go_xorBytes_loop1.
  induction ra as [|x ra IH]; intros rb pa pb pd rd fuel Ha Hb Hbound Hf.
  - cbn [xorl length] in *. destruct fuel as [|f]; [lia|]. rewrite go_loop_S.
    unfold go_xorBytes_loop1_body. rewrite Nat.add_0_r, Z.ltb_irrefl. cbn. reflexivity.
  - destruct rb as [|y rb].
    + cbn [xorl length] in *. destruct fuel as [|f]; [lia|]. rewrite go_loop_S.
      unfold go_xorBytes_loop1_body. rewrite Nat.add_0_r, Z.ltb_irrefl. cbn. reflexivity.
    + cbn [xorl length] in *. destruct fuel as [|f]; [lia|]. rewrite go_loop_S.
      unfold go_xorBytes_loop1_body at 1.
      replace (Z.of_nat (length pd) <? Z.of_nat (length pd + S (length (xorl ra rb)))) with true
        by (symmetry; apply Z.ltb_lt; lia).
      cbn [zb map]. rewrite <- Ha at 1. rewrite index_mid. cbn [bind].
      rewrite <- Hb at 1. rewrite index_mid. cbn [bind].
      rewrite lxor_of_N.
      destruct rd as [|z rd].
      * rewrite app_nil_r, update_end. cbn. reflexivity.
      * rewrite update_mid. cbn [bind].
        assert (P62 : Z.of_nat (2 ^ 62) = 4611686018427387904) by (rewrite Nat2Z.inj_pow; reflexivity).
        rewrite wrap64 by lia.
        replace (Z.of_nat (length pd) + 1) with (Z.of_nat (length (pd ++ [Z.of_N (N.lxor x y)])))
          by (rewrite app_length; cbn [length]; lia).
        replace (pd ++ Z.of_N (N.lxor x y) :: rd) with ((pd ++ [Z.of_N (N.lxor x y)]) ++ rd)
          by (rewrite <- app_assoc; reflexivity).
        replace (pa ++ Z.of_N x :: map Z.of_N ra) with ((pa ++ [Z.of_N x]) ++ zb ra)
          by (rewrite <- app_assoc; reflexivity).
        replace (pb ++ Z.of_N y :: map Z.of_N rb) with ((pb ++ [Z.of_N y]) ++ zb rb)
          by (rewrite <- app_assoc; reflexivity).
        replace (length pd + S (length (xorl ra rb)))%nat
          with (length (pd ++ [Z.of_N (N.lxor x y)]) + length (xorl ra rb))%nat
          by (rewrite app_length; cbn [length]; lia).
        rewrite IH; try (rewrite ?app_length; cbn [length]; lia).
        cbn [length skipn]. change (S (length (xorl ra rb)) <=? S (length rd))%nat
          with (length (xorl ra rb) <=? length rd)%nat.
        destruct (length (xorl ra rb) <=? length rd)%nat; [|reflexivity].
        rewrite <- app_assoc. reflexivity.
Qed.

Lemma xorl_length a : forall b, length (xorl a b) = Nat.min (length a) (length b).
Proof. induction a as [|x a IH]; intros [|y b]; cbn; try reflexivity. rewrite IH. reflexivity. Qed.

(* xorBytes(dst, a, b) on bytes: n = min(len a, len b) = |xorl a b|; the first n bytes of dst
   become xorl a b (Model.wr 0); index out of range exactly when dst is shorter than n *)
Lemma src_xor_bytes (dst a b : list N) fuel :
  (length (xorl a b) < 2 ^ 62)%nat -> (length (xorl a b) < fuel)%nat ->
  go_xorBytes fuel (zb dst) (zb a) (zb b) =
  if (length (xorl a b) <=? length dst)%nat
  then Ok (Z.of_nat (length (xorl a b)), zb (wr 0 (xorl a b) dst))
  else Panic.
Proof.
  intros Hb Hf. unfold go_xorBytes. cbv zeta. unfold go_len. rewrite !zb_length.
  assert (Hn : (if Z.of_nat (length b) <? Z.of_nat (length a) then Z.of_nat (length b) else Z.of_nat (length a))
               = Z.of_nat (length (xorl a b))).
  { rewrite xorl_length. destruct (Z.ltb_spec (Z.of_nat (length b)) (Z.of_nat (length a))); f_equal; lia. }
  rewrite Hn.
  destruct (Z.eqb_spec (Z.of_nat (length (xorl a b))) 0) as [E|E].
  - assert (X : xorl a b = []) by (destruct (xorl a b); [reflexivity|cbn in E; lia]).
    rewrite X. cbn. unfold wr. cbn. reflexivity.
  - pose proof (xor_loop a b [] [] [] (zb dst) fuel eq_refl eq_refl) as L. cbn [length app Nat.add] in L. change (Z.of_nat 0) with 0 in L.
    rewrite L by assumption. rewrite zb_length.
    destruct (length (xorl a b) <=? length dst)%nat; [|reflexivity].
    unfold wr, zb. cbn [firstn app Nat.add]. rewrite map_app, skipn_map. reflexivity.
Qed.
