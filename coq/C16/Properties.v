(* C16 — Packet ciphers invert exactly at every length and interoperate with standard CFB.
   This file holds only the property theorems; each is closed by an exact lemma and
   followed by Print Assumptions.

   Quantification: E is ANY function on byte lists (the block cipher under any key), iv any
   IV at least one block long, msg of ANY length, and the scratch buffers (encbuf / decbuf
   of the cryptor) in ANY state left behind by earlier calls.
   supported bsz := bsz = 8 \/ bsz = 16 (the two code paths encrypt8/16, decrypt8/16). *)
From Coq Require Import NArith List Bool Arith.
From FV Require Import C16.Model C16.Proofs.
Import ListNotations.

(* "the ciphertext is byte-identical to standard CFB mode keyed with the same key and the
   first block of the IV": the unrolled code (stride, fall-through tail, byte-wise remainder)
   computes textbook CFB, whatever the scratch buffer held before. *)
Theorem c16_is_cfb : forall bsz E iv msg scratch,
  supported bsz -> bsz <= length iv -> bsz <= length scratch ->
  exists scratch',
    encrypt bsz E iv (mkst msg scratch) = Some (mkst (cfb_enc bsz E (firstn bsz iv) msg) scratch')
    /\ length scratch' = length scratch.
Proof. exact encrypt_supported. Qed.
Print Assumptions c16_is_cfb.

(* the same for decryption (tbl/next alternation over the 2-block scratch buffer) *)
Theorem c16_decrypt_is_cfb : forall bsz E iv ct scratch,
  supported bsz -> bsz <= length iv -> 2 * bsz <= length scratch ->
  exists scratch',
    decrypt bsz E iv (mkst ct scratch) = Some (mkst (cfb_dec bsz E (firstn bsz iv) ct) scratch')
    /\ length scratch' = length scratch.
Proof. exact decrypt_supported. Qed.
Print Assumptions c16_decrypt_is_cfb.

(* "byte-identical to standard CFB mode ... so a peer using a stock library interoperates":
   std_cfb is a transcription of crypto/cipher's cfb.XORKeyStream on a fresh stream made by
   NewCFBEncrypter / NewCFBDecrypter (tied to the real crypto/cipher by the kind-"stdlib" cases) *)
Theorem c16_equals_stock_cfb : forall bsz E iv msg enc_scratch dec_scratch,
  supported bsz -> bsz <= length iv -> bsz <= length enc_scratch -> 2 * bsz <= length dec_scratch ->
  option_map data (encrypt bsz E iv (mkst msg enc_scratch)) = std_cfb bsz E false (firstn bsz iv) msg /\
  option_map data (decrypt bsz E iv (mkst msg dec_scratch)) = std_cfb bsz E true (firstn bsz iv) msg.
Proof. exact equals_stock_cfb. Qed.
Print Assumptions c16_equals_stock_cfb.

(* "decrypting an encrypted message with an equally keyed instance returns the original
   bytes with unchanged length" — every length, any state of either instance's scratch *)
Theorem c16_roundtrip : forall bsz E iv msg enc_scratch dec_scratch,
  supported bsz -> bsz <= length iv -> bsz <= length enc_scratch -> 2 * bsz <= length dec_scratch ->
  exists s1 s2,
    encrypt bsz E iv (mkst msg enc_scratch) = Some s1 /\
    decrypt bsz E iv (mkst (data s1) dec_scratch) = Some s2 /\
    data s2 = msg /\ length (data s1) = length msg.
Proof. exact roundtrip_supported. Qed.
Print Assumptions c16_roundtrip.

(* "with unchanged length" for both directions on arbitrary input *)
Theorem c16_length : forall bsz E iv msg enc_scratch dec_scratch,
  supported bsz -> bsz <= length iv -> bsz <= length enc_scratch -> 2 * bsz <= length dec_scratch ->
  exists s1 s2,
    encrypt bsz E iv (mkst msg enc_scratch) = Some s1 /\
    decrypt bsz E iv (mkst msg dec_scratch) = Some s2 /\
    length (data s1) = length msg /\ length (data s2) = length msg.
Proof. exact length_supported. Qed.
Print Assumptions c16_length.

(* "every message is processed independently of the ones before it": for ALL sequences of
   Encrypt / Decrypt calls on one instance, started in any scratch state, the i-th returned
   byte string is a function of (E, iv, i-th message) alone, and no call panics *)
Theorem c16_stateless : forall bsz E iv ops c,
  supported bsz -> bsz <= length iv -> cr_ok bsz c ->
  exists c', crun bsz E iv c ops = Some (map (cfb_op bsz E iv) ops, c') /\ cr_ok bsz c'.
Proof. intros bsz E iv ops c. exact (crun_spec bsz E iv ops c). Qed.
Print Assumptions c16_stateless.

(* "so packets can be decrypted in any order and after losses": the packets ms are encrypted
   in order by one instance; ANY list of indices sel (permutation, sub-list, repetitions) of
   the ciphertexts fed to an equally keyed instance in any state yields exactly the selected
   plaintexts *)
Theorem c16_any_order : forall bsz E iv (ms : list (list N)) (sel : list nat) sender receiver,
  supported bsz -> bsz <= length iv -> cr_ok bsz sender -> cr_ok bsz receiver ->
  exists cts sender' pts receiver',
    crun bsz E iv sender (map Enc ms) = Some (cts, sender') /\
    crun bsz E iv receiver (map (fun j => Dec (nth j cts [])) sel) = Some (pts, receiver') /\
    pts = map (fun j => nth j ms []) sel.
Proof. exact any_order. Qed.
Print Assumptions c16_any_order.

(* stream cipher (salsa20): for ANY keystream, decrypting an encrypted message returns it,
   length unchanged; each call is a function of the message alone (no instance state) *)
Theorem c16_stream_involution : forall (ks : nat -> N) (msg : list N),
  stream_decrypt ks (stream_encrypt ks msg) = msg /\ length (stream_encrypt ks msg) = length msg.
Proof. intros ks msg; split; [exact (stream_involution ks msg) | exact (stream_from_length ks msg 0)]. Qed.
Print Assumptions c16_stream_involution.

(* none *)
Theorem c16_none : forall msg : list N, none_encrypt msg = msg /\ none_decrypt (none_encrypt msg) = msg.
Proof. intros msg; split; reflexivity. Qed.
Print Assumptions c16_none.

(* modelling step made explicit: the uint64 load / xor / store that encrypt8 and decrypt8
   perform through unsafe.Pointer equals the bytewise block xor used by the model, for
   either byte order of the machine *)
Theorem c16_u64_xor_is_bytewise : forall s t : list N,
  length s = 8 -> length t = 8 -> Forall is_byte s -> Forall is_byte t ->
  xor_u64_le s t = xorl s t /\ xor_u64_be s t = xorl s t.
Proof. exact u64_xor_bytewise. Qed.
Print Assumptions c16_u64_xor_is_bytewise.

(* non-vacuity: a concrete block function, a 20-byte IV, a 150-byte message (8-byte blocks:
   two strides + 2 tail blocks + 6 remainder bytes; 16-byte blocks: one stride + 1 tail
   block + 6 bytes), dirty scratch buffers; hypotheses hold and the model computes *)
Definition ex_E (b : list N) : list N := map (fun x => (7 * x + 3) mod 256)%N (rev b).
Definition ex_iv : list N := map N.of_nat (seq 1 20).
Definition ex_msg : list N := map (fun i => N.of_nat (i * i mod 251)) (seq 0 150).
Definition ex_scratch : list N := map N.of_nat (seq 100 33).
Example c16_example :
  supported 8 /\ supported 16 /\ 16 <= length ex_iv /\ 2 * 16 <= length ex_scratch /\
  option_map data (encrypt 8 ex_E ex_iv (mkst ex_msg ex_scratch)) = Some (cfb_enc 8 ex_E (firstn 8 ex_iv) ex_msg) /\
  option_map data (encrypt 16 ex_E ex_iv (mkst ex_msg ex_scratch)) = Some (cfb_enc 16 ex_E (firstn 16 ex_iv) ex_msg) /\
  option_map data (decrypt 8 ex_E ex_iv (mkst (cfb_enc 8 ex_E (firstn 8 ex_iv) ex_msg) ex_scratch)) = Some ex_msg /\
  option_map data (decrypt 16 ex_E ex_iv (mkst (cfb_enc 16 ex_E (firstn 16 ex_iv) ex_msg) ex_scratch)) = Some ex_msg /\
  cfb_enc 8 ex_E (firstn 8 ex_iv) ex_msg <> ex_msg /\
  cr_ok 16 (mkcr ex_scratch ex_scratch).
Proof.
  split; [left; reflexivity|]. split; [right; reflexivity|].
  repeat split; try (vm_compute; reflexivity); try (vm_compute; discriminate);
    try (vm_compute; repeat constructor).
Qed.
