(* C16 — Packet ciphers invert exactly at every length and interoperate with standard CFB.
   This file holds only the property theorems; each is closed by an exact lemma and
   followed by Print Assumptions.

   Quantification: E is ANY function on byte lists (the block cipher under any key), iv any
   IV at least one block long, msg of ANY length, and the scratch buffers (encbuf / decbuf
   of the cryptor) in ANY state left behind by earlier calls.
   supported bsz := bsz = 8 \/ bsz = 16 (the two code paths encrypt8/16, decrypt8/16). *)
From Coq Require Import String Ascii.
From Coq Require Import NArith List Bool Arith.
From FV Require Import C16.Model C16.Proofs.
Import ListNotations.

(* "the ciphertext is byte-identical to standard CFB mode keyed with the same key and the
   first block of the IV": the unrolled code (stride, fall-through tail, byte-wise remainder)
   computes textbook CFB, whatever the scratch buffer held before. *)
Theorem c16_is_cfb : forall bsz E iv msg scratch,
  supported bsz -> bsz <= length iv -> bsz <= length scratch ->
  exists scratch',
    encrypt bsz E iv (mkst msg scratch) = Some (mkst (cfb_enc bsz E (firstn bsz iv) msg) scratch')
    /\ length scratch' = length scratch.
Proof. exact encrypt_supported. Qed.
Print Assumptions c16_is_cfb.

(* the same for decryption (tbl/next alternation over the 2-block scratch buffer) *)
Theorem c16_decrypt_is_cfb : forall bsz E iv ct scratch,
  supported bsz -> bsz <= length iv -> 2 * bsz <= length scratch ->
  exists scratch',
    decrypt bsz E iv (mkst ct scratch) = Some (mkst (cfb_dec bsz E (firstn bsz iv) ct) scratch')
    /\ length scratch' = length scratch.
Proof. exact decrypt_supported. Qed.
Print Assumptions c16_decrypt_is_cfb.

(* "byte-identical to standard CFB mode ... so a peer using a stock library interoperates":
   std_cfb is a transcription of crypto/cipher's cfb.XORKeyStream on a fresh stream made by
   NewCFBEncrypter / NewCFBDecrypter (tied to the real crypto/cipher by the kind-"stdlib" cases) *)
Theorem c16_equals_stock_cfb : forall bsz E iv msg enc_scratch dec_scratch,
  supported bsz -> bsz <= length iv -> bsz <= length enc_scratch -> 2 * bsz <= length dec_scratch ->
  option_map data (encrypt bsz E iv (mkst msg enc_scratch)) = std_cfb bsz E false (firstn bsz iv) msg /\
  option_map data (decrypt bsz E iv (mkst msg dec_scratch)) = std_cfb bsz E true (firstn bsz iv) msg.
Proof. exact equals_stock_cfb. Qed.
Print Assumptions c16_equals_stock_cfb.

(* "decrypting an encrypted message with an equally keyed instance returns the original
   bytes with unchanged length" — every length, any state of either instance's scratch *)
Theorem c16_roundtrip : forall bsz E iv msg enc_scratch dec_scratch,
  supported bsz -> bsz <= length iv -> bsz <= length enc_scratch -> 2 * bsz <= length dec_scratch ->
  exists s1 s2,
    encrypt bsz E iv (mkst msg enc_scratch) = Some s1 /\
    decrypt bsz E iv (mkst (data s1) dec_scratch) = Some s2 /\
    data s2 = msg /\ length (data s1) = length msg.
Proof. exact roundtrip_supported. Qed.
Print Assumptions c16_roundtrip.

(* "with unchanged length" for both directions on arbitrary input *)
Theorem c16_length : forall bsz E iv msg enc_scratch dec_scratch,
  supported bsz -> bsz <= length iv -> bsz <= length enc_scratch -> 2 * bsz <= length dec_scratch ->
  exists s1 s2,
    encrypt bsz E iv (mkst msg enc_scratch) = Some s1 /\
    decrypt bsz E iv (mkst msg dec_scratch) = Some s2 /\
    length (data s1) = length msg /\ length (data s2) = length msg.
Proof. exact length_supported. Qed.
Print Assumptions c16_length.

(* "every message is processed independently of the ones before it": for ALL sequences of
   Encrypt / Decrypt calls on one instance, started in any scratch state, the i-th returned
   byte string is a function of (E, iv, i-th message) alone, and no call panics *)
Theorem c16_stateless : forall bsz E iv ops c,
  supported bsz -> bsz <= length iv -> cr_ok bsz c ->
  exists c', crun bsz E iv c ops = Some (map (cfb_op bsz E iv) ops, c') /\ cr_ok bsz c'.
Proof. intros bsz E iv ops c. exact (crun_spec bsz E iv ops c). Qed.
Print Assumptions c16_stateless.

(* "so packets can be decrypted in any order and after losses": the packets ms are encrypted
   in order by one instance; ANY list of indices sel (permutation, sub-list, repetitions) of
   the ciphertexts fed to an equally keyed instance in any state yields exactly the selected
   plaintexts *)
Theorem c16_any_order : forall bsz E iv (ms : list (list N)) (sel : list nat) sender receiver,
  supported bsz -> bsz <= length iv -> cr_ok bsz sender -> cr_ok bsz receiver ->
  exists cts sender' pts receiver',
    crun bsz E iv sender (map Enc ms) = Some (cts, sender') /\
    crun bsz E iv receiver (map (fun j => Dec (nth j cts [])) sel) = Some (pts, receiver') /\
    pts = map (fun j => nth j ms []) sel.
Proof. exact any_order. Qed.
Print Assumptions c16_any_order.

(* stream cipher (salsa20): for ANY keystream, decrypting an encrypted message returns it,
   length unchanged; each call is a function of the message alone (no instance state) *)
Theorem c16_stream_involution : forall (ks : nat -> N) (msg : list N),
  stream_decrypt ks (stream_encrypt ks msg) = msg /\ length (stream_encrypt ks msg) = length msg.
Proof. intros ks msg; split; [exact (stream_involution ks msg) | exact (stream_from_length ks msg 0)]. Qed.
Print Assumptions c16_stream_involution.

(* none *)
Theorem c16_none : forall msg : list N, none_encrypt msg = msg /\ none_decrypt (none_encrypt msg) = msg.
Proof. intros msg; split; reflexivity. Qed.
Print Assumptions c16_none.

(* ---------- the frame: what must NOT change ----------
   "every message is processed independently": a packet is encrypted / decrypted where it lies
   inside a larger buffer (Encrypt(buf[off:off+n]), whatever capacity the slice has behind it).
   The call panics for no window inside the buffer, leaves every byte before off and from
   off+n on exactly as it was, keeps the buffer's length, and turns the window into textbook
   CFB of what the window held. *)
Theorem c16_frame : forall bsz E iv mem off n enc_scratch dec_scratch,
  supported bsz -> bsz <= length iv -> bsz <= length enc_scratch -> 2 * bsz <= length dec_scratch ->
  off + n <= length mem ->
  (exists mem' scratch',
     encrypt_at bsz E iv mem off n enc_scratch = Some (mem', scratch') /\
     length scratch' = length enc_scratch /\ length mem' = length mem /\
     firstn off mem' = firstn off mem /\ skipn (off + n) mem' = skipn (off + n) mem /\
     rd off n mem' = cfb_enc bsz E (firstn bsz iv) (rd off n mem)) /\
  (exists mem' scratch',
     decrypt_at bsz E iv mem off n dec_scratch = Some (mem', scratch') /\
     length scratch' = length dec_scratch /\ length mem' = length mem /\
     firstn off mem' = firstn off mem /\ skipn (off + n) mem' = skipn (off + n) mem /\
     rd off n mem' = cfb_dec bsz E (firstn bsz iv) (rd off n mem)).
Proof.
  intros bsz E iv mem off n se sd Hs Hiv Hse Hsd Hm. split.
  - exact (encrypt_at_frame bsz E iv mem off n se Hs Hiv Hse Hm).
  - exact (decrypt_at_frame bsz E iv mem off n sd Hs Hiv Hsd Hm).
Qed.
Print Assumptions c16_frame.

(* packets lying back to back (or anywhere else) in the same buffer: processing one of them,
   in either direction, leaves any window disjoint from it untouched, so adjacent packets
   can be processed in place in any order *)
Theorem c16_neighbour_untouched : forall bsz E iv mem off n enc_scratch dec_scratch off2 n2,
  supported bsz -> bsz <= length iv -> bsz <= length enc_scratch -> 2 * bsz <= length dec_scratch ->
  off + n <= length mem -> off2 + n2 <= off \/ off + n <= off2 ->
  exists me be md bd,
    encrypt_at bsz E iv mem off n enc_scratch = Some (me, be) /\
    decrypt_at bsz E iv mem off n dec_scratch = Some (md, bd) /\
    rd off2 n2 me = rd off2 n2 mem /\ rd off2 n2 md = rd off2 n2 mem.
Proof. exact neighbour_untouched. Qed.
Print Assumptions c16_neighbour_untouched.

(* the two directions of one instance have disjoint footprints: Encrypt reads and writes only
   encbuf, Decrypt only decbuf (and each its own message), so a writer goroutine encrypting and
   a reader goroutine decrypting on the same instance share no written memory.  (The model has
   no interleaving semantics; with disjoint footprints and read-only key / iv every interleaving
   of the two calls is equivalent to running them one after the other, c16_stateless.) *)
Theorem c16_duplex_footprints : forall bsz E iv c c' m,
  (encbuf c = encbuf c' ->
     option_map fst (cstep bsz E iv c (Enc m)) = option_map fst (cstep bsz E iv c' (Enc m)) /\
     (forall out c1, cstep bsz E iv c (Enc m) = Some (out, c1) -> decbuf c1 = decbuf c)) /\
  (decbuf c = decbuf c' ->
     option_map fst (cstep bsz E iv c (Dec m)) = option_map fst (cstep bsz E iv c' (Dec m)) /\
     (forall out c1, cstep bsz E iv c (Dec m) = Some (out, c1) -> encbuf c1 = encbuf c)).
Proof. exact duplex_footprints. Qed.
Print Assumptions c16_duplex_footprints.

(* ---------- the factory NewCrypt(name, key, iv) ----------
   BC (the block ciphers under a key) and KS (the salsa20 keystream) are oracles.
   factory_kind gives, per name, the cipher and the slice of the supplied key it is keyed with
   (Some n: key[:n]; None: the whole key, 16/24/32 bytes); any unknown name is AES with key[:32]. *)
Definition str (s : string) : list N := map N_of_ascii (list_ascii_of_string s).
Example c16_factory_table :
  factory_kind (str "aes-128"%string) = FBlock AES (Some 16) /\ factory_kind (str "aes-192"%string) = FBlock AES (Some 24) /\
  factory_kind (str "sm4"%string) = FBlock SM4 (Some 16) /\ factory_kind (str "twofish"%string) = FBlock TWOFISH None /\
  factory_kind (str "3des"%string) = FBlock TDES (Some 24) /\ factory_kind (str "xtea"%string) = FBlock XTEA (Some 16) /\
  factory_kind (str "salsa20"%string) = FStream /\ factory_kind (str "none"%string) = FNone /\
  factory_kind (str "aes-256"%string) = FBlock AES (Some 32) /\ factory_kind (str ""%string) = FBlock AES (Some 32).
Proof. repeat split; reflexivity. Qed.

(* "for every accepted name the instance is CFB keyed with key[:n] and iv[:bs]": whenever the
   factory accepts the key, the instance exists and EVERY sequence of Encrypt/Decrypt calls on
   it returns textbook CFB under the cipher keyed with k = key[:n] and the first block of iv
   (cfb_op uses firstn bs iv), independently of earlier calls, without panicking *)
Theorem c16_factory_is_cfb : forall BC KS name key iv c klen k,
  factory_kind name = FBlock c klen -> used_key klen key = Some k -> cid_bs c <= length iv ->
  (k = firstn (length k) key /\ length k <= length key /\
   match klen with Some n => length k = n | None => k = key end) /\
  exists i, new_crypt name key iv = Some i /\
    forall ops, exists i', irun BC KS i ops = Some (map (cfb_op (cid_bs c) (BC c k) iv) ops, i').
Proof.
  intros BC KS name key iv c klen k Hk Hu Hiv. split.
  - exact (used_key_prefix klen key k Hu).
  - exact (factory_block_is_cfb BC KS name key iv c klen k Hk Hu Hiv).
Qed.
Print Assumptions c16_factory_is_cfb.

(* bytes of the key beyond the used prefix and bytes of the iv beyond the first block never
   influence any output *)
Theorem c16_factory_prefix_only : forall BC KS name c klen k key1 iv1 key2 iv2 i1 i2 ops,
  factory_kind name = FBlock c klen ->
  used_key klen key1 = Some k -> used_key klen key2 = Some k ->
  cid_bs c <= length iv1 -> cid_bs c <= length iv2 ->
  firstn (cid_bs c) iv1 = firstn (cid_bs c) iv2 ->
  new_crypt name key1 iv1 = Some i1 -> new_crypt name key2 iv2 = Some i2 ->
  option_map fst (irun BC KS i1 ops) = option_map fst (irun BC KS i2 ops).
Proof. exact factory_prefix_only. Qed.
Print Assumptions c16_factory_prefix_only.

(* a key the name cannot be keyed with makes the factory panic (no error value is returned);
   an iv shorter than a block is accepted by the factory and makes the first call panic *)
Theorem c16_factory_rejects : forall BC KS name key iv c klen,
  factory_kind name = FBlock c klen ->
  (used_key klen key = None -> new_crypt name key iv = None) /\
  (forall k o r, used_key klen key = Some k -> length iv < cid_bs c ->
     exists i, new_crypt name key iv = Some i /\ irun BC KS i (o :: r) = None).
Proof. exact factory_rejects. Qed.
Print Assumptions c16_factory_rejects.

(* salsa20: key[:32], nonce = iv[:8] (zero padded), every call xors with the keystream from
   position 0; none: the identity *)
Theorem c16_factory_stream_none : forall BC KS name key iv,
  (factory_kind name = FStream -> 32 <= length key ->
     exists nonce, length nonce = 8 /\ firstn (Nat.min 8 (length iv)) nonce = firstn 8 iv /\
       new_crypt name key iv = Some (IStream (firstn 32 key) nonce) /\
       forall ops, irun BC KS (IStream (firstn 32 key) nonce) ops =
                   Some (map (fun o => stream_encrypt (KS (firstn 32 key) nonce) (op_msg o)) ops,
                         IStream (firstn 32 key) nonce)) /\
  (factory_kind name = FNone ->
     new_crypt name key iv = Some INone /\
     forall ops, irun BC KS INone ops = Some (map op_msg ops, INone)).
Proof. exact factory_stream_none. Qed.
Print Assumptions c16_factory_stream_none.

(* modelling step made explicit: the uint64 load / xor / store that encrypt8 and decrypt8
   perform through unsafe.Pointer equals the bytewise block xor used by the model, for
   either byte order of the machine *)
Theorem c16_u64_xor_is_bytewise : forall s t : list N,
  length s = 8 -> length t = 8 -> Forall is_byte s -> Forall is_byte t ->
  xor_u64_le s t = xorl s t /\ xor_u64_be s t = xorl s t.
Proof. exact u64_xor_bytewise. Qed.
Print Assumptions c16_u64_xor_is_bytewise.

(* non-vacuity: a concrete block function, a 20-byte IV, a 150-byte message (8-byte blocks:
   two strides + 2 tail blocks + 6 remainder bytes; 16-byte blocks: one stride + 1 tail
   block + 6 bytes), dirty scratch buffers; hypotheses hold and the model computes *)
Definition ex_E (b : list N) : list N := map (fun x => (7 * x + 3) mod 256)%N (rev b).
Definition ex_iv : list N := map N.of_nat (seq 1 20).
Definition ex_msg : list N := map (fun i => N.of_nat (i * i mod 251)) (seq 0 150).
Definition ex_scratch : list N := map N.of_nat (seq 100 33).
Example c16_example :
  supported 8 /\ supported 16 /\ 16 <= length ex_iv /\ 2 * 16 <= length ex_scratch /\
  option_map data (encrypt 8 ex_E ex_iv (mkst ex_msg ex_scratch)) = Some (cfb_enc 8 ex_E (firstn 8 ex_iv) ex_msg) /\
  option_map data (encrypt 16 ex_E ex_iv (mkst ex_msg ex_scratch)) = Some (cfb_enc 16 ex_E (firstn 16 ex_iv) ex_msg) /\
  option_map data (decrypt 8 ex_E ex_iv (mkst (cfb_enc 8 ex_E (firstn 8 ex_iv) ex_msg) ex_scratch)) = Some ex_msg /\
  option_map data (decrypt 16 ex_E ex_iv (mkst (cfb_enc 16 ex_E (firstn 16 ex_iv) ex_msg) ex_scratch)) = Some ex_msg /\
  cfb_enc 8 ex_E (firstn 8 ex_iv) ex_msg <> ex_msg /\
  cr_ok 16 (mkcr ex_scratch ex_scratch).
Proof.
  split; [left; reflexivity|]. split; [right; reflexivity|].
  repeat split; try (vm_compute; reflexivity); try (vm_compute; discriminate);
    try (vm_compute; repeat constructor).
Qed.

(* First sentence at the level of the factory: for EVERY accepted name, key and IV (block
   ciphers: IV at least one block; salsa20; none) an instance made by NewCrypt encrypts any
   list of messages, of any lengths incl. 0, and an equally made instance (here: the same
   model value, instances are determined by name, key, iv) decrypts ANY selection of the
   ciphertexts in any order to exactly the selected messages; lengths are unchanged *)
Theorem c16_instance_roundtrip : forall BC KS name key iv i (ms : list (list N)) (sel : list nat),
  new_crypt name key iv = Some i ->
  (forall c k iv' cr, i = IBlock c k iv' cr -> cid_bs c <= length iv) ->
  exists cts i1 pts i2,
    irun BC KS i (map Enc ms) = Some (cts, i1) /\
    irun BC KS i (map (fun j => Dec (nth j cts [])) sel) = Some (pts, i2) /\
    pts = map (fun j => nth j ms []) sel /\ map (@length N) cts = map (@length N) ms.
Proof.
  intros BC KS name key iv i ms sel H Hiv.
  exact (inst_roundtrip BC KS i ms sel (new_crypt_usable name key iv i H Hiv)).
Qed.
Print Assumptions c16_instance_roundtrip.

(* the exported constructors called directly (NewAESCFB, NewTripleDES, NewSM4, NewTwofish,
   NewXTEA): the whole key keys the cipher, and the instance is CFB with the first IV block *)
Theorem c16_direct_constructors : forall BC KS ctor key iv c k iv' cr,
  new_direct ctor key iv = Some (IBlock c k iv' cr) -> cid_bs c <= length iv ->
  k = key /\ iv' = iv /\
  forall ops, exists i',
    irun BC KS (IBlock c k iv' cr) ops = Some (map (cfb_op (cid_bs c) (BC c key) iv) ops, i').
Proof. exact direct_is_cfb. Qed.
Print Assumptions c16_direct_constructors.

(* dst <> src: from a window of one buffer into a window of another; the source buffer and
   everything outside the destination window are unchanged.  (The model gives the separate
   destination the same bytes as the in-place call by definition; that the Go code, which
   re-reads dst for the feedback, agrees is established by the correspondence classes.) *)
Theorem c16_frame_separate : forall bsz E iv s off n doff,
  supported bsz -> bsz <= length iv -> cr_ok bsz (inst_cr s) ->
  off + n <= length (mem1 s) -> doff + n <= length (mem2 s) ->
  (exists s', bstep bsz E iv s (BEncTo off n doff) = Some s' /\
     mem1 s' = mem1 s /\ length (mem2 s') = length (mem2 s) /\
     firstn doff (mem2 s') = firstn doff (mem2 s) /\ skipn (doff + n) (mem2 s') = skipn (doff + n) (mem2 s) /\
     rd doff n (mem2 s') = cfb_enc bsz E (firstn bsz iv) (rd off n (mem1 s)) /\ cr_ok bsz (inst_cr s')) /\
  (exists s', bstep bsz E iv s (BDecTo off n doff) = Some s' /\
     mem1 s' = mem1 s /\ length (mem2 s') = length (mem2 s) /\
     firstn doff (mem2 s') = firstn doff (mem2 s) /\ skipn (doff + n) (mem2 s') = skipn (doff + n) (mem2 s) /\
     rd doff n (mem2 s') = cfb_dec bsz E (firstn bsz iv) (rd off n (mem1 s)) /\ cr_ok bsz (inst_cr s')).
Proof. exact bstep_to_frame. Qed.
Print Assumptions c16_frame_separate.

(* ---------- who owns the key and IV buffers ----------
   "An equally keyed instance": an instance is keyed by the VALUES of key and IV at the time it
   was constructed.  The constructor leaves the caller's buffers as they were, and whatever the
   caller writes into its key or IV buffer afterwards, between any calls (reading the next
   handshake into it, wiping it), every output is exactly what the calls alone give on the
   instance made from the original values - hence, by the theorems above, standard CFB under
   the key and IV of construction.
   (On the tree before the repair 154b3da the block-cipher wrappers kept the caller's IV slice
   and this failed: corpus/C16/ownership-iv.sx.) *)
Theorem c16_owner_values : forall BC KS name keybuf ivbuf w (ops : list wop),
  wnew name keybuf ivbuf = Some w ->
  (w_key w = keybuf /\ w_iv w = ivbuf /\ new_crypt name keybuf ivbuf = Some (w_inst w)) /\
  wrun BC KS w ops = option_map fst (irun BC KS (w_inst w) (calls ops)).
Proof.
  intros BC KS name keybuf ivbuf w ops H. split.
  - exact (wnew_frame name keybuf ivbuf w H).
  - exact (owner_values BC KS ops w).
Qed.
Print Assumptions c16_owner_values.

(* ---- source tie: the tail helper xorBytes, regenerated from x/cipher/block.go on every run ---- *)
From Coq Require Import ZArith.
From FV Require Import Generated.CipherXor C16.Source.
Theorem c16_src_xor_bytes : forall (dst a b : list N) fuel,
  (length (xorl a b) < 2 ^ 62)%nat -> (length (xorl a b) < fuel)%nat ->
  go_xorBytes fuel (zb dst) (zb a) (zb b) =
  if (length (xorl a b) <=? length dst)%nat
  then Lib.GoSem.Ok (Z.of_nat (length (xorl a b)), zb (wr 0 (xorl a b) dst))
  else Lib.GoSem.Panic.
Proof. exact src_xor_bytes. Qed.
Print Assumptions c16_src_xor_bytes.

(* ---- source tie: the UNROLLED STRUCTURE of encrypt8/16 and decrypt8/16 ----
   Generated/CipherShape.v (tools/goshape, rewritten from x/cipher/block.go on every run)
   lists the statements of the four routines; C16/Shape.v gives each statement form its
   meaning on the model's memory.  For every block function E and every memory s:
     - the header constants are the model's: tbl = buf[0:bs], next = buf[bs:2bs] (decrypt),
       block.Encrypt(tbl, iv), n = len(src)/bs, n/8 iterations over windows of 8*bs bytes,
       switch n%8, and the function contains no statement beyond the recognised skeleton;
     - the statements of the loop body are the model's enc_stride / dec_stride and advance
       base by 8*bs;
     - entering the switch at label k (every k of 0..7) runs the model's enc_tail k /
       dec_tail k followed by the remainder enc_rem / dec_rem.
   (Trusted: the pattern matcher of tools/goshape and the semantics of the six statement
   forms in Shape.v; see its header.) *)
From FV Require Import Lib.CfbShape Generated.CipherShape C16.Shape.

Theorem c16_src_shape_encrypt8 : forall E s,
  header_ok go_encrypt8_shape 8 false = true /\
  interp_stmts 8 E MD (sh_body go_encrypt8_shape) (mkist 0 8 0 s) = Some (mkist 0 8 (8 * 8) (enc_stride 8 E s)) /\
  Forall (fun k => option_map i_st (interp_switch 8 E MD (sh_cases go_encrypt8_shape) (Z.of_nat k) (mkist 0 8 0 s)) =
                   Some (enc_rem 8 (enc_tail 8 E k (0%nat, s)))) all_k.
Proof. intros E s. exact (conj src_encrypt8_header (conj (src_encrypt8_body E s) (src_encrypt8_tail E s))). Qed.
Print Assumptions c16_src_shape_encrypt8.

Theorem c16_src_shape_encrypt16 : forall E s,
  header_ok go_encrypt16_shape 16 false = true /\
  interp_stmts 16 E MD (sh_body go_encrypt16_shape) (mkist 0 16 0 s) = Some (mkist 0 16 (8 * 16) (enc_stride 16 E s)) /\
  Forall (fun k => option_map i_st (interp_switch 16 E MD (sh_cases go_encrypt16_shape) (Z.of_nat k) (mkist 0 16 0 s)) =
                   Some (enc_rem 16 (enc_tail 16 E k (0%nat, s)))) all_k.
Proof. intros E s. exact (conj src_encrypt16_header (conj (src_encrypt16_body E s) (src_encrypt16_tail E s))). Qed.
Print Assumptions c16_src_shape_encrypt16.

Theorem c16_src_shape_decrypt8 : forall E s,
  header_ok go_decrypt8_shape 8 true = true /\
  interp_stmts 8 E MS (sh_body go_decrypt8_shape) (mkist 0 8 0 s) = Some (mkist 0 8 (8 * 8) (dec_stride 8 E s)) /\
  Forall (fun k => option_map i_st (interp_switch 8 E MS (sh_cases go_decrypt8_shape) (Z.of_nat k) (mkist 0 8 0 s)) =
                   Some (dec_rem 8 (dec_tail 8 E k ((0%nat, 8%nat), (0%nat, s))))) all_k.
Proof. intros E s. exact (conj src_decrypt8_header (conj (src_decrypt8_body E s) (src_decrypt8_tail E s))). Qed.
Print Assumptions c16_src_shape_decrypt8.

Theorem c16_src_shape_decrypt16 : forall E s,
  header_ok go_decrypt16_shape 16 true = true /\
  interp_stmts 16 E MS (sh_body go_decrypt16_shape) (mkist 0 16 0 s) = Some (mkist 0 16 (8 * 16) (dec_stride 16 E s)) /\
  Forall (fun k => option_map i_st (interp_switch 16 E MS (sh_cases go_decrypt16_shape) (Z.of_nat k) (mkist 0 16 0 s)) =
                   Some (dec_rem 16 (dec_tail 16 E k ((0%nat, 16%nat), (0%nat, s))))) all_k.
Proof. intros E s. exact (conj src_decrypt16_header (conj (src_decrypt16_body E s) (src_decrypt16_tail E s))). Qed.
Print Assumptions c16_src_shape_decrypt16.
