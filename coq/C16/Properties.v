(* C16 — Packet ciphers invert exactly at every length and interoperate with standard CFB.
   This file holds only the property theorems; each is closed by an exact lemma and
   followed by Print Assumptions. *)
From Coq Require Import NArith List Bool Arith.
From FV Require Import C16.Model C16.Proofs.
Import ListNotations.

(* stream cipher (salsa20): for ANY keystream, decrypting an encrypted message returns it *)
Theorem c16_stream_involution : forall (ks : nat -> N) (msg : list N),
  stream_decrypt ks (stream_encrypt ks msg) = msg /\ length (stream_encrypt ks msg) = length msg.
Proof. intros ks msg; split; [exact (stream_involution ks msg) | exact (stream_from_length ks msg 0)]. Qed.
Print Assumptions c16_stream_involution.

(* none *)
Theorem c16_none : forall msg : list N, none_encrypt msg = msg /\ none_decrypt (none_encrypt msg) = msg.
Proof. intros msg; split; reflexivity. Qed.
Print Assumptions c16_none.
