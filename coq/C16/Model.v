(* C16 — packet ciphers (x/cipher/block.go, cipher.go, aes/des/sm4/twofish/xtea/salsa20/non.go).
   Executable model; nothing is proved in this file.

   The block cipher is ANY function E on byte lists: block.Encrypt(dst, src) is modelled as
   "read the first bs bytes of src, write exactly bs bytes" (Eb below), so no hypothesis on E
   is needed.  The message buffer is ONE memory because Encrypt/Decrypt of every cryptor
   work in place (dst = src), so every read of a block precedes the write over it exactly
   as in the Go code; the scratch buffer [buf] (encbuf / decbuf of the cryptor structs) is
   explicit and is carried from call to call.

   Modelled abstractly: the unsafe 8-byte uint64 load / xor / store of encrypt8 and decrypt8, and
   xor.Bytes16Align are the bytewise xor of one block (xor_u64_le / xor_u64_be below and
   c16_u64_xor_is_bytewise justify this for the uint64 path). *)
From Coq Require Import NArith List Bool Arith.
Import ListNotations.

(* ---- memory ---- *)
Definition rd (off n : nat) (m : list N) : list N := firstn n (skipn off m).
Definition wr (off : nat) (b m : list N) : list N :=
  firstn off m ++ b ++ skipn (off + length b) m.

(* xorBytes(dst, a, b): n = min(len a, len b) bytes a[i]^b[i] *)
Fixpoint xorl (a b : list N) : list N :=
  match a, b with
  | x :: a', y :: b' => N.lxor x y :: xorl a' b'
  | _, _ => []
  end.

(* What encrypt8 / decrypt8 do through unsafe.Pointer for one block: load 8 bytes as a uint64
   (little-endian on amd64/arm64, big-endian elsewhere), xor, store.  Proofs.v shows that
   either way this is xorl on 8-byte lists of bytes, which is what the steps below use. *)
Fixpoint le_load (b : list N) : N :=
  match b with
  | [] => 0
  | x :: r => x + 256 * le_load r
  end%N.
Fixpoint le_store (n : nat) (v : N) : list N :=
  match n with
  | O => []
  | S k => (v mod 256)%N :: le_store k (v / 256)%N
  end.
Definition xor_u64_le (s t : list N) : list N := le_store 8 (N.lxor (le_load s) (le_load t)).
Definition xor_u64_be (s t : list N) : list N :=
  rev (le_store 8 (N.lxor (le_load (rev s)) (le_load (rev t)))).

Record st : Type := mkst { data : list N; buf : list N }.

Section Cfb.
  Variable bs : nat.                 (* block size: 8 or 16 *)
  Variable E : list N -> list N.     (* the block cipher's encryption function, arbitrary *)

  Definition fit (l : list N) : list N := firstn bs (l ++ repeat 0%N bs).
  (* block.Encrypt(dst, src): uses src[:bs], produces bs bytes *)
  Definition Eb (x : list N) : list N := fit (E (firstn bs x)).

  (* In the steps below [data s] is a WINDOW of the message buffer: the Go slices
     s := src[base:][0:8*bs], d := dst[base:][0:8*bs] inside the unrolled loop (one memory,
     since dst = src), and src[base:] = dst[base:] in the tail switch.  Offsets are relative
     to the window, exactly as the Go code writes them (d[0:8], d[8:16], ...).  Bytes below
     [base] are never read or written again; enc_loop / dec_loop collect them in [done]. *)

  (* ---------- encrypt8 / encrypt16: tbl = buf[0:bs] ---------- *)
  (* d[off..off+bs) = s[off..] ^ tbl ; block.Encrypt(tbl, d[off:]) *)
  Definition enc_step (off : nat) (s : st) : st :=
    let d := xorl (rd off bs (data s)) (rd 0 bs (buf s)) in
    let data' := wr off d (data s) in
    mkst data' (wr 0 (Eb (skipn off data')) (buf s)).

  (* the body of `for i := 0; i < n/8; i++`: eight blocks written out *)
  Definition enc_stride (s : st) : st :=
    let s := enc_step (0 * bs) s in   (* 1 *)
    let s := enc_step (1 * bs) s in   (* 2 *)
    let s := enc_step (2 * bs) s in   (* 3 *)
    let s := enc_step (3 * bs) s in   (* 4 *)
    let s := enc_step (4 * bs) s in   (* 5 *)
    let s := enc_step (5 * bs) s in   (* 6 *)
    let s := enc_step (6 * bs) s in   (* 7 *)
    let s := enc_step (7 * bs) s in   (* 8 *)
    s.

  (* [rest] = src[base:]; each iteration works on the window rest[0:8*bs]; base += 8*bs *)
  Fixpoint enc_loop (iters : nat) (done rest b : list N) : list N * st :=
    match iters with
    | O => (done, mkst rest b)
    | S k => let s := enc_stride (mkst (firstn (8 * bs) rest) b) in
             enc_loop k (done ++ data s) (skipn (8 * bs) rest) (buf s)
    end.

  (* one `case j:` body of the tail switch: runs iff the switch was entered at a label >= j;
     p = (base relative to the window, memory) *)
  Definition enc_case (j k : nat) (p : nat * st) : nat * st :=
    if j <=? k then let '(base, s) := p in (base + bs, enc_step base s) else p.

  (* switch n % 8 { case 7: ...; fallthrough; case 6: ... ; case 1: ...; fallthrough; case 0: } *)
  Definition enc_tail (k : nat) (p : nat * st) : nat * st :=
    let p := enc_case 7 k p in
    let p := enc_case 6 k p in
    let p := enc_case 5 k p in
    let p := enc_case 4 k p in
    let p := enc_case 3 k p in
    let p := enc_case 2 k p in
    let p := enc_case 1 k p in
    p.

  (* case 0: xorBytes(dst[base:], src[base:], tbl) *)
  Definition enc_rem (p : nat * st) : st :=
    let '(base, s) := p in
    mkst (wr base (xorl (skipn base (data s)) (rd 0 bs (buf s))) (data s)) (buf s).

  (* None = the Go code panics (iv shorter than a block: block.Encrypt; buf too short: slicing) *)
  Definition encrypt_bs (iv : list N) (s : st) : option st :=
    if (length iv <? bs) || (length (buf s) <? bs) then None
    else
      let b0 := wr 0 (Eb iv) (buf s) in                     (* tbl := buf[:bs]; block.Encrypt(tbl, iv) *)
      let n := length (data s) / bs in
      let '(done, s1) := enc_loop (n / 8) [] (data s) b0 in
      let s2 := enc_rem (enc_tail (n mod 8) (0, s1)) in
      Some (mkst (done ++ data s2) (buf s2)).

  (* ---------- decrypt8 / decrypt16: tbl = buf[0:bs], next = buf[bs:2bs] ---------- *)
  (* tbl and next are slice headers, represented by their offsets in buf.
     block.Encrypt(next, src[off:]) ; dst[off..off+bs) = src[off..] ^ tbl *)
  Definition dec_step (toff noff off : nat) (s : st) : st :=
    let buf' := wr noff (Eb (skipn off (data s))) (buf s) in
    let d := xorl (rd off bs (data s)) (rd toff bs buf') in
    mkst (wr off d (data s)) buf'.

  (* the unrolled body alternates the roles by name: (tbl,next) (next,tbl) ... *)
  Definition dec_stride (s : st) : st :=
    let s := dec_step 0 bs (0 * bs) s in   (* 1 *)
    let s := dec_step bs 0 (1 * bs) s in   (* 2 *)
    let s := dec_step 0 bs (2 * bs) s in   (* 3 *)
    let s := dec_step bs 0 (3 * bs) s in   (* 4 *)
    let s := dec_step 0 bs (4 * bs) s in   (* 5 *)
    let s := dec_step bs 0 (5 * bs) s in   (* 6 *)
    let s := dec_step 0 bs (6 * bs) s in   (* 7 *)
    let s := dec_step bs 0 (7 * bs) s in   (* 8 *)
    s.

  Fixpoint dec_loop (iters : nat) (done rest b : list N) : list N * st :=
    match iters with
    | O => (done, mkst rest b)
    | S k => let s := dec_stride (mkst (firstn (8 * bs) rest) b) in
             dec_loop k (done ++ data s) (skipn (8 * bs) rest) (buf s)
    end.

  (* tail state: (tbl offset, next offset), (base, memory); `tbl, next = next, tbl` swaps the headers *)
  Definition dstate : Type := (nat * nat) * (nat * st).

  Definition dec_case (j k : nat) (p : dstate) : dstate :=
    if j <=? k then
      let '((toff, noff), (base, s)) := p in
      ((noff, toff), (base + bs, dec_step toff noff base s))
    else p.

  Definition dec_tail (k : nat) (p : dstate) : dstate :=
    let p := dec_case 7 k p in
    let p := dec_case 6 k p in
    let p := dec_case 5 k p in
    let p := dec_case 4 k p in
    let p := dec_case 3 k p in
    let p := dec_case 2 k p in
    let p := dec_case 1 k p in
    p.

  (* case 0: xorBytes(dst[base:], src[base:], tbl) *)
  Definition dec_rem (p : dstate) : st :=
    let '((toff, _), (base, s)) := p in
    mkst (wr base (xorl (skipn base (data s)) (rd toff bs (buf s))) (data s)) (buf s).

  Definition decrypt_bs (iv : list N) (s : st) : option st :=
    if (length iv <? bs) || (length (buf s) <? 2 * bs) then None
    else
      let b0 := wr 0 (Eb iv) (buf s) in
      let n := length (data s) / bs in
      let '(done, s1) := dec_loop (n / 8) [] (data s) b0 in
      let s2 := dec_rem (dec_tail (n mod 8) ((0, bs), (0, s1))) in
      Some (mkst (done ++ data s2) (buf s2)).

  (* ---------- textbook CFB (the specification) ----------
     C_i = P_i xor E(C_{i-1}),  C_0 = IV;  a final short block uses a prefix of E(C_{n-1}).
     [fb] is the feedback register; fuel = length of the message. *)
  Fixpoint cfb_enc_aux (fuel : nat) (fb msg : list N) : list N :=
    match fuel with
    | O => []
    | S f =>
        match msg with
        | [] => []
        | _ => let c := xorl (firstn bs msg) (Eb fb) in
               c ++ cfb_enc_aux f c (skipn bs msg)
        end
    end.
  Definition cfb_enc (iv msg : list N) : list N := cfb_enc_aux (length msg) iv msg.

  Fixpoint cfb_dec_aux (fuel : nat) (fb ct : list N) : list N :=
    match fuel with
    | O => []
    | S f =>
        match ct with
        | [] => []
        | _ => let c := firstn bs ct in
               xorl c (Eb fb) ++ cfb_dec_aux f c (skipn bs ct)
        end
    end.
  Definition cfb_dec (iv ct : list N) : list N := cfb_dec_aux (length ct) iv ct.
End Cfb.

(* encrypt / decrypt dispatch on block.BlockSize(); any other size panics *)
Definition encrypt8 := encrypt_bs 8.
Definition encrypt16 := encrypt_bs 16.
Definition decrypt8 := decrypt_bs 8.
Definition decrypt16 := decrypt_bs 16.

Definition encrypt (blocksize : nat) (E : list N -> list N) (iv : list N) (s : st) : option st :=
  match blocksize with
  | 8 => encrypt8 E iv s
  | 16 => encrypt16 E iv s
  | _ => None
  end.
Definition decrypt (blocksize : nat) (E : list N -> list N) (iv : list N) (s : st) : option st :=
  match blocksize with
  | 8 => decrypt8 E iv s
  | 16 => decrypt16 E iv s
  | _ => None
  end.

(* ---------- a cryptor instance (aesCFBCrypt, tripleDESCrypt, sm4Crypt, twofishCrypt, xteaCrypt):
   encbuf [bs]byte, decbuf [2*bs]byte persist between calls; key (hence E) and iv are fixed ---------- *)
Record cryptor : Type := mkcr { encbuf : list N; decbuf : list N }.
Inductive op : Type := Enc (m : list N) | Dec (m : list N).

(* one call: the returned bytes and the instance afterwards; None = panic *)
Definition cstep (blocksize : nat) (E : list N -> list N) (iv : list N) (c : cryptor) (o : op)
  : option (list N * cryptor) :=
  match o with
  | Enc m => match encrypt blocksize E iv (mkst m (encbuf c)) with
             | Some s => Some (data s, mkcr (buf s) (decbuf c))
             | None => None
             end
  | Dec m => match decrypt blocksize E iv (mkst m (decbuf c)) with
             | Some s => Some (data s, mkcr (encbuf c) (buf s))
             | None => None
             end
  end.

Fixpoint crun (blocksize : nat) (E : list N -> list N) (iv : list N) (c : cryptor) (ops : list op)
  : option (list (list N) * cryptor) :=
  match ops with
  | [] => Some ([], c)
  | o :: r => match cstep blocksize E iv c o with
              | Some (out, c') => match crun blocksize E iv c' r with
                                  | Some (outs, c'') => Some (out :: outs, c'')
                                  | None => None
                                  end
              | None => None
              end
  end.

(* ---------- stream cipher (salsa20Crypt): every call xors the message with the keystream
   for (key, nonce) from position 0; the keystream is an oracle ---------- *)
Fixpoint stream_from (ks : nat -> N) (i : nat) (msg : list N) : list N :=
  match msg with
  | [] => []
  | b :: r => N.lxor b (ks i) :: stream_from ks (S i) r
  end.
Definition stream_encrypt (ks : nat -> N) (msg : list N) : list N := stream_from ks 0 msg.
Definition stream_decrypt (ks : nat -> N) (msg : list N) : list N := stream_encrypt ks msg.

(* ---------- noneCrypt ---------- *)
Definition none_encrypt (msg : list N) : list N := msg.
Definition none_decrypt (msg : list N) : list N := msg.

(* what one call returns according to the specification: a function of (E, iv, message) only *)
Definition cfb_op (blocksize : nat) (E : list N -> list N) (iv : list N) (o : op) : list N :=
  match o with
  | Enc m => cfb_enc blocksize E (firstn blocksize iv) m
  | Dec m => cfb_dec blocksize E (firstn blocksize iv) m
  end.

(* ---------- the stock implementation: crypto/cipher's CFB stream (cfb.go), one XORKeyStream
   call on a fresh stream made by NewCFBEncrypter / NewCFBDecrypter(block, iv) with a
   destination of exactly len(src) bytes.  State: next, out, outUsed.
     for len(src) > 0 {
       if outUsed == len(out) { b.Encrypt(out, next); outUsed = 0 }
       if decrypt { copy(next[outUsed:], src) }
       n := XORBytes(dst, src, out[outUsed:])
       if !decrypt { copy(next[outUsed:], dst) }
       dst = dst[n:]; src = src[n:]; outUsed += n }                      ---------- *)
Section StdCfb.
  Variable bs : nat.
  Variable E : list N -> list N.

  Fixpoint std_cfb_loop (fuel : nat) (dec : bool) (next out : list N) (used : nat) (src : list N)
    : list N :=
    match fuel with
    | O => []
    | S f =>
        match src with
        | [] => []
        | _ =>
            let '(out, used) := if used =? length out then (Eb bs E next, 0) else (out, used) in
            let cnt := Nat.min (length next - used) (length src) in
            let next := if dec then wr used (firstn cnt src) next else next in
            let d := xorl src (skipn used out) in
            let n := length d in
            let next := if dec then next else wr used d next in
            d ++ std_cfb_loop f dec next out (used + n) (skipn n src)
        end
    end.

  (* newCFB: panics unless len(iv) == blockSize; next = iv, out = zeros, outUsed = blockSize *)
  Definition std_cfb (dec : bool) (iv msg : list N) : option (list N) :=
    if length iv =? bs then Some (std_cfb_loop (length msg) dec iv (repeat 0%N bs) bs msg)
    else None.
End StdCfb.

(* ---------- the factory NewCrypt(name, key, iv) (cipher.go) and the constructors it calls.
   Which bytes of the supplied key / iv an instance uses:
     "aes-128" key[:16]  "aes-192" key[:24]  "sm4" key[:16]  "3des" key[:24]  "xtea" key[:16]
     "twofish" the whole key (must be 16, 24 or 32 bytes)   "salsa20" key[:32], nonce = iv[:8]
     "none" nothing      any other name: AES with key[:32]
   A key shorter than the slice bound makes key[:n] panic (the model takes cap(key) = len(key));
   a bad twofish key length makes the constructor log.Panicf; both are None here.  The iv is
   kept whole (by reference); a block-cipher instance whose iv is shorter than a block is
   created all right and panics in its first Encrypt / Decrypt (block.Encrypt(tbl, iv)).
   The block ciphers and the salsa20 keystream are oracles (BC, KS). ---------- *)

Inductive cid : Type := AES | SM4 | TWOFISH | TDES | XTEA.
Definition cid_bs (c : cid) : nat := match c with TDES | XTEA => 8 | _ => 16 end.

(* the names as ASCII bytes (Properties.v restates the table with string literals) *)
Definition name_aes128 : list N := [97; 101; 115; 45; 49; 50; 56]%N.    (* "aes-128" *)
Definition name_aes192 : list N := [97; 101; 115; 45; 49; 57; 50]%N.    (* "aes-192" *)
Definition name_sm4 : list N := [115; 109; 52]%N.                       (* "sm4" *)
Definition name_twofish : list N := [116; 119; 111; 102; 105; 115; 104]%N. (* "twofish" *)
Definition name_3des : list N := [51; 100; 101; 115]%N.                 (* "3des" *)
Definition name_xtea : list N := [120; 116; 101; 97]%N.                 (* "xtea" *)
Definition name_salsa20 : list N := [115; 97; 108; 115; 97; 50; 48]%N.  (* "salsa20" *)
Definition name_none : list N := [110; 111; 110; 101]%N.                (* "none" *)
Fixpoint bytes_eqb (a b : list N) : bool :=
  match a, b with
  | [], [] => true
  | x :: a', y :: b' => N.eqb x y && bytes_eqb a' b'
  | _, _ => false
  end.

(* klen = Some n: key[:n];  None: the whole key, length 16 / 24 / 32 *)
Inductive fkind : Type := FBlock (c : cid) (klen : option nat) | FStream | FNone.

Definition factory_kind (name : list N) : fkind :=
  if bytes_eqb name name_aes128 then FBlock AES (Some 16)
  else if bytes_eqb name name_aes192 then FBlock AES (Some 24)
  else if bytes_eqb name name_sm4 then FBlock SM4 (Some 16)
  else if bytes_eqb name name_twofish then FBlock TWOFISH None
  else if bytes_eqb name name_3des then FBlock TDES (Some 24)
  else if bytes_eqb name name_xtea then FBlock XTEA (Some 16)
  else if bytes_eqb name name_salsa20 then FStream
  else if bytes_eqb name name_none then FNone
  else FBlock AES (Some 32).

Definition used_key (klen : option nat) (key : list N) : option (list N) :=
  match klen with
  | Some n => if n <=? List.length key then Some (firstn n key) else None
  | None => if (List.length key =? 16) || (List.length key =? 24) || (List.length key =? 32) then Some key else None
  end.

Inductive inst : Type :=
| IBlock (c : cid) (k iv : list N) (cr : cryptor)     (* encbuf [bs]byte, decbuf [2*bs]byte: zeroed *)
| IStream (k nonce : list N)                          (* key [32]byte, nonce [8]byte (copy pads with 0) *)
| INone.

Definition new_crypt (name key iv : list N) : option inst :=
  match factory_kind name with
  | FBlock c klen =>
      match used_key klen key with
      | Some k => Some (IBlock c k iv (mkcr (repeat 0%N (cid_bs c)) (repeat 0%N (2 * cid_bs c))))
      | None => None
      end
  | FStream => if 32 <=? List.length key then Some (IStream (firstn 32 key) (firstn 8 (iv ++ repeat 0%N 8))) else None
  | FNone => Some INone
  end.

Definition op_msg (o : op) : list N := match o with Enc m => m | Dec m => m end.

Section Factory.
  Variable BC : cid -> list N -> list N -> list N.   (* cipher, key, block |-> encrypted block *)
  Variable KS : list N -> list N -> nat -> N.        (* salsa20: key, nonce, position |-> keystream byte *)

  Definition istep (i : inst) (o : op) : option (list N * inst) :=
    match i with
    | IBlock c k iv cr =>
        match cstep (cid_bs c) (BC c k) iv cr o with
        | Some (out, cr') => Some (out, IBlock c k iv cr')
        | None => None
        end
    | IStream k nonce => Some (stream_encrypt (KS k nonce) (op_msg o), i)
    | INone => Some (op_msg o, i)
    end.

  Fixpoint irun (i : inst) (ops : list op) : option (list (list N) * inst) :=
    match ops with
    | [] => Some ([], i)
    | o :: r => match istep i o with
                | Some (out, i') => match irun i' r with
                                    | Some (outs, i'') => Some (out :: outs, i'')
                                    | None => None
                                    end
                | None => None
                end
    end.
End Factory.

(* ---------- messages inside a larger buffer (the frame) ----------
   Packets are encrypted / decrypted where they lie: Encrypt(buf[off:off+n]) on a read or
   write buffer that holds other packets before and behind.  [mem] is the whole buffer; the
   call sees the window [off, off+n) (whatever capacity the slice has beyond it); None = the
   Go slice expression or the call panics. *)
Definition encrypt_at (bsz : nat) (E : list N -> list N) (iv mem : list N) (off n : nat)
  (scratch : list N) : option (list N * list N) :=
  if length mem <? off + n then None
  else match encrypt bsz E iv (mkst (rd off n mem) scratch) with
       | Some s => Some (wr off (data s) mem, buf s)
       | None => None
       end.
Definition decrypt_at (bsz : nat) (E : list N -> list N) (iv mem : list N) (off n : nat)
  (scratch : list N) : option (list N * list N) :=
  if length mem <? off + n then None
  else match decrypt bsz E iv (mkst (rd off n mem) scratch) with
       | Some s => Some (wr off (data s) mem, buf s)
       | None => None
       end.

(* operations of one instance on two buffers: in place in the first one, or from a window of
   the first into a window of the second (separate destination) *)
Inductive bop : Type :=
| BEnc (off n : nat) | BDec (off n : nat)
| BEncTo (off n doff : nat) | BDecTo (off n doff : nat).

Record bstate : Type := mkbs { mem1 : list N; mem2 : list N; inst_cr : cryptor }.

Definition bstep (bsz : nat) (E : list N -> list N) (iv : list N) (s : bstate) (o : bop) : option bstate :=
  let c := inst_cr s in
  match o with
  | BEnc off n =>
      match encrypt_at bsz E iv (mem1 s) off n (encbuf c) with
      | Some (m, b) => Some (mkbs m (mem2 s) (mkcr b (decbuf c)))
      | None => None
      end
  | BDec off n =>
      match decrypt_at bsz E iv (mem1 s) off n (decbuf c) with
      | Some (m, b) => Some (mkbs m (mem2 s) (mkcr (encbuf c) b))
      | None => None
      end
  | BEncTo off n doff =>
      if (length (mem1 s) <? off + n) || (length (mem2 s) <? doff + n) then None
      else match encrypt bsz E iv (mkst (rd off n (mem1 s)) (encbuf c)) with
           | Some r => Some (mkbs (mem1 s) (wr doff (data r) (mem2 s)) (mkcr (buf r) (decbuf c)))
           | None => None
           end
  | BDecTo off n doff =>
      if (length (mem1 s) <? off + n) || (length (mem2 s) <? doff + n) then None
      else match decrypt bsz E iv (mkst (rd off n (mem1 s)) (decbuf c)) with
           | Some r => Some (mkbs (mem1 s) (wr doff (data r) (mem2 s)) (mkcr (encbuf c) (buf r)))
           | None => None
           end
  end.

(* ---------- the exported constructors called directly (NewAESCFB, NewTripleDES, NewSM4,
   NewTwofish, NewXTEA, NewSalsa20, NewNoneCrypt): the key is used whole; a key length the
   cipher's NewCipher refuses makes the constructor log.Panicf (None); NewSalsa20 copies
   into [32]byte / [8]byte arrays (truncates or zero-pads, never refuses) ---------- *)
Definition ctor_aes : list N := [97; 101; 115]%N.                          (* "aes" *)
Definition fitn (n : nat) (l : list N) : list N := firstn n (l ++ repeat 0%N n).
Definition len_in (n : nat) (l : list nat) : bool := existsb (Nat.eqb n) l.

Definition new_direct (ctor key iv : list N) : option inst :=
  let blockinst c := Some (IBlock c key iv (mkcr (repeat 0%N (cid_bs c)) (repeat 0%N (2 * cid_bs c)))) in
  if bytes_eqb ctor ctor_aes then (if len_in (length key) [16; 24; 32] then blockinst AES else None)
  else if bytes_eqb ctor name_3des then (if len_in (length key) [24] then blockinst TDES else None)
  else if bytes_eqb ctor name_sm4 then (if len_in (length key) [16] then blockinst SM4 else None)
  else if bytes_eqb ctor name_twofish then (if len_in (length key) [16; 24; 32] then blockinst TWOFISH else None)
  else if bytes_eqb ctor name_xtea then (if len_in (length key) [16] then blockinst XTEA else None)
  else if bytes_eqb ctor name_salsa20 then Some (IStream (fitn 32 key) (fitn 8 iv))
  else if bytes_eqb ctor name_none then Some INone
  else None.

(* the accessors Key() and IV() *)
Definition acc_key (i : inst) : list N := match i with IBlock _ k _ _ => k | IStream k _ => k | INone => [] end.
Definition acc_iv (i : inst) : list N := match i with IBlock _ _ iv _ => iv | IStream _ n => n | INone => [] end.

(* ---------- who owns the argument buffers ----------
   The constructors are functions of VALUES: new_crypt / new_direct cannot modify the key or
   iv they are given; the key is consumed there (key schedule, or copy into the salsa20
   arrays) and the instance keeps its OWN copy of the iv (since the repair 154b3da; before it
   the block-cipher wrappers kept the caller's slice).  No step reads the caller's buffers
   again.  To say so explicitly the caller's buffers are part of a little world in which the
   caller may write into them between the calls. *)
Inductive wop : Type :=
| WCall (o : op)               (* Encrypt / Decrypt on the instance *)
| WKey (b : list N)            (* the caller overwrites its key buffer *)
| WIV (b : list N).            (* the caller overwrites its IV buffer *)

Record world : Type := mkworld { w_key : list N; w_iv : list N; w_inst : inst }.

(* NewCrypt(name, keybuf, ivbuf): the buffers are as they were *)
Definition wnew (name keybuf ivbuf : list N) : option world :=
  match new_crypt name keybuf ivbuf with
  | Some i => Some (mkworld keybuf ivbuf i)
  | None => None
  end.

Fixpoint calls (ops : list wop) : list op :=
  match ops with
  | [] => []
  | WCall o :: r => o :: calls r
  | _ :: r => calls r
  end.

Section World.
  Variable BC : cid -> list N -> list N -> list N.
  Variable KS : list N -> list N -> nat -> N.

  (* the outputs of the calls, in order; None = a call panics *)
  Fixpoint wrun (w : world) (ops : list wop) : option (list (list N)) :=
    match ops with
    | [] => Some []
    | WCall o :: r =>
        match istep BC KS (w_inst w) o with
        | Some (out, i') =>
            match wrun (mkworld (w_key w) (w_iv w) i') r with
            | Some outs => Some (out :: outs)
            | None => None
            end
        | None => None
        end
    | WKey b :: r => wrun (mkworld b (w_iv w) (w_inst w)) r
    | WIV b :: r => wrun (mkworld (w_key w) b (w_inst w)) r
    end.
End World.
