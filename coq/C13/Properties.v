(* C13 — LRU cache: capacity bound, least-recently-used eviction, exact callbacks.
   Only the property theorems; each closed by an exact lemma, followed by Print Assumptions.
   Histories are arbitrary lists of the twelve operations; [state_after (new_cache n) ops] is
   the state reached, [run] collects (return value, callback arguments) per operation. *)
From Coq Require Import ZArith List Bool Sorting.Sorted Permutation.
From FV Require Import C13.Model C13.Spec C13.Proofs C13.Refine C13.History C13.Ledger.
Import ListNotations.
Open Scope Z_scope.

(* "the cache never holds more entries than its capacity" — after every history, for every
   capacity (Resize to any n included) *)
Theorem c13_bound : forall size ops,
  len (state_after (new_cache size) ops) <= Z.max 0 (cap (state_after (new_cache size) ops)).
Proof. intros size ops. exact (inv_bound _ (state_after_inv ops _ (new_inv size))). Qed.
Print Assumptions c13_bound.

(* each key present once *)
Theorem c13_nodup : forall size ops, NoDup (keys (items (state_after (new_cache size) ops))).
Proof. intros size ops. exact (inv_nodup _ (state_after_inv ops _ (new_inv size))). Qed.
Print Assumptions c13_nodup.

(* "contents, oldest-to-newest key order and returned values agree with a reference LRU":
   for every history the model returns, operation by operation, exactly what the reference
   LRU of Spec.v returns (callback arguments equal, for Purge equal as multisets) *)
Theorem c13_refines_spec : forall size ops,
  same_obs ops (snd (run (new_cache size) ops)) (snd (srun (new_spec size) ops)).
Proof. exact refines_spec. Qed.
Print Assumptions c13_refines_spec.

(* the recency order is the order of last use: every entry's stamp is the position in the
   history of the last Put/Get of its key, and the list is strictly sorted by stamp *)
Theorem c13_stamp_is_last_use : forall size ops,
  clock (state_after (new_cache size) ops) = length ops /\
  Forall (last_use_ok ops) (items (state_after (new_cache size) ops)).
Proof. exact stamps_last_use. Qed.
Print Assumptions c13_stamp_is_last_use.

Theorem c13_order_is_recency : forall size ops,
  StronglySorted (fun a b => (estamp b < estamp a)%nat) (items (state_after (new_cache size) ops)).
Proof. exact order_is_recency. Qed.
Print Assumptions c13_order_is_recency.

(* "always evicts the entry used least recently": the entry a Put reports to the callback is
   strictly older (in last use) than every entry that stays *)
Theorem c13_evicts_lru : forall size ops k v c' ou victim,
  step (state_after (new_cache size) ops) (Put k v) = (c', ou, [victim]) ->
  exists e, kv e = victim /\
            items c' ++ [e] = (k, v, clock (state_after (new_cache size) ops)) :: items (state_after (new_cache size) ops) /\
            Forall (fun x => (estamp e < estamp x)%nat) (items c').
Proof. intros size ops k v c' ou victim. apply put_evicts_lru. apply state_after_inv, new_inv. Qed.
Print Assumptions c13_evicts_lru.

(* "only put and get count as use": Peek, Contains, GetOldest, Keys, Len, Cap leave contents,
   order and capacity unchanged and never fire the callback *)
Theorem c13_queries_no_use : forall c o, is_query o = true ->
  items (fst (fst (step c o))) = items c /\ cap (fst (fst (step c o))) = cap c /\ snd (step c o) = [].
Proof. exact query_no_use. Qed.
Print Assumptions c13_queries_no_use.

(* "the eviction callback fires exactly once for every entry that leaves": keys present before
   (plus a newly inserted key) = keys present after + keys reported, as multisets; keys are
   unique (c13_nodup), so every leaving entry is reported once and nothing else is *)
Theorem c13_callback_once : forall c o,
  let '(c', _, log) := step c o in
  Permutation (added o c ++ keys (items c)) (keys (items c') ++ map fst log).
Proof. exact callback_conservation. Qed.
Print Assumptions c13_callback_once.

(* "with that entry's key and stored value" *)
Theorem c13_callback_values : forall c o p, In p (snd (step c o)) ->
  In p (map kv (items c)) \/ (exists k v, o = Put k v /\ p = (k, v)).
Proof. exact callback_values. Qed.
Print Assumptions c13_callback_values.

(* the same over a whole history from an empty cache: the keys that ever entered (with
   multiplicity, [fst (ledger …)]) are those still present plus those the callback was told
   about ([snd (ledger …)] is the concatenation of every operation's callback arguments, see
   c13_ledger_is_run) — no departure without a callback, no callback without a departure *)
Theorem c13_callback_history : forall size ops,
  Permutation (fst (ledger (new_cache size) ops))
              (keys (items (state_after (new_cache size) ops)) ++ map fst (snd (ledger (new_cache size) ops))).
Proof. exact ledger_new. Qed.
Print Assumptions c13_callback_history.

(* counted per key: callbacks for k = insertions of k, minus one if k is still in the cache *)
Theorem c13_callback_count : forall size ops k,
  count_occ Z.eq_dec (map fst (snd (ledger (new_cache size) ops))) k =
  (count_occ Z.eq_dec (fst (ledger (new_cache size) ops)) k -
   (if in_dec Z.eq_dec k (keys (items (state_after (new_cache size) ops))) then 1 else 0))%nat.
Proof. exact ledger_count. Qed.
Print Assumptions c13_callback_count.

Theorem c13_ledger_is_run : forall ops c,
  concat (map snd (snd (run c ops))) = snd (ledger c ops) /\ fst (run c ops) = state_after c ops.
Proof. exact run_ledger. Qed.
Print Assumptions c13_ledger_is_run.

(* "stored value": after any history every entry holds the value most recently put for its key
   (Get, Peek, Resize … never change a value), and the callback reports exactly that value *)
Theorem c13_values_last_put : forall size ops e,
  In e (items (state_after (new_cache size) ops)) -> last_put (ekey e) ops None = Some (eval e).
Proof. exact values_last_put. Qed.
Print Assumptions c13_values_last_put.

Theorem c13_callback_last_put : forall size ops o p,
  In p (snd (step (state_after (new_cache size) ops) o)) ->
  last_put (fst p) (ops ++ [o]) None = Some (snd p).
Proof. exact callback_last_put. Qed.
Print Assumptions c13_callback_last_put.

(* non-vacuity: a history with evictions, a resize below the size and a purge *)
Example c13_example :
  let ops := [Put 1 10; Put 2 20; Get 1; Put 3 30; Keys; Resize 1; Put 4 40; Purge] in
  map snd (snd (run (new_cache 2) ops)) = [[]; []; []; [(2, 20)]; []; [(1, 10)]; [(3, 30)]; [(4, 40)]] /\
  nth 4 (map fst (snd (run (new_cache 2) ops))) OUnit = OKeys [1; 3].
Proof. vm_compute. split; reflexivity. Qed.

(* non-vacuity of the ledger statements: key 1 enters twice, leaves once (reported with the re-put value 11) and is still there *)
Example c13_ledger_example :
  let ops := [Put 1 10; Put 2 20; Put 1 11; Put 3 30; Remove 1; Put 1 12] in
  ledger (new_cache 2) ops = ([1; 2; 3; 1], [(2, 20); (1, 11)]) /\
  keys (items (state_after (new_cache 2) ops)) = [1; 3] /\
  last_put 1 ops None = Some 12.
Proof. vm_compute. repeat split; reflexivity. Qed.

(* ---- element-level model (Concrete.v): the list of *list.Element, the *Entry each one points
   to, and the Go map key -> element are separate objects, as in cache.go ---- *)
From FV Require Import C13.Concrete C13.ProofsConcrete.

(* the key index agrees with the list after every history: elements are in the list once, each
   has its entry, no two hold the same key, the map sends exactly the keys held by elements of
   the list — each to the element holding it — with one binding per key *)
Theorem c13_index_agrees_with_list : forall size ops, Rep (cstate_after (cnew size) ops).
Proof. exact rep_reachable. Qed.
Print Assumptions c13_index_agrees_with_list.

(* hence c.items[key] finds what a search of the list for the key finds *)
Theorem c13_index_lookup_is_list_search : forall size ops k,
  let cs := cstate_after (cnew size) ops in
  option_map (fun id => sget id (store cs)) (ifind k (idx cs)) = pfind k (abs cs).
Proof. exact index_lookup. Qed.
Print Assumptions c13_index_lookup_is_list_search.

(* one operation: from related states (invariant, same (key, value) list, same capacity) the
   element-level model and Model.step return the same value and the same callback arguments
   (Purge ranges over the map: same multiset) and reach related states *)
Theorem c13_concrete_step_refines_model : forall cs c o, CR cs c ->
  snd (fst (cstep cs o)) = snd (fst (step c o)) /\
  log_equiv o (snd (cstep cs o)) (snd (step c o)) /\
  CR (fst (fst (cstep cs o))) (fst (fst (step c o))).
Proof. exact sim_step. Qed.
Print Assumptions c13_concrete_step_refines_model.

(* every history from the constructor *)
Theorem c13_concrete_refines_model : forall size ops,
  same_obs ops (snd (crun (cnew size) ops)) (snd (run (new_cache size) ops)) /\
  abs (cstate_after (cnew size) ops) = map kv (items (state_after (new_cache size) ops)) /\
  ccap (cstate_after (cnew size) ops) = cap (state_after (new_cache size) ops).
Proof. exact concrete_refines. Qed.
Print Assumptions c13_concrete_refines_model.

(* non-vacuity: a history with a re-put (value overwritten in place), an eviction, a removal, a
   resize below the size and a purge; the element-level run equals the model's (here Purge's log
   too: one entry), ids are never reused and the map holds one binding per element *)
Example c13_concrete_example :
  let ops := [Put 1 10; Put 2 20; Put 1 11; Get 2; Put 3 30; Keys; Remove 2; Put 4 40; Put 5 50; Resize 1; Purge] in
  snd (crun (cnew 2) ops) = snd (run (new_cache 2) ops) /\
  map snd (snd (crun (cnew 2) ops)) = [[]; []; []; []; [(1, 11)]; []; [(2, 20)]; []; [(3, 30)]; [(4, 40)]; [(5, 50)]] /\
  let cs := cstate_after (cnew 3) [Put 1 10; Put 2 20; Put 1 11; Put 3 30; Put 4 40] in
  lst cs = [3; 2; 0]%nat /\ idx cs = [(4, 3%nat); (3, 2%nat); (1, 0%nat)] /\ abs cs = [(4, 40); (3, 30); (1, 11)] /\ next cs = 4%nat.
Proof. vm_compute. repeat split; reflexivity. Qed.
