(* C13 — what the ghost stamps mean (last use in the history), eviction victims,
   operations that do not count as use, and the callback log. *)
From Coq Require Import ZArith List Bool Arith Lia Sorting.Sorted Permutation.
From FV Require Import C13.Model C13.Proofs.
Import ListNotations.
Open Scope Z_scope.

(* only Put and Get count as use *)
Definition uses (o : op) (k : Z) : bool :=
  match o with Put k' _ => k' =? k | Get k' => k' =? k | _ => false end.

(* e's stamp is the position in the history of the last operation using e's key *)
Definition last_use_ok (ops : list op) (e : entry) : Prop :=
  (exists o, nth_error ops (estamp e) = Some o /\ uses o (ekey e) = true) /\
  (forall j o, (estamp e < j)%nat -> nth_error ops j = Some o -> uses o (ekey e) = false).

Lemma in_remove_key_neq k l e : NoDup (keys l) -> In e (remove_key k l) -> ekey e <> k.
Proof.
  intros ND H E. apply (remove_key_notin k l ND). rewrite <- E at 1. apply in_map. exact H.
Qed.

Lemma notin_keys_neq k l e : ~ In k (keys l) -> In e l -> (k =? ekey e) = false.
Proof.
  intros NI H. apply Z.eqb_neq. intros ->. apply NI. apply in_map. exact H.
Qed.

Lemma drop_oldest_n_incl n : forall l l' log e,
  drop_oldest_n n l = (l', log) -> In e l' -> In e l.
Proof.
  induction n as [|n IH]; intros l l' log e; cbn [drop_oldest_n].
  - intros [= <- <-]. auto.
  - destruct (drop_oldest l) as [l1 g1] eqn:D1.
    destruct (drop_oldest_n n l1) as [l2 g2] eqn:D2. intros [= <- <-] H.
    specialize (IH _ _ _ _ D2 H).
    destruct (drop_oldest_props _ _ _ D1) as [[-> [-> _]]|[x [-> _]]]; [exact IH|].
    apply in_or_app. left. exact IH.
Qed.

(* where the entries of the next state come from *)
Lemma step_entries c o e : Inv c -> In e (items (fst (fst (step c o)))) ->
  (estamp e = clock c /\ uses o (ekey e) = true) \/ (In e (items c) /\ uses o (ekey e) = false).
Proof.
  intros [ND SO CL B] H.
  destruct o as [k v|k|k|k| | |k| |n| | |]; cbn [step] in H; cbn [uses].
  - destruct (find k (items c)) as [x|] eqn:F.
    + cbn [fst items In] in H. destruct H as [<-|H].
      * left. cbn. split; [reflexivity | apply Z.eqb_refl].
      * right. split; [exact (remove_key_incl _ _ _ H)|].
        apply Z.eqb_neq. intros E. exact (in_remove_key_neq k _ e ND H (eq_sym E)).
    + apply find_none in F.
      assert (G : In e ((k, v, clock c) :: items c)).
      { destruct (Z.of_nat (length ((k, v, clock c) :: items c)) >? cap c).
        - destruct (drop_oldest ((k, v, clock c) :: items c)) as [its' log] eqn:D. cbn [fst items] in H.
          destruct (drop_oldest_props _ _ _ D) as [[E1 _]|[x [E1 _]]]; [discriminate|].
          rewrite E1. apply in_or_app. left. exact H.
        - exact H. }
      destruct G as [<-|G].
      * left. cbn. split; [reflexivity | apply Z.eqb_refl].
      * right. split; [exact G | exact (notin_keys_neq _ _ _ F G)].
  - destruct (find k (items c)) as [x|] eqn:F; cbn [fst items In] in H.
    + destruct H as [<-|H].
      * left. cbn. split; [reflexivity | apply Z.eqb_refl].
      * right. split; [exact (remove_key_incl _ _ _ H)|].
        apply Z.eqb_neq. intros E. exact (in_remove_key_neq k _ e ND H (eq_sym E)).
    + apply find_none in F. right. split; [exact H | exact (notin_keys_neq _ _ _ F H)].
  - right. split; [exact H | reflexivity].
  - right. split; [exact H | reflexivity].
  - right. split; [exact H | reflexivity].
  - right. split; [exact H | reflexivity].
  - right. split; [|reflexivity].
    destruct (find k (items c)); cbn [fst items] in H; [exact (remove_key_incl _ _ _ H) | exact H].
  - right. split; [|reflexivity].
    destruct (drop_oldest (items c)) as [its log] eqn:D. cbn [fst items] in H.
    destruct (drop_oldest_props _ _ _ D) as [[E1 [E2 _]]|[x [E1 _]]].
    + subst its. destruct H.
    + rewrite E1. apply in_or_app. left. exact H.
  - right. split; [|reflexivity].
    destruct (drop_oldest_n (Z.to_nat (Z.max 0 (len c - n))) (items c)) as [its log] eqn:D.
    cbn [fst items] in H. exact (drop_oldest_n_incl _ _ _ _ _ D H).
  - cbn [fst items] in H. destruct H.
  - right. split; [exact H | reflexivity].
  - right. split; [exact H | reflexivity].
Qed.

Lemma step_clock c o : clock (fst (fst (step c o))) = S (clock c).
Proof.
  destruct o as [k v|k|k|k| | |k| |n| | |]; cbn [step]; try reflexivity.
  - destruct (find k (items c)); [reflexivity|].
    destruct (Z.of_nat (length ((k, v, clock c) :: items c)) >? cap c); [|reflexivity].
    destruct (drop_oldest ((k, v, clock c) :: items c)); reflexivity.
  - destruct (find k (items c)); reflexivity.
  - destruct (find k (items c)); reflexivity.
  - destruct (drop_oldest (items c)); reflexivity.
  - destruct (drop_oldest_n (Z.to_nat (Z.max 0 (len c - n))) (items c)); reflexivity.
Qed.

Lemma state_after_snoc c ops o :
  state_after c (ops ++ [o]) = fst (fst (step (state_after c ops) o)).
Proof. unfold state_after. rewrite fold_left_app. reflexivity. Qed.

Lemma stamps_last_use size ops :
  let c := state_after (new_cache size) ops in
  clock c = length ops /\ Forall (last_use_ok ops) (items c).
Proof.
  induction ops as [|o ops IH] using rev_ind.
  - cbn. split; [reflexivity | constructor].
  - cbn zeta in *. destruct IH as [HC HF]. rewrite state_after_snoc.
    set (c := state_after (new_cache size) ops) in *.
    assert (I : Inv c) by (apply state_after_inv, new_inv).
    split; [rewrite step_clock, HC, app_length; cbn; lia|].
    apply Forall_forall. intros e He.
    destruct (step_entries c o e I He) as [[Hs Hu]|[Hi Hu]].
    + split.
      * exists o. split; [|exact Hu]. rewrite Hs, HC, nth_error_app2, Nat.sub_diag by lia. reflexivity.
      * intros j o' Hj Hn. exfalso.
        assert (nth_error (ops ++ [o]) j <> None) by congruence.
        apply nth_error_Some in H. rewrite app_length in H. cbn in H. lia.
    + rewrite Forall_forall in HF. destruct (HF e Hi) as [[o0 [Hn Hu0]] Hlater].
      assert (Hlt : (estamp e < length ops)%nat).
      { apply nth_error_Some. congruence. }
      split.
      * exists o0. split; [|exact Hu0]. rewrite nth_error_app1 by exact Hlt. exact Hn.
      * intros j o' Hj Hn'. destruct (Nat.lt_ge_cases j (length ops)) as [L|L].
        -- rewrite nth_error_app1 in Hn' by exact L. exact (Hlater j o' Hj Hn').
        -- rewrite nth_error_app2 in Hn' by exact L.
           destruct (j - length ops)%nat as [|m] eqn:Ej; cbn in Hn'.
           ++ injection Hn' as <-. exact Hu.
           ++ destruct m; discriminate.
Qed.

(* the recency order is the order of last use: strictly decreasing stamps *)
Lemma order_is_recency size ops :
  StronglySorted (fun a b => (estamp b < estamp a)%nat) (items (state_after (new_cache size) ops)).
Proof. apply (inv_sorted _ (state_after_inv ops _ (new_inv size))). Qed.

(* ---------- eviction victims ---------- *)

(* whatever leaves through the back of the list was used least recently *)
Lemma drop_oldest_is_lru l l' e x :
  sorted l -> drop_oldest l = (l', [kv e]) -> In x l' ->
  exists e', kv e' = kv e /\ l = l' ++ [e'] /\ (estamp e' < estamp x)%nat.
Proof.
  intros S D Hx. destruct (drop_oldest_props _ _ _ D) as [[_ [-> _]]|[e' [-> E]]]; [destruct Hx|].
  exists e'. assert (E' : kv e' = kv e) by congruence. split; [exact E' | split; [reflexivity|]].
  exact (sorted_snoc_oldest _ _ _ S Hx).
Qed.

Lemma put_evicts_lru c k v c' ou kvict :
  Inv c -> step c (Put k v) = (c', ou, [kvict]) ->
  exists e, kv e = kvict /\ items c' ++ [e] = (k, v, clock c) :: items c /\
            Forall (fun x => (estamp e < estamp x)%nat) (items c').
Proof.
  intros [ND SO CL B]. cbn [step]. destruct (find k (items c)) as [x|] eqn:F; [intros [= _ _ H]; discriminate|].
  apply find_none in F.
  destruct (cons_new_inv k v (clock c) (items c) ND F SO CL) as [_ [A1 _]].
  destruct (Z.of_nat (length ((k, v, clock c) :: items c)) >? cap c); [|intros [= _ _ H]; discriminate].
  destruct (drop_oldest ((k, v, clock c) :: items c)) as [its' log] eqn:D.
  intros [= <- _ ->]. cbn [items].
  destruct (drop_oldest_props _ _ _ D) as [[E _]|[e [E E2]]]; [discriminate|].
  exists e. assert (E3 : kv e = kvict) by congruence. split; [exact E3 | split; [symmetry; exact E|]].
  apply Forall_forall. intros y Hy. rewrite E in A1. exact (sorted_snoc_oldest _ _ _ A1 Hy).
Qed.

(* ---------- operations that do not count as use ---------- *)

Definition is_query (o : op) : bool :=
  match o with Peek _ | Contains _ | GetOldest | Keys | Len | Cap => true | _ => false end.

Lemma query_no_use c o : is_query o = true ->
  items (fst (fst (step c o))) = items c /\ cap (fst (fst (step c o))) = cap c /\ snd (step c o) = [].
Proof. destruct o; cbn; try discriminate; auto. Qed.

(* ---------- the callback log ---------- *)

Definition added (o : op) (c : cache) : list Z :=
  match o with
  | Put k _ => match find k (items c) with Some _ => [] | None => [k] end
  | _ => []
  end.

Lemma keys_remove_key k l e : find k l = Some e -> Permutation (keys l) (k :: keys (remove_key k l)).
Proof.
  revert e. induction l as [|x r IH]; intros e; cbn [find remove_key keys map]; [discriminate|].
  destruct (Z.eqb_spec (ekey x) k) as [E|E].
  - intros _. rewrite E. apply Permutation_refl.
  - intros H. eapply Permutation_trans; [|apply perm_swap]. constructor. exact (IH _ H).
Qed.

Lemma drop_oldest_keys l l' log :
  drop_oldest l = (l', log) -> Permutation (keys l) (keys l' ++ map fst log).
Proof.
  intros D. destruct (drop_oldest_props _ _ _ D) as [[-> [-> ->]]|[e [-> ->]]]; [constructor|].
  unfold keys. rewrite map_app. apply Permutation_refl.
Qed.

Lemma drop_oldest_n_keys n : forall l l' log,
  drop_oldest_n n l = (l', log) -> Permutation (keys l) (keys l' ++ map fst log).
Proof.
  induction n as [|n IH]; intros l l' log; cbn [drop_oldest_n].
  - intros [= <- <-]. rewrite app_nil_r. apply Permutation_refl.
  - destruct (drop_oldest l) as [l1 g1] eqn:D1.
    destruct (drop_oldest_n n l1) as [l2 g2] eqn:D2. intros [= <- <-].
    eapply Permutation_trans; [exact (drop_oldest_keys _ _ _ D1)|].
    rewrite map_app. eapply Permutation_trans; [apply Permutation_app_tail; exact (IH _ _ _ D2)|].
    rewrite <- app_assoc. apply Permutation_app_head. apply Permutation_app_comm.
Qed.

(* conservation of keys: what was there, plus a newly inserted key, is what is there now
   plus what the callback was told about — so (keys being unique) the callback fires exactly
   once for every entry that left, and for nothing else *)
Lemma callback_conservation c o :
  let '(c', _, log) := step c o in
  Permutation (added o c ++ keys (items c)) (keys (items c') ++ map fst log).
Proof.
  destruct o as [k v|k|k|k| | |k| |n| | |]; cbn [step added]; cbn [items map app];
    try (rewrite app_nil_r; apply Permutation_refl).
  - destruct (find k (items c)) as [x|] eqn:F.
    + cbn [items map app keys]. rewrite app_nil_r. exact (keys_remove_key _ _ _ F).
    + destruct (Z.of_nat (length ((k, v, clock c) :: items c)) >? cap c).
      * destruct (drop_oldest ((k, v, clock c) :: items c)) as [its' log] eqn:D. cbn [items].
        exact (drop_oldest_keys _ _ _ D).
      * cbn [items map app]. rewrite app_nil_r. apply Permutation_refl.
  - destruct (find k (items c)) as [x|] eqn:F; cbn [items map app keys]; rewrite app_nil_r;
      [exact (keys_remove_key _ _ _ F) | apply Permutation_refl].
  - destruct (find k (items c)) as [x|] eqn:F; cbn [items map app fst kv].
    + eapply Permutation_trans; [exact (keys_remove_key _ _ _ F)|].
      destruct (find_some _ _ _ F) as [_ ->].
      change (k :: keys (remove_key k (items c))) with ([k] ++ keys (remove_key k (items c))).
      apply Permutation_app_comm.
    + rewrite app_nil_r. apply Permutation_refl.
  - destruct (drop_oldest (items c)) as [its log] eqn:D. cbn [items]. exact (drop_oldest_keys _ _ _ D).
  - destruct (drop_oldest_n (Z.to_nat (Z.max 0 (len c - n))) (items c)) as [its log] eqn:D. cbn [items].
    exact (drop_oldest_n_keys _ _ _ _ D).
  - cbn [keys map app]. rewrite map_map. apply Permutation_refl.
Qed.

(* ... with that entry's key and stored value *)
Lemma drop_oldest_values l l' log p : drop_oldest l = (l', log) -> In p log -> In p (map kv l).
Proof.
  intros D H. destruct (drop_oldest_props _ _ _ D) as [[_ [_ ->]]|[e [-> ->]]]; [destruct H|].
  destruct H as [<-|[]]. rewrite map_app. apply in_or_app. right. left. reflexivity.
Qed.

Lemma drop_oldest_n_values n : forall l l' log p,
  drop_oldest_n n l = (l', log) -> In p log -> In p (map kv l).
Proof.
  induction n as [|n IH]; intros l l' log p; cbn [drop_oldest_n].
  - intros [= <- <-] [].
  - destruct (drop_oldest l) as [l1 g1] eqn:D1.
    destruct (drop_oldest_n n l1) as [l2 g2] eqn:D2. intros [= <- <-] H.
    apply in_app_or in H. destruct H as [H|H]; [exact (drop_oldest_values _ _ _ _ D1 H)|].
    specialize (IH _ _ _ _ D2 H).
    destruct (drop_oldest_props _ _ _ D1) as [[-> [-> _]]|[x [-> _]]]; [exact IH|].
    rewrite map_app. apply in_or_app. left. exact IH.
Qed.

Lemma callback_values c o p :
  In p (snd (step c o)) ->
  In p (map kv (items c)) \/ (exists k v, o = Put k v /\ p = (k, v)).
Proof.
  destruct o as [k v|k|k|k| | |k| |n| | |]; cbn [step].
  - destruct (find k (items c)) as [x|] eqn:F; [cbn; tauto|].
    destruct (Z.of_nat (length ((k, v, clock c) :: items c)) >? cap c); [|cbn; tauto].
    destruct (drop_oldest ((k, v, clock c) :: items c)) as [its' log] eqn:D. cbn [snd]. intros H.
    pose proof (drop_oldest_values _ _ _ _ D H) as G. cbn [map In] in G.
    destruct G as [<-|G]; [right; exists k, v; split; reflexivity | left; exact G].
  - destruct (find k (items c)); cbn; tauto.
  - cbn; tauto.
  - cbn; tauto.
  - cbn; tauto.
  - cbn; tauto.
  - destruct (find k (items c)) as [x|] eqn:F; cbn [snd In]; [|tauto].
    intros [<-|[]]. left. apply in_map. exact (proj1 (find_some _ _ _ F)).
  - destruct (drop_oldest (items c)) as [its log] eqn:D. cbn [snd]. intros H. left.
    exact (drop_oldest_values _ _ _ _ D H).
  - destruct (drop_oldest_n (Z.to_nat (Z.max 0 (len c - n))) (items c)) as [its log] eqn:D. cbn [snd].
    intros H. left. exact (drop_oldest_n_values _ _ _ _ _ D H).
  - cbn [snd]. tauto.
  - cbn; tauto.
  - cbn; tauto.
Qed.
