(* C13 — correspondence.  case = ((cap ops [nocb [valkind [cbmode]]]) (obs ...)), obs = (out log len_after [viewbad]);
   nocb = 1: the cache was built without a callback (nothing may be logged, all else equal).
   The model (recency list) is compared with the implementation (VMismatch), and the
   reference LRU of Spec.v — the property's executable form — is evaluated against the
   implementation's own outputs (VPropFail), together with the capacity bound. *)
From Coq Require Import ZArith List Bool.
From FV Require Import Lib.Sx C13.Model C13.Spec.
Import ListNotations.
Open Scope Z_scope.

Definition dec_op (s : sx) : option op :=
  match s with
  | SList [SInt 0; SInt k; SInt v] => Some (Put k v)
  | SList [SInt 1; SInt k] => Some (Get k)
  | SList [SInt 2; SInt k] => Some (Peek k)
  | SList [SInt 3; SInt k] => Some (Contains k)
  | SList [SInt 4] => Some GetOldest
  | SList [SInt 5] => Some Keys
  | SList [SInt 6; SInt k] => Some (Remove k)
  | SList [SInt 6; SInt k; SInt _] => Some (Remove k)   (* performed from inside the callback of the op before it: takes effect right after it *)
  | SList [SInt 7] => Some RemoveOldest
  | SList [SInt 8; SInt n] => Some (Resize n)
  | SList [SInt 9] => Some Purge
  | SList [SInt 10] => Some Len
  | SList [SInt 11] => Some Cap
  | _ => None
  end.

Definition dec_out (s : sx) : option out :=
  match s with
  | SList [SInt 0; SInt b] => Some (OBool (negb (b =? 0)))
  | SList [SInt 1] => Some (OVal None)
  | SList [SInt 1; SInt v] => Some (OVal (Some v))
  | SList [SInt 2] => Some (OKV None)
  | SList [SInt 2; SInt k; SInt v] => Some (OKV (Some (k, v)))
  | SList [SInt 3; ks] => option_map OKeys (sx_ints ks)
  | SList [SInt 4; SInt n] => Some (OInt n)
  | SList [SInt 5] => Some OUnit
  | _ => None
  end.

Definition dec_kv (s : sx) : option (Z * Z) :=
  match s with SList [SInt k; SInt v] => Some (k, v) | _ => None end.

(* an observation: return value ([None]: the call panicked), callback arguments, Len() afterwards,
   and (callback mode 1) whether the callback saw its own entry still present / a wrong Len *)
Definition dec_obs (s : sx) : option (option out * list (Z * Z) * Z * Z) :=
  let mk o lg n vb :=
    match map_opt dec_kv lg with
    | Some lg' =>
        match o with
        | SList (SInt 99 :: _) => Some (None, lg', n, vb)
        | _ => match dec_out o with Some o' => Some (Some o', lg', n, vb) | None => None end
        end
    | None => None
    end in
  match s with
  | SList [o; SList lg; SInt n] => mk o lg n 0
  | SList [o; SList lg; SInt n; SInt vb] => mk o lg n vb
  | _ => None
  end.

Definition kv_eqb (a b : Z * Z) : bool := (fst a =? fst b) && (snd a =? snd b).
Definition okv_eqb (a b : option (Z * Z)) : bool :=
  match a, b with Some x, Some y => kv_eqb x y | None, None => true | _, _ => false end.
Definition oz_eqb (a b : option Z) : bool :=
  match a, b with Some x, Some y => x =? y | None, None => true | _, _ => false end.

Definition out_eqb (a b : out) : bool :=
  match a, b with
  | OBool x, OBool y => Bool.eqb x y
  | OVal x, OVal y => oz_eqb x y
  | OKV x, OKV y => okv_eqb x y
  | OKeys x, OKeys y => list_eqb Z.eqb x y
  | OInt x, OInt y => x =? y
  | OUnit, OUnit => true
  | _, _ => false
  end.

(* callback arguments: compared in order, except for Purge (map iteration order) where
   they are compared as multisets (sorted by key, value) *)
Fixpoint ins_kv (e : Z * Z) (l : list (Z * Z)) : list (Z * Z) :=
  match l with
  | [] => [e]
  | x :: r => if (fst e <? fst x) || ((fst e =? fst x) && (snd e <=? snd x)) then e :: l else x :: ins_kv e r
  end.
Definition sort_kv (l : list (Z * Z)) : list (Z * Z) := fold_right ins_kv [] l.

Definition log_eqb (o : op) (a b : list (Z * Z)) : bool :=
  match o with
  | Purge => list_eqb kv_eqb (sort_kv a) (sort_kv b)
  | _ => list_eqb kv_eqb a b
  end.

Definition opcode (o : op) : N :=
  match o with
  | Put _ _ => 0 | Get _ => 1 | Peek _ => 2 | Contains _ => 3 | GetOldest => 4 | Keys => 5
  | Remove _ => 6 | RemoveOldest => 7 | Resize _ => 8 | Purge => 9 | Len => 10 | Cap => 11
  end%N.

(* codes: 100+opcode = return value, 200+opcode = callback arguments, 300 = length,
   400 = capacity bound, 500 = the callback ran while its entry was still in the cache (or Len
   was not what it is once the entry has left), 600 = a call panicked although no callback of
   this history panics in it.
   cbmode 3: the callback panics after recording its arguments; the caller recovers.  The call's
   return value is then lost (not compared), everything else must be as if the callback had
   returned. *)
Fixpoint walk (nocb : bool) (cbmode : Z) (c : cache) (s : spec) (ops : list op)
         (obs : list (option out * list (Z * Z) * Z * Z)) : verdict :=
  match ops, obs with
  | [], [] => VOk
  | o :: ops', (io, ilog, ilen, vbad) :: obs' =>
      let '(c1, mo, mlog0) := step c o in
      let '(s1, so, slog0) := sstep s o in
      let mlog := if nocb then [] else mlog0 in
      let slog := if nocb then [] else slog0 in
      let code := opcode o in
      let may_panic := (cbmode =? 3) && negb (match slog with [] => true | _ => false end) in
      let v :=
        vjoin (match io with
               | Some io' => check_that (out_eqb so io') (VPropFail (100 + code))
               | None => check_that may_panic (VPropFail 600)
               end)
       (vjoin (check_that (log_eqb o slog ilog) (VPropFail (200 + code)))
       (vjoin (check_that (ilen =? Z.of_nat (length (stab s1))) (VPropFail 300))
       (vjoin (check_that (ilen <=? Z.max 0 (scap s1)) (VPropFail 400))
       (vjoin (check_that (vbad =? 0) (VPropFail 500))
       (vjoin (match io with
               | Some io' => check_that (out_eqb mo io') (VMismatch (100 + code))
               | None => VOk
               end)
       (vjoin (check_that (log_eqb o mlog ilog) (VMismatch (200 + code)))
              (check_that (ilen =? len c1) (VMismatch 300)))))))) in
      match v with
      | VOk => walk nocb cbmode c1 s1 ops' obs'
      | _ => v
      end
  | _, _ => VBad
  end.

Definition check_with (nocb : bool) (cbmode cap0 : Z) (ops obs : list sx) : verdict :=
  match map_opt dec_op ops, map_opt dec_obs obs with
  | Some ops', Some obs' => walk nocb cbmode (new_cache cap0) (new_spec cap0) ops' obs'
  | _, _ => VBad
  end.

Definition check (c : sx) : verdict :=
  match c with
  | SList [SList [SInt cap0; SList ops]; SList obs] => check_with false 0 cap0 ops obs
  | SList [SList [SInt cap0; SList ops; SInt nocb]; SList obs]
  | SList [SList [SInt cap0; SList ops; SInt nocb; SInt _]; SList obs] => check_with (negb (nocb =? 0)) 0 cap0 ops obs
  | SList [SList [SInt cap0; SList ops; SInt nocb; SInt _; SInt cbmode]; SList obs] =>
      check_with (negb (nocb =? 0)) cbmode cap0 ops obs
  | _ => VBad
  end.
