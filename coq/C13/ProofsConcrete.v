(* C13 — the element-level model (Concrete.v) keeps its key index and its list in agreement
   (representation invariant [Rep]) and refines the recency-list model (Model.v) operation by
   operation and history by history. *)
From Coq Require Import ZArith List Bool Arith Lia Permutation.
From FV Require Import C13.Model C13.Refine C13.Concrete.
Import ListNotations.
Open Scope Z_scope.

(* ---------- the store ---------- *)

Lemma sget_sset_eq id e s : sget id (sset id e s) = e.
Proof. unfold sget, sset. cbn [sfind]. rewrite Nat.eqb_refl. reflexivity. Qed.

Lemma sfind_sset_neq id j e s : j <> id -> sfind j (sset id e s) = sfind j s.
Proof.
  intros N. unfold sset. cbn [sfind]. destruct (Nat.eqb_spec id j) as [E|E]; [congruence | reflexivity].
Qed.

Lemma sget_sset_neq id j e s : j <> id -> sget j (sset id e s) = sget j s.
Proof. intros N. unfold sget. rewrite sfind_sset_neq by exact N. reflexivity. Qed.

Definition A (st : list (nat * centry)) (l : list nat) : list (Z * Z) := map (fun id => sget id st) l.

Lemma A_sset_notin id e st l : ~ In id l -> A (sset id e st) l = A st l.
Proof.
  intros N. unfold A. apply map_ext_in. intros j Hj. apply sget_sset_neq. intros ->. exact (N Hj).
Qed.

Lemma in_A_keys st l k : In k (map fst (A st l)) -> exists id, In id l /\ fst (sget id st) = k.
Proof.
  unfold A. rewrite map_map. intros H. apply in_map_iff in H. destruct H as [id [E Hi]].
  exists id. split; assumption.
Qed.

Lemma A_keys_in st l id : In id l -> In (fst (sget id st)) (map fst (A st l)).
Proof. intros H. unfold A. rewrite map_map. apply in_map_iff. exists id. split; [reflexivity | exact H]. Qed.

(* keys are unique along the list: the key determines the element *)
Lemma A_key_inj st l a b :
  NoDup (map fst (A st l)) -> In a l -> In b l -> fst (sget a st) = fst (sget b st) -> a = b.
Proof.
  induction l as [|x r IH]; cbn [A map In]; [tauto|].
  intros ND Ha Hb E. inversion ND as [|? ? Hx ND']; subst.
  destruct Ha as [->|Ha], Hb as [->|Hb].
  - reflexivity.
  - exfalso. apply Hx. rewrite E. apply A_keys_in. exact Hb.
  - exfalso. apply Hx. rewrite <- E. apply A_keys_in. exact Ha.
  - exact (IH ND' Ha Hb E).
Qed.

(* ---------- the map ---------- *)

Lemma ifind_idel k j m : ifind j (idel k m) = if j =? k then None else ifind j m.
Proof.
  induction m as [|[i id] r IH]; cbn [idel ifind].
  - destruct (j =? k); reflexivity.
  - destruct (Z.eqb_spec i k) as [E|E].
    + rewrite IH. destruct (Z.eqb_spec j k) as [F|F]; [reflexivity|].
      destruct (Z.eqb_spec i j) as [G|G]; [congruence | reflexivity].
    + cbn [ifind]. rewrite IH. destruct (Z.eqb_spec i j) as [G|G]; [|reflexivity].
      destruct (Z.eqb_spec j k) as [F|F]; [congruence | reflexivity].
Qed.

Lemma idel_keys_incl k j m : In j (map fst (idel k m)) -> In j (map fst m) /\ j <> k.
Proof.
  induction m as [|[i id] r IH]; cbn [idel map In fst]; [tauto|].
  destruct (Z.eqb_spec i k) as [E|E].
  - intros H. destruct (IH H). tauto.
  - cbn [map In fst]. intros [<-|H]; [tauto|]. destruct (IH H). tauto.
Qed.

Lemma idel_keys_nodup k m : NoDup (map fst m) -> NoDup (map fst (idel k m)).
Proof.
  induction m as [|[i id] r IH]; cbn [idel map fst]; [tauto|].
  intros ND. inversion ND as [|? ? Hx ND']; subst.
  destruct (i =? k); [exact (IH ND')|].
  cbn [map fst]. constructor; [|exact (IH ND')].
  intros H. apply Hx. exact (proj1 (idel_keys_incl _ _ _ H)).
Qed.

Lemma ifind_in m : NoDup (map fst m) -> forall k id, In (k, id) m <-> ifind k m = Some id.
Proof.
  induction m as [|[i x] r IH]; cbn [map fst ifind In]; intros ND k id.
  - split; [tauto | discriminate].
  - inversion ND as [|? ? Hx ND']; subst.
    destruct (Z.eqb_spec i k) as [E|E].
    + subst i. split.
      * intros [H|H]; [congruence|]. exfalso. apply Hx. apply in_map_iff. exists (k, id). split; [reflexivity | exact H].
      * intros [= ->]. left. reflexivity.
    + rewrite <- (IH ND'). split; [intros [H|H]; [congruence | exact H] | intros H; right; exact H].
Qed.

(* ---------- the list ---------- *)

Lemma lmem_in id l : lmem id l = true <-> In id l.
Proof.
  unfold lmem. rewrite existsb_exists. split.
  - intros [x [Hx E]]. apply Nat.eqb_eq in E. subst. exact Hx.
  - intros H. exists id. split; [exact H | apply Nat.eqb_refl].
Qed.

Lemma lremove_perm id l : In id l -> Permutation l (id :: lremove id l).
Proof.
  induction l as [|x r IH]; cbn [In lremove]; [tauto|].
  destruct (Nat.eqb_spec x id) as [E|E].
  - subst. intros _. apply Permutation_refl.
  - intros [H|H]; [congruence|]. eapply perm_trans; [apply perm_skip, (IH H) | apply perm_swap].
Qed.

Lemma lremove_incl id l x : In x (lremove id l) -> In x l.
Proof.
  induction l as [|y r IH]; cbn [lremove]; [tauto|].
  destruct (Nat.eqb y id); cbn [In]; tauto.
Qed.

Lemma lremove_snoc id l : ~ In id l -> lremove id (l ++ [id]) = l.
Proof.
  induction l as [|x r IH]; cbn [lremove app In]; intros N.
  - rewrite Nat.eqb_refl. reflexivity.
  - destruct (Nat.eqb_spec x id) as [E|E]; [tauto|]. rewrite IH by tauto. reflexivity.
Qed.

Lemma back_some l id : back l = Some id -> exists r, l = r ++ [id].
Proof.
  unfold back. intros H. destruct (rev l) as [|x r] eqn:E; cbn [hd_error] in H; [discriminate|].
  injection H as ->. exists (rev r). rewrite <- (rev_involutive l), E. reflexivity.
Qed.

Lemma back_in l id : back l = Some id -> In id l.
Proof. intros H. destruct (back_some _ _ H) as [r ->]. apply in_or_app. right. left. reflexivity. Qed.

Lemma back_none l : back l = None -> l = [].
Proof.
  unfold back. intros H. destruct (rev l) as [|x r] eqn:E; [|discriminate].
  rewrite <- (rev_involutive l), E. reflexivity.
Qed.

(* ---------- Model.v's list functions, seen through kv ---------- *)

Fixpoint pfind (k : Z) (l : list (Z * Z)) : option (Z * Z) :=
  match l with
  | [] => None
  | e :: r => if fst e =? k then Some e else pfind k r
  end.
Fixpoint premove (k : Z) (l : list (Z * Z)) : list (Z * Z) :=
  match l with
  | [] => []
  | e :: r => if fst e =? k then r else e :: premove k r
  end.
Definition pdrop (l : list (Z * Z)) : list (Z * Z) * list (Z * Z) :=
  match rev l with
  | [] => (l, [])
  | e :: r => (rev r, [e])
  end.

Lemma find_kv k l : option_map kv (find k l) = pfind k (map kv l).
Proof.
  induction l as [|e r IH]; cbn [find map pfind option_map]; [reflexivity|].
  change (fst (kv e)) with (ekey e). destruct (ekey e =? k); [reflexivity | exact IH].
Qed.

Lemma remove_key_kv k l : map kv (remove_key k l) = premove k (map kv l).
Proof.
  induction l as [|e r IH]; cbn [remove_key map premove]; [reflexivity|].
  change (fst (kv e)) with (ekey e). destruct (ekey e =? k); [reflexivity|].
  cbn [map]. rewrite IH. reflexivity.
Qed.

Lemma drop_oldest_kv l : pdrop (map kv l) = (map kv (fst (drop_oldest l)), snd (drop_oldest l)).
Proof.
  unfold pdrop, drop_oldest. rewrite <- map_rev.
  destruct (rev l) as [|e r]; cbn [map fst snd]; [reflexivity|].
  rewrite map_rev. reflexivity.
Qed.

(* ---------- the same functions on the concrete state ---------- *)

Lemma pfind_A st l id k :
  NoDup (map fst (A st l)) -> In id l -> fst (sget id st) = k -> pfind k (A st l) = Some (sget id st).
Proof.
  induction l as [|x r IH]; cbn [A map In pfind]; [tauto|].
  intros ND Hi Hk. inversion ND as [|? ? Hx ND']; subst.
  destruct (Z.eqb_spec (fst (sget x st)) (fst (sget id st))) as [E|E].
  - destruct Hi as [->|Hi]; [reflexivity|].
    exfalso. apply Hx. rewrite E. apply A_keys_in. exact Hi.
  - destruct Hi as [->|Hi]; [congruence|]. exact (IH ND' Hi eq_refl).
Qed.

Lemma pfind_A_none st l k :
  (forall id, In id l -> fst (sget id st) <> k) -> pfind k (A st l) = None.
Proof.
  induction l as [|x r IH]; cbn [A map pfind]; intros H; [reflexivity|].
  destruct (Z.eqb_spec (fst (sget x st)) k) as [E|E].
  - exfalso. exact (H x (or_introl eq_refl) E).
  - apply IH. intros id Hi. apply H. right. exact Hi.
Qed.

Lemma premove_A st l id :
  NoDup (map fst (A st l)) -> In id l -> premove (fst (sget id st)) (A st l) = A st (lremove id l).
Proof.
  induction l as [|x r IH]; cbn [A map In premove lremove]; [tauto|].
  intros ND Hi. inversion ND as [|? ? Hx ND']; subst.
  destruct (Z.eqb_spec (fst (sget x st)) (fst (sget id st))) as [E|E].
  - destruct (Nat.eqb_spec x id) as [F|F]; [reflexivity|].
    destruct Hi as [->|Hi]; [congruence|].
    exfalso. apply Hx. rewrite E. apply A_keys_in. exact Hi.
  - destruct (Nat.eqb_spec x id) as [F|F]; [subst; congruence|].
    destruct Hi as [->|Hi]; [congruence|].
    cbn [map]. apply f_equal. exact (IH ND' Hi).
Qed.

Lemma pdrop_A st l : NoDup l ->
  pdrop (A st l) = match back l with
                   | Some id => (A st (lremove id l), [sget id st])
                   | None => (A st l, [])
                   end.
Proof.
  intros ND. destruct (back l) as [id|] eqn:B.
  - destruct (back_some _ _ B) as [r ->].
    assert (N : ~ In id r).
    { apply NoDup_remove_2 in ND. rewrite app_nil_r in ND. exact ND. }
    rewrite lremove_snoc by exact N.
    unfold pdrop, A. rewrite <- map_rev, rev_unit. cbn [map]. rewrite map_rev, rev_involutive. reflexivity.
  - apply back_none in B. subst. reflexivity.
Qed.

(* ---------- the representation invariant ---------- *)

Record Rep (cs : cstate) : Prop := {
  rep_nodup : NoDup (lst cs);                                   (* an element is in the list once *)
  rep_store : forall id, In id (lst cs) -> sfind id (store cs) <> None;   (* every element has its *Entry *)
  rep_keys : NoDup (map fst (abs cs));                          (* no two elements hold the same key *)
  rep_idx : forall k id, ifind k (idx cs) = Some id <->         (* the map sends exactly the keys of the list, *)
                         In id (lst cs) /\ fst (sget id (store cs)) = k;   (* each to the element holding it *)
  rep_idx_nodup : NoDup (map fst (idx cs));                     (* a map has one binding per key *)
  rep_next : forall id, In id (lst cs) -> (id < next cs)%nat    (* ids in use are below the fresh one *)
}.

Lemma rep_new size : Rep (cnew size).
Proof.
  constructor; cbn; try constructor; try tauto.
  discriminate.
Qed.

(* the list is permuted (MoveToFront) *)
Lemma rep_perm c l l' st ix nx :
  Rep (cmk c l st ix nx) -> Permutation l l' -> Rep (cmk c l' st ix nx).
Proof.
  intros [ND ST KS IX IN NX] P. cbn in *.
  assert (I : forall x, In x l' <-> In x l).
  { intros x. split; [apply Permutation_in, Permutation_sym, P | apply Permutation_in, P]. }
  constructor; cbn [ccap lst store idx next].
  - exact (Permutation_NoDup P ND).
  - intros id H. apply ST, I, H.
  - unfold abs in *. cbn [ccap lst store idx next] in *. refine (Permutation_NoDup _ KS). apply Permutation_map, Permutation_map, P.
  - intros k id. rewrite IX, I. tauto.
  - exact IN.
  - intros id H. apply NX, I, H.
Qed.

Lemma rep_touch c l st ix nx id :
  Rep (cmk c l st ix nx) -> Rep (cmk c (move_to_front id l) st ix nx).
Proof.
  intros H. unfold move_to_front. destruct (lmem id l) eqn:M; [|exact H].
  apply lmem_in in M. exact (rep_perm _ _ _ _ _ _ H (lremove_perm _ _ M)).
Qed.

(* the value of an element is overwritten, its key kept *)
Lemma key_setval st id v j : fst (sget j (sset id (fst (sget id st), v) st)) = fst (sget j st).
Proof.
  destruct (Nat.eq_dec j id) as [->|N].
  - rewrite sget_sset_eq. reflexivity.
  - rewrite sget_sset_neq by exact N. reflexivity.
Qed.

Lemma rep_setval c l st ix nx id v :
  Rep (cmk c l st ix nx) -> Rep (cmk c l (sset id (fst (sget id st), v) st) ix nx).
Proof.
  intros [ND ST KS IX IN NX]. cbn in *. constructor; cbn [ccap lst store idx next]; try assumption.
  - intros j Hj. destruct (Nat.eq_dec j id) as [->|N].
    + unfold sset. cbn [sfind]. rewrite Nat.eqb_refl. discriminate.
    + rewrite sfind_sset_neq by exact N. exact (ST j Hj).
  - unfold abs in *. cbn [ccap lst store idx next] in *. rewrite map_map in *.
    erewrite map_ext; [exact KS|]. intros j. cbn beta. apply key_setval.
  - intros k j. rewrite key_setval. apply IX.
Qed.

(* a new element: PushFront + items[key] = e, for a key the map does not hold *)
Lemma rep_insert c l st ix nx k v :
  Rep (cmk c l st ix nx) -> ifind k ix = None ->
  Rep (cmk c (push_front nx l) (sset nx (k, v) st) (iset k nx ix) (S nx)).
Proof.
  intros [ND ST KS IX IN NX] F. cbn in *. unfold push_front.
  assert (N : ~ In nx l). { intros H. apply NX in H. lia. }
  assert (K : ~ In k (map fst (A st l))).
  { intros H. apply in_A_keys in H. destruct H as [id [Hi Hk]].
    assert (G : ifind k ix = Some id) by (apply IX; split; assumption). congruence. }
  constructor; cbn [ccap lst store idx next].
  - constructor; assumption.
  - intros j [<-|Hj].
    + unfold sset. cbn [sfind]. rewrite Nat.eqb_refl. discriminate.
    + rewrite sfind_sset_neq by (intros ->; exact (N Hj)). exact (ST j Hj).
  - unfold abs. cbn [ccap lst store idx next map]. rewrite sget_sset_eq. fold (A (sset nx (k, v) st) l).
    rewrite A_sset_notin by exact N. cbn [fst]. constructor; [exact K | exact KS].
  - intros j id. unfold iset. cbn [ifind]. destruct (Z.eqb_spec k j) as [E|E].
    + subst j. split.
      * intros [= <-]. split; [left; reflexivity | rewrite sget_sset_eq; reflexivity].
      * intros [[<-|Hi] Hk]; [reflexivity|]. exfalso.
        rewrite sget_sset_neq in Hk by (intros ->; exact (N Hi)).
        assert (G : ifind k ix = Some id) by (apply IX; split; assumption). congruence.
    + rewrite ifind_idel. destruct (Z.eqb_spec j k) as [G|G]; [congruence|].
      rewrite IX. split.
      * intros [Hi Hk]. split; [right; exact Hi|].
        rewrite sget_sset_neq by (intros ->; exact (N Hi)). exact Hk.
      * intros [[<-|Hi] Hk].
        -- rewrite sget_sset_eq in Hk. cbn [fst] in Hk. congruence.
        -- rewrite sget_sset_neq in Hk by (intros ->; exact (N Hi)). split; assumption.
  - unfold iset. cbn [map fst]. constructor.
    + intros H. apply idel_keys_incl in H. tauto.
    + apply idel_keys_nodup. exact IN.
  - intros id [<-|H]; [lia|]. apply NX in H. lia.
Qed.

Lemma lremove_in l id x : NoDup l -> (In x (lremove id l) <-> In x l /\ x <> id).
Proof.
  induction l as [|y r IH]; cbn [lremove In]; intros ND; [tauto|].
  inversion ND as [|? ? Hy ND']; subst.
  destruct (Nat.eqb_spec y id) as [E|E].
  - subst y. split; [intros H; split; [right; exact H | intros ->; exact (Hy H)] | intros [[H|H] N]; [congruence | exact H]].
  - cbn [In]. rewrite (IH ND'). split.
    + intros [H|[H N]]; [subst; tauto | tauto].
    + intros [[H|H] N]; [left; exact H | right; tauto].
Qed.

Lemma lremove_nodup l id : NoDup l -> NoDup (lremove id l).
Proof.
  induction l as [|y r IH]; cbn [lremove]; intros ND; [constructor|].
  inversion ND as [|? ? Hy ND']; subst.
  destruct (Nat.eqb y id); [exact ND'|]. constructor; [|exact (IH ND')].
  intros H. apply Hy. exact (lremove_incl _ _ _ H).
Qed.

Lemma lremove_map_nodup {B} (f : nat -> B) l id : NoDup (map f l) -> NoDup (map f (lremove id l)).
Proof.
  induction l as [|y r IH]; cbn [lremove map]; intros ND; [constructor|].
  inversion ND as [|? ? Hy ND']; subst.
  destruct (Nat.eqb y id); [exact ND'|]. cbn [map]. constructor; [|exact (IH ND')].
  intros H. apply Hy. apply in_map_iff in H. destruct H as [x [E Hx]].
  apply in_map_iff. exists x. split; [exact E | exact (lremove_incl _ _ _ Hx)].
Qed.

(* removeElement: list remove + map delete *)
Lemma rep_remove c l st ix nx id :
  Rep (cmk c l st ix nx) -> In id l ->
  Rep (cmk c (lremove id l) st (idel (fst (sget id st)) ix) nx).
Proof.
  intros [ND ST KS IX IN NX] Hi. cbn in *. constructor; cbn [ccap lst store idx next].
  - exact (lremove_nodup _ _ ND).
  - intros j Hj. exact (ST j (lremove_incl _ _ _ Hj)).
  - unfold abs in *. cbn [ccap lst store idx next] in *. rewrite map_map in *. apply lremove_map_nodup. exact KS.
  - intros k j. rewrite ifind_idel, (lremove_in _ _ _ ND).
    destruct (Z.eqb_spec k (fst (sget id st))) as [E|E].
    + split; [discriminate|]. intros [[Hj N] Hk]. exfalso. apply N.
      apply (A_key_inj st l); [exact KS | exact Hj | exact Hi | congruence].
    + rewrite IX. split; [|tauto]. intros [Hj Hk]. split; [split; [exact Hj|] | exact Hk].
      intros ->. congruence.
  - apply idel_keys_nodup. exact IN.
  - intros j Hj. exact (NX j (lremove_incl _ _ _ Hj)).
Qed.

Lemma rep_remove_element cs id : Rep cs -> In id (lst cs) -> Rep (fst (remove_element cs id)).
Proof. destruct cs. cbn. apply rep_remove. Qed.

Lemma rep_remove_oldest cs : Rep cs -> Rep (fst (remove_oldest cs)).
Proof.
  intros H. unfold remove_oldest. destruct (back (lst cs)) as [id|] eqn:B; [|exact H].
  apply rep_remove_element; [exact H | exact (back_in _ _ B)].
Qed.

Lemma rep_remove_oldest_n n : forall cs, Rep cs -> Rep (fst (remove_oldest_n n cs)).
Proof.
  induction n as [|n IH]; intros cs H; cbn [remove_oldest_n]; [exact H|].
  pose proof (rep_remove_oldest cs H) as H1. destruct (remove_oldest cs) as [c1 l1]. cbn [fst] in H1.
  pose proof (IH c1 H1) as H2. destruct (remove_oldest_n n c1) as [c2 l2]. exact H2.
Qed.

Lemma rep_cap c c' l st ix nx : Rep (cmk c l st ix nx) -> Rep (cmk c' l st ix nx).
Proof. intros [ND ST KS IX IN NX]. constructor; assumption. Qed.

Lemma rep_step cs o : Rep cs -> Rep (fst (fst (cstep cs o))).
Proof.
  intros H. destruct o; cbn [cstep]; try exact H.
  - (* Put *) destruct (ifind k (idx cs)) as [id|] eqn:F; cbn [fst].
    + destruct cs as [c l st ix nx]. cbn in *. apply rep_touch, rep_setval, H.
    + destruct cs as [c l st ix nx]. cbn [ccap lst store idx next] in *.
      pose proof (rep_insert _ _ _ _ _ k v H F) as H1.
      match goal with |- context [if ?b then _ else _] => destruct b end; [|exact H1].
      pose proof (rep_remove_oldest _ H1) as H2.
      match goal with |- context [remove_oldest ?x] => destruct (remove_oldest x) as [c2 lg] end. exact H2.
  - (* Get *) destruct (ifind k (idx cs)) as [id|] eqn:F; cbn [fst]; [|exact H].
    destruct cs as [c l st ix nx]. cbn in *. apply rep_touch, H.
  - (* Remove *) destruct (ifind k (idx cs)) as [id|] eqn:F; cbn [fst]; [|exact H].
    apply (rep_idx _ H) in F. exact (rep_remove_element cs id H (proj1 F)).
  - (* RemoveOldest *) destruct (back (lst cs)) as [id|] eqn:B; cbn [fst]; [|exact H].
    exact (rep_remove_element cs id H (back_in _ _ B)).
  - (* Resize *) pose proof (rep_remove_oldest_n (Z.to_nat (Z.max 0 (clen cs - n))) cs H) as H1.
    destruct (remove_oldest_n (Z.to_nat (Z.max 0 (clen cs - n))) cs) as [c1 lg]. cbn [fst] in *.
    destruct c1. cbn. exact (rep_cap _ _ _ _ _ _ H1).
  - (* Purge *) destruct H as [ND ST KS IX IN NX]. constructor; cbn; try constructor; try tauto.
    discriminate.
Qed.

Lemma rep_after ops : forall cs, Rep cs -> Rep (cstate_after cs ops).
Proof.
  unfold cstate_after. induction ops as [|o r IH]; intros cs H; cbn [fold_left]; [exact H|].
  apply IH, rep_step, H.
Qed.

(* ---------- simulation: Concrete.cstep against Model.step ---------- *)

Definition CR (cs : cstate) (c : cache) : Prop :=
  Rep cs /\ abs cs = map kv (items c) /\ ccap cs = cap c.

Lemma lookup_some cs its k id :
  Rep cs -> abs cs = map kv its -> ifind k (idx cs) = Some id ->
  exists e, find k its = Some e /\ kv e = sget id (store cs) /\ In id (lst cs) /\ fst (sget id (store cs)) = k.
Proof.
  intros H E F. apply (rep_idx _ H) in F. destruct F as [Hi Hk].
  pose proof (pfind_A (store cs) (lst cs) id k (rep_keys _ H) Hi Hk) as P.
  change (A (store cs) (lst cs)) with (abs cs) in P. rewrite E, <- find_kv in P.
  destruct (find k its) as [e|]; [|discriminate]. cbn [option_map] in P. injection P as P.
  exists e. repeat split; assumption.
Qed.

Lemma lookup_none cs its k :
  Rep cs -> abs cs = map kv its -> ifind k (idx cs) = None -> find k its = None.
Proof.
  intros H E F.
  assert (P : pfind k (A (store cs) (lst cs)) = None).
  { apply pfind_A_none. intros id Hi Hk.
    assert (G : ifind k (idx cs) = Some id) by (apply (rep_idx _ H); split; assumption). congruence. }
  change (A (store cs) (lst cs)) with (abs cs) in P. rewrite E, <- find_kv in P.
  destruct (find k its); [discriminate | reflexivity].
Qed.

Lemma A_touch st l id :
  NoDup (map fst (A st l)) -> In id l ->
  A st (move_to_front id l) = sget id st :: premove (fst (sget id st)) (A st l).
Proof.
  intros ND Hi. unfold move_to_front. rewrite (proj2 (lmem_in id l) Hi).
  rewrite premove_A by assumption. reflexivity.
Qed.

Lemma abs_remove_element cs id :
  Rep cs -> In id (lst cs) ->
  abs (fst (remove_element cs id)) = premove (fst (sget id (store cs))) (abs cs).
Proof.
  intros H Hi. unfold abs, remove_element. cbn [fst lst store].
  symmetry. exact (premove_A _ _ _ (rep_keys _ H) Hi).
Qed.

Lemma remove_oldest_sim cs its :
  Rep cs -> abs cs = map kv its ->
  abs (fst (remove_oldest cs)) = map kv (fst (drop_oldest its)) /\
  snd (remove_oldest cs) = snd (drop_oldest its).
Proof.
  intros H E. pose proof (pdrop_A (store cs) (lst cs) (rep_nodup _ H)) as P.
  change (A (store cs) (lst cs)) with (abs cs) in P. rewrite E, drop_oldest_kv in P. unfold remove_oldest.
  destruct (back (lst cs)) as [id|]; injection P as P1 P2; cbn [fst snd remove_element]; split.
  - symmetry. exact P1.
  - symmetry. exact P2.
  - rewrite P1. exact E.
  - symmetry. exact P2.
Qed.

Lemma ccap_remove_oldest cs : ccap (fst (remove_oldest cs)) = ccap cs.
Proof. unfold remove_oldest. destruct (back (lst cs)); reflexivity. Qed.

Lemma ccap_remove_oldest_n n : forall cs, ccap (fst (remove_oldest_n n cs)) = ccap cs.
Proof.
  induction n as [|n IH]; intros cs; cbn [remove_oldest_n]; [reflexivity|].
  pose proof (ccap_remove_oldest cs) as H1. destruct (remove_oldest cs) as [c1 l1].
  pose proof (IH c1) as H2. destruct (remove_oldest_n n c1) as [c2 l2]. cbn [fst] in *. congruence.
Qed.

Lemma remove_oldest_n_sim n : forall cs its,
  Rep cs -> abs cs = map kv its ->
  abs (fst (remove_oldest_n n cs)) = map kv (fst (drop_oldest_n n its)) /\
  snd (remove_oldest_n n cs) = snd (drop_oldest_n n its).
Proof.
  induction n as [|n IH]; intros cs its H E; cbn [remove_oldest_n drop_oldest_n]; [split; [exact E | reflexivity]|].
  destruct (remove_oldest_sim cs its H E) as [E1 L1].
  pose proof (rep_remove_oldest cs H) as H1.
  destruct (remove_oldest cs) as [c1 l1]. destruct (drop_oldest its) as [i1 g1]. cbn [fst snd] in *.
  destruct (IH c1 i1 H1 E1) as [E2 L2].
  destruct (remove_oldest_n n c1) as [c2 l2]. destruct (drop_oldest_n n i1) as [i2 g2]. cbn [fst snd] in *.
  split; [exact E2 | congruence].
Qed.

Lemma abs_length cs its : abs cs = map kv its -> length (lst cs) = length its.
Proof. intros E. apply (f_equal (@length _)) in E. unfold abs in E. rewrite !map_length in E. exact E. Qed.

Lemma purge_log_perm cs : Rep cs ->
  Permutation (map (fun p => (fst p, snd (sget (snd p) (store cs)))) (idx cs)) (abs cs).
Proof.
  intros H. apply NoDup_Permutation.
  - apply (NoDup_map_inv fst). rewrite map_map. cbn [fst].
    erewrite map_ext; [exact (rep_idx_nodup _ H) | reflexivity].
  - apply (NoDup_map_inv fst). exact (rep_keys _ H).
  - intros [k v]. unfold abs. rewrite !in_map_iff. split.
    + intros [[k' id] [E Hi]]. cbn [fst snd] in E. injection E as -> <-.
      apply (ifind_in _ (rep_idx_nodup _ H)) in Hi. apply (rep_idx _ H) in Hi. destruct Hi as [Hi Hk].
      exists id. split; [|exact Hi]. rewrite <- Hk. destruct (sget id (store cs)). reflexivity.
    + intros [id [E Hi]]. exists (k, id). cbn [fst snd]. split; [rewrite E; reflexivity|].
      apply (ifind_in _ (rep_idx_nodup _ H)). apply (rep_idx _ H). split; [exact Hi | rewrite E; reflexivity].
Qed.

Lemma hd_error_map {X Y} (f : X -> Y) l : option_map f (hd_error l) = hd_error (map f l).
Proof. destruct l; reflexivity. Qed.

Lemma sim_step cs c o : CR cs c ->
  snd (fst (cstep cs o)) = snd (fst (step c o)) /\
  log_equiv o (snd (cstep cs o)) (snd (step c o)) /\
  CR (fst (fst (cstep cs o))) (fst (fst (step c o))).
Proof.
  intros [H [E C]]. pose proof (rep_step cs o H) as HS.
  destruct o; cbn [cstep step log_equiv] in *.
  - (* Put *)
    destruct (ifind k (idx cs)) as [id|] eqn:F.
    + destruct (lookup_some cs _ k id H E F) as [e [Fe [Ke [Hi Hk]]]]. rewrite Fe.
      cbn [fst snd] in *. refine (conj eq_refl (conj eq_refl (conj HS (conj _ C)))).
      unfold abs. cbn [lst store items map].
      fold (A (sset id (fst (sget id (store cs)), v) (store cs)) (move_to_front id (lst cs))).
      unfold move_to_front. rewrite (proj2 (lmem_in id (lst cs)) Hi). cbn [A map].
      rewrite sget_sset_eq. fold (A (sset id (fst (sget id (store cs)), v) (store cs)) (lremove id (lst cs))).
      rewrite A_sset_notin by (intros X; apply (lremove_in _ _ _ (rep_nodup _ H)) in X; tauto).
      rewrite <- (premove_A _ _ _ (rep_keys _ H) Hi). change (A (store cs) (lst cs)) with (abs cs). rewrite E, Hk, remove_key_kv. reflexivity.
    + clear HS. rewrite (lookup_none cs _ k H E F). unfold clen, push_front. cbn [lst ccap length].
      rewrite (abs_length _ _ E), C.
      destruct cs as [cc l st ix nx]. cbn [ccap lst store idx next] in *. subst cc.
      pose proof (rep_insert _ _ _ _ _ k v H F) as H1. unfold push_front in H1.
      assert (E1 : abs (cmk (cap c) (nx :: l) (sset nx (k, v) st) (iset k nx ix) (S nx)) = map kv ((k, v, clock c) :: items c)).
      { unfold abs. cbn [lst store map]. rewrite sget_sset_eq.
        fold (A (sset nx (k, v) st) l).
        rewrite A_sset_notin by (intros X; apply (rep_next _ H) in X; cbn [next] in X; lia).
        unfold abs in E. cbn [lst store] in E. unfold A. rewrite E. reflexivity. }
      change (@length (Z * Z * nat)%type (items c)) with (@length entry (items c)). destruct (Z.of_nat (S (length (items c))) >? cap c) eqn:G.
      * pose proof (rep_remove_oldest _ H1) as H2.
        destruct (remove_oldest_sim _ _ H1 E1) as [E2 L2].
        pose proof (ccap_remove_oldest (cmk (cap c) (nx :: l) (sset nx (k, v) st) (iset k nx ix) (S nx))) as C2.
        destruct (remove_oldest _) as [c2 l2]. destruct (drop_oldest _) as [i2 g2]. cbn [fst snd] in *.
        refine (conj eq_refl (conj L2 (conj H2 (conj E2 C2)))).
      * cbn [fst snd] in *. refine (conj eq_refl (conj eq_refl (conj H1 (conj E1 eq_refl)))).
  - (* Get *)
    destruct (ifind k (idx cs)) as [id|] eqn:F.
    + destruct (lookup_some cs _ k id H E F) as [e [Fe [Ke [Hi Hk]]]]. rewrite Fe.
      cbn [fst snd] in *. rewrite <- Ke in Hk. cbn [kv fst] in Hk.
      refine (conj _ (conj eq_refl (conj HS (conj _ C)))).
      * rewrite <- Ke. reflexivity.
      * unfold abs. cbn [lst store items].
        change (A (store cs) (move_to_front id (lst cs)) = map kv ((k, eval e, clock c) :: remove_key k (items c))).
        rewrite (A_touch _ _ _ (rep_keys _ H) Hi). change (A (store cs) (lst cs)) with (abs cs).
        rewrite E, <- Ke. cbn [map]. rewrite remove_key_kv. change (fst (kv e)) with (ekey e). rewrite Hk. f_equal. destruct e as [[a b] t]. cbn in *. subst a. reflexivity.
    + rewrite (lookup_none cs _ k H E F). exact (conj eq_refl (conj eq_refl (conj H (conj E C)))).
  - (* Peek *)
    refine (conj _ (conj eq_refl (conj H (conj E C)))).
    destruct (ifind k (idx cs)) as [id|] eqn:F.
    + destruct (lookup_some cs _ k id H E F) as [e [Fe [Ke _]]]. rewrite Fe. cbn [option_map].
      rewrite <- Ke. reflexivity.
    + rewrite (lookup_none cs _ k H E F). reflexivity.
  - (* Contains *)
    refine (conj _ (conj eq_refl (conj H (conj E C)))).
    destruct (ifind k (idx cs)) as [id|] eqn:F.
    + destruct (lookup_some cs _ k id H E F) as [e [Fe _]]. rewrite Fe. reflexivity.
    + rewrite (lookup_none cs _ k H E F). reflexivity.
  - (* GetOldest *)
    refine (conj _ (conj eq_refl (conj H (conj E C)))). cbn [fst snd]. f_equal.
    unfold back. rewrite !hd_error_map, !map_rev. change (map (fun id => sget id (store cs)) (lst cs)) with (abs cs). rewrite E. reflexivity.
  - (* Keys *)
    refine (conj _ (conj eq_refl (conj H (conj E C)))). cbn [fst snd]. f_equal.
    transitivity (map fst (rev (abs cs))).
    + unfold abs. rewrite <- map_rev, map_map. reflexivity.
    + rewrite E, <- map_rev, map_map. reflexivity.
  - (* Remove *)
    destruct (ifind k (idx cs)) as [id|] eqn:F.
    + destruct (lookup_some cs _ k id H E F) as [e [Fe [Ke [Hi Hk]]]]. rewrite Fe.
      pose proof (abs_remove_element cs id H Hi) as E1. unfold remove_element in *. cbn [fst snd] in *.
      refine (conj eq_refl (conj _ (conj HS (conj _ C)))).
      * rewrite Ke. reflexivity.
      * cbn [items]. rewrite E1, E, Hk, remove_key_kv. reflexivity.
    + rewrite (lookup_none cs _ k H E F). exact (conj eq_refl (conj eq_refl (conj H (conj E C)))).
  - (* RemoveOldest *)
    destruct (remove_oldest_sim cs _ H E) as [E1 L1]. unfold remove_oldest in E1, L1.
    destruct (back (lst cs)) as [id|] eqn:B; destruct (drop_oldest (items c)) as [i1 g1];
      unfold remove_element in *; cbn [fst snd] in *; subst g1;
      exact (conj eq_refl (conj eq_refl (conj HS (conj E1 C)))).
  - (* Resize *)
    clear HS. unfold clen, len. rewrite (abs_length _ _ E).
    set (d := Z.to_nat (Z.max 0 (Z.of_nat (length (items c)) - n))).
    destruct (remove_oldest_n_sim d cs _ H E) as [E1 L1].
    pose proof (rep_remove_oldest_n d cs H) as H1.
    destruct (remove_oldest_n d cs) as [c1 l1]. destruct (drop_oldest_n d (items c)) as [i1 g1].
    cbn [fst snd] in *. destruct c1 as [cc l st ix nx].
    exact (conj eq_refl (conj L1 (conj (rep_cap _ n _ _ _ _ H1) (conj E1 eq_refl)))).
  - (* Purge *)
    cbn [fst snd] in *. refine (conj eq_refl (conj _ (conj HS (conj eq_refl C)))).
    rewrite <- E. exact (purge_log_perm cs H).
  - (* Len *)
    refine (conj _ (conj eq_refl (conj H (conj E C)))). cbn [fst snd]. unfold clen, len.
    rewrite (abs_length _ _ E). reflexivity.
  - (* Cap *)
    refine (conj _ (conj eq_refl (conj H (conj E C)))). cbn [fst snd]. rewrite C. reflexivity.
Qed.

(* ---------- whole histories ---------- *)

Lemma cr_new size : CR (cnew size) (new_cache size).
Proof. split; [apply rep_new | split; reflexivity]. Qed.

Lemma run_sim ops : forall cs c, CR cs c ->
  same_obs ops (snd (crun cs ops)) (snd (run c ops)) /\ CR (fst (crun cs ops)) (fst (run c ops)).
Proof.
  induction ops as [|o r IH]; intros cs c HR; cbn [crun run].
  - split; [constructor | exact HR].
  - pose proof (sim_step cs c o HR) as H.
    destruct (cstep cs o) as [[cs1 ou] lg]. destruct (step c o) as [[c1 ou'] lg'].
    cbn [fst snd] in H. destruct H as [<- [HL HR1]].
    destruct (IH cs1 c1 HR1) as [S1 S2].
    destruct (crun cs1 r) as [cs2 res]. destruct (run c1 r) as [c2 res'].
    cbn [fst snd] in *. split; [constructor; assumption | exact S2].
Qed.

Lemma crun_state ops : forall cs, fst (crun cs ops) = cstate_after cs ops.
Proof.
  unfold cstate_after. induction ops as [|o r IH]; intros cs; cbn [crun fold_left]; [reflexivity|].
  destruct (cstep cs o) as [[c1 ou] lg]. cbn [fst]. rewrite <- IH.
  destruct (crun c1 r) as [c2 res]. reflexivity.
Qed.

Lemma run_state ops : forall c, fst (run c ops) = state_after c ops.
Proof.
  unfold state_after. induction ops as [|o r IH]; intros c; cbn [run fold_left]; [reflexivity|].
  destruct (step c o) as [[c1 ou] lg]. cbn [fst]. rewrite <- IH.
  destruct (run c1 r) as [c2 res]. reflexivity.
Qed.

(* the index agrees with the list in every reachable state *)
Lemma rep_reachable size ops : Rep (cstate_after (cnew size) ops).
Proof. apply rep_after, rep_new. Qed.

(* history-level simulation: same return values, same callback arguments (Purge: same multiset),
   and the final concrete state represents the final model state *)
Lemma concrete_refines size ops :
  same_obs ops (snd (crun (cnew size) ops)) (snd (run (new_cache size) ops)) /\
  abs (cstate_after (cnew size) ops) = map kv (items (state_after (new_cache size) ops)) /\
  ccap (cstate_after (cnew size) ops) = cap (state_after (new_cache size) ops).
Proof.
  destruct (run_sim ops _ _ (cr_new size)) as [S [_ [E C]]].
  rewrite crun_state in E, C. rewrite run_state in E, C.
  split; [exact S | split; assumption].
Qed.

(* what the index answers is what searching the list answers *)
Lemma index_lookup size ops k :
  let cs := cstate_after (cnew size) ops in
  option_map (fun id => sget id (store cs)) (ifind k (idx cs)) = pfind k (abs cs).
Proof.
  cbn zeta. set (cs := cstate_after (cnew size) ops).
  pose proof (rep_reachable size ops : Rep cs) as H.
  destruct (ifind k (idx cs)) as [id|] eqn:F; cbn [option_map].
  - apply (rep_idx _ H) in F. destruct F as [Hi Hk]. symmetry.
    exact (pfind_A _ _ _ _ (rep_keys _ H) Hi Hk).
  - symmetry. apply pfind_A_none. intros id Hi Hk.
    assert (G : ifind k (idx cs) = Some id) by (apply (rep_idx _ H); split; assumption). congruence.
Qed.
