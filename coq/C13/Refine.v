(* C13 — the recency-list model refines the reference LRU of Spec.v. *)
From Coq Require Import ZArith List Bool Arith Lia Sorting.Sorted Permutation.
From FV Require Import C13.Model C13.Spec C13.Proofs.
Import ListNotations.
Open Scope Z_scope.

Definition R (c : cache) (s : spec) : Prop :=
  Permutation (items c) (stab s) /\ cap c = scap s /\ clock c = sclock s.

(* ---------- keys are unique: an entry is determined by its key ---------- *)

Lemma nodup_key_eq l e e' :
  NoDup (keys l) -> In e l -> In e' l -> ekey e = ekey e' -> e = e'.
Proof.
  induction l as [|x r IH]; cbn [In keys map]; [tauto|].
  intros ND H H' E. inversion ND as [|? ? Hx ND']; subst.
  destruct H as [->|H], H' as [->|H']; auto.
  - exfalso. apply Hx. rewrite E. apply in_map. exact H'.
  - exfalso. apply Hx. rewrite <- E. apply in_map. exact H.
Qed.

Lemma find_in l e : NoDup (keys l) -> In e l -> find (ekey e) l = Some e.
Proof.
  intros ND H. destruct (find (ekey e) l) as [e'|] eqn:F.
  - destruct (find_some _ _ _ F) as [Hi Hk]. f_equal. apply (nodup_key_eq l); auto.
  - apply find_none in F. exfalso. apply F. apply in_map. exact H.
Qed.

Lemma perm_keys a b : Permutation a b -> Permutation (keys a) (keys b).
Proof. apply Permutation_map. Qed.

Lemma perm_nodup a b : Permutation a b -> NoDup (keys a) -> NoDup (keys b).
Proof. intros P. apply Permutation_NoDup. apply perm_keys. exact P. Qed.

Lemma find_perm k a b : Permutation a b -> NoDup (keys a) -> find k a = find k b.
Proof.
  intros P ND. pose proof (perm_nodup _ _ P ND) as NDb.
  destruct (find k a) as [e|] eqn:Fa.
  - destruct (find_some _ _ _ Fa) as [Hi <-]. symmetry. apply find_in; [exact NDb|].
    eapply Permutation_in; eauto.
  - symmetry. apply find_none. apply find_none in Fa. intros H. apply Fa.
    eapply Permutation_in; [apply Permutation_sym; apply perm_keys; exact P | exact H].
Qed.

Definition other (k : Z) (e : entry) : bool := negb (ekey e =? k).

Lemma remove_key_filter k l : NoDup (keys l) -> remove_key k l = filter (other k) l.
Proof.
  induction l as [|x r IH]; cbn [remove_key filter keys map]; [reflexivity|].
  intros ND. inversion ND as [|? ? Hx ND']; subst. unfold other at 1.
  destruct (Z.eqb_spec (ekey x) k) as [E|E]; cbn [negb].
  - subst k. symmetry. clear IH ND ND'. induction r as [|y r IH]; [reflexivity|].
    cbn [filter]. unfold other at 1.
    destruct (Z.eqb_spec (ekey y) (ekey x)) as [E|E]; cbn [negb].
    + exfalso. apply Hx. cbn [keys map In]. left. exact E.
    + f_equal. apply IH. intros H. apply Hx. right. exact H.
  - f_equal. exact (IH ND').
Qed.

Lemma perm_filter {A} (f : A -> bool) a b : Permutation a b -> Permutation (filter f a) (filter f b).
Proof.
  induction 1 as [|x a b P IH|x y a|a b c P1 IH1 P2 IH2]; cbn [filter].
  - constructor.
  - destruct (f x); [constructor|]; exact IH.
  - destruct (f x), (f y); try apply Permutation_refl; apply perm_swap.
  - eapply Permutation_trans; eauto.
Qed.

Lemma remove_key_perm k a b :
  Permutation a b -> NoDup (keys a) -> Permutation (remove_key k a) (remove_key k b).
Proof.
  intros P ND. rewrite !remove_key_filter; auto; [apply perm_filter; exact P|].
  exact (perm_nodup _ _ P ND).
Qed.

Lemma remove_key_snoc l e : ~ In (ekey e) (keys l) -> remove_key (ekey e) (l ++ [e]) = l.
Proof.
  induction l as [|x r IH]; cbn [app remove_key keys map In]; intros H.
  - rewrite Z.eqb_refl. reflexivity.
  - destruct (Z.eqb_spec (ekey x) (ekey e)) as [E|E]; [exfalso; apply H; left; exact E|].
    f_equal. apply IH. intros Hi. apply H. right. exact Hi.
Qed.

(* ---------- the oldest entry ---------- *)

Lemma argmin_spec l :
  match argmin l with
  | Some m => In m l /\ Forall (fun x => (estamp m <= estamp x)%nat) l
  | None => l = []
  end.
Proof.
  induction l as [|e r IH]; cbn [argmin]; [reflexivity|].
  destruct (argmin r) as [m|].
  - destruct IH as [Hi F]. destruct (Nat.ltb_spec (estamp m) (estamp e)) as [L|L].
    + split; [right; exact Hi|]. constructor; [lia | exact F].
    + split; [left; reflexivity|]. constructor; [lia|].
      eapply Forall_impl; [|exact F]. cbn. intros x Hx. lia.
  - subst r. split; [left; reflexivity|]. constructor; [lia | constructor].
Qed.

Lemma argmin_perm_snoc l e b :
  sorted (l ++ [e]) -> Permutation (l ++ [e]) b -> argmin b = Some e.
Proof.
  intros S P. pose proof (argmin_spec b) as A. destruct (argmin b) as [m|].
  - destruct A as [Hi F]. f_equal.
    assert (Hm : In m (l ++ [e])) by (eapply Permutation_in; [apply Permutation_sym; exact P | exact Hi]).
    apply in_app_or in Hm. destruct Hm as [Hm|[Hm|[]]]; [|symmetry; exact Hm].
    exfalso. pose proof (sorted_snoc_oldest _ _ _ S Hm) as L.
    rewrite Forall_forall in F.
    assert (He : In e b) by (eapply Permutation_in; [exact P | apply in_or_app; right; left; reflexivity]).
    specialize (F e He). lia.
  - subst b. apply Permutation_sym, Permutation_nil in P. destruct l; discriminate.
Qed.

Lemma evict_one_refines l b l' log :
  NoDup (keys l) -> sorted l -> Permutation l b -> drop_oldest l = (l', log) ->
  exists b', evict_one b = (b', log) /\ Permutation l' b'.
Proof.
  intros ND S P D. destruct (drop_oldest_props _ _ _ D) as [[-> [-> ->]]|[e [-> ->]]].
  - apply Permutation_nil in P. subst b. exists []. split; [reflexivity | constructor].
  - unfold evict_one. rewrite (argmin_perm_snoc _ _ _ S P).
    exists (remove_key (ekey e) b). split; [reflexivity|].
    rewrite <- (remove_key_snoc l' e) at 1.
    + apply remove_key_perm; assumption.
    + unfold keys in ND. rewrite map_app in ND. cbn [map] in ND.
      apply NoDup_remove_2 in ND. rewrite app_nil_r in ND. exact ND.
Qed.

Lemma evict_n_refines n : forall l b l' log,
  NoDup (keys l) -> sorted l -> Permutation l b -> drop_oldest_n n l = (l', log) ->
  exists b', evict_n n b = (b', log) /\ Permutation l' b'.
Proof.
  induction n as [|n IH]; intros l b l' log ND S P; cbn [drop_oldest_n evict_n].
  - intros [= <- <-]. exists b. split; [reflexivity | exact P].
  - destruct (drop_oldest l) as [l1 g1] eqn:D1.
    destruct (drop_oldest_n n l1) as [l2 g2] eqn:D2. intros [= <- <-].
    destruct (evict_one_refines _ _ _ _ ND S P D1) as [b1 [E1 P1]].
    destruct (drop_oldest_inv _ _ _ D1 ND S) as [ND1 [S1 _]].
    destruct (IH _ _ _ _ ND1 S1 P1 D2) as [b2 [E2 P2]].
    exists b2. rewrite E1, E2. split; [reflexivity | exact P2].
Qed.

(* ---------- oldest-to-newest listing ---------- *)

Definition older_eq (a b : entry) : Prop := (estamp a <= estamp b)%nat.
Definition older (a b : entry) : Prop := (estamp a < estamp b)%nat.

Lemma insert_perm e l : Permutation (e :: l) (insert_by_stamp e l).
Proof.
  induction l as [|x r IH]; cbn [insert_by_stamp]; [apply Permutation_refl|].
  destruct (Nat.leb (estamp e) (estamp x)); [apply Permutation_refl|].
  eapply Permutation_trans; [apply perm_swap|]. constructor. exact IH.
Qed.

Lemma sort_perm l : Permutation l (sort_by_stamp l).
Proof.
  induction l as [|x r IH]; cbn [sort_by_stamp fold_right]; [constructor|].
  eapply Permutation_trans; [|apply insert_perm]. constructor. exact IH.
Qed.

Lemma insert_sorted e l : StronglySorted older_eq l -> StronglySorted older_eq (insert_by_stamp e l).
Proof.
  induction l as [|x r IH]; cbn [insert_by_stamp]; intros S.
  - constructor; constructor.
  - inversion S as [|? ? S' F]; subst.
    destruct (Nat.leb_spec (estamp e) (estamp x)) as [L|L].
    + constructor; [exact S|]. constructor; [exact L|].
      eapply Forall_impl; [|exact F]. unfold older_eq. intros y Hy. lia.
    + constructor; [exact (IH S')|].
      apply Forall_forall. intros y Hy.
      eapply Permutation_in in Hy; [|apply Permutation_sym; apply insert_perm].
      destruct Hy as [<-|Hy]; [unfold older_eq; lia|].
      rewrite Forall_forall in F. exact (F y Hy).
Qed.

Lemma sort_sorted l : StronglySorted older_eq (sort_by_stamp l).
Proof.
  induction l as [|x r IH]; cbn [sort_by_stamp fold_right]; [constructor|].
  apply insert_sorted. exact IH.
Qed.

Lemma sorted_unique a : forall b,
  StronglySorted older a -> StronglySorted older_eq b -> Permutation a b -> a = b.
Proof.
  induction a as [|x a IH]; intros b Sa Sb P.
  - apply Permutation_nil in P. symmetry. exact P.
  - destruct b as [|y b]; [apply Permutation_sym, Permutation_nil in P; discriminate|].
    inversion Sa as [|? ? Sa' Fa]; subst. inversion Sb as [|? ? Sb' Fb]; subst.
    assert (E : x = y).
    { assert (Hx : In x (y :: b)) by (eapply Permutation_in; [exact P | left; reflexivity]).
      assert (Hy : In y (x :: a)) by (eapply Permutation_in; [apply Permutation_sym; exact P | left; reflexivity]).
      destruct Hx as [Hx|Hx]; [symmetry; exact Hx|].
      destruct Hy as [Hy|Hy]; [exact Hy|].
      rewrite Forall_forall in Fa, Fb. specialize (Fa y Hy). specialize (Fb x Hx).
      unfold older, older_eq in *. lia. }
    subst y. f_equal. apply IH; auto. eapply Permutation_cons_inv. exact P.
Qed.

Lemma sorted_snoc_older q x :
  StronglySorted older q -> Forall (fun y => older y x) q -> StronglySorted older (q ++ [x]).
Proof.
  induction q as [|y q IHq]; cbn [app]; intros S F.
  - constructor; constructor.
  - inversion S as [|? ? S' Fy]; subst. inversion F as [|? ? Hy F']; subst.
    constructor; [exact (IHq S' F')|].
    apply Forall_app. split; [exact Fy | constructor; [exact Hy | constructor]].
Qed.

Lemma rev_sorted l : sorted l -> StronglySorted older (rev l).
Proof.
  induction l as [|x r IH]; cbn [rev]; intros S; [constructor|].
  inversion S as [|? ? S' F]; subst. apply sorted_snoc_older; [exact (IH S')|].
  apply Forall_forall. intros y Hy. rewrite Forall_forall in F.
  exact (F y (proj2 (in_rev r y) Hy)).
Qed.

Lemma sort_refines l b : sorted l -> Permutation l b -> sort_by_stamp b = rev l.
Proof.
  intros S P. symmetry. apply sorted_unique.
  - apply rev_sorted. exact S.
  - apply sort_sorted.
  - eapply Permutation_trans; [apply Permutation_sym; apply Permutation_rev|].
    eapply Permutation_trans; [exact P | apply sort_perm].
Qed.

Lemma oldest_refines l b : sorted l -> Permutation l b -> argmin b = hd_error (rev l).
Proof.
  intros S P. destruct (list_snoc_cases l) as [->|[l' [e ->]]].
  - apply Permutation_nil in P. subst b. reflexivity.
  - rewrite rev_unit. cbn [hd_error]. exact (argmin_perm_snoc _ _ _ S P).
Qed.

(* ---------- simulation, one operation at a time ---------- *)

Definition log_equiv (o : op) (a b : list (Z * Z)) : Prop :=
  match o with Purge => Permutation a b | _ => a = b end.

Lemma R_len c s : R c s -> length (items c) = length (stab s).
Proof. intros [P _]. apply Permutation_length. exact P. Qed.

Lemma step_refines c s o : Inv c -> R c s ->
  let '(c', ou, lg) := step c o in
  let '(s', ou', lg') := sstep s o in
  ou = ou' /\ log_equiv o lg lg' /\ R c' s'.
Proof.
  intros I HR. pose proof (R_len _ _ HR) as HL. destruct HR as [P [HC HK]].
  destruct I as [ND SO CL B].
  pose proof (fun k => find_perm k _ _ P ND) as HF.
  destruct o as [k v|k|k|k| | |k| |n| | |]; cbn [step sstep log_equiv].
  - (* Put *)
    rewrite <- HF, <- HC, <- HK. destruct (find k (items c)) as [e|] eqn:F.
    + repeat split; cbn [items stab cap scap clock sclock]; auto.
      constructor. apply remove_key_perm; assumption.
    + assert (HL2 : length ((k, v, clock c) :: stab s) = length ((k, v, clock c) :: items c))
        by (cbn [length]; f_equal; symmetry; exact HL).
      rewrite HL2.
      destruct (Z.of_nat (length ((k, v, clock c) :: items c)) >? cap c) eqn:G.
      * destruct (drop_oldest ((k, v, clock c) :: items c)) as [its' log] eqn:D.
        apply find_none in F.
        destruct (cons_new_inv k v (clock c) (items c) ND F SO CL) as [A [A1 _]].
        destruct (evict_one_refines _ ((k, v, clock c) :: stab s) _ _ A A1 (perm_skip _ P) D) as [b' [E Pb]].
        rewrite E. repeat split; cbn [items stab cap scap clock sclock]; auto.
      * repeat split; cbn [items stab cap scap clock sclock]; auto.
  - (* Get *)
    rewrite <- HF, <- HK. destruct (find k (items c)) as [e|] eqn:F.
    + repeat split; cbn [items stab cap scap clock sclock]; auto.
      constructor. apply remove_key_perm; assumption.
    + repeat split; cbn [items stab cap scap clock sclock]; auto.
  - rewrite <- HF, <- HK. repeat split; cbn [items stab cap scap clock sclock]; auto.
  - rewrite <- HF, <- HK. repeat split; cbn [items stab cap scap clock sclock]; auto.
  - rewrite (oldest_refines _ _ SO P), <- HK.
    repeat split; cbn [items stab cap scap clock sclock]; auto.
  - rewrite (sort_refines _ _ SO P), <- HK.
    repeat split; cbn [items stab cap scap clock sclock]; auto.
  - (* Remove *)
    rewrite <- HF, <- HK. destruct (find k (items c)) as [e|] eqn:F.
    + repeat split; cbn [items stab cap scap clock sclock]; auto.
      apply remove_key_perm; assumption.
    + repeat split; cbn [items stab cap scap clock sclock]; auto.
  - (* RemoveOldest *)
    destruct (drop_oldest (items c)) as [its log] eqn:D.
    destruct (evict_one_refines _ _ _ _ ND SO P D) as [b' [E Pb]]. rewrite E, <- HK.
    repeat split; cbn [items stab cap scap clock sclock]; auto.
  - (* Resize *)
    unfold len. rewrite <- HL.
    destruct (drop_oldest_n (Z.to_nat (Z.max 0 (Z.of_nat (length (items c)) - n))) (items c)) as [its log] eqn:D.
    destruct (evict_n_refines _ _ _ _ _ ND SO P D) as [b' [E Pb]]. rewrite E, <- HK.
    repeat split; cbn [items stab cap scap clock sclock]; auto.
  - (* Purge *)
    rewrite <- HK. repeat split; cbn [items stab cap scap clock sclock]; auto.
    apply Permutation_map. eapply Permutation_trans; [exact P | apply sort_perm].
  - unfold len. rewrite HL, <- HK. repeat split; cbn [items stab cap scap clock sclock]; auto.
  - rewrite HC, <- HK. repeat split; cbn [items stab cap scap clock sclock]; auto.
Qed.

(* ---------- whole histories ---------- *)

Fixpoint srun (s : spec) (ops : list op) : spec * list (out * list (Z * Z)) :=
  match ops with
  | [] => (s, [])
  | o :: r => let '(s1, ou, lg) := sstep s o in
              let '(s2, res) := srun s1 r in (s2, (ou, lg) :: res)
  end.

Inductive same_obs : list op -> list (out * list (Z * Z)) -> list (out * list (Z * Z)) -> Prop :=
| so_nil : same_obs [] [] []
| so_cons o ops ou lg lg' r r' :
    log_equiv o lg lg' -> same_obs ops r r' -> same_obs (o :: ops) ((ou, lg) :: r) ((ou, lg') :: r').

Lemma run_refines ops : forall c s, Inv c -> R c s ->
  same_obs ops (snd (run c ops)) (snd (srun s ops)) /\ R (fst (run c ops)) (fst (srun s ops)).
Proof.
  induction ops as [|o r IH]; intros c s I HR; cbn [run srun].
  - split; [constructor | exact HR].
  - pose proof (step_refines c s o I HR) as H. pose proof (step_inv c o I) as I'.
    destruct (step c o) as [[c1 ou] lg]. destruct (sstep s o) as [[s1 ou'] lg'].
    destruct H as [<- [HL HR1]]. cbn [fst] in I'.
    destruct (IH c1 s1 I' HR1) as [A B].
    destruct (run c1 r) as [c2 res]. destruct (srun s1 r) as [s2 res'].
    cbn [fst snd] in *. split; [constructor; assumption | exact B].
Qed.

Lemma new_R size : R (new_cache size) (new_spec size).
Proof. repeat split; constructor. Qed.

Lemma refines_spec size ops :
  same_obs ops (snd (run (new_cache size) ops)) (snd (srun (new_spec size) ops)).
Proof. apply run_refines; [apply new_inv | apply new_R]. Qed.
