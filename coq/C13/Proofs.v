From Coq Require Import ZArith List Bool Arith Lia Sorting.Sorted Permutation.
From FV Require Import C13.Model.
Import ListNotations.
Open Scope Z_scope.

Definition keys (l : list entry) : list Z := map ekey l.
Definition newer (a b : entry) : Prop := (estamp b < estamp a)%nat.
Definition sorted (l : list entry) : Prop := StronglySorted newer l.

Record Inv (c : cache) : Prop := {
  inv_nodup : NoDup (keys (items c));
  inv_sorted : sorted (items c);
  inv_clock : Forall (fun e => (estamp e < clock c)%nat) (items c);
  inv_bound : len c <= Z.max 0 (cap c)
}.

(* ---------- find / remove_key ---------- *)

Lemma find_none k l : find k l = None <-> ~ In k (keys l).
Proof.
  induction l as [|e r IH]; cbn [find keys map In]; [tauto|].
  destruct (Z.eqb_spec (ekey e) k) as [E|E].
  - split; [discriminate | intros H; exfalso; apply H; left; exact E].
  - rewrite IH. unfold keys. tauto.
Qed.

Lemma find_some k l e : find k l = Some e -> In e l /\ ekey e = k.
Proof.
  induction l as [|x r IH]; cbn [find]; [discriminate|].
  destruct (Z.eqb_spec (ekey x) k) as [E|E].
  - intros [= <-]. split; [left; reflexivity | exact E].
  - intros H. destruct (IH H) as [Hi Hk]. split; [right; exact Hi | exact Hk].
Qed.

Lemma remove_key_incl k l e : In e (remove_key k l) -> In e l.
Proof.
  induction l as [|x r IH]; cbn [remove_key]; [tauto|].
  destruct (ekey x =? k); cbn [In]; tauto.
Qed.

Lemma remove_key_notin k l : NoDup (keys l) -> ~ In k (keys (remove_key k l)).
Proof.
  induction l as [|x r IH]; cbn [remove_key keys map]; [tauto|].
  intros ND. inversion ND as [|? ? Hx ND']; subst.
  destruct (Z.eqb_spec (ekey x) k) as [E|E].
  - subst k. exact Hx.
  - cbn [keys map In]. intros [H|H]; [exact (E H) | exact (IH ND' H)].
Qed.

Lemma remove_key_in k l e : In e l -> ekey e <> k -> In e (remove_key k l).
Proof.
  induction l as [|x r IH]; cbn [remove_key In]; [tauto|].
  intros [->|H] Hk.
  - destruct (Z.eqb_spec (ekey e) k); [contradiction | left; reflexivity].
  - destruct (ekey x =? k); [exact H | right; exact (IH H Hk)].
Qed.

Lemma remove_key_nodup k l : NoDup (keys l) -> NoDup (keys (remove_key k l)).
Proof.
  induction l as [|x r IH]; cbn [remove_key keys map]; [tauto|].
  intros ND. inversion ND as [|? ? Hx ND']; subst.
  destruct (ekey x =? k); [exact ND'|].
  cbn [keys map]. constructor; [|exact (IH ND')].
  intros H. apply Hx. apply in_map_iff in H. destruct H as [e [He Hi]].
  apply in_map_iff. exists e. split; [exact He | exact (remove_key_incl _ _ _ Hi)].
Qed.

Lemma remove_key_sorted k l : sorted l -> sorted (remove_key k l).
Proof.
  induction l as [|x r IH]; cbn [remove_key]; [tauto|].
  intros S. inversion S as [|? ? S' F]; subst.
  destruct (ekey x =? k); [exact S'|].
  constructor; [exact (IH S')|].
  apply Forall_forall. intros e He. rewrite Forall_forall in F. apply F.
  exact (remove_key_incl _ _ _ He).
Qed.

Lemma remove_key_length_present k l e :
  find k l = Some e -> S (length (remove_key k l)) = length l.
Proof.
  revert e; induction l as [|x r IH]; intros e; cbn [find remove_key]; [discriminate|].
  destruct (ekey x =? k); [reflexivity|]. intros H. cbn [length]. rewrite (IH _ H). reflexivity.
Qed.

Lemma remove_key_absent k l : find k l = None -> remove_key k l = l.
Proof.
  induction l as [|x r IH]; cbn [find remove_key]; [reflexivity|].
  destruct (ekey x =? k); [discriminate|]. intros H. rewrite (IH H). reflexivity.
Qed.

(* ---------- the back of the list ---------- *)

Lemma drop_oldest_nil : drop_oldest [] = ([], []).
Proof. reflexivity. Qed.

Lemma drop_oldest_snoc l e : drop_oldest (l ++ [e]) = (l, [kv e]).
Proof. unfold drop_oldest. rewrite rev_unit, rev_involutive. reflexivity. Qed.

Lemma list_snoc_cases {A} (l : list A) : l = [] \/ exists l' e, l = l' ++ [e].
Proof.
  destruct l as [|x r] using rev_ind; [left; reflexivity | right; eauto].
Qed.

Lemma sorted_app_inv a b : sorted (a ++ b) -> sorted a.
Proof.
  induction a as [|x r IH]; cbn [app]; intros S; [constructor|].
  inversion S as [|? ? S' F]; subst. constructor; [exact (IH S')|].
  apply Forall_app in F. tauto.
Qed.

Lemma sorted_snoc_oldest l e x : sorted (l ++ [e]) -> In x l -> (estamp e < estamp x)%nat.
Proof.
  induction l as [|y r IH]; cbn [app In]; [tauto|].
  intros S [->|H]; inversion S as [|? ? S' F]; subst.
  - rewrite Forall_forall in F. apply (F e). apply in_or_app. right. left. reflexivity.
  - exact (IH S' H).
Qed.

(* ---------- preservation of the invariant ---------- *)

Lemma cons_new_inv k v t l :
  NoDup (keys l) -> ~ In k (keys l) -> sorted l -> Forall (fun e => (estamp e < t)%nat) l ->
  NoDup (keys ((k, v, t) :: l)) /\ sorted ((k, v, t) :: l) /\
  Forall (fun e => (estamp e < S t)%nat) ((k, v, t) :: l).
Proof.
  intros ND NI S F. repeat split.
  - cbn [keys map]. constructor; assumption.
  - constructor; [exact S|]. eapply Forall_impl; [|exact F]. intros e He. exact He.
  - constructor; [cbn; lia|]. eapply Forall_impl; [|exact F]. cbn. intros e He. lia.
Qed.

Lemma Forall_incl_entries (P : entry -> Prop) (a b : list entry) :
  (forall e, In e a -> In e b) -> Forall P b -> Forall P a.
Proof. intros H F. rewrite Forall_forall in *. auto. Qed.

Lemma drop_oldest_props l l' log :
  drop_oldest l = (l', log) ->
  (l = [] /\ l' = [] /\ log = []) \/ (exists e, l = l' ++ [e] /\ log = [kv e]).
Proof.
  destruct (list_snoc_cases l) as [->|[l0 [e ->]]].
  - cbn. intros [= <- <-]. left. auto.
  - rewrite drop_oldest_snoc. intros [= <- <-]. right. eauto.
Qed.

Lemma nodup_app_l (a b : list Z) : NoDup (a ++ b) -> NoDup a.
Proof.
  induction a as [|x r IH]; cbn [app]; intros H; [constructor|].
  inversion H as [|? ? Hx H']; subst. constructor; [|exact (IH H')].
  intros Hi. apply Hx. apply in_or_app. left. exact Hi.
Qed.

Lemma drop_oldest_inv l l' log :
  drop_oldest l = (l', log) -> NoDup (keys l) -> sorted l ->
  NoDup (keys l') /\ sorted l' /\ (forall e, In e l' -> In e l) /\
  (length l' = pred (length l)).
Proof.
  intros D ND S. destruct (drop_oldest_props _ _ _ D) as [[-> [-> _]]|[e [-> _]]].
  - repeat split; auto.
  - repeat split.
    + unfold keys in *. rewrite map_app in ND. exact (nodup_app_l _ _ ND).
    + exact (sorted_app_inv _ _ S).
    + intros x Hx. apply in_or_app. left. exact Hx.
    + rewrite app_length. cbn. lia.
Qed.

Lemma drop_oldest_n_inv n : forall l l' log,
  drop_oldest_n n l = (l', log) -> NoDup (keys l) -> sorted l ->
  NoDup (keys l') /\ sorted l' /\ (forall e, In e l' -> In e l) /\
  (length l' = length l - n)%nat.
Proof.
  induction n as [|n IH]; intros l l' log; cbn [drop_oldest_n].
  - intros [= <- <-] ND S. repeat split; auto. lia.
  - destruct (drop_oldest l) as [l1 g1] eqn:D1.
    destruct (drop_oldest_n n l1) as [l2 g2] eqn:D2. intros [= <- <-] ND S.
    destruct (drop_oldest_inv _ _ _ D1 ND S) as [ND1 [S1 [I1 L1]]].
    destruct (IH _ _ _ D2 ND1 S1) as [ND2 [S2 [I2 L2]]].
    repeat split; auto. lia.
Qed.

Lemma step_inv c o : Inv c -> Inv (fst (fst (step c o))).
Proof.
  intros [ND SO CL B]. unfold len in *.
  assert (CL' : Forall (fun e => (estamp e < S (clock c))%nat) (items c)).
  { eapply Forall_impl; [|exact CL]. cbn. intros e He. lia. }
  destruct o as [k v|k|k|k| | |k| |n| | |]; cbn [step].
  - (* Put *)
    destruct (find k (items c)) as [e|] eqn:F.
    + cbn [fst]. pose proof (remove_key_length_present _ _ _ F) as L.
      destruct (cons_new_inv k v (clock c) (remove_key k (items c))) as [A [A1 A2]].
      * apply remove_key_nodup; exact ND.
      * apply remove_key_notin; exact ND.
      * apply remove_key_sorted; exact SO.
      * eapply Forall_incl_entries; [|exact CL]. intros x. apply remove_key_incl.
      * constructor; cbn [items clock cap]; auto. unfold len. cbn [items length]. lia.
    + apply find_none in F.
      destruct (cons_new_inv k v (clock c) (items c) ND F SO CL) as [A [A1 A2]].
      destruct (Z.of_nat (length ((k, v, clock c) :: items c)) >? cap c) eqn:G.
      * destruct (drop_oldest ((k, v, clock c) :: items c)) as [its' log] eqn:D. cbn [fst].
        destruct (drop_oldest_inv _ _ _ D A A1) as [ND' [S' [I' L']]].
        constructor; cbn [items clock cap]; auto.
        -- eapply Forall_incl_entries; [exact I' | exact A2].
        -- unfold len. cbn [items]. rewrite L'. cbn [length pred]. lia.
      * cbn [fst]. constructor; cbn [items clock cap]; auto.
        unfold len. cbn [items]. rewrite Z.gtb_ltb in G. apply Z.ltb_ge in G.
        apply Z.le_trans with (cap c); [exact G | apply Z.le_max_r].
  - (* Get *)
    destruct (find k (items c)) as [e|] eqn:F; cbn [fst].
    + pose proof (remove_key_length_present _ _ _ F) as L.
      destruct (cons_new_inv k (eval e) (clock c) (remove_key k (items c))) as [A [A1 A2]].
      * apply remove_key_nodup; exact ND.
      * apply remove_key_notin; exact ND.
      * apply remove_key_sorted; exact SO.
      * eapply Forall_incl_entries; [|exact CL]. intros x. apply remove_key_incl.
      * constructor; cbn [items clock cap]; auto. unfold len. cbn [items length]. lia.
    + constructor; cbn [items clock cap]; auto.
  - constructor; cbn [fst items clock cap]; auto.
  - constructor; cbn [fst items clock cap]; auto.
  - constructor; cbn [fst items clock cap]; auto.
  - constructor; cbn [fst items clock cap]; auto.
  - (* Remove *)
    destruct (find k (items c)) as [e|] eqn:F; cbn [fst].
    + pose proof (remove_key_length_present _ _ _ F) as L.
      constructor; cbn [items clock cap].
      * apply remove_key_nodup; exact ND.
      * apply remove_key_sorted; exact SO.
      * eapply Forall_incl_entries; [|exact CL']. intros x. apply remove_key_incl.
      * unfold len. cbn [items]. lia.
    + constructor; cbn [items clock cap]; auto.
  - (* RemoveOldest *)
    destruct (drop_oldest (items c)) as [its log] eqn:D. cbn [fst].
    destruct (drop_oldest_inv _ _ _ D ND SO) as [ND' [S' [I' L']]].
    constructor; cbn [items clock cap]; auto.
    + eapply Forall_incl_entries; [exact I' | exact CL'].
    + unfold len. cbn [items]. lia.
  - (* Resize *)
    destruct (drop_oldest_n (Z.to_nat (Z.max 0 (len c - n))) (items c)) as [its log] eqn:D. cbn [fst].
    destruct (drop_oldest_n_inv _ _ _ _ D ND SO) as [ND' [S' [I' L']]].
    constructor; cbn [items clock cap]; auto.
    + eapply Forall_incl_entries; [exact I' | exact CL'].
    + unfold len in *. cbn [items]. lia.
  - (* Purge *)
    constructor; cbn [fst items clock cap]; try constructor. unfold len. cbn. lia.
  - constructor; cbn [fst items clock cap]; auto.
  - constructor; cbn [fst items clock cap]; auto.
Qed.

Lemma new_inv size : Inv (new_cache size).
Proof. constructor; cbn; try constructor. unfold len. cbn. lia. Qed.

Lemma state_after_inv ops : forall c, Inv c -> Inv (state_after c ops).
Proof.
  unfold state_after. induction ops as [|o r IH]; intros c H; cbn [fold_left]; [exact H|].
  apply IH. apply step_inv. exact H.
Qed.
