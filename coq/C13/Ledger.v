(* C13 — whole-history statements about the eviction callback and the stored values:
   a ledger of every key that entered the cache and every callback over a history, and
   "the value an entry holds (and the callback reports) is the one most recently put". *)
From Coq Require Import ZArith List Bool Arith Lia Permutation.
From FV Require Import C13.Model C13.Proofs C13.History.
Import ListNotations.
Open Scope Z_scope.

(* keys newly inserted and callback arguments, over a history *)
Fixpoint ledger (c : cache) (ops : list op) : list Z * list (Z * Z) :=
  match ops with
  | [] => ([], [])
  | o :: r => let '(a, l) := ledger (fst (fst (step c o))) r in
              (added o c ++ a, snd (step c o) ++ l)
  end.

Lemma ledger_conservation ops : forall c,
  Permutation (fst (ledger c ops) ++ keys (items c))
              (keys (items (state_after c ops)) ++ map fst (snd (ledger c ops))).
Proof.
  induction ops as [|o r IH]; intros c.
  - cbn. rewrite app_nil_r. apply Permutation_refl.
  - cbn [ledger state_after fold_left].
    specialize (IH (fst (fst (step c o)))). fold (state_after (fst (fst (step c o))) r).
    destruct (ledger (fst (fst (step c o))) r) as [a l] eqn:L. cbn [fst snd] in *.
    pose proof (callback_conservation c o) as C.
    destruct (step c o) as [[c1 ou] lg] eqn:S. cbn [fst snd] in *.
    rewrite map_app.
    (* added ++ a ++ keys c  ~  a ++ (added ++ keys c) ~ a ++ keys c1 ++ lg ~ ... *)
    eapply Permutation_trans.
    { rewrite <- app_assoc. apply Permutation_app_swap_app. }
    eapply Permutation_trans.
    { apply Permutation_app_head. exact C. }
    rewrite app_assoc.
    eapply Permutation_trans.
    { apply Permutation_app_tail. exact IH. }
    rewrite <- !app_assoc. apply Permutation_app_head. apply Permutation_app_comm.
Qed.

(* from an empty cache: every key that ever entered is either still there or was reported,
   with multiplicity — so over the whole history the callback fired exactly once per departure *)
Lemma ledger_new size ops :
  Permutation (fst (ledger (new_cache size) ops))
              (keys (items (state_after (new_cache size) ops)) ++ map fst (snd (ledger (new_cache size) ops))).
Proof.
  pose proof (ledger_conservation ops (new_cache size)) as H.
  cbn [new_cache items keys map] in H. rewrite app_nil_r in H. exact H.
Qed.

Lemma ledger_count size ops k :
  let c := state_after (new_cache size) ops in
  count_occ Z.eq_dec (map fst (snd (ledger (new_cache size) ops))) k =
  (count_occ Z.eq_dec (fst (ledger (new_cache size) ops)) k -
   (if in_dec Z.eq_dec k (keys (items c)) then 1 else 0))%nat.
Proof.
  intros c.
  pose proof (ledger_new size ops) as P.
  pose proof (proj1 (Permutation_count_occ Z.eq_dec _ _) P k) as Q. clear P. rename Q into P.
  rewrite count_occ_app in P. fold c in P.
  assert (ND : NoDup (keys (items c))) by (apply inv_nodup, state_after_inv, new_inv).
  destruct (in_dec Z.eq_dec k (keys (items c))) as [I|I].
  - rewrite (proj1 (NoDup_count_occ' Z.eq_dec _) ND k I) in P. lia.
  - rewrite (proj1 (count_occ_not_In Z.eq_dec _ k) I) in P. lia.
Qed.

(* the logs collected by [run] are the ledger's *)
Lemma run_ledger ops : forall c,
  concat (map snd (snd (run c ops))) = snd (ledger c ops) /\ fst (run c ops) = state_after c ops.
Proof.
  induction ops as [|o r IH]; intros c; cbn [run ledger state_after fold_left]; [split; reflexivity|].
  destruct (step c o) as [[c1 ou] lg] eqn:S. cbn [fst snd].
  specialize (IH c1). fold (state_after c1 r).
  destruct (run c1 r) as [c2 res] eqn:R. destruct (ledger c1 r) as [a l] eqn:L.
  cbn [fst snd map concat] in *. destruct IH as [-> ->]. split; reflexivity.
Qed.

(* ---------- stored values ---------- *)

(* the value most recently put for k *)
Fixpoint last_put (k : Z) (ops : list op) (acc : option Z) : option Z :=
  match ops with
  | [] => acc
  | Put k' v :: r => last_put k r (if k' =? k then Some v else acc)
  | _ :: r => last_put k r acc
  end.

Lemma last_put_snoc k ops o acc :
  last_put k (ops ++ [o]) acc =
  match o with Put k' v => if k' =? k then Some v else last_put k ops acc | _ => last_put k ops acc end.
Proof.
  revert acc. induction ops as [|x r IH]; intros acc.
  - destruct o; reflexivity.
  - cbn [app]. destruct x; cbn [last_put]; apply IH.
Qed.

(* where the values of the next state come from *)
Lemma step_values c o e : Inv c -> In e (items (fst (fst (step c o)))) ->
  (exists v, o = Put (ekey e) v /\ eval e = v) \/
  ((forall v, o <> Put (ekey e) v) /\ exists e0, In e0 (items c) /\ ekey e0 = ekey e /\ eval e0 = eval e).
Proof.
  intros I H. pose proof (inv_nodup _ I) as ND.
  assert (KEEP : forall e, In e (items c) -> (forall v, o <> Put (ekey e) v) ->
            (exists v, o = Put (ekey e) v /\ eval e = v) \/
            ((forall v, o <> Put (ekey e) v) /\ exists e0, In e0 (items c) /\ ekey e0 = ekey e /\ eval e0 = eval e)).
  { intros x Hx N. right. split; [exact N|]. exists x. auto. }
  destruct o as [k v|k|k|k| | |k| |n| | |]; cbn [step] in H.
  - destruct (find k (items c)) as [x|] eqn:F.
    + cbn [fst items In] in H. destruct H as [<-|H].
      * left. exists v. split; reflexivity.
      * apply KEEP; [exact (remove_key_incl _ _ _ H)|].
        intros v' [= E _]. exact (in_remove_key_neq _ _ _ ND H (eq_sym E)).
    + apply find_none in F.
      assert (NEW : forall e, In e ((k, v, clock c) :: items c) ->
                (exists v0, Put k v = Put (ekey e) v0 /\ eval e = v0) \/
                ((forall v0, Put k v <> Put (ekey e) v0) /\ exists e0, In e0 (items c) /\ ekey e0 = ekey e /\ eval e0 = eval e)).
      { intros x [<-|Hx]; [left; exists v; split; reflexivity|].
        apply KEEP; [exact Hx|]. intros v' [= E _]. apply F. rewrite E. apply in_map. exact Hx. }
      destruct (Z.of_nat (length ((k, v, clock c) :: items c)) >? cap c).
      * destruct (drop_oldest ((k, v, clock c) :: items c)) as [its' log] eqn:D. cbn [fst items] in H.
        apply NEW. destruct (drop_oldest_props _ _ _ D) as [[E _]|[x [E _]]]; [discriminate|].
        rewrite E. apply in_or_app. left. exact H.
      * cbn [fst items] in H. apply NEW. exact H.
  - destruct (find k (items c)) as [x|] eqn:F; cbn [fst items] in H.
    + destruct (find_some _ _ _ F) as [Ix Kx]. destruct H as [<-|H].
      * right. split; [discriminate|]. exists x. cbn. auto.
      * apply KEEP; [exact (remove_key_incl _ _ _ H) | discriminate].
    + apply KEEP; [exact H | discriminate].
  - cbn [fst items] in H. apply KEEP; [exact H | discriminate].
  - cbn [fst items] in H. apply KEEP; [exact H | discriminate].
  - cbn [fst items] in H. apply KEEP; [exact H | discriminate].
  - cbn [fst items] in H. apply KEEP; [exact H | discriminate].
  - destruct (find k (items c)) as [x|] eqn:F; cbn [fst items] in H.
    + apply KEEP; [exact (remove_key_incl _ _ _ H) | discriminate].
    + apply KEEP; [exact H | discriminate].
  - destruct (drop_oldest (items c)) as [its log] eqn:D. cbn [fst items] in H.
    apply KEEP; [|discriminate].
    destruct (drop_oldest_props _ _ _ D) as [[-> [-> _]]|[x [E _]]]; [exact H|].
    rewrite E. apply in_or_app. left. exact H.
  - destruct (drop_oldest_n (Z.to_nat (Z.max 0 (len c - n))) (items c)) as [its log] eqn:D.
    cbn [fst items] in H. apply KEEP; [exact (drop_oldest_n_incl _ _ _ _ _ D H) | discriminate].
  - cbn [fst items] in H. destruct H.
  - cbn [fst items] in H. apply KEEP; [exact H | discriminate].
  - cbn [fst items] in H. apply KEEP; [exact H | discriminate].
Qed.

(* every entry holds the value most recently put for its key *)
Lemma values_last_put size ops : forall e,
  In e (items (state_after (new_cache size) ops)) -> last_put (ekey e) ops None = Some (eval e).
Proof.
  induction ops as [|o ops IH] using rev_ind; intros e H.
  - cbn in H. destruct H.
  - rewrite state_after_snoc in H. rewrite last_put_snoc.
    destruct (step_values _ _ _ (state_after_inv ops _ (new_inv size)) H) as [[v [-> E]]|[N [e0 [I0 [K0 V0]]]]].
    + rewrite Z.eqb_refl. congruence.
    + rewrite <- K0, <- V0 in *. specialize (IH _ I0).
      destruct o as [k v| | | | | | | | | | |]; try exact IH.
      destruct (Z.eqb_spec k (ekey e0)) as [E|E]; [|exact IH].
      exfalso. apply (N v). rewrite E. reflexivity.
Qed.

(* and the callback reports exactly that value: the one most recently put for that key,
   counting the operation that made the entry leave *)
Lemma callback_last_put size ops o p :
  In p (snd (step (state_after (new_cache size) ops) o)) ->
  last_put (fst p) (ops ++ [o]) None = Some (snd p).
Proof.
  intros H. set (c := state_after (new_cache size) ops) in *.
  assert (I : Inv c) by (apply state_after_inv, new_inv).
  rewrite last_put_snoc.
  destruct (callback_values c o p H) as [M|[k [v [-> ->]]]].
  - apply in_map_iff in M. destruct M as [e [<- Ie]]. cbn [kv fst snd].
    pose proof (values_last_put size ops e Ie) as V.
    destruct o as [k v| | | | | | | | | | |]; try exact V.
    destruct (Z.eqb_spec k (ekey e)) as [E|E]; [|exact V].
    (* a Put of a key that is present evicts nothing *)
    exfalso. cbn [step] in H. fold c in H.
    destruct (find k (items c)) as [x|] eqn:F; [destruct H|].
    apply find_none in F. apply F. rewrite E. apply in_map. exact Ie.
  - cbn [fst snd]. rewrite Z.eqb_refl. reflexivity.
Qed.
