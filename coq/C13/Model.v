(* C13 — LRU cache (collections/lru/cache.go).  Executable model; no proofs here.
   The recency list (container/list, front = most recent) is a Coq list, most recent
   first; the key index (Go map) is the same list searched by key — the map is a pure
   function of the list in the code (every insertion/removal updates both), which the
   harness probes through Contains/Len/Keys after every operation.
   Each entry carries a ghost stamp: the number of the operation that last used it
   (only Put and a successful Get stamp).  Stamps never influence behaviour. *)
From Coq Require Import ZArith List Bool.
Import ListNotations.
Open Scope Z_scope.

Definition entry : Type := (Z * Z * nat)%type.          (* key, value, ghost stamp *)
Definition ekey (e : entry) : Z := fst (fst e).
Definition eval (e : entry) : Z := snd (fst e).
Definition estamp (e : entry) : nat := snd e.

Record cache := mk { cap : Z; items : list entry; clock : nat }.

Inductive op :=
| Put (k v : Z) | Get (k : Z) | Peek (k : Z) | Contains (k : Z) | GetOldest | Keys
| Remove (k : Z) | RemoveOldest | Resize (n : Z) | Purge | Len | Cap.

Inductive out :=
| OBool (b : bool) | OVal (v : option Z) | OKV (kv : option (Z * Z)) | OKeys (ks : list Z)
| OInt (n : Z) | OUnit.

Fixpoint find (k : Z) (l : list entry) : option entry :=
  match l with
  | [] => None
  | e :: r => if ekey e =? k then Some e else find k r
  end.

Fixpoint remove_key (k : Z) (l : list entry) : list entry :=
  match l with
  | [] => []
  | e :: r => if ekey e =? k then r else e :: remove_key k r
  end.

Definition kv (e : entry) : Z * Z := (ekey e, eval e).

(* removeOldest: drop the back of the list, reporting it to the callback *)
Definition drop_oldest (l : list entry) : list entry * list (Z * Z) :=
  match rev l with
  | [] => (l, [])
  | e :: r => (rev r, [kv e])
  end.

Fixpoint drop_oldest_n (n : nat) (l : list entry) : list entry * list (Z * Z) :=
  match n with
  | O => (l, [])
  | S n' => let '(l1, log1) := drop_oldest l in
            let '(l2, log2) := drop_oldest_n n' l1 in (l2, log1 ++ log2)
  end.

Definition len (c : cache) : Z := Z.of_nat (length (items c)).

(* one operation: new state, return value, arguments seen by the eviction callback *)
Definition step (c : cache) (o : op) : cache * out * list (Z * Z) :=
  let t := clock c in
  let c' := fun its => mk (cap c) its (S t) in
  match o with
  | Put k v =>
      match find k (items c) with
      | Some _ => (c' ((k, v, t) :: remove_key k (items c)), OBool false, [])
      | None =>
          let its := (k, v, t) :: items c in
          if Z.of_nat (length its) >? cap c
          then let '(its', log) := drop_oldest its in (c' its', OBool true, log)
          else (c' its, OBool true, [])
      end
  | Get k =>
      match find k (items c) with
      | Some e => (c' ((k, eval e, t) :: remove_key k (items c)), OVal (Some (eval e)), [])
      | None => (c' (items c), OVal None, [])
      end
  | Peek k => (c' (items c), OVal (option_map eval (find k (items c))), [])
  | Contains k => (c' (items c), OBool (match find k (items c) with Some _ => true | None => false end), [])
  | GetOldest => (c' (items c), OKV (option_map kv (hd_error (rev (items c)))), [])
  | Keys => (c' (items c), OKeys (map ekey (rev (items c))), [])
  | Remove k =>
      match find k (items c) with
      | Some e => (c' (remove_key k (items c)), OBool true, [kv e])
      | None => (c' (items c), OBool false, [])
      end
  | RemoveOldest =>
      let '(its, log) := drop_oldest (items c) in
      (c' its, OKV (hd_error log), log)
  | Resize n =>
      let diff := Z.max 0 (len c - n) in
      let '(its, log) := drop_oldest_n (Z.to_nat diff) (items c) in
      (mk n its (S t), OInt diff, log)
  | Purge => (c' [], OUnit, map kv (items c))
  | Len => (c' (items c), OInt (len c), [])
  | Cap => (c' (items c), OInt (cap c), [])
  end.

Definition new_cache (size : Z) : cache := mk size [] O.

(* run a whole history, collecting (return value, callback arguments) per operation *)
Fixpoint run (c : cache) (ops : list op) : cache * list (out * list (Z * Z)) :=
  match ops with
  | [] => (c, [])
  | o :: r => let '(c1, ou, lg) := step c o in
              let '(c2, res) := run c1 r in (c2, (ou, lg) :: res)
  end.

Definition state_after (c : cache) (ops : list op) : cache :=
  fold_left (fun c o => fst (fst (step c o))) ops c.
