(* C13 — LRU cache (collections/lru/cache.go): element-level model.  Definitions only.
   Model.v keeps the recency list and the key index as ONE Coq list.  Here they are the
   separate objects of the code:
     lst   : the container/list, as the element ids (one id per *list.Element), front first;
     store : the *Entry each element's Value points to (key, value) — the value is mutable
             (Put on an existing key executes  e.Value.( *Entry).Value = value);
     idx   : the Go map  items : map[interface{}]*list.Element  as an association list
             key -> element id, with lookup / insert / delete;
     next  : the next fresh element id (a list.Element is allocated by PushFront only);
     ccap  : the field `size`.
   [cstep] follows cache.go statement by statement: every lookup goes through idx
   (c.items[key]), Len() is the length of lst (c.list.Len()), MoveToFront / PushFront /
   Remove / Back / Init act on lst, removeElement = list remove + map delete + callback,
   Keys walks lst from the back, Purge ranges over the MAP (callback order = the order of idx
   here, any order in Go; Model.v reports the list order and Run.v compares Purge's log as a
   multiset, so the refinement states Purge's log up to Permutation) and then clears both.
   ProofsConcrete.v proves the representation invariant (idx and lst agree) for every history
   and that this model and Model.v return the same values and callback arguments. *)
From Coq Require Import ZArith List Bool Arith.
From FV Require Import C13.Model.
Import ListNotations.
Open Scope Z_scope.

Definition centry : Type := (Z * Z)%type.                (* Entry{Key, Value} *)

Record cstate := cmk {
  ccap : Z;
  lst : list nat;
  store : list (nat * centry);
  idx : list (Z * nat);
  next : nat
}.

(* ---- the heap of entries: element id -> *Entry ---- *)
Fixpoint sfind (id : nat) (s : list (nat * centry)) : option centry :=
  match s with
  | [] => None
  | (j, e) :: r => if Nat.eqb j id then Some e else sfind id r
  end.
(* e.Value.( *Entry): an id without an entry cannot arise (rep_store); (0,0) stands for the panic *)
Definition sget (id : nat) (s : list (nat * centry)) : centry :=
  match sfind id s with Some e => e | None => (0, 0) end.
(* a write shadows the older binding of the same id *)
Definition sset (id : nat) (e : centry) (s : list (nat * centry)) : list (nat * centry) := (id, e) :: s.

(* ---- the Go map ---- *)
Fixpoint ifind (k : Z) (m : list (Z * nat)) : option nat :=
  match m with
  | [] => None
  | (j, id) :: r => if j =? k then Some id else ifind k r
  end.
Fixpoint idel (k : Z) (m : list (Z * nat)) : list (Z * nat) :=            (* delete(m, k) *)
  match m with
  | [] => []
  | (j, id) :: r => if j =? k then idel k r else (j, id) :: idel k r
  end.
Definition iset (k : Z) (id : nat) (m : list (Z * nat)) : list (Z * nat) := (k, id) :: idel k m.   (* m[k] = id *)

(* ---- container/list on element ids ---- *)
Fixpoint lremove (id : nat) (l : list nat) : list nat :=                  (* l.Remove(e) *)
  match l with
  | [] => []
  | x :: r => if Nat.eqb x id then r else x :: lremove id r
  end.
Definition lmem (id : nat) (l : list nat) : bool := existsb (Nat.eqb id) l.
(* l.MoveToFront(e): nothing happens when e is not an element of l *)
Definition move_to_front (id : nat) (l : list nat) : list nat :=
  if lmem id l then id :: lremove id l else l.
Definition push_front (id : nat) (l : list nat) : list nat := id :: l.
Definition back (l : list nat) : option nat := hd_error (rev l).         (* l.Back(), nil on the empty list *)

Definition clen (cs : cstate) : Z := Z.of_nat (length (lst cs)).         (* c.list.Len() *)

(* removeElement(e): entry := e.Value.( *Entry); c.list.Remove(e); delete(c.items, entry.Key); callback *)
Definition remove_element (cs : cstate) (id : nat) : cstate * list (Z * Z) :=
  let entry := sget id (store cs) in
  (cmk (ccap cs) (lremove id (lst cs)) (store cs) (idel (fst entry) (idx cs)) (next cs), [entry]).

(* removeOldest(): ent := c.list.Back(); if ent != nil { c.removeElement(ent) } *)
Definition remove_oldest (cs : cstate) : cstate * list (Z * Z) :=
  match back (lst cs) with
  | Some id => remove_element cs id
  | None => (cs, [])
  end.

Fixpoint remove_oldest_n (n : nat) (cs : cstate) : cstate * list (Z * Z) :=
  match n with
  | O => (cs, [])
  | S n' => let '(c1, log1) := remove_oldest cs in
            let '(c2, log2) := remove_oldest_n n' c1 in (c2, log1 ++ log2)
  end.

Definition cstep (cs : cstate) (o : op) : cstate * out * list (Z * Z) :=
  match o with
  | Put k v =>
      match ifind k (idx cs) with                                         (* e, exist := c.items[key] *)
      | Some id =>
          let l' := move_to_front id (lst cs) in                         (* c.list.MoveToFront(e) *)
          let st' := sset id (fst (sget id (store cs)), v) (store cs) in (* e.Value.( *Entry).Value = value *)
          (cmk (ccap cs) l' st' (idx cs) (next cs), OBool false, [])
      | None =>
          let id := next cs in                                            (* entry := &Entry{key, value}; e = PushFront(entry) *)
          let cs1 := cmk (ccap cs) (push_front id (lst cs)) (sset id (k, v) (store cs))
                         (iset k id (idx cs)) (S id) in                   (* c.items[key] = e *)
          if clen cs1 >? ccap cs1                                         (* if c.Len() > c.size { c.removeOldest() } *)
          then let '(cs2, log) := remove_oldest cs1 in (cs2, OBool true, log)
          else (cs1, OBool true, [])
      end
  | Get k =>
      match ifind k (idx cs) with
      | Some id =>
          (cmk (ccap cs) (move_to_front id (lst cs)) (store cs) (idx cs) (next cs),
           OVal (Some (snd (sget id (store cs)))), [])
      | None => (cs, OVal None, [])
      end
  | Peek k => (cs, OVal (option_map (fun id => snd (sget id (store cs))) (ifind k (idx cs))), [])
  | Contains k => (cs, OBool (match ifind k (idx cs) with Some _ => true | None => false end), [])
  | GetOldest => (cs, OKV (option_map (fun id => sget id (store cs)) (back (lst cs))), [])
  | Keys =>                                                               (* for e := Back(); e != nil; e = e.Prev() *)
      (cs, OKeys (map (fun id => fst (sget id (store cs))) (rev (lst cs))), [])
  | Remove k =>
      match ifind k (idx cs) with
      | Some id => let '(cs', log) := remove_element cs id in (cs', OBool true, log)
      | None => (cs, OBool false, [])
      end
  | RemoveOldest =>
      match back (lst cs) with
      | Some id =>
          let entry := sget id (store cs) in
          let '(cs', log) := remove_element cs id in (cs', OKV (Some entry), log)
      | None => (cs, OKV None, [])
      end
  | Resize n =>
      let diff := Z.max 0 (clen cs - n) in
      let '(cs', log) := remove_oldest_n (Z.to_nat diff) cs in
      (cmk n (lst cs') (store cs') (idx cs') (next cs'), OInt diff, log)
  | Purge =>                                                              (* for k, v := range c.items { cb(k, v.Value.( *Entry).Value); delete(c.items, k) }; c.list.Init() *)
      (cmk (ccap cs) [] (store cs) [] (next cs), OUnit,
       map (fun p => (fst p, snd (sget (snd p) (store cs)))) (idx cs))
  | Len => (cs, OInt (clen cs), [])
  | Cap => (cs, OInt (ccap cs), [])
  end.

Definition cnew (size : Z) : cstate := cmk size [] [] [] O.

Fixpoint crun (cs : cstate) (ops : list op) : cstate * list (out * list (Z * Z)) :=
  match ops with
  | [] => (cs, [])
  | o :: r => let '(c1, ou, lg) := cstep cs o in
              let '(c2, res) := crun c1 r in (c2, (ou, lg) :: res)
  end.

Definition cstate_after (cs : cstate) (ops : list op) : cstate :=
  fold_left (fun c o => fst (fst (cstep c o))) ops cs.

(* the abstraction: the (key, value) of every element, in list order *)
Definition abs (cs : cstate) : list (Z * Z) := map (fun id => sget id (store cs)) (lst cs).
