(* C13 — the reference LRU the property speaks about: an unordered table
   key -> (value, time of last use) with a logical clock; the victim of an eviction is the
   entry whose last use is oldest; "oldest to newest" is the order of last use.
   Written without any recency list, as simply as possible. *)
From Coq Require Import ZArith List Bool Arith.
From FV Require Import C13.Model.
Import ListNotations.
Open Scope Z_scope.

Record spec := mks { scap : Z; stab : list entry; sclock : nat }.

(* entry with the smallest stamp *)
Fixpoint argmin (l : list entry) : option entry :=
  match l with
  | [] => None
  | e :: r => match argmin r with
              | Some m => if Nat.ltb (estamp m) (estamp e) then Some m else Some e
              | None => Some e
              end
  end.

Definition evict_one (l : list entry) : list entry * list (Z * Z) :=
  match argmin l with
  | Some m => (remove_key (ekey m) l, [kv m])
  | None => (l, [])
  end.

Fixpoint evict_n (n : nat) (l : list entry) : list entry * list (Z * Z) :=
  match n with
  | O => (l, [])
  | S n' => let '(l1, g1) := evict_one l in let '(l2, g2) := evict_n n' l1 in (l2, g1 ++ g2)
  end.

(* insertion sort by stamp, oldest first *)
Fixpoint insert_by_stamp (e : entry) (l : list entry) : list entry :=
  match l with
  | [] => [e]
  | x :: r => if Nat.leb (estamp e) (estamp x) then e :: l else x :: insert_by_stamp e r
  end.
Definition sort_by_stamp (l : list entry) : list entry := fold_right insert_by_stamp [] l.

Definition sstep (s : spec) (o : op) : spec * out * list (Z * Z) :=
  let t := sclock s in
  let s' := fun tab => mks (scap s) tab (S t) in
  match o with
  | Put k v =>
      match find k (stab s) with
      | Some _ => (s' ((k, v, t) :: remove_key k (stab s)), OBool false, [])
      | None =>
          let tab := (k, v, t) :: stab s in
          if Z.of_nat (length tab) >? scap s
          then let '(tab', log) := evict_one tab in (s' tab', OBool true, log)
          else (s' tab, OBool true, [])
      end
  | Get k =>
      match find k (stab s) with
      | Some e => (s' ((k, eval e, t) :: remove_key k (stab s)), OVal (Some (eval e)), [])
      | None => (s' (stab s), OVal None, [])
      end
  | Peek k => (s' (stab s), OVal (option_map eval (find k (stab s))), [])
  | Contains k => (s' (stab s), OBool (match find k (stab s) with Some _ => true | None => false end), [])
  | GetOldest => (s' (stab s), OKV (option_map kv (argmin (stab s))), [])
  | Keys => (s' (stab s), OKeys (map ekey (sort_by_stamp (stab s))), [])
  | Remove k =>
      match find k (stab s) with
      | Some e => (s' (remove_key k (stab s)), OBool true, [kv e])
      | None => (s' (stab s), OBool false, [])
      end
  | RemoveOldest =>
      let '(tab, log) := evict_one (stab s) in (s' tab, OKV (hd_error log), log)
  | Resize n =>
      let diff := Z.max 0 (Z.of_nat (length (stab s)) - n) in
      let '(tab, log) := evict_n (Z.to_nat diff) (stab s) in
      (mks n tab (S t), OInt diff, log)
  | Purge => (s' [], OUnit, map kv (sort_by_stamp (stab s)))
  | Len => (s' (stab s), OInt (Z.of_nat (length (stab s))), [])
  | Cap => (s' (stab s), OInt (scap s), [])
  end.

Definition new_spec (size : Z) : spec := mks size [] O.
