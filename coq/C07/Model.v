(* C07 — packet values (packet/packet.go, packet/packet_encode.go, codec/marshal.go).
   Executable model; nothing is proved here.

   Bytes and characters are Z in [0,256); strings are their UTF-8 bytes (Go strings are byte
   strings; []byte(s) and string(b) copy them verbatim).  Floats are IEEE-754 bit patterns.
   `None` stands for a Go panic where a function can panic.

   The model states the behaviour the property demands: Errno reads the code from the numeric
   body, integers print in base 10, an absent body has the empty wire form.

   External behaviour enters as explicit function arguments (oracles), never as axioms:
     widen     float64(float32) on bit patterns            (hardware conversion)
     f2i, i2f  int64(float64), float64(int64)              (hardware conversions)
     fmtf      strconv.FormatFloat(v, 'g', -1, 64)
     parsef    strconv.ParseFloat(s, 64)      (None = error)
     fmtp      protojson text of a message (MessageToString), by its marshalled bytes
     compress / decompress / encrypt / decrypt             (zlib, block cipher) *)
From Coq Require Import ZArith List Bool.
From FV Require Import Generated.Consts Lib.Wrap Lib.LE Lib.Varint Lib.Dec Lib.Float.
Import ListNotations.
Open Scope Z_scope.

(* ---- Go values accepted by SetBody ------------------------------------------------- *)
Inductive ikind : Type :=
| IInt | IUint | II8 | II16 | II32 | II64 | IU8 | IU16 | IU32 | IU64.

Inductive gov : Type :=
| GNil
| GInt (k : ikind) (v : Z)          (* any integer kind, value in the range of the kind *)
| GBool (b : bool)
| GF32 (bits : Z)
| GF64 (bits : Z)
| GStr (s : list Z)
| GBytes (b : list Z)
| GProto (m : list Z).             (* a proto.Message, represented by its proto.Marshal bytes *)

(* what Body_ holds afterwards: int64 / float64 / string / []byte / nil *)
Inductive body : Type :=
| BNil
| BInt (z : Z)
| BFloat (bits : Z)
| BStr (s : list Z)
| BBytes (b : list Z)
| BProto (m : list Z).

Record oracles : Type := mkOr {
  widen : Z -> Z;
  f2i : Z -> Z;
  i2f : Z -> Z;
  fmtf : Z -> list Z;
  parsef : list Z -> option Z;
  fmtp : list Z -> list Z }.

(* The conversions Go performs in hardware, modelled exactly on bit patterns (Lib/Float.v):
   float32 -> float64 widening for every pattern, int64 -> float64 with round-to-nearest-even,
   float64 -> int64 truncation where Go defines it.  What remains external: which NaN a float32
   NaN widens to (nan_widen: amd64 keeps sign and payload and sets the quiet bit, which is what
   widen32 computes; the 386 build observed here returns the canonical 0x7ff8000000000000; Go
   promises neither), the result of int64(float64) for NaN / infinities / magnitudes >= 2^63
   (f2i_oor), and strconv / protojson. *)
Definition is_nan32 (b : Z) : bool := (f32_exp b =? 255) && negb (f32_man b =? 0).

Definition go_oracles (nan_widen : Z -> Z) (f2i_oor : Z -> Z) (fmt_f : Z -> list Z)
           (parse_f : list Z -> option Z) (fmt_p : list Z -> list Z) : oracles :=
  mkOr (fun b => if is_nan32 b then nan_widen b else widen32 b)
       (fun w => match Float.f2i w with Some z => z | None => f2i_oor w end)
       Float.i2f fmt_f parse_f fmt_p.

(* SetBody: every integer kind becomes int64 (uint and uint64 wrap), float32 widens *)
Definition set_body (o : oracles) (v : gov) : body :=
  match v with
  | GNil => BNil
  | GInt _ z => BInt (wraps 64 z)
  | GBool b => BInt (if b then 1 else 0)
  | GF32 bits => BFloat (widen o bits)
  | GF64 bits => BFloat bits
  | GStr s => BStr s
  | GBytes b => BBytes b
  | GProto m => BProto m
  end.

(* BodyToInt *)
Definition body_to_int (o : oracles) (b : body) : option Z :=
  match b with
  | BInt z => Some z
  | BFloat f => Some (f2i o f)
  | BStr s => parse_int s                                   (* error -> panic *)
  | BBytes l =>
      match length l with
      | 0%nat => Some 0
      | 1%nat | 2%nat | 4%nat => Some (le_get l)            (* int64(uintN) *)
      | 8%nat => Some (wraps 64 (le_get l))                 (* int64(uint64) *)
      | _ => None
      end
  | BNil | BProto _ => None
  end.

(* BodyToFloat *)
Definition body_to_float (o : oracles) (b : body) : option Z :=
  match b with
  | BInt z => Some (i2f o z)
  | BFloat f => Some f
  | BStr s => parsef o s
  | BBytes l =>
      match length l with
      | 4%nat => Some (widen o (le_get l))
      | 8%nat => Some (le_get l)
      | _ => None
      end
  | BNil | BProto _ => None
  end.

Definition nil_text : list Z := [60; 110; 105; 108; 62].     (* fmt %v of nil: "<nil>" *)

(* BodyToString: total *)
Definition body_to_string (o : oracles) (b : body) : list Z :=
  match b with
  | BStr s => s
  | BBytes l => l
  | BInt z => format_int z                                  (* base 10 *)
  | BFloat f => fmtf o f
  | BProto m => fmtp o m
  | BNil => nil_text
  end.

(* BodyToBytes: total; an absent body has the empty wire form *)
Definition body_to_bytes (b : body) : list Z :=
  match b with
  | BStr s => s
  | BBytes l => l
  | BInt z => put_varint z
  | BFloat f => put_uvarint f
  | BProto m => m                                           (* proto.Marshal *)
  | BNil => []
  end.

(* ---- packets ----------------------------------------------------------------------- *)
Record packet : Type := mkPkt {
  cmd : Z;                 (* int32 *)
  seq : Z;                 (* uint16 *)
  typ : Z;                 (* int8 *)
  flg : Z;                 (* uint8 *)
  node : Z;                (* uint32 *)
  pbody : body;
  refers : list Z;         (* []NodeID; nil and empty are not distinguished *)
  endpoint : option Z }.   (* identity of the bound endpoint, None = nil *)

Definition make : packet := mkPkt 0 0 0 0 0 BNil [] None.

Definition has_flag (f bit : Z) : bool := negb (Z.land f bit =? 0).

(* Errno: the code carried in the numeric body when the error flag is set *)
Definition errno (p : packet) : Z :=
  if has_flag (flg p) root_PFlagError then
    match pbody p with
    | BInt z => wraps 32 z
    | _ => 0
    end
  else 0.

Definition with_body (p : packet) (b : body) : packet :=
  mkPkt (cmd p) (seq p) (typ p) (flg p) (node p) b (refers p) (endpoint p).
Definition with_flag (p : packet) (f : Z) : packet :=
  mkPkt (cmd p) (seq p) (typ p) f (node p) (pbody p) (refers p) (endpoint p).

(* SetErrno(ec int32) *)
Definition set_errno (ec : Z) (p : packet) : packet :=
  with_body (with_flag p (Z.lor (flg p) root_PFlagError)) (BInt (wraps 64 ec)).

(* ReplyWith(command, body): the packet handed to the endpoint, and the endpoint it is handed
   to.  None = nil endpoint (nil dereference).  The body is stored as given. *)
Definition reply_with (p : packet) (command : Z) (b : body) : option (Z * packet) :=
  match endpoint p with
  | None => None
  | Some e => Some (e, mkPkt command (seq p) (typ p) (flg p) (node p) b (refers p) None)
  end.

(* Clone(): the same packet value, not bound to an endpoint *)
Definition clone (p : packet) : packet :=
  mkPkt (cmd p) (seq p) (typ p) (flg p) (node p) (pbody p) (refers p) None.

(* New(command, seq, flag, v) and ReplyWith(command, v) with any Go value SetBody supports: the
   value is normalised exactly as SetBody does, so that the packet has a wire form *)
Definition new_packet (o : oracles) (command sq flag : Z) (v : gov) : packet :=
  mkPkt command sq 0 flag 0 (set_body o v) [] None.
Definition reply_with_value (o : oracles) (p : packet) (command : Z) (v : gov) : option (Z * packet) :=
  reply_with p command (set_body o v).

(* RefuseWith(command, errno) *)
Definition refuse_with (p : packet) (command ec : Z) : option (Z * packet) :=
  match endpoint p with
  | None => None
  | Some e =>
      let q := mkPkt command (seq p) (typ p) (Z.lor (flg p) root_PFlagError) (node p) BNil (refers p) None in
      Some (e, set_errno ec q)
  end.

(* Refuse(errno): the command is the paired Ack id of the request, or the request's own id
   when none is registered (ack_id = GetPairingAckID, 0 = none) *)
Definition refuse (ack_id : Z -> Z) (p : packet) (ec : Z) : option (Z * packet) :=
  refuse_with p (if ack_id (cmd p) =? 0 then cmd p else ack_id (cmd p)) ec.

(* Reply(ack): under the id registered for the ack's type (mid = GetMessageIDOf(ack), 0 = none:
   the request's own command) *)
Definition reply (mid : Z) (p : packet) (b : body) : option (Z * packet) :=
  reply_with p (if mid =? 0 then cmd p else mid) b.

(* Decode(): re-create the message registered for the command id from the wire form.
   registered = a type is registered under cmd p; valid = proto.Unmarshal accepts the bytes.
   None = error returned (the packet is unchanged). *)
Definition decode (registered valid : bool) (p : packet) : option packet :=
  if registered then
    match body_to_bytes (pbody p) with
    | [] => Some (with_body p (BProto []))
    | w => if valid then Some (with_body p (BProto w)) else None
    end
  else None.

(* DecodeTo(msg): unmarshal the wire form into a caller-supplied message; valid = proto.Unmarshal
   accepts the bytes for that message type.  Some true = nil returned, Some false = error; an
   empty wire form leaves the message alone. *)
Definition decode_to (valid : bool) (p : packet) : bool :=
  match body_to_bytes (pbody p) with
  | [] => true
  | _ => valid
  end.

(* ---- across the wire (codec/marshal.go + the header fields each codec carries) ------- *)
Record coders : Type := mkCo {
  compress : list Z -> list Z;
  decompress : list Z -> option (list Z);
  encrypt : list Z -> list Z;
  decrypt : list Z -> list Z }.

(* an executable instance: a one-byte "zlib header" and a byte-wise xor "cipher".  What the
   receiver ends up with does not depend on the coders (C07/Proofs.v: wire_v1_result), so the
   correspondence check evaluates the model with this instance. *)
Definition tag_coders : coders :=
  mkCo (fun b => 120 :: b) (fun b => match b with 120 :: r => Some r | _ => None end)
       (map (fun x => Z.lxor x 90)) (map (fun x => Z.lxor x 90)).

(* marshalPacketBody: (flag written into the header and left on the sender's packet, payload) *)
(* the two marshalling marks describe the body produced by THIS call: marks left on the packet
   (by an earlier encode, or by the sender) are dropped first *)
Definition unmark (f : Z) : Z := Z.land f (255 - root_PFlagCompressed - root_PFlagEncrypted).

Definition marshal_body (c : coders) (threshold : Z) (enc : bool) (p : packet) : Z * list Z :=
  let b := body_to_bytes (pbody p) in
  let f0 := unmark (flg p) in
  let '(f1, b1) := if (0 <? threshold) && (threshold <? Z.of_nat (length b))
                   then (Z.lor f0 root_PFlagCompressed, compress c b) else (f0, b) in
  if negb (Nat.eqb (length b1) 0) && enc
  then (Z.lor f1 root_PFlagEncrypted, encrypt c b1) else (f1, b1).

(* unmarshalPacketBody on a non-empty payload; None = error returned *)
Definition unmarshal_body (c : coders) (dec : bool) (b : list Z) (p : packet) : option packet :=
  let f := flg p in
  match (if has_flag f root_PFlagEncrypted
         then (if dec then Some (Z.land f (255 - root_PFlagEncrypted), decrypt c b) else None)
         else Some (f, b)) with
  | None => None
  | Some (f1, b1) =>
      match (if has_flag f1 root_PFlagCompressed
             then option_map (fun u => (Z.land f1 (255 - root_PFlagCompressed), u)) (decompress c b1)
             else Some (f1, b1)) with
      | None => None
      | Some (f2, b2) =>
          let p' := with_flag p f2 in
          if has_flag f2 root_PFlagError
          then Some (with_body p' (BInt (fst (varint b2))))      (* SetBody(x) *)
          else Some (with_body p' (BBytes b2))
      end
  end.

(* the frame a codec writes: the header fields it carries plus the payload *)
Definition decode_payload (c : coders) (dec : bool) (payload : list Z) (p : packet) : option packet :=
  match payload with
  | [] => Some p                                             (* body stays nil *)
  | _ => unmarshal_body c dec payload p
  end.

(* V1 carries flag, seq, command (the type byte is written but not read back) *)
Definition wire_v1 (c : coders) (threshold : Z) (enc dec : bool) (p : packet) : option packet :=
  let '(f, payload) := marshal_body c threshold enc p in
  if codec_V1MaxPayloadBytes <? codec_V1HeaderSize + Z.of_nat (length payload) then None
  else decode_payload c dec payload (mkPkt (cmd p) (seq p) 0 f 0 BNil [] None).

(* V2 carries type, flag, seq, node, command and the reference list *)
Definition wire_v2 (c : coders) (threshold : Z) (enc dec : bool) (p : packet) : option packet :=
  if 255 <? Z.of_nat (length (refers p)) then None
  else
    let '(f, payload) := marshal_body c threshold enc p in
    if codec_V2MaxPayloadBytes <? codec_V2HeaderSize + 4 * Z.of_nat (length (refers p)) + Z.of_nat (length payload)
    then None
    else decode_payload c dec payload (mkPkt (cmd p) (seq p) (typ p) f (node p) BNil (refers p) None).
