(* C07 — lemmas about the packet value model. *)
From Coq Require Import ZArith List Bool Lia.
From FV Require Import Generated.Consts Lib.Wrap Lib.LE Lib.Varint Lib.Dec C07.Model.
Import ListNotations.
Open Scope Z_scope.

(* integers on the wire: the variable-length form decodes to exactly the value set *)
Lemma int_wire_roundtrip z rest : in_s 64 z ->
  varint (body_to_bytes (BInt z) ++ rest) = (z, Z.of_nat (length (body_to_bytes (BInt z)))).
Proof. intros H. cbn [body_to_bytes]. apply varint_put_varint; assumption. Qed.

Lemma float_wire_roundtrip f rest : 0 <= f < 2 ^ 64 ->
  uvarint (body_to_bytes (BFloat f) ++ rest) = (f, Z.of_nat (length (body_to_bytes (BFloat f)))).
Proof. intros H. cbn [body_to_bytes]. apply uvarint_put_uvarint; assumption. Qed.
