(* C07 — lemmas about the packet value model. *)
From Coq Require Import ZArith List Bool Lia.
From FV Require Import Generated.Consts Lib.Wrap Lib.LE Lib.Varint Lib.Dec C07.Model.
Import ListNotations.
Open Scope Z_scope.

(* ---- ranges of the Go types --------------------------------------------------------------- *)
Definition int_range (k : ikind) (z : Z) : Prop :=
  match k with
  | IInt | II64 => in_s 64 z
  | IUint | IU64 => in_u 64 z
  | II8 => in_s 8 z
  | II16 => in_s 16 z
  | II32 => in_s 32 z
  | IU8 => in_u 8 z
  | IU16 => in_u 16 z
  | IU32 => in_u 32 z
  end.

(* kinds whose every value is an int64 value (all but uint / uint64) *)
Definition fits_int64 (k : ikind) : Prop := match k with IUint | IU64 => False | _ => True end.

Lemma int_range_fits k z : int_range k z -> fits_int64 k -> in_s 64 z.
Proof.
  unfold in_s. change (2 ^ (64 - 1)) with 9223372036854775808.
  destruct k; cbn [int_range fits_int64]; unfold in_s, in_u; intros H F; try contradiction;
    cbn in H; cbn; lia.
Qed.

Lemma int_range_wide k z : int_range k z -> - 2 ^ 63 <= z < 2 ^ 64.
Proof. destruct k; cbn [int_range]; unfold in_s, in_u; cbn; lia. Qed.

(* ---- read-back ---------------------------------------------------------------------------- *)
Lemma readback_int o k z : int_range k z ->
  body_to_int o (set_body o (GInt k z)) = Some (wraps 64 z) /\
  in_s 64 (wraps 64 z) /\ wrapu 64 (wraps 64 z) = wrapu 64 z /\
  (fits_int64 k -> wraps 64 z = z).
Proof.
  intros H. cbn [set_body body_to_int]. split; [reflexivity|]. split; [apply wraps_range; lia|].
  split; [apply wrapu_wraps; lia|]. intros F. apply wraps_small; [lia|]. eapply int_range_fits; eassumption.
Qed.

Lemma readback_bool o b : body_to_int o (set_body o (GBool b)) = Some (if b then 1 else 0).
Proof. reflexivity. Qed.
Lemma readback_f64 o f : body_to_float o (set_body o (GF64 f)) = Some f.
Proof. reflexivity. Qed.
Lemma readback_f32 o f : body_to_float o (set_body o (GF32 f)) = Some (widen o f).
Proof. reflexivity. Qed.
Lemma readback_str o s : body_to_string o (set_body o (GStr s)) = s.
Proof. reflexivity. Qed.
Lemma readback_bytes o b : body_to_bytes (set_body o (GBytes b)) = b.
Proof. reflexivity. Qed.
Lemma readback_nil o : set_body o GNil = BNil.
Proof. reflexivity. Qed.

(* ---- text form ------------------------------------------------------------------------------ *)
Lemma text_int o z : in_s 64 z ->
  body_to_string o (BInt z) = format_int z /\ parse_int (body_to_string o (BInt z)) = Some z /\
  body_to_string o (BInt z) <> [].
Proof.
  unfold in_s. change (64 - 1) with 63. intros H. cbn [body_to_string].
  split; [reflexivity|]. split; [apply parse_format_int; assumption | apply format_int_nonempty; assumption].
Qed.

Lemma text_set_int o k z : int_range k z ->
  parse_int (body_to_string o (set_body o (GInt k z))) = Some (wraps 64 z).
Proof. intros H. cbn [set_body]. apply text_int. apply wraps_range. lia. Qed.

Lemma text_set_bool o b : parse_int (body_to_string o (set_body o (GBool b))) = Some (if b then 1 else 0).
Proof. destruct b; reflexivity. Qed.

(* ---- wire form ------------------------------------------------------------------------------ *)
Lemma int_wire_roundtrip z rest : in_s 64 z ->
  varint (body_to_bytes (BInt z) ++ rest) = (z, Z.of_nat (length (body_to_bytes (BInt z)))).
Proof. intros H. cbn [body_to_bytes]. apply varint_put_varint; assumption. Qed.

Lemma float_wire_roundtrip f rest : 0 <= f < 2 ^ 64 ->
  uvarint (body_to_bytes (BFloat f) ++ rest) = (f, Z.of_nat (length (body_to_bytes (BFloat f)))).
Proof. intros H. cbn [body_to_bytes]. apply uvarint_put_uvarint; assumption. Qed.

Lemma wire_set_int o k z rest : int_range k z ->
  varint (body_to_bytes (set_body o (GInt k z)) ++ rest) =
  (wraps 64 z, Z.of_nat (length (body_to_bytes (set_body o (GInt k z))))).
Proof. intros H. cbn [set_body]. apply int_wire_roundtrip. apply wraps_range. lia. Qed.

Lemma wire_set_bool o b rest :
  varint (body_to_bytes (set_body o (GBool b)) ++ rest) =
  ((if b then 1 else 0), Z.of_nat (length (body_to_bytes (set_body o (GBool b))))).
Proof. cbn [set_body]. apply int_wire_roundtrip. destruct b; unfold in_s; cbn; lia. Qed.

Lemma wire_nonempty_num b : (exists z, b = BInt z) \/ (exists f, b = BFloat f) -> body_to_bytes b <> [].
Proof.
  intros [[z ->]|[f ->]]; cbn [body_to_bytes]; intros E.
  - pose proof (put_varint_length z) as L. rewrite E in L. cbn in L. lia.
  - pose proof (put_uvarint_length f) as L. rewrite E in L. cbn in L. lia.
Qed.

(* ---- flags: 8-bit, so the bit algebra is settled by a complete sweep --------------------------- *)
Lemma sweep256 (P : Z -> bool) :
  forallb P (map Z.of_nat (List.seq 0 256)) = true -> forall f, 0 <= f < 256 -> P f = true.
Proof.
  intros H f Hf. rewrite forallb_forall in H. apply H. apply in_map_iff.
  exists (Z.to_nat f). split; [lia|]. apply List.in_seq. lia.
Qed.

(* the compression / encryption marks are not set by the sender *)
Definition clean (f : Z) : Prop :=
  0 <= f < 256 /\ has_flag f root_PFlagCompressed = false /\ has_flag f root_PFlagEncrypted = false.

Definition cleanb (f : Z) : bool := negb (has_flag f 1) && negb (has_flag f 2).

Lemma clean_cleanb f : clean f -> 0 <= f < 256 /\ cleanb f = true.
Proof.
  unfold clean, cleanb, root_PFlagCompressed, root_PFlagEncrypted. intros (H & H1 & H2).
  split; [assumption|]. now rewrite H1, H2.
Qed.

Lemma clean_sweep (law : Z -> bool) :
  forallb (fun g => negb (cleanb g) || law g) (map Z.of_nat (List.seq 0 256)) = true ->
  forall g, clean g -> law g = true.
Proof.
  intros H g Hc. destruct (clean_cleanb g Hc) as [Hr Hb].
  pose proof (sweep256 _ H g Hr) as S. cbv beta in S. rewrite Hb in S. exact S.
Qed.

Ltac by_sweep law := apply (clean_sweep law); [vm_compute; reflexivity | assumption].

Lemma ff_c_not_e g : clean g -> has_flag (Z.lor g 1) 2 = false.
Proof. intros H. apply negb_true_iff. by_sweep (fun g => negb (has_flag (Z.lor g 1) 2)). Qed.
Lemma ff_e g : clean g -> has_flag (Z.lor g 2) 2 = true.
Proof. intros H. by_sweep (fun g => has_flag (Z.lor g 2) 2). Qed.
Lemma ff_ce_e g : clean g -> has_flag (Z.lor (Z.lor g 1) 2) 2 = true.
Proof. intros H. by_sweep (fun g => has_flag (Z.lor (Z.lor g 1) 2) 2). Qed.
Lemma ff_e_clear g : clean g -> Z.land (Z.lor g 2) 253 = g.
Proof. intros H. apply Z.eqb_eq. by_sweep (fun g => Z.land (Z.lor g 2) 253 =? g). Qed.
Lemma ff_ce_clear g : clean g -> Z.land (Z.lor (Z.lor g 1) 2) 253 = Z.lor g 1.
Proof. intros H. apply Z.eqb_eq. by_sweep (fun g => Z.land (Z.lor (Z.lor g 1) 2) 253 =? Z.lor g 1). Qed.
Lemma ff_c g : clean g -> has_flag (Z.lor g 1) 1 = true.
Proof. intros H. by_sweep (fun g => has_flag (Z.lor g 1) 1). Qed.
Lemma ff_c_clear g : clean g -> Z.land (Z.lor g 1) 254 = g.
Proof. intros H. apply Z.eqb_eq. by_sweep (fun g => Z.land (Z.lor g 1) 254 =? g). Qed.
Lemma ff_err g : clean g -> has_flag (Z.lor g 16) 16 = true.
Proof. intros H. by_sweep (fun g => has_flag (Z.lor g 16) 16). Qed.
Lemma ff_err_idem g : clean g -> Z.lor (Z.lor g 16) 16 = Z.lor g 16.
Proof. intros H. apply Z.eqb_eq. by_sweep (fun g => Z.lor (Z.lor g 16) 16 =? Z.lor g 16). Qed.
Lemma fa_err g : 0 <= g < 256 -> has_flag (Z.lor g 16) 16 = true.
Proof. intros H. apply (sweep256 (fun g => has_flag (Z.lor g 16) 16)); [vm_compute; reflexivity|assumption]. Qed.
Lemma fa_err_idem g : 0 <= g < 256 -> Z.lor (Z.lor g 16) 16 = Z.lor g 16.
Proof. intros H. apply Z.eqb_eq. apply (sweep256 (fun g => Z.lor (Z.lor g 16) 16 =? Z.lor g 16)); [vm_compute; reflexivity|assumption]. Qed.
Lemma unmark_252 g : unmark g = Z.land g 252.
Proof. reflexivity. Qed.
Lemma clean_unmark g : clean g -> unmark g = g.
Proof. intros H. rewrite unmark_252. apply Z.eqb_eq. by_sweep (fun g => Z.land g 252 =? g). Qed.
Lemma unmark_clean g : 0 <= g < 256 -> clean (unmark g).
Proof.
  intros H. rewrite unmark_252. unfold clean, root_PFlagCompressed, root_PFlagEncrypted. repeat split.
  - apply Z.leb_le. apply (sweep256 (fun g => 0 <=? Z.land g 252)); [vm_compute; reflexivity|assumption].
  - apply Z.ltb_lt. apply (sweep256 (fun g => Z.land g 252 <? 256)); [vm_compute; reflexivity|assumption].
  - apply negb_true_iff. apply (sweep256 (fun g => negb (has_flag (Z.land g 252) 1))); [vm_compute; reflexivity|assumption].
  - apply negb_true_iff. apply (sweep256 (fun g => negb (has_flag (Z.land g 252) 2))); [vm_compute; reflexivity|assumption].
Qed.
Lemma unmark_err g : 0 <= g < 256 -> has_flag (unmark g) 16 = has_flag g 16.
Proof.
  intros H. rewrite unmark_252. apply eqb_prop.
  apply (sweep256 (fun g => Bool.eqb (has_flag (Z.land g 252) 16) (has_flag g 16))); [vm_compute; reflexivity|assumption].
Qed.
Lemma unmark_idem g : unmark (unmark g) = unmark g.
Proof. rewrite !unmark_252. rewrite <- Z.land_assoc. reflexivity. Qed.
Lemma unmark_lor_err g : 0 <= g < 256 -> unmark (Z.lor g 16) = Z.lor (unmark g) 16.
Proof.
  intros H. rewrite !unmark_252. apply Z.eqb_eq.
  apply (sweep256 (fun g => Z.land (Z.lor g 16) 252 =? Z.lor (Z.land g 252) 16)); [vm_compute; reflexivity|assumption].
Qed.
Lemma ff_err_clean g : clean g -> clean (Z.lor g 16).
Proof.
  intros H. unfold clean, root_PFlagCompressed, root_PFlagEncrypted. repeat split.
  - apply Z.leb_le. by_sweep (fun g => 0 <=? Z.lor g 16).
  - apply Z.ltb_lt. by_sweep (fun g => Z.lor g 16 <? 256).
  - apply negb_true_iff. by_sweep (fun g => negb (has_flag (Z.lor g 16) 1)).
  - apply negb_true_iff. by_sweep (fun g => negb (has_flag (Z.lor g 16) 2)).
Qed.

(* ---- across the wire ------------------------------------------------------------------------- *)
(* what is assumed of zlib and of the cipher: they invert, zlib output is never empty (it has a
   header) and the cipher does not turn a non-empty payload into an empty one (CFB keeps lengths) *)
Record coders_ok (c : coders) : Prop := mkCok {
  unzip : forall b, decompress c (compress c b) = Some b;
  zip_nonempty : forall b, compress c b <> [];
  uncipher : forall b, decrypt c (encrypt c b) = b;
  cipher_nonempty : forall b, b <> [] -> encrypt c b <> [] }.

(* the body a receiver rebuilds from the (non-empty) wire form w under flag g *)
Definition rebuilt (g : Z) (w : list Z) : body :=
  if has_flag g root_PFlagError then BInt (fst (varint w)) else BBytes w.

Lemma length_zero_iff {A} (l : list A) : Nat.eqb (length l) 0 = true <-> l = [].
Proof. destruct l; cbn; split; congruence. Qed.

Lemma nonempty_eqb {A} (l : list A) : l <> [] -> negb (Nat.eqb (length l) 0) = true.
Proof. destruct l; [congruence|reflexivity]. Qed.

(* marshalPacketBody followed by unmarshalPacketBody on the receiving side: the marks the codec
   set are cleared again, the payload is the sender's wire form, the body is rebuilt from it *)
Lemma unmarshal_marshal c thr enc p q0 f payload :
  coders_ok c -> clean (flg p) -> body_to_bytes (pbody p) <> [] ->
  marshal_body c thr enc p = (f, payload) -> flg q0 = f ->
  payload <> [] /\
  unmarshal_body c enc payload q0 =
    Some (with_body (with_flag q0 (flg p)) (rebuilt (flg p) (body_to_bytes (pbody p)))).
Proof.
  intros Hc Hcl Hw Hm Hq. destruct Hc as [Hunzip Hzne Hunc Hcne].
  unfold marshal_body in Hm. rewrite (clean_unmark _ Hcl) in Hm. cbv zeta in Hm.
  set (g := flg p) in *. set (w := body_to_bytes (pbody p)) in *.
  unfold root_PFlagCompressed, root_PFlagEncrypted in Hm.
  unfold unmarshal_body, rebuilt, root_PFlagCompressed, root_PFlagEncrypted, root_PFlagError. rewrite Hq.
  change (255 - 2) with 253. change (255 - 1) with 254.
  destruct Hcl as (Hr & Hc1 & Hc2). unfold root_PFlagCompressed in Hc1. unfold root_PFlagEncrypted in Hc2.
  assert (Hcl : clean g) by (unfold clean, root_PFlagCompressed, root_PFlagEncrypted; auto).
  destruct ((0 <? thr) && (thr <? Z.of_nat (length w))) eqn:EC.
  - (* compressed *)
    rewrite (nonempty_eqb _ (Hzne w)) in Hm. destruct enc; cbn [andb] in Hm; inversion Hm; subst f payload; clear Hm.
    + split; [apply Hcne, Hzne|].
      rewrite (ff_ce_e g Hcl), Hunc, (ff_ce_clear g Hcl), (ff_c g Hcl), Hunzip. cbn [option_map].
      rewrite (ff_c_clear g Hcl). destruct (has_flag g 16); reflexivity.
    + split; [apply Hzne|].
      rewrite (ff_c_not_e g Hcl), (ff_c g Hcl), Hunzip. cbn [option_map].
      rewrite (ff_c_clear g Hcl). destruct (has_flag g 16); reflexivity.
  - (* not compressed *)
    rewrite (nonempty_eqb _ Hw) in Hm. destruct enc; cbn [andb] in Hm; inversion Hm; subst f payload; clear Hm.
    + split; [apply Hcne, Hw|].
      rewrite (ff_e g Hcl), Hunc, (ff_e_clear g Hcl), Hc1. destruct (has_flag g 16); reflexivity.
    + split; [exact Hw|]. rewrite Hc2, Hc1. destruct (has_flag g 16); reflexivity.
Qed.

(* an empty wire form travels as an empty payload: nothing is compressed or encrypted *)
Lemma marshal_empty c thr enc p : clean (flg p) -> body_to_bytes (pbody p) = [] -> marshal_body c thr enc p = (flg p, []).
Proof.
  intros Hcl Hw. unfold marshal_body. rewrite (clean_unmark _ Hcl). rewrite Hw. cbn [length Z.of_nat]. cbv zeta.
  replace (thr <? 0) with (negb (0 <=? thr)) by (rewrite Z.leb_antisym, negb_involutive; reflexivity).
  destruct (0 <? thr) eqn:E.
  - apply Z.ltb_lt in E. replace (0 <=? thr) with true by (symmetry; apply Z.leb_le; lia). reflexivity.
  - reflexivity.
Qed.

(* the packet a V1 receiver ends up with *)
Definition v1_result (p : packet) : packet :=
  match body_to_bytes (pbody p) with
  | [] => mkPkt (cmd p) (seq p) 0 (flg p) 0 BNil [] None
  | w => mkPkt (cmd p) (seq p) 0 (flg p) 0 (rebuilt (flg p) w) [] None
  end.
Definition v2_result (p : packet) : packet :=
  match body_to_bytes (pbody p) with
  | [] => mkPkt (cmd p) (seq p) (typ p) (flg p) (node p) BNil (refers p) None
  | w => mkPkt (cmd p) (seq p) (typ p) (flg p) (node p) (rebuilt (flg p) w) (refers p) None
  end.

Lemma wire_v1_result c thr enc p q : coders_ok c -> clean (flg p) ->
  wire_v1 c thr enc enc p = Some q -> q = v1_result p.
Proof.
  intros Hc Hcl H. unfold wire_v1 in H. unfold v1_result.
  destruct (body_to_bytes (pbody p)) as [|x w] eqn:Ew.
  - rewrite (marshal_empty c thr enc p Hcl Ew) in H.
    destruct (codec_V1MaxPayloadBytes <? _); [discriminate|]. cbn [decode_payload] in H. congruence.
  - destruct (marshal_body c thr enc p) as [f payload] eqn:Em.
    destruct (codec_V1MaxPayloadBytes <? _); [discriminate|].
    destruct (unmarshal_marshal c thr enc p (mkPkt (cmd p) (seq p) 0 f 0 BNil [] None) f payload Hc Hcl
                ltac:(rewrite Ew; discriminate) Em eq_refl) as [Hne Hu].
    unfold decode_payload in H. destruct payload as [|y payload]; [congruence|].
    rewrite Hu in H. rewrite Ew in H. inversion H. reflexivity.
Qed.

Lemma wire_v2_result c thr enc p q : coders_ok c -> clean (flg p) ->
  wire_v2 c thr enc enc p = Some q -> q = v2_result p.
Proof.
  intros Hc Hcl H. unfold wire_v2 in H. unfold v2_result.
  destruct (255 <? Z.of_nat (length (refers p))); [discriminate|].
  destruct (body_to_bytes (pbody p)) as [|x w] eqn:Ew.
  - rewrite (marshal_empty c thr enc p Hcl Ew) in H.
    destruct (codec_V2MaxPayloadBytes <? _); [discriminate|]. cbn [decode_payload] in H. congruence.
  - destruct (marshal_body c thr enc p) as [f payload] eqn:Em.
    destruct (codec_V2MaxPayloadBytes <? _); [discriminate|].
    destruct (unmarshal_marshal c thr enc p (mkPkt (cmd p) (seq p) (typ p) f (node p) BNil (refers p) None) f payload Hc Hcl
                ltac:(rewrite Ew; discriminate) Em eq_refl) as [Hne Hu].
    unfold decode_payload in H. destruct payload as [|y payload]; [congruence|].
    rewrite Hu in H. rewrite Ew in H. inversion H. reflexivity.
Qed.

(* ---- error codes ------------------------------------------------------------------------------ *)
Lemma errno_unflagged p : has_flag (flg p) root_PFlagError = false -> errno p = 0.
Proof. intros H. unfold errno. now rewrite H. Qed.

Lemma in_s32_64 e : in_s 32 e -> in_s 64 e.
Proof. unfold in_s. cbn. lia. Qed.

Lemma errno_set e p : 0 <= flg p < 256 -> in_s 32 e -> errno (set_errno e p) = e.
Proof.
  intros Hcl He. unfold errno, set_errno. cbn [with_body with_flag flg pbody].
  unfold root_PFlagError. rewrite (fa_err _ Hcl).
  rewrite (wraps_small 64 e) by (try lia; apply in_s32_64; assumption).
  apply wraps_small; [lia|assumption].
Qed.

(* the receiver's view of a packet carrying an error code *)
Lemma errno_rebuilt e p :
  clean (flg p) -> in_s 32 e ->
  let p' := set_errno e p in
  body_to_bytes (pbody p') <> [] /\ rebuilt (flg p') (body_to_bytes (pbody p')) = BInt e /\
  has_flag (flg p') root_PFlagError = true.
Proof.
  intros Hcl He. cbv zeta. unfold set_errno. cbn [with_body with_flag flg pbody].
  rewrite (wraps_small 64 e) by (try lia; apply in_s32_64; assumption).
  split; [apply wire_nonempty_num; left; eexists; reflexivity|].
  unfold rebuilt, root_PFlagError. rewrite (ff_err _ Hcl). split; [|reflexivity].
  cbn [body_to_bytes]. rewrite <- (app_nil_r (put_varint e)).
  rewrite varint_put_varint by (apply in_s32_64; assumption). reflexivity.
Qed.

Lemma errno_wire_v1 c thr enc e p q : coders_ok c -> clean (flg p) -> in_s 32 e ->
  wire_v1 c thr enc enc (set_errno e p) = Some q -> errno q = e.
Proof.
  intros Hc Hcl He H.
  assert (Hcl' : clean (flg (set_errno e p))) by (cbn; apply ff_err_clean; assumption).
  rewrite (wire_v1_result c thr enc _ q Hc Hcl' H).
  destruct (errno_rebuilt e p Hcl He) as (Hne & Hb & Hf). cbv zeta in *.
  unfold v1_result. destruct (body_to_bytes (pbody (set_errno e p))) as [|x w] eqn:Ew; [congruence|].
  unfold errno. cbn [flg pbody]. rewrite Hf, Hb. apply wraps_small; [lia|assumption].
Qed.

Lemma errno_wire_v2 c thr enc e p q : coders_ok c -> clean (flg p) -> in_s 32 e ->
  wire_v2 c thr enc enc (set_errno e p) = Some q -> errno q = e.
Proof.
  intros Hc Hcl He H.
  assert (Hcl' : clean (flg (set_errno e p))) by (cbn; apply ff_err_clean; assumption).
  rewrite (wire_v2_result c thr enc _ q Hc Hcl' H).
  destruct (errno_rebuilt e p Hcl He) as (Hne & Hb & Hf). cbv zeta in *.
  unfold v2_result. destruct (body_to_bytes (pbody (set_errno e p))) as [|x w] eqn:Ew; [congruence|].
  unfold errno. cbn [flg pbody]. rewrite Hf, Hb. apply wraps_small; [lia|assumption].
Qed.

(* conversely the frame does cross whenever it fits the codec's size limit *)
Lemma wire_v1_complete c thr enc p : coders_ok c -> clean (flg p) ->
  codec_V1HeaderSize + Z.of_nat (length (snd (marshal_body c thr enc p))) <= codec_V1MaxPayloadBytes ->
  wire_v1 c thr enc enc p = Some (v1_result p).
Proof.
  intros Hc Hcl Hsz. unfold wire_v1, v1_result.
  destruct (body_to_bytes (pbody p)) as [|x w] eqn:Ew.
  - rewrite (marshal_empty c thr enc p Hcl Ew) in *. cbn [snd length] in *.
    replace (codec_V1MaxPayloadBytes <? _) with false by (symmetry; apply Z.ltb_ge; exact Hsz). reflexivity.
  - destruct (marshal_body c thr enc p) as [f payload] eqn:Em. cbn [snd] in Hsz.
    replace (codec_V1MaxPayloadBytes <? _) with false by (symmetry; apply Z.ltb_ge; exact Hsz).
    destruct (unmarshal_marshal c thr enc p (mkPkt (cmd p) (seq p) 0 f 0 BNil [] None) f payload Hc Hcl
                ltac:(rewrite Ew; discriminate) Em eq_refl) as [Hne Hu].
    unfold decode_payload. destruct payload as [|y payload]; [congruence|]. rewrite Hu, Ew. reflexivity.
Qed.

Lemma wire_v2_complete c thr enc p : coders_ok c -> clean (flg p) ->
  Z.of_nat (length (refers p)) <= 255 ->
  codec_V2HeaderSize + 4 * Z.of_nat (length (refers p)) + Z.of_nat (length (snd (marshal_body c thr enc p)))
    <= codec_V2MaxPayloadBytes ->
  wire_v2 c thr enc enc p = Some (v2_result p).
Proof.
  intros Hc Hcl Hrf Hsz. unfold wire_v2, v2_result.
  replace (255 <? Z.of_nat (length (refers p))) with false by (symmetry; apply Z.ltb_ge; exact Hrf).
  destruct (body_to_bytes (pbody p)) as [|x w] eqn:Ew.
  - rewrite (marshal_empty c thr enc p Hcl Ew) in *. cbn [snd length] in *.
    replace (codec_V2MaxPayloadBytes <? _) with false by (symmetry; apply Z.ltb_ge; exact Hsz). reflexivity.
  - destruct (marshal_body c thr enc p) as [f payload] eqn:Em. cbn [snd] in Hsz.
    replace (codec_V2MaxPayloadBytes <? _) with false by (symmetry; apply Z.ltb_ge; exact Hsz).
    destruct (unmarshal_marshal c thr enc p (mkPkt (cmd p) (seq p) (typ p) f (node p) BNil (refers p) None) f payload Hc Hcl
                ltac:(rewrite Ew; discriminate) Em eq_refl) as [Hne Hu].
    unfold decode_payload. destruct payload as [|y payload]; [congruence|]. rewrite Hu, Ew. reflexivity.
Qed.

(* an error code without compression (threshold >= the 10 bytes a varint can take) and with a
   length-preserving cipher is at most 10 bytes of payload: it always crosses *)
Lemma errno_payload_small c thr enc e p : 10 <= thr -> (forall b, length (encrypt c b) = length b) ->
  (length (snd (marshal_body c thr enc (set_errno e p))) <= 10)%nat.
Proof.
  intros Hthr Hlen. unfold marshal_body, set_errno. cbn [with_body with_flag pbody flg body_to_bytes].
  pose proof (put_varint_length (wraps 64 e)) as L.
  replace (thr <? Z.of_nat (length (put_varint (wraps 64 e)))) with false by (symmetry; apply Z.ltb_ge; lia).
  rewrite andb_false_r.
  destruct (negb (Nat.eqb (length (put_varint (wraps 64 e))) 0) && enc); cbn [snd]; [rewrite Hlen|]; lia.
Qed.

(* ---- a decoded packet can be sent on again ---------------------------------------------------- *)
(* without the error flag the receiver holds exactly the sender's wire form (text and bytes
   verbatim, numbers as their varints, an absent body as an absent one) *)
Lemma resend_v1 p : has_flag (flg p) root_PFlagError = false ->
  body_to_bytes (pbody (v1_result p)) = body_to_bytes (pbody p).
Proof.
  intros H. unfold v1_result. destruct (body_to_bytes (pbody p)) as [|x w] eqn:Ew; cbn [pbody body_to_bytes]; [reflexivity|].
  unfold rebuilt. rewrite H. reflexivity.
Qed.
Lemma resend_v2 p : has_flag (flg p) root_PFlagError = false ->
  body_to_bytes (pbody (v2_result p)) = body_to_bytes (pbody p).
Proof.
  intros H. unfold v2_result. destruct (body_to_bytes (pbody p)) as [|x w] eqn:Ew; cbn [pbody body_to_bytes]; [reflexivity|].
  unfold rebuilt. rewrite H. reflexivity.
Qed.

(* the decoded body is one of the kinds BodyToBytes accepts; in particular never a float/string *)
Lemma decoded_kind_v1 p :
  pbody (v1_result p) = BNil \/ (exists w, pbody (v1_result p) = BBytes w) \/ (exists z, pbody (v1_result p) = BInt z).
Proof.
  unfold v1_result. destruct (body_to_bytes (pbody p)); cbn [pbody]; [left; reflexivity|right].
  unfold rebuilt. destruct (has_flag (flg p) root_PFlagError); [right|left]; eexists; reflexivity.
Qed.
Lemma decoded_kind_v2 p :
  pbody (v2_result p) = BNil \/ (exists w, pbody (v2_result p) = BBytes w) \/ (exists z, pbody (v2_result p) = BInt z).
Proof.
  unfold v2_result. destruct (body_to_bytes (pbody p)); cbn [pbody]; [left; reflexivity|right].
  unfold rebuilt. destruct (has_flag (flg p) root_PFlagError); [right|left]; eexists; reflexivity.
Qed.

(* header fields each codec carries *)
Lemma header_v1 p : cmd (v1_result p) = cmd p /\ seq (v1_result p) = seq p /\ flg (v1_result p) = flg p.
Proof. unfold v1_result. destruct (body_to_bytes (pbody p)); cbn; auto. Qed.
Lemma header_v2 p :
  cmd (v2_result p) = cmd p /\ seq (v2_result p) = seq p /\ flg (v2_result p) = flg p /\
  typ (v2_result p) = typ p /\ node (v2_result p) = node p /\ refers (v2_result p) = refers p.
Proof. unfold v2_result. destruct (body_to_bytes (pbody p)); cbn; auto 10. Qed.

(* ---- replies and refusals -------------------------------------------------------------------- *)
Lemma reply_fields p command b e q : reply_with p command b = Some (e, q) ->
  endpoint p = Some e /\ cmd q = command /\ seq q = seq p /\ typ q = typ p /\ node q = node p /\
  refers q = refers p /\ flg q = flg p /\ pbody q = b.
Proof.
  unfold reply_with. destruct (endpoint p) as [e'|]; [|discriminate]. intros H. inversion H; subst. cbn. auto 10.
Qed.

Lemma reply_sent p command b e : endpoint p = Some e -> exists q, reply_with p command b = Some (e, q).
Proof. intros H. unfold reply_with. rewrite H. eexists. reflexivity. Qed.

Lemma refuse_with_fields p command ec e q : 0 <= flg p < 256 -> in_s 32 ec ->
  refuse_with p command ec = Some (e, q) ->
  endpoint p = Some e /\ cmd q = command /\ seq q = seq p /\ typ q = typ p /\ node q = node p /\
  refers q = refers p /\ has_flag (flg q) root_PFlagError = true /\ errno q = ec /\
  pbody q = BInt ec.
Proof.
  intros Hcl Hec. unfold refuse_with. destruct (endpoint p) as [e'|]; [|discriminate]. intros H. inversion H; subst.
  unfold set_errno, errno. cbn [with_body with_flag cmd seq typ node refers flg pbody].
  unfold root_PFlagError. rewrite (fa_err_idem _ Hcl), (fa_err _ Hcl).
  rewrite (wraps_small 64 ec) by (try lia; apply in_s32_64; assumption).
  rewrite (wraps_small 32 ec) by (try lia; assumption). auto 10.
Qed.

Lemma refuse_fields ack p ec e q : 0 <= flg p < 256 -> in_s 32 ec ->
  refuse ack p ec = Some (e, q) ->
  endpoint p = Some e /\ cmd q = (if ack (cmd p) =? 0 then cmd p else ack (cmd p)) /\
  seq q = seq p /\ typ q = typ p /\ node q = node p /\
  refers q = refers p /\ has_flag (flg q) root_PFlagError = true /\ errno q = ec.
Proof.
  intros Hcl Hec H. unfold refuse in H.
  destruct (refuse_with_fields p _ ec e q Hcl Hec H) as (H1 & H2 & H3 & H4 & H5 & H6 & H7 & H8 & _). auto 10.
Qed.

(* ---- protobuf bodies (a message is represented by its proto.Marshal bytes) ---------------------- *)
Lemma reply_registry_fields mid p b e q : reply mid p b = Some (e, q) ->
  endpoint p = Some e /\ cmd q = (if mid =? 0 then cmd p else mid) /\ seq q = seq p /\ typ q = typ p /\
  node q = node p /\ refers q = refers p /\ pbody q = b.
Proof.
  unfold reply. intros H. destruct (reply_fields p _ b e q H) as (H1 & H2 & H3 & H4 & H5 & H6 & _ & H8). auto 10.
Qed.

(* a message sent without the error flag and decoded by a registered type that accepts its bytes
   is the message that was sent (the zero message, whose wire form is empty, included) *)
Lemma decode_after_v1 p m : pbody p = BProto m -> has_flag (flg p) root_PFlagError = false ->
  decode true true (v1_result p) = Some (with_body (v1_result p) (BProto m)).
Proof.
  intros Hb Hf. unfold decode. rewrite (resend_v1 p Hf), Hb. cbn [body_to_bytes].
  destruct m; reflexivity.
Qed.
Lemma decode_after_v2 p m : pbody p = BProto m -> has_flag (flg p) root_PFlagError = false ->
  decode true true (v2_result p) = Some (with_body (v2_result p) (BProto m)).
Proof.
  intros Hb Hf. unfold decode. rewrite (resend_v2 p Hf), Hb. cbn [body_to_bytes].
  destruct m; reflexivity.
Qed.
Lemma decode_unregistered v p : decode false v p = None.
Proof. reflexivity. Qed.

(* an error code does cross: no compression below 10 bytes, length-preserving cipher *)
Lemma errno_crosses c thr enc e p : coders_ok c -> clean (flg p) -> in_s 32 e ->
  10 <= thr -> (forall b, length (encrypt c b) = length b) -> Z.of_nat (length (refers p)) <= 255 ->
  (exists q, wire_v1 c thr enc enc (set_errno e p) = Some q /\ errno q = e) /\
  (exists q, wire_v2 c thr enc enc (set_errno e p) = Some q /\ errno q = e).
Proof.
  intros Hc Hcl He Hthr Hlen Hrf.
  assert (Hcl' : clean (flg (set_errno e p))) by (cbn; apply ff_err_clean; assumption).
  pose proof (errno_payload_small c thr enc e p Hthr Hlen) as Hsmall.
  split.
  - assert (H1 : wire_v1 c thr enc enc (set_errno e p) = Some (v1_result (set_errno e p))).
    { apply wire_v1_complete; [assumption|assumption|]. unfold codec_V1HeaderSize, codec_V1MaxPayloadBytes. lia. }
    eexists. split; [exact H1|]. exact (errno_wire_v1 c thr enc e p _ Hc Hcl He H1).
  - assert (H2 : wire_v2 c thr enc enc (set_errno e p) = Some (v2_result (set_errno e p))).
    { apply wire_v2_complete; [assumption|assumption|exact Hrf|].
      change (refers (set_errno e p)) with (refers p).
      unfold codec_V2HeaderSize, codec_V2MaxPayloadBytes. lia. }
    eexists. split; [exact H2|]. exact (errno_wire_v2 c thr enc e p _ Hc Hcl He H2).
Qed.

(* ---- forwarding: what a hop receives is what it delivers when it sends the packet on ------------- *)
Lemma rebuilt_idem g w : w <> [] ->
  let b := rebuilt g w in body_to_bytes b <> [] /\ rebuilt g (body_to_bytes b) = b.
Proof.
  intros Hw. cbv zeta. unfold rebuilt. destruct (has_flag g root_PFlagError).
  - split; [apply wire_nonempty_num; left; eexists; reflexivity|].
    cbn [body_to_bytes]. rewrite <- (app_nil_r (put_varint _)).
    rewrite varint_put_varint by apply varint_range. reflexivity.
  - split; [exact Hw|reflexivity].
Qed.

Lemma v1_result_idem p : v1_result (v1_result p) = v1_result p.
Proof.
  unfold v1_result at 2 3. destruct (body_to_bytes (pbody p)) as [|x w] eqn:Ew.
  - reflexivity.
  - destruct (rebuilt_idem (flg p) (x :: w) ltac:(discriminate)) as [Hne Hre]. cbv zeta in *.
    unfold v1_result. cbn [pbody cmd seq flg].
    destruct (body_to_bytes (rebuilt (flg p) (x :: w))) as [|y w'] eqn:E2; [congruence|].
    rewrite Hre. reflexivity.
Qed.

Lemma v2_result_idem p : v2_result (v2_result p) = v2_result p.
Proof.
  unfold v2_result at 2 3. destruct (body_to_bytes (pbody p)) as [|x w] eqn:Ew.
  - reflexivity.
  - destruct (rebuilt_idem (flg p) (x :: w) ltac:(discriminate)) as [Hne Hre]. cbv zeta in *.
    unfold v2_result. cbn [pbody cmd seq flg typ node refers].
    destruct (body_to_bytes (rebuilt (flg p) (x :: w))) as [|y w'] eqn:E2; [congruence|].
    rewrite Hre. reflexivity.
Qed.

(* ---- New / ReplyWith with any supported Go value ---------------------------------------------- *)
Lemma new_packet_body o command sq flag v :
  pbody (new_packet o command sq flag v) = set_body o v /\
  cmd (new_packet o command sq flag v) = command /\ seq (new_packet o command sq flag v) = sq /\
  flg (new_packet o command sq flag v) = flag.
Proof. repeat split. Qed.

Lemma reply_value_fields o p command v e q : reply_with_value o p command v = Some (e, q) ->
  endpoint p = Some e /\ cmd q = command /\ seq q = seq p /\ typ q = typ p /\ node q = node p /\
  refers q = refers p /\ pbody q = set_body o v.
Proof.
  unfold reply_with_value. intros H.
  destruct (reply_fields p command _ e q H) as (H1 & H2 & H3 & H4 & H5 & H6 & _ & H8). auto 10.
Qed.

(* ---- every 8-bit flag value: marks found on the sender's packet are dropped by the encoder ------- *)
Definition unmarked (p : packet) : packet := with_flag p (unmark (flg p)).

Lemma marshal_unmarked c thr enc p : marshal_body c thr enc (unmarked p) = marshal_body c thr enc p.
Proof. unfold marshal_body, unmarked. cbn [with_flag flg pbody]. rewrite unmark_idem. reflexivity. Qed.

Lemma wire_v1_unmarked c thr enc dec p : wire_v1 c thr enc dec (unmarked p) = wire_v1 c thr enc dec p.
Proof. unfold wire_v1. rewrite marshal_unmarked. reflexivity. Qed.
Lemma wire_v2_unmarked c thr enc dec p : wire_v2 c thr enc dec (unmarked p) = wire_v2 c thr enc dec p.
Proof. unfold wire_v2. rewrite marshal_unmarked. reflexivity. Qed.

Lemma unmarked_clean p : 0 <= flg p < 256 -> clean (flg (unmarked p)).
Proof. intros H. cbn. apply unmark_clean. assumption. Qed.

Lemma wire_v1_result_any c thr enc p q : coders_ok c -> 0 <= flg p < 256 ->
  wire_v1 c thr enc enc p = Some q -> q = v1_result (unmarked p).
Proof.
  intros Hc Hf H. rewrite <- wire_v1_unmarked in H.
  exact (wire_v1_result c thr enc _ q Hc (unmarked_clean p Hf) H).
Qed.
Lemma wire_v2_result_any c thr enc p q : coders_ok c -> 0 <= flg p < 256 ->
  wire_v2 c thr enc enc p = Some q -> q = v2_result (unmarked p).
Proof.
  intros Hc Hf H. rewrite <- wire_v2_unmarked in H.
  exact (wire_v2_result c thr enc _ q Hc (unmarked_clean p Hf) H).
Qed.

Lemma wire_v1_complete_any c thr enc p : coders_ok c -> 0 <= flg p < 256 ->
  codec_V1HeaderSize + Z.of_nat (length (snd (marshal_body c thr enc p))) <= codec_V1MaxPayloadBytes ->
  wire_v1 c thr enc enc p = Some (v1_result (unmarked p)).
Proof.
  intros Hc Hf Hsz. rewrite <- wire_v1_unmarked. apply wire_v1_complete; [assumption|apply unmarked_clean; assumption|].
  rewrite marshal_unmarked. exact Hsz.
Qed.
Lemma wire_v2_complete_any c thr enc p : coders_ok c -> 0 <= flg p < 256 ->
  Z.of_nat (length (refers p)) <= 255 ->
  codec_V2HeaderSize + 4 * Z.of_nat (length (refers p)) + Z.of_nat (length (snd (marshal_body c thr enc p)))
    <= codec_V2MaxPayloadBytes ->
  wire_v2 c thr enc enc p = Some (v2_result (unmarked p)).
Proof.
  intros Hc Hf Hr Hsz. rewrite <- wire_v2_unmarked. apply wire_v2_complete; [assumption|apply unmarked_clean; assumption|exact Hr|].
  rewrite marshal_unmarked. exact Hsz.
Qed.

Lemma unmarked_set_errno e p : 0 <= flg p < 256 -> unmarked (set_errno e p) = set_errno e (unmarked p).
Proof.
  intros Hf. unfold unmarked, set_errno. cbn [with_flag with_body flg cmd seq typ node pbody refers endpoint].
  unfold root_PFlagError. rewrite (unmark_lor_err _ Hf). reflexivity.
Qed.

Lemma errno_wire_any c thr enc e p q : coders_ok c -> 0 <= flg p < 256 -> in_s 32 e ->
  (wire_v1 c thr enc enc (set_errno e p) = Some q -> errno q = e) /\
  (wire_v2 c thr enc enc (set_errno e p) = Some q -> errno q = e).
Proof.
  intros Hc Hf He. split; intros H.
  - rewrite <- wire_v1_unmarked, (unmarked_set_errno e p Hf) in H.
    exact (errno_wire_v1 c thr enc e _ q Hc (unmarked_clean p Hf) He H).
  - rewrite <- wire_v2_unmarked, (unmarked_set_errno e p Hf) in H.
    exact (errno_wire_v2 c thr enc e _ q Hc (unmarked_clean p Hf) He H).
Qed.

Lemma errno_crosses_any c thr enc e p : coders_ok c -> 0 <= flg p < 256 -> in_s 32 e ->
  10 <= thr -> (forall b, length (encrypt c b) = length b) -> Z.of_nat (length (refers p)) <= 255 ->
  (exists q, wire_v1 c thr enc enc (set_errno e p) = Some q /\ errno q = e) /\
  (exists q, wire_v2 c thr enc enc (set_errno e p) = Some q /\ errno q = e).
Proof.
  intros Hc Hf He Hthr Hlen Hrf.
  destruct (errno_crosses c thr enc e (unmarked p) Hc (unmarked_clean p Hf) He Hthr Hlen Hrf) as [H1 H2].
  rewrite <- (unmarked_set_errno e p Hf) in H1, H2.
  rewrite wire_v1_unmarked in H1. rewrite wire_v2_unmarked in H2. split; assumption.
Qed.

(* what is delivered, field by field, for every 8-bit flag value *)
Lemma header_any p : 0 <= flg p < 256 ->
  flg (v1_result (unmarked p)) = unmark (flg p) /\ flg (v2_result (unmarked p)) = unmark (flg p) /\
  has_flag (unmark (flg p)) root_PFlagError = has_flag (flg p) root_PFlagError /\
  cmd (v1_result (unmarked p)) = cmd p /\ seq (v1_result (unmarked p)) = seq p /\
  cmd (v2_result (unmarked p)) = cmd p /\ seq (v2_result (unmarked p)) = seq p /\
  typ (v2_result (unmarked p)) = typ p /\ node (v2_result (unmarked p)) = node p /\
  refers (v2_result (unmarked p)) = refers p.
Proof.
  intros Hf. destruct (header_v1 (unmarked p)) as (A1 & A2 & A3).
  destruct (header_v2 (unmarked p)) as (B1 & B2 & B3 & B4 & B5 & B6).
  unfold root_PFlagError. rewrite (unmark_err _ Hf). cbn in *. auto 12.
Qed.

Lemma resend_any p : 0 <= flg p < 256 -> has_flag (flg p) root_PFlagError = false ->
  body_to_bytes (pbody (v1_result (unmarked p))) = body_to_bytes (pbody p) /\
  body_to_bytes (pbody (v2_result (unmarked p))) = body_to_bytes (pbody p).
Proof.
  intros Hf He.
  assert (He' : has_flag (flg (unmarked p)) root_PFlagError = false).
  { cbn [unmarked with_flag flg]. unfold root_PFlagError in *. rewrite (unmark_err _ Hf). exact He. }
  split; [rewrite (resend_v1 _ He')|rewrite (resend_v2 _ He')]; reflexivity.
Qed.

(* the errno lemma for the refers-bound check needs refers of the unmarked packet *)
Lemma refers_unmarked p : refers (unmarked p) = refers p.
Proof. reflexivity. Qed.

(* ---- what must not change ------------------------------------------------------------------- *)
Lemma set_errno_frame e p : 0 <= flg p < 256 ->
  cmd (set_errno e p) = cmd p /\ seq (set_errno e p) = seq p /\ typ (set_errno e p) = typ p /\
  node (set_errno e p) = node p /\ refers (set_errno e p) = refers p /\ endpoint (set_errno e p) = endpoint p /\
  Z.land (flg (set_errno e p)) (255 - root_PFlagError) = Z.land (flg p) (255 - root_PFlagError).
Proof.
  intros Hf. unfold set_errno. cbn [with_body with_flag cmd seq typ node refers endpoint flg].
  repeat (split; [reflexivity|]). unfold root_PFlagError. change (255 - 16) with 239. apply Z.eqb_eq.
  apply (sweep256 (fun g => Z.land (Z.lor g 16) 239 =? Z.land g 239)); [vm_compute; reflexivity|assumption].
Qed.

(* the flag an encode leaves on the sender's packet differs from the packet's flag in the two
   marks only *)
Lemma marshal_flag_frame c thr enc p : 0 <= flg p < 256 ->
  unmark (fst (marshal_body c thr enc p)) = unmark (flg p).
Proof.
  intros Hf. unfold marshal_body. cbv zeta. unfold root_PFlagCompressed, root_PFlagEncrypted.
  pose proof (unmark_clean _ Hf) as Hcl. set (g := unmark (flg p)) in *.
  assert (H1 : unmark (Z.lor g 1) = g) by (rewrite unmark_252; apply Z.eqb_eq; by_sweep (fun g => Z.land (Z.lor g 1) 252 =? g)).
  assert (H2 : unmark (Z.lor g 2) = g) by (rewrite unmark_252; apply Z.eqb_eq; by_sweep (fun g => Z.land (Z.lor g 2) 252 =? g)).
  assert (H3 : unmark (Z.lor (Z.lor g 1) 2) = g) by (rewrite unmark_252; apply Z.eqb_eq; by_sweep (fun g => Z.land (Z.lor (Z.lor g 1) 2) 252 =? g)).
  assert (H0 : unmark g = g) by (apply clean_unmark; assumption).
  destruct ((0 <? thr) && _); destruct (negb _ && enc); cbn [fst]; assumption.
Qed.

Lemma clone_wire c thr enc dec p :
  wire_v1 c thr enc dec (clone p) = wire_v1 c thr enc dec p /\
  wire_v2 c thr enc dec (clone p) = wire_v2 c thr enc dec p /\
  cmd (clone p) = cmd p /\ seq (clone p) = seq p /\ typ (clone p) = typ p /\ flg (clone p) = flg p /\
  node (clone p) = node p /\ pbody (clone p) = pbody p /\ refers (clone p) = refers p /\ endpoint (clone p) = None.
Proof. repeat split. Qed.
