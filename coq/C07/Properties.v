(* C07 — Packet values: bodies, error codes and replies are faithful.
   Only the property theorems; each closed by an exact lemma, followed by Print Assumptions. *)
From Coq Require Import ZArith List Bool.
From FV Require Import Generated.Consts Lib.Wrap Lib.LE Lib.Varint Lib.Dec C07.Model C07.Proofs.
Import ListNotations.
Open Scope Z_scope.

(* "numbers as variable-length integers that decode to exactly the value set" — every int64 *)
Theorem c07_varint_roundtrip : forall z rest, in_s 64 z ->
  varint (body_to_bytes (BInt z) ++ rest) = (z, Z.of_nat (length (body_to_bytes (BInt z)))).
Proof. exact int_wire_roundtrip. Qed.
Print Assumptions c07_varint_roundtrip.

(* "(floats through their IEEE-754 bits)" — every 64-bit pattern, NaN payloads and -0 included *)
Theorem c07_float_roundtrip : forall f rest, 0 <= f < 2 ^ 64 ->
  uvarint (body_to_bytes (BFloat f) ++ rest) = (f, Z.of_nat (length (body_to_bytes (BFloat f)))).
Proof. exact float_wire_roundtrip. Qed.
Print Assumptions c07_float_roundtrip.
