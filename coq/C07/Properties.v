(* C07 — Packet values: bodies, error codes and replies are faithful.
   Only the property theorems; each closed by exact lemmas, followed by Print Assumptions.

   Conventions.  `o : oracles` (float conversions and strconv's float text) and `c : coders`
   (zlib, cipher) are universally quantified; coders_ok states that they invert.  Totality
   ("has a defined text form", "always has a wire form") is carried by the types: the model's
   body_to_string / body_to_bytes are total functions into byte strings, and the correspondence
   check establishes on every run that the code agrees with them (in particular does not
   panic); the theorems below say what those forms are. *)
From Coq Require Import ZArith List Bool.
From FV Require Import Generated.Consts Lib.Wrap Lib.LE Lib.Varint Lib.Dec Lib.Float C07.Model C07.Proofs.
Import ListNotations.
Open Scope Z_scope.

(* "A body set from any supported Go value reads back, through the accessor of its own kind, as
   the same value": every integer kind (uint / uint64 values above the int64 range keep their
   64 bits), bool, float32 (widened), float64 bit for bit, text, bytes, nil *)
Theorem c07_readback : forall o,
  (forall k z, int_range k z ->
     body_to_int o (set_body o (GInt k z)) = Some (wraps 64 z) /\ in_s 64 (wraps 64 z) /\
     wrapu 64 (wraps 64 z) = wrapu 64 z /\ (fits_int64 k -> wraps 64 z = z)) /\
  (forall b, body_to_int o (set_body o (GBool b)) = Some (if b then 1 else 0)) /\
  (forall f, body_to_float o (set_body o (GF64 f)) = Some f) /\
  (forall f, body_to_float o (set_body o (GF32 f)) = Some (widen o f)) /\
  (forall s, body_to_string o (set_body o (GStr s)) = s) /\
  (forall b, body_to_bytes (set_body o (GBytes b)) = b) /\
  set_body o GNil = BNil.
Proof.
  intros o. split; [exact (readback_int o)|]. split; [exact (readback_bool o)|].
  split; [exact (readback_f64 o)|]. split; [exact (readback_f32 o)|]. split; [exact (readback_str o)|].
  split; [exact (readback_bytes o)|exact (readback_nil o)].
Qed.
Print Assumptions c07_readback.

(* the hardware conversions behind "reads back as the same value", exactly, on bit patterns:
   a float32 body is stored as widen32 of its pattern, which is injective on non-signalling
   patterns and narrows back to the pattern set (a signalling NaN comes back quiet, payload
   kept — on amd64; which NaN a float32 NaN widens to is platform-defined and stays an oracle);
   an integer body read as a float is exact below 2^53 and converts back to itself.
   Only strconv's float text, protojson and int64(float64) outside the int64 range stay oracles. *)
Theorem c07_conversions : forall nw oor ff pf fp,
  let o := go_oracles nw oor ff pf fp in
  (forall b, 0 <= b < 2 ^ 32 -> is_nan32 b = false ->
     body_to_float o (set_body o (GF32 b)) = Some (widen32 b) /\ 0 <= widen32 b < 2 ^ 64 /\
     narrow64 (widen32 b) = b) /\
  (forall b, 0 <= b < 2 ^ 32 -> narrow64 (widen32 b) = (if is_snan32 b then b + 2 ^ 22 else b)) /\
  (forall a b, 0 <= a < 2 ^ 32 -> 0 <= b < 2 ^ 32 -> is_snan32 a = false -> is_snan32 b = false ->
     widen32 a = widen32 b -> a = b) /\
  (forall v, v <> 0 -> Z.abs v < 2 ^ 53 ->
     body_to_float o (BInt v) = Some (Float.i2f v) /\
     2 ^ 52 + f64_man (Float.i2f v) = Z.abs v * 2 ^ (1075 - f64_exp (Float.i2f v)) /\
     f64_sign (Float.i2f v) = (if v <? 0 then 1 else 0)) /\
  (forall v, Z.abs v < 2 ^ 53 -> body_to_int o (BFloat (Float.i2f v)) = Some v).
Proof.
  intros nw oor ff pf fp o. split; [|split; [|split; [|split]]].
  - intros b Hb Hn. split; [cbn [set_body body_to_float o go_oracles widen]; rewrite Hn; reflexivity|].
    split; [exact (widen32_range b Hb)|]. rewrite (narrow_widen b Hb).
    unfold is_snan32. unfold is_nan32 in Hn. destruct (f32_exp b =? 255); [|reflexivity].
    destruct (f32_man b =? 0); [reflexivity|discriminate].
  - exact narrow_widen.
  - exact widen32_injective.
  - intros v Hv Ha. destruct (i2f_exact v Hv Ha) as (_ & Hs & _ & Hm). split; [reflexivity|]. split; assumption.
  - intros v Ha. cbn [body_to_int o go_oracles Model.f2i]. rewrite (f2i_i2f v Ha). reflexivity.
Qed.
Print Assumptions c07_conversions.

(* "has a defined text form for every supported kind including integers": integers print in
   decimal and parse back (every int64, hence every integer kind and bool after SetBody); text
   and bytes are themselves; floats are strconv's text; nil is "<nil>" *)
Theorem c07_text_total : forall o,
  (forall z, in_s 64 z -> body_to_string o (BInt z) = format_int z /\
                          parse_int (body_to_string o (BInt z)) = Some z /\
                          body_to_string o (BInt z) <> []) /\
  (forall k z, int_range k z -> parse_int (body_to_string o (set_body o (GInt k z))) = Some (wraps 64 z)) /\
  (forall b, parse_int (body_to_string o (set_body o (GBool b))) = Some (if b then 1 else 0)) /\
  (forall s, body_to_string o (BStr s) = s) /\ (forall b, body_to_string o (BBytes b) = b) /\
  (forall f, body_to_string o (BFloat f) = fmtf o f) /\ body_to_string o BNil = nil_text.
Proof.
  intros o. split; [exact (text_int o)|]. split; [exact (text_set_int o)|]. split; [exact (text_set_bool o)|].
  repeat split.
Qed.
Print Assumptions c07_text_total.

(* "always has a wire form: text and bytes travel verbatim, numbers as variable-length integers
   that decode to exactly the value set (floats through their IEEE-754 bits), and an absent body
   as an empty one" *)
Theorem c07_wire_total : forall o,
  body_to_bytes BNil = [] /\
  (forall s, body_to_bytes (set_body o (GStr s)) = s) /\
  (forall b, body_to_bytes (set_body o (GBytes b)) = b) /\
  (forall k z rest, int_range k z ->
     varint (body_to_bytes (set_body o (GInt k z)) ++ rest) =
     (wraps 64 z, Z.of_nat (length (body_to_bytes (set_body o (GInt k z)))))) /\
  (forall b rest,
     varint (body_to_bytes (set_body o (GBool b)) ++ rest) =
     ((if b then 1 else 0), Z.of_nat (length (body_to_bytes (set_body o (GBool b)))))) /\
  (forall f rest, 0 <= f < 2 ^ 64 ->
     uvarint (body_to_bytes (set_body o (GF64 f)) ++ rest) =
     (f, Z.of_nat (length (body_to_bytes (set_body o (GF64 f)))))) /\
  (forall f rest, 0 <= widen o f < 2 ^ 64 ->
     uvarint (body_to_bytes (set_body o (GF32 f)) ++ rest) =
     (widen o f, Z.of_nat (length (body_to_bytes (set_body o (GF32 f)))))).
Proof.
  intros o. split; [reflexivity|]. split; [reflexivity|]. split; [reflexivity|].
  split; [exact (wire_set_int o)|]. split; [exact (wire_set_bool o)|].
  split; [intros f rest H; exact (float_wire_roundtrip f rest H)|].
  intros f rest H; exact (float_wire_roundtrip (widen o f) rest H).
Qed.
Print Assumptions c07_wire_total.

(* every int64 *)
Theorem c07_varint_roundtrip : forall z rest, in_s 64 z ->
  varint (body_to_bytes (BInt z) ++ rest) = (z, Z.of_nat (length (body_to_bytes (BInt z)))).
Proof. exact int_wire_roundtrip. Qed.
Print Assumptions c07_varint_roundtrip.

(* every 64-bit pattern: NaN payloads, infinities, -0, denormals *)
Theorem c07_float_roundtrip : forall f rest, 0 <= f < 2 ^ 64 ->
  uvarint (body_to_bytes (BFloat f) ++ rest) = (f, Z.of_nat (length (body_to_bytes (BFloat f)))).
Proof. exact float_wire_roundtrip. Qed.
Print Assumptions c07_float_roundtrip.

(* what each codec delivers, for EVERY 8-bit flag value on the sender's packet: the encoder
   drops compression / encryption marks it finds (unmarked p), sets its own, the receiver clears
   them; whenever the frame crosses (V1 / V2, any threshold, with or without the cipher) the
   receiver holds v1_result / v2_result of the unmarked packet, and it does cross whenever it
   fits the codec's size limit *)
Theorem c07_wire_result : forall c thr enc p, coders_ok c -> 0 <= flg p < 256 ->
  (forall q, wire_v1 c thr enc enc p = Some q -> q = v1_result (unmarked p)) /\
  (forall q, wire_v2 c thr enc enc p = Some q -> q = v2_result (unmarked p)) /\
  (codec_V1HeaderSize + Z.of_nat (length (snd (marshal_body c thr enc p))) <= codec_V1MaxPayloadBytes ->
     wire_v1 c thr enc enc p = Some (v1_result (unmarked p))) /\
  (Z.of_nat (length (refers p)) <= 255 ->
   codec_V2HeaderSize + 4 * Z.of_nat (length (refers p)) + Z.of_nat (length (snd (marshal_body c thr enc p)))
     <= codec_V2MaxPayloadBytes ->
     wire_v2 c thr enc enc p = Some (v2_result (unmarked p))).
Proof.
  intros c thr enc p Hc Hf. split; [intros q; exact (wire_v1_result_any c thr enc p q Hc Hf)|].
  split; [intros q; exact (wire_v2_result_any c thr enc p q Hc Hf)|].
  split; [exact (wire_v1_complete_any c thr enc p Hc Hf)|exact (wire_v2_complete_any c thr enc p Hc Hf)].
Qed.
Print Assumptions c07_wire_result.

(* the delivered packet field by field: every flag bit other than the two marks survives (the
   error flag in particular), V1 carries command and seq, V2 also type, node and refers; without
   the error flag the receiver's wire form is the sender's *)
Theorem c07_wire_fields : forall p, 0 <= flg p < 256 ->
  flg (v1_result (unmarked p)) = unmark (flg p) /\ flg (v2_result (unmarked p)) = unmark (flg p) /\
  has_flag (unmark (flg p)) root_PFlagError = has_flag (flg p) root_PFlagError /\
  cmd (v1_result (unmarked p)) = cmd p /\ seq (v1_result (unmarked p)) = seq p /\
  cmd (v2_result (unmarked p)) = cmd p /\ seq (v2_result (unmarked p)) = seq p /\
  typ (v2_result (unmarked p)) = typ p /\ node (v2_result (unmarked p)) = node p /\
  refers (v2_result (unmarked p)) = refers p /\
  (has_flag (flg p) root_PFlagError = false ->
     body_to_bytes (pbody (v1_result (unmarked p))) = body_to_bytes (pbody p) /\
     body_to_bytes (pbody (v2_result (unmarked p))) = body_to_bytes (pbody p)).
Proof.
  intros p Hf. destruct (header_any p Hf) as (A & B & C & D & E & F & G & H & I & J).
  repeat (split; [assumption|]). exact (resend_any p Hf).
Qed.
Print Assumptions c07_wire_fields.

(* "so every packet a decoder can produce can be sent on again": the decoded body is nil, bytes
   or an integer (kinds with a wire form), and without the error flag its wire form is exactly
   the sender's, so forwarding re-creates the same payload *)
Theorem c07_resend : forall p,
  (pbody (v1_result p) = BNil \/ (exists w, pbody (v1_result p) = BBytes w) \/ (exists z, pbody (v1_result p) = BInt z)) /\
  (pbody (v2_result p) = BNil \/ (exists w, pbody (v2_result p) = BBytes w) \/ (exists z, pbody (v2_result p) = BInt z)) /\
  (has_flag (flg p) root_PFlagError = false ->
     body_to_bytes (pbody (v1_result p)) = body_to_bytes (pbody p) /\
     body_to_bytes (pbody (v2_result p)) = body_to_bytes (pbody p)).
Proof.
  intros p. split; [exact (decoded_kind_v1 p)|]. split; [exact (decoded_kind_v2 p)|].
  intros H. split; [exact (resend_v1 p H)|exact (resend_v2 p H)].
Qed.
Print Assumptions c07_resend.

(* forwarding is lossless: a hop that sends the packet it received on again through the same
   codec delivers exactly what it received (error-code packets included: whatever the payload
   was, the rebuilt integer re-encodes to a varint that decodes to itself) *)
Theorem c07_forward : forall p,
  v1_result (v1_result p) = v1_result p /\ v2_result (v2_result p) = v2_result p.
Proof. intros p. split; [exact (v1_result_idem p)|exact (v2_result_idem p)]. Qed.
Print Assumptions c07_forward.

(* "An error code placed on a packet is the code the receiver reads after the packet crossed the
   wire": every int32 code, every 8-bit flag value, both codecs, any compression threshold, with
   or without the cipher *)
Theorem c07_errno_wire : forall c thr enc e p q, coders_ok c -> 0 <= flg p < 256 -> in_s 32 e ->
  (wire_v1 c thr enc enc (set_errno e p) = Some q -> errno q = e) /\
  (wire_v2 c thr enc enc (set_errno e p) = Some q -> errno q = e).
Proof. exact errno_wire_any. Qed.
Print Assumptions c07_errno_wire.

(* ... and the code does cross: with a threshold of at least the 10 bytes a varint can take
   (both codecs' defaults are thousands) and a length-preserving cipher (CFB) the frame is far
   below either size limit, so the receiver exists and reads the code *)
Theorem c07_errno_crosses : forall c thr enc e p, coders_ok c -> 0 <= flg p < 256 -> in_s 32 e ->
  10 <= thr -> (forall b, length (encrypt c b) = length b) -> Z.of_nat (length (refers p)) <= 255 ->
  (exists q, wire_v1 c thr enc enc (set_errno e p) = Some q /\ errno q = e) /\
  (exists q, wire_v2 c thr enc enc (set_errno e p) = Some q /\ errno q = e).
Proof. exact errno_crosses_any. Qed.
Print Assumptions c07_errno_crosses.

(* the code is also what the sender itself reads, for every 8-bit flag value *)
Theorem c07_errno_local : forall e p, 0 <= flg p < 256 -> in_s 32 e -> errno (set_errno e p) = e.
Proof. exact errno_set. Qed.
Print Assumptions c07_errno_local.

(* "and zero when no error is flagged" *)
Theorem c07_errno_zero : forall p, has_flag (flg p) root_PFlagError = false -> errno p = 0.
Proof. exact errno_unflagged. Qed.
Print Assumptions c07_errno_zero.

(* "a reply ... carries the request's sequence number, type, node and reference list ... and is
   sent on the endpoint the request arrived from" (plus: the given command and body) *)
Theorem c07_reply_fields : forall p command b,
  (forall e q, reply_with p command b = Some (e, q) ->
     endpoint p = Some e /\ cmd q = command /\ seq q = seq p /\ typ q = typ p /\ node q = node p /\
     refers q = refers p /\ flg q = flg p /\ pbody q = b) /\
  (forall e, endpoint p = Some e -> exists q, reply_with p command b = Some (e, q)).
Proof.
  intros p command b. split; [intros e q; exact (reply_fields p command b e q)|].
  intros e; exact (reply_sent p command b e).
Qed.
Print Assumptions c07_reply_fields.

(* the constructor and ReplyWith accept every Go value SetBody accepts and store what SetBody
   stores, so c07_readback / c07_text_total / c07_wire_total apply to the packets they build *)
Theorem c07_new_reply_value : forall o command v,
  (forall sq flag, pbody (new_packet o command sq flag v) = set_body o v /\
                   cmd (new_packet o command sq flag v) = command /\
                   seq (new_packet o command sq flag v) = sq /\ flg (new_packet o command sq flag v) = flag) /\
  (forall p e q, reply_with_value o p command v = Some (e, q) ->
     endpoint p = Some e /\ cmd q = command /\ seq q = seq p /\ typ q = typ p /\ node q = node p /\
     refers q = refers p /\ pbody q = set_body o v).
Proof.
  intros o command v. split; [intros sq flag; exact (new_packet_body o command sq flag v)|].
  intros p e q; exact (reply_value_fields o p command v e q).
Qed.
Print Assumptions c07_new_reply_value.

(* "... marks refusals with the error flag and the given code": RefuseWith and Refuse, every
   int32 code, every 8-bit flag value of the request *)
Theorem c07_refuse_fields : forall p ec, 0 <= flg p < 256 -> in_s 32 ec ->
  (forall command e q, refuse_with p command ec = Some (e, q) ->
     endpoint p = Some e /\ cmd q = command /\ seq q = seq p /\ typ q = typ p /\ node q = node p /\
     refers q = refers p /\ has_flag (flg q) root_PFlagError = true /\ errno q = ec /\ pbody q = BInt ec) /\
  (forall ack e q, refuse ack p ec = Some (e, q) ->
     endpoint p = Some e /\ cmd q = (if ack (cmd p) =? 0 then cmd p else ack (cmd p)) /\
     seq q = seq p /\ typ q = typ p /\ node q = node p /\
     refers q = refers p /\ has_flag (flg q) root_PFlagError = true /\ errno q = ec).
Proof.
  intros p ec Hf He. split.
  - intros command e q; exact (refuse_with_fields p command ec e q Hf He).
  - intros ack e q; exact (refuse_fields ack p ec e q Hf He).
Qed.
Print Assumptions c07_refuse_fields.

(* protobuf bodies: SetBody keeps the message, its wire form is proto.Marshal's bytes; sent
   without the error flag through either codec and decoded by a registered type that accepts
   the bytes it is the same message again; Reply answers under the id registered for the ack's
   type (the request's own command when none is) *)
Theorem c07_proto : forall o m,
  set_body o (GProto m) = BProto m /\ body_to_bytes (BProto m) = m /\
  (forall p, pbody p = BProto m -> has_flag (flg p) root_PFlagError = false ->
     decode true true (v1_result p) = Some (with_body (v1_result p) (BProto m)) /\
     decode true true (v2_result p) = Some (with_body (v2_result p) (BProto m))) /\
  (forall mid p e q, reply mid p (BProto m) = Some (e, q) ->
     endpoint p = Some e /\ cmd q = (if mid =? 0 then cmd p else mid) /\ seq q = seq p /\ typ q = typ p /\
     node q = node p /\ refers q = refers p /\ pbody q = BProto m).
Proof.
  intros o m. split; [reflexivity|]. split; [reflexivity|]. split.
  - intros p Hb Hf. split; [exact (decode_after_v1 p m Hb Hf)|exact (decode_after_v2 p m Hb Hf)].
  - intros mid p e q; exact (reply_registry_fields mid p (BProto m) e q).
Qed.
Print Assumptions c07_proto.

(* What must NOT change.  SetErrno touches the error flag and the body only; an encode leaves on
   the sender's packet a flag that differs from the packet's in the two marks only (and nothing
   else of the packet is an output of the model's encoder); a Clone() is the same packet value,
   unbound, and crosses either codec exactly as the packet does. *)
Theorem c07_frame : forall c thr enc dec e p, 0 <= flg p < 256 ->
  (cmd (set_errno e p) = cmd p /\ seq (set_errno e p) = seq p /\ typ (set_errno e p) = typ p /\
   node (set_errno e p) = node p /\ refers (set_errno e p) = refers p /\ endpoint (set_errno e p) = endpoint p /\
   Z.land (flg (set_errno e p)) (255 - root_PFlagError) = Z.land (flg p) (255 - root_PFlagError)) /\
  unmark (fst (marshal_body c thr enc p)) = unmark (flg p) /\
  (wire_v1 c thr enc dec (clone p) = wire_v1 c thr enc dec p /\
   wire_v2 c thr enc dec (clone p) = wire_v2 c thr enc dec p /\
   cmd (clone p) = cmd p /\ seq (clone p) = seq p /\ typ (clone p) = typ p /\ flg (clone p) = flg p /\
   node (clone p) = node p /\ pbody (clone p) = pbody p /\ refers (clone p) = refers p /\ endpoint (clone p) = None).
Proof.
  intros c thr enc dec e p Hf. split; [exact (set_errno_frame e p Hf)|].
  split; [exact (marshal_flag_frame c thr enc p Hf)|exact (clone_wire c thr enc dec p)].
Qed.
Print Assumptions c07_frame.

Example c07_frame_example :
  let p := mkPkt 1001 7 2 163 65537 (BStr [104; 105]) [5; 6] (Some 1) in
  flg (set_errno 8 p) = 179 /\ fst (marshal_body tag_coders 1 true p) = 163 /\
  fst (marshal_body tag_coders 4096 false p) = 160 /\ node (clone p) = 65537 /\ endpoint (clone p) = None.
Proof. cbv zeta. repeat split; vm_compute; reflexivity. Qed.

(* non-vacuity: the coders the correspondence check runs the model with satisfy coders_ok, a flag value with both marks preset and other bits set is in range, and
   an error code really crosses both model codecs with compression and cipher switched on *)
Example c07_example :
  coders_ok tag_coders /\ 0 <= 163 < 256 /\ in_s 32 (-8) /\
  let p := mkPkt 1001 7 2 163 65537 BNil [5; 6] (Some 1) in
  option_map errno (wire_v1 tag_coders 1 true true (set_errno (-8) p)) = Some (-8) /\
  option_map errno (wire_v2 tag_coders 1 true true (set_errno (-8) p)) = Some (-8) /\
  option_map (fun q => (flg q, refers q)) (wire_v2 tag_coders 1 true true (set_errno (-8) p)) = Some (176, [5; 6]).
Proof.
  split.
  - constructor.
    + reflexivity.
    + discriminate.
    + intros b. cbn. rewrite map_map. rewrite <- (map_id b) at 2. apply map_ext. intros x.
      rewrite Z.lxor_assoc, Z.lxor_nilpotent, Z.lxor_0_r. reflexivity.
    + intros b Hb. destruct b; [congruence|discriminate].
  - split; [split; [discriminate|reflexivity]|].
    split; [unfold in_s; vm_compute; split; discriminate || reflexivity|].
    cbv zeta. repeat split; vm_compute; reflexivity.
Qed.

(* ---- source tie (C07/Source.v): the varint coders of integer / float bodies and error codes.
   Generated/PacketVarint.v is regenerated by tools/gofunc on every run from encoding/binary/varint.go
   (PutUvarint, PutVarint, Uvarint, Varint, GOROOT source) and /repo/packet/packet_encode.go
   (encodeInt64, encodeUint64).  On their domain - 64-bit values, bytes in [0,256), a buffer of at
   least MaxVarintLen64 = 10 bytes, enough fuel - the translated functions equal the hand-written
   model Lib/Varint.v that body_to_bytes and the decoder of C07/Model.v use. *)
From FV Require Lib.GoSem.
From FV Require Import Generated.PacketVarint C07.Source.

Theorem c07_src_PutUvarint : forall fuel buf x,
  0 <= x < 2 ^ 64 -> (10 <= length buf)%nat -> (10 <= fuel)%nat ->
  go_binary_PutUvarint fuel buf x =
  GoSem.Ok (Z.of_nat (length (put_uvarint x)), put_uvarint x ++ skipn (length (put_uvarint x)) buf).
Proof. exact src_PutUvarint. Qed.
Print Assumptions c07_src_PutUvarint.

Theorem c07_src_PutVarint : forall fuel buf x,
  in_s 64 x -> (10 <= length buf)%nat -> (10 <= fuel)%nat ->
  go_binary_PutVarint fuel buf x =
  GoSem.Ok (Z.of_nat (length (put_varint x)), put_varint x ++ skipn (length (put_varint x)) buf).
Proof. exact src_PutVarint. Qed.
Print Assumptions c07_src_PutVarint.

Theorem c07_src_Uvarint : forall fuel buf, Forall is_byte buf -> (length buf < fuel)%nat ->
  go_binary_Uvarint fuel buf = GoSem.Ok (uvarint buf).
Proof. exact src_Uvarint. Qed.
Print Assumptions c07_src_Uvarint.

Theorem c07_src_Varint : forall fuel buf, Forall is_byte buf -> (length buf < fuel)%nat ->
  go_binary_Varint fuel buf = GoSem.Ok (varint buf).
Proof. exact src_Varint. Qed.
Print Assumptions c07_src_Varint.

(* packet.encodeInt64 / encodeUint64 return exactly the model's wire form of an integer / float body *)
Theorem c07_src_encodeInt64 : forall fuel x, in_s 64 x -> (10 <= fuel)%nat ->
  go_encodeInt64 fuel x = GoSem.Ok (body_to_bytes (BInt x)).
Proof. exact src_encodeInt64. Qed.
Print Assumptions c07_src_encodeInt64.

Theorem c07_src_encodeUint64 : forall fuel f, 0 <= f < 2 ^ 64 -> (10 <= fuel)%nat ->
  go_encodeUint64 fuel f = GoSem.Ok (body_to_bytes (BFloat f)).
Proof. exact src_encodeUint64. Qed.
Print Assumptions c07_src_encodeUint64.

(* round trips stated on the translated definitions alone: binary.Varint reads back what
   packet.encodeInt64 wrote, for every int64 (error codes and integer bodies), and binary.Uvarint
   what encodeUint64 wrote, for every uint64 (float bit patterns) *)
Theorem c07_src_varint_roundtrip : forall fuel x, in_s 64 x -> (11 <= fuel)%nat ->
  GoSem.bind (go_encodeInt64 fuel x) (go_binary_Varint fuel) =
  GoSem.Ok (x, Z.of_nat (length (put_varint x))).
Proof. exact src_varint_roundtrip. Qed.
Print Assumptions c07_src_varint_roundtrip.

Theorem c07_src_uvarint_roundtrip : forall fuel x, 0 <= x < 2 ^ 64 -> (11 <= fuel)%nat ->
  GoSem.bind (go_encodeUint64 fuel x) (go_binary_Uvarint fuel) =
  GoSem.Ok (x, Z.of_nat (length (put_uvarint x))).
Proof. exact src_uvarint_roundtrip. Qed.
Print Assumptions c07_src_uvarint_roundtrip.
