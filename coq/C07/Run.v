(* C07 — correspondence.  A case is (input observed); the first number of the input selects
   the scenario:
     (0 gov)                         SetBody(gov) then every accessor
        observed (body rInt rFloat rStr rBytes)
     (1 flg ec)                      New(7,1,flg,nil).SetErrno(ec)        observed (flag body errno)
     (2 flg gov)                     error flag cleared, SetBody(gov)     observed (errno)
     (3 codec thr enc hdr what)      through WritePacket/ReadPacket of codec V<codec> with
                                     compression threshold thr, cipher on both sides iff enc=1;
                                     what = (0 ec) SetErrno(ec) | (1 gov) SetBody(gov)
        observed (1 hdr body errno resend fwd clone) | (0)    clone = like fwd for a Clone() of the decoded packet    resend = BodyToBytes of the decoded packet,
                                     fwd = (1 hdr body) after sending the decoded packet on again
                                     through the same codec | (0) that failed
     (4 hdr mode command arg [st])   request bound to a recording endpoint in state st (bit 0: IsRunning()
                                     is false, bit 1: SendPacket returns an error after taking the packet); mode 0 ReplyWith
                                     (command, body arg), 1 RefuseWith(command, ec), 2 Refuse(ec)
                                     4 ReplyWith(command, gov arg: any Go value SetBody supports)
        observed (1 nsent hdr body errno rBytes later) | (0) panicked
                                     later = (1 (hdr body errno)) of the same reply after the request
                                     object was Reset() and refilled (AddRefers, SetBody, SetSeq ...)
     (6 flg gov)                     packet.New(7, 1, flg, gov), then every accessor
        observed as scenario 0
     (8 codec thr hdr what)          the same packet object (numeric / nil / proto body or error
                                     code) sent through codec V<codec> with the cipher, then its
                                     own BodyToBytes / BodyToString again, then sent a second time
                                     through the same codec and a third time through the other one
        observed (1 #w0 #s0 rW1 rS1 Q1 Q2 Q3)    w0/s0 = wire / text form before the first send,
                                     Q = (1 hdr body errno) delivered | (0)
     (9 what what what)              three packets with numeric bodies / error codes: BodyToBytes on
                                     all three first, the slices inspected afterwards; then the
                                     first crosses V2 while the others' wire forms are produced again
        observed (1 #wa #wb #wc Q)
     (10 seed goroutines iters)      concurrent stress evaluated in Go       observed (10 code)
     (12 codec cmd mode arg)         qnet.RequestProtoMessage over a pipe against a server that answers
                                     through its bound endpoint: mode 0 Refuse(code) 1 ReplyWith(cmd, proto)
                                     2 RefuseWith(cmd+1, code)     observed (1 #response) | (0 #error text) | (9)
     (5 codec hdr gov registered valid validS)   through codec V<codec> (no compression, no cipher),
                                     then Decode() on the receiver; registered = a message type
                                     is registered under hdr's command, valid = proto.Unmarshal
                                     accepts the payload for it (both answered by the harness)
        observed (1 ok body dt) | (0)    dt = DecodeTo(&StringValue{}) before Decode(): (1 #msg) | (0) error | (2) panic;
                                     validS = proto.Unmarshal accepts the payload for StringValue
   In scenario 4, mode 2 (Refuse) and mode 3 (Reply(ack), arg = gov) consult the message registry;
   its answer (paired ack id / id of the ack's type, 0 = none) travels in the command slot.
   gov  = (0) nil | (1 ikind v) | (2 b) | (3 bits32 wide) | (4 bits64) | (5 #str) | (6 #bytes wide)
        | (7 type #payload #marshalled) a wrapperspb message (0 StringValue 1 Int64Value 2 BytesValue)
   body = (0) nil | (1 z) int64 | (2 bits) float64 | (3 #s) string | (4 #b) []byte
        | (5 #marshalled) proto.Message | (9) other
   r*   = (1 value) | (2) panicked           hdr = (cmd seq typ flg node (refer ...))
   Float conversions are computed by the model (Lib/Float.v) and compared; strconv's float text,
   protojson text and the platform-defined results of int64(float64) out of range are oracles:
   the observed value is fed to the model, so only panic/no-panic is compared for those. *)
From Coq Require Import ZArith List Bool.
From FV Require Import Generated.Consts Lib.Sx Lib.Wrap Lib.LE Lib.Varint Lib.Dec Lib.Float C07.Model.
Import ListNotations.
Open Scope Z_scope.

Definition zlist_eqb := list_eqb Z.eqb.
(* "message " and " has error: " (qnet/util.go ReadProtoMessage) *)
Definition ascii_msg1 : list Z := [109; 101; 115; 115; 97; 103; 101; 32].
Definition ascii_msg2 : list Z := [32; 104; 97; 115; 32; 101; 114; 114; 111; 114; 58; 32].
Definition zs (b : list N) : list Z := map Z.of_N b.

Definition ikind_of (z : Z) : option ikind :=
  match z with
  | 0 => Some IInt | 1 => Some IUint | 2 => Some II8 | 3 => Some II16 | 4 => Some II32
  | 5 => Some II64 | 6 => Some IU8 | 7 => Some IU16 | 8 => Some IU32 | 9 => Some IU64
  | _ => None
  end.

(* gov together with the widening datum it may carry *)
Definition gov_of (s : sx) : option (gov * Z) :=
  match s with
  | SList [SInt 0] => Some (GNil, 0)
  | SList [SInt 1; SInt k; SInt v] => option_map (fun k => (GInt k v, 0)) (ikind_of k)
  | SList [SInt 2; SInt b] => Some (GBool (negb (b =? 0)), 0)
  | SList [SInt 3; SInt bits; SInt wide] => Some (GF32 bits, wide)
  | SList [SInt 4; SInt bits] => Some (GF64 bits, 0)
  | SList [SInt 5; SBytes s] => Some (GStr (zs s), 0)
  | SList [SInt 6; SBytes b; SInt wide] => Some (GBytes (zs b), wide)
  | SList [SInt 7; SInt _; SBytes _; SBytes m] => Some (GProto (zs m), 0)
  | _ => None
  end.

(* observed Body(): None = a dynamic type outside int64/float64/string/[]byte/nil *)
Definition body_of (s : sx) : option (option body) :=
  match s with
  | SList [SInt 0] => Some (Some BNil)
  | SList [SInt 1; SInt z] => Some (Some (BInt z))
  | SList [SInt 2; SInt f] => Some (Some (BFloat f))
  | SList [SInt 3; SBytes b] => Some (Some (BStr (zs b)))
  | SList [SInt 4; SBytes b] => Some (Some (BBytes (zs b)))
  | SList [SInt 5; SBytes m] => Some (Some (BProto (zs m)))
  | SList [SInt 9] => Some None
  | _ => None
  end.

Definition body_eqb (a b : body) : bool :=
  match a, b with
  | BNil, BNil => true
  | BInt x, BInt y => x =? y
  | BFloat x, BFloat y => x =? y
  | BStr x, BStr y => zlist_eqb x y
  | BBytes x, BBytes y => zlist_eqb x y
  | BProto x, BProto y => zlist_eqb x y
  | _, _ => false
  end.
Definition obody_eqb (m : body) (o : option body) : bool :=
  match o with Some b => body_eqb m b | None => false end.

(* result of an accessor: Some None = panicked *)
Definition rint_of (s : sx) : option (option Z) :=
  match s with
  | SList [SInt 1; SInt v] => Some (Some v)
  | SList [SInt 2] => Some None
  | _ => None
  end.
Definition rbytes_of (s : sx) : option (option (list Z)) :=
  match s with
  | SList [SInt 1; SBytes b] => Some (Some (zs b))
  | SList [SInt 2] => Some None
  | _ => None
  end.

Definition oz_eqb (a b : option Z) : bool :=
  match a, b with Some x, Some y => x =? y | None, None => true | _, _ => false end.
Definition ol_eqb (a b : option (list Z)) : bool :=
  match a, b with Some x, Some y => zlist_eqb x y | None, None => true | _, _ => false end.

Record hdr : Type := mkH { hcmd : Z; hseq : Z; htyp : Z; hflg : Z; hnode : Z; hrefs : list Z }.
Definition hdr_of (s : sx) : option hdr :=
  match s with
  | SList [SInt c; SInt q; SInt t; SInt f; SInt n; SList r] =>
      option_map (fun r => mkH c q t f n r) (map_opt sx_int r)
  | _ => None
  end.
Definition hdr_eqb (a b : hdr) : bool :=
  (hcmd a =? hcmd b) && (hseq a =? hseq b) && (htyp a =? htyp b) && (hflg a =? hflg b) &&
  (hnode a =? hnode b) && zlist_eqb (hrefs a) (hrefs b).
Definition hdr_of_pkt (p : packet) : hdr := mkH (cmd p) (seq p) (typ p) (flg p) (node p) (refers p).
Definition pkt_of_hdr (h : hdr) (b : body) (e : option Z) : packet :=
  mkPkt (hcmd h) (hseq h) (htyp h) (hflg h) (hnode h) b (hrefs h) e.


Definition in_int64 (z : Z) : bool := (- 2 ^ 63 <=? z) && (z <? 2 ^ 63).

(* ---- scenario 0: SetBody + accessors ------------------------------------------------ *)
Definition check_body (g : gov) (wide : Z) (ob : option body)
           (ri rf : option Z) (rs rb : option (list Z)) : verdict :=
  (* hardware conversions are computed by the model; only the platform-defined int64(float64)
     results and strconv / protojson text are taken from the observation *)
  let o := go_oracles (fun _ => wide)
                      (fun _ => match ri with Some v => v | None => 0 end)
                      (fun _ => match rs with Some v => v | None => [] end)
                      (fun _ => rf)
                      (fun _ => match rs with Some v => v | None => [] end) in
  let b := set_body o g in
  (* the widening datum the harness attached to the input is what the model computes *)
  let wide_is := fun bits => if is_nan32 bits then (f64_exp wide =? 2047) && negb (f64_man wide =? 0)
                             else widen32 bits =? wide in
  let wide_ok := match g with
                 | GF32 bits => wide_is bits
                 | GBytes l => if Nat.eqb (length l) 4 then wide_is (le_get l) else true
                 | _ => true
                 end in
  let corr :=
    vjoin (check_that wide_ok (VMismatch 22))
   (vjoin (check_that (obody_eqb b ob) (VMismatch 1))
   (vjoin (check_that (oz_eqb (body_to_int o b) ri) (VMismatch 2))
   (vjoin (check_that (oz_eqb (body_to_float o b) rf) (VMismatch 3))
   (vjoin (check_that (ol_eqb (Some (body_to_string o b)) rs) (VMismatch 4))
          (check_that (ol_eqb (Some (body_to_bytes b)) rb) (VMismatch 5)))))) in
  (* the property on the implementation's outputs *)
  let readback :=
    match g with
    | GNil => obody_eqb BNil ob
    | GInt _ v => match ri with
                  | Some r => in_int64 r && ((r - v) mod 2 ^ 64 =? 0)
                  | None => false end
    | GBool t => oz_eqb ri (Some (if t then 1 else 0))
    | GF32 _ => oz_eqb rf (Some wide)
    | GF64 bits => oz_eqb rf (Some bits)
    | GStr s => ol_eqb rs (Some s)
    | GBytes l => ol_eqb rb (Some l)
    | GProto m => obody_eqb (BProto m) ob
    end in
  let text :=
    match rs with
    | None => false
    | Some t => match g with
                | GInt _ v => match parse_int t with
                              | Some r => (r - v) mod 2 ^ 64 =? 0
                              | None => false end
                | GBool t' => oz_eqb (parse_int t) (Some (if t' then 1 else 0))
                | _ => true
                end
    end in
  let wire :=
    match rb with
    | None => false
    | Some w => match g with
                | GNil => zlist_eqb w []
                | GStr s => zlist_eqb w s
                | GBytes l => zlist_eqb w l
                | GProto m => zlist_eqb w m
                | GInt _ v => let '(x, n) := varint w in
                              (n =? Z.of_nat (length w)) && ((x - v) mod 2 ^ 64 =? 0)
                | GBool t => let '(x, n) := varint w in
                             (n =? Z.of_nat (length w)) && (x =? (if t then 1 else 0))
                | GF32 _ => let '(x, n) := uvarint w in (n =? Z.of_nat (length w)) && (x =? wide)
                | GF64 bits => let '(x, n) := uvarint w in (n =? Z.of_nat (length w)) && (x =? bits)
                end
    end in
  vjoin (vjoin (check_that readback (VPropFail 1))
        (vjoin (check_that text (VPropFail 2)) (check_that wire (VPropFail 3)))) corr.

(* ---- scenario 3: across the wire ---------------------------------------------------- *)
Definition no_oracle (wide : Z) : oracles :=
  go_oracles (fun _ => wide) (fun _ => 0) (fun _ => []) (fun _ => None) (fun _ => []).

Definition check_wire (codec thr : Z) (enc dec : bool) (h : hdr) (ec : option Z) (g : gov) (wide : Z)
           (obs : option (hdr * option body * Z * option (list Z) * option (hdr * option body) * option (hdr * option body))) : verdict :=
  let p0 := pkt_of_hdr h BNil None in
  let p := match ec with
           | Some e => set_errno e p0
           | None => with_body p0 (set_body (no_oracle wide) g)
           end in
  let m := if codec =? 1 then wire_v1 tag_coders thr enc dec p else wire_v2 tag_coders thr enc dec p in
  match m, obs with
  | None, None => VOk
  | Some _, None =>
      (* the frame fits and must cross: a refused error code is the errno sentence failing, any
         other refused body the wire-form sentence *)
      match ec with Some _ => VPropFail 4 | None => VPropFail 3 end
  | Some q, Some (oh, ob, oerrno, oresend, ofwd, oclone) =>
      (* the decoded packet sent on again through the same codec *)
      let m2 := if codec =? 1 then wire_v1 tag_coders thr enc dec q else wire_v2 tag_coders thr enc dec q in
      (* ... and a Clone() of it sent on instead *)
      let m3 := if codec =? 1 then wire_v1 tag_coders thr enc dec (clone q) else wire_v2 tag_coders thr enc dec (clone q) in
      let arrives_as := fun (o : option (hdr * option body)) =>
        match o with
        | Some (oh2, ob2) => hdr_eqb oh oh2 &&
                             match ob, ob2 with
                             | Some b1, Some b2 => body_eqb b1 b2
                             | _, _ => false
                             end
        | None => false
        end in
      let corr :=
        vjoin (check_that (hdr_eqb (hdr_of_pkt q) oh) (VMismatch 6))
       (vjoin (check_that (obody_eqb (pbody q) ob) (VMismatch 7))
       (vjoin (check_that (errno q =? oerrno) (VMismatch 8))
       (vjoin (check_that (ol_eqb (Some (body_to_bytes (pbody q))) oresend) (VMismatch 9))
              (match m2, ofwd with
               | Some q2, Some (oh2, ob2) =>
                   check_that (hdr_eqb (hdr_of_pkt q2) oh2 && obody_eqb (pbody q2) ob2) (VMismatch 20)
               | None, None => VOk
               | _, _ => VMismatch 20
               end)))) in
      let corr := vjoin corr
              (match m3, oclone with
               | Some q3, Some (oh3, ob3) =>
                   check_that (hdr_eqb (hdr_of_pkt q3) oh3 && obody_eqb (pbody q3) ob3) (VMismatch 29)
               | None, None => VOk
               | _, _ => VMismatch 29
               end) in
      let prop :=
        vjoin (check_that (match oresend with Some _ => true | None => false end) (VPropFail 3))
       (vjoin (* "every packet a decoder can produce can be sent on again": it arrives, unchanged,
                 whether the packet itself or a Clone() of it is sent *)
              (check_that (arrives_as ofwd && arrives_as oclone) (VPropFail 3))
              (match ec with
               | Some e => check_that (oerrno =? e) (VPropFail 4)
               | None =>
                   (* no error flag: errno reads 0, and the payload is the wire form, verbatim *)
                   if has_flag (hflg h) root_PFlagError then VOk
                   else vjoin (check_that (oerrno =? 0) (VPropFail 5))
                              (check_that (match body_to_bytes (pbody p) with
                                           | [] => obody_eqb BNil ob
                                           | w => obody_eqb (BBytes w) ob
                                           end) (VPropFail 3))
               end)) in
      vjoin prop corr
  | _, _ => VMismatch 10
  end.

(* ---- scenario 8: the same packet object encoded again ------------------------------------- *)
Definition q_of (s : sx) : option (option (hdr * option body * Z)) :=
  match s with
  | SList [SInt 0] => Some None
  | SList [SInt 1; oh; ob; SInt oerrno] =>
      match hdr_of oh, body_of ob with
      | Some oh, Some ob => Some (Some (oh, ob, oerrno))
      | _, _ => None
      end
  | _ => None
  end.

Definition q_matches (m : option packet) (o : option (hdr * option body * Z)) : bool :=
  match m, o with
  | Some q, Some (oh, ob, oerrno) => hdr_eqb (hdr_of_pkt q) oh && obody_eqb (pbody q) ob && (errno q =? oerrno)
  | None, None => true
  | _, _ => false
  end.

(* two deliveries carry the same value *)
Definition q_same (a b : option (hdr * option body * Z)) : bool :=
  match a, b with
  | Some (_, Some b1, e1), Some (_, Some b2, e2) => body_eqb b1 b2 && (e1 =? e2)
  | _, _ => false
  end.

Definition check_resend (codec thr : Z) (h : hdr) (ec : option Z) (g : gov) (wide : Z)
           (w0 s0 : list Z) (w1 s1 : option (list Z)) (o1 o2 o3 : option (hdr * option body * Z)) : verdict :=
  let p0 := pkt_of_hdr h BNil None in
  let p := match ec with
           | Some e => set_errno e p0
           | None => with_body p0 (set_body (no_oracle wide) g)
           end in
  let wire := fun cd x => if cd =? 1 then wire_v1 tag_coders thr true true x else wire_v2 tag_coders thr true true x in
  (* the sender's packet keeps the marks the codec set *)
  let p' := with_flag p (fst (marshal_body tag_coders thr true p)) in
  let corr :=
    vjoin (check_that (zlist_eqb (body_to_bytes (pbody p)) w0) (VMismatch 23))
   (vjoin (check_that (q_matches (wire codec p) o1) (VMismatch 24))
   (vjoin (check_that (q_matches (wire codec p') o2) (VMismatch 25))
          (check_that (q_matches (wire (3 - codec) p') o3) (VMismatch 26)))) in
  let prop :=
    vjoin (check_that (ol_eqb (Some w0) w1 && ol_eqb (Some s0) s1) (VPropFail 3))
   (vjoin (check_that (q_same o1 o2 && q_same o1 o3) (VPropFail 3))
          (match ec, o1 with
           | Some e, Some (_, _, e1) => check_that (e1 =? e) (VPropFail 4)
           | Some _, None => VPropFail 4
           | None, _ => VOk
           end)) in
  vjoin prop corr.

(* ---- scenario 9: several numeric wire forms held at the same time ------------------------- *)
Definition what_packet (i : Z) (w : sx) : option (packet * Z * option Z) :=   (* packet, widening datum, code *)
  let p0 := mkPkt (100 + i) i 0 0 0 BNil [] None in
  match w with
  | SList [SInt 0; SInt ec] => Some (set_errno ec p0, 0, Some ec)
  | SList [SInt 1; g] =>
      match gov_of g with
      | Some (g, wide) => Some (with_body p0 (set_body (no_oracle wide) g), wide, None)
      | None => None
      end
  | _ => None
  end.

(* the held bytes still are the wire form of the value: the integer / float decodes from them *)
Definition held_ok (p : packet) (w : list Z) : bool :=
  match pbody p with
  | BInt z => let '(x, n) := varint w in (n =? Z.of_nat (length w)) && (x =? z)
  | BFloat f => let '(x, n) := uvarint w in (n =? Z.of_nat (length w)) && (x =? f)
  | b => zlist_eqb w (body_to_bytes b)
  end.

Definition check_hold (a b c : packet * Z * option Z) (wa wb wc : list Z)
           (d : option (hdr * option body * Z)) : verdict :=
  let pa := fst (fst a) in let pb := fst (fst b) in let pc := fst (fst c) in
  let corr :=
    vjoin (check_that (zlist_eqb (body_to_bytes (pbody pa)) wa && zlist_eqb (body_to_bytes (pbody pb)) wb &&
                       zlist_eqb (body_to_bytes (pbody pc)) wc) (VMismatch 27))
          (check_that (q_matches (wire_v2 tag_coders 8192 false false pa) d) (VMismatch 28)) in
  let prop :=
    vjoin (check_that (held_ok pa wa && held_ok pb wb && held_ok pc wc) (VPropFail 3))
          (match snd a, d with
           | Some e, Some (_, _, e1) => check_that (e1 =? e) (VPropFail 4)
           | Some _, None => VPropFail 4
           | None, None => VPropFail 3
           | None, Some _ => VOk
           end) in
  vjoin prop corr.

(* ---- scenario 4: reply / refuse ----------------------------------------------------- *)
Definition check_reply (h : hdr) (mode command : Z) (argb : body) (argec : Z)
           (obs : option (Z * hdr * option body * Z * option (list Z) * option (hdr * option body * Z))) : verdict :=
  let p := pkt_of_hdr h BNil (Some 1) in
  (* modes 2 and 3 consult the message registry: its answer travels in the command slot *)
  let m := if mode =? 0 then reply_with p command argb
           else if mode =? 1 then refuse_with p command argec
           else if mode =? 2 then refuse (fun _ => command) p argec
           else reply command p argb in
  let want_cmd := if (mode =? 0) || (mode =? 1) then command
                  else if command =? 0 then hcmd h else command in
  match m, obs with
  | None, None => VOk
  | Some (e, q), Some (nsent, oh, ob, oerrno, orb, olater) =>
      (* the reply as it is encoded later, after the request object has been recycled: still what
         the request was when the reply was made *)
      let unchanged :=
        match olater with
        | Some (lh, lb, lerrno) =>
            hdr_eqb oh lh && (oerrno =? lerrno) &&
            match ob, lb with Some b1, Some b2 => body_eqb b1 b2 | None, None => true | _, _ => false end
        | None => false
        end in
      let corr :=
        vjoin (check_that ((e =? 1) && (nsent =? 1)) (VMismatch 11))
       (vjoin (check_that (hdr_eqb (hdr_of_pkt q) oh) (VMismatch 12))
       (vjoin (check_that (obody_eqb (pbody q) ob) (VMismatch 13))
       (vjoin (check_that (errno q =? oerrno) (VMismatch 14))
              (check_that (ol_eqb (Some (body_to_bytes (pbody q))) orb) (VMismatch 21))))) in
      (* the packet handed to the endpoint "always has a wire form" *)
      let wired := check_that (match orb with Some _ => true | None => false end) (VPropFail 3) in
      let copied := (nsent =? 1) && (hseq oh =? hseq h) && (htyp oh =? htyp h) &&
                    (hnode oh =? hnode h) && zlist_eqb (hrefs oh) (hrefs h) in
      let prop :=
        if (mode =? 0) || (mode =? 3)
        then check_that (copied && (hcmd oh =? want_cmd) && obody_eqb argb ob) (VPropFail 6)
        else check_that (copied && (hcmd oh =? want_cmd) &&
                         has_flag (hflg oh) root_PFlagError && (oerrno =? argec)) (VPropFail 7) in
      vjoin (vjoin (vjoin prop (check_that unchanged (if (mode =? 0) || (mode =? 3) then VPropFail 6 else VPropFail 7))) wired) corr
  | Some _, None =>
      (* nothing usable reached the endpoint (a panic, no packet, the request not bound to its
         endpoint, or the recycled request object's next reply not carrying its new fields) *)
      if (mode =? 0) || (mode =? 3) then VPropFail 6 else VPropFail 7
  | _, _ => VMismatch 11
  end.

Definition check (c : sx) : verdict :=
  match c with
  | SList [SList [SInt 8; SInt codec; SInt thr; h; what];
           SList [SInt 1; SBytes w0; SBytes s0; w1; s1; o1; o2; o3]] =>
      match hdr_of h, rbytes_of w1, rbytes_of s1, q_of o1, q_of o2, q_of o3 with
      | Some h, Some w1, Some s1, Some o1, Some o2, Some o3 =>
          if (codec =? 1) || (codec =? 2) then
            match what with
            | SList [SInt 0; SInt ec] => check_resend codec thr h (Some ec) GNil 0 (zs w0) (zs s0) w1 s1 o1 o2 o3
            | SList [SInt 1; g] =>
                match gov_of g with
                | Some (g, wide) => check_resend codec thr h None g wide (zs w0) (zs s0) w1 s1 o1 o2 o3
                | None => VBad
                end
            | _ => VBad
            end
          else VBad
      | _, _, _, _, _, _ => VBad
      end
  | SList [SList [SInt 9; a; b; c]; SList [SInt 1; SBytes wa; SBytes wb; SBytes wc; d]] =>
      match what_packet 0 a, what_packet 1 b, what_packet 2 c, q_of d with
      | Some a, Some b, Some c, Some d => check_hold a b c (zs wa) (zs wb) (zs wc) d
      | _, _, _, _ => VBad
      end
  (* separate packets on concurrent goroutines, evaluated in Go (harness/cmd/c07: concurrentBodies):
     (10 seed goroutines iterations) -> (10 code), code 0 ok | 3 wire form | 4 errno | 5 panic *)
  | SList [SList [SInt 10; SInt _; SInt _; SInt _]; SList [SInt 10; SInt code]] =>
      if code =? 0 then VOk else if code =? 4 then VPropFail 4 else VPropFail 3
  (* a large text / byte body evaluated in Go (harness/cmd/c07: bigBody):
     (7 kind size seed codec thr enc) -> (7 code delivered_length), kind 0/1 random text/bytes, 2/3 highly
     compressible text/bytes; code 0 ok | 1 read-back | 3 wire form / after the wire *)
  | SList [SList [SInt 7; SInt _; SInt _; SInt _; SInt _; SInt _; SInt _]; SList [SInt 7; SInt code; SInt _]] =>
      if code =? 0 then VOk else if code =? 1 then VPropFail 1 else VPropFail 3
  (* the library panicked outside the calls whose panic is an outcome of its own *)
  | SList [SList _; SList [SInt (-1)]] => VPropFail 8
  | SList [SList [SInt 0; g]; SList [ob; ri; rf; rs; rb]] =>
      match gov_of g, body_of ob, rint_of ri, rint_of rf, rbytes_of rs, rbytes_of rb with
      | Some (g, wide), Some ob, Some ri, Some rf, Some rs, Some rb => check_body g wide ob ri rf rs rb
      | _, _, _, _, _, _ => VBad
      end
  | SList [SList [SInt 6; SInt f; g]; SList [ob; ri; rf; rs; rb]] =>
      (* packet.New(7, 1, f, value): the body must behave as after SetBody(value) *)
      match gov_of g, body_of ob, rint_of ri, rint_of rf, rbytes_of rs, rbytes_of rb with
      | Some (g, wide), Some ob, Some ri, Some rf, Some rs, Some rb => check_body g wide ob ri rf rs rb
      | _, _, _, _, _, _ => VBad
      end
  | SList [SList [SInt 1; SInt f; SInt ec]; SList [SInt oflag; ob; SInt oerrno]] =>
      match body_of ob with
      | Some ob =>
          let q := set_errno ec (mkPkt 7 1 0 f 0 BNil [] None) in
          vjoin (check_that (oerrno =? ec) (VPropFail 4))
         (vjoin (check_that (flg q =? oflag) (VMismatch 15))
         (vjoin (check_that (obody_eqb (pbody q) ob) (VMismatch 16))
                (check_that (errno q =? oerrno) (VMismatch 17))))
      | None => VBad
      end
  | SList [SList [SInt 2; SInt f; g]; SList [SInt oerrno]] =>
      match gov_of g with
      | Some (g, wide) =>
          let q := mkPkt 7 1 0 (Z.land f (255 - root_PFlagError)) 0 (set_body (no_oracle wide) g) [] None in
          vjoin (check_that (oerrno =? 0) (VPropFail 5)) (check_that (errno q =? oerrno) (VMismatch 17))
      | None => VBad
      end
  | SList [SList [SInt 3; SInt codec; SInt thr; SInt enc; h; what]; obs] =>
      match hdr_of h with
      | Some h =>
          let obs' :=
            match obs with
            | SList [SInt 0] => Some None
            | SList [SInt 1; oh; ob; SInt oerrno; ors; fwd; cl] =>
                let parse_fwd := fun fwd => match fwd with
                            | SList [SInt 1; oh2; ob2] =>
                                match hdr_of oh2, body_of ob2 with
                                | Some oh2, Some ob2 => Some (Some (oh2, ob2))
                                | _, _ => None
                                end
                            | SList [SInt 0] => Some None
                            | _ => None
                            end in
                match hdr_of oh, body_of ob, rbytes_of ors, parse_fwd fwd, parse_fwd cl with
                | Some oh, Some ob, Some ors, Some ofwd, Some ocl => Some (Some (oh, ob, oerrno, ors, ofwd, ocl))
                | _, _, _, _, _ => None
                end
            | _ => None
            end in
          match obs', what with
          | Some obs', SList [SInt 0; SInt ec] =>
              if (codec =? 1) || (codec =? 2) then check_wire codec thr (negb (enc =? 0)) (enc =? 1) h (Some ec) GNil 0 obs' else VBad
          | Some obs', SList [SInt 1; g] =>
              match gov_of g with
              | Some (g, wide) =>
                  if (codec =? 1) || (codec =? 2) then check_wire codec thr (negb (enc =? 0)) (enc =? 1) h None g wide obs' else VBad
              | None => VBad
              end
          | _, _ => VBad
          end
      | None => VBad
      end
  (* an optional 6th element is the state of the endpoint the request is bound to (running or
     closing, SendPacket succeeding or failing): the reply is handed to it whatever the state *)
  | SList [SList (SInt 4 :: h :: SInt mode :: SInt command :: arg :: _); obs] =>
      match hdr_of h with
      | Some h =>
          let obs' :=
            match obs with
            | SList [SInt 0] => Some None
            | SList [SInt 1; SInt nsent; oh; ob; SInt oerrno; orb; later] =>
                let olater := match later with
                              | SList [SInt 1; SList [lh; lb; SInt lerrno]] =>
                                  match hdr_of lh, body_of lb with
                                  | Some lh, Some lb => Some (Some (lh, lb, lerrno))
                                  | _, _ => None
                                  end
                              | SList [SInt 2] => Some None
                              | _ => None
                              end in
                match hdr_of oh, body_of ob, rbytes_of orb, olater with
                | Some oh, Some ob, Some orb, Some olater => Some (Some (nsent, oh, ob, oerrno, orb, olater))
                | _, _, _, _ => None
                end
            | _ => None
            end in
          match obs' with
          | Some obs' =>
              if mode =? 0 then
                match body_of arg with
                | Some (Some b) => check_reply h 0 command b 0 obs'
                | _ => VBad
                end
              else if (mode =? 1) || (mode =? 2) then
                match arg with
                | SInt ec => check_reply h mode command BNil ec obs'
                | _ => VBad
                end
              else if mode =? 3 then
                match gov_of arg with
                | Some (GProto m, _) => check_reply h 3 command (BProto m) 0 obs'
                | _ => VBad
                end
              else if mode =? 4 then
                (* ReplyWith(command, any supported Go value): behaves as mode 0 on the normalised body *)
                match gov_of arg with
                | Some (g, wide) => check_reply h 0 command (set_body (no_oracle wide) g) 0 obs'
                | None => VBad
                end
              else VBad
          | None => VBad
          end
      | None => VBad
      end
  | SList [SList [SInt 5; SInt codec; h; g; SInt registered; SInt valid; SInt valids]; obs] =>
      match hdr_of h, gov_of g with
      | Some h, Some (g, wide) =>
          let p := with_body (pkt_of_hdr h BNil None) (set_body (no_oracle wide) g) in
          let w := if codec =? 1 then wire_v1 tag_coders 4096 false false p
                   else wire_v2 tag_coders 8192 false false p in
          match w, obs with
          | None, SList [SInt 0] => VOk
          | Some q, SList [SInt 1; SInt ok; ob; dt] =>
              match body_of ob with
              | Some ob =>
                  let d := decode (negb (registered =? 0)) (negb (valid =? 0)) q in
                  (* DecodeTo(&StringValue{}): nil error iff the model says so; a StringValue sent
                     without the error flag comes out as the same message *)
                  let dt_ok := match dt with
                               | SList [SInt 1; SBytes _] => decode_to (negb (valids =? 0)) q
                               | SList [SInt 0] => negb (decode_to (negb (valids =? 0)) q)
                               | _ => false
                               end in
                  let dt_same := match g, dt with
                                 | GProto m, SList [SInt 1; SBytes m'] =>
                                     if negb (has_flag (hflg h) root_PFlagError) && negb (valids =? 0)
                                     then zlist_eqb m (zs m') else true
                                 | _, _ => true
                                 end in
                  let corr0 := check_that dt_ok (VMismatch 30) in
                  let corr :=
                    match d with
                    | Some q' => vjoin (check_that (ok =? 1) (VMismatch 18))
                                       (check_that (obody_eqb (pbody q') ob) (VMismatch 19))
                    | None => vjoin (check_that (ok =? 0) (VMismatch 18))
                                    (check_that (obody_eqb (pbody q) ob) (VMismatch 19))
                    end in
                  (* a message sent under an id whose registered type accepts it arrives as the same message *)
                  let prop :=
                    match g with
                    | GProto m =>
                        if negb (registered =? 0) && negb (valid =? 0) && negb (has_flag (hflg h) root_PFlagError)
                        then check_that ((ok =? 1) && obody_eqb (BProto m) ob) (VPropFail 3)
                        else VOk
                    | _ => VOk
                    end in
                  vjoin (vjoin prop (check_that dt_same (VPropFail 3))) (vjoin corr corr0)
              | None => VBad
              end
          | _, _ => VMismatch 10
          end
      | _, _ => VBad
      end
  (* scenario 12: qnet.RequestProtoMessage against a server that refuses / replies through its
     bound endpoint, over a pipe: (12 codec cmd mode arg) -> (1 #response) | (0 #error text) | (9) *)
  | SList [SList [SInt 12; SInt codec; SInt cmd; SInt mode; arg]; obs] =>
      let msg := fun c e => ascii_msg1 ++ format_int c ++ ascii_msg2 ++ format_int e in
      match mode, arg, obs with
      | 1, g, SList [SInt 1; SBytes m'] =>
          match gov_of g with
          | Some (GProto m, _) => check_that (zlist_eqb m (zs m')) (VPropFail 6)
          | _ => VBad
          end
      | 1, _, _ => VPropFail 6
      | _, SInt ec, SList [SInt 0; SBytes t] =>
          (* a positive code is what the caller is told; other codes are not errors to this helper *)
          if 0 <? ec then check_that (zlist_eqb (zs t) (msg (if mode =? 0 then cmd else cmd + 1) ec)) (VPropFail 4)
          else VOk
      | _, SInt ec, SList [SInt 1; SBytes _] => check_that (ec <=? 0) (VPropFail 4)
      | _, _, _ => VPropFail 4
      end
  | _ => VBad
  end.
