(* C07 source tie: the varint coders the packet bodies and error codes travel in.
   Generated/PacketVarint.v is regenerated on every run by tools/gofunc from
     GOROOT/src/encoding/binary/varint.go  PutUvarint, PutVarint, Uvarint, Varint
     /repo/packet/packet_encode.go         encodeInt64, encodeUint64
   Proved here: on their domain (64-bit values, bytes in [0,256), buffer of at least
   MaxVarintLen64 bytes, enough fuel) the translated functions ARE the hand-written model
   Lib/Varint.v (put_uvarint, put_varint, uvarint, varint) that C07/Model.v uses for
   body_bytes and for the decoder; round trip stated on the translated definitions. *)
From Coq Require Import ZArith List Bool Lia.
From FV Require Import Lib.GoSem Lib.Bits Lib.Wrap Lib.LE Lib.Varint Generated.PacketVarint.
Import ListNotations.
Local Open Scope Z_scope.

(* ---- small facts ---------------------------------------------------------------------- *)
Lemma lor128_byte b : 0 <= b < 256 -> Z.lor b 128 = b mod 128 + 128.
Proof.
  intros Hb.
  assert (H : forallb (fun n => Z.lor (Z.of_nat n) 128 =? Z.of_nat n mod 128 + 128) (seq 0 256) = true)
    by (vm_compute; reflexivity).
  rewrite forallb_forall in H. specialize (H (Z.to_nat b)).
  rewrite Z2Nat.id in H by lia. apply Z.eqb_eq, H. apply in_seq. lia.
Qed.

Lemma lor128 x : Z.lor (x mod 256) 128 = x mod 128 + 128.
Proof.
  rewrite lor128_byte by (apply Z.mod_pos_bound; lia).
  f_equal. change 256 with (2 * 128).
  rewrite Z.mul_comm, Z.rem_mul_r by lia.
  rewrite Z.mul_comm, Z.mod_add by lia. apply Z.mod_mod. lia.
Qed.

Lemma wrap64_small v : - 9223372036854775808 <= v < 9223372036854775808 ->
  (v + 9223372036854775808) mod 18446744073709551616 - 9223372036854775808 = v.
Proof. intros H. rewrite Z.mod_small by lia. lia. Qed.

Lemma list_upd_mid pre t tl v : list_upd (pre ++ t :: tl) (length pre) v = pre ++ v :: tl.
Proof. induction pre as [|a pre IH]; cbn; [reflexivity|]. now rewrite IH. Qed.

Lemma go_update_mid pre t tl v :
  go_update (pre ++ t :: tl) (Z.of_nat (length pre)) v = Lib.GoSem.Ok (pre ++ v :: tl).
Proof.
  unfold go_update, go_len. rewrite app_length. cbn [length].
  replace (0 <=? Z.of_nat (length pre)) with true by (symmetry; apply Z.leb_le; lia).
  replace (Z.of_nat (length pre) <? Z.of_nat (length pre + S (length tl))) with true
    by (symmetry; apply Z.ltb_lt; lia).
  cbn [andb]. rewrite Nat2Z.id, list_upd_mid. reflexivity.
Qed.

Lemma skipn_cons_ex (l : list Z) n : (n < length l)%nat -> exists t, skipn n l = t :: skipn (S n) l.
Proof.
  revert n; induction l as [|a l IH]; intros n H; [cbn in H; lia|].
  destruct n; [exists a; reflexivity|]. cbn [length] in H. apply IH. lia.
Qed.

(* ---- PutUvarint ------------------------------------------------------------------------ *)
(* the model's encoder = the bytes written by the loop ++ the byte written after it *)
Fixpoint uv_init (k : nat) (x : Z) : list Z :=
  match k with
  | O => []
  | S f => if x <? 128 then [] else (x mod 128 + 128) :: uv_init f (x / 128)
  end.
Fixpoint uv_last (k : nat) (x : Z) : Z :=
  match k with
  | O => x
  | S f => if x <? 128 then x else uv_last f (x / 128)
  end.

Lemma put_uv_split k : forall x, put_uv k x = uv_init k x ++ [uv_last k x].
Proof.
  induction k as [|k IH]; intros x; cbn [put_uv uv_init uv_last]; [reflexivity|].
  destruct (x <? 128); [reflexivity|]. rewrite IH. reflexivity.
Qed.

Lemma uv_init_length k : forall x, (length (uv_init k x) <= k)%nat.
Proof.
  induction k as [|k IH]; intros x; cbn [uv_init]; [cbn; lia|].
  destruct (x <? 128); cbn [length]; [lia|]. specialize (IH (x / 128)). lia.
Qed.

Lemma uv_last_range k : forall x, 0 <= x < 2 ^ (7 * Z.of_nat (S k)) -> 0 <= uv_last k x < 128.
Proof.
  induction k as [|k IH]; intros x Hx; cbn [uv_last].
  - change (2 ^ (7 * Z.of_nat 1)) with 128 in Hx. lia.
  - destruct (x <? 128) eqn:E; [apply Z.ltb_lt in E; lia|]. apply IH.
    split; [apply Z.div_pos; lia|]. apply Z.div_lt_upper_bound; [lia|].
    replace (7 * Z.of_nat (S (S k))) with (7 + 7 * Z.of_nat (S k)) in Hx by lia.
    rewrite Z.pow_add_r in Hx by lia. change (2 ^ 7) with 128 in Hx. lia.
Qed.

Lemma pow7_S k : 2 ^ (7 * Z.of_nat (S k)) = 128 * 2 ^ (7 * Z.of_nat k).
Proof.
  replace (7 * Z.of_nat (S k)) with (7 + 7 * Z.of_nat k) by lia.
  rewrite Z.pow_add_r by lia. reflexivity.
Qed.

Lemma putu_loop k : forall x pre tl fuel,
  0 <= x < 2 ^ (7 * Z.of_nat (S k)) -> (S k <= length tl)%nat -> (k < fuel)%nat ->
  Z.of_nat (length pre) + Z.of_nat k < 2 ^ 62 ->
  go_binary_PutUvarint_loop1 fuel (pre ++ tl, x, Z.of_nat (length pre)) =
  Lib.GoSem.Ok (inl (pre ++ uv_init k x ++ skipn (length (uv_init k x)) tl, uv_last k x,
           Z.of_nat (length pre + length (uv_init k x)))).
Proof.
  unfold go_binary_PutUvarint_loop1.
  induction k as [|k IH]; intros x pre tl fuel Hx Htl Hf Hi.
  - destruct fuel as [|fuel]; [lia|].
    cbn [go_loop go_binary_PutUvarint_loop1_body uv_init uv_last length skipn app].
    change (2 ^ (7 * Z.of_nat 1)) with 128 in Hx.
    replace (x >=? 128) with false by (symmetry; rewrite Z.geb_leb; apply Z.leb_gt; lia).
    rewrite Nat.add_0_r. reflexivity.
  - destruct fuel as [|fuel]; [lia|]. cbn [go_loop go_binary_PutUvarint_loop1_body uv_init uv_last].
    destruct (x <? 128) eqn:E.
    + apply Z.ltb_lt in E.
      replace (x >=? 128) with false by (symmetry; rewrite Z.geb_leb; apply Z.leb_gt; lia).
      cbn [length skipn app]. rewrite Nat.add_0_r. reflexivity.
    + apply Z.ltb_ge in E.
      replace (x >=? 128) with true by (symmetry; rewrite Z.geb_leb; apply Z.leb_le; lia).
      destruct tl as [|t tl]; [cbn in Htl; lia|]. cbn [length] in Htl.
      rewrite go_update_mid. cbn [bind].
      rewrite lor128, wrap64_small by (change (2 ^ 62) with 4611686018427387904 in Hi; lia).
      rewrite shiftr_div by lia. change (2 ^ 7) with 128.
      replace (pre ++ (x mod 128 + 128) :: tl) with ((pre ++ [x mod 128 + 128]) ++ tl)
        by (rewrite <- app_assoc; reflexivity).
      replace (Z.of_nat (length pre) + 1) with (Z.of_nat (length (pre ++ [x mod 128 + 128])))
        by (rewrite app_length; cbn [length]; lia).
      rewrite IH.
      * cbn [length skipn]. rewrite <- app_assoc. cbn [app].
        rewrite app_length. cbn [length]. do 4 f_equal. lia.
      * rewrite pow7_S in Hx. split; [apply Z.div_pos; lia|]. apply Z.div_lt_upper_bound; lia.
      * lia.
      * lia.
      * rewrite app_length. cbn [length]. lia.
Qed.

Theorem src_PutUvarint fuel buf x :
  0 <= x < 2 ^ 64 -> (10 <= length buf)%nat -> (10 <= fuel)%nat ->
  go_binary_PutUvarint fuel buf x =
  Lib.GoSem.Ok (Z.of_nat (length (put_uvarint x)),
                put_uvarint x ++ skipn (length (put_uvarint x)) buf).
Proof.
  intros Hx Hb Hf. unfold go_binary_PutUvarint.
  assert (Hx70 : 0 <= x < 2 ^ (7 * Z.of_nat 10)).
  { assert (2 ^ 64 <= 2 ^ (7 * Z.of_nat 10)) by (apply Z.pow_le_mono_r; lia). lia. }
  pose proof (putu_loop 9 x [] buf fuel Hx70 ltac:(lia) ltac:(lia)) as L.
  cbn [app length Z.of_nat Nat.add] in L. rewrite L by (cbn; lia). clear L.
  pose proof (uv_init_length 9 x) as Hl. pose proof (uv_last_range 9 x Hx70) as Hr.
  destruct (skipn_cons_ex buf (length (uv_init 9 x)) ltac:(lia)) as [t Ht].
  rewrite Ht, go_update_mid. cbn [bind].
  rewrite wrap64_small by lia. rewrite Z.mod_small by lia.
  unfold put_uvarint. rewrite put_uv_split, app_length. cbn [length].
  rewrite <- app_assoc. cbn [app]. rewrite Nat.add_1_r.
  do 2 f_equal. lia.
Qed.

(* ---- PutVarint: the zig-zag step ---------------------------------------------------------- *)
Lemma src_zigzag x : in_s 64 x ->
  (if x <? 0
   then (Z.lnot ((Z.shiftl (x mod 18446744073709551616) 1) mod 18446744073709551616)) mod 18446744073709551616
   else (Z.shiftl (x mod 18446744073709551616) 1) mod 18446744073709551616) = zigzag x.
Proof.
  intros Hx. unfold zigzag, not64, wrapu. change (2 ^ 64) with 18446744073709551616.
  destruct (x <? 0); [|reflexivity].
  set (u := Z.shiftl (x mod 18446744073709551616) 1 mod 18446744073709551616).
  assert (Hu : 0 <= u < 18446744073709551616) by (apply Z.mod_pos_bound; lia).
  unfold Z.lnot. symmetry. apply (Zdiv.Zmod_unique _ _ (-1)); lia.
Qed.

Theorem src_PutVarint fuel buf x :
  in_s 64 x -> (10 <= length buf)%nat -> (10 <= fuel)%nat ->
  go_binary_PutVarint fuel buf x =
  Lib.GoSem.Ok (Z.of_nat (length (put_varint x)),
                put_varint x ++ skipn (length (put_varint x)) buf).
Proof.
  intros Hx Hb Hf. unfold go_binary_PutVarint. cbv zeta.
  pose proof (src_zigzag x Hx) as Z. destruct (x <? 0); rewrite Z;
    rewrite src_PutUvarint by (try apply zigzag_range; assumption); reflexivity.
Qed.

(* ---- packet.encodeUint64 / encodeInt64 ---------------------------------------------------- *)
Lemma firstn_len_app (p r : list Z) : firstn (length p) (p ++ r) = p.
Proof. rewrite firstn_app, Nat.sub_diag, firstn_all. cbn. apply app_nil_r. Qed.

Lemma go_slice_prefix (p r : list Z) : go_slice (p ++ r) 0 (Z.of_nat (length p)) = Lib.GoSem.Ok p.
Proof.
  unfold go_slice, go_len. rewrite app_length.
  replace (0 <=? Z.of_nat (length p)) with true by (symmetry; apply Z.leb_le; lia).
  replace (Z.of_nat (length p) <=? Z.of_nat (length p + length r)) with true
    by (symmetry; apply Z.leb_le; lia).
  cbn [Z.leb andb Z.compare]. rewrite Z.sub_0_r, Nat2Z.id. cbn [Z.to_nat skipn].
  now rewrite firstn_len_app.
Qed.

Theorem src_encodeUint64 fuel x : 0 <= x < 2 ^ 64 -> (10 <= fuel)%nat ->
  go_encodeUint64 fuel x = Lib.GoSem.Ok (put_uvarint x).
Proof.
  intros Hx Hf. unfold go_encodeUint64. cbv zeta.
  rewrite src_PutUvarint by (try assumption; vm_compute; lia). cbn [bind].
  rewrite go_slice_prefix. reflexivity.
Qed.

Theorem src_encodeInt64 fuel x : in_s 64 x -> (10 <= fuel)%nat ->
  go_encodeInt64 fuel x = Lib.GoSem.Ok (put_varint x).
Proof.
  intros Hx Hf. unfold go_encodeInt64. cbv zeta.
  rewrite src_PutVarint by (try assumption; vm_compute; lia). cbn [bind].
  rewrite go_slice_prefix. reflexivity.
Qed.

(* ---- Uvarint / Varint ---------------------------------------------------------------------- *)
Lemma Zeqb_nat i k : (Z.of_nat i =? Z.of_nat k) = (i =? k)%nat.
Proof. destruct (Nat.eqb_spec i k) as [->|N]; [apply Z.eqb_refl | apply Z.eqb_neq; lia]. Qed.

Lemma uvar_loop rest : forall pre x fuel,
  Forall is_byte rest -> (length pre <= 10)%nat -> (length rest < fuel)%nat ->
  (exists st, go_binary_Uvarint_loop1 fuel (pre ++ rest) (Z.of_nat (length pre), x, 7 * Z.of_nat (length pre))
              = Lib.GoSem.Ok (inl st) /\
              uvarint_go rest (length pre) x (7 * Z.of_nat (length pre)) = (0, 0)) \/
  go_binary_Uvarint_loop1 fuel (pre ++ rest) (Z.of_nat (length pre), x, 7 * Z.of_nat (length pre))
  = Lib.GoSem.Ok (inr (uvarint_go rest (length pre) x (7 * Z.of_nat (length pre)))).
Proof.
  unfold go_binary_Uvarint_loop1.
  induction rest as [|b r IH]; intros pre x fuel Hb Hp Hf.
  - destruct fuel as [|fuel]; [cbn in Hf; lia|]. left.
    cbn [go_loop go_binary_Uvarint_loop1_body uvarint_go].
    replace (Z.of_nat (length pre) <? go_len (pre ++ [])) with false
      by (symmetry; apply Z.ltb_ge; unfold go_len; rewrite app_length; cbn [length]; lia).
    eexists; split; reflexivity.
  - destruct fuel as [|fuel]; [cbn in Hf; lia|]. cbn [length] in Hf.
    inversion Hb as [|b' r' Hb1 Hb2]; subst b' r'. unfold is_byte in Hb1.
    cbn [go_loop go_binary_Uvarint_loop1_body uvarint_go].
    replace (Z.of_nat (length pre) <? go_len (pre ++ b :: r)) with true
      by (symmetry; apply Z.ltb_lt; unfold go_len; rewrite app_length; cbn [length]; lia).
    rewrite Nat2Z.id, nth_middle.
    replace (Z.of_nat (length pre) =? 10) with (length pre =? 10)%nat
      by (symmetry; apply (Zeqb_nat _ 10)).
    replace (Z.of_nat (length pre) =? 9) with (length pre =? 9)%nat
      by (symmetry; apply (Zeqb_nat _ 9)).
    assert (W1 : (Z.of_nat (length pre) + 1 + 9223372036854775808) mod 18446744073709551616
                 - 9223372036854775808 = Z.of_nat (length pre) + 1) by (apply wrap64_small; lia).
    rewrite W1.
    assert (W2 : (- (Z.of_nat (length pre) + 1) + 9223372036854775808) mod 18446744073709551616
                 - 9223372036854775808 = - (Z.of_nat (length pre) + 1)) by (apply wrap64_small; lia).
    rewrite W2.
    destruct (length pre =? 10)%nat eqn:E10; [right; reflexivity|].
    apply Nat.eqb_neq in E10.
    assert (Hs : Z.min (7 * Z.of_nat (length pre)) 64 = 7 * Z.of_nat (length pre)) by lia.
    rewrite Hs. rewrite Z.gtb_ltb.
    destruct (b <? 128) eqn:E.
    + destruct ((length pre =? 9)%nat && (1 <? b)); [right; reflexivity|].
      right. rewrite (Z.mod_small b) by lia. reflexivity.
    + assert (Hl : 0 <= Z.land b 127 < 128).
      { rewrite land_127. apply Z.mod_pos_bound. lia. }
      rewrite (Z.mod_small (Z.land b 127)) by lia.
      rewrite (Z.mod_small (7 * Z.of_nat (length pre) + 7)) by lia.
      replace (pre ++ b :: r) with ((pre ++ [b]) ++ r) by (rewrite <- app_assoc; reflexivity).
      replace (Z.of_nat (length pre) + 1) with (Z.of_nat (length (pre ++ [b])))
        by (rewrite app_length; cbn [length]; lia).
      replace (7 * Z.of_nat (length pre) + 7) with (7 * Z.of_nat (length (pre ++ [b])))
        by (rewrite app_length; cbn [length]; lia).
      replace (S (length pre)) with (length (pre ++ [b])) by (rewrite app_length; cbn [length]; lia).
      apply IH; [assumption | rewrite app_length; cbn [length]; lia | lia].
Qed.

Theorem src_Uvarint fuel buf : Forall is_byte buf -> (length buf < fuel)%nat ->
  go_binary_Uvarint fuel buf = Lib.GoSem.Ok (uvarint buf).
Proof.
  intros Hb Hf. unfold go_binary_Uvarint, uvarint. cbv zeta.
  destruct (uvar_loop buf [] 0 fuel Hb ltac:(cbn; lia) Hf) as [[st [L M]]|L];
    cbn [app length Z.of_nat Z.mul] in L; try cbn [app length Z.of_nat Z.mul] in M; rewrite L.
  - destruct st as [[a c] d]. rewrite M. reflexivity.
  - reflexivity.
Qed.

Lemma src_unzigzag ux : 0 <= ux < 2 ^ 64 ->
  (if negb (Z.land ux 1 =? 0)
   then (Z.lnot ((Z.shiftr ux 1 + 9223372036854775808) mod 18446744073709551616 - 9223372036854775808)
         + 9223372036854775808) mod 18446744073709551616 - 9223372036854775808
   else (Z.shiftr ux 1 + 9223372036854775808) mod 18446744073709551616 - 9223372036854775808)
  = unzigzag ux.
Proof.
  intros H. unfold unzigzag, wraps. change (2 ^ (64 - 1)) with 9223372036854775808.
  change (2 ^ 64) with 18446744073709551616 in *.
  destruct (Z.land ux 1 =? 0); cbn [negb]; [reflexivity|].
  rewrite shiftr_div by lia. change (2 ^ 1) with 2.
  assert (Hq : 0 <= ux / 2 < 9223372036854775808).
  { split; [apply Z.div_pos; lia|]. apply Z.div_lt_upper_bound; lia. }
  rewrite (wrap64_small (ux / 2)) by lia. unfold Z.lnot.
  rewrite wrap64_small by lia. lia.
Qed.

Theorem src_Varint fuel buf : Forall is_byte buf -> (length buf < fuel)%nat ->
  go_binary_Varint fuel buf = Lib.GoSem.Ok (varint buf).
Proof.
  intros Hb Hf. unfold go_binary_Varint, varint. rewrite src_Uvarint by assumption. cbn [bind].
  pose proof (uvarint_range buf) as R. destruct (uvarint buf) as [ux n]. cbn [fst] in R. cbv zeta.
  pose proof (src_unzigzag ux R) as U.
  destruct (negb (Z.land ux 1 =? 0)); rewrite U; reflexivity.
Qed.

(* ---- round trip stated on the translated definitions only ------------------------------------ *)
Theorem src_varint_roundtrip fuel x : in_s 64 x -> (11 <= fuel)%nat ->
  bind (go_encodeInt64 fuel x) (go_binary_Varint fuel) =
  Lib.GoSem.Ok (x, Z.of_nat (length (put_varint x))).
Proof.
  intros Hx Hf. rewrite src_encodeInt64 by (try assumption; lia). cbn [bind].
  pose proof (put_varint_length x) as L.
  rewrite src_Varint by (try apply put_varint_bytes; try assumption; lia).
  rewrite <- (app_nil_r (put_varint x)) at 1. rewrite varint_put_varint by assumption. reflexivity.
Qed.

Theorem src_uvarint_roundtrip fuel x : 0 <= x < 2 ^ 64 -> (11 <= fuel)%nat ->
  bind (go_encodeUint64 fuel x) (go_binary_Uvarint fuel) =
  Lib.GoSem.Ok (x, Z.of_nat (length (put_uvarint x))).
Proof.
  intros Hx Hf. rewrite src_encodeUint64 by (try assumption; lia). cbn [bind].
  pose proof (put_uvarint_length x) as L.
  rewrite src_Uvarint by (try apply put_uvarint_bytes; try assumption; lia).
  rewrite <- (app_nil_r (put_uvarint x)) at 1. rewrite uvarint_put_uvarint by assumption. reflexivity.
Qed.
