(* C18 — correspondence.  Two kinds of cases written by harness/cmd/c18:

   script  input    (0 nw cap ((outcome gated) ...) (op ...))
                    op = (0) Execute a fresh task on a new goroutine | (1 t) open the gate of task t
                       | (2) call Shutdown on a new goroutine | (3 t ...) open several gates at once
                       | (4) Execute, held by the harness between its state check and the queue send
                       | (5 t) let the held Execute of task t go on
                       | (6) Shutdown, held between wg.Wait and close(queue) | (7) let it go on
                    status 6 = held at the point, 7 = waiting for the executor's lock behind a Shutdown
                    that is waiting for it; shut status 2 = held at the point
           observed ((settled (status ...) (started ...) (ended ...) alive (shut ...)) ...)  one snapshot per op,
                    taken when every goroutine of the scenario is parked
                    status of an Execute call: 0 parked on the queue send, 1 nil, 2 error, 3 panic,
                                               4 parked inside start() (nothing can wake it)
           The model is driven by a deterministic scheduler ([settle]) to its quiescent state after
           each op and the snapshots are compared; the property is evaluated on the observed snapshots.

   conc    input    (1 nw cap ncalls ...)   (submissions from many goroutines, Shutdown from another one)
           observed ((status ...) (early ...) (runs ...) (endedbefore ...)
                     (alive shutret inconclusive maxinflight workergoroutines orderok shutpending
                      taskstartedaftershutdownreturned shutdownpanicked))
                    status 8 = the call ended in a runtime panic (send on closed channel, WaitGroup misuse)
           No schedule is observable: only the property (the conclusions of the theorems) is evaluated. *)
From Coq Require Import ZArith List Bool Arith.
From FV Require Import Lib.Sx C18.Model.
Import ListNotations.

(* ---------- decoding ---------- *)
Definition nat_of (s : sx) : option nat :=
  match s with SInt z => if Z.leb 0 z then Some (Z.to_nat z) else None | _ => None end.
Definition nats_of (s : sx) : option (list nat) :=
  match s with SList l => map_opt nat_of l | _ => None end.

Inductive op := OExec | ORelease (t : nat) | OShutdown | OReleaseMany (ts : list nat)
              | OExecHeld | OLetExec (t : nat) | OShutHeld | OLetShut.
Definition op_of (s : sx) : option op :=
  match s with
  | SList [SInt 0%Z] => Some OExec
  | SList [SInt 1%Z; t] => match nat_of t with Some t => Some (ORelease t) | None => None end
  | SList [SInt 2%Z] => Some OShutdown
  | SList (SInt 3%Z :: ts) => match map_opt nat_of ts with Some ts => Some (OReleaseMany ts) | None => None end
  | SList [SInt 4%Z] => Some OExecHeld
  | SList [SInt 5%Z; t] => match nat_of t with Some t => Some (OLetExec t) | None => None end
  | SList [SInt 6%Z] => Some OShutHeld
  | SList [SInt 7%Z] => Some OLetShut
  | _ => None
  end.
(* a nil Runnable (3, 4) and a Task without an action (5, Run() returns nil) have no body: the harness
   cannot see them start or end *)
Definition invisible_of (s : sx) : bool :=
  match s with SList [SInt o; _] => (Z.eqb o 3 || Z.eqb o 4 || Z.eqb o 5)%bool | _ => false end.

Definition kind_of (s : sx) : option (outcome * bool) :=
  match s with
  | SList [SInt o; SInt g] =>
      (* 3 / 4: a nil / typed-nil Runnable: running it panics inside run() (recovered); 6..9: errors of
         other concrete types; 11: the same Task object as the previous submission, submitted again *)
      Some ((if (Z.eqb o 1 || ((6 <=? o) && (o <=? 9)))%bool%Z then OErr
             else if (Z.eqb o 2 || Z.eqb o 3 || Z.eqb o 4)%bool then OPanic else OOk), Z.eqb g 1)
  | _ => None
  end.

Record snap := mksnap {
  settled : bool; statuses : list nat; started : list nat; ended : list nat; alive : nat; shuts : list nat }.
Definition snap_of (s : sx) : option snap :=
  match s with
  | SList [SInt f; a; b; c; d; e] =>
      match nats_of a, nats_of b, nats_of c, nat_of d, nats_of e with
      | Some a, Some b, Some c, Some d, Some e => Some (mksnap (Z.eqb f 1) a b c d e)
      | _, _, _, _, _ => None
      end
  | _ => None
  end.

(* ---------- the deterministic scheduler driving the model ---------- *)
Definition nat_list_eqb := list_eqb Nat.eqb.
Fixpoint insert (x : nat) (l : list nat) : list nat :=
  match l with [] => [x] | y :: r => if Nat.leb x y then x :: l else y :: insert x r end.
Definition sort (l : list nat) : list nat := fold_right insert [] l.

Section Drive.
  Variable kinds : list (outcome * bool).
  Definition oracle (t : nat) : outcome := fst (nth t kinds (OOk, false)).
  Definition gated (t : nat) : bool := snd (nth t kinds (OOk, false)).

  Definition cands (s : st) : list choice :=
    map Sub (seq 0 (next s))
    ++ flat_map (fun j => [Take j; SeeDone j; Finish j; DrainTake j; DrainEmpty j]) (seq 0 (length (ws s)))
    ++ match sh s with ShIdle | ShDone => [] | _ => [Shut] end.

  (* the environment: a gated task returns only after its gate was opened; a caller spinning
     on Started makes no progress by itself *)
  (* [heldE]: Execute calls the harness holds between the state check and the send;
     [heldS]: the Shutdown caller is held between wg.Wait and close(queue) *)
  Definition allowed (heldE : list nat) (heldS : bool) (released : list nat) (s : st) (c : choice) : bool :=
    match c with
    | Shut => negb (heldS && match sh s with ShCloseQ => true | _ => false end)
    | Finish j =>
        match nth j (ws s) WExited with
        | WBusy t | WDBusy t => negb (gated t) || mem t released
        | _ => false
        end
    | Sub t => match subs s t, ph s with
               | SGet, PStarted => false
               | SPark, _ => negb (mem t heldE)
               | _, _ => true
               end
    | _ => true
    end.

  Fixpoint first_step (hE : list nat) (hS : bool) (released : list nat) (s : st) (l : list choice) : option st :=
    match l with
    | [] => None
    | c :: r =>
        if allowed hE hS released s c then
          match step oracle s c with Some s' => Some s' | None => first_step hE hS released s r end
        else first_step hE hS released s r
    end.

  Fixpoint settle (fuel : nat) (hE : list nat) (hS : bool) (released : list nat) (s : st) : st :=
    match fuel with
    | O => s
    | S f => match first_step hE hS released s (cands s) with
             | Some s' => settle f hE hS released s'
             | None => s
             end
    end.

  Definition status_of (x : sst) : nat :=
    match x with SRet ROk => 1 | SRet RErr => 2 | SRet RPanic => 3 | _ => 0 end.

  (* driver state: model state, opened gates, for every Shutdown op whether it won the CAS *)
  (* wins: per Shutdown op 1 = it is the call that changes the state, 0 = its CAS fails at once,
     2 = its CAS will fail but it first queues for the lock behind the call that is waiting for it *)
  Record drv := mkdrv { ms : st; rel : list nat; wins : list nat; hE : list nat; hS : bool }.

  Definition apply_op (d : drv) (o : op) : drv :=
    let fuel := 12 * (next (ms d) + nw (ms d)) + 40 in
    let win := phase_eqb (ph (ms d)) PRunning && match sh (ms d) with ShIdle => true | _ => false end in
    let kind := if win then 1 else if is_locking (sh (ms d)) then 2 else 0 in
    (* a further Shutdown call while one is in progress does not move the one in progress *)
    let shut1 := match sh (ms d) with ShIdle => step' oracle (ms d) Shut | _ => ms d end in
    match o with
    | OExec => mkdrv (settle fuel (hE d) (hS d) (rel d) (step' oracle (ms d) Call)) (rel d) (wins d) (hE d) (hS d)
    | OExecHeld =>
        let h := next (ms d) :: hE d in
        mkdrv (settle fuel h (hS d) (rel d) (step' oracle (ms d) Call)) (rel d) (wins d) h (hS d)
    | OLetExec t =>
        let h := filter (fun x => negb (Nat.eqb x t)) (hE d) in
        mkdrv (settle fuel h (hS d) (rel d) (ms d)) (rel d) (wins d) h (hS d)
    | ORelease t => mkdrv (settle fuel (hE d) (hS d) (t :: rel d) (ms d)) (t :: rel d) (wins d) (hE d) (hS d)
    | OReleaseMany ts => mkdrv (settle fuel (hE d) (hS d) (ts ++ rel d) (ms d)) (ts ++ rel d) (wins d) (hE d) (hS d)
    | OShutdown =>
        mkdrv (settle fuel (hE d) (hS d) (rel d) shut1) (rel d) (wins d ++ [kind]) (hE d) (hS d)
    | OShutHeld =>
        (* only the call that wins the CAS gets as far as the point *)
        let h := hS d || win in
        mkdrv (settle fuel (hE d) h (rel d) shut1) (rel d) (wins d ++ [kind]) (hE d) h
    | OLetShut => mkdrv (settle fuel (hE d) false (rel d) (ms d)) (rel d) (wins d) (hE d) false
    end.

  Definition model_snap (d : drv) : snap :=
    let s := ms d in
    mksnap true
      (map (fun t => match subs s t with
                     | SPark => if mem t (hE d) then 6 else 0
                     | SCheck => if is_locking (sh s) then 7 else 0
                     | x => status_of x end) (seq 0 (next s)))
      (ran s ++ busy (ws s))
      (ran s)
      (length (filter (fun w => negb (is_exited w)) (ws s)))
      (map (fun w : nat => match w with
                           | 1 => match sh s with
                                  | ShDone => 1
                                  | ShCloseQ => if hS d then 2 else 0
                                  | _ => 0 end
                           | 2 => if is_locking (sh s) then 0 else 1
                           | _ => 1 end) (wins d)).

  (* compare one snapshot: exact order with a single worker, as sets otherwise *)
  Variable invis : list nat.      (* nil Runnables: the harness cannot see them start or end *)
  Definition cmp_snap (n : nat) (m o : snap) : verdict :=
    let vis := filter (fun t => negb (mem t invis)) in
    let norm := if Nat.eqb n 1 then vis else (fun l => sort (vis l)) in
    vjoin (check_that (nat_list_eqb (statuses m) (statuses o)) (VMismatch 1))
   (vjoin (check_that (nat_list_eqb (norm (started m)) (norm (started o))) (VMismatch 2))
   (vjoin (check_that (nat_list_eqb (norm (ended m)) (norm (ended o))) (VMismatch 3))
   (vjoin (check_that (Nat.eqb (alive m) (alive o)) (VMismatch 4))
          (check_that (nat_list_eqb (shuts m) (shuts o)) (VMismatch 5))))).

  Fixpoint compare (n : nat) (d : drv) (ops : list op) (obs : list snap) : verdict :=
    match ops, obs with
    | _, [] => VOk      (* the harness stops a script at a stuck executor *)
    | o :: ops', b :: obs' =>
        if settled b then
          let d' := apply_op d o in
          vjoin (cmp_snap n (model_snap d') b) (compare n d' ops' obs')
        else VOk        (* the harness could not establish quiescence in time: inconclusive, stop *)
    | _, _ => VBad
    end.
End Drive.

(* ---------- the property, evaluated on the observed snapshots of a script ---------- *)
Definition count (t : nat) (l : list nat) : nat := length (filter (Nat.eqb t) l).
Fixpoint nodup_b (l : list nat) : bool :=
  match l with [] => true | x :: r => negb (mem x r) && nodup_b r end.
Fixpoint ascending (l : list nat) : bool :=
  match l with x :: ((y :: _) as r) => Nat.ltb x y && ascending r | _ => true end.
Definition subset (a b : list nat) : bool := forallb (fun x => mem x b) a.
Fixpoint positions {A} (f : A -> bool) (i : nat) (l : list A) : list nat :=
  match l with [] => [] | x :: r => (if f x then [i] else []) ++ positions f (S i) r end.
Definition ok_tasks (b : snap) : list nat := positions (Nat.eqb 1) 0 (statuses b).

(* sentence 1: a call is stuck although the executor is running and there is room *)
Definition p_returns (n c : nat) (b : snap) : bool :=
  negb (mem 4 (statuses b)) &&
  (negb (mem 0 (statuses b)) ||
   let waiting := length (filter (fun t => negb (mem t (started b))) (ok_tasks b)) in
   let idle := alive b - (length (started b) - length (ended b)) in
   negb (Nat.ltb waiting c || Nat.ltb 0 idle)).

(* walk the snapshots.  [acc] = None while no effective Shutdown was issued, else
   (tasks whose Execute had returned nil before the first effective Shutdown op was issued,
    index of that op among the Shutdown ops); [nsh] counts Shutdown ops so far *)
Definition walk_one (n n_order c : nat) (o : op) (b : snap) (prev : option snap)
           (acc : option (list nat * nat)) (seen : bool) : verdict :=
  let before_shutdown := match acc with None => true | Some _ => false end in
  let returned (x : snap) :=
    match acc with Some (_, w) => Nat.eqb (nth w (shuts x) 0) 1 | None => false end in
  (* run at most once, only submitted tasks, ended only after started *)
  vjoin (check_that (nodup_b (started b) && nodup_b (ended b) && subset (ended b) (started b)
                     && forallb (fun t => Nat.ltb t (length (statuses b))) (started b)) (VPropFail 2))
 (vjoin (check_that (negb (mem 8 (statuses b))) (VPropFail 9))
 (vjoin (check_that (negb before_shutdown || p_returns n c b) (VPropFail 1))
 (vjoin (check_that (negb before_shutdown || negb (mem 2 (statuses b) || mem 3 (statuses b))) (VPropFail 6))
 (vjoin (check_that (negb (before_shutdown && seen) || mem 4 (statuses b) || Nat.eqb (alive b) n) (VPropFail 4))
 (vjoin (check_that (negb (Nat.eqb n_order 1) || ascending (started b)) (VPropFail 3))
 (vjoin (* Shutdown has returned: everything accepted before it began has run *)
        (check_that (negb (returned b)
                     || (match acc with Some (early, _) => subset early (ended b) | None => true end
                         (* every Execute that returned nil, whenever it did, has had its task run *)
                         && subset (ok_tasks b) (ended b))) (VPropFail 2))
 (vjoin (* ... nothing is running, all workers have exited *)
        (check_that (negb (returned b) || (Nat.eqb (alive b) 0 && subset (started b) (ended b))) (VPropFail 5))
        (* ... and nothing is started afterwards *)
 (vjoin (check_that (match prev with
                     | Some p => negb (returned p) || nat_list_eqb (sort (started p)) (sort (started b))
                     | None => true end) (VPropFail 5))
        (* Shutdown returns: the snapshot is quiescent (every goroutine parked), no task is running,
           yet the Shutdown that won has not returned: nothing can ever move again *)
        (check_that (before_shutdown || returned b || negb (subset (started b) (ended b))
                     || mem 6 (statuses b) || mem 2 (shuts b)   (* the harness itself holds a goroutine *)
                    ) (VPropFail 7)))))))))).

Fixpoint prop_walk (n n_order c : nat) (ops : list op) (obs : list snap) (prev : option snap)
         (acc : option (list nat * nat)) (nsh : nat) (seen : bool) : verdict :=
  match ops, obs with
  | o :: ops', b :: obs' =>
      if negb (settled b) then VOk else
      let acc' :=
        match acc, o, prev with
        | None, (OShutdown | OShutHeld), Some p =>
            (* the executor is running: some Execute has returned nil, or is past the state check *)
            if mem 1 (statuses p) || mem 6 (statuses p) || mem 0 (statuses p) || mem 10 (statuses p)
            then Some (ok_tasks p, nsh) else None
        | _, _, _ => acc
        end in
      let nsh' := match o with OShutdown | OShutHeld => S nsh | _ => nsh end in
      let seen' := seen || match o with OExec | OExecHeld => true | _ => false end in
      vjoin (walk_one n n_order c o b prev acc' seen') (prop_walk n n_order c ops' obs' (Some b) acc' nsh' seen')
  | _, _ => VOk
  end.

(* ---------- the property on a concurrent scenario ---------- *)
(* statuses: per call 1 nil / 2 error / 3 panic / 0 never returned (evidence: parked) / 5 unknown
   early:    per call 1 iff Execute had returned before Shutdown was invoked (sequence numbers
             from one atomic counter, so this is a happened-before fact, not a timing guess)
   runs:     per task how many times its body ran
   endedb:   per task 1 iff its (first) run ended before Shutdown returned
   alive:    worker goroutines left after Shutdown returned;  shutret: 1 iff Shutdown returned *)
Fixpoint zip3_all (f : nat -> nat -> nat -> bool) (a b c : list nat) : bool :=
  match a, b, c with
  | x :: a', y :: b', z :: c' => f x y z && zip3_all f a' b' c'
  | [], [], [] => true
  | _, _, _ => false
  end.

Definition check_conc (n : nat) (st_ early runs endedb : list nat)
           (alive_ shutret inconclusive maxinf nworkers orderok shutpending latestarts shutpanic : nat) : verdict :=
  if Nat.eqb inconclusive 1 then VOk else
  vjoin (check_that (forallb (fun r => Nat.leb r 1) runs) (VPropFail 2))
 (vjoin (check_that (negb (mem 4 st_)) (VPropFail 1))
 (vjoin (* the process died while tasks were running (child process): a panicking task got past run()'s recover *)
        (check_that (negb (mem 9 st_)) (VPropFail 4))
 (vjoin (* Execute returns: no call is still parked on the queue once Shutdown has returned *)
        (check_that (negb (Nat.eqb shutret 1) || negb (mem 0 st_)) (VPropFail 1))
 (vjoin (* no call ends in a runtime panic (send on closed channel, WaitGroup misuse ...) *)
        (check_that (negb (mem 8 st_) && Nat.eqb shutpanic 0) (VPropFail 9))
 (vjoin (* a call that came back before Shutdown was invoked came back with nil *)
        (check_that (zip3_all (fun e x _ => negb (Nat.eqb e 1) || Nat.eqb x 1) early st_ runs) (VPropFail 6))
 (vjoin (* EVERY Execute that returned nil => its task ran exactly once, before Shutdown returned *)
        (check_that (negb (Nat.eqb shutret 1)
                     || zip3_all (fun x r b => negb (Nat.eqb x 1) || (Nat.eqb r 1 && Nat.eqb b 1))
                                 st_ runs endedb) (VPropFail 2))
 (vjoin (check_that (negb (Nat.eqb shutret 1) || (Nat.eqb alive_ 0 && Nat.eqb latestarts 0)) (VPropFail 5))
 (vjoin (* never more tasks in flight than workers, never more goroutines running tasks than workers *)
        (check_that (Nat.leb maxinf n && Nat.leb nworkers n) (VPropFail 8))
 (vjoin (* one worker: each submitter's tasks start in the order it submitted them *)
        (check_that (negb (Nat.eqb n 1) || Nat.eqb orderok 1) (VPropFail 3))
        (* Shutdown of a running executor parked for good (all goroutines parked, tasks cannot block) *)
        (check_that (negb (Nat.eqb shutpending 1)) (VPropFail 7))))))))))).

Definition check (c : sx) : verdict :=
  match c with
  | SList [SList [SInt 0%Z; n; cp; SList ks0; SList os]; SList obs] =>
      match nat_of n, nat_of cp, map_opt kind_of ks0, map_opt op_of os, map_opt snap_of obs with
      | Some n, Some cp, Some ks, Some os, Some obs =>
          let n := Nat.max 1 n in
          (* a held Execute queues its task later than the calls made after it: the order of the
             ids is then not the submission order (the model comparison still checks the exact order) *)
          let n_order := if existsb (fun o => match o with OExecHeld => true | _ => false end) os then 0 else n in
          (* nil Runnables are accepted and run (a recovered panic) but have no body the harness
             could see: they are taken out of the accepted set of the property walk (status 10), and the
             "blocked although the queue has room" rule, which counts queued tasks, is not applied *)
          let invis := positions (fun x => x) 0 (map invisible_of ks0) in
          let hide := fun b : snap =>
            mksnap (settled b)
                   (map (fun p => if mem (fst p) invis && Nat.eqb (snd p) 1 then 10 else snd p)
                        (combine (seq 0 (length (statuses b))) (statuses b)))
                   (started b) (ended b) (alive b) (shuts b) in
          let cp' := match invis with [] => cp | _ => 0 end in
          vjoin (prop_walk n n_order cp' os (map hide obs) None None 0 false)
                (compare ks invis n (mkdrv (init n cp) [] [] [] false) os obs)
      | _, _, _, _, _ => VBad
      end
  | SList [SList (SInt 1%Z :: n :: _); SList [a; b; c'; d; SList rest]] =>
      match nat_of n, nats_of a, nats_of b, nats_of c', nats_of d, map_opt nat_of rest with
      | Some n, Some a, Some b, Some c', Some d, Some [e; f; g; h; i; j; k; l; m] =>
          check_conc (Nat.max 1 n) a b c' d e f g h i j k l m
      | _, _, _, _, _, _ => VBad
      end
  | _ => VBad
  end.
