(* C18 — proofs about the executor transition system.
   Everything here is quantified over ALL schedules (lists of choices, of any length), all
   numbers of workers, capacities and task outcomes. *)
From Coq Require Import List Arith Bool Lia Permutation.
From FV Require Import C18.Model.
Import ListNotations.

(* ------------------------------------------------------------------ generalities *)

Lemma run_app o s a b : run o s (a ++ b) = run o (run o s a) b.
Proof. revert s; induction a as [|c a IH]; intros s; simpl; [reflexivity | apply IH]. Qed.

Lemma run_inv o (P : st -> Prop) :
  (forall s c s', P s -> step o s c = Some s' -> P s') ->
  forall cs s, P s -> P (run o s cs).
Proof.
  intros Hstep cs; induction cs as [|c cs IH]; intros s Hs; simpl; [exact Hs|].
  apply IH. unfold step'. destruct (step o s c) eqn:E; [eapply Hstep; eauto | exact Hs].
Qed.

Lemma phase_eqb_eq a b : phase_eqb a b = true <-> a = b.
Proof. destruct a, b; simpl; split; intros H; try reflexivity; try discriminate. Qed.
Lemma phase_eqb_neq a b : phase_eqb a b = false <-> a <> b.
Proof. destruct a, b; simpl; split; intros H; try reflexivity; try discriminate; try congruence. Qed.

Lemma mem_In t l : mem t l = true <-> In t l.
Proof.
  unfold mem. rewrite existsb_exists. split.
  - intros [x [Hx E]]. apply Nat.eqb_eq in E. subst. exact Hx.
  - intros H. exists t. split; [exact H | apply Nat.eqb_refl].
Qed.
Lemma mem_nIn t l : mem t l = false <-> ~ In t l.
Proof. rewrite <- mem_In. destruct (mem t l); split; congruence. Qed.

Lemma upd_same f i x : upd f i x i = x.
Proof. unfold upd. rewrite Nat.eqb_refl. reflexivity. Qed.
Lemma upd_other f i x k : k <> i -> upd f i x k = f k.
Proof. intros H. unfold upd. apply Nat.eqb_neq in H. rewrite H. reflexivity. Qed.

(* worker list *)
Lemma setw_length j x l : length (setw j x l) = length l.
Proof. revert j; induction l as [|w l IH]; intros [|j]; simpl; auto. Qed.

Lemma setw_In j x l w : In w (setw j x l) -> w = x \/ In w l.
Proof.
  revert j; induction l as [|a l IH]; intros [|j]; simpl; auto.
  - intros [H|H]; auto.
  - intros [H|H]; auto. destruct (IH _ H); auto.
Qed.

Lemma setw_Forall (P : wst -> Prop) j x l : Forall P l -> P x -> Forall P (setw j x l).
Proof.
  intros Hl Hx. apply Forall_forall. intros w Hw. apply setw_In in Hw.
  destruct Hw as [->|Hw]; [exact Hx | eapply Forall_forall; eauto].
Qed.

Lemma nth_lt j l w : nth j l WExited = w -> w <> WExited -> j < length l.
Proof.
  intros H Hw. destruct (Nat.lt_ge_cases j (length l)) as [?|Hge]; [assumption|].
  rewrite nth_overflow in H by exact Hge. congruence.
Qed.

Lemma nth_In_w j l w : nth j l WExited = w -> w <> WExited -> In w l.
Proof. intros H Hw. rewrite <- H. apply nth_In. eapply nth_lt; eauto. Qed.

Lemma busy_setw j x l : j < length l ->
  Permutation (busy1 (nth j l WExited) ++ busy (setw j x l)) (busy1 x ++ busy l).
Proof.
  revert j; induction l as [|w l IH]; intros j Hj; simpl in Hj; [lia|].
  destruct j as [|j]; simpl.
  - unfold busy; simpl. fold (busy l). apply Permutation_app_swap_app.
  - unfold busy; simpl. fold (busy l) (busy (setw j x l)).
    rewrite Permutation_app_swap_app. rewrite (IH j) by lia.
    apply Permutation_app_swap_app.
Qed.

Lemma busy_exited l : Forall (fun w => w = WExited) l -> busy l = [].
Proof. induction 1 as [|w l Hw _ IH]; [reflexivity|]. subst. unfold busy in *. simpl. exact IH. Qed.

Lemma forallb_exited l : forallb is_exited l = true <-> Forall (fun w => w = WExited) l.
Proof.
  rewrite forallb_forall, Forall_forall. split; intros H w Hw; specialize (H w Hw).
  - destruct w; simpl in H; congruence.
  - subst; reflexivity.
Qed.

(* ------------------------------------------------------------------ case analysis of a step *)

Ltac step_cases H :=
  match type of H with
  | step ?o ?s ?c = Some ?s' =>
      destruct c as [|t|j|j|j|j|j| | | ]; cbn [step] in H;
      [ idtac
      | destruct (subs s t) eqn:Esub; try discriminate H;
        [ destruct (ph s) eqn:Eph
        | destruct (phase_eqb (ph s) PInit) eqn:Eph;
          [apply phase_eqb_eq in Eph | apply phase_eqb_neq in Eph]
        | idtac
        | idtac
        | destruct (is_locking (sh s) || negb (Nat.eqb (pendw s) 0)) eqn:Elk; try discriminate H;
          destruct (phase_eqb (ph s) PRunning) eqn:Eph;
          [apply phase_eqb_eq in Eph | apply phase_eqb_neq in Eph]
        | destruct (closed s) eqn:Ecl
        | destruct (mem t (bounced s)) eqn:Emb;
          [ | destruct (mem t (skipn (cap s) (queue s))) eqn:Emq; try discriminate H ] ]
      | destruct (nth j (ws s) WExited) eqn:Ew; try discriminate H;
        destruct (queue s) as [|t0 q0] eqn:Eq; try discriminate H
      | destruct (nth j (ws s) WExited) eqn:Ew; try discriminate H;
        destruct (dn s) eqn:Edn; try discriminate H
      | destruct (nth j (ws s) WExited) eqn:Ew; try discriminate H
      | destruct (nth j (ws s) WExited) eqn:Ew; try discriminate H;
        destruct (queue s) as [|t0 q0] eqn:Eq; try discriminate H
      | destruct (nth j (ws s) WExited) eqn:Ew; try discriminate H;
        destruct (queue s) as [|t0 q0] eqn:Eq; try discriminate H
      | destruct (sh s) eqn:Esh;
        [ destruct (phase_eqb (ph s) PRunning) eqn:Eph;
          [apply phase_eqb_eq in Eph | apply phase_eqb_neq in Eph]
        | destruct (forallb (fun t => negb (is_reader (subs s t))) (seq 0 (next s))) eqn:Erd;
          try discriminate H
        | idtac
        | destruct (forallb is_exited (ws s)) eqn:Eall; try discriminate H
        | idtac | idtac | idtac ]
      | idtac
      | destruct (pendw s) as [|pw] eqn:Epw; try discriminate H;
        destruct (forallb (fun t => negb (is_reader (subs s t))) (seq 0 (next s))) eqn:Erd;
        try discriminate H;
        destruct (phase_eqb (ph s) PRunning) eqn:Eph;
        [apply phase_eqb_eq in Eph | apply phase_eqb_neq in Eph] ];
      inversion H; subst s'; clear H
  end.

Lemma step_cases_count o s c s' : step o s c = Some s' -> True.
Proof. intros H. step_cases H; exact I. Qed.

(* ------------------------------------------------------------------ invariant A: control state *)

Definition starter (x : sst) : bool := match x with SSpawn | SSetRun => true | _ => false end.
Definition past_check (x : sst) : bool :=
  match x with SCheck | SPark | SParked | SRet ROk => true | _ => false end.
Definition post (w : wst) : bool := match w with WDrain | WDBusy _ | WExited => true | _ => false end.
Definition started_ph (p : phase) : bool :=
  match p with PRunning | PShutdown | PTerminated => true | _ => false end.
Definition alive_w (w : wst) : Prop := w = WIdle \/ exists t, w = WBusy t.
Definition sh_ph_ok (x : shst) (p : phase) : Prop :=
  match x with
  | ShIdle => p = PInit \/ p = PStarted \/ p = PRunning
  | ShLocking => p = PRunning
  | ShDone => p = PTerminated
  | _ => p = PShutdown
  end.
Definition dn_of (x : shst) : bool := match x with ShIdle | ShLocking | ShClose => false | _ => true end.
Definition closed_of (x : shst) : bool := match x with ShSetTerm | ShDone => true | _ => false end.
Definition joined (x : shst) : bool := match x with ShCloseQ | ShSetTerm | ShDone => true | _ => false end.

Record InvA (s : st) : Prop := mkA {
  a_none : forall t, next s <= t -> subs s t = SNone;
  a_starter_ph : forall t, starter (subs s t) = true -> ph s = PStarted;
  a_starter_uniq : forall t t', starter (subs s t) = true -> starter (subs s t') = true -> t = t';
  a_sh_ph : sh_ph_ok (sh s) (ph s);
  a_dn_sh : dn s = dn_of (sh s);
  a_ws_started : started_ph (ph s) = true -> length (ws s) = nw s;
  a_ws_init : ph s = PInit -> ws s = [];
  a_spawn : forall t, subs s t = SSpawn -> ws s = [];
  a_setrun : forall t, subs s t = SSetRun -> length (ws s) = nw s;
  a_nw : 1 <= nw s;
  a_closed_sh : closed s = closed_of (sh s);
  a_exited : joined (sh s) = true -> Forall (fun w => w = WExited) (ws s);
  a_past : forall t, past_check (subs s t) = true -> started_ph (ph s) = true;
  a_bounced : closed s = false -> bounced s = [];
  a_alive : dn s = false -> Forall alive_w (ws s);
  a_post : forall w, In w (ws s) -> post w = true -> dn s = true
}.

Lemma InvA_init n c : InvA (init n c).
Proof.
  constructor; cbn [init ph nw cap queue closed dn ws subs sh next bounced]; intros;
  try reflexivity; try discriminate; try contradiction; auto; try apply Nat.le_max_l.
  simpl; auto.
Qed.

(* a call that is under way has an id below [next] *)
Lemma live_lt s t : InvA s -> subs s t <> SNone -> t < next s.
Proof.
  intros I H. destruct (Nat.lt_ge_cases t (next s)) as [?|Hge]; [assumption|].
  exfalso. apply H. apply (a_none _ I). exact Hge.
Qed.

Ltac upd_split k t :=
  unfold upd; let E := fresh "E" in
  destruct (Nat.eqb k t) eqn:E; [apply Nat.eqb_eq in E; try subst k | apply Nat.eqb_neq in E].

Lemma stepA_none o s c s' : InvA s -> step o s c = Some s' ->
  forall k, next s' <= k -> subs s' k = SNone.
Proof.
  intros I H. step_cases H; simpl; intros k Hk;
  try (apply (a_none _ I); lia);
  try (upd_split k t;
       [ exfalso; assert (t < next s) by (apply (live_lt _ _ I); congruence); lia
       | apply (a_none _ I); assumption ]).
  upd_split k (next s); [lia | apply (a_none _ I); lia].
Qed.

Lemma sh_ph_started s : InvA s -> ph s = PStarted -> sh s = ShIdle.
Proof. intros I E. pose proof (a_sh_ph _ I) as H. rewrite E in H. destruct (sh s); simpl in H; try discriminate; auto. Qed.

Lemma sh_ph_running s : InvA s -> ph s = PRunning -> sh s = ShIdle \/ sh s = ShLocking.
Proof. intros I E. pose proof (a_sh_ph _ I) as H. rewrite E in H. destruct (sh s); simpl in H; try discriminate; auto. Qed.

Lemma sh_ph_init s : InvA s -> ph s = PInit -> sh s = ShIdle.
Proof. intros I E. pose proof (a_sh_ph _ I) as H. rewrite E in H. destruct (sh s); simpl in H; try discriminate; auto. Qed.

Lemma stepA_starter_ph o s c s' : InvA s -> step o s c = Some s' ->
  forall k, starter (subs s' k) = true -> ph s' = PStarted.
Proof.
  intros I H. step_cases H; simpl; intros k Hk; try reflexivity;
  try (apply (a_starter_ph _ I k); assumption);
  try (revert Hk; upd_split k t; simpl; intros Hk; try discriminate Hk;
       try (apply (a_starter_ph _ I k); assumption);
       try (apply (a_starter_ph _ I t); rewrite Esub; reflexivity)).
  - revert Hk; upd_split k (next s); simpl; intros Hk; try discriminate Hk.
    apply (a_starter_ph _ I k); assumption.
  - exfalso. apply E. apply (a_starter_uniq _ I); [assumption | rewrite Esub; reflexivity].
  - pose proof (a_starter_ph _ I k Hk). pose proof (a_sh_ph _ I) as P. rewrite Esh in P. simpl in P. congruence.
  - pose proof (a_starter_ph _ I k Hk). pose proof (a_sh_ph _ I) as P. rewrite Esh in P. simpl in P. congruence.
  - pose proof (a_starter_ph _ I k Hk). congruence.
Qed.

Lemma stepA_starter_uniq o s c s' : InvA s -> step o s c = Some s' ->
  forall k k', starter (subs s' k) = true -> starter (subs s' k') = true -> k = k'.
Proof.
  intros I H.
  assert (U := a_starter_uniq _ I). assert (P := a_starter_ph _ I).
  step_cases H; simpl; intros k k' Hk Hk'; try (apply U; assumption);
  try (revert Hk Hk'; upd_split k t; upd_split k' t; simpl; intros Hk Hk';
       try discriminate Hk; try discriminate Hk'; try reflexivity; try congruence;
       try (apply U; assumption)).
  - revert Hk Hk'; upd_split k (next s); upd_split k' (next s); simpl; intros Hk Hk';
    try discriminate; try congruence. apply U; assumption.
  - pose proof (P k' Hk'). congruence.
  - pose proof (P k Hk). congruence.
  - exfalso. match goal with Hne : _ <> t |- _ => apply Hne end.
    apply U; [assumption | rewrite Esub; reflexivity].
  - exfalso. match goal with Hne : _ <> t |- _ => apply Hne end.
    apply U; [assumption | rewrite Esub; reflexivity].
Qed.

Lemma stepA_sh_ph o s c s' : InvA s -> step o s c = Some s' -> sh_ph_ok (sh s') (ph s').
Proof.
  intros I H. assert (P := a_sh_ph _ I).
  step_cases H; simpl; try exact P; try (rewrite Esh in P; exact P); try (rewrite Eph; exact P);
  try (rewrite Esh; exact P); auto.
  - rewrite (sh_ph_init _ I Eph). simpl. auto.
  - assert (ph s = PStarted) by (apply (a_starter_ph _ I t); rewrite Esub; reflexivity).
    rewrite (sh_ph_started _ I H). simpl. auto.
Qed.

Lemma stepA_dn_sh o s c s' : InvA s -> step o s c = Some s' -> dn s' = dn_of (sh s').
Proof.
  intros I H. assert (P := a_dn_sh _ I).
  step_cases H; simpl; try exact P; try (rewrite Esh in P; exact P); try (rewrite Esh; exact P); auto;
  try (simpl in P; congruence);
  try (rewrite P; destruct (sh_ph_running _ I Eph) as [X|X]; rewrite X; reflexivity).
Qed.

Lemma stepA_closed_sh o s c s' : InvA s -> step o s c = Some s' -> closed s' = closed_of (sh s').
Proof.
  intros I H. assert (P := a_closed_sh _ I).
  step_cases H; simpl; try exact P; try (rewrite Esh in P; exact P); try (rewrite Esh; exact P); auto;
  try (simpl in P; congruence);
  try (rewrite P; destruct (sh_ph_running _ I Eph) as [X|X]; rewrite X; reflexivity).
Qed.

Lemma stepA_nw o s c s' : InvA s -> step o s c = Some s' -> 1 <= nw s'.
Proof. intros I H. assert (P := a_nw _ I). step_cases H; simpl; exact P. Qed.

Lemma stepA_ws_started o s c s' : InvA s -> step o s c = Some s' ->
  started_ph (ph s') = true -> length (ws s') = nw s'.
Proof.
  intros I H.
  step_cases H; pose proof (a_ws_started _ I) as P; pose proof (a_sh_ph _ I) as Q;
  simpl; intros Hp; rewrite ?setw_length, ?repeat_length; try reflexivity;
  try (apply P; assumption); try discriminate Hp;
  try (apply P; rewrite Eph; reflexivity);
  try (rewrite Esh in Q; simpl in Q; apply P; rewrite Q; reflexivity).
  - apply (a_setrun _ I t Esub).
Qed.

Lemma stepA_ws_init o s c s' : InvA s -> step o s c = Some s' -> ph s' = PInit -> ws s' = [].
Proof.
  intros I H.
  step_cases H; pose proof (a_ws_init _ I) as P; pose proof (a_sh_ph _ I) as Q;
  simpl; intros Hp; try (apply P; assumption); try discriminate Hp;
  try (exfalso; assert (Hl : j < length (ws s)) by (eapply nth_lt; [eassumption | discriminate]);
       rewrite (P Hp) in Hl; simpl in Hl; lia).
  - exfalso. assert (ph s = PStarted) by (apply (a_starter_ph _ I t); rewrite Esub; reflexivity). congruence.
Qed.

Ltac no_worker s j :=
  exfalso; assert (Hl : j < length (ws s)) by (eapply nth_lt; [eassumption | discriminate]);
  match goal with Hz : ws s = [] |- _ => rewrite Hz in Hl; simpl in Hl; lia end.

Lemma stepA_spawn o s c s' : InvA s -> step o s c = Some s' ->
  forall k, subs s' k = SSpawn -> ws s' = [].
Proof.
  intros I H.
  step_cases H; pose proof (a_spawn _ I) as P; simpl; intros k Hk;
  try (apply (P k); assumption);
  try (pose proof (P k Hk) as Hz; no_worker s j);
  try (revert Hk; upd_split k t; intros Hk; try discriminate Hk; try (apply (P k); assumption)).
  - revert Hk; upd_split k (next s); intros Hk; try discriminate Hk. apply (P k); assumption.
  - apply (a_ws_init _ I Eph).
  - exfalso. match goal with Hne : _ <> t |- _ => apply Hne end.
    apply (a_starter_uniq _ I); [rewrite Hk | rewrite Esub]; reflexivity.
Qed.

Lemma stepA_setrun o s c s' : InvA s -> step o s c = Some s' ->
  forall k, subs s' k = SSetRun -> length (ws s') = nw s'.
Proof.
  intros I H.
  step_cases H; pose proof (a_setrun _ I) as P; simpl; intros k Hk;
  rewrite ?setw_length, ?repeat_length; try reflexivity;
  try (apply (P k); assumption);
  try (revert Hk; upd_split k t; intros Hk; try discriminate Hk; try (apply (P k); assumption)).
  - revert Hk; upd_split k (next s); intros Hk; try discriminate Hk. apply (P k); assumption.
Qed.

Lemma stepA_exited o s c s' : InvA s -> step o s c = Some s' ->
  joined (sh s') = true -> Forall (fun w => w = WExited) (ws s').
Proof.
  intros I H.
  step_cases H; pose proof (a_exited _ I) as P; simpl; intros Hj;
  try (apply P; assumption); try discriminate Hj;
  try (exfalso; specialize (P Hj); rewrite Forall_forall in P;
       assert (Hin : In (nth j (ws s) WExited) (ws s))
         by (eapply nth_In_w; [reflexivity | rewrite Ew; discriminate]);
       specialize (P _ Hin); rewrite Ew in P; discriminate P).
  - exfalso. assert (E : ph s = PStarted) by (apply (a_starter_ph _ I t); rewrite Esub; reflexivity).
    rewrite (sh_ph_started _ I E) in Hj. discriminate Hj.
  - apply forallb_exited. exact Eall.
  - apply P. rewrite Esh. reflexivity.
  - apply P. rewrite Esh. reflexivity.
Qed.

Lemma old_worker_dn s j w : InvA s -> nth j (ws s) WExited = w -> w <> WExited -> post w = true -> dn s = true.
Proof. intros I E Hw Hp. apply (a_post _ I w); [eapply nth_In_w; eauto | exact Hp]. Qed.

Lemma stepA_alive o s c s' : InvA s -> step o s c = Some s' ->
  dn s' = false -> Forall alive_w (ws s').
Proof.
  intros I H.
  step_cases H; pose proof (a_alive _ I) as P; simpl; intros Hd;
  try (apply P; assumption); try discriminate Hd;
  try (apply setw_Forall; [apply P; assumption | unfold alive_w; eauto]);
  try (exfalso; assert (dn s = true) by (eapply old_worker_dn; eauto; discriminate); congruence).
  - apply Forall_forall. intros w Hw. apply repeat_spec in Hw. subst. left. reflexivity.
Qed.

Lemma stepA_post o s c s' : InvA s -> step o s c = Some s' ->
  forall w, In w (ws s') -> post w = true -> dn s' = true.
Proof.
  intros I H.
  step_cases H; pose proof (a_post _ I) as P; simpl; intros w Hw Hp;
  try (eapply P; eassumption); try reflexivity;
  try (apply setw_In in Hw; destruct Hw as [->|Hw]; [try discriminate Hp | eapply P; eassumption]);
  try (eapply old_worker_dn; eauto; discriminate).
  - apply repeat_spec in Hw. subst. discriminate Hp.
  - exact Edn.
Qed.

Lemma stepA_past o s c s' : InvA s -> step o s c = Some s' ->
  forall k, past_check (subs s' k) = true -> started_ph (ph s') = true.
Proof.
  intros I H.
  step_cases H; pose proof (a_past _ I) as P; simpl; intros k Hk; try reflexivity;
  try (apply (P k); assumption);
  try (revert Hk; upd_split k t; simpl; intros Hk; try discriminate Hk;
       try (apply (P k); assumption);
       try (apply (P t); rewrite Esub; reflexivity);
       try (rewrite Eph; reflexivity)).
  - revert Hk; upd_split k (next s); simpl; intros Hk; try discriminate Hk. apply (P k); assumption.
  - pose proof (P k Hk) as Q. rewrite Eph in Q. discriminate Q.
Qed.

Lemma stepA_bounced o s c s' : InvA s -> step o s c = Some s' -> closed s' = false -> bounced s' = [].
Proof.
  intros I H.
  step_cases H; pose proof (a_bounced _ I) as P; simpl; intros Hc;
  try (apply P; assumption); try discriminate Hc.
Qed.

Lemma step_InvA o s c s' : InvA s -> step o s c = Some s' -> InvA s'.
Proof.
  intros I H. constructor.
  - eapply stepA_none; eauto.
  - eapply stepA_starter_ph; eauto.
  - eapply stepA_starter_uniq; eauto.
  - eapply stepA_sh_ph; eauto.
  - eapply stepA_dn_sh; eauto.
  - eapply stepA_ws_started; eauto.
  - eapply stepA_ws_init; eauto.
  - eapply stepA_spawn; eauto.
  - eapply stepA_setrun; eauto.
  - eapply stepA_nw; eauto.
  - eapply stepA_closed_sh; eauto.
  - eapply stepA_exited; eauto.
  - eapply stepA_past; eauto.
  - eapply stepA_bounced; eauto.
  - eapply stepA_alive; eauto.
  - eapply stepA_post; eauto.
Qed.

Theorem reach_InvA o n c cs : InvA (run o (init n c) cs).
Proof. apply run_inv; [intros; eapply step_InvA; eauto | apply InvA_init]. Qed.

(* ------------------------------------------------------------------ invariant B: accounting *)

Record InvB (s : st) : Prop := mkB {
  b_perm : Permutation (entered s) (ran s ++ busy (ws s) ++ queue s ++ bounced s);
  b_nodup : NoDup (entered s);
  b_entered_pc : forall t, In t (entered s) -> subs s t = SParked \/ exists r, subs s t = SRet r;
  b_early_entered : forall t, In t (early s) -> In t (entered s);
  b_late_q : In WExited (ws s) -> forall t, In t (queue s) -> ~ In t (early s);
  b_late_b : forall t, In t (bounced s) -> ~ In t (early s);
  b_all_early : sh s = ShIdle -> forall t, In t (entered s) -> In t (early s);
  b_ret_entered : forall t, subs s t = SParked \/ subs s t = SRet ROk -> In t (entered s)
}.

Lemma InvB_init n c : InvB (init n c).
Proof.
  constructor; simpl; intros; try contradiction; auto; try constructor.
  destruct H; discriminate.
Qed.

Lemma busy_repeat n : busy (repeat WIdle n) = [].
Proof. induction n; [reflexivity | unfold busy in *; simpl; exact IHn]. Qed.

Lemma busy_take j x l : nth j l WExited <> WExited -> busy1 (nth j l WExited) = [] ->
  Permutation (busy (setw j x l)) (busy1 x ++ busy l).
Proof.
  intros Hw Hb. pose proof (busy_setw j x l) as P. rewrite Hb in P. simpl in P.
  apply P. eapply nth_lt; [reflexivity | exact Hw].
Qed.

Lemma busy_finish j x l t : nth j l WExited <> WExited -> busy1 (nth j l WExited) = [t] -> busy1 x = [] ->
  Permutation (t :: busy (setw j x l)) (busy l).
Proof.
  intros Hw Hb Hx. pose proof (busy_setw j x l) as P. rewrite Hb, Hx in P. simpl in P.
  apply P. eapply nth_lt; [reflexivity | exact Hw].
Qed.

Lemma In_firstn {A} n (l : list A) x : In x (firstn n l) -> In x l.
Proof. revert n; induction l as [|a l IH]; intros [|n]; simpl; try tauto. intros [H|H]; auto. right. eapply IH; eauto. Qed.
Lemma In_skipn {A} n (l : list A) x : In x (skipn n l) -> In x l.
Proof. revert n; induction l as [|a l IH]; intros [|n]; simpl; try tauto. intros H. right. eapply IH; eauto. Qed.

Lemma not_entered s t : InvB s -> (forall r, subs s t <> SRet r) -> subs s t <> SParked -> ~ In t (entered s).
Proof.
  intros B H1 H2 Hin. destruct (b_entered_pc _ B t Hin) as [E|[r E]]; [exact (H2 E) | exact (H1 r E)].
Qed.

Lemma stepB_perm o s c s' : InvA s -> InvB s -> step o s c = Some s' ->
  Permutation (entered s') (ran s' ++ busy (ws s') ++ queue s' ++ bounced s').
Proof.
  intros I B H.
  step_cases H; pose proof (b_perm _ B) as P; simpl; try exact P.
  - (* spawn *) rewrite busy_repeat. rewrite (a_spawn _ I t Esub) in P. exact P.
  - (* park *) rewrite P. rewrite <- !app_assoc. rewrite !app_assoc. rewrite <- app_assoc.
    repeat rewrite <- app_assoc.
    apply Permutation_app_head. apply Permutation_app_head. apply Permutation_app_head.
    apply Permutation_app_comm.
  - (* take *) rewrite busy_take by (rewrite Ew; first [discriminate | reflexivity]).
    rewrite Eq in P. rewrite P. apply Permutation_app_head. simpl.
    symmetry. apply Permutation_middle.
  - (* see done *) rewrite busy_take by (rewrite Ew; first [discriminate | reflexivity]). exact P.
  - (* finish *) rewrite <- app_assoc. simpl.
    rewrite P. apply Permutation_app_head.
    rewrite <- (busy_finish j WIdle (ws s) t) by first [rewrite Ew; first [discriminate | reflexivity] | reflexivity].
    reflexivity.
  - rewrite <- app_assoc. simpl.
    rewrite P. apply Permutation_app_head.
    rewrite <- (busy_finish j WDrain (ws s) t) by first [rewrite Ew; first [discriminate | reflexivity] | reflexivity].
    reflexivity.
  - (* drain take *) rewrite busy_take by (rewrite Ew; first [discriminate | reflexivity]).
    rewrite Eq in P. rewrite P. apply Permutation_app_head. simpl.
    symmetry. apply Permutation_middle.
  - (* drain empty *) rewrite busy_take by (rewrite Ew; first [discriminate | reflexivity]). exact P.
  - (* close *) rewrite P. apply Permutation_app_head. apply Permutation_app_head.
    rewrite <- (firstn_skipn (cap s) (queue s)) at 1. rewrite <- app_assoc.
    apply Permutation_app_head. apply Permutation_app_comm.
Qed.

Lemma spark_not_entered s t : InvB s -> subs s t = SPark -> ~ In t (entered s).
Proof. intros B E. apply not_entered; [exact B | intros r; rewrite E; discriminate | rewrite E; discriminate]. Qed.

Lemma stepB_nodup o s c s' : InvA s -> InvB s -> step o s c = Some s' -> NoDup (entered s').
Proof.
  intros I B H.
  step_cases H; pose proof (b_nodup _ B) as P; simpl; try exact P.
  apply (Permutation_NoDup (l := t :: entered s)); [apply Permutation_cons_append|].
  constructor; [apply spark_not_entered; assumption | exact P].
Qed.

Lemma stepB_entered_pc o s c s' : InvA s -> InvB s -> step o s c = Some s' ->
  forall k, In k (entered s') -> subs s' k = SParked \/ exists r, subs s' k = SRet r.
Proof.
  intros I B H.
  step_cases H; pose proof (b_entered_pc _ B) as P; simpl; intros k Hk;
  try (apply P; assumption);
  try (upd_split k t; [ | apply P; assumption];
       first [ right; eexists; reflexivity
             | left; reflexivity
             | exfalso; destruct (P t Hk) as [E1|[r E1]]; rewrite Esub in E1; discriminate E1 ]).
  - upd_split k (next s); [ | apply P; assumption].
    exfalso. destruct (P _ Hk) as [E1|[r E1]]; rewrite (a_none _ I) in E1 by lia; discriminate E1.
  - (* park *) upd_split k t; [left; reflexivity|].
    apply in_app_or in Hk. destruct Hk as [Hk|[Hk|[]]]; [apply P; assumption | congruence].
Qed.

Lemma stepB_early_entered o s c s' : InvA s -> InvB s -> step o s c = Some s' ->
  forall k, In k (early s') -> In k (entered s').
Proof.
  intros I B H.
  step_cases H; pose proof (b_early_entered _ B) as P; simpl; intros k Hk; try (apply P; assumption).
  apply in_or_app. destruct (phase_eqb (ph s) PRunning).
  - destruct Hk as [->|Hk]; [right; left; reflexivity | left; apply P; assumption].
  - left; apply P; assumption.
Qed.

Lemma exited_not_running s : InvA s -> In WExited (ws s) -> ph s <> PRunning.
Proof.
  intros I Hin E. assert (D : dn s = true) by (apply (a_post _ I WExited Hin); reflexivity).
  rewrite (a_dn_sh _ I) in D. destruct (sh_ph_running _ I E) as [X|X]; rewrite X in D; discriminate D.
Qed.

Lemma stepB_late_q o s c s' : InvA s -> InvB s -> step o s c = Some s' ->
  In WExited (ws s') -> forall k, In k (queue s') -> ~ In k (early s').
Proof.
  intros I B H.
  step_cases H; pose proof (b_late_q _ B) as P; simpl; intros Hex k Hk;
  try (apply P; assumption);
  try (apply setw_In in Hex; destruct Hex as [Hex|Hex]; [discriminate Hex|]);
  try (apply P; [assumption | rewrite Eq; right; assumption]);
  try (apply P; assumption); try contradiction; try (rewrite Eq in Hk; contradiction).
  - apply repeat_spec in Hex. discriminate Hex.
  - (* park *) pose proof (exited_not_running _ I Hex) as Hn. apply phase_eqb_neq in Hn. rewrite Hn.
    apply in_app_or in Hk. destruct Hk as [Hk|[<-|[]]]; [apply P; assumption|].
    intros He. apply (spark_not_entered _ _ B Esub). apply (b_early_entered _ B). exact He.
  - (* close *) apply P; [assumption | eapply In_firstn; eauto].
Qed.

Lemma joined_has_exited s : InvA s -> joined (sh s) = true -> In WExited (ws s).
Proof.
  intros I J. pose proof (a_exited _ I J) as F.
  assert (L : length (ws s) = nw s).
  { apply (a_ws_started _ I). pose proof (a_sh_ph _ I) as Q.
    destruct (sh s); simpl in J; try discriminate J; simpl in Q; rewrite Q; reflexivity. }
  pose proof (a_nw _ I) as N. destruct (ws s) as [|w l]; [simpl in L; lia|].
  inversion F; subst. left; reflexivity.
Qed.

Lemma stepB_late_b o s c s' : InvA s -> InvB s -> step o s c = Some s' ->
  forall k, In k (bounced s') -> ~ In k (early s').
Proof.
  intros I B H.
  step_cases H; pose proof (b_late_b _ B) as P; simpl; intros k Hk; try (apply P; assumption).
  - (* park: nothing was bounced yet *)
    rewrite (a_bounced _ I Ecl) in Hk. contradiction.
  - (* close *) apply in_app_or in Hk. destruct Hk as [Hk|Hk]; [apply P; assumption|].
    apply (b_late_q _ B); [apply joined_has_exited; [assumption | rewrite Esh; reflexivity] | eapply In_skipn; eauto].
Qed.

Lemma stepB_all_early o s c s' : InvA s -> InvB s -> step o s c = Some s' ->
  sh s' = ShIdle -> forall k, In k (entered s') -> In k (early s').
Proof.
  intros I B H.
  step_cases H; pose proof (b_all_early _ B) as P; simpl; intros Hs k Hk;
  try (apply P; assumption); try discriminate Hs.
  - (* park *)
    assert (R : ph s = PRunning).
    { pose proof (a_past _ I t) as Q. rewrite Esub in Q. specialize (Q eq_refl).
      pose proof (a_sh_ph _ I) as S. rewrite Hs in S. simpl in S.
      destruct S as [S|[S|S]]; rewrite S in Q; try discriminate Q; exact S. }
    rewrite R. simpl. apply in_app_or in Hk.
    destruct Hk as [Hk|[<-|[]]]; [right; apply P; assumption | left; reflexivity].
Qed.

Lemma stepB_ret_entered o s c s' : InvA s -> InvB s -> step o s c = Some s' ->
  forall k, subs s' k = SParked \/ subs s' k = SRet ROk -> In k (entered s').
Proof.
  intros I B H.
  step_cases H; pose proof (b_ret_entered _ B) as P; simpl; intros k Hk;
  try (apply P; assumption);
  try (revert Hk; upd_split k t; intros Hk;
       [ destruct Hk as [Hk|Hk]; try discriminate Hk | apply P; assumption ]).
  - revert Hk; upd_split k (next s); intros Hk; [destruct Hk as [Hk|Hk]; discriminate Hk | apply P; assumption].
  - (* park *) revert Hk; upd_split k t; intros Hk; apply in_or_app;
    [right; left; reflexivity | left; apply P; assumption].
  - apply P. left. exact Esub.
Qed.

Lemma step_InvB o s c s' : InvA s -> InvB s -> step o s c = Some s' -> InvB s'.
Proof.
  intros I B H. constructor.
  - eapply stepB_perm; eauto.
  - eapply stepB_nodup; eauto.
  - eapply stepB_entered_pc; eauto.
  - eapply stepB_early_entered; eauto.
  - eapply stepB_late_q; eauto.
  - eapply stepB_late_b; eauto.
  - eapply stepB_all_early; eauto.
  - eapply stepB_ret_entered; eauto.
Qed.

Theorem reach_Inv o n c cs : InvA (run o (init n c) cs) /\ InvB (run o (init n c) cs).
Proof.
  apply (run_inv o (fun s => InvA s /\ InvB s)).
  - intros s ch s' [I B] H. split; [eapply step_InvA | eapply step_InvB]; eauto.
  - split; [apply InvA_init | apply InvB_init].
Qed.

(* ------------------------------------------------------------------ exactly once *)

Lemma early_mono o s c s' x : step o s c = Some s' -> In x (early s) -> In x (early s').
Proof.
  intros H Hin. step_cases H; simpl; try exact Hin.
  destruct (phase_eqb (ph s) PRunning); [right|]; exact Hin.
Qed.

Lemma early_mono_run o cs : forall s t, In t (early s) -> In t (early (run o s cs)).
Proof.
  induction cs as [|c cs IH]; intros s t Hin; simpl; [exact Hin|].
  apply IH. unfold step'. destruct (step o s c) eqn:E; [eapply early_mono; eauto | exact Hin].
Qed.

Lemma ret_ok_early s t : InvB s -> sh s = ShIdle -> subs s t = SRet ROk -> In t (early s).
Proof. intros B Hs Hr. apply (b_all_early _ B Hs). apply (b_ret_entered _ B). right. exact Hr. Qed.

Lemma NoDup_app_l {A} (a b : list A) : NoDup (a ++ b) -> NoDup a.
Proof.
  induction a as [|x a IH]; simpl; intros H; [constructor|].
  inversion H; subst. constructor; [|apply IH; assumption].
  intros Hin. apply H2. apply in_or_app. left. exact Hin.
Qed.

Lemma ran_nodup s : InvB s -> NoDup (ran s).
Proof.
  intros B. pose proof (Permutation_NoDup (b_perm _ B) (b_nodup _ B)) as N.
  apply NoDup_app_l in N. exact N.
Qed.

Lemma ran_entered s t : InvB s -> In t (ran s) -> In t (entered s).
Proof.
  intros B Hin. apply (Permutation_in t (Permutation_sym (b_perm _ B))). apply in_or_app. left. exact Hin.
Qed.

Lemma joined_early_ran s t : InvA s -> InvB s -> joined (sh s) = true -> In t (early s) -> In t (ran s).
Proof.
  intros I B J He.
  pose proof (Permutation_in t (b_perm _ B) (b_early_entered _ B t He)) as Hin.
  rewrite (busy_exited _ (a_exited _ I J)) in Hin. simpl in Hin.
  apply in_app_or in Hin. destruct Hin as [Hin|Hin]; [exact Hin|].
  apply in_app_or in Hin. destruct Hin as [Hin|Hin]; exfalso.
  - exact (b_late_q _ B (joined_has_exited _ I J) t Hin He).
  - exact (b_late_b _ B t Hin He).
Qed.

Lemma run_once_state s t : InvA s -> InvB s -> joined (sh s) = true -> In t (early s) ->
  count_occ Nat.eq_dec (ran s) t = 1.
Proof.
  intros I B J He. pose proof (joined_early_ran _ _ I B J He) as Hin.
  pose proof (ran_nodup _ B) as N. rewrite (NoDup_count_occ Nat.eq_dec) in N.
  specialize (N t). apply (count_occ_In Nat.eq_dec) in Hin. lia.
Qed.

Theorem run_once o n c cs1 cs2 t :
  let s1 := run o (init n c) cs1 in
  let s2 := run o s1 cs2 in
  sh s1 = ShIdle -> subs s1 t = SRet ROk -> joined (sh s2) = true ->
  count_occ Nat.eq_dec (ran s2) t = 1.
Proof.
  intros s1 s2 Hs Hr J.
  destruct (reach_Inv o n c cs1) as [I1 B1].
  assert (E : s2 = run o (init n c) (cs1 ++ cs2)) by (unfold s2, s1; rewrite run_app; reflexivity).
  destruct (reach_Inv o n c (cs1 ++ cs2)) as [I2 B2]. rewrite <- E in I2, B2.
  apply run_once_state; try assumption.
  unfold s2. apply early_mono_run. apply ret_ok_early; assumption.
Qed.

Theorem at_most_once o n c cs t :
  count_occ Nat.eq_dec (ran (run o (init n c) cs)) t <= 1.
Proof.
  destruct (reach_Inv o n c cs) as [I B]. pose proof (ran_nodup _ B) as N.
  rewrite (NoDup_count_occ Nat.eq_dec) in N. apply N.
Qed.

Theorem only_submitted o n c cs t :
  let s := run o (init n c) cs in In t (ran s) -> In t (entered s) /\ t < next s.
Proof.
  intros s Hin. destruct (reach_Inv o n c cs) as [I B]. fold s in I, B.
  pose proof (ran_entered _ _ B Hin) as He. split; [exact He|].
  apply (live_lt _ _ I). destruct (b_entered_pc _ B t He) as [E|[r E]]; rewrite E; discriminate.
Qed.

(* ------------------------------------------------------------------ quiescence after Shutdown *)

Lemma done_step o s c s' : InvA s -> sh s = ShDone -> step o s c = Some s' ->
  sh s' = ShDone /\ ran s' = ran s.
Proof.
  intros I D H.
  assert (F : Forall (fun w => w = WExited) (ws s)) by (apply (a_exited _ I); rewrite D; reflexivity).
  rewrite Forall_forall in F.
  step_cases H; simpl; try (split; [exact D | reflexivity]); try congruence;
  try (exfalso; assert (Hin : In (nth j (ws s) WExited) (ws s))
         by (eapply nth_In_w; [reflexivity | rewrite Ew; discriminate]);
       specialize (F _ Hin); rewrite Ew in F; discriminate F).
  - split; [exact Esh | reflexivity].
  - exfalso. pose proof (a_sh_ph _ I) as Q. rewrite D, Eph in Q. discriminate Q.
Qed.

Theorem quiescent o n c cs cs' :
  let s := run o (init n c) cs in
  sh s = ShDone ->
  Forall (fun w => w = WExited) (ws s) /\ length (ws s) = nw s /\ 1 <= nw s /\
  busy (ws s) = [] /\
  sh (run o s cs') = ShDone /\ ran (run o s cs') = ran s /\ busy (ws (run o s cs')) = [].
Proof.
  intros s D. destruct (reach_Inv o n c cs) as [I _]. fold s in I.
  assert (F : Forall (fun w => w = WExited) (ws s)) by (apply (a_exited _ I); rewrite D; reflexivity).
  split; [exact F|]. split.
  { apply (a_ws_started _ I). pose proof (a_sh_ph _ I) as Q. rewrite D in Q. simpl in Q. rewrite Q. reflexivity. }
  split; [apply (a_nw _ I)|]. split; [apply busy_exited; exact F|].
  assert (G : forall l x, InvA x -> sh x = ShDone ->
            InvA (run o x l) /\ sh (run o x l) = ShDone /\ ran (run o x l) = ran x).
  { induction l as [|ch l IH]; intros x Ix Dx; simpl; [auto|].
    unfold step'. destruct (step o x ch) as [x'|] eqn:E; [|apply IH; assumption].
    destruct (done_step _ _ _ _ Ix Dx E) as [D' R'].
    destruct (IH x' (step_InvA _ _ _ _ Ix E) D') as [A1 [A2 A3]].
    split; [exact A1|]. split; [exact A2|]. congruence. }
  destruct (G cs' s I D) as [I' [D' R']].
  split; [exact D'|]. split; [exact R'|].
  apply busy_exited. apply (a_exited _ I'). rewrite D'. reflexivity.
Qed.

(* ------------------------------------------------------------------ Execute returns *)

Definition live (x : sst) : Prop := x <> SNone /\ forall r, x <> SRet r.

(* the only places where an Execute call can be blocked: parked on the send with no room, or at
   the lock while some Shutdown call is waiting for it (the executor is being shut down) *)
Definition writer_waiting (s : st) : Prop := sh s = ShLocking \/ pendw s <> 0.

Lemma sub_blocked_only_without_room o s t :
  live (subs s t) -> step o s (Sub t) = None ->
  (subs s t = SParked /\ In t (skipn (cap s) (queue s))) \/ (subs s t = SCheck /\ writer_waiting s).
Proof.
  intros [L1 L2] H. cbn [step] in H. destruct (subs s t) eqn:E; try discriminate H;
  try (exfalso; apply L1; reflexivity); try (exfalso; eapply L2; reflexivity).
  - destruct (ph s); discriminate H.
  - destruct (phase_eqb (ph s) PInit); discriminate H.
  - right. split; [reflexivity|]. unfold writer_waiting.
    destruct (is_locking (sh s)) eqn:E1.
    + left. destruct (sh s); simpl in E1; try discriminate E1. reflexivity.
    + right. simpl in H. destruct (Nat.eqb (pendw s) 0) eqn:E2; simpl in H.
      * destruct (phase_eqb (ph s) PRunning); discriminate H.
      * apply Nat.eqb_neq in E2. exact E2.
  - destruct (closed s); discriminate H.
  - destruct (mem t (bounced s)); [discriminate H|].
    destruct (mem t (skipn (cap s) (queue s))) eqn:M; [|discriminate H].
    left. split; [reflexivity | apply mem_In; exact M].
Qed.

Lemma sub_room o s t : live (subs s t) -> sh s = ShIdle -> pendw s = 0 -> length (queue s) <= cap s ->
  step o s (Sub t) <> None.
Proof.
  intros L Hs Hp Hroom H. destruct (sub_blocked_only_without_room o s t L H) as [[_ Hin]|[_ [Hl|Hl]]].
  - rewrite skipn_all2 in Hin by exact Hroom. contradiction.
  - congruence.
  - exact (Hl Hp).
Qed.

(* own steps left until Execute returns, on a running executor *)
Definition rank (x : sst) : nat :=
  match x with
  | SCas => 8 | SGet => 7 | SSpawn => 6 | SSetRun => 5 | SCheck => 4 | SPark => 3 | SParked => 2
  | SRet _ => 0 | SNone => 0
  end.

Lemma sub_progress o s t s' : ph s = PRunning -> step o s (Sub t) = Some s' ->
  rank (subs s' t) < rank (subs s t).
Proof.
  intros R H. cbn [step] in H. destruct (subs s t) eqn:E; try discriminate H.
  - rewrite R in H. inversion H; subst. simpl. rewrite upd_same. simpl. lia.
  - rewrite R in H. simpl in H. inversion H; subst. simpl. rewrite upd_same. simpl. lia.
  - inversion H; subst. simpl. rewrite upd_same. simpl. lia.
  - inversion H; subst. simpl. rewrite upd_same. simpl. lia.
  - destruct (is_locking (sh s) || negb (Nat.eqb (pendw s) 0)); [discriminate H|].
    rewrite R in H. simpl in H. inversion H; subst. simpl. rewrite upd_same. simpl. lia.
  - destruct (closed s); inversion H; subst; simpl; rewrite upd_same; simpl; lia.
  - destruct (mem t (bounced s)); [inversion H; subst; simpl; rewrite upd_same; simpl; lia|].
    destruct (mem t (skipn (cap s) (queue s))); [discriminate H|].
    inversion H; subst; simpl; rewrite upd_same; simpl; lia.
Qed.

(* results: no call ends with an error or a panic unless Shutdown has begun *)
Definition bad_ret (x : sst) : bool := match x with SRet RErr | SRet RPanic => true | _ => false end.

Lemma step_no_bad o s c s' : InvA s ->
  (sh s = ShIdle -> forall k, bad_ret (subs s k) = false) -> step o s c = Some s' ->
  sh s' = ShIdle -> forall k, bad_ret (subs s' k) = false.
Proof.
  intros I P H.
  step_cases H; pose proof (a_sh_ph _ I) as Q; pose proof (a_closed_sh _ I) as C; simpl; intros Hs k; try (apply P; assumption); try discriminate Hs;
  try (upd_split k t; [try reflexivity | apply P; assumption]).
  - upd_split k (next s); [reflexivity | apply P; assumption].
  - rewrite Hs, Eph in Q. simpl in Q. destruct Q as [Q|[Q|Q]]; discriminate Q.
  - rewrite Hs, Eph in Q. simpl in Q. destruct Q as [Q|[Q|Q]]; discriminate Q.
  - exfalso. pose proof (a_past _ I t) as Pa. rewrite Esub in Pa. specialize (Pa eq_refl).
    rewrite Hs in Q. simpl in Q. destruct Q as [Q|[Q|Q]]; rewrite Q in Pa; try discriminate Pa. congruence.
  - rewrite Hs in C. simpl in C. congruence.
  - exfalso. rewrite Hs in C. simpl in C. rewrite (a_bounced _ I C) in Emb. discriminate Emb.
  - apply P; reflexivity.
  - congruence.
Qed.

Theorem no_bad_before_shutdown o n c cs t :
  let s := run o (init n c) cs in sh s = ShIdle -> bad_ret (subs s t) = false.
Proof.
  intros s Hs.
  assert (G : InvA s /\ (sh s = ShIdle -> forall k, bad_ret (subs s k) = false)).
  { apply (run_inv o (fun x => InvA x /\ (sh x = ShIdle -> forall k, bad_ret (subs x k) = false))).
    - intros x ch x' [I P] H. split; [eapply step_InvA; eauto | eapply step_no_bad; eauto].
    - split; [apply InvA_init | intros; reflexivity]. }
  destruct G as [_ G]. apply G. exact Hs.
Qed.

(* a solo run on a running executor with room: Call + 4 own steps, returns nil, task queued last *)
Lemma run_cons_some o s c s' r : step o s c = Some s' -> run o s (c :: r) = run o s' r.
Proof. intros E. simpl. unfold step'. rewrite E. reflexivity. Qed.

Lemma solo_execute o s : InvA s -> ph s = PRunning -> sh s = ShIdle -> pendw s = 0 -> length (queue s) < cap s ->
  let s' := run o s [Call; Sub (next s); Sub (next s); Sub (next s); Sub (next s)] in
  subs s' (next s) = SRet ROk /\ queue s' = queue s ++ [next s] /\ ran s' = ran s.
Proof.
  intros I R Hs Hpw Hroom.
  assert (C : closed s = false).
  { rewrite (a_closed_sh _ I), Hs. reflexivity. }
  pose proof (a_bounced _ I C) as Bo.
  set (t := next s).
  set (s1 := mk (ph s) (nw s) (cap s) (queue s) (closed s) (dn s) (ws s) (upd (subs s) t SGet) (sh s)
               (S t) (entered s) (early s) (ran s) (bounced s) (errs s) (recovered s) (pendw s)).
  assert (E1 : step o s Call = Some s1) by reflexivity.
  assert (E2 : step o s1 (Sub t) = Some (set_sub s1 t SCheck)).
  { cbn [step]. unfold s1 at 1. cbn [subs]. rewrite upd_same. unfold s1 at 1. cbn [ph]. rewrite R. reflexivity. }
  set (s2 := set_sub s1 t SCheck) in *.
  assert (E3 : step o s2 (Sub t) = Some (set_sub s2 t SPark)).
  { cbn [step]. unfold s2 at 1. cbn [subs set_sub]. rewrite upd_same.
    assert (S2 : sh s2 = ShIdle) by exact Hs. assert (P2 : pendw s2 = 0) by exact Hpw.
    rewrite S2, P2. cbn [is_locking Nat.eqb negb orb].
    unfold s2 at 1, s1 at 1. cbn [ph set_sub]. rewrite R. reflexivity. }
  set (s3 := set_sub s2 t SPark) in *.
  assert (E4 : step o s3 (Sub t) = Some (park s3 t)).
  { cbn [step]. unfold s3 at 1. cbn [subs set_sub]. rewrite upd_same.
    unfold s3 at 1, s2 at 1, s1 at 1. cbn [closed set_sub]. rewrite C. reflexivity. }
  set (s4 := park s3 t) in *.
  assert (Q4 : queue s4 = queue s ++ [t]) by reflexivity.
  assert (E5 : step o s4 (Sub t) = Some (set_sub s4 t (SRet ROk))).
  { cbn [step]. unfold s4 at 1. cbn [subs park]. rewrite upd_same.
    assert (B4 : bounced s4 = []) by exact Bo. rewrite B4. simpl mem.
    rewrite skipn_all2; [reflexivity | rewrite app_length; simpl; lia]. }
  cbv zeta.
  rewrite (run_cons_some _ _ _ _ _ E1), (run_cons_some _ _ _ _ _ E2), (run_cons_some _ _ _ _ _ E3),
          (run_cons_some _ _ _ _ _ E4), (run_cons_some _ _ _ _ _ E5).
  simpl run. split; [cbn [subs set_sub]; apply upd_same|]. split; reflexivity.
Qed.

(* ------------------------------------------------------------------ workers: spawned once, never die *)

Lemma step_ws_len o s c s' : (ws s = [] \/ length (ws s) = nw s) -> step o s c = Some s' ->
  ws s' = [] \/ length (ws s') = nw s'.
Proof.
  intros P H. step_cases H; simpl; try exact P; try (right; apply repeat_length);
  (destruct P as [P|P]; [left; rewrite P; destruct j; reflexivity | right; rewrite setw_length; exact P]).
Qed.

Theorem workers_count o n c cs :
  let s := run o (init n c) cs in
  nw s = Nat.max 1 n /\ (ws s = [] \/ length (ws s) = nw s) /\
  (started_ph (ph s) = true -> length (ws s) = nw s) /\
  (dn s = false -> Forall alive_w (ws s)).
Proof.
  intros s. destruct (reach_Inv o n c cs) as [I _]. fold s in I.
  split.
  { unfold s. apply (run_inv o (fun x => nw x = Nat.max 1 n)); [|reflexivity].
    intros x ch x' P H. step_cases H; simpl; exact P. }
  split.
  { unfold s. apply (run_inv o (fun x => ws x = [] \/ length (ws x) = nw x)); [|left; reflexivity].
    intros x ch x' P H. eapply step_ws_len; eauto. }
  split; [apply (a_ws_started _ I) | apply (a_alive _ I)].
Qed.

(* ------------------------------------------------------------------ the outcome of a task does not matter *)

Definition core (s : st) :=
  (ph s, nw s, cap s, queue s, closed s, dn s, ws s, subs s, sh s, next s, entered s, early s, ran s, bounced s, pendw s).

Lemma step_core o1 o2 s1 s2 c : core s1 = core s2 ->
  match step o1 s1 c, step o2 s2 c with
  | Some a, Some b => core a = core b
  | None, None => True
  | _, _ => False
  end.
Proof.
  intros E. destruct s1, s2. unfold core in E. simpl in E. inversion E; subst. clear E.
  destruct c; cbn [step Model.ph Model.nw Model.cap Model.queue Model.closed Model.dn Model.ws Model.subs
                   Model.sh Model.next Model.entered Model.early Model.ran Model.bounced Model.errs Model.recovered
                   Model.pendw];
  repeat match goal with
         | |- context [match subs0 ?t with _ => _ end] => destruct (subs0 t)
         | |- context [match nth ?j ?l ?d with _ => _ end] => destruct (nth j l d)
         | |- context [match ?x with _ => _ end] => is_var x; destruct x
         | |- context [if phase_eqb ?a ?b then _ else _] => destruct (phase_eqb a b)
         | |- context [if mem ?a ?b then _ else _] => destruct (mem a b)
         | |- context [if is_locking ?a then _ else _] => destruct (is_locking a)
         | |- context [if is_locking ?a || ?b then _ else _] => destruct (is_locking a || b)
         | |- context [if forallb ?a ?b then _ else _] => destruct (forallb a b)
         end; try exact I; try reflexivity; try discriminate.
Qed.

Theorem outcome_irrelevant o1 o2 cs : forall s1 s2, core s1 = core s2 ->
  core (run o1 s1 cs) = core (run o2 s2 cs).
Proof.
  induction cs as [|c cs IH]; intros s1 s2 E; simpl; [exact E|].
  apply IH. unfold step'. pose proof (step_core o1 o2 s1 s2 c E) as H.
  destruct (step o1 s1 c), (step o2 s2 c); try contradiction; assumption.
Qed.

(* ------------------------------------------------------------------ one worker: submission order *)

Lemma single_worker l j w : length l <= 1 -> nth j l WExited = w -> w <> WExited -> l = [w] /\ j = 0.
Proof.
  intros Hl E Hw. pose proof (nth_lt _ _ _ E Hw) as Hj.
  destruct l as [|a [|b l]]; simpl in *; try lia.
  destruct j; [|lia]. split; [congruence | reflexivity].
Qed.

Definition order_inv (s : st) : Prop :=
  length (ws s) <= 1 /\ entered s = ran s ++ busy (ws s) ++ queue s ++ bounced s.

Lemma step_order o s c s' : InvA s -> nw s = 1 -> order_inv s -> step o s c = Some s' -> order_inv s'.
Proof.
  intros I N [L P] H.
  step_cases H; unfold order_inv; simpl; rewrite ?setw_length, ?repeat_length; try (split; [lia | exact P]);
  try (destruct (single_worker _ _ _ L Ew ltac:(discriminate)) as [Ews ->]; rewrite Ews in *; simpl in *;
       split; [lia|]; unfold busy in *; simpl in *; rewrite ?app_nil_r in *;
       try rewrite Eq in P; simpl in P; rewrite <- ?app_assoc; simpl; try exact P;
       try (rewrite Eq; simpl; exact P)).
  - (* spawn *) split; [lia|]. rewrite busy_repeat. rewrite (a_spawn _ I t Esub) in P. exact P.
  - (* park *) split; [exact L|]. rewrite (a_bounced _ I Ecl) in *. rewrite !app_nil_r in *.
    rewrite P. rewrite !app_assoc. reflexivity.
  - (* close *) split; [exact L|].
    assert (C : closed s = false) by (rewrite (a_closed_sh _ I), Esh; reflexivity).
    rewrite (a_bounced _ I C) in *. simpl. rewrite app_nil_r in P. rewrite P.
    rewrite <- (firstn_skipn (cap s) (queue s)) at 1. reflexivity.
Qed.

Theorem single_worker_order o n c cs : n <= 1 ->
  let s := run o (init n c) cs in exists rest, entered s = ran s ++ rest.
Proof.
  intros Hn s.
  assert (G : InvA s /\ nw s = 1 /\ order_inv s).
  { apply (run_inv o (fun x => InvA x /\ nw x = 1 /\ order_inv x)).
    - intros x ch x' [I [N Or]] H. split; [eapply step_InvA; eauto|]. split.
      + step_cases H; simpl; exact N.
      + eapply step_order; eauto.
    - split; [apply InvA_init|]. split; [cbn [init nw]; lia | split; simpl; [lia | reflexivity]]. }
  destruct G as [_ [_ [_ P]]]. eexists. exact P.
Qed.

(* ------------------------------------------------------------------ Shutdown makes progress *)

Definition weight (w : wst) : nat :=
  match w with WExited => 0 | WDrain => 1 | WDBusy _ => 2 | WIdle => 2 | WBusy _ => 3 end.
Definition wsum (l : list wst) : nat := fold_right (fun w a => weight w + a) 0 l.
Definition measure (s : st) : nat := 4 * length (queue s) + wsum (ws s).

Lemma wsum_setw j x l : j < length l -> wsum (setw j x l) + weight (nth j l WExited) = wsum l + weight x.
Proof.
  revert j; induction l as [|w l IH]; intros j Hj; simpl in Hj; [lia|].
  destruct j as [|j]; simpl; [lia|]. specialize (IH j ltac:(lia)). lia.
Qed.

Definition worker_choice (c : choice) : bool :=
  match c with Take _ | SeeDone _ | Finish _ | DrainTake _ | DrainEmpty _ => true | _ => false end.

(* every step of a worker decreases the measure: between two submissions only finitely many
   worker steps are possible *)
Lemma worker_step_decreases o s c s' : worker_choice c = true -> step o s c = Some s' ->
  measure s' < measure s.
Proof.
  intros W H. step_cases H; try discriminate W; unfold measure; simpl;
  match goal with
  | Ew : nth ?j (ws s) WExited = ?w |- context [setw ?j ?x (ws s)] =>
      let L := fresh "L" in
      assert (L : j < length (ws s)) by (eapply nth_lt; [exact Ew | discriminate]);
      pose proof (wsum_setw j x (ws s) L) as Hs; rewrite Ew in Hs; simpl in Hs
  end; try rewrite Eq; simpl; lia.
Qed.

(* while Shutdown waits in wg.Wait() the executor is never stuck: either all workers have exited
   (Shutdown's next step is enabled) or some worker has an enabled step *)
Lemma shutdown_not_stuck o s : InvA s -> sh s = ShWait ->
  step o s Shut <> None \/
  exists j, step o s (Take j) <> None \/ step o s (SeeDone j) <> None \/ step o s (Finish j) <> None \/
            step o s (DrainTake j) <> None \/ step o s (DrainEmpty j) <> None.
Proof.
  intros I E. assert (D : dn s = true) by (rewrite (a_dn_sh _ I), E; reflexivity).
  destruct (forallb is_exited (ws s)) eqn:F.
  - left. cbn [step]. rewrite E, F. discriminate.
  - right. assert (X : exists j, is_exited (nth j (ws s) WExited) = false).
    { clear -F. induction (ws s) as [|w l IH]; simpl in F; [discriminate|].
      destruct (is_exited w) eqn:Ew; simpl in F.
      - destruct (IH F) as [j Hj]. exists (S j). exact Hj.
      - exists 0. exact Ew. }
    destruct X as [j Hj]. exists j. cbn [step].
    destruct (nth j (ws s) WExited) eqn:Ew; simpl in Hj; try discriminate Hj.
    + right. left. rewrite D. discriminate.
    + right. right. left. discriminate.
    + destruct (queue s); [right; right; right; right; discriminate | right; right; right; left; discriminate].
    + right. right. left. discriminate.
Qed.

(* ------------------------------------------------------------------ never more tasks in flight than workers *)

Lemma busy_length l : length (busy l) <= length l.
Proof.
  induction l as [|w l IH]; [simpl; lia|]. unfold busy in *. simpl. rewrite app_length.
  destruct w; simpl; lia.
Qed.

Theorem in_flight_bound o n c cs :
  let s := run o (init n c) cs in length (busy (ws s)) <= nw s /\ length (ws s) <= nw s.
Proof.
  intros s. destruct (workers_count o n c cs) as [_ [L _]]. fold s in L.
  pose proof (busy_length (ws s)) as B.
  destruct L as [L|L]; [rewrite L in *; simpl in *; lia | lia].
Qed.

(* ------------------------------------------------------------------ the read/write lock: no Execute is between
   its state check and its enqueue once Shutdown has changed the state *)

Definition lock_free (x : shst) : Prop := x = ShIdle \/ x = ShLocking.

Record InvR (s : st) : Prop := mkR {
  r_reader : forall t, is_reader (subs s t) = true -> lock_free (sh s);
  r_beyond : forall t, In t (skipn (cap s) (queue s)) -> subs s t = SParked;
  r_bounced : bounced s = []
}.

Lemma InvR_init n c : InvR (init n c).
Proof. constructor; simpl; intros; try discriminate; try reflexivity. destruct c; simpl in H; contradiction. Qed.

Lemma forallb_seq_lt (f : nat -> bool) n : forallb f (seq 0 n) = true -> forall t, t < n -> f t = true.
Proof. intros H t Ht. rewrite forallb_forall in H. apply H. apply in_seq. lia. Qed.

Lemma skipn_succ_sub {A} n (l : list A) x : In x (skipn (S n) l) -> In x (skipn n l).
Proof.
  revert n; induction l as [|a l IH]; intros n H; [destruct n; simpl in H; contradiction|].
  destruct n.
  - simpl in H. simpl. right. exact H.
  - change (In x (skipn (S n) l)) in H. change (In x (skipn n l)). apply IH. exact H.
Qed.

Lemma skipn_app_one {A} n (l : list A) a x : In x (skipn n (l ++ [a])) -> In x (skipn n l) \/ x = a.
Proof.
  revert n; induction l as [|b l IH]; intros n H.
  - destruct n; simpl in H; [destruct H as [H|[]]; auto | destruct n; simpl in H; contradiction].
  - destruct n; simpl in *.
    + destruct H as [H|H]; [left; left; exact H|]. apply in_app_or in H.
      destruct H as [H|[H|[]]]; [left; right; exact H | right; auto].
    + apply IH. exact H.
Qed.

Lemma step_InvR o s c s' : InvA s -> InvR s -> step o s c = Some s' -> InvR s'.
Proof.
  intros I R H. constructor.
  - (* readers only while the lock can be held *)
    step_cases H; pose proof (r_reader _ R) as P; simpl; intros k Hk;
    try (apply (P k); assumption); unfold lock_free; auto;
    try (revert Hk; upd_split k t; simpl; intros Hk; try discriminate Hk; try (apply (P k); assumption);
         try (apply (P t); rewrite Esub; reflexivity)).
    + revert Hk; upd_split k (next s); simpl; intros Hk; [discriminate Hk | apply (P k); assumption].
    + (* SCheck -> SPark: the lock was acquired, so nobody is past the CAS *)
      pose proof (a_sh_ph _ I) as Q. rewrite Eph in Q.
      destruct (sh s); simpl in Q, Elk; try discriminate; auto.
    + (* CAS: no reader left *)
      exfalso. assert (Hl : k < next s) by (apply (live_lt _ _ I); destruct (subs s k); discriminate).
      pose proof (forallb_seq_lt _ _ Erd k Hl) as Hn. simpl in Hn. rewrite Hk in Hn. discriminate Hn.
    + exfalso. destruct (P k Hk) as [X|X]; rewrite X in Esh; discriminate Esh.
    + exfalso. destruct (P k Hk) as [X|X]; rewrite X in Esh; discriminate Esh.
    + exfalso. destruct (P k Hk) as [X|X]; rewrite X in Esh; discriminate Esh.
    + exfalso. destruct (P k Hk) as [X|X]; rewrite X in Esh; discriminate Esh.
    + (* another Shutdown caller's CAS: no reader left either *)
      exfalso. assert (Hl : k < next s) by (apply (live_lt _ _ I); destruct (subs s k); discriminate).
      pose proof (forallb_seq_lt _ _ Erd k Hl) as Hn. simpl in Hn. rewrite Hk in Hn. discriminate Hn.
  - (* beyond the capacity only parked senders *)
    step_cases H; pose proof (r_beyond _ R) as P; simpl; intros k Hk;
    try (apply P; assumption);
    try (assert (Hp : subs s k = SParked) by (apply P; assumption);
         upd_split k t; [rewrite Hp in Esub; discriminate Esub | exact Hp]);
    try (apply P; rewrite Eq; apply skipn_succ_sub; simpl; exact Hk).
    + assert (Hp : subs s k = SParked) by (apply P; assumption).
      upd_split k (next s); [rewrite (a_none _ I) in Hp by lia; discriminate Hp | exact Hp].
    + (* park *) apply skipn_app_one in Hk. upd_split k t; [reflexivity|].
      destruct Hk as [Hk|Hk]; [apply P; exact Hk | contradiction].
    + exfalso. rewrite (r_bounced _ R) in Emb. discriminate Emb.
    + (* returns nil: it was not beyond *) upd_split k t; [|apply P; exact Hk].
      exfalso. apply mem_nIn in Emq. exact (Emq Hk).
    + (* close: nothing beyond the capacity is left *)
      exfalso. assert (length (firstn (cap s) (queue s)) <= cap s) by apply firstn_le_length.
      rewrite skipn_all2 in Hk by assumption. contradiction.
  - (* nothing is ever thrown out by close(queue) *)
    step_cases H; pose proof (r_bounced _ R) as P; simpl; try exact P.
    rewrite P. simpl.
    destruct (skipn (cap s) (queue s)) as [|x l] eqn:E; [reflexivity|]. exfalso.
    assert (Hx : subs s x = SParked) by (apply (r_beyond _ R); rewrite E; left; reflexivity).
    assert (Hr : is_reader (subs s x) = true) by (rewrite Hx; reflexivity).
    destruct (r_reader _ R x Hr) as [X|X]; rewrite X in Esh; discriminate Esh.
Qed.

Theorem reach_InvR o n c cs : InvR (run o (init n c) cs).
Proof.
  assert (G : InvA (run o (init n c) cs) /\ InvR (run o (init n c) cs)).
  { apply (run_inv o (fun s => InvA s /\ InvR s)).
    - intros s ch s' [I R] H. split; [eapply step_InvA | eapply step_InvR]; eauto.
    - split; [apply InvA_init | apply InvR_init]. }
  apply G.
Qed.

(* everything that entered the queue did so before Shutdown changed the state *)
Lemma step_all_early o s c s' : InvA s -> InvR s ->
  (forall t, In t (entered s) -> In t (early s)) -> step o s c = Some s' ->
  forall t, In t (entered s') -> In t (early s').
Proof.
  intros I R P H. step_cases H; simpl; intros k Hk; try (apply P; assumption).
  assert (Rn : ph s = PRunning).
  { assert (Hr : is_reader (subs s t) = true) by (rewrite Esub; reflexivity).
    pose proof (a_past _ I t) as Q. rewrite Esub in Q. specialize (Q eq_refl).
    pose proof (a_sh_ph _ I) as S.
    destruct (r_reader _ R t Hr) as [X|X]; rewrite X in S; simpl in S;
    [destruct S as [S|[S|S]]; rewrite S in Q; try discriminate Q; exact S | exact S]. }
  rewrite Rn. simpl. apply in_app_or in Hk.
  destruct Hk as [Hk|[<-|[]]]; [right; apply P; exact Hk | left; reflexivity].
Qed.

Theorem all_entered_early o n c cs t :
  let s := run o (init n c) cs in In t (entered s) -> In t (early s).
Proof.
  intros s.
  assert (G : InvA s /\ InvR s /\ (forall k, In k (entered s) -> In k (early s))).
  { apply (run_inv o (fun x => InvA x /\ InvR x /\ (forall k, In k (entered x) -> In k (early x)))).
    - intros x ch x' [I [R P]] H. split; [eapply step_InvA; eauto|]. split; [eapply step_InvR; eauto|].
      eapply step_all_early; eauto.
    - split; [apply InvA_init|]. split; [apply InvR_init | simpl; tauto]. }
  destruct G as [_ [_ G]]. apply G.
Qed.

(* EVERY Execute that returned nil — whenever it did — has had its task run exactly once when
   Shutdown is past wg.Wait *)
Theorem accepted_run_once o n c cs t :
  let s := run o (init n c) cs in
  subs s t = SRet ROk -> joined (sh s) = true -> count_occ Nat.eq_dec (ran s) t = 1.
Proof.
  intros s Hr J. destruct (reach_Inv o n c cs) as [I B]. fold s in I, B.
  apply run_once_state; try assumption.
  apply all_entered_early. apply (b_ret_entered _ B). right. exact Hr.
Qed.

(* no Execute sends on the closed queue, none is thrown out by close(queue); a call ends in a panic
   only through start()'s log.Panicf on an executor that is already shut down *)
Theorem no_send_on_closed o n c cs :
  let s := run o (init n c) cs in
  bounced s = [] /\ (forall t, is_reader (subs s t) = true -> closed s = false /\ dn s = false /\ ph s = PRunning).
Proof.
  intros s. pose proof (reach_InvR o n c cs) as R. destruct (reach_Inv o n c cs) as [I _]. fold s in R, I.
  split; [apply (r_bounced _ R)|]. intros t Hr.
  pose proof (a_sh_ph _ I) as S. pose proof (a_past _ I t) as Q.
  assert (Pc : past_check (subs s t) = true) by (destruct (subs s t); simpl in Hr; try discriminate; reflexivity).
  specialize (Q Pc).
  rewrite (a_closed_sh _ I), (a_dn_sh _ I).
  destruct (r_reader _ R t Hr) as [X|X]; rewrite X in *; simpl in *; repeat split; auto.
  destruct S as [S|[S|S]]; rewrite S in Q; try discriminate Q; exact S.
Qed.

Lemma step_panic_origin o s c s' : InvA s -> InvR s ->
  (forall t, subs s t = SRet RPanic -> sh s <> ShIdle /\ sh s <> ShLocking) -> step o s c = Some s' ->
  forall t, subs s' t = SRet RPanic -> sh s' <> ShIdle /\ sh s' <> ShLocking.
Proof.
  intros I R P H.
  step_cases H; pose proof (a_sh_ph _ I) as Q; simpl; intros k Hk;
  try (apply (P k); assumption);
  try (revert Hk; upd_split k t; intros Hk; try discriminate Hk; try (apply (P k); assumption));
  try (destruct (P k Hk) as [P1 P2]; split; congruence).
  - revert Hk; upd_split k (next s); intros Hk; [discriminate Hk | apply (P k); assumption].
  - rewrite Eph in Q. destruct (sh s); simpl in Q; try discriminate Q; try (destruct Q as [Q|[Q|Q]]; discriminate Q);
    split; discriminate.
  - rewrite Eph in Q. destruct (sh s); simpl in Q; try discriminate Q; try (destruct Q as [Q|[Q|Q]]; discriminate Q);
    split; discriminate.
  - exfalso. assert (Hr : is_reader (subs s t) = true) by (rewrite Esub; reflexivity).
    pose proof (a_closed_sh _ I) as C. rewrite Ecl in C.
    destruct (r_reader _ R t Hr) as [X|X]; rewrite X in C; discriminate C.
  - exfalso. rewrite (r_bounced _ R) in Emb. discriminate Emb.
Qed.

(* Shutdown waits for the submitters parked in the send: while it waits for the lock its next step
   is enabled exactly when no Execute is between its state check and its return; once it has the
   state changed, no Execute is in there any more *)
Theorem shutdown_waits_for_submitters o n c cs :
  let s := run o (init n c) cs in
  (sh s = ShLocking ->
   (step o s Shut <> None <-> forall t, t < next s -> is_reader (subs s t) = false)) /\
  (sh s <> ShIdle -> sh s <> ShLocking -> forall t, is_reader (subs s t) = false).
Proof.
  intros s. pose proof (reach_InvR o n c cs) as R. fold s in R. split.
  - intros E. cbn [step]. rewrite E.
    destruct (forallb (fun t => negb (is_reader (subs s t))) (seq 0 (next s))) eqn:F; split; intros H.
    + intros t Ht. pose proof (forallb_seq_lt _ _ F t Ht) as X. simpl in X. destruct (is_reader (subs s t)); [discriminate X | reflexivity].
    + discriminate.
    + exfalso. apply H. reflexivity.
    + exfalso. assert (F' : forallb (fun t => negb (is_reader (subs s t))) (seq 0 (next s)) = true).
      { apply forallb_forall. intros t Ht. apply in_seq in Ht. rewrite H by lia. reflexivity. }
      congruence.
  - intros H1 H2 t. destruct (is_reader (subs s t)) eqn:E; [|reflexivity].
    exfalso. destruct (r_reader _ R t E) as [X|X]; [exact (H1 X) | exact (H2 X)].
Qed.

Theorem panic_only_after_shutdown o n c cs t :
  let s := run o (init n c) cs in subs s t = SRet RPanic -> sh s <> ShIdle /\ sh s <> ShLocking.
Proof.
  intros s.
  assert (G : InvA s /\ InvR s /\ (forall k, subs s k = SRet RPanic -> sh s <> ShIdle /\ sh s <> ShLocking)).
  { apply (run_inv o (fun x => InvA x /\ InvR x /\ (forall k, subs x k = SRet RPanic -> sh x <> ShIdle /\ sh x <> ShLocking))).
    - intros x ch x' [I [R P]] H. split; [eapply step_InvA; eauto|]. split; [eapply step_InvR; eauto|].
      eapply step_panic_origin; eauto.
    - split; [apply InvA_init|]. split; [apply InvR_init | simpl; intros; discriminate]. }
  destruct G as [_ [_ G]]. apply G.
Qed.

(* ------------------------------------------------------------------ any number of Shutdown callers *)

Definition shut_begun (p : phase) : Prop := p = PShutdown \/ p = PTerminated.

(* the state leaves Running once, for good: exactly one caller's CAS succeeds *)
Lemma step_shut_begun o s c s' : InvA s -> shut_begun (ph s) -> step o s c = Some s' -> shut_begun (ph s').
Proof.
  intros I B H. unfold shut_begun in *.
  step_cases H; simpl; auto;
  try (exfalso; destruct B as [B|B]; congruence).
  exfalso. assert (E : ph s = PStarted) by (apply (a_starter_ph _ I t); rewrite Esub; reflexivity).
  destruct B as [B|B]; congruence.
Qed.

Theorem shutdown_once o n c cs1 cs2 :
  let s1 := run o (init n c) cs1 in
  shut_begun (ph s1) -> shut_begun (ph (run o s1 cs2)).
Proof.
  intros s1 B.
  assert (G : InvA (run o s1 cs2) /\ shut_begun (ph (run o s1 cs2))).
  { apply (run_inv o (fun x => InvA x /\ shut_begun (ph x))).
    - intros x ch x' [I Bx] H. split; [eapply step_InvA; eauto | eapply step_shut_begun; eauto].
    - split; [apply (proj1 (reach_Inv o n c cs1)) | exact B]. }
  apply G.
Qed.

(* a further caller gets the lock exactly when no Execute holds it; it then either performs the
   state change itself (if nobody has) or returns without touching anything else *)
Lemma other_caller_spec o s : pendw s <> 0 ->
  (step o s ShutOtherGo <> None <-> forallb (fun t => negb (is_reader (subs s t))) (seq 0 (next s)) = true) /\
  (forall s', step o s ShutOtherGo = Some s' ->
     (ph s = PRunning /\ ph s' = PShutdown /\ sh s' = ShClose) \/
     (ph s <> PRunning /\ ph s' = ph s /\ sh s' = sh s /\ pendw s' = pred (pendw s))) /\
  (forall s', step o s ShutOtherGo = Some s' ->
     queue s' = queue s /\ ws s' = ws s /\ ran s' = ran s /\ subs s' = subs s /\ dn s' = dn s /\ closed s' = closed s).
Proof.
  intros Hp. cbn [step]. destruct (pendw s) as [|p] eqn:E; [congruence|].
  destruct (forallb (fun t => negb (is_reader (subs s t))) (seq 0 (next s))) eqn:F.
  - destruct (phase_eqb (ph s) PRunning) eqn:R; [apply phase_eqb_eq in R | apply phase_eqb_neq in R].
    + split; [split; [reflexivity | discriminate]|]. split; intros s' H; inversion H; subst; simpl; auto 10.
    + split; [split; [reflexivity | discriminate]|]. split; intros s' H; inversion H; subst; simpl; auto 10.
  - split; [split; [intros H; congruence | discriminate]|]. split; intros s' H; discriminate H.
Qed.
