(* C18 — proofs about the executor transition system (all schedules = all lists of choices). *)
From Coq Require Import List Arith Bool Lia Permutation.
From FV Require Import C18.Model.
Import ListNotations.

Lemma call_enabled o s : step o s Call <> None.
Proof. discriminate. Qed.
