(* C18 — The pool executor runs every accepted task exactly once, survives failing tasks.
   Every theorem is about [run o (init n c) cs] for ALL schedules cs (lists of scheduler choices of
   any length: which Execute call, worker or the Shutdown caller moves next; a choice that is
   blocked is a no-op), all numbers of workers n, all capacities c (0 = unbuffered) and all task
   outcomes o (succeed / return an error / panic).  Any number of goroutines may be inside
   Execute at the same time (one [Call] per call, each with its own program counter).
   This file holds only the property theorems; each is closed by a lemma of Proofs.v. *)
From Coq Require Import List Arith Bool.
From FV Require Import C18.Model C18.Proofs.
Import ListNotations.

(* "Submitting a task to a running executor returns as soon as its queue has room":
   an Execute call under way can be blocked at two places only — parked on the queue send while
   its value lies beyond the capacity, or at the executor's lock while a Shutdown call is waiting
   for it (the executor is being shut down); on a running executor with room it moves, and every
   step it takes brings it closer to returning (at most 4 own steps) *)
Theorem c18_execute_returns : forall o n c cs t,
  let s := run o (init n c) cs in
  live (subs s t) ->
  (step o s (Sub t) = None ->
   (subs s t = SParked /\ In t (skipn (cap s) (queue s))) \/ (subs s t = SCheck /\ writer_waiting s)) /\
  (sh s = ShIdle -> pendw s = 0 -> length (queue s) <= cap s -> step o s (Sub t) <> None) /\
  (forall s', ph s = PRunning -> step o s (Sub t) = Some s' -> rank (subs s' t) < rank (subs s t)).
Proof.
  intros o n c cs t s L. split; [apply sub_blocked_only_without_room; exact L|].
  split; [apply sub_room; exact L | intros s'; apply sub_progress].
Qed.
Print Assumptions c18_execute_returns.

(* ... and, undisturbed, a call on a running executor with room returns nil with its task queued *)
Theorem c18_execute_solo : forall o n c cs,
  let s := run o (init n c) cs in
  ph s = PRunning -> sh s = ShIdle -> pendw s = 0 -> length (queue s) < cap s ->
  let s' := run o s [Call; Sub (next s); Sub (next s); Sub (next s); Sub (next s)] in
  subs s' (next s) = SRet ROk /\ queue s' = queue s ++ [next s] /\ ran s' = ran s.
Proof. intros o n c cs s. apply solo_execute. apply (proj1 (reach_Inv o n c cs)). Qed.
Print Assumptions c18_execute_solo.

(* "every task it accepts is run exactly once": EVERY Execute that returned nil — whenever it did,
   also one racing with Shutdown — has had its task run exactly once by the time Shutdown is past
   wg.Wait, in particular when Shutdown has returned *)
Theorem c18_accepted_run_once : forall o n c cs t,
  let s := run o (init n c) cs in
  subs s t = SRet ROk -> joined (sh s) = true -> count_occ Nat.eq_dec (ran s) t = 1.
Proof. exact accepted_run_once. Qed.
Print Assumptions c18_accepted_run_once.

(* submitters parked in the send (capacity 0, or a full queue) when Shutdown is called: Shutdown
   waits at the lock until they have been served — its next step is enabled exactly when no Execute
   is between its state check and its return — and once the state is changed no Execute is in
   there, so nothing is sent after the workers have gone and nothing is sent on the closed queue *)
Theorem c18_shutdown_waits_for_submitters : forall o n c cs,
  let s := run o (init n c) cs in
  (sh s = ShLocking ->
   (step o s Shut <> None <-> forall t, t < next s -> is_reader (subs s t) = false)) /\
  (sh s <> ShIdle -> sh s <> ShLocking -> forall t, is_reader (subs s t) = false).
Proof. exact shutdown_waits_for_submitters. Qed.
Print Assumptions c18_shutdown_waits_for_submitters.

Theorem c18_no_send_on_closed : forall o n c cs,
  let s := run o (init n c) cs in
  bounced s = [] /\
  (forall t, is_reader (subs s t) = true -> closed s = false /\ dn s = false /\ ph s = PRunning).
Proof. exact no_send_on_closed. Qed.
Print Assumptions c18_no_send_on_closed.

(* an Execute call panics only through start()'s log.Panicf("invalid executor state") on an
   executor whose shutdown has begun *)
Theorem c18_panic_only_after_shutdown : forall o n c cs t,
  let s := run o (init n c) cs in subs s t = SRet RPanic -> sh s <> ShIdle /\ sh s <> ShLocking.
Proof. exact panic_only_after_shutdown. Qed.
Print Assumptions c18_panic_only_after_shutdown.

(* "every task it accepts is run exactly once": an Execute that returned nil before Shutdown began
   (state s1) has had its task run exactly once by the time Shutdown is past wg.Wait — in
   particular when Shutdown has returned (sh = ShDone) *)
Theorem c18_run_once : forall o n c cs1 cs2 t,
  let s1 := run o (init n c) cs1 in
  let s2 := run o s1 cs2 in
  sh s1 = ShIdle -> subs s1 t = SRet ROk -> joined (sh s2) = true ->
  count_occ Nat.eq_dec (ran s2) t = 1.
Proof. exact run_once. Qed.
Print Assumptions c18_run_once.

(* no task is ever run twice, and only submitted tasks are run *)
Theorem c18_at_most_once : forall o n c cs t,
  count_occ Nat.eq_dec (ran (run o (init n c) cs)) t <= 1.
Proof. exact at_most_once. Qed.
Print Assumptions c18_at_most_once.

Theorem c18_only_submitted : forall o n c cs t,
  let s := run o (init n c) cs in In t (ran s) -> In t (entered s) /\ t < next s.
Proof. exact only_submitted. Qed.
Print Assumptions c18_only_submitted.

(* the accounting behind it: nothing handed to the queue is lost or duplicated *)
Theorem c18_accounting : forall o n c cs,
  let s := run o (init n c) cs in
  Permutation.Permutation (entered s) (ran s ++ busy (ws s) ++ queue s ++ bounced s) /\ NoDup (entered s).
Proof.
  intros o n c cs s. destruct (reach_Inv o n c cs) as [_ B]. split; [apply (b_perm _ B) | apply (b_nodup _ B)].
Qed.
Print Assumptions c18_accounting.

(* "with a single worker, tasks run in submission order": the tasks run so far are a prefix of
   the tasks in the order in which they entered the queue *)
Theorem c18_single_worker_order : forall o n c cs, n <= 1 ->
  let s := run o (init n c) cs in exists rest, entered s = ran s ++ rest.
Proof. exact single_worker_order. Qed.
Print Assumptions c18_single_worker_order.

(* "a task that returns an error or panics neither kills a worker nor prevents later tasks from
   running": whatever the tasks do, the executor goes through exactly the same states (only the
   error / recovered-panic logs differ), and until close(done) every worker is alive *)
Theorem c18_failing_task_harmless : forall o1 o2 n c cs,
  core (run o1 (init n c) cs) = core (run o2 (init n c) cs).
Proof. intros. apply outcome_irrelevant. reflexivity. Qed.
Print Assumptions c18_failing_task_harmless.

Theorem c18_workers_survive : forall o n c cs,
  let s := run o (init n c) cs in
  nw s = Nat.max 1 n /\ (ws s = [] \/ length (ws s) = nw s) /\
  (started_ph (ph s) = true -> length (ws s) = nw s) /\
  (dn s = false -> Forall alive_w (ws s)).
Proof. exact workers_count. Qed.
Print Assumptions c18_workers_survive.

(* at no time are more tasks in flight than the executor has workers (with one worker: one at a
   time), and never more worker goroutines than configured *)
Theorem c18_in_flight_bound : forall o n c cs,
  let s := run o (init n c) cs in length (busy (ws s)) <= nw s /\ length (ws s) <= nw s.
Proof. exact in_flight_bound. Qed.
Print Assumptions c18_in_flight_bound.

(* ANY NUMBER of goroutines may call Shutdown, concurrently with each other and with any number of
   submitters (also during the lazy start): the schedules contain [ShutOther]/[ShutOtherGo] for all
   callers beside the one whose later steps [Shut] follows, and every theorem of this file is over
   those schedules.  The state leaves Running once and for good (exactly one caller's CAS succeeds);
   a further caller gets the lock exactly when no Execute holds it, and then either is the one that
   performs the state change or returns without touching queue, workers, tasks or submitters *)
Theorem c18_shutdown_once : forall o n c cs1 cs2,
  let s1 := run o (init n c) cs1 in
  shut_begun (ph s1) -> shut_begun (ph (run o s1 cs2)).
Proof. exact shutdown_once. Qed.
Print Assumptions c18_shutdown_once.

Theorem c18_other_shutdown_callers : forall o s, pendw s <> 0 ->
  (step o s ShutOtherGo <> None <-> forallb (fun t => negb (is_reader (subs s t))) (seq 0 (next s)) = true) /\
  (forall s', step o s ShutOtherGo = Some s' ->
     (ph s = PRunning /\ ph s' = PShutdown /\ sh s' = ShClose) \/
     (ph s <> PRunning /\ ph s' = ph s /\ sh s' = sh s /\ pendw s' = pred (pendw s))) /\
  (forall s', step o s ShutOtherGo = Some s' ->
     queue s' = queue s /\ ws s' = ws s /\ ran s' = ran s /\ subs s' = subs s /\ dn s' = dn s /\ closed s' = closed s).
Proof. exact other_caller_spec. Qed.
Print Assumptions c18_other_shutdown_callers.

(* "Once shutdown has returned no task is running or will be started, and all workers have exited" *)
Theorem c18_quiescent : forall o n c cs cs',
  let s := run o (init n c) cs in
  sh s = ShDone ->
  Forall (fun w => w = WExited) (ws s) /\ length (ws s) = nw s /\ 1 <= nw s /\
  busy (ws s) = [] /\
  sh (run o s cs') = ShDone /\ ran (run o s cs') = ran s /\ busy (ws (run o s cs')) = [].
Proof. exact quiescent. Qed.
Print Assumptions c18_quiescent.

(* ... and Shutdown does return: while it waits for the workers the executor is never stuck
   (all workers have exited, or some worker can move), and every worker step strictly decreases a
   measure (4 * queue length + per-worker weights), so only finitely many worker steps fit between
   two submissions *)
Theorem c18_shutdown_progress : forall o n c cs,
  let s := run o (init n c) cs in
  (sh s = ShWait ->
   step o s Shut <> None \/
   exists j, step o s (Take j) <> None \/ step o s (SeeDone j) <> None \/ step o s (Finish j) <> None \/
             step o s (DrainTake j) <> None \/ step o s (DrainEmpty j) <> None) /\
  (forall ch s', worker_choice ch = true -> step o s ch = Some s' -> measure s' < measure s).
Proof.
  intros o n c cs s. split.
  - apply shutdown_not_stuck. apply (proj1 (reach_Inv o n c cs)).
  - intros ch s'. apply worker_step_decreases.
Qed.
Print Assumptions c18_shutdown_progress.

(* concurrent first Execute: however many callers meet the fresh executor, none of them panics
   or is refused before Shutdown has begun (the workers are spawned once: c18_workers_survive) *)
Theorem c18_concurrent_start_safe : forall o n c cs t,
  let s := run o (init n c) cs in sh s = ShIdle -> bad_ret (subs s t) = false.
Proof. exact no_bad_before_shutdown. Qed.
Print Assumptions c18_concurrent_start_safe.

(* non-vacuity: two callers race for the start, both are accepted, one task fails and one panics,
   Shutdown begins while task 1 is still queued, and returns after both have run *)
Definition ex_oracle (t : nat) : outcome := match t with 0 => OErr | _ => OPanic end.
Definition ex_cs1 : list choice :=
  [Call; Call; Sub 0; Sub 1; Sub 0; Sub 1; Sub 0; Sub 1; Sub 0; Sub 0; Sub 0; Sub 0;
   Sub 1; Sub 1; Sub 1; Take 0; Sub 1].
Definition ex_cs2 : list choice :=
  [Shut; Shut; Shut; SeeDone 1; DrainTake 1; Finish 0; Finish 1; SeeDone 0; DrainEmpty 0; DrainEmpty 1;
   Shut; Shut; Shut].
(* three goroutines call Shutdown while task 1 is still queued: two of them announce first, one of
   these wins the CAS, the caller followed by [Shut] loses it; everything accepted is run *)
Definition ex_cs3 : list choice :=
  [ShutOther; ShutOther; Shut; ShutOtherGo; ShutOtherGo; ShutOtherGo;
   Shut; SeeDone 1; DrainTake 1; Finish 0; Finish 1; SeeDone 0; DrainEmpty 0; DrainEmpty 1; Shut; Shut; Shut].
Example c18_example_three_callers :
  let s1 := run ex_oracle (init 2 1) ex_cs1 in
  let s3 := run ex_oracle s1 ex_cs3 in
  sh s3 = ShDone /\ ph s3 = PTerminated /\ ran s3 = [0; 1] /\ pendw s3 = 0 /\ ws s3 = [WExited; WExited].
Proof. vm_compute. repeat split. Qed.

Example c18_example :
  let s1 := run ex_oracle (init 2 1) ex_cs1 in
  let s2 := run ex_oracle s1 ex_cs2 in
  (sh s1 = ShIdle /\ ph s1 = PRunning /\ subs s1 0 = SRet ROk /\ subs s1 1 = SRet ROk /\
   queue s1 = [1] /\ ws s1 = [WBusy 0; WIdle]) /\
  (sh s2 = ShDone /\ ran s2 = [0; 1] /\ errs s2 = [0] /\ recovered s2 = [1] /\
   ws s2 = [WExited; WExited]).
Proof. vm_compute. repeat split. Qed.
