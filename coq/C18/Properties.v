(* C18 — the pool executor runs every accepted task exactly once, survives failing tasks. *)
From Coq Require Import List Arith Bool.
From FV Require Import C18.Model C18.Proofs.
Import ListNotations.

Theorem c18_call_enabled : forall o s, step o s Call <> None.
Proof. exact call_enabled. Qed.
Print Assumptions c18_call_enabled.
