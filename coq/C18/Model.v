(* C18 — the pool executor (sched/executor_threadpool.go, debug/backtrace.go).
   Executable transition system; nothing is proved in this file.

   Threads: one per Execute call (identified with the task it submits), nw workers, the
   Shutdown caller.  A schedule is any list of [choice]; a choice that is not enabled in
   the current state (a blocked goroutine) is a no-op in [run], so EVERY list is a schedule.

   The channel `queue` is modelled by its logical FIFO content = buffer ++ parked senders
   (Go parks blocked senders in FIFO order behind the buffer; a receiver takes the head of
   the buffer and moves the first parked value in).  A send "returns" once its value sits
   within the first [cap] places or has been taken; with cap = 0 this is the rendez-vous of
   an unbuffered channel.  close(queue) makes parked senders panic.

   Program followed (intended behaviour; see Appendix B of DESIGN.md):
     Execute(r):  start(); guard.RLock(); defer guard.RUnlock();
                  if state != Running {return ErrExecutorNotRunning}; queue <- r; return nil
     start():     loop { switch state { Init: if CAS(Init,Started) { spawn nw workers; Set(Running); return }
                                        Started: yield (another caller is spawning the workers)
                                        Running: return
                                        default: log.Panicf } }
     worker():    loop { select { r := <-queue: run(r) | <-done: drain: loop { select { r := <-queue: run(r)
                                                                                    default: wg.Done(); return } } } }
     run(r):      defer CatchPanic(); if err := r.Run(); err != nil { log }
     Shutdown():  guard.Lock(); ok := CAS(Running,Shutdown); guard.Unlock(); if !ok {return};
                  (any number of goroutines may call it: [Shut] is the caller whose steps after the CAS
                   are followed - whichever wins the CAS -, [ShutOther]/[ShutOtherGo] are all the others)
                  close(done); wg.Wait(); close(queue); Set(Terminated)
   guard is a sync.RWMutex: Lock() first announces the writer (from then on RLock() blocks) and then
   waits until the readers that hold the lock have released it. *)
From Coq Require Import List Arith Bool.
Import ListNotations.

Inductive outcome := OOk | OErr | OPanic.                 (* what a task's Run() does *)
Inductive phase := PInit | PStarted | PRunning | PShutdown | PTerminated.
Inductive res := ROk | RErr | RPanic.                     (* how an Execute call ended *)
Inductive sst :=                                          (* program counter of one Execute call *)
| SNone                                                   (* not called (yet) *)
| SGet | SCas | SSpawn | SSetRun                          (* inside start() *)
| SCheck                                                  (* guard.RLock() and the state check after start() *)
| SPark                                                   (* (holds the read lock) about to send on the queue *)
| SParked                                                 (* (holds the read lock) value handed to the channel, waiting for room *)
| SRet (r : res).                                         (* returned *)
Inductive wst := WIdle | WBusy (t : nat) | WDrain | WDBusy (t : nat) | WExited.
Inductive shst :=
| ShIdle
| ShLocking               (* guard.Lock() announced, waiting for the readers to leave *)
| ShClose | ShWait | ShCloseQ | ShSetTerm | ShDone.

Record st := mk {
  ph : phase;
  nw : nat;                (* number of workers (>= 1, NewThreadPoolExecutor forces it) *)
  cap : nat;               (* queue capacity *)
  queue : list nat;        (* logical FIFO content of the channel: buffer ++ parked senders *)
  closed : bool;           (* close(queue) done *)
  dn : bool;               (* close(done) done *)
  ws : list wst;           (* worker states; [] until spawned *)
  subs : nat -> sst;       (* Execute calls, indexed by task id *)
  sh : shst;               (* the Shutdown call that won the CAS *)
  next : nat;              (* next task id *)
  entered : list nat;      (* ghost: tasks handed to the channel, in order *)
  early : list nat;        (* ghost: those handed over while the state was Running *)
  ran : list nat;          (* ghost: tasks whose Run() finished, in order *)
  bounced : list nat;      (* ghost: tasks of parked senders thrown out by close(queue) *)
  errs : list nat;         (* tasks whose error was logged *)
  recovered : list nat;    (* tasks whose panic was caught *)
  pendw : nat              (* further Shutdown callers that have announced guard.Lock() and wait for it *)
}.

Definition init (n c : nat) : st :=
  mk PInit (Nat.max 1 n) c [] false false [] (fun _ => SNone) ShIdle 0 [] [] [] [] [] [] 0.

Definition upd (f : nat -> sst) (i : nat) (x : sst) : nat -> sst :=
  fun k => if Nat.eqb k i then x else f k.

Fixpoint setw (i : nat) (x : wst) (l : list wst) : list wst :=
  match l, i with
  | [], _ => []
  | _ :: r, O => x :: r
  | w :: r, S j => w :: setw j x r
  end.

Definition mem (t : nat) (l : list nat) : bool := existsb (Nat.eqb t) l.

Definition is_exited (w : wst) : bool := match w with WExited => true | _ => false end.
Definition busy1 (w : wst) : list nat :=
  match w with WBusy t => [t] | WDBusy t => [t] | _ => [] end.
Definition busy (l : list wst) : list nat := flat_map busy1 l.

Definition is_reader (x : sst) : bool := match x with SPark | SParked => true | _ => false end.
Definition is_locking (x : shst) : bool := match x with ShLocking => true | _ => false end.

Definition phase_eqb (a b : phase) : bool :=
  match a, b with
  | PInit, PInit | PStarted, PStarted | PRunning, PRunning
  | PShutdown, PShutdown | PTerminated, PTerminated => true
  | _, _ => false
  end.

(* field setters *)
Definition set_sub (s : st) (t : nat) (x : sst) : st :=
  mk (ph s) (nw s) (cap s) (queue s) (closed s) (dn s) (ws s) (upd (subs s) t x) (sh s) (next s)
     (entered s) (early s) (ran s) (bounced s) (errs s) (recovered s) (pendw s).
Definition set_ph (s : st) (p : phase) : st :=
  mk p (nw s) (cap s) (queue s) (closed s) (dn s) (ws s) (subs s) (sh s) (next s)
     (entered s) (early s) (ran s) (bounced s) (errs s) (recovered s) (pendw s).
Definition set_ws (s : st) (l : list wst) : st :=
  mk (ph s) (nw s) (cap s) (queue s) (closed s) (dn s) l (subs s) (sh s) (next s)
     (entered s) (early s) (ran s) (bounced s) (errs s) (recovered s) (pendw s).
Definition set_queue (s : st) (q : list nat) : st :=
  mk (ph s) (nw s) (cap s) q (closed s) (dn s) (ws s) (subs s) (sh s) (next s)
     (entered s) (early s) (ran s) (bounced s) (errs s) (recovered s) (pendw s).
Definition set_sh (s : st) (x : shst) : st :=
  mk (ph s) (nw s) (cap s) (queue s) (closed s) (dn s) (ws s) (subs s) x (next s)
     (entered s) (early s) (ran s) (bounced s) (errs s) (recovered s) (pendw s).
Definition set_pendw (s : st) (n : nat) : st :=
  mk (ph s) (nw s) (cap s) (queue s) (closed s) (dn s) (ws s) (subs s) (sh s) (next s)
     (entered s) (early s) (ran s) (bounced s) (errs s) (recovered s) n.
Definition set_dn (s : st) : st :=
  mk (ph s) (nw s) (cap s) (queue s) (closed s) true (ws s) (subs s) (sh s) (next s)
     (entered s) (early s) (ran s) (bounced s) (errs s) (recovered s) (pendw s).

(* the send: the value joins the logical queue *)
Definition park (s : st) (t : nat) : st :=
  mk (ph s) (nw s) (cap s) (queue s ++ [t]) (closed s) (dn s) (ws s) (upd (subs s) t SParked) (sh s) (next s)
     (entered s ++ [t]) (if phase_eqb (ph s) PRunning then t :: early s else early s)
     (ran s) (bounced s) (errs s) (recovered s) (pendw s).

(* close(queue): the buffer keeps its first cap values, parked senders panic *)
Definition close_queue (s : st) : st :=
  mk (ph s) (nw s) (cap s) (firstn (cap s) (queue s)) true (dn s) (ws s) (subs s) ShSetTerm (next s)
     (entered s) (early s) (ran s) (bounced s ++ skipn (cap s) (queue s)) (errs s) (recovered s) (pendw s).

(* run(r) returns: the task has run; an error is logged, a panic is caught by CatchPanic;
   in every case the worker goes on (to [w']) *)
Definition finish (o : nat -> outcome) (s : st) (j t : nat) (w' : wst) : st :=
  mk (ph s) (nw s) (cap s) (queue s) (closed s) (dn s) (setw j w' (ws s)) (subs s) (sh s) (next s)
     (entered s) (early s) (ran s ++ [t]) (bounced s)
     (match o t with OErr => errs s ++ [t] | _ => errs s end)
     (match o t with OPanic => recovered s ++ [t] | _ => recovered s end) (pendw s).

Inductive choice :=
| Call                    (* a goroutine calls Execute with a fresh task *)
| Sub (t : nat)           (* the Execute call for task t takes its next step *)
| Take (j : nat)          (* worker j's select picks the queue arm *)
| SeeDone (j : nat)       (* worker j's select picks the done arm *)
| Finish (j : nat)        (* the task worker j is running returns / panics *)
| DrainTake (j : nat)     (* worker j, draining, finds a task *)
| DrainEmpty (j : nat)    (* worker j, draining, finds the queue empty and exits *)
| Shut                    (* the Shutdown caller takes its next step *)
| ShutOther               (* one more goroutine calls Shutdown: announces guard.Lock() *)
| ShutOtherGo.            (* one of those gets the lock: CAS (it may be the one that wins), Unlock *)

Definition step (o : nat -> outcome) (s : st) (c : choice) : option st :=
  match c with
  | Call =>
      Some (mk (ph s) (nw s) (cap s) (queue s) (closed s) (dn s) (ws s) (upd (subs s) (next s) SGet) (sh s)
               (S (next s)) (entered s) (early s) (ran s) (bounced s) (errs s) (recovered s) (pendw s))
  | Sub t =>
      match subs s t with
      | SNone | SRet _ => None
      | SGet =>
          match ph s with
          | PInit => Some (set_sub s t SCas)
          | PStarted => Some s                       (* yield, read again *)
          | PRunning => Some (set_sub s t SCheck)
          | _ => Some (set_sub s t (SRet RPanic))    (* log.Panicf("invalid executor state") *)
          end
      | SCas =>
          if phase_eqb (ph s) PInit then Some (set_sub (set_ph s PStarted) t SSpawn)
          else Some (set_sub s t SGet)
      | SSpawn => Some (set_sub (set_ws s (repeat WIdle (nw s))) t SSetRun)
      | SSetRun => Some (set_sub (set_ph s PRunning) t SCheck)
      | SCheck =>
          if is_locking (sh s) || negb (Nat.eqb (pendw s) 0)
          then None                                           (* RLock() blocks: a writer is waiting *)
          else if phase_eqb (ph s) PRunning then Some (set_sub s t SPark)
          else Some (set_sub s t (SRet RErr))
      | SPark =>
          if closed s then Some (set_sub s t (SRet RPanic))   (* send on closed channel *)
          else Some (park s t)
      | SParked =>
          if mem t (bounced s) then Some (set_sub s t (SRet RPanic))
          else if mem t (skipn (cap s) (queue s)) then None   (* no room: blocked *)
          else Some (set_sub s t (SRet ROk))
      end
  | Take j =>
      match nth j (ws s) WExited, queue s with
      | WIdle, t :: q => Some (set_ws (set_queue s q) (setw j (WBusy t) (ws s)))
      | _, _ => None
      end
  | SeeDone j =>
      match nth j (ws s) WExited with
      | WIdle => if dn s then Some (set_ws s (setw j WDrain (ws s))) else None
      | _ => None
      end
  | Finish j =>
      match nth j (ws s) WExited with
      | WBusy t => Some (finish o s j t WIdle)
      | WDBusy t => Some (finish o s j t WDrain)
      | _ => None
      end
  | DrainTake j =>
      match nth j (ws s) WExited, queue s with
      | WDrain, t :: q => Some (set_ws (set_queue s q) (setw j (WDBusy t) (ws s)))
      | _, _ => None
      end
  | DrainEmpty j =>
      match nth j (ws s) WExited, queue s with
      | WDrain, [] => Some (set_ws s (setw j WExited (ws s)))
      | _, _ => None
      end
  | Shut =>
      match sh s with
      | ShIdle =>
          if phase_eqb (ph s) PRunning then Some (set_sh s ShLocking)   (* guard.Lock() begins *)
          else Some s                                 (* nobody holds the lock; CAS fails: Shutdown returns *)
      | ShLocking =>                                  (* the lock is free once no Execute holds it: CAS *)
          if forallb (fun t => negb (is_reader (subs s t))) (seq 0 (next s))
          then Some (set_sh (set_ph s PShutdown) ShClose) else None
      | ShClose => Some (set_sh (set_dn s) ShWait)
      | ShWait => if forallb is_exited (ws s) then Some (set_sh s ShCloseQ) else None   (* wg.Wait() *)
      | ShCloseQ => Some (close_queue s)
      | ShSetTerm => Some (set_sh (set_ph s PTerminated) ShDone)
      | ShDone => Some s                              (* a later Shutdown call: CAS fails *)
      end
  | ShutOther => Some (set_pendw s (S (pendw s)))
  | ShutOtherGo =>
      match pendw s with
      | O => None
      | S p =>
          if forallb (fun t => negb (is_reader (subs s t))) (seq 0 (next s)) then
            if phase_eqb (ph s) PRunning
            then (* its CAS succeeds: it is the call that shuts the executor down; the caller that was
                    modelled as "the" Shutdown thread, if it is waiting for the lock too, becomes one of
                    the others *)
                 Some (set_pendw (set_sh (set_ph s PShutdown) ShClose) (if is_locking (sh s) then S p else p))
            else Some (set_pendw s p)                 (* CAS fails: it returns *)
          else None
      end
  end.

Definition step' (o : nat -> outcome) (s : st) (c : choice) : st :=
  match step o s c with Some s' => s' | None => s end.

Fixpoint run (o : nat -> outcome) (s : st) (cs : list choice) : st :=
  match cs with
  | [] => s
  | c :: r => run o (step' o s c) r
  end.

Definition enabled (o : nat -> outcome) (s : st) (c : choice) : bool :=
  match step o s c with Some _ => true | None => false end.
