(* C04 — shutdown safety of the repaired connection model: consequences of the control
   invariant (C03/InvA.v) and one-step lemmas about refused sends, idempotent close and the
   terminal-error notification. *)
From Coq Require Import ZArith List Bool Arith Lia.
From RecordUpdate Require Import RecordSet.
From FV Require Import C03.Model C03.Base C03.InvA C03.Proofs C04.Measure C04.Progress.
Import ListNotations.
Import RecordSetNotations.

Section Conn.
  Variables (oc kc ic ec : nat) (en hw hr : bool) (sds : list (list pkt)) (cls : list (bool * Z))
            (input : list inp) (inq0 : list pkt) (errq0 : list Z).
  Let s0 := init oc kc ic ec en hw hr sds cls input inq0 errq0.

  Lemma reach_inv cs : Inv input hw (run repaired s0 cs).
  Proof. apply run_inv, init_inv. Qed.

  Lemma no_panic cs : panic (run repaired s0 cs) = false.
  Proof. apply (a_panic _ (proj1 (reach_inv cs))). Qed.

  (* one CAS winner, done closed at most once (and never closed twice: that would be a panic) *)
  Lemma close_once cs : let s := run repaired s0 cs in
    ncas s <= 1 /\ ndone s <= 1 /\ (done s = true <-> ndone s = 1) /\ (cst s = Running <-> ncas s = 0).
  Proof.
    intros s. destruct (reach_inv cs) as [A _]. fold s in A.
    pose proof (a_doneb _ A) as D. unfold b2n in D.
    repeat split; try apply A; destruct (done s); try lia; try congruence.
  Qed.

  (* a Close/ForceClose call made after the CAS returns at once and changes nothing else *)
  Lemma late_close_returns cs j cl : let s := run repaired s0 cs in
    nth_error (closers s) j = Some cl -> cp cl = CStart -> cst s <> Running ->
    step repaired s (Closer j) = Some (s <| closers := upd (closers s) j (cl <| cp := CRet false |>) |>).
  Proof.
    intros s Hn Hc Hr. unfold step. fold s. rewrite (no_panic cs : panic s = false), Hn, Hc. cbn.
    destruct (cst_eqb (cst s) Running) eqn:E; [apply cst_eqb_spec in E; contradiction|reflexivity].
  Qed.

  (* a SendPacket that starts after the CAS is refused in one step: it never blocks, never
     touches the queue *)
  Lemma late_send_refused cs i sd p r : let s := run repaired s0 cs in
    nth_error (senders s) i = Some sd -> chk sd = false -> todo sd = p :: r -> cst s <> Running ->
    step repaired s (Sender i) =
      Some (s <| senders := upd (senders s) i (sd <| todo := r |> <| results := results sd ++ [(pid p, 1%Z)] |>) |>).
  Proof.
    intros s Hn Hc Ht Hr. unfold step, send_step. fold s.
    rewrite (no_panic cs : panic s = false), Hn, Ht, Hc. cbn.
    destruct (cst_eqb (cst s) Running) eqn:E; [apply cst_eqb_spec in E; contradiction|reflexivity].
  Qed.

  (* SendPacket never blocks: whatever the state, a sender with a pending call has an enabled step *)
  Lemma send_never_blocks cs i sd : let s := run repaired s0 cs in
    nth_error (senders s) i = Some sd -> todo sd <> [] ->
    exists s', step repaired s (Sender i) = Some s' /\ panic s' = false.
  Proof.
    intros s Hn Ht. destruct (reach_inv cs) as [A _]. fold s in A.
    unfold step, send_step. rewrite (a_panic _ A), Hn. destruct (todo sd) eqn:E; [congruence|].
    pose proof (a_panic _ A) as P.
    destruct (chk sd); cbn [negb].
    - rewrite (a_onil _ A), (a_ocl _ A). destruct (length (outq s) <? ocap s); eexists; (split; [reflexivity|exact P]).
    - destruct (cst_eqb (cst s) Running); eexists; (split; [reflexivity|exact P]).
  Qed.

  (* an ErrConnOutboundOverflow answer changes nothing but the caller's own record: the queue,
     the state, every other thread are exactly as before (so whatever could shut the connection
     down before the overflow still can afterwards; the progress theorems hold for every history) *)
  Lemma overflow_is_harmless cs i sd p r : let s := run repaired s0 cs in
    nth_error (senders s) i = Some sd -> chk sd = true -> todo sd = p :: r -> ocap s <= length (outq s) ->
    step repaired s (Sender i) =
      Some (s <| senders := upd (senders s) i
                   (sd <| todo := r |> <| chk := false |> <| results := results sd ++ [(pid p, 2%Z)] |>) |>).
  Proof.
    intros s Hn Hc Ht Hfull. destruct (reach_inv cs) as [A _]. fold s in A.
    unfold step, send_step. rewrite (a_panic _ A), Hn, Ht, Hc. cbn [negb].
    rewrite (a_onil _ A), (a_ocl _ A).
    destruct (Nat.ltb_spec (length (outq s)) (ocap s)); [lia|reflexivity].
  Qed.

  (* the notification: at most one attempt per connection, it is a single always-enabled step
     (never blocks), it is delivered iff the error channel exists and has room *)
  Lemma notify_once cs : let s := run repaired s0 cs in
    attempts s <= 1 /\ length (notified s) <= attempts s /\ attempts s <= ncas s.
  Proof.
    intros s. destruct (reach_inv cs) as [A _]. fold s in A.
    pose proof (a_notify _ A). pose proof (a_cas1 _ A). pose proof (a_notif _ A). lia.
  Qed.

  Lemma notify_spec (s : st) e :
    attempts (notify s e) = S (attempts s) /\
    (notified (notify s e) = notified s ++ [e] <-> (enil s = false /\ length (errq s) < ecap s)) /\
    (notified (notify s e) = notified s \/ notified (notify s e) = notified s ++ [e]).
  Proof.
    unfold notify. destruct (enil s) eqn:E1; [cbn|].
    - split; auto. split; [|auto]. split; [intros H|intros [H _]; congruence].
      exfalso. apply (f_equal (@length Z)) in H. rewrite app_length in H. cbn in H. lia.
    - destruct (length (errq s) <? ecap s) eqn:E2; cbn.
      + apply Nat.ltb_lt in E2. split; auto. split; [|auto]. split; auto.
      + apply Nat.ltb_ge in E2. split; auto. split; [|auto]. split; [intros H0|intros [_ H0]; lia].
        exfalso. apply (f_equal (@length Z)) in H0. rewrite app_length in H0. cbn in H0. lia.
  Qed.

  Lemma notify_step_enabled cs j cl : let s := run repaired s0 cs in
    nth_error (closers s) j = Some cl -> cp cl = CDoneClosed ->
    step repaired s (Closer j) =
      Some (notify s (cerr cl) <| closers := upd (closers s) j (cl <| cp := CNotified |>) |>).
  Proof.
    intros s Hn Hc. unfold step. fold s. rewrite (no_panic cs : panic s = false), Hn, Hc. cbn.
    unfold notify. destruct (enil s); [reflexivity|]. destruct (length (errq s) <? ecap s); reflexivity.
  Qed.

  (* exactly one: once no thread is between its CAS and its notifyErr call any more, the count is
     the number of CAS winners *)
  Lemma notify_exactly_one cs : let s := run repaired s0 cs in
    sumc cw_notify (closers s) + rcl pre_notify (rp s) = 0 -> attempts s = ncas s.
  Proof.
    intros s H. destruct (reach_inv cs) as [A _]. fold s in A. pose proof (a_notify _ A). lia.
  Qed.
  Lemma one_terminal_error cs : let s := run repaired s0 cs in
    attempts s <= 1 /\ length (notified s) <= attempts s /\ attempts s <= ncas s /\
    (sumc cw_notify (closers s) + rcl pre_notify (rp s) = 0 -> attempts s = ncas s).
  Proof. intros s. destruct (notify_once cs) as (A & B & C). repeat split; auto. exact (notify_exactly_one cs). Qed.

  Lemma notify_never_blocks cs j cl : let s := run repaired s0 cs in
    nth_error (closers s) j = Some cl -> cp cl = CDoneClosed ->
    step repaired s (Closer j) =
      Some (notify s (cerr cl) <| closers := upd (closers s) j (cl <| cp := CNotified |>) |>) /\
    (notified (notify s (cerr cl)) = notified s ++ [cerr cl] <-> (enil s = false /\ length (errq s) < ecap s)).
  Proof. intros s H H0. split; [exact (notify_step_enabled cs j cl H H0)|apply notify_spec]. Qed.

  (* progress: after the CAS, as long as the shutdown is not complete some thread owned by the
     connection has an enabled step, or the writer waits for the peer to read (and then the
     peer's read is enabled); the measure bounds the number of owned steps *)
  Lemma pumps_exit_no_stuck cs : let s := run repaired s0 cs in
    cst s <> Running ->
    (exists c, owned c = true /\ step repaired s c <> None) \/
    (peer_owes_read s /\ (1 <= kc -> step repaired s PeerRead <> None)) \/
    quiesced s.
  Proof.
    intros s Hr. destruct (reach_inv cs) as [A _]. fold s in A.
    destruct (no_stuck s A Hr) as [H|[H|H]]; auto.
    right; left. split; auto. intros Hk. apply peer_read_enabled; auto. apply A.
    assert (forall cs, kcap (run repaired s0 cs) = kc) as K.
    { intros cs1. apply (run_preserves repaired (fun x => kcap x = kc)); [|reflexivity].
      intros x c x' Hx Hs. rewrite <- Hx. clear Hx. unfold step in Hs. destruct (panic x); [discriminate|]. destruct c.
      - unfold send_step in Hs; dmatch Hs; inv Hs; reflexivity.
      - unfold writer_step in Hs; dmatch Hs; inv Hs; reflexivity.
      - unfold reader_step in Hs; dmatch Hs;
          try match goal with Hc : close_step _ _ _ _ _ = _ |- _ => unfold close_step, fin_step, notify in Hc; dmatch Hc; inv Hc end;
          inv Hs; reflexivity.
      - dmatch Hs;
          try match goal with Hc : close_step _ _ _ _ _ = _ |- _ => unfold close_step, fin_step, notify in Hc; dmatch Hc; inv Hc end;
          inv Hs; reflexivity.
      - unfold fin_step in Hs; dmatch Hs; inv Hs; reflexivity.
      - dmatch Hs; inv Hs; reflexivity.
      - dmatch Hs; inv Hs; reflexivity.
      - dmatch Hs; inv Hs; reflexivity.
      - dmatch Hs; inv Hs; reflexivity.
      - dmatch Hs; inv Hs; reflexivity.
      - dmatch Hs; inv Hs; reflexivity.
      - dmatch Hs; inv Hs; reflexivity. }
    unfold s. rewrite K. exact Hk.
  Qed.

  Lemma pumps_exit_bounded cs cs' : let s := run repaired s0 cs in
    cst s <> Running -> owned_steps s cs' + mu (run repaired s cs') <= mu s.
  Proof. intros s Hr. apply owned_steps_bounded; auto. apply (proj1 (reach_inv cs)). Qed.

  (* what "quiesced" gives: every Close/ForceClose call has returned, both pumps have exited,
     the peer sees the stream end *)
  Lemma quiesced_means s j cl : quiesced s -> nth_error (closers s) j = Some cl ->
    (cp cl = CStart \/ exists w, cp cl = CRet w) /\ livew (wp s) = 0 /\ liver (rp s) = 0 /\ fin s = true.
  Proof.
    intros (Q1 & Q2 & Q3 & Q4 & Q5) Hn. repeat split; auto.
    pose proof (sumc_pos cw_mid _ _ _ Hn) as P. unfold cw_mid in P at 1.
    destruct (cp cl); cbn in P; try lia; eauto.
  Qed.
End Conn.
