(* C04 — TcpServer.Close (C04/Model.v, second system): no panic, Close releases the serve
   goroutines and closes the hand-off channels only after they are gone, nothing is accepted
   after Close returned, and Close is never stuck unless a serve loop is parked on a full
   backlog channel that the application does not drain. *)
From Coq Require Import ZArith List Bool Arith Lia.
From RecordUpdate Require Import RecordSet.
From FV Require Import C03.Base C04.Model.
Import ListNotations.
Import RecordSetNotations.

Definition stage (c : option lpc) : nat :=
  match c with
  | None => 0 | Some (LClosing _) => 1 | Some LSignal => 2 | Some LWait => 3
  | Some LCloseBacklog => 4 | Some LRet => 5
  end.
Definition slive (p : spc) : nat := match p with SExited => 0 | _ => 1 end.
Fixpoint sums (l : list spc) : nat := match l with [] => 0 | x :: r => slive x + sums r end.

Lemma sums_upd l i x y : nth_error l i = Some x -> sums (upd l i y) + slive x = sums l + slive y.
Proof.
  revert i; induction l as [|a l IH]; intros [|i] H; cbn in *; try discriminate.
  - inv H. lia.
  - apply IH in H. lia.
Qed.
Lemma sums_ge l i x : nth_error l i = Some x -> slive x <= sums l.
Proof.
  revert i; induction l as [|a l IH]; intros [|i] H; cbn in *; try discriminate.
  - inv H. lia.
  - apply IH in H. lia.
Qed.
Lemma sums_zero l : sums l = 0 -> forall i x, nth_error l i = Some x -> x = SExited.
Proof.
  induction l as [|a l IH]; intros H [|i] x Hn; cbn in *; try discriminate.
  - inv Hn. destruct x; cbn in H; try lia. reflexivity.
  - apply (IH ltac:(lia) i x Hn).
Qed.
Lemma sums_pos_ex l : 1 <= sums l -> exists i x, nth_error l i = Some x /\ x <> SExited.
Proof.
  induction l as [|a l IH]; cbn; [lia|]. intros H. destruct a.
  5:{ destruct IH as (i & x & Hn & Hx); [cbn in H; lia|]. exists (S i), x. auto. }
  all: eexists 0, _; cbn; split; [reflexivity|discriminate].
Qed.

Definition closed_upto (l : list bool) (k : nat) : Prop := forall i, i < k -> nth_error l i = Some true.

Record LInv (n : nat) (s : lst) : Prop := {
  l_panic : lpanic s = false;
  l_len : length (lclosed s) = n /\ length (dialq s) = n /\ length (serve s) = n;
  l_wg : swg s = sums (serve s);
  l_done : sdone s = (3 <=? stage (lcloser s));
  l_bcl : bclosed s = (5 <=? stage (lcloser s));
  l_wait : 4 <= stage (lcloser s) -> swg s = 0;
  l_closing : match lcloser s with
              | Some (LClosing k) => k < n /\ closed_upto (lclosed s) k
              | None => True
              | _ => closed_upto (lclosed s) n
              end
}.

Lemma closed_upto_upd l k : k < length l -> closed_upto l k -> closed_upto (upd l k true) (S k).
Proof.
  intros Hk H i Hi. destruct (Nat.eq_dec i k) as [->|N].
  - destruct (nth_error l k) eqn:E; [eapply nth_upd_same; eauto|apply nth_error_None in E; lia].
  - rewrite nth_upd_other by auto. apply H. lia.
Qed.
Lemma closed_upto_upd_other l k i b : closed_upto l k -> nth_error l i = Some b -> closed_upto (upd l i true) k.
Proof.
  intros H Hn j Hj. destruct (Nat.eq_dec i j) as [->|N]; [eapply nth_upd_same; eauto|].
  rewrite nth_upd_other by auto. auto.
Qed.

Ltac finL :=
  prep;
  repeat match goal with H : (_ =? _) = true |- _ => apply Nat.eqb_eq in H | H : (_ =? _) = false |- _ => apply Nat.eqb_neq in H end;
  cbn in *; rewrite ?upd_length in *; cbn in *;
  repeat match goal with
  | H : nth_error (serve ?s) ?i = Some ?x |- context [sums (upd (serve ?s) ?i ?y)] =>
      lazymatch goal with
      | _ : sums (upd (serve s) i y) + _ = _ |- _ => fail
      | _ => pose proof (sums_upd _ _ _ y H)
      end
  | H : nth_error (serve ?s) ?i = Some ?x |- _ =>
      lazymatch goal with
      | _ : slive x <= sums (serve s) |- _ => fail
      | _ => pose proof (sums_ge _ _ _ H)
      end
  end; cbn in *;
  repeat match goal with H : ?a <= ?b -> _ |- _ => let X := fresh in assert (X : a <= b) by lia; specialize (H X) end;
  try congruence; try lia; auto; try (intros; lia); try (exfalso; lia).

Lemma lstep_inv n s c s' : lstep s c = Some s' -> LInv n s -> LInv n s'.
Proof.
  unfold lstep. destruct (lpanic s) eqn:Hp; [discriminate|].
  intros H [I1 (I2a & I2b & I2c) I3 I4 I5 I7 I8].
  destruct c.
  - dmatch H; inv H; constructor; cbn; auto; finL.
    all: try (destruct (lcloser s) as [[k| | | |]|]; cbn in *; try discriminate; try lia; auto).
    all: try (specialize (I7 ltac:(lia)); lia).
  - dmatch H; inv H; constructor; cbn; auto; finL.
    all: try (destruct (lcloser s) as [[k| | | |]|]; cbn in *; try discriminate; try lia; auto).
  - dmatch H; inv H; constructor; cbn; auto; finL.
    all: try (destruct I8 as [K1 K2]).
    all: try (split; [lia|apply closed_upto_upd; [lia|auto]]).
    all: try (replace (length (lclosed s)) with (S k) by lia; apply closed_upto_upd; [lia|auto]).
    all: try (intros i Hi; lia).
    all: try (split; [lia|intros i Hi; lia]).
  - dmatch H; inv H; constructor; cbn; auto; finL.
    all: destruct (lcloser s) as [[k| | | |]|]; auto.
  - dmatch H; inv H; constructor; cbn; auto; finL.
Qed.

Lemma lrun_preserves (P : lst -> Prop) :
  (forall s c s', P s -> lstep s c = Some s' -> P s') -> forall cs s, P s -> P (lrun s cs).
Proof.
  intros Hs cs; induction cs as [|c cs IH]; intros s H; cbn; auto.
  destruct (lstep s c) eqn:E; eauto.
Qed.

Lemma sums_repeat n : sums (repeat SAccept n) = n.
Proof. induction n; cbn; auto. Qed.

Lemma linit_inv n b : LInv n (linit n b).
Proof.
  constructor; cbn; auto; rewrite ?repeat_length, ?sums_repeat; auto; try lia.
Qed.

Lemma lrun_inv n b cs : LInv n (lrun (linit n b) cs).
Proof. apply lrun_preserves; [intros; eapply lstep_inv; eauto|apply linit_inv]. Qed.

(* no interleaving of serve loops, dials, backlog consumers and Close panics *)
Lemma listener_no_panic n b cs : lpanic (lrun (linit n b) cs) = false.
Proof. apply (l_panic _ _ (lrun_inv n b cs)). Qed.

(* when Close has returned: every listener is closed, every serve goroutine has exited, the
   hand-off channels are closed (and were closed only after the goroutines were gone) *)
Lemma listener_close_releases n b cs : let s := lrun (linit n b) cs in
  lcloser s = Some LRet ->
  (forall i x, nth_error (serve s) i = Some x -> x = SExited) /\
  (forall i, i < n -> nth_error (lclosed s) i = Some true) /\
  sdone s = true /\ bclosed s = true /\ swg s = 0.
Proof.
  intros s H. pose proof (lrun_inv n b cs) as I. fold s in I.
  pose proof (l_wait _ _ I) as W. pose proof (l_closing _ _ I) as C.
  pose proof (l_done _ _ I) as D. pose proof (l_bcl _ _ I) as B.
  rewrite H in *. cbn in *. specialize (W ltac:(lia)).
  repeat split; auto. apply sums_zero. rewrite <- (l_wg _ _ I). exact W.
Qed.

(* after Close returned nothing is accepted or handed over any more: dials are refused *)
Definition settled (s : lst) : Prop :=
  lcloser s = Some LRet /\ (forall i x, nth_error (serve s) i = Some x -> x = SExited) /\
  (forall i b, nth_error (lclosed s) i = Some b -> b = true).

Lemma settled_step s c s' : lpanic s = false -> settled s -> lstep s c = Some s' ->
  settled s' /\ handed s' = handed s /\ dialq s' = dialq s /\ dropped s' = dropped s.
Proof.
  intros Hp (H1 & H2 & H3). unfold lstep. rewrite Hp. destruct c.
  - destruct (nth_error (serve s) i) eqn:E1; [|discriminate]. rewrite (H2 _ _ E1).
    destruct (nth_error (lclosed s) i); [|discriminate]. destruct (nth_error (dialq s) i); discriminate.
  - destruct (nth_error (serve s) i) eqn:E1; [|discriminate]. rewrite (H2 _ _ E1). discriminate.
  - rewrite H1. discriminate.
  - destruct (nth_error (lclosed s) i) eqn:E1; [|discriminate]. rewrite (H3 _ _ E1).
    destruct (nth_error (dialq s) i); [|discriminate]. intros H; inv H. cbn. repeat split; auto.
  - destruct (backlog s); [discriminate|]. intros H; inv H. cbn. repeat split; auto.
Qed.

Lemma listener_stops_accepting n b cs cs' : let s := lrun (linit n b) cs in
  lcloser s = Some LRet ->
  handed (lrun s cs') = handed s /\ dialq (lrun s cs') = dialq s /\ serve (lrun s cs') = serve s.
Proof.
  intros s H.
  assert (settled s) as S.
  { destruct (listener_close_releases n b cs H) as (A & B & _). split; [exact H|]. split; [exact A|].
    intros i x Hn. pose proof (nth_lt _ _ _ Hn) as L.
    destruct (l_len _ _ (lrun_inv n b cs)) as (L1 & _). fold s in L1. rewrite L1 in L.
    pose proof (B i L) as Bi. fold s in Bi. congruence. }
  assert (LInv n s) as I by apply lrun_inv.
  clearbody s. clear H. revert s S I. induction cs' as [|c r IH]; intros s S I; cbn; auto.
  destruct (lstep s c) as [s'|] eqn:E; [|apply IH; auto].
  destruct (settled_step _ _ _ (l_panic _ _ I) S E) as (S' & Hh & Hd & _).
  destruct (IH s' S' (lstep_inv _ _ _ _ E I)) as (A1 & A2 & A3).
  rewrite A1, A2, A3. repeat split; auto.
  (* serve unchanged by a settled step *)
  destruct S as (H1 & H2 & H3). unfold lstep in E. rewrite (l_panic _ _ I) in E. destruct c.
  - destruct (nth_error (serve s) i) eqn:E1; [|discriminate]. rewrite (H2 _ _ E1) in E.
    destruct (nth_error (lclosed s) i); [|discriminate]. destruct (nth_error (dialq s) i); discriminate.
  - destruct (nth_error (serve s) i) eqn:E1; [|discriminate]. rewrite (H2 _ _ E1) in E. discriminate.
  - rewrite H1 in E. discriminate.
  - dmatch E; inv E; reflexivity.
  - dmatch E; inv E; reflexivity.
Qed.

(* Close is never stuck: while it is pending, Close itself or some serve goroutine has an
   enabled step (a serve loop at the hand-over select is released by done) *)
Definition lowned (c : lchoice) : bool := match c with LServe _ | LServeDone _ | LClose => true | _ => false end.

Lemma listener_no_stuck n b cs : let s := lrun (linit n b) cs in
  (exists pc, lcloser s = Some pc /\ pc <> LRet) ->
  exists c, lowned c = true /\ lstep s c <> None.
Proof.
  intros s (pc & Hc & Hr). pose proof (lrun_inv n b cs) as I. fold s in I.
  pose proof (l_panic _ _ I) as Hp.
  assert (lstep s LClose <> None -> exists c, lowned c = true /\ lstep s c <> None) as En
    by (intros X; exists LClose; auto).
  pose proof (l_done _ _ I) as D. pose proof (l_bcl _ _ I) as B.
  pose proof (l_closing _ _ I) as C. pose proof (l_wg _ _ I) as W.
  destruct (l_len _ _ I) as (L1 & L2 & L3).
  rewrite Hc in *. cbn in *.
  destruct pc; try (apply En; unfold lstep; rewrite Hp, Hc; cbn in *; rewrite ?D, ?B; discriminate); try congruence.
  (* LWait *)
  destruct (swg s) eqn:Ew; [apply En; unfold lstep; rewrite Hp, Hc, Ew; discriminate|].
  destruct (sums_pos_ex (serve s)) as (i & x & Hn & Hx); [lia|].
  assert (i < n) as Li by (rewrite <- L3; eapply nth_lt; eauto).
  pose proof (C i Li) as Hcl.
  destruct (nth_error (dialq s) i) as [q|] eqn:Eq; [|apply nth_error_None in Eq; lia].
  assert (lstep s (LServe i) <> None -> exists c, lowned c = true /\ lstep s c <> None) as Es
    by (intros X; exists (LServe i); auto).
  destruct x; try congruence.
  - apply Es. unfold lstep. rewrite Hp, Hn, Hcl, Eq. discriminate.
  - apply Es. unfold lstep. rewrite Hp, Hn, Hcl, Eq. destruct (sdone s); discriminate.
  - exists (LServeDone i). split; auto. unfold lstep. rewrite Hp, Hn, D. discriminate.
  - apply Es. unfold lstep. rewrite Hp, Hn, Hcl, Eq, Ew. discriminate.
Qed.

