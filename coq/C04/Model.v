(* C04 — shutdown safety.  The connection model is C03/Model.v (imported, all threads
   enabled: several senders, Close and ForceClose callers, peer FIN/RST/garbage, full or
   drained inbound / error channels, explicit [panic]).  This file adds the second small
   transition system: TcpServer (qnet/tcp_server.go) — serve loops, the blocking hand-off
   to the backlog channel, Close.  Executable; nothing is proved here. *)
From Coq Require Import ZArith List Bool Arith.
From RecordUpdate Require Import RecordSet.
From FV Require Export C03.Model.
Import ListNotations.
Import RecordSetNotations.

(* serve(ln) *)
Inductive spc :=
| SAccept                (* in ln.Accept() *)
| SHave (c : Z)          (* accepted connection c, testShouldExit pending *)
| SPush (c : Z)          (* in accept(): select { s.backlog <- endpoint | <-s.done } *)
| SDone                  (* returning, deferred wg.Done pending *)
| SExited.

(* Close() *)
Inductive lpc :=
| LClosing (k : nat)     (* about to close listener k *)
| LSignal                (* listeners closed, close(s.done) pending *)
| LWait                  (* s.wg.Wait() *)
| LCloseBacklog | LRet.

Record lst := mklst {
  lclosed : list bool;         (* per listener: ln.Close() done *)
  dialq : list (list Z);       (* per listener: connections completed by the kernel, not yet accepted *)
  serve : list spc;            (* one serve goroutine per listener *)
  sdone : bool;                (* s.done closed *)
  swg : nat;
  backlog : list Z; bcap : nat; bclosed : bool;
  lcloser : option lpc;        (* None: Close not called yet *)
  lpanic : bool;
  handed : list Z;             (* ghost: connections handed to the backlog channel, in order *)
  dropped : list Z;            (* ghost: accepted but dropped (closed) because shutdown had begun *)
  refused : list Z             (* ghost: dials refused because the listener was closed *)
}.

#[export] Instance eta_lst : Settable _ := settable! mklst
  <lclosed; dialq; serve; sdone; swg; backlog; bcap; bclosed; lcloser; lpanic; handed; dropped; refused>.

Inductive lchoice :=
| LServe (i : nat)             (* the next step of serve goroutine i (at the select: the hand-over) *)
| LServeDone (i : nat)         (* serve goroutine i, at the select in accept(): the <-s.done case *)
| LClose                       (* the next step of Close(); the first one starts it *)
| LDial (i : nat) (c : Z)      (* a client connects to listener i *)
| LTake.                       (* the application takes an endpoint from the backlog channel *)

Definition lstep (s : lst) (c : lchoice) : option lst :=
  if lpanic s then None else
  match c with
  | LServe i =>
      match nth_error (serve s) i, nth_error (lclosed s) i, nth_error (dialq s) i with
      | Some pc, Some cl, Some q =>
          match pc with
          | SAccept =>
              if cl then Some (s <| serve := upd (serve s) i SDone |>)          (* Accept error *)
              else match q with
                   | c :: r => Some (s <| dialq := upd (dialq s) i r |> <| serve := upd (serve s) i (SHave c) |>)
                   | [] => None
                   end
          | SHave c =>
              if sdone s then Some (s <| dropped := dropped s ++ [c] |> <| serve := upd (serve s) i SDone |>)
              else Some (s <| serve := upd (serve s) i (SPush c) |>)
          | SPush c =>
              if bclosed s then Some (s <| lpanic := true |>)                    (* send on closed channel *)
              else if length (backlog s) <? bcap s
                   then Some (s <| backlog := backlog s ++ [c] |> <| handed := handed s ++ [c] |>
                                <| serve := upd (serve s) i SAccept |>)
                   else None
          | SDone =>
              match swg s with
              | O => Some (s <| lpanic := true |>)
              | S n => Some (s <| swg := n |> <| serve := upd (serve s) i SExited |>)
              end
          | SExited => None
          end
      | _, _, _ => None
      end
  | LServeDone i =>
      match nth_error (serve s) i with
      | Some (SPush c) =>
          if sdone s then Some (s <| dropped := dropped s ++ [c] |> <| serve := upd (serve s) i SAccept |>)
          else None
      | _ => None
      end
  | LClose =>
      match lcloser s with
      | None => Some (s <| lcloser := Some (if length (lclosed s) =? 0 then LSignal else LClosing 0) |>)
      | Some (LClosing k) =>
          Some (s <| lclosed := upd (lclosed s) k true |>
                  <| lcloser := Some (if S k <? length (lclosed s) then LClosing (S k) else LSignal) |>)
      | Some LSignal =>
          if sdone s then Some (s <| lpanic := true |>)
          else Some (s <| sdone := true |> <| lcloser := Some LWait |>)
      | Some LWait => match swg s with O => Some (s <| lcloser := Some LCloseBacklog |>) | S _ => None end
      | Some LCloseBacklog =>
          if bclosed s then Some (s <| lpanic := true |>)
          else Some (s <| bclosed := true |> <| lcloser := Some LRet |>)
          (* the error channel shared with the accepted endpoints is NOT closed (fix 42cdab9): they may
             outlive the listener and still offer their terminal error to it *)
      | Some LRet => None
      end
  | LDial i c =>
      match nth_error (lclosed s) i, nth_error (dialq s) i with
      | Some cl, Some q =>
          if cl then Some (s <| refused := refused s ++ [c] |>)
          else Some (s <| dialq := upd (dialq s) i (q ++ [c]) |>)
      | _, _ => None
      end
  | LTake => match backlog s with _ :: r => Some (s <| backlog := r |>) | [] => None end
  end.

Fixpoint lrun (s : lst) (cs : list lchoice) : lst :=
  match cs with
  | [] => s
  | c :: r => match lstep s c with Some s' => lrun s' r | None => lrun s r end
  end.

(* a server after n successful Listen calls *)
Definition linit (n bcap_ : nat) : lst :=
  {| lclosed := repeat false n; dialq := repeat [] n; serve := repeat SAccept n; sdone := false; swg := n;
     backlog := []; bcap := bcap_; bclosed := false; lcloser := None; lpanic := false;
     handed := []; dropped := []; refused := [] |}.
