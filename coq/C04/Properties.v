(* C04 — Connection and listener shutdown is safe under every interleaving.
   Theorems about the repaired connection model (C03/Model.v) over EVERY schedule (any list
   of choices: any interleaving of sends from any number of goroutines, Close, ForceClose,
   peer frames / garbage / EOF / RST, full or drained inbound and error channels).
   Only statements here; proofs are in C03/InvA.v, C04/Proofs.v. *)
From Coq Require Import ZArith List Bool Arith Lia.
From RecordUpdate Require Import RecordSet.
From FV Require Import C03.Model C03.Base C03.InvA C03.Proofs C04.Proofs.
Import ListNotations.
Import RecordSetNotations.

(* "no call panics": no schedule reaches the Panic outcome (send on / close of a closed
   channel, negative WaitGroup counter) *)
Theorem c04_no_panic : forall oc kc ic ec en hw hr sds cls input inq0 errq0 cs,
  panic (run repaired (init oc kc ic ec en hw hr sds cls input inq0 errq0) cs) = false.
Proof. exact no_panic. Qed.
Print Assumptions c04_no_panic.

(* "closing is idempotent": the CAS elects at most one closer, done is closed at most once *)
Theorem c04_done_closed_once : forall oc kc ic ec en hw hr sds cls input inq0 errq0 cs,
  let s := run repaired (init oc kc ic ec en hw hr sds cls input inq0 errq0) cs in
  ncas s <= 1 /\ ndone s <= 1 /\ (done s = true <-> ndone s = 1) /\ (cst s = Running <-> ncas s = 0).
Proof. exact close_once. Qed.
Print Assumptions c04_done_closed_once.

(* "... and returns": a later Close / ForceClose call returns in its first step and leaves
   everything else untouched *)
Theorem c04_close_idempotent : forall oc kc ic ec en hw hr sds cls input inq0 errq0 cs j cl,
  let s := run repaired (init oc kc ic ec en hw hr sds cls input inq0 errq0) cs in
  nth_error (closers s) j = Some cl -> cp cl = CStart -> cst s <> Running ->
  step repaired s (Closer j) = Some (s <| closers := upd (closers s) j (cl <| cp := CRet false |>) |>).
Proof. exact late_close_returns. Qed.
Print Assumptions c04_close_idempotent.

(* "sends after shutdown began are refused with an error instead of blocking" *)
Theorem c04_send_refused_after_shutdown : forall oc kc ic ec en hw hr sds cls input inq0 errq0 cs i sd p r,
  let s := run repaired (init oc kc ic ec en hw hr sds cls input inq0 errq0) cs in
  nth_error (senders s) i = Some sd -> chk sd = false -> todo sd = p :: r -> cst s <> Running ->
  step repaired s (Sender i) =
    Some (s <| senders := upd (senders s) i (sd <| todo := r |> <| results := results sd ++ [(pid p, 1%Z)] |>) |>).
Proof. exact late_send_refused. Qed.
Print Assumptions c04_send_refused_after_shutdown.

Theorem c04_send_never_blocks : forall oc kc ic ec en hw hr sds cls input inq0 errq0 cs i sd,
  let s := run repaired (init oc kc ic ec en hw hr sds cls input inq0 errq0) cs in
  nth_error (senders s) i = Some sd -> todo sd <> [] ->
  exists s', step repaired s (Sender i) = Some s' /\ panic s' = false.
Proof. exact send_never_blocks. Qed.
Print Assumptions c04_send_never_blocks.

(* "exactly one terminal error is offered to the error channel per connection (never blocking
   when that channel is full)" *)
Theorem c04_one_terminal_error : forall oc kc ic ec en hw hr sds cls input inq0 errq0 cs,
  let s := run repaired (init oc kc ic ec en hw hr sds cls input inq0 errq0) cs in
  attempts s <= 1 /\ length (notified s) <= attempts s /\ attempts s <= ncas s /\
  (sumc cw_notify (closers s) + rcl pre_notify (rp s) = 0 -> attempts s = ncas s).
Proof.
  intros. destruct (notify_once oc kc ic ec en hw hr sds cls input inq0 errq0 cs) as (A & B & C).
  repeat split; auto. exact (notify_exactly_one oc kc ic ec en hw hr sds cls input inq0 errq0 cs).
Qed.
Print Assumptions c04_one_terminal_error.

Theorem c04_notify_never_blocks : forall oc kc ic ec en hw hr sds cls input inq0 errq0 cs j cl,
  let s := run repaired (init oc kc ic ec en hw hr sds cls input inq0 errq0) cs in
  nth_error (closers s) j = Some cl -> cp cl = CDoneClosed ->
  step repaired s (Closer j) =
    Some (notify s (cerr cl) <| closers := upd (closers s) j (cl <| cp := CNotified |>) |>) /\
  (notified (notify s (cerr cl)) = notified s ++ [cerr cl] <-> (enil s = false /\ length (errq s) < ecap s)).
Proof.
  intros. split; [exact (notify_step_enabled oc kc ic ec en hw hr sds cls input inq0 errq0 cs j cl H H0)|].
  apply notify_spec.
Qed.
Print Assumptions c04_notify_never_blocks.
