(* C04 — Connection and listener shutdown is safe under every interleaving.
   Theorems about the repaired connection model (C03/Model.v) over EVERY schedule (any list
   of choices: any interleaving of sends from any number of goroutines, Close, ForceClose,
   peer frames / garbage / EOF / RST, full or drained inbound and error channels).
   Only statements here; proofs are in C03/InvA.v, C04/Proofs.v. *)
From Coq Require Import ZArith List Bool Arith Lia.
From RecordUpdate Require Import RecordSet.
From FV Require Import C03.Model C03.Base C03.InvA C03.Proofs C03.Refute C04.Model C04.Measure C04.Progress C04.Proofs C04.Listener.
Import ListNotations.
Import RecordSetNotations.

(* "no call panics": no schedule reaches the Panic outcome (send on / close of a closed
   channel, negative WaitGroup counter) *)
Theorem c04_no_panic : forall oc kc ic ec en hw hr sds cls input inq0 errq0 cs,
  panic (run repaired (init oc kc ic ec en hw hr sds cls input inq0 errq0) cs) = false.
Proof. exact no_panic. Qed.
Print Assumptions c04_no_panic.

(* "closing is idempotent": the CAS elects at most one closer, done is closed at most once *)
Theorem c04_done_closed_once : forall oc kc ic ec en hw hr sds cls input inq0 errq0 cs,
  let s := run repaired (init oc kc ic ec en hw hr sds cls input inq0 errq0) cs in
  ncas s <= 1 /\ ndone s <= 1 /\ (done s = true <-> ndone s = 1) /\ (cst s = Running <-> ncas s = 0).
Proof. exact close_once. Qed.
Print Assumptions c04_done_closed_once.

(* "... and returns": a later Close / ForceClose call returns in its first step and leaves
   everything else untouched *)
Theorem c04_close_idempotent : forall oc kc ic ec en hw hr sds cls input inq0 errq0 cs j cl,
  let s := run repaired (init oc kc ic ec en hw hr sds cls input inq0 errq0) cs in
  nth_error (closers s) j = Some cl -> cp cl = CStart -> cst s <> Running ->
  step repaired s (Closer j) = Some (s <| closers := upd (closers s) j (cl <| cp := CRet false |>) |>).
Proof. exact late_close_returns. Qed.
Print Assumptions c04_close_idempotent.

(* "sends after shutdown began are refused with an error instead of blocking" *)
Theorem c04_send_refused_after_shutdown : forall oc kc ic ec en hw hr sds cls input inq0 errq0 cs i sd p r,
  let s := run repaired (init oc kc ic ec en hw hr sds cls input inq0 errq0) cs in
  nth_error (senders s) i = Some sd -> chk sd = false -> todo sd = p :: r -> cst s <> Running ->
  step repaired s (Sender i) =
    Some (s <| senders := upd (senders s) i (sd <| todo := r |> <| results := results sd ++ [(pid p, 1%Z)] |>) |>).
Proof. exact late_send_refused. Qed.
Print Assumptions c04_send_refused_after_shutdown.

Theorem c04_send_never_blocks : forall oc kc ic ec en hw hr sds cls input inq0 errq0 cs i sd,
  let s := run repaired (init oc kc ic ec en hw hr sds cls input inq0 errq0) cs in
  nth_error (senders s) i = Some sd -> todo sd <> [] ->
  exists s', step repaired s (Sender i) = Some s' /\ panic s' = false.
Proof. exact send_never_blocks. Qed.
Print Assumptions c04_send_never_blocks.

(* error returns are part of the history: an overflow answer touches nothing but the caller's own
   record, so the connection can be shut down after it exactly as before (the progress theorems
   below quantify over every schedule, hence over every history of overflows) *)
Theorem c04_overflow_is_harmless : forall oc kc ic ec en hw hr sds cls input inq0 errq0 cs i sd p r,
  let s := run repaired (init oc kc ic ec en hw hr sds cls input inq0 errq0) cs in
  nth_error (senders s) i = Some sd -> chk sd = true -> todo sd = p :: r -> ocap s <= length (outq s) ->
  step repaired s (Sender i) =
    Some (s <| senders := upd (senders s) i
                 (sd <| todo := r |> <| chk := false |> <| results := results sd ++ [(pid p, 2%Z)] |>) |>).
Proof. exact overflow_is_harmless. Qed.
Print Assumptions c04_overflow_is_harmless.

Example c04_example_overflow_then_close :
  let s := run repaired overflow_init
             [Sender 0; Sender 0; Sender 0; Sender 0;
              Closer 0; Closer 0; Closer 0; Closer 0; Writer WSawDone; Writer WDeq; Writer WStep; Writer WStep;
              Writer WFlushEnd; Writer WStep; Closer 0; Closer 0; Closer 0; Closer 0; Closer 0] in
  map results (senders s) = [[(1%Z, 0%Z); (2%Z, 2%Z)]] /\ map cp (closers s) = [CRet true] /\ wire s = [p1] /\ fin s = true.
Proof. exact repaired_overflow_then_close. Qed.

(* "exactly one terminal error is offered to the error channel per connection (never blocking
   when that channel is full)" *)
Theorem c04_one_terminal_error : forall oc kc ic ec en hw hr sds cls input inq0 errq0 cs,
  let s := run repaired (init oc kc ic ec en hw hr sds cls input inq0 errq0) cs in
  attempts s <= 1 /\ length (notified s) <= attempts s /\ attempts s <= ncas s /\
  (sumc cw_notify (closers s) + rcl pre_notify (rp s) = 0 -> attempts s = ncas s).
Proof. exact one_terminal_error. Qed.
Print Assumptions c04_one_terminal_error.

Theorem c04_notify_never_blocks : forall oc kc ic ec en hw hr sds cls input inq0 errq0 cs j cl,
  let s := run repaired (init oc kc ic ec en hw hr sds cls input inq0 errq0) cs in
  nth_error (closers s) j = Some cl -> cp cl = CDoneClosed ->
  step repaired s (Closer j) =
    Some (notify s (cerr cl) <| closers := upd (closers s) j (cl <| cp := CNotified |>) |>) /\
  (notified (notify s (cerr cl)) = notified s ++ [cerr cl] <-> (enil s = false /\ length (errq s) < ecap s)).
Proof. exact notify_never_blocks. Qed.
Print Assumptions c04_notify_never_blocks.

(* "no call ... blocks forever", "closing ... returns", "the connection's reader and writer
   goroutines exit and the peer sees the stream end" — as progress: in every reachable state
   after the CAS, unless the shutdown is complete ([quiesced]: every Close/ForceClose call has
   returned, both pumps exited, FIN sent, every spawned finally() finished), some thread OWNED
   by the connection (writer, reader, closer, finalizer) has an enabled step, or the writer is
   inside a socket write with a full kernel buffer and the peer's read is enabled ... *)
Theorem c04_pumps_exit_no_stuck : forall oc kc ic ec en hw hr sds cls input inq0 errq0 cs,
  let s := run repaired (init oc kc ic ec en hw hr sds cls input inq0 errq0) cs in
  cst s <> Running ->
  (exists c, owned c = true /\ step repaired s c <> None) \/
  (peer_owes_read s /\ (1 <= kc -> step repaired s PeerRead <> None)) \/
  quiesced s.
Proof. exact pumps_exit_no_stuck. Qed.
Print Assumptions c04_pumps_exit_no_stuck.

(* ... and the measure [mu] bounds the number of owned steps along ANY continuation: no step
   increases it, every owned step decreases it.  Under a scheduler that keeps running enabled
   goroutines and a peer that keeps reading, the shutdown therefore completes. *)
Theorem c04_pumps_exit_bounded : forall oc kc ic ec en hw hr sds cls input inq0 errq0 cs cs',
  let s := run repaired (init oc kc ic ec en hw hr sds cls input inq0 errq0) cs in
  cst s <> Running -> owned_steps s cs' + mu (run repaired s cs') <= mu s.
Proof. exact pumps_exit_bounded. Qed.
Print Assumptions c04_pumps_exit_bounded.

Theorem c04_quiesced_means : forall s j cl, quiesced s -> nth_error (closers s) j = Some cl ->
  (cp cl = CStart \/ exists w, cp cl = CRet w) /\ livew (wp s) = 0 /\ liver (rp s) = 0 /\ fin s = true.
Proof. exact quiesced_means. Qed.
Print Assumptions c04_quiesced_means.

(* "Closing the listener stops accepting, returns, and releases its goroutines" (TcpServer,
   C04/Model.v second system; n listeners, any backlog capacity, every schedule of serve
   loops, dials, backlog consumers and Close) *)
Theorem c04_listener_no_panic : forall n b cs, lpanic (lrun (linit n b) cs) = false.
Proof. exact listener_no_panic. Qed.
Print Assumptions c04_listener_no_panic.

Theorem c04_listener_close : forall n b cs, let s := lrun (linit n b) cs in
  lcloser s = Some LRet ->
  (forall i x, nth_error (serve s) i = Some x -> x = SExited) /\
  (forall i, i < n -> nth_error (lclosed s) i = Some true) /\
  sdone s = true /\ bclosed s = true /\ swg s = 0.
Proof. exact listener_close_releases. Qed.
Print Assumptions c04_listener_close.

Theorem c04_listener_stops_accepting : forall n b cs cs', let s := lrun (linit n b) cs in
  lcloser s = Some LRet ->
  handed (lrun s cs') = handed s /\ dialq (lrun s cs') = dialq s /\ serve (lrun s cs') = serve s.
Proof. exact listener_stops_accepting. Qed.
Print Assumptions c04_listener_stops_accepting.

(* "... returns": while Close is pending it is never stuck — Close itself or a serve goroutine
   has an enabled step, whatever the state of the backlog channel (a serve loop parked at the
   hand-over is released by done: accept() selects on it since fix 5b5eb9a) *)
Theorem c04_listener_close_returns : forall n b cs, let s := lrun (linit n b) cs in
  (exists pc, lcloser s = Some pc /\ pc <> LRet) ->
  exists c, lowned c = true /\ lstep s c <> None.
Proof. exact listener_no_stuck. Qed.
Print Assumptions c04_listener_close_returns.

(* the code as first found (variant [legacy]): witness schedules *)
Theorem c04_no_panic_legacy_refuted : panic (run legacy panic_init panic_sched) = true.
Proof. exact legacy_send_panics. Qed.
Print Assumptions c04_no_panic_legacy_refuted.

Theorem c04_pumps_exit_legacy_refuted :
  let s := run legacy stuck_init stuck_sched in
  map cp (closers s) = [CNotified] /\ rp s = RHave p2 /\ done s = true /\ wp s = WExited /\ panic s = false /\
  forall c, Refute.owned c = true -> step legacy s c = None.
Proof. exact legacy_close_stuck. Qed.
Print Assumptions c04_pumps_exit_legacy_refuted.

(* non-vacuity: the same schedules on the repaired model *)
Example c04_example_send : let s := run repaired panic_init panic_sched in
  panic s = false /\ map results (senders s) = [[(1%Z, 0%Z)]].
Proof. exact repaired_send_same_schedule. Qed.
Example c04_example_not_stuck :
  exists c, Refute.owned c = true /\ step repaired (run repaired stuck_init stuck_sched) c <> None.
Proof. exact repaired_close_not_stuck. Qed.
