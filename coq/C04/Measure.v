(* C04 — progress of the shutdown, part 1 (repaired model): a measure that no step increases
   and every step of a thread owned by the connection decreases once the CAS has happened. *)
From Coq Require Import ZArith List Bool Arith Lia.
From RecordUpdate Require Import RecordSet.
From FV Require Import C03.Model C03.Base C03.InvA C03.Proofs.
Import ListNotations.
Import RecordSetNotations.

Definition owned (c : choice) : bool :=
  match c with Writer _ | Reader _ | Closer _ | Finalizer _ => true | _ => false end.

(* ---- the measure *)
Definition wf (f : fpc) : nat :=
  match f with FWait => 5 | FWaited => 4 | FClosedWrite => 3 | FTeardown => 2 | FEnd => 0 end.
Definition wc (c : cpc) : nat :=
  match c with
  | CStart => 12 | CCas => 11 | CRdClosed => 10 | CDoneClosed => 9 | CNotified => 8
  | CFin f => wf f + 2 | CRet _ => 0
  end.
Definition cw_w (cl : closer) : nat := wc (cp cl).
Definition wr (r : rpc) (R : nat) : nat :=
  match r with
  | RAbsent | RExited => 0
  | RDone => 1
  | RRead => 4 * R + 15
  | RHave _ => 4 * R + 18
  | RTest => 4 * R + 17
  | RForce c _ => wc c + 2
  end.
Definition ww (w : wpc) (Q : nat) : nat :=
  match w with
  | WAbsent | WExited => 0
  | WDone => 1
  | WSel MLoop => 3 * Q + 5
  | WHave MLoop _ => 3 * Q + 7
  | WCount MLoop _ => 3 * Q + 6
  | WSel (MFlush _) => 3 * Q + 2
  | WHave (MFlush _) _ => 3 * Q + 4
  | WCount (MFlush _) _ => 3 * Q + 3
  end.

Fixpoint sumsd (f : sender -> nat) (l : list sender) : nat :=
  match l with [] => 0 | x :: r => f x + sumsd f r end.
Lemma sumsd_upd f l i x y : nth_error l i = Some x -> sumsd f (upd l i y) + f x = sumsd f l + f y.
Proof.
  revert i; induction l as [|a l IH]; intros [|i] H; cbn in *; try discriminate.
  - inv H. lia.
  - apply IH in H. lia.
Qed.
Definition chkw (sd : sender) : nat := if chk sd then 1 else 0.

Definition Rin (s : st) : nat := length (sock_in s) + length (peer_todo s).
Definition Qout (s : st) : nat := length (outq s) + sumsd chkw (senders s).

Definition mu (s : st) : nat :=
  sumc cw_w (closers s) + sumf wf (fins s) + wr (rp s) (Rin s) + ww (wp s) (Qout s).

Ltac sumsds :=
  repeat match goal with
  | H : nth_error (senders ?s) ?i = Some ?x |- context [sumsd ?f (upd (senders ?s) ?i ?y)] =>
      lazymatch goal with
      | _ : sumsd f (upd (senders s) i y) + _ = _ |- _ => fail
      | _ => pose proof (sumsd_upd f _ _ _ y H)
      end
  end.

Ltac finM :=
  unfold mu, Rin, Qout, cw_w, chkw, owned in *;
  repeat match goal with
         | H : ?f ?s = _ |- _ => match type of s with st => progress (rewrite H in * ) end
         end;
  cbn in *; brw; sums; sumfs; sumsds; prep;
  repeat match goal with c : closer |- _ => destruct c end;
  repeat match goal with c : sender |- _ => destruct c end;
  repeat match goal with m : wmode |- _ => destruct m end;
  cbn in *; subst; cbn in *;
  rewrite ?sumf_app, ?app_length in *; cbn in *;
  try contradiction; try congruence;
  try match goal with |- context [ww (wp ?s) _] => destruct (wp s) as [| [|?] | [|?] ? | [|?] ? | |] end;
  try match goal with |- context [wr (rp ?s) _] => destruct (rp s) end;
  cbn in *; try contradiction;
  try (split; [|intros _]; lia);
  try (split; [|intros; try discriminate]; lia).

Lemma mu_step s c s' : InvA s -> cst s <> Running -> step repaired s c = Some s' ->
  mu s' <= mu s /\ (owned c = true -> mu s' < mu s).
Proof.
  intros A Hr. unfold step. destruct (panic s) eqn:Hp; [discriminate|]. intros H.
  pose proof (a_rf _ A) as RF. pose proof (a_ocl _ A) as OC. pose proof (a_onil _ A) as ON.
  pose proof (a_wg _ A) as WG. unfold livew, liver in WG.
  destruct c.
  - unfold send_step in H; dmatch H; inv H; finM.
  - unfold writer_step in H; dmatch H; inv H; finM.
  - unfold reader_step in H; dmatch H;
      try match goal with Hc : close_step _ _ _ _ _ = _ |- _ => unfold close_step, fin_step, notify in Hc; dmatch Hc; inv Hc end;
      inv H; finM.
  - dmatch H;
      try match goal with Hc : close_step _ _ _ _ _ = _ |- _ => unfold close_step, fin_step, notify in Hc; dmatch Hc; inv Hc end;
      inv H; finM.
  - unfold fin_step in H. dmatch H; inv H; finM.
  - dmatch H; inv H; finM.
  - dmatch H; inv H; finM.
  - dmatch H; inv H; finM.
  - dmatch H; inv H; finM.
  - dmatch H; inv H; finM.
  - dmatch H; inv H; finM.
  - dmatch H; inv H; finM.
Qed.

