(* C04 — progress of the shutdown, part 2 (repaired model): absence of stuck states: while the
   shutdown is pending some thread owned by the connection is enabled, or the writer waits
   for the peer to read. *)
From Coq Require Import ZArith List Bool Arith Lia.
From RecordUpdate Require Import RecordSet.
From FV Require Import C03.Model C03.Base C03.InvA C03.Proofs C04.Measure.
Import ListNotations.
Import RecordSetNotations.

(* ---- no stuck state *)
Definition cw_mid (cl : closer) : nat := match cp cl with CStart | CRet _ => 0 | _ => 1 end.
Definition notend (f : fpc) : nat := match f with FEnd => 0 | _ => 1 end.

(* the shutdown is complete: both pumps gone, FIN sent, every Close/ForceClose call that
   started has returned, every spawned finally() has finished *)
Definition quiesced (s : st) : Prop :=
  livew (wp s) = 0 /\ liver (rp s) = 0 /\ fin s = true /\
  sumc cw_mid (closers s) = 0 /\ sumf notend (fins s) = 0.

(* the writer is inside a socket write and the kernel buffer is full: the peer has to read *)
Definition peer_owes_read (s : st) : Prop :=
  exists m p, wp s = WHave m p /\ pok p = true /\ wbroken s = false /\ kcap s <= length (wire s) - peer_rd s.

Lemma sumc_ex f l : 1 <= sumc f l -> exists j cl, nth_error l j = Some cl /\ 1 <= f cl.
Proof.
  induction l as [|a l IH]; cbn; [lia|]. intros H.
  destruct (f a) eqn:E.
  - destruct IH as (j & cl & Hn & Hf); [lia|]. exists (S j), cl. auto.
  - exists 0, a. cbn. split; auto. lia.
Qed.
Lemma sumf_ex f l : 1 <= sumf f l -> exists k x, nth_error l k = Some x /\ 1 <= f x.
Proof.
  induction l as [|a l IH]; cbn; [lia|]. intros H.
  destruct (f a) eqn:E.
  - destruct IH as (j & cl & Hn & Hf); [lia|]. exists (S j), cl. auto.
  - exists 0, a. cbn. split; auto. lia.
Qed.

Lemma sumc_le_at f g l j cl : (forall x, f x <= g x) -> nth_error l j = Some cl ->
  sumc f l + g cl <= sumc g l + f cl.
Proof.
  intros Hfg. revert j; induction l as [|a l IH]; intros [|j] H; cbn in *; try discriminate.
  - inv H. assert (forall l, sumc f l <= sumc g l) as X.
    { induction l0 as [|b l0 IH0]; cbn; [lia|]. pose proof (Hfg b). lia. }
    pose proof (X l). lia.
  - apply IH in H. pose proof (Hfg a). lia.
Qed.

Lemma done_le_fin x : cw_done x <= cw_fin x.
Proof. unfold cw_done, cw_fin. destruct (cp x); cbn; lia. Qed.
Lemma atcas_le_fin x : cw_atcas x <= cw_fin x.
Proof. unfold cw_atcas, cw_fin. destruct (cp x); cbn; lia. Qed.
Lemma rcl_le r : rcl pre_done r <= rcl pre_fin r /\ rcl at_cas r <= rcl pre_fin r.
Proof. destruct r as [| | | |c e| |]; cbn; try lia. destruct c; cbn; lia. Qed.

Lemma mid_bounds l :
  sumc cw_fin l <= sumc cw_mid l /\ sumc cw_done l <= sumc cw_mid l /\ sumc cw_atcas l <= sumc cw_mid l.
Proof.
  induction l as [|a l IH]; cbn; [lia|].
  assert (cw_fin a <= cw_mid a /\ cw_done a <= cw_mid a /\ cw_atcas a <= cw_mid a)
    by (unfold cw_fin, cw_done, cw_atcas, cw_mid; destruct (cp a); cbn; lia).
  lia.
Qed.

Lemma writer_enabled s : panic s = false -> done s = true -> wgc s = livew (wp s) + liver (rp s) ->
  livew (wp s) = 1 ->
  (exists w, step repaired s (Writer w) <> None) \/ peer_owes_read s.
Proof.
  intros Hp Hd Hw Hl. unfold step. rewrite Hp. unfold writer_step.
  destruct (wp s) as [| [|i] | m p | m p | |] eqn:E; cbn in Hl; try discriminate.
  - left. exists WSawDone. rewrite Hd. discriminate.
  - destruct (outq s) eqn:Eq.
    + left. exists WFlushEnd. rewrite ?Eq. discriminate.
    + left. exists WDeq. cbn. rewrite ?Eq. discriminate.
  - destruct (pok p) eqn:Ep; [|left; exists WStep; cbn; discriminate].
    destruct (wbroken s) eqn:Eb; [left; exists WStep; cbn; discriminate|].
    destruct (length (wire s) - peer_rd s <? kcap s) eqn:Ek.
    + left. exists WStep. cbn. rewrite ?Ek. discriminate.
    + right. exists m, p. apply Nat.ltb_ge in Ek. auto.
  - left. exists WStep. discriminate.
  - left. exists WStep. rewrite Hw. cbn. discriminate.
Qed.

Lemma reader_enabled s : panic s = false -> done s = true -> rd_closed s = true ->
  wgc s = livew (wp s) + liver (rp s) ->
  match rp s with RForce (CFin _) _ | RForce (CRet _) _ => False | _ => True end ->
  liver (rp s) = 1 -> exists r, step repaired s (Reader r) <> None.
Proof.
  intros Hp Hd Hr Hw Hf Hl. unfold step. rewrite Hp. unfold reader_step.
  destruct (rp s) as [| |p| |c e| |] eqn:E; cbn in Hl; try discriminate.
  - exists RdErr. destruct (sock_in s) as [|[q|e] r]; rewrite ?Hr; discriminate.
  - exists RSawDone. rewrite Hd. cbn. discriminate.
  - exists RStep. discriminate.
  - exists RStep. unfold close_step, notify.
    destruct c; try contradiction; cbn;
      repeat match goal with |- context [if ?b then _ else _] => destruct b end; cbn; try discriminate.
  - exists RStep. destruct (wgc s); discriminate.
Qed.

Lemma closer_step_enabled s j cl : panic s = false -> nth_error (closers s) j = Some cl ->
  (forall s1 c', close_step repaired s (graceful cl) (cerr cl) (cp cl) = Some (s1, c') -> True) ->
  close_step repaired s (graceful cl) (cerr cl) (cp cl) <> None -> step repaired s (Closer j) <> None.
Proof.
  intros Hp Hn _ H. unfold step. rewrite Hp, Hn.
  destruct (close_step repaired s (graceful cl) (cerr cl) (cp cl)) as [[s1 c']|]; [discriminate|contradiction].
Qed.

Lemma no_stuck s : InvA s -> cst s <> Running ->
  (exists c, owned c = true /\ step repaired s c <> None) \/ peer_owes_read s \/ quiesced s.
Proof.
  intros A Hr.
  pose proof (a_panic _ A) as Hp. pose proof (a_wg _ A) as WG. pose proof (a_rf _ A) as RF.
  assert (ncas s = 1) as N1.
  { pose proof (a_cas1 _ A). destruct (a_run _ A) as [_ X]. destruct (ncas s) as [|[|n]]; try lia. elim Hr; auto. }
  (* pumps: enabled as soon as done and the read side are closed *)
  assert (done s = true -> rd_closed s = true -> 1 <= wgc s ->
          (exists c, owned c = true /\ step repaired s c <> None) \/ peer_owes_read s) as Pumps.
  { intros Hd Hrc Hw.
    assert (livew (wp s) = 1 \/ (livew (wp s) = 0 /\ liver (rp s) = 1)) as [Lw|[Lw Lr]].
    { unfold livew, liver in *. destruct (wp s), (rp s); cbn in *; lia. }
    - destruct (writer_enabled s Hp Hd WG Lw) as [[w Hs]|P]; auto. left. exists (Writer w). auto.
    - destruct (reader_enabled s Hp Hd Hrc WG RF Lr) as [r Hs]. left. exists (Reader r). auto. }
  (* done / read side closed unless some thread is still before that step *)
  pose proof (a_done _ A) as AD. pose proof (a_doneb _ A) as ADB. pose proof (a_rdc _ A) as ARC.
  pose proof (a_fin _ A) as AF. unfold b2n in *.
  destruct (Nat.eq_dec (sumc cw_mid (closers s)) 0) as [M0|M1].
  2:{ (* a Close/ForceClose call is in progress *)
    destruct (sumc_ex cw_mid (closers s)) as (j & cl & Hn & Hm); [lia|].
    pose proof (sumc_pos cw_done _ _ _ Hn) as P1. pose proof (sumc_pos cw_atcas _ _ _ Hn) as P2.
    pose proof (sumc_pos cw_fin _ _ _ Hn) as P3. pose proof (sumc_pos cw_infin _ _ _ Hn) as P4.
    pose proof (sumc_pos cw_badfin _ _ _ Hn) as P5. rewrite (a_gf _ A) in P5.
    unfold cw_mid, cw_done, cw_atcas, cw_fin, cw_infin, cw_badfin in *.
    assert (forall X, close_step repaired s (graceful cl) (cerr cl) (cp cl) <> None ->
                      (exists c, owned c = true /\ step repaired s c <> None) \/ X) as En.
    { intros X H. left. exists (Closer j). split; auto. eapply closer_step_enabled; eauto. }
    destruct (cp cl) as [| | | | |f|w] eqn:Ec; cbn in Hm; try lia.
    - apply En. cbn. discriminate.
    - apply En. cbn. destruct (done s); discriminate.
    - apply En. cbn. discriminate.
    - (* CNotified *)
      destruct (graceful cl) eqn:Eg; [|apply En; cbn; rewrite ?Eg; discriminate].
      destruct (wgc s) eqn:Ew; [apply En; cbn; rewrite ?Eg, ?Ew; discriminate|].
      pose proof (sumc_le_at _ _ _ _ _ done_le_fin Hn) as L1. pose proof (sumc_le_at _ _ _ _ _ atcas_le_fin Hn) as L2.
      destruct (rcl_le (rp s)) as [L3 L4].
      unfold cw_done, cw_atcas, cw_fin in L1, L2. rewrite Ec in L1, L2.
      cbn in *. destruct (done s); [|lia]. destruct (rd_closed s); [|lia].
      destruct Pumps as [P|P]; auto. lia.
    - (* CFin f *)
      destruct f; try (apply En; cbn; discriminate).
      destruct (wgc s) eqn:Ew; [apply En; cbn; rewrite ?Ew; discriminate|].
      pose proof (sumc_le_at _ _ _ _ _ done_le_fin Hn) as L1. pose proof (sumc_le_at _ _ _ _ _ atcas_le_fin Hn) as L2.
      destruct (rcl_le (rp s)) as [L3 L4].
      unfold cw_done, cw_atcas, cw_fin in L1, L2. rewrite Ec in L1, L2.
      cbn in *. destruct (done s); [|lia]. destruct (rd_closed s); [|lia].
      destruct Pumps as [P|P]; auto. lia. }
  destruct (Nat.eq_dec (sumf notend (fins s)) 0) as [F0|F1].
  2:{ (* a spawned finally() is in progress *)
    destruct (sumf_ex notend (fins s)) as (k & f & Hn & Hm); [lia|].
    assert (fin_step repaired s f <> None -> (exists c, owned c = true /\ step repaired s c <> None)) as En.
    { intros H. exists (Finalizer k). split; auto. unfold step. rewrite Hp, Hn.
      destruct (fin_step repaired s f) as [[s1 f']|]; [discriminate|contradiction]. }
    pose proof (nth_lt _ _ _ Hn) as Lk.
    destruct f; cbn in Hm; try lia; try (left; apply En; cbn; discriminate).
    destruct (wgc s) eqn:Ew; [left; apply En; cbn; rewrite ?Ew; discriminate|].
    assert (sumc cw_done (closers s) = 0 /\ sumc cw_atcas (closers s) = 0 /\ rcl pre_done (rp s) = 0 /\ rcl at_cas (rp s) = 0) as Z.
    { assert (sumc cw_fin (closers s) + rcl pre_fin (rp s) = 0) as Z0 by lia.
      assert (forall l, sumc cw_done l <= sumc cw_fin l /\ sumc cw_atcas l <= sumc cw_fin l) as Le.
      { induction l as [|a l IH]; cbn; [lia|]. pose proof (done_le_fin a). pose proof (atcas_le_fin a). lia. }
      destruct (Le (closers s)). destruct (rcl_le (rp s)). lia. }
    destruct Z as (Z1 & Z2 & Z3 & Z4).
    destruct (done s); [|lia]. destruct (rd_closed s); [|lia].
    destruct Pumps as [P|P]; auto. lia. }
  (* no closer in progress, no finalizer in progress *)
  destruct (rp s) as [| |p| |c e| |] eqn:Er.
  5:{ left. exists (Reader RStep). split; auto. unfold step. rewrite Hp. unfold reader_step. rewrite Er.
      unfold close_step, notify. destruct c; try contradiction; cbn;
        repeat match goal with |- context [if ?b then _ else _] => destruct b end; cbn; discriminate. }
  all: rewrite <- Er in *.
  all: assert (rcl pre_done (rp s) = 0 /\ rcl at_cas (rp s) = 0 /\ rcl pre_fin (rp s) = 0) as (R1 & R2 & R3)
         by (rewrite Er; cbn; auto).
  all: destruct (mid_bounds (closers s)) as (C1 & C2 & C3).
  all: assert (done s = true) as Hd by (destruct (done s); [reflexivity|lia]).
  all: assert (rd_closed s = true) as Hrc by (destruct (rd_closed s); [reflexivity|lia]).
  all: destruct (wgc s) as [|n] eqn:Ew; [|destruct Pumps as [P|P]; auto; lia].
  all: right; right.
  all: assert (fin s = true) as Hfin.
  all: try (apply (a_cw _ A);
            destruct (fins s) as [|x l] eqn:Ef;
            [ (* inline finally of a closer that has returned *)
              cbn in AF; destruct (sumc_ex cw_infin (closers s)) as (j & cl & Hn & Hc); [lia|];
              pose proof (sumc_pos cw_mid _ _ _ Hn) as Pm; pose proof (sumc_pos cw_postcw _ _ _ Hn) as Pc;
              unfold cw_infin, cw_mid, cw_postcw in *; destruct (cp cl) as [| | | | |f|[|]]; cbn in *; try lia;
              destruct (graceful cl); lia
            | cbn in F0; destruct x; cbn in F0; try lia; cbn; lia ]).
  all: unfold quiesced; repeat split; auto; lia.
Qed.

(* the peer can always read when the writer waits for it *)
Lemma peer_read_enabled s : panic s = false -> 1 <= kcap s -> peer_owes_read s -> step repaired s PeerRead <> None.
Proof.
  intros Hp Hk (m & p & _ & _ & _ & H). unfold step. rewrite Hp.
  destruct (Nat.ltb_spec (peer_rd s) (length (wire s))); [discriminate|lia].
Qed.

(* bounded work: along any schedule that starts after the CAS, the number of steps taken by
   threads owned by the connection is at most the measure *)
Fixpoint owned_steps (s : st) (cs : list choice) : nat :=
  match cs with
  | [] => 0
  | c :: r => match step repaired s c with
              | Some s' => (if owned c then 1 else 0) + owned_steps s' r
              | None => owned_steps s r
              end
  end.

Lemma shutting_stable s c s' : InvA s -> cst s <> Running -> step repaired s c = Some s' -> cst s' <> Running.
Proof.
  intros A Hr H. pose proof (step_invA _ _ _ H A) as A'.
  intros X. apply (a_run _ A') in X.
  assert (ncas s <= ncas s') as Mono.
  { clear X A'. unfold step in H. destruct (panic s); [discriminate|]. destruct c.
    - unfold send_step in H; dmatch H; inv H; cbn; lia.
    - unfold writer_step in H; dmatch H; inv H; cbn; lia.
    - unfold reader_step in H; dmatch H;
        try match goal with Hc : close_step _ _ _ _ _ = _ |- _ => unfold close_step, fin_step, notify in Hc; dmatch Hc; inv Hc end;
        inv H; cbn; lia.
    - dmatch H;
        try match goal with Hc : close_step _ _ _ _ _ = _ |- _ => unfold close_step, fin_step, notify in Hc; dmatch Hc; inv Hc end;
        inv H; cbn; lia.
    - unfold fin_step in H; dmatch H; inv H; cbn; lia.
    - dmatch H; inv H; cbn; lia.
    - dmatch H; inv H; cbn; lia.
    - dmatch H; inv H; cbn; lia.
    - dmatch H; inv H; cbn; lia.
    - dmatch H; inv H; cbn; lia.
    - dmatch H; inv H; cbn; lia.
    - dmatch H; inv H; cbn; lia. }
  destruct (a_run _ A) as [_ Y]. assert (ncas s <> 0) by (intros Z; apply Hr; auto). lia.
Qed.

Lemma owned_steps_bounded cs : forall s, InvA s -> cst s <> Running -> owned_steps s cs + mu (run repaired s cs) <= mu s.
Proof.
  induction cs as [|c cs IH]; intros s A Hr; cbn; [lia|].
  destruct (step repaired s c) as [s'|] eqn:E; [|apply IH; auto].
  destruct (mu_step _ _ _ A Hr E) as [M1 M2].
  pose proof (IH s' (step_invA _ _ _ E A) (shutting_stable _ _ _ A Hr E)).
  destruct (owned c); [specialize (M2 eq_refl)|]; lia.
Qed.
