(* C04 — correspondence for the shutdown property: same cases and replay as C03 (the model
   is C03/Model.v), but the property's executable form evaluated on the implementation's
   behaviour is C04's: no panic, no stuck close, sends after the shutdown began are refused,
   one terminal error, one CAS winner, everybody returns, the connection ends Terminated
   with done closed and the peer at end-of-stream.  Listener cases (mode 2) are evaluated
   by [listener_check]. *)
From Coq Require Import ZArith List Bool Arith.
From FV Require Import Lib.Sx C03.Model C03.Replay C04.Model.
Import ListNotations.
Open Scope Z_scope.

Definition is_cas (e : Z * Z * Z * Z) : bool :=
  match e with (k, _, p, _) => ((k =? 3) && ((p =? 31) || (p =? 40))) || ((k =? 2) && (p =? 40)) end.

Fixpoint drop_until (f : Z * Z * Z * Z -> bool) (l : list (Z * Z * Z * Z)) : list (Z * Z * Z * Z) :=
  match l with [] => [] | e :: r => if f e then r else drop_until f r end.

(* calls of sender i that BEGAN after the first CAS event: their results must all be 1 (closing).
   A call is identified by its position: number of send.begin events of sender i before the CAS. *)
Definition begun_before (evs : list (Z * Z * Z * Z)) (i : Z) : nat :=
  let before := (fix take (l : list (Z * Z * Z * Z)) : list (Z * Z * Z * Z) :=
                   match l with [] => [] | e :: r => if is_cas e then [] else e :: take r end) evs in
  length (filter (fun e => match e with (k, j, p, _) => (k =? 0) && (j =? i) && (p =? 1) end) before).

Definition property (sc : scen) (o : obs) : verdict :=
  let evs := o_events o in
  let ncas := length (filter is_cas evs) in
  let conclusive := (o_inconcl o =? 0) in
  (* 1: no call panics *)
  let p1 := (o_panics o =? 0)
            && forallb (fun res => forallb (fun r => negb (snd r =? 3)) res) (o_results o)
            && forallb (fun r => negb (r =? 3)) (o_closeres o) in
  (* 2: no call blocks forever: no stuck state was established *)
  let p2 := (o_stuck o =? 0) in
  (* 3: sends that start after the shutdown began are refused *)
  (* (late code 5: the call is parked inside SendPacket — it blocks; 6: inconclusive) *)
  let p3 := forallb (fun c => (c =? 1) || (c =? 6)) (o_late o)
            && (Nat.eqb ncas 0 ||
                forallb (fun ir => match ir with (i, res) =>
                           forallb (fun r => snd r =? 1) (skipn (begun_before evs i) res) end)
                        (combine (zseq (length (o_results o))) (o_results o))) in
  (* 4: exactly one terminal error offered, never blocking *)
  let nofill := Nat.eqb (length (filter (fun e => match e with (k, _, p, _) => (k =? 5) && (p =? 64) end) evs)) 0 in
  let p4 := (o_errgot o <=? 1)
            && (negb (nofill && (1 <=? sc_ecap sc) && Nat.leb 1 ncas && (o_stuck o =? 0)) || (o_errgot o =? 1))
            && (negb (sc_ecap sc <=? 0) || (o_errgot o =? 0))
            (* ... it is printable (Error() mentions the remote address, does not panic) and it is the
               winner's: Close offers ErrConnForceClose, ForceClose the error it was given, the reader its read error *)
            && (o_errkind o <? 10)
            && (negb (o_errgot o =? 1) ||
                match filter is_cas evs with
                | (k, _, p, _) :: _ => (o_errkind o) =? (if k =? 2 then 3 else if p =? 31 then 1 else 2)
                | [] => true
                end) in
  (* 5: closing is idempotent: one CAS winner, every Close / ForceClose call returned *)
  let p5 := Nat.leb ncas 1
            && (negb (conclusive && (o_stuck o =? 0) && (o_panics o =? 0)) || forallb (fun r => r =? 1) (o_closeres o)) in
  (* 6: the pumps are gone, the connection is Terminated, done is closed and the peer saw the stream end *)
  let p6 := negb (conclusive && (o_stuck o =? 0) && (o_panics o =? 0) && Nat.leb 1 ncas)
            || ((o_state o =? 4) && (o_doneclosed o =? 1) && (has_rst sc || (o_eof o =? 1))) in
  let p6 := p6 && (o_nofin o =? 0) in
  (* 10: the WaitGroup joins the pumps before the teardown: no pump event after wg.Wait returned *)
  let p10 := (o_pumpafterwait o =? 0) in
  vjoin (check_that p1 (VPropFail 1))
 (vjoin (check_that p2 (VPropFail 2))
 (vjoin (check_that p3 (VPropFail 3))
 (vjoin (check_that p4 (VPropFail 4))
 (vjoin (check_that p5 (VPropFail 5))
 (vjoin (check_that p6 (VPropFail 6))
        (check_that p10 (VPropFail 10))))))).

(* listener case: input = (2 nlisteners ndials drain seed)
   observed = (returned panics serve_left handed dialed_ok dial_after_ok backlog_closed inconclusive stuck) *)
Definition listener_check (input observed : sx) : verdict :=
  match sx_ints input, sx_ints observed with
  | Some [_; nl; nd; drain; _seed], Some [returned; panics; serve_left; handed; dialed; after_ok; bclosed; inconcl; stuck] =>
      let settled := (returned =? 1) && (inconcl =? 0) in
      vjoin (check_that (panics =? 0) (VPropFail 7))
     (vjoin (check_that (stuck =? 0) (VPropFail 8))
     (vjoin (check_that (negb settled || ((serve_left =? 0) && (after_ok =? 0) && (bclosed =? 1))) (VPropFail 9))
            (* what the model allows: no more endpoints handed over than connections made; with the model's
               terminal state (Close returned): every serve loop exited *)
            (check_that ((handed <=? dialed) && (0 <=? handed)) (VMismatch 9))))
  | _, _ => VBad
  end.

(* burst-race case: input = (3 trials nclosers nsenders seed)
   observed = (trials panics multicas multierr noerr lateaccepted notreturned notterminated) *)
Definition burst_check (input observed : sx) : verdict :=
  match sx_ints input, sx_ints observed with
  | Some [_; _; _; _; _], Some [trials; panics; multicas; multierr; noerr; lateacc; notret; notterm] =>
      vjoin (check_that (panics =? 0) (VPropFail 1))
     (vjoin (check_that (lateacc =? 0) (VPropFail 3))
     (vjoin (check_that ((multierr =? 0) && (negb (notret =? 0) || (noerr =? 0))) (VPropFail 4))
     (vjoin (check_that (multicas =? 0) (VPropFail 5))
            (check_that (0 <=? trials) (VMismatch 9)))))
  | _, _ => VBad
  end.

(* never-started endpoint: input = (6 origin (op ...) seed), op 1 Close, 2 ForceClose, 3 SendPacket, 4 Go
   observed = ((code ...) eof panics inconclusive); every call returns (code 7: parked inside the
   call), none panics, SendPacket is refused unless the endpoint is running, and once started and
   closed the peer sees the stream end *)
Fixpoint unstarted_sends_ok (started closed : bool) (ops codes : list Z) : bool :=
  match ops, codes with
  | op :: ops', c :: codes' =>
      let ok := if op =? 3 then (if started && negb closed then (c =? 10) || (c =? 12) else c =? 11) else true in
      ok && unstarted_sends_ok (started || (op =? 4)) (closed || (started && ((op =? 1) || (op =? 2)))) ops' codes'
  | _, _ => true
  end.

Definition unstarted_check (input observed : sx) : verdict :=
  match input, observed with
  | SList [SInt _; SInt _; ops; SInt _], SList [codes; SInt eof; SInt panics; SInt inconcl] =>
      match sx_ints ops, sx_ints codes with
      | Some ops, Some codes =>
          vjoin (check_that ((panics =? 0) && forallb (fun c => negb (c =? 3)) codes) (VPropFail 1))
         (vjoin (check_that (forallb (fun c => negb (c =? 7)) codes) (VPropFail 2))
         (vjoin (check_that (negb (inconcl =? 0) || unstarted_sends_ok false false ops codes) (VPropFail 3))
                (check_that (negb (inconcl =? 0) || (eof =? -1) || (eof =? 1)) (VPropFail 6))))
      | _, _ => VBad
      end
  | _, _ => VBad
  end.

Definition check (c : sx) : verdict :=
  match c with
  | SList [SList (SInt 6 :: _) as input; observed] => unstarted_check input observed
  | SList [SList (SInt 2 :: _) as input; observed] => listener_check input observed
  | SList [SList (SInt 3 :: _) as input; observed] => burst_check input observed
  | SList [input; observed] =>
      match decode_scen input, decode_obs observed with
      | Some sc, Some o => vjoin (property sc o) (correspondence sc o)
      | _, _ => VBad
      end
  | _ => VBad
  end.
