(* C05 / C06 — the heap timer with its real array (sched/timerqueue.go, timerHeap) and the
   index bookkeeping of the nodes.  Executable model; nothing is proved in this file.

   Transcribed from the repository: timerHeap.Less / Swap / Push / Pop (node.index
   updates), TimerQueue.addNode / delNode / trigger.
   Transcribed from the Go standard library (container/heap, go1.23): up, down, Push, Pop,
   Remove, Fix — loop for loop, with the loop count as fuel (the array length bounds the
   number of iterations of both loops).

   A node carries its `index` field wherever it is: in the array, or outside it (popped,
   removed, or dropped by the worker because it was cancelled before acceptance);
   newTimerNode sets index = -1, timerHeap.Pop sets -1, Swap / Push set the position.
   delNode trusts the field: heap.Remove(node.index) when it is >= 0. *)
From Coq Require Import ZArith List Bool Arith.
From FV Require Import Generated.Consts C05.Model.
Import ListNotations.
Open Scope Z_scope.

Record hnode := mkH { hn : node; hidx : Z }.

Definition hdflt : hnode := mkH (mkNode 0 0 0) (-1).
Definition hget (l : list hnode) (k : nat) : hnode := nth k l hdflt.
Fixpoint hupd (l : list hnode) (k : nat) (x : hnode) : list hnode :=
  match l, k with
  | [], _ => []
  | _ :: r, O => x :: r
  | y :: r, S k' => y :: hupd r k' x
  end.

(* timerHeap.Less(i, j) *)
Definition hlt (a b : hnode) : bool := hless (hn a) (hn b).
Definition setidx (k : nat) (a : hnode) : hnode := mkH (hn a) (Z.of_nat k).

(* timerHeap.Swap(i, j): q[i], q[j] = q[j], q[i]; q[i].index = i; q[j].index = j *)
Definition hswap (l : list hnode) (i j : nat) : list hnode :=
  hupd (hupd l i (setidx i (hget l j))) j (setidx j (hget l i)).

(* container/heap.up(h, j) *)
Fixpoint up (fuel : nat) (l : list hnode) (j : nat) : list hnode :=
  match fuel with
  | O => l
  | S f =>
      let i := ((j - 1) / 2)%nat in                       (* parent *)
      if (i =? j)%nat || negb (hlt (hget l j) (hget l i)) then l
      else up f (hswap l i j) i
  end.

(* container/heap.down(h, i0, n); returns the array and the final position (the Go
   function returns i > i0) *)
Fixpoint down (fuel : nat) (l : list hnode) (i n : nat) : list hnode * nat :=
  match fuel with
  | O => (l, i)
  | S f =>
      let j1 := (2 * i + 1)%nat in
      if (n <=? j1)%nat then (l, i)
      else
        let j := if ((j1 + 1 <? n)%nat && hlt (hget l (j1 + 1)) (hget l j1))%bool
                 then (j1 + 1)%nat else j1 in
        if negb (hlt (hget l j) (hget l i)) then (l, i)
        else down f (hswap l i j) j n
  end.

(* timerHeap.Push: v.index = len(q); append *)
Definition repo_push (l : list hnode) (x : node) : list hnode := l ++ [mkH x (Z.of_nat (length l))].

(* timerHeap.Pop: v := old[n-1]; v.index = -1; q = old[:n-1] *)
Definition repo_pop (l : list hnode) : list hnode * hnode :=
  (removelast l, mkH (hn (last l hdflt)) (-1)).

(* heap.Push(h, x): h.Push(x); up(h, h.Len()-1) *)
Definition heap_push (l : list hnode) (x : node) : list hnode :=
  let l1 := repo_push l x in up (length l1) l1 (length l1 - 1).

(* heap.Pop(h): n := h.Len()-1; h.Swap(0, n); down(h, 0, n); return h.Pop() *)
Definition heap_pop (l : list hnode) : list hnode * hnode :=
  let n := (length l - 1)%nat in
  let l1 := hswap l 0 n in
  repo_pop (fst (down (length l) l1 0 n)).

(* heap.Remove(h, i): n := h.Len()-1; if n != i { h.Swap(i, n); if !down(h, i, n) { up(h, i) } }; return h.Pop() *)
Definition heap_remove (l : list hnode) (i : nat) : list hnode * hnode :=
  let n := (length l - 1)%nat in
  let l1 :=
    if (n =? i)%nat then l
    else
      let l1 := hswap l i n in
      let '(l2, i') := down (length l) l1 i n in
      if (i <? i')%nat then l2 else up (length l) l2 i in
  repo_pop l1.

(* heap.Fix(h, i): if !down(h, i, h.Len()) { up(h, i) } *)
Definition heap_fix (l : list hnode) (i : nat) : list hnode :=
  let '(l2, i') := down (length l) l i (length l) in
  if (i <? i')%nat then l2 else up (length l) l2 i.

(* ------------------------------------------------------------------------------------ *)
(* the scheduler around the array *)

Record ast := mkA {
  aarr : list hnode;        (* s.timers *)
  aoutside : list hnode;    (* nodes the worker has seen that are not in the array *)
  aclock : Z;
  arefer : list Z;
  anext : Z;
  apadd : list node;
  apdel : list Z
}.

(* the index field of the node with this id, wherever it is; a node the worker has not
   seen yet still has the -1 of newTimerNode *)
Definition node_index (s : ast) (id : Z) : Z :=
  match find (fun x => nid (hn x) =? id) (aarr s ++ aoutside s) with
  | Some x => hidx x
  | None => -1
  end.

Definition set_deadline (x : hnode) (dl : Z) : hnode :=
  mkH (mkNode (nid (hn x)) dl (nper (hn x))) (hidx x).

(* trigger(now): the loop, one iteration per unit of fuel *)
Fixpoint atrigger (fuel : nat) (now : Z) (arr outside : list hnode) (refer : list Z) (out : list deliv)
  : list hnode * list hnode * list Z * list deliv :=
  match fuel with
  | O => (arr, outside, refer, out)
  | S f =>
      match arr with
      | [] => (arr, outside, refer, out)
      | top :: _ =>
          if now <? ndl (hn top) then (arr, outside, refer, out)
          else if alive refer (hn top) then
            if 0 <? nper (hn top) then
              let arr1 := hupd arr 0 (set_deadline top (now + nper (hn top))) in
              atrigger f now (heap_fix arr1 (Z.to_nat (hidx top))) outside refer
                       (out ++ [(nid (hn top), ndl (hn top))])
            else
              let '(arr1, x) := heap_pop arr in
              atrigger f now arr1 (outside ++ [x]) (unrefer refer (nid (hn top)))
                       (out ++ [(nid (hn top), ndl (hn top))])
          else
            let '(arr1, x) := heap_pop arr in
            atrigger f now arr1 (outside ++ [x]) refer out
      end
  end.

Definition aschedule (s : ast) (d p : Z) : ast * out :=
  let id := alloc_id (anext s) (arefer s) in
  let blocked := sched_PendingQueueCapacity <=? Z.of_nat (length (apadd s)) in
  (mkA (aarr s) (aoutside s) (aclock s) (arefer s ++ [id]) id
       (apadd s ++ [mkNode id (aclock s + d + p) p]) (apdel s),
   OId blocked id).

(* probe: the array in array order with every node's index field, then the nodes outside
   it (level -1) by id *)
Fixpoint oinsert (x : hnode) (l : list hnode) : list hnode :=
  match l with
  | [] => [x]
  | y :: r => if nid (hn x) <=? nid (hn y) then x :: l else y :: oinsert x r
  end.
Definition aprobe (s : ast) : list wnode :=
  map (fun x => mkW 0 (hidx x) (hn x)) (aarr s)
  ++ map (fun x => mkW (-1) (hidx x) (hn x)) (fold_right oinsert [] (aoutside s)).

Definition astep (s : ast) (o : op) : ast * out :=
  match o with
  | Start d => aschedule s (Z.max d 0) 0
  | Every p => aschedule s 0 (if p <? 0 then 1 else p)
  | Cancel id =>
      if mem id (arefer s)
      then (mkA (aarr s) (aoutside s) (aclock s) (unrefer (arefer s) id) (anext s) (apadd s) (apdel s ++ [id]),
            OBool (sched_PendingQueueCapacity <=? Z.of_nat (length (apdel s))) true)
      else (s, OBool false false)
  | Size => (s, ONum (Z.of_nat (length (arefer s))))
  | IsSched id => (s, OFlag (mem id (arefer s)))
  | HandleAdd =>                                   (* addNode *)
      match apadd s with
      | [] => (s, OFlag false)
      | n :: q =>
          if alive (arefer s) n
          then (mkA (heap_push (aarr s) n) (aoutside s) (aclock s) (arefer s) (anext s) q (apdel s), OFlag true)
          else (mkA (aarr s) (aoutside s ++ [mkH n (-1)]) (aclock s) (arefer s) (anext s) q (apdel s), OFlag true)
      end
  | HandleDel =>                                   (* delNode *)
      match apdel s with
      | [] => (s, OFlag false)
      | id :: q =>
          let i := node_index s id in
          if 0 <=? i then
            let '(arr1, x) := heap_remove (aarr s) (Z.to_nat i) in
            (mkA arr1 (aoutside s ++ [x]) (aclock s) (arefer s) (anext s) (apadd s) q, OFlag true)
          else (mkA (aarr s) (aoutside s) (aclock s) (arefer s) (anext s) (apadd s) q, OFlag true)
      end
  | Pass n => (mkA (aarr s) (aoutside s) (aclock s + n) (arefer s) (anext s) (apadd s) (apdel s), ONone)
  | Tick =>
      let '(arr, outside, r, o) :=
        atrigger (S (length (aarr s))) (aclock s) (aarr s) (aoutside s) (arefer s) [] in
      (mkA arr outside (aclock s) r (anext s) (apadd s) (apdel s), ODeliv o)
  | Probe => (s, OProbe (aprobe s))
  end.

Definition ainit (now : Z) : ast := mkA [] [] now [] 0 [] [].

Fixpoint arun (s : ast) (ops : list op) : ast * list out :=
  match ops with
  | [] => (s, [])
  | o :: r => let '(s1, x) := astep s o in let '(s2, xs) := arun s1 r in (s2, x :: xs)
  end.
