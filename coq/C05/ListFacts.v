(* C05 — list facts used by the refinement proofs: sorted permutations are equal, the
   specification's insertion sort, folding unrefer = filtering. *)
From Coq Require Import ZArith List Bool Lia Permutation Sorted.
From FV Require Import C05.Model C05.Spec C05.WheelInv.
Import ListNotations.
Open Scope Z_scope.

Lemma sorted_perm_eq (a : list Z) : forall b,
  StronglySorted Z.le a -> StronglySorted Z.le b -> Permutation a b -> a = b.
Proof.
  induction a as [|x a IH]; intros b Ha Hb Hp.
  - apply Permutation_nil in Hp. subst. reflexivity.
  - destruct b as [|y b]; [apply Permutation_sym, Permutation_nil in Hp; discriminate|].
    inversion Ha as [|? ? Ha' Hxa]; subst. inversion Hb as [|? ? Hb' Hyb]; subst.
    assert (x = y).
    { assert (Hx : In x (y :: b)) by (eapply Permutation_in; [exact Hp|left; reflexivity]).
      assert (Hy : In y (x :: a)) by (eapply Permutation_in; [apply Permutation_sym; exact Hp|left; reflexivity]).
      rewrite Forall_forall in Hxa, Hyb.
      destruct Hx as [Hx|Hx]; [congruence|]. destruct Hy as [Hy|Hy]; [congruence|].
      specialize (Hxa y Hy). specialize (Hyb x Hx). lia. }
    subst y. f_equal. apply IH; [exact Ha'|exact Hb'|]. eapply Permutation_cons_inv. exact Hp.
Qed.

(* the specification's sort *)
Lemma dinsert_perm n l : Permutation (dinsert n l) (n :: l).
Proof.
  induction l as [|x r IH]; cbn; [reflexivity|]. destruct (dle n x); [reflexivity|].
  etransitivity; [apply perm_skip; exact IH|apply perm_swap].
Qed.

Lemma dsort_perm l : Permutation (dsort l) l.
Proof.
  induction l as [|x r IH]; cbn; [constructor|].
  etransitivity; [apply dinsert_perm|]. constructor. exact IH.
Qed.

Lemma dinsert_sorted n l :
  StronglySorted Z.le (map ndl l) -> StronglySorted Z.le (map ndl (dinsert n l)).
Proof.
  induction l as [|x r IH]; cbn; intros H.
  - constructor; constructor.
  - inversion H as [|? ? Hr Hx]; subst. destruct (dle n x) eqn:Hd; cbn.
    + assert (Hnx : ndl n <= ndl x).
      { unfold dle in Hd. apply orb_true_iff in Hd. destruct Hd as [Hd|Hd]; [lia|].
        apply andb_true_iff in Hd. lia. }
      constructor; [exact H|]. constructor; [exact Hnx|].
      eapply Forall_impl; [|exact Hx]. intros; lia.
    + assert (Hxn : ndl x <= ndl n).
      { unfold dle in Hd. apply orb_false_iff in Hd. destruct Hd as [H1 H2].
        apply andb_false_iff in H2. destruct H2; lia. }
      constructor; [apply IH; exact Hr|].
      apply Forall_forall. intros z Hz. apply in_map_iff in Hz. destruct Hz as [m [<- Hm]].
      apply (Permutation_in _ (dinsert_perm n r)) in Hm. destruct Hm as [<-|Hm]; [exact Hxn|].
      rewrite Forall_forall in Hx. apply Hx. apply in_map. exact Hm.
Qed.

Lemma dsort_sorted l : StronglySorted Z.le (map ndl (dsort l)).
Proof. induction l as [|x r IH]; cbn; [constructor|]. apply dinsert_sorted. exact IH. Qed.

(* the heap's sort *)
Lemma hinsert_perm n l : Permutation (hinsert n l) (n :: l).
Proof.
  induction l as [|x r IH]; cbn; [reflexivity|]. destruct (hless x n); [|reflexivity].
  etransitivity; [apply perm_skip; exact IH|apply perm_swap].
Qed.

Lemma hsort_perm l : Permutation (hsort l) l.
Proof.
  induction l as [|x r IH]; cbn; [constructor|].
  etransitivity; [apply hinsert_perm|]. constructor. exact IH.
Qed.

Lemma hinsert_sorted n l :
  StronglySorted Z.le (map ndl l) -> StronglySorted Z.le (map ndl (hinsert n l)).
Proof.
  induction l as [|x r IH]; cbn; intros H.
  - constructor; constructor.
  - inversion H as [|? ? Hr Hx]; subst. destruct (hless x n) eqn:Hd; cbn.
    + assert (Hxn : ndl x <= ndl n).
      { unfold hless in Hd. destruct (Z.eqb_spec (ndl x) (ndl n)); lia. }
      constructor; [apply IH; exact Hr|].
      apply Forall_forall. intros z Hz. apply in_map_iff in Hz. destruct Hz as [m [<- Hm]].
      apply (Permutation_in _ (hinsert_perm n r)) in Hm. destruct Hm as [<-|Hm]; [exact Hxn|].
      rewrite Forall_forall in Hx. apply Hx. apply in_map. exact Hm.
    + assert (Hnx : ndl n <= ndl x).
      { unfold hless in Hd. destruct (Z.eqb_spec (ndl x) (ndl n)); lia. }
      constructor; [exact H|]. constructor; [exact Hnx|].
      eapply Forall_impl; [|exact Hx]. intros; lia.
Qed.

Lemma hsort_sorted l : StronglySorted Z.le (map ndl (hsort l)).
Proof. induction l as [|x r IH]; cbn; [constructor|]. apply hinsert_sorted. exact IH. Qed.

(* removing ids one after the other = filtering *)
Lemma filter_filter' {A} (f g : A -> bool) l :
  filter f (filter g l) = filter (fun x => g x && f x) l.
Proof.
  induction l as [|x r IH]; cbn; [reflexivity|].
  destruct (g x); cbn; [destruct (f x); cbn; rewrite IH; reflexivity|exact IH].
Qed.

Lemma filter_true {A} (l : list A) : filter (fun _ => true) l = l.
Proof. induction l as [|x r IH]; cbn; [reflexivity|]. f_equal. exact IH. Qed.

Lemma mem_cons x i ids : mem x (i :: ids) = (x =? i) || mem x ids.
Proof. reflexivity. Qed.

Lemma unrefer_fold ids : forall r,
  fold_left unrefer ids r = filter (fun x => negb (mem x ids)) r.
Proof.
  induction ids as [|i ids IH]; intros r; cbn [fold_left].
  - symmetry. apply filter_true.
  - rewrite IH. unfold unrefer. rewrite filter_filter'. apply filter_ext.
    intros x. rewrite mem_cons, negb_orb. reflexivity.
Qed.

Lemma mem_filter x (f : Z -> bool) r : mem x (filter f r) = mem x r && f x.
Proof.
  destruct (mem x r) eqn:Hm; cbn.
  - destruct (f x) eqn:Hf.
    + apply mem_In. apply filter_In. split; [apply mem_In; exact Hm|exact Hf].
    + apply not_true_is_false. rewrite mem_In, filter_In. intros [_ H]. congruence.
  - apply not_true_is_false. rewrite mem_In, filter_In. intros [H _]. apply mem_In in H. congruence.
Qed.

Lemma mem_ext a b : (forall x, In x a <-> In x b) -> forall x, mem x a = mem x b.
Proof.
  intros H x. destruct (mem x a) eqn:Ha; symmetry.
  - apply mem_In. apply H. apply mem_In. exact Ha.
  - apply not_true_is_false. intros Hb. apply mem_In, H, mem_In in Hb. congruence.
Qed.

(* distinct ids: a node is determined by its id *)
Lemma nodup_ids_inj (N : list node) a b :
  NoDup (map nid N) -> In a N -> In b N -> nid a = nid b -> a = b.
Proof.
  induction N as [|n N IH]; cbn; [tauto|].
  intros Hnd [Ha|Ha] [Hb|Hb] E; inversion Hnd as [|? ? Hn Hd]; subst.
  - reflexivity.
  - exfalso. apply Hn. rewrite E. apply in_map. exact Hb.
  - exfalso. apply Hn. rewrite <- E. apply in_map. exact Ha.
  - apply IH; assumption.
Qed.

Lemma nodup_nodes (N : list node) : NoDup (map nid N) -> NoDup N.
Proof. apply NoDup_map_inv. Qed.
