(* C05 — the wheel invariant and its preservation by addNode, cascade, shiftWheels,
   expireNear and tick, for every position of the wheel (including every cascade boundary
   and the 2^32 wrap of currTick). *)
From Coq Require Import ZArith List Bool Lia ZifyBool Permutation.
From FV Require Import Generated.Consts Lib.Bits C05.Model C05.Spec C05.Geom.
Import ListNotations.
Open Scope Z_scope.
Ltac Zify.zify_post_hook ::= Z.div_mod_to_equations.

(* ------------------------------------------------------------------------------------ *)
(* structure of the list operations *)

Definition tag (cur tt : Z) (n : node) : wnode :=
  let '(l, s) := bucket_of cur tt n in mkW l s n.

Lemma wn_tag cur tt n : wn (tag cur tt n) = n.
Proof. unfold tag. destruct (bucket_of cur tt n). reflexivity. Qed.

Lemma map_wn_tag cur tt ns : map wn (map (tag cur tt) ns) = ns.
Proof. induction ns as [|n r IH]; cbn; [reflexivity|]. rewrite wn_tag, IH. reflexivity. Qed.

Lemma add_node_eq w n :
  add_node w n = mkWheel (wcur w) (wtt w) (wnodes w ++ [tag (wcur w) (wtt w) n]).
Proof. unfold add_node, tag, set_nodes. destruct (bucket_of (wcur w) (wtt w) n). reflexivity. Qed.

Lemma fold_add_node ns : forall w,
  fold_left add_node ns w = mkWheel (wcur w) (wtt w) (wnodes w ++ map (tag (wcur w) (wtt w)) ns).
Proof.
  induction ns as [|n r IH]; intros w; cbn [fold_left map].
  - rewrite app_nil_r. destruct w; reflexivity.
  - rewrite IH, add_node_eq. cbn [wcur wtt wnodes]. rewrite <- app_assoc. reflexivity.
Qed.

Lemma partition_filter {A} (f : A -> bool) l :
  partition f l = (filter f l, filter (fun x => negb (f x)) l).
Proof.
  induction l as [|x r IH]; cbn; [reflexivity|]. rewrite IH. destruct (f x); reflexivity.
Qed.

Lemma cascade_eq k idx w :
  cascade k idx w =
  mkWheel (wcur w) (wtt w)
          (filter (fun x => negb (in_bucket (k + 1) idx x)) (wnodes w)
           ++ map (tag (wcur w) (wtt w)) (map wn (filter (in_bucket (k + 1) idx) (wnodes w)))).
Proof. unfold cascade. rewrite partition_filter, fold_add_node. reflexivity. Qed.

Lemma filter_ext_in' {A} (f g : A -> bool) l :
  (forall x, In x l -> f x = g x) -> filter f l = filter g l.
Proof.
  induction l as [|x r IH]; intros H; cbn; [reflexivity|].
  rewrite (H x (or_introl eq_refl)), IH; [reflexivity|]. intros y Hy. apply H. right. exact Hy.
Qed.

(* ------------------------------------------------------------------------------------ *)
(* aliveness and the refer list *)

Lemma mem_In x l : mem x l = true <-> In x l.
Proof.
  unfold mem. rewrite existsb_exists. split.
  - intros [y [Hy He]]. apply Z.eqb_eq in He. subst. exact Hy.
  - intros H. exists x. split; [exact H|apply Z.eqb_refl].
Qed.

Lemma mem_unrefer x r id : mem x (unrefer r id) = mem x r && negb (x =? id).
Proof.
  unfold unrefer. destruct (mem x r) eqn:Hm; cbn.
  - destruct (x =? id) eqn:He; cbn.
    + apply Z.eqb_eq in He. subst. apply not_true_is_false. rewrite mem_In, filter_In.
      intros [_ H]. rewrite Z.eqb_refl in H. discriminate.
    + apply mem_In. apply filter_In. split; [apply mem_In; exact Hm|]. rewrite He. reflexivity.
  - apply not_true_is_false. rewrite mem_In, filter_In. intros [H _]. apply mem_In in H. congruence.
Qed.

Lemma alive_unrefer_other r id n : nid n <> id -> alive (unrefer r id) n = alive r n.
Proof.
  intros H. unfold alive. rewrite mem_unrefer.
  destruct (Z.eqb_spec (nid n) id); [contradiction|]. apply andb_true_r.
Qed.

(* ------------------------------------------------------------------------------------ *)
(* expireNear on the detached bucket *)

Definition deliv_of (n : node) : deliv := (nid n, ndl n).

Lemma expire_one_eq w r o n :
  expire_one (w, r, o) n =
  if alive r n then
    if periodic n then (add_node w (rearm (wtt w) n), r, o ++ [deliv_of n])
    else (w, unrefer r (nid n), o ++ [deliv_of n])
  else (w, r, o).
Proof. reflexivity. Qed.

Lemma expire_fold ns : forall w r o,
  NoDup (map nid ns) ->
  fold_left expire_one ns (w, r, o) =
  (mkWheel (wcur w) (wtt w)
           (wnodes w ++ map (tag (wcur w) (wtt w))
                            (map (rearm (wtt w)) (filter (fun n => alive r n && periodic n) ns))),
   fold_left unrefer (map nid (filter (fun n => alive r n && negb (periodic n)) ns)) r,
   o ++ map deliv_of (filter (alive r) ns)).
Proof.
  induction ns as [|n rest IH]; intros w r o Hnd; cbn [fold_left map filter].
  - rewrite !app_nil_r. destruct w; reflexivity.
  - inversion Hnd as [|? ? Hnotin Hnd']; subst.
    rewrite expire_one_eq. destruct (alive r n) eqn:Ha; cbn [andb].
    + destruct (periodic n) eqn:Hp; cbn [negb].
      * rewrite IH by exact Hnd'. rewrite add_node_eq. cbn [wcur wtt wnodes map fold_left].
        rewrite <- !app_assoc. reflexivity.
      * rewrite IH by exact Hnd'. cbn [map fold_left].
        assert (Hf : forall g : node -> bool,
                   filter (fun m => alive (unrefer r (nid n)) m && g m) rest
                   = filter (fun m => alive r m && g m) rest).
        { intros g. apply filter_ext_in'. intros m Hm. rewrite alive_unrefer_other; [reflexivity|].
          intros He. apply Hnotin. rewrite <- He. apply in_map. exact Hm. }
        rewrite !Hf.
        assert (Hf2 : filter (alive (unrefer r (nid n))) rest = filter (alive r) rest).
        { apply filter_ext_in'. intros m Hm. apply alive_unrefer_other.
          intros He. apply Hnotin. rewrite <- He. apply in_map. exact Hm. }
        rewrite Hf2. rewrite <- !app_assoc. reflexivity.
    + apply IH. exact Hnd'.
Qed.

(* ------------------------------------------------------------------------------------ *)
(* positions *)

Definition nok (lo cur tt : Z) (x : wnode) : Prop :=
  pos_ok lo cur (cur + (ndl (wn x) - tt)) (wlvl x) (wslot x).

Lemma nok_dl lo cur tt x : cur <= lo -> nok lo cur tt x -> tt <= ndl (wn x).
Proof.
  unfold nok, pos_ok, lvl_ok. intros Hlo H.
  destruct H as [[_ [H _]]|[[_ [C [H _]]]|[[_ [C [H _]]]|[[_ [C [H _]]]|[_ [C [H _]]]]]]]; lia.
Qed.

Lemma lvl_ok_weaken sh lo lo' cur e s : lo' <= lo -> lvl_ok sh lo cur e s -> lvl_ok sh lo' cur e s.
Proof. intros Hl [C [H1 H2]]. exists C. split; [lia|exact H2]. Qed.

Lemma nok_weaken lo lo' cur tt x : lo' <= lo -> nok lo cur tt x -> nok lo' cur tt x.
Proof.
  unfold nok, pos_ok. intros Hl H.
  destruct H as [H|[[E H]|[[E H]|[[E H]|[E H]]]]]; [left; exact H|..];
    [right; left|right; right; left|right; right; right; left|right; right; right; right];
    (split; [exact E|eapply lvl_ok_weaken; eassumption]).
Qed.

Lemma tag_ok cur tt n : 0 <= cur -> tt <= ndl n -> nok (cur + 1) cur tt (tag cur tt n).
Proof.
  intros Hc Hd. unfold nok, tag. destruct (bucket_of cur tt n) as [l s] eqn:Hb. cbn [wn wlvl wslot].
  eapply bucket_of_ok; eassumption.
Qed.

(* between ticks, the bucket expireNear looks at holds exactly the nodes whose deadline
   is the current tick time *)
Lemma in_near_bucket c t x :
  0 <= c -> nok (c + 1) c t x ->
  in_bucket 0 (Z.land (u32 c) sched_TVR_MASK) x = (ndl (wn x) =? t).
Proof.
  intros Hc H. unfold in_bucket, sched_TVR_MASK, u32. rewrite land_255.
  unfold nok, pos_ok, lvl_ok in H.
  destruct H as [[El [Hr Hs]]|[[El [C [H _]]]|[[El [C [H _]]]|[[El [C [H _]]]|[El [C [H _]]]]]]];
    rewrite El; cbn [Z.eqb andb].
  - rewrite Hs. destruct (Z.eqb_spec (ndl (wn x)) t) as [E|E].
    + apply Z.eqb_eq. subst t. lia.
    + apply Z.eqb_neq. lia.
  - symmetry. apply Z.eqb_neq. lia.
  - symmetry. apply Z.eqb_neq. lia.
  - symmetry. apply Z.eqb_neq. lia.
  - symmetry. apply Z.eqb_neq. lia.
Qed.

(* the tick counter moves: a node that was not due stays correctly placed, its cascade
   time may now be the current tick *)
Lemma advance_ok c t x :
  nok (c + 1) c t x -> ndl (wn x) <> t -> nok (c + 1) (c + 1) (t + 1) x.
Proof.
  unfold nok. replace (c + 1 + (ndl (wn x) - (t + 1))) with (c + (ndl (wn x) - t)) by lia.
  set (e := c + (ndl (wn x) - t)). intros H Hne. assert (He : e <> c) by lia. clearbody e.
  unfold pos_ok, lvl_ok in *.
  destruct H as [[El [Hr Hs]]|[[El [C H]]|[[El [C H]]|[[El [C H]]|[El [C H]]]]]].
  - left. lia.
  - right; left. split; [exact El|]. exists C. lia.
  - right; right; left. split; [exact El|]. exists C. lia.
  - right; right; right; left. split; [exact El|]. exists C. lia.
  - right; right; right; right. split; [exact El|]. exists C. lia.
Qed.

(* a bucket of outer level sh that is not the one being cascaded has its cascade time in
   the future *)
Lemma lvl_strict_slot sh c e s :
  lvl_ok sh c c e s -> s <> (c / 2 ^ sh) mod 64 -> lvl_ok sh (c + 1) c e s.
Proof.
  intros [C [H1 [H2 [H3 H4]]]] Hs. exists C. repeat split; try assumption; try lia.
  destruct (Z.eq_dec C c) as [E|E]; [subst C; contradiction|lia].
Qed.

Lemma lvl_strict_mod sh c e s :
  lvl_ok sh c c e s -> c mod 2 ^ sh <> 0 -> lvl_ok sh (c + 1) c e s.
Proof.
  intros [C [H1 [H2 [H3 H4]]]] Hs. exists C. repeat split; try assumption; try lia.
  destruct (Z.eq_dec C c) as [E|E]; [subst C; contradiction|lia].
Qed.

Lemma nok_strict_mod c t x :
  nok c c t x ->
  (wlvl x = 1 -> c mod 2 ^ 8 <> 0) -> (wlvl x = 2 -> c mod 2 ^ 14 <> 0) ->
  (wlvl x = 3 -> c mod 2 ^ 20 <> 0) -> (wlvl x = 4 -> c mod 2 ^ 26 <> 0) ->
  nok (c + 1) c t x.
Proof.
  unfold nok, pos_ok. intros H H1 H2 H3 H4.
  destruct H as [H|[[E H]|[[E H]|[[E H]|[E H]]]]]; [left; exact H|..];
    [right; left|right; right; left|right; right; right; left|right; right; right; right];
    (split; [exact E|apply lvl_strict_mod; [exact H|auto]]).
Qed.

(* levels 1..j have been cascaded at this tick already *)
Definition sok (j c t : Z) (x : wnode) : Prop :=
  nok c c t x /\ (wlvl x <= j -> nok (c + 1) c t x).

Lemma cascade_ok k c t nodes :
  0 <= c -> 0 <= k <= 3 ->
  Forall (sok k c t) nodes ->
  Forall (sok (k + 1) c t)
         (filter (fun x => negb (in_bucket (k + 1) ((c / 2 ^ (8 + 6 * k)) mod 64) x)) nodes
          ++ map (tag c t) (map wn (filter (in_bucket (k + 1) ((c / 2 ^ (8 + 6 * k)) mod 64)) nodes))).
Proof.
  intros Hc Hk Hall. apply Forall_app. split.
  - apply Forall_forall. intros x Hx. apply filter_In in Hx. destruct Hx as [Hx Hb].
    rewrite Forall_forall in Hall. destruct (Hall x Hx) as [Hn Hs]. split; [exact Hn|].
    intros Hl. destruct (Z_le_gt_dec (wlvl x) k) as [Hle|Hgt]; [apply Hs; exact Hle|].
    assert (El : wlvl x = k + 1) by lia.
    unfold in_bucket in Hb. rewrite El, Z.eqb_refl in Hb. cbn [andb] in Hb.
    apply negb_true_iff, Z.eqb_neq in Hb.
    unfold nok, pos_ok in *.
    assert (Hk' : k = 0 \/ k = 1 \/ k = 2 \/ k = 3) by lia.
    destruct Hk' as [-> | [-> | [-> | ->]]]; cbn in Hb, El;
      destruct Hn as [[E _]|[[E H]|[[E H]|[[E H]|[E H]]]]]; try lia.
    + right; left. split; [exact E|]. apply lvl_strict_slot; assumption.
    + right; right; left. split; [exact E|]. apply lvl_strict_slot; assumption.
    + right; right; right; left. split; [exact E|]. apply lvl_strict_slot; assumption.
    + right; right; right; right. split; [exact E|]. apply lvl_strict_slot; assumption.
  - apply Forall_forall. intros y Hy. apply in_map_iff in Hy. destruct Hy as [n [<- Hn]].
    apply in_map_iff in Hn. destruct Hn as [x [<- Hx]]. apply filter_In in Hx. destruct Hx as [Hx _].
    rewrite Forall_forall in Hall. destruct (Hall x Hx) as [Hn _].
    assert (Hok : nok (c + 1) c t (tag c t (wn x))).
    { apply tag_ok; [exact Hc|]. eapply nok_dl; [|exact Hn]. lia. }
    split; [eapply nok_weaken; [|exact Hok]; lia|intros _; exact Hok].
Qed.

(* ------------------------------------------------------------------------------------ *)
(* shiftWheels, unrolled for the four outer levels *)

Definition shift_unrolled (w : wheel) : wheel :=
  let c := wcur w in
  if c mod 256 =? 0 then
    let w0 := cascade 0 ((c / 2 ^ 8) mod 64) w in
    if (c / 2 ^ 8) mod 64 =? 0 then
      let w1 := cascade 1 ((c / 2 ^ 14) mod 64) w0 in
      if (c / 2 ^ 14) mod 64 =? 0 then
        let w2 := cascade 2 ((c / 2 ^ 20) mod 64) w1 in
        if (c / 2 ^ 20) mod 64 =? 0 then cascade 3 ((c / 2 ^ 26) mod 64) w2 else w2
      else w1
    else w0
  else w.

Lemma shift_wheels_eq w : 0 <= wcur w -> shift_wheels w = shift_unrolled w.
Proof.
  intros Hc. unfold shift_wheels, shift_unrolled, sched_TVR_MASK, sched_TVR_BITS, sched_WHEEL_LEVEL, u32.
  change (Z.to_nat 4) with 4%nat. cbn [shift_loop].
  unfold sched_TVN_MASK, sched_TVN_BITS. rewrite land_255, !land_63, !shiftr_div by lia.
  set (c := wcur w) in *.
  replace ((c mod 2 ^ 32) mod 256) with (c mod 256) by lia.
  replace ((c mod 2 ^ 32 / 2 ^ 8) mod 64) with ((c / 2 ^ 8) mod 64) by lia.
  replace ((c mod 2 ^ 32 / 2 ^ 8 / 2 ^ 6) mod 64) with ((c / 2 ^ 14) mod 64) by lia.
  replace ((c mod 2 ^ 32 / 2 ^ 8 / 2 ^ 6 / 2 ^ 6) mod 64) with ((c / 2 ^ 20) mod 64) by lia.
  replace ((c mod 2 ^ 32 / 2 ^ 8 / 2 ^ 6 / 2 ^ 6 / 2 ^ 6) mod 64) with ((c / 2 ^ 26) mod 64) by lia.
  replace (0 + 1) with 1 by lia. replace (1 + 1) with 2 by lia. replace (2 + 1) with 3 by lia.
  destruct (c mod 256 =? 0); [|reflexivity].
  destruct ((c / 2 ^ 8) mod 64 =? 0); [|reflexivity].
  destruct ((c / 2 ^ 14) mod 64 =? 0); [|reflexivity].
  destruct ((c / 2 ^ 20) mod 64 =? 0); [|reflexivity].
  destruct ((c / 2 ^ 26) mod 64 =? 0); reflexivity.
Qed.

Lemma cascade_cur k i w : wcur (cascade k i w) = wcur w /\ wtt (cascade k i w) = wtt w.
Proof. rewrite cascade_eq. split; reflexivity. Qed.

Lemma sok_all c t x : sok 4 c t x -> nok (c + 1) c t x.
Proof.
  intros [Hn Hs]. unfold nok, pos_ok in Hn.
  apply Hs. destruct Hn as [[E _]|[[E _]|[[E _]|[[E _]|[E _]]]]]; lia.
Qed.

(* after shiftWheels every outer bucket's cascade time is in the future again *)
Lemma shift_ok w :
  0 <= wcur w ->
  Forall (nok (wcur w) (wcur w) (wtt w)) (wnodes w) ->
  wcur (shift_wheels w) = wcur w /\ wtt (shift_wheels w) = wtt w /\
  Forall (nok (wcur w + 1) (wcur w) (wtt w)) (wnodes (shift_wheels w)).
Proof.
  intros Hc Hall. rewrite shift_wheels_eq by exact Hc. unfold shift_unrolled.
  set (c := wcur w) in *. set (t := wtt w) in *.
  assert (H0 : Forall (sok 0 c t) (wnodes w)).
  { eapply Forall_impl; [|exact Hall]. intros x Hx. split; [exact Hx|].
    intros Hl. unfold nok, pos_ok in *.
    destruct Hx as [H|[[E _]|[[E _]|[[E _]|[E _]]]]]; lia. }
  destruct (Z.eqb_spec (c mod 256) 0) as [Hm|Hm].
  2:{ repeat split; try reflexivity. eapply Forall_impl; [|exact Hall].
      intros x Hx. apply nok_strict_mod; [exact Hx|intros _; lia ..]. }
  (* level 0 *)
  pose proof (cascade_ok 0 c t (wnodes w) Hc ltac:(lia) H0) as H1.
  change (8 + 6 * 0) with 8 in H1. change (0 + 1) with 1 in H1.
  set (w0 := cascade 0 ((c / 2 ^ 8) mod 64) w).
  assert (E0 : wnodes w0 = filter (fun x => negb (in_bucket 1 ((c / 2 ^ 8) mod 64) x)) (wnodes w) ++
               map (tag c t) (map wn (filter (in_bucket 1 ((c / 2 ^ 8) mod 64)) (wnodes w)))).
  { unfold w0. rewrite cascade_eq. reflexivity. }
  rewrite <- E0 in H1.
  assert (C0 : wcur w0 = c /\ wtt w0 = t) by (unfold w0; apply cascade_cur).
  destruct (Z.eqb_spec ((c / 2 ^ 8) mod 64) 0) as [Hi0|Hi0].
  2:{ repeat split; try tauto. eapply Forall_impl; [|exact H1].
      intros x [Hn Hs]. destruct (Z_le_gt_dec (wlvl x) 1); [apply Hs; assumption|].
      apply nok_strict_mod; [exact Hn|intros; lia ..]. }
  (* level 1 *)
  pose proof (cascade_ok 1 c t (wnodes w0) Hc ltac:(lia) H1) as H2.
  change (8 + 6 * 1) with 14 in H2. change (1 + 1) with 2 in H2.
  set (w1 := cascade 1 ((c / 2 ^ 14) mod 64) w0).
  assert (E1 : wnodes w1 = filter (fun x => negb (in_bucket 2 ((c / 2 ^ 14) mod 64) x)) (wnodes w0) ++
               map (tag c t) (map wn (filter (in_bucket 2 ((c / 2 ^ 14) mod 64)) (wnodes w0)))).
  { unfold w1. rewrite cascade_eq. destruct C0 as [-> ->]. reflexivity. }
  rewrite <- E1 in H2.
  assert (C1 : wcur w1 = c /\ wtt w1 = t).
  { unfold w1. destruct (cascade_cur 1 ((c / 2 ^ 14) mod 64) w0). lia. }
  destruct (Z.eqb_spec ((c / 2 ^ 14) mod 64) 0) as [Hi1|Hi1].
  2:{ repeat split; try tauto. eapply Forall_impl; [|exact H2].
      intros x [Hn Hs]. destruct (Z_le_gt_dec (wlvl x) 2); [apply Hs; assumption|].
      apply nok_strict_mod; [exact Hn|intros; lia ..]. }
  (* level 2 *)
  pose proof (cascade_ok 2 c t (wnodes w1) Hc ltac:(lia) H2) as H3.
  change (8 + 6 * 2) with 20 in H3. change (2 + 1) with 3 in H3.
  set (w2 := cascade 2 ((c / 2 ^ 20) mod 64) w1).
  assert (E2 : wnodes w2 = filter (fun x => negb (in_bucket 3 ((c / 2 ^ 20) mod 64) x)) (wnodes w1) ++
               map (tag c t) (map wn (filter (in_bucket 3 ((c / 2 ^ 20) mod 64)) (wnodes w1)))).
  { unfold w2. rewrite cascade_eq. destruct C1 as [-> ->]. reflexivity. }
  rewrite <- E2 in H3.
  assert (C2 : wcur w2 = c /\ wtt w2 = t).
  { unfold w2. destruct (cascade_cur 2 ((c / 2 ^ 20) mod 64) w1). lia. }
  destruct (Z.eqb_spec ((c / 2 ^ 20) mod 64) 0) as [Hi2|Hi2].
  2:{ repeat split; try tauto. eapply Forall_impl; [|exact H3].
      intros x [Hn Hs]. destruct (Z_le_gt_dec (wlvl x) 3); [apply Hs; assumption|].
      apply nok_strict_mod; [exact Hn|intros; lia ..]. }
  (* level 3 *)
  pose proof (cascade_ok 3 c t (wnodes w2) Hc ltac:(lia) H3) as H4.
  change (8 + 6 * 3) with 26 in H4. change (3 + 1) with 4 in H4.
  set (w3 := cascade 3 ((c / 2 ^ 26) mod 64) w2).
  assert (E3 : wnodes w3 = filter (fun x => negb (in_bucket 4 ((c / 2 ^ 26) mod 64) x)) (wnodes w2) ++
               map (tag c t) (map wn (filter (in_bucket 4 ((c / 2 ^ 26) mod 64)) (wnodes w2)))).
  { unfold w3. rewrite cascade_eq. destruct C2 as [-> ->]. reflexivity. }
  rewrite <- E3 in H4.
  assert (C3 : wcur w3 = c /\ wtt w3 = t).
  { unfold w3. destruct (cascade_cur 3 ((c / 2 ^ 26) mod 64) w2). lia. }
  repeat split; try tauto. eapply Forall_impl; [|exact H4]. intros x. apply sok_all.
Qed.

(* ------------------------------------------------------------------------------------ *)
(* content of the wheel (the multiset of nodes, tags forgotten) *)

Definition wcontent (w : wheel) : list node := map wn (wnodes w).

Lemma map_filter_wn (P : node -> bool) l :
  map wn (filter (fun x => P (wn x)) l) = filter P (map wn l).
Proof.
  induction l as [|x r IH]; cbn; [reflexivity|]. destruct (P (wn x)); cbn; rewrite IH; reflexivity.
Qed.

Lemma filter_partition_perm {A} (f : A -> bool) l :
  Permutation (filter (fun x => negb (f x)) l ++ filter f l) l.
Proof.
  induction l as [|x r IH]; cbn; [constructor|]. destruct (f x); cbn.
  - apply Permutation_sym. apply Permutation_cons_app. apply Permutation_sym. exact IH.
  - constructor. exact IH.
Qed.

Lemma cascade_content k i w : Permutation (wcontent (cascade k i w)) (wcontent w).
Proof.
  unfold wcontent. rewrite cascade_eq. cbn [wnodes]. rewrite map_app, map_wn_tag, <- map_app.
  apply Permutation_map. apply filter_partition_perm.
Qed.

Lemma shift_content w : 0 <= wcur w -> Permutation (wcontent (shift_wheels w)) (wcontent w).
Proof.
  intros Hc. rewrite shift_wheels_eq by exact Hc. unfold shift_unrolled.
  destruct (wcur w mod 256 =? 0); [|reflexivity].
  destruct ((wcur w / 2 ^ 8) mod 64 =? 0); [|apply cascade_content].
  destruct ((wcur w / 2 ^ 14) mod 64 =? 0);
    [|etransitivity; [apply cascade_content|apply cascade_content]].
  destruct ((wcur w / 2 ^ 20) mod 64 =? 0);
    [|etransitivity; [apply cascade_content|etransitivity; [apply cascade_content|apply cascade_content]]].
  etransitivity; [apply cascade_content|].
  etransitivity; [apply cascade_content|etransitivity; [apply cascade_content|apply cascade_content]].
Qed.

(* one expiry phase at time t on the content: due nodes leave, the scheduled periodic ones
   come back re-armed, the scheduled one-shot ones leave the refer map *)
Definition due_at (t : Z) (n : node) : bool := ndl n =? t.

Definition phase (t : Z) (r : list Z) (N : list node) : list node * list Z * list deliv :=
  let D := filter (due_at t) N in
  (filter (fun n => negb (due_at t n)) N ++ map (rearm t) (filter (fun n => alive r n && periodic n) D),
   fold_left unrefer (map nid (filter (fun n => alive r n && negb (periodic n)) D)) r,
   map deliv_of (filter (alive r) D)).

Lemma NoDup_map_filter {A B} (g : A -> B) (f : A -> bool) l :
  NoDup (map g l) -> NoDup (map g (filter f l)).
Proof.
  induction l as [|x r IH]; cbn; intros H; [constructor|].
  inversion H as [|? ? Hn Hd]; subst. destruct (f x); cbn; [|apply IH; exact Hd].
  constructor; [|apply IH; exact Hd].
  intros Hin. apply Hn. apply in_map_iff in Hin. destruct Hin as [y [Hy Hin]].
  apply filter_In in Hin. rewrite <- Hy. apply in_map. tauto.
Qed.

Lemma expire_near_eq w r :
  0 <= wcur w ->
  Forall (nok (wcur w + 1) (wcur w) (wtt w)) (wnodes w) ->
  NoDup (map nid (wcontent w)) ->
  exists w',
    expire_near w r = (w', snd (fst (phase (wtt w) r (wcontent w))), snd (phase (wtt w) r (wcontent w))) /\
    wcur w' = wcur w /\ wtt w' = wtt w /\
    wcontent w' = fst (fst (phase (wtt w) r (wcontent w))) /\
    wnodes w' = filter (fun x => negb (due_at (wtt w) (wn x))) (wnodes w)
                ++ map (tag (wcur w) (wtt w))
                       (map (rearm (wtt w))
                            (filter (fun n => alive r n && periodic n) (filter (due_at (wtt w)) (wcontent w)))).
Proof.
  intros Hc Hall Hnd. unfold expire_near. rewrite partition_filter.
  set (c := wcur w) in *. set (t := wtt w) in *.
  assert (Hb : forall x, In x (wnodes w) ->
               in_bucket 0 (Z.land (u32 c) sched_TVR_MASK) x = due_at t (wn x)).
  { intros x Hx. rewrite Forall_forall in Hall. apply in_near_bucket; [exact Hc|apply Hall; exact Hx]. }
  rewrite (filter_ext_in' _ (fun x => due_at t (wn x)) _ Hb).
  rewrite (filter_ext_in' (fun x => negb (in_bucket 0 (Z.land (u32 c) sched_TVR_MASK) x))
                          (fun x => negb (due_at t (wn x))) (wnodes w))
    by (intros x Hx; rewrite Hb by exact Hx; reflexivity).
  rewrite (map_filter_wn (due_at t)). fold (wcontent w).
  rewrite expire_fold by (apply NoDup_map_filter; exact Hnd).
  cbn [set_nodes wcur wtt wnodes app]. fold c t.
  eexists. split; [reflexivity|]. cbn [wcur wtt wnodes]. repeat split.
  unfold wcontent at 1. cbn [wnodes]. rewrite map_app, map_wn_tag.
  rewrite (map_filter_wn (fun n => negb (due_at t n))). reflexivity.
Qed.

(* ------------------------------------------------------------------------------------ *)
(* the invariant *)

Definition per_ok (t : Z) (N : list node) : Prop := Forall (fun n => 0 < nper n -> t < ndl n) N.

Definition winv (w : wheel) : Prop :=
  0 <= wcur w /\
  Forall (nok (wcur w + 1) (wcur w) (wtt w)) (wnodes w) /\
  NoDup (map nid (wcontent w)) /\
  per_ok (wtt w) (wcontent w).

Lemma nodup_app_intro {A} (a b : list A) :
  NoDup a -> NoDup b -> (forall x, In x a -> ~ In x b) -> NoDup (a ++ b).
Proof.
  induction a as [|x r IH]; cbn; intros Ha Hb H; [exact Hb|].
  inversion Ha as [|? ? Hn Hd]; subst. constructor.
  - rewrite in_app_iff. intros [Hi|Hi]; [contradiction|]. apply (H x); [left; reflexivity|exact Hi].
  - apply IH; [exact Hd|exact Hb|]. intros y Hy. apply H. right. exact Hy.
Qed.

Lemma map_nid_rearm t l : map nid (map (rearm t) l) = map nid l.
Proof. induction l as [|x r IH]; cbn; [reflexivity|]. rewrite IH. reflexivity. Qed.

Lemma phase_nodup t r N :
  NoDup (map nid N) -> NoDup (map nid (fst (fst (phase t r N)))).
Proof.
  intros Hnd. unfold phase. cbn [fst]. rewrite map_app, map_nid_rearm.
  apply nodup_app_intro.
  - apply NoDup_map_filter. exact Hnd.
  - apply NoDup_map_filter. apply NoDup_map_filter. exact Hnd.
  - intros x Hx Hy. apply in_map_iff in Hx. destruct Hx as [a [Ea Ha]].
    apply in_map_iff in Hy. destruct Hy as [b [Eb Hb]].
    apply filter_In in Ha. destruct Ha as [Ha Hda].
    apply filter_In in Hb. destruct Hb as [Hb _]. apply filter_In in Hb. destruct Hb as [Hb Hdb].
    assert (a = b).
    { clear - Hnd Ha Hb Ea Eb. subst x. revert Hnd Ha Hb Eb. induction N as [|n N IH]; cbn; [tauto|].
      intros Hnd [Ha|Ha] [Hb|Hb] E; inversion Hnd as [|? ? Hn Hd]; subst.
      - reflexivity.
      - exfalso. apply Hn. rewrite <- E. apply in_map. exact Hb.
      - exfalso. apply Hn. rewrite E. apply in_map. exact Ha.
      - apply IH; assumption. }
    subst b. rewrite Hdb in Hda. discriminate.
Qed.

Lemma phase_in t r N n :
  In n (fst (fst (phase t r N))) ->
  (In n N /\ ndl n <> t) \/ (exists m, In m N /\ ndl m = t /\ periodic m = true /\ n = rearm t m).
Proof.
  unfold phase. cbn [fst]. rewrite in_app_iff. intros [H|H].
  - left. apply filter_In in H. destruct H as [H Hd]. split; [exact H|].
    unfold due_at in Hd. apply negb_true_iff, Z.eqb_neq in Hd. exact Hd.
  - right. apply in_map_iff in H. destruct H as [m [E H]]. exists m.
    apply filter_In in H. destruct H as [H Hp]. apply filter_In in H. destruct H as [H Hd].
    apply andb_true_iff in Hp. unfold due_at in Hd. apply Z.eqb_eq in Hd. intuition.
Qed.

Lemma per_ok_phase t0 t r N : t0 <= t -> per_ok t0 N -> per_ok t0 (fst (fst (phase t r N))).
Proof.
  intros Ht H. unfold per_ok in *. apply Forall_forall. intros n Hn. rewrite Forall_forall in H.
  apply phase_in in Hn. destruct Hn as [[Hn _]|[m [Hm [Hd [Hp ->]]]]]; [apply H; exact Hn|].
  cbn. unfold periodic in Hp. lia.
Qed.

Lemma per_ok_phase_next t r N : per_ok (t - 1) N -> per_ok t (fst (fst (phase t r N))).
Proof.
  intros H. unfold per_ok in *. apply Forall_forall. intros n Hn. rewrite Forall_forall in H.
  apply phase_in in Hn. destruct Hn as [[Hn Hd]|[m [Hm [Hd [Hp ->]]]]].
  - intros Hper. specialize (H n Hn Hper). lia.
  - cbn. unfold periodic in Hp. lia.
Qed.

Lemma per_ok_perm t N N' : Permutation N N' -> per_ok t N -> per_ok t N'.
Proof. intros Hp H. unfold per_ok. eapply Permutation_Forall; eassumption. Qed.

(* one tick of the wheel = two expiry phases on the content, the second one on a
   permutation (the cascades reorder), and the invariant is re-established *)
Lemma wtick_spec w r :
  winv w ->
  exists w' N3,
    let t := wtt w in
    let p1 := phase t r (wcontent w) in
    let p2 := phase (t + 1) (snd (fst p1)) N3 in
    wtick w r = (w', snd (fst p2), snd p1 ++ snd p2) /\
    Permutation N3 (fst (fst p1)) /\
    wcontent w' = fst (fst p2) /\
    wcur w' = wcur w + 1 /\ wtt w' = wtt w + 1 /\ winv w'.
Proof.
  intros [Hc [Hall [Hnd Hper]]].
  destruct (expire_near_eq w r Hc Hall Hnd) as [w1 [E1 [C1 [T1 [N1 L1]]]]].
  set (c := wcur w) in *. set (t := wtt w) in *.
  set (p1 := phase t r (wcontent w)) in *.
  (* the counter moves *)
  set (w2 := mkWheel (wcur w1 + 1) (wtt w1 + 1) (wnodes w1)).
  assert (H2 : Forall (nok (c + 1) (c + 1) (t + 1)) (wnodes w2)).
  { unfold w2. cbn [wnodes]. rewrite L1. apply Forall_app. split.
    - apply Forall_forall. intros x Hx. apply filter_In in Hx. destruct Hx as [Hx Hd].
      rewrite Forall_forall in Hall. apply advance_ok; [apply Hall; exact Hx|].
      unfold due_at in Hd. apply negb_true_iff, Z.eqb_neq in Hd. exact Hd.
    - apply Forall_forall. intros y Hy. apply in_map_iff in Hy. destruct Hy as [n [<- Hn]].
      apply in_map_iff in Hn. destruct Hn as [m [<- Hm]].
      apply filter_In in Hm. destruct Hm as [_ Hp]. apply andb_true_iff in Hp. destruct Hp as [_ Hp].
      unfold periodic in Hp.
      apply advance_ok; [apply tag_ok; [exact Hc|cbn; lia]|rewrite wn_tag; cbn; lia]. }
  assert (Hc2 : wcur w2 = c + 1 /\ wtt w2 = t + 1) by (unfold w2; cbn; lia).
  destruct Hc2 as [Hc2 Ht2].
  destruct (shift_ok w2) as [C3 [T3 H3]]; [lia|rewrite Hc2, Ht2; exact H2|].
  rewrite Hc2 in C3, H3. rewrite Ht2 in T3, H3.
  pose proof (shift_content w2 ltac:(lia)) as P3.
  assert (E2 : wcontent w2 = fst (fst p1)) by (unfold w2, wcontent; cbn [wnodes]; exact N1).
  rewrite E2 in P3.
  set (w3 := shift_wheels w2) in *.
  assert (Hnd1 : NoDup (map nid (fst (fst p1)))) by (apply phase_nodup; exact Hnd).
  assert (Hnd3 : NoDup (map nid (wcontent w3))).
  { eapply Permutation_NoDup; [|exact Hnd1]. apply Permutation_map. apply Permutation_sym. exact P3. }
  destruct (expire_near_eq w3 (snd (fst p1))) as [w4 [E4 [C4 [T4 [N4 L4]]]]];
    [lia|rewrite C3, T3; exact H3|exact Hnd3|].
  rewrite C3 in *. rewrite T3 in *.
  exists w4, (wcontent w3). cbn zeta. fold t p1.
  split; [|split; [exact P3|split; [exact N4|split; [lia|split; [lia|]]]]].
  - unfold wtick. rewrite E1. fold w2 w3. rewrite E4. reflexivity.
  - unfold winv. rewrite C4, T4. split; [lia|]. split; [|split].
    + rewrite L4. replace (c + 1 + 1) with (c + 1 + 1) by reflexivity. apply Forall_app. split.
      * apply Forall_forall. intros x Hx. apply filter_In in Hx. destruct Hx as [Hx _].
        rewrite Forall_forall in H3. apply H3. exact Hx.
      * apply Forall_forall. intros y Hy. apply in_map_iff in Hy. destruct Hy as [n [<- Hn]].
        apply in_map_iff in Hn. destruct Hn as [m [<- Hm]].
        apply filter_In in Hm. destruct Hm as [_ Hp]. apply andb_true_iff in Hp. destruct Hp as [_ Hp].
        unfold periodic in Hp. apply tag_ok; [lia|cbn; lia].
    + rewrite N4. apply phase_nodup. exact Hnd3.
    + rewrite N4. apply per_ok_phase_next. replace (t + 1 - 1) with t by lia.
      eapply per_ok_perm; [apply Permutation_sym; exact P3|].
      apply per_ok_phase; [lia|exact Hper].
Qed.

Lemma wtick_inv w r w' r' o : winv w -> wtick w r = (w', r', o) -> winv w'.
Proof.
  intros Hi E. destruct (wtick_spec w r Hi) as [w2 [N3 [E2 [_ [_ [_ [_ Hw]]]]]]].
  cbn zeta in E2. rewrite E in E2. inversion E2; subst. exact Hw.
Qed.
