(* C05 / C06 — correspondence: decode a case written by the Go harness, run the model
   (Model.v) and the reference specification (Spec.v) on the same history, compare the
   model with what the implementation did (VMismatch) and evaluate the property —
   the specification's answers — on the implementation's own outputs (VPropFail).
   Shared by C05/Run.v and C06/Run.v; nothing is proved here.

   case     = ((impl cur0 tt0 (op ...)) (obs ...))      impl: 0 wheel, 1 heap
            | ((impl cur0 tt0 (op ...) k v) (obs ...))  the id counter is set to v before op k
   op       = (1 d) RunAfter | (2 p) RunEvery | (3 id) Cancel | (4) Size | (5 id) IsScheduled
            | (6) worker: pendingAdd arm | (7) worker: pendingDel arm | (8 n) n units pass
            | (9) worker: ticker arm | (10) structure probe
   obs      = (code v)   for 1 2 3: code 0 returned v; 1 still blocked on the full request
                         channel, mutex free; 2 blocked on it holding the mutex (harness stops)
            | (n)        for 4 5; (2 0): the query never returned (blocked on the scheduler's mutex)
            | (status)   for 6 7: 0 nothing pending, 1 handled, 2 panicked, 5 returned with the
                         mutex still locked (harness stops)
            | ()         for 8
            | (status id ...)   for 9: ids in the order they appeared on Chan(); status 2 panicked,
                                4 the ticker arm never returned, 5 it returned with the mutex
                                still locked (harness stops)
            | (consistent (level slot id deadline period) ...)  for 10
              wheel: buckets in (level, slot) order, each in list order;
              heap: the array in array order with level 0 and slot = the node's index
              field, then the nodes the worker has seen that are outside the array with
              level -1 and slot = their index field, by id *)
From Coq Require Import ZArith List Bool.
From FV Require Import Lib.Sx C05.Model C05.Spec C05.HeapArr C05.Vid.
Import ListNotations.
Open Scope Z_scope.

Definition dec_op (x : sx) : option op :=
  match x with
  | SList [SInt 1; SInt d] => Some (Start d)
  | SList [SInt 2; SInt p] => Some (Every p)
  | SList [SInt 3; SInt id] => Some (Cancel id)
  | SList [SInt 4] => Some Size
  | SList [SInt 5; SInt id] => Some (IsSched id)
  | SList [SInt 6] => Some HandleAdd
  | SList [SInt 7] => Some HandleDel
  | SList [SInt 8; SInt n] => Some (Pass n)
  | SList [SInt 9] => Some Tick
  | SList [SInt 10] => Some Probe
  | _ => None
  end.

Definition zlist_eqb := list_eqb Z.eqb.

(* the implementation stopped here (panic, or blocked holding the mutex) *)
Definition stopped (o : op) (b : sx) : bool :=
  match o, b with
  | (Start _ | Every _ | Cancel _), SList [SInt 2; _] => true
  | (HandleAdd | HandleDel), SList [SInt 2] => true
  | (HandleAdd | HandleDel), SList [SInt 5] => true
  | (Size | IsSched _), SList [SInt 2; _] => true
  | Tick, SList (SInt 5 :: _) => true
  | Tick, SList (SInt 2 :: _) => true
  | Tick, SList (SInt 4 :: _) => true
  | _, _ => false
  end.

(* the harness refused to run a tick step (too many ticks for one step) *)
Definition refused (o : op) (b : sx) : bool :=
  match o, b with
  | Tick, SList [SInt 3] => true
  | _, _ => false
  end.

Definition row_of (x : wnode) : list Z := [wlvl x; wslot x; nid (wn x); ndl (wn x); nper (wn x)].

Fixpoint rows_eqb (a : list wnode) (b : list sx) : bool :=
  match a, b with
  | [], [] => true
  | x :: a', y :: b' =>
      match sx_ints y with Some r => zlist_eqb (row_of x) r && rows_eqb a' b' | None => false end
  | _, _ => false
  end.

(* model output against the observation *)
Definition cmp_model (o : op) (m : out) (b : sx) : verdict :=
  match m, b with
  | OId blocked id, SList [SInt code; SInt v] =>
      if code =? 2 then VOk
      else vjoin (check_that (code =? (if blocked then 1 else 0)) (VMismatch 8))
                 (check_that ((code =? 1) || (v =? id)) (VMismatch 1))
  | OBool blocked r, SList [SInt code; SInt v] =>
      if code =? 2 then VOk
      else vjoin (check_that (code =? (if blocked then 1 else 0)) (VMismatch 8))
                 (check_that ((code =? 1) || (v =? (if r then 1 else 0))) (VMismatch 2))
  | ONum n, SList [SInt v] => check_that (n =? v) (VMismatch 3)
  | ONum _, SList [SInt 2; _] => VOk
  | OFlag _, SList [SInt 2; _] => VOk
  | OFlag f, SList [SInt v] =>
      match o with
      | IsSched _ => check_that (v =? (if f then 1 else 0)) (VMismatch 4)
      | _ => if (v =? 2) || (v =? 5) then VOk else check_that (v =? (if f then 1 else 0)) (VMismatch 5)
      end
  | ODeliv l, SList (SInt status :: ids) =>
      if (status =? 2) || (status =? 4) || (status =? 5) then VOk
      else match map_opt sx_int ids with
           | Some ids => check_that (zlist_eqb (map fst l) ids) (VMismatch 6)
           | None => VBad
           end
  | OProbe l, SList (SInt ok :: rows) => check_that ((ok =? 1) && rows_eqb l rows) (VMismatch 7)
  | ONone, SList [] => VOk
  | _, _ => VBad
  end.

(* take the first delivery of [id] out of the specification's list *)
Fixpoint take_deliv (id : Z) (l : list deliv) : option (Z * list deliv) :=
  match l with
  | [] => None
  | (i, due) :: r =>
      if i =? id then Some (due, r)
      else match take_deliv id r with
           | Some (d, r') => Some (d, (i, due) :: r')
           | None => None
           end
  end.

(* "exactly once, on its due tick, in due order": the observed ids must use up the
   specification's deliveries of this step, and their due times must not decrease *)
Fixpoint match_deliv (spec : list deliv) (ids : list Z) (last : option Z) (ordered : bool) : verdict :=
  match ids with
  | [] =>
      match spec with
      | [] => check_that ordered (VPropFail 3)
      | _ :: _ => VPropFail 1                      (* a due timer was not delivered *)
      end
  | id :: r =>
      match take_deliv id spec with
      | None => VPropFail 2                         (* early, twice, or after a cancel *)
      | Some (due, spec') =>
          match_deliv spec' r (Some due)
                      (ordered && match last with Some l => l <=? due | None => true end)
      end
  end.

(* the specification's answer against the observation; [inuse]: the ids of the timers
   scheduled before the op *)
Definition cmp_spec (inuse : list Z) (o : op) (z : out) (b : sx) : verdict :=
  match z, b with
  | OId _ id, SList [SInt code; SInt v] =>
      if code =? 2 then VPropFail 7
      else check_that ((code =? 1) || negb (mem v inuse)) (VPropFail 8)
  | OBool _ r, SList [SInt code; SInt v] =>
      if code =? 2 then VPropFail 7
      else check_that ((code =? 1) || (v =? (if r then 1 else 0))) (VPropFail 5)
  | ONum n, SList [SInt v] => check_that (n =? v) (VPropFail 4)
  | ONum _, SList [SInt 2; _] => VPropFail 7
  | OFlag _, SList [SInt 2; _] => VPropFail 7
  | OFlag f, SList [SInt v] =>
      match o with
      | IsSched _ => check_that (v =? (if f then 1 else 0)) (VPropFail 4)
      | _ => if v =? 5 then VPropFail 7 else check_that (negb (v =? 2)) (VPropFail 6)
      end
  | ODeliv l, SList (SInt status :: ids) =>
      if status =? 2 then VPropFail 6
      else if (status =? 4) || (status =? 5) then VPropFail 7
      else match map_opt sx_int ids with
           | Some ids => match_deliv l ids None true
           | None => VBad
           end
  | OProbe _, _ => VOk
  | ONone, _ => VOk
  | _, _ => VBad
  end.

(* [stepf]: the model's step — the wheel machine of Model.v, or the heap machine with its
   real array (HeapArr.v) — and the specification's step, both under the visible-id layer
   of Vid.v (nodes are named by keys that are never reused, the ids the application sees
   are allocated like nextID() does, with wrap and in-use probing).  [jump] = Some (k, v):
   before the op number k (counted from 0) the id counter is set to v (test device of
   the harness to reach the wrap of the 63-bit counter, which 2^63 starts would reach). *)
Fixpoint go {S : Type} (stepf : S -> op -> S * out) (refer_of : S -> list Z) (jump : option (nat * Z))
            (ops : list op) (obs : list sx) (m : vw S) (z : vw sst) (v : verdict) : verdict :=
  match ops, obs with
  | [], [] => v
  | o :: ops', b :: obs' =>
      let '(m, z, jump) :=
        match jump with
        | Some (O, nv) => (vset_next m nv, vset_next z nv, None)
        | Some (S k, nv) => (m, z, Some (k, nv))
        | None => (m, z, None)
        end in
      if refused o b then vjoin v VBad else
      let '(m', mo) := vstep stepf refer_of m o in
      let '(z', zo) := vstep sstep zrefer z o in
      let inuse := v_in_use (v_prune (zrefer (vin z)) (vsched z)) in
      let v' := vjoin v (vjoin (cmp_spec inuse o zo b) (cmp_model o mo b)) in
      if stopped o b then v' else go stepf refer_of jump ops' obs' m' z' v'
  | _, _ => vjoin v VBad
  end.

(* live-worker case: ((impl n 0 ()) (started delivered cancelled both neither size still stuck)),
   impl 2 = wheel, 3 = heap.  n one-shot timers with delay 0 are started on the REAL worker
   goroutine with nobody reading Chan(); once the worker is stuck delivering, every id is
   cancelled, then Chan() is drained.  The verdict only counts: no timer may be delivered
   although its Cancel returned true (both), none may be neither delivered nor cancelled,
   every started timer is accounted for, Size() ends at 0, and no one-shot timer is still
   reported by IsScheduled() at the moment it is received from Chan() (still); stuck = 1:
   the start / cancel calls never came back although Chan() was being drained. *)
Definition check_live (n : Z) (obs : list sx) : verdict :=
  match obs with
  | [SInt started; SInt delivered; SInt cancelled; SInt both; SInt neither; SInt size; SInt still; SInt stuck] =>
      if stuck =? 1 then VPropFail 7 else
      vjoin (check_that (both =? 0) (VPropFail 2))
     (vjoin (check_that ((neither =? 0) && (started =? n) && (delivered + cancelled - both + neither =? started)) (VPropFail 1))
            (check_that ((size =? 0) && (still =? 0)) (VPropFail 4)))
  | _ => VBad
  end.

(* worker parked on its output: ((impl variant 0 ()) (parked cancelResult cancelReturned pAfter
   others expected size)), impl 4 = wheel, 5 = heap; variant 0: the timer P that does not fit
   into Chan() is a repeating one (2: the same with P in the middle of the heap's order),
   1: a one-shot one, 3: only repeating timers on the live worker and Shutdown() instead of
   Cancel (cancelReturned = Shutdown came back).  The tick waits inside tick /
   expireNear with Chan() full (established from the goroutine dump), Cancel(P) is called,
   then Chan() is drained.  A repeating P is still scheduled, so its Cancel returns true —
   and then no runnable of P may arrive any more; a one-shot P left the map when the worker
   decided, so its Cancel returns false and it arrives exactly once.  Cancel itself must
   come back (it only queues a request); every other timer arrives; Size() ends at 0. *)
Definition check_parked (variant : Z) (obs : list sx) : verdict :=
  match obs with
  | [SInt parked; SInt cres; SInt cret; SInt pafter; SInt others; SInt expected; SInt size] =>
      if negb (parked =? 1) then VBad else
      vjoin (check_that (cret =? 1) (VPropFail 7))
     (vjoin (check_that (negb ((cres =? 1) && (0 <? pafter))) (VPropFail 2))
     (vjoin (check_that (if variant =? 1 then (cres + pafter =? 1) else cres =? 1) (VPropFail 5))
     (vjoin (check_that (others =? expected) (VPropFail 1))
            (check_that (size =? 0) (VPropFail 4)))))
  | _ => VBad
  end.

(* shutdown, the worker's fourth input: ((impl variant 0 ()) (panics stuck sizeBad cancelBad
   returned)), impl 6 = wheel, 7 = heap.  Shutdown() is called on the REAL worker — quiet
   (variant 0), while client goroutines keep calling the API (1), while the worker is parked
   on its output and callers sit in the send on the full start-request (2) / cancel-request
   (3) channel; then every id is queried and cancelled and further timers are started.
   No call may panic (panics), Shutdown and every caller must come back (returned, stuck),
   Size() must agree with IsScheduled() and be 0 - nothing will be delivered any more, so
   nothing may be reported as scheduled - (sizeBad) and Cancel() must return true exactly for
   the ids IsScheduled() reported, which are not reported afterwards (cancelBad). *)
Definition check_shutdown (obs : list sx) : verdict :=
  match obs with
  | [SInt panics; SInt stuck; SInt sizebad; SInt cancelbad; SInt ret] =>
      vjoin (check_that (panics =? 0) (VPropFail 6))
     (vjoin (check_that ((stuck =? 0) && (ret =? 1)) (VPropFail 7))
     (vjoin (check_that (sizebad =? 0) (VPropFail 4))
            (check_that (cancelbad =? 0) (VPropFail 5))))
  | _ => VBad
  end.

(* the real-worker scenarios (impl 2..7) run in a child process of the harness; when the
   scheduler's own goroutine panics there, the observation is (6) *)
Definition check_case (c : sx) : verdict :=
  match c with
  | SList [SList [SInt _; SInt _; SInt _; SList []]; SList [SInt 6]] => VPropFail 6
  | SList [SList [SInt 6; SInt _; SInt _; SList []]; SList obs] => check_shutdown obs
  | SList [SList [SInt 7; SInt _; SInt _; SList []]; SList obs] => check_shutdown obs
  | SList [SList [SInt 4; SInt variant; SInt _; SList []]; SList obs] => check_parked variant obs
  | SList [SList [SInt 5; SInt variant; SInt _; SList []]; SList obs] => check_parked variant obs
  | SList [SList [SInt 2; SInt n; SInt _; SList []]; SList obs] => check_live n obs
  | SList [SList [SInt 3; SInt n; SInt _; SList []]; SList obs] => check_live n obs
  | SList [SList [SInt impl; SInt cur0; SInt tt0; SList ops]; SList obs] =>
      match map_opt dec_op ops with
      | Some ops =>
          if impl =? 0 then go step srefer None ops obs (vinit (init_wheel cur0 tt0)) (vinit (sinit true tt0)) VOk
          else go astep arefer None ops obs (vinit (ainit tt0)) (vinit (sinit false tt0)) VOk
      | None => VBad
      end
  | SList [SList [SInt impl; SInt cur0; SInt tt0; SList ops; SInt k; SInt nv]; SList obs] =>
      match map_opt dec_op ops with
      | Some ops =>
          let j := Some (Z.to_nat k, nv) in
          if impl =? 0 then go step srefer j ops obs (vinit (init_wheel cur0 tt0)) (vinit (sinit true tt0)) VOk
          else go astep arefer j ops obs (vinit (ainit tt0)) (vinit (sinit false tt0)) VOk
      | None => VBad
      end
  | _ => VBad
  end.
