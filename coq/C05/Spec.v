(* C05 / C06 — the reference specification: a multiset of pending timers.
   No wheel, no heap, no deferred deletion: a cancelled timer is gone at once, a tick at
   time t delivers every pending entry whose due time is <= t in non-decreasing due
   order and re-arms the periodic ones at t + period.  Nothing is proved here. *)
From Coq Require Import ZArith List Bool.
From FV Require Import Generated.Consts C05.Model.
Import ListNotations.
Open Scope Z_scope.

(* order of the canonical delivery list: due time, then id *)
Definition dle (a b : node) : bool :=
  (ndl a <? ndl b) || ((ndl a =? ndl b) && (nid a <=? nid b)).
Fixpoint dinsert (n : node) (l : list node) : list node :=
  match l with
  | [] => [n]
  | x :: r => if dle n x then n :: l else x :: dinsert n r
  end.
Definition dsort (l : list node) : list node := fold_right dinsert [] l.

Definition rearm (t : Z) (n : node) : node := mkNode (nid n) (t + nper n) (nper n).
Definition is_due (t : Z) (n : node) : bool := ndl n <=? t.
Definition periodic (n : node) : bool := 0 <? nper n.

(* one tick at time t over the pending multiset *)
Definition spec_tick (t : Z) (pending : list node) (refer : list Z)
  : list node * list Z * list deliv :=
  let due := dsort (filter (is_due t) pending) in
  (filter (fun n => negb (is_due t n)) pending ++ map (rearm t) (filter periodic due),
   fold_left unrefer (map nid (filter (fun n => negb (periodic n)) due)) refer,
   map (fun n => (nid n, ndl n)) due).

Record sst := mkS {
  zwheel : bool;          (* flavour: wheel (due counted from the worker's tick time at
                             acceptance; one tick per elapsed unit) or heap (due counted
                             from the clock at the call; one tick per worker step) *)
  zclock : Z;
  ztt : Z;                (* time of the last tick (wheel flavour) *)
  zrefer : list Z;        (* scheduled ids *)
  znext : Z;
  zreq : list node;       (* start requests not yet seen by the worker, FIFO *)
  zdels : Z;              (* cancel requests not yet seen by the worker *)
  zpending : list node    (* accepted and not cancelled *)
}.

Definition sschedule (s : sst) (d p : Z) : sst * out :=
  let id := alloc_id (znext s) (zrefer s) in
  let n := if zwheel s then mkNode id d p else mkNode id (zclock s + d + p) p in
  (mkS (zwheel s) (zclock s) (ztt s) (zrefer s ++ [id]) id (zreq s ++ [n]) (zdels s) (zpending s),
   OId (sched_PendingQueueCapacity <=? Z.of_nat (length (zreq s))) id).

Definition ticks_acc (acc : Z * list node * list Z * list deliv) : Z * list node * list Z * list deliv :=
  let '(t, p, r, o) := acc in
  let '(p', r', o') := spec_tick (t + 1) p r in (t + 1, p', r', o ++ o').

Definition sstep (s : sst) (o : op) : sst * out :=
  match o with
  | Start d => sschedule s (Z.max d 0) 0
  | Every p => sschedule s 0 (if p <? 0 then 1 else p)
  | Cancel id =>
      if mem id (zrefer s)
      then (mkS (zwheel s) (zclock s) (ztt s) (unrefer (zrefer s) id) (znext s) (zreq s) (zdels s + 1)
                (filter (fun n => negb (nid n =? id)) (zpending s)),
            OBool (sched_PendingQueueCapacity <=? zdels s) true)
      else (s, OBool false false)
  | Size => (s, ONum (Z.of_nat (length (zrefer s))))
  | IsSched id => (s, OFlag (mem id (zrefer s)))
  | HandleAdd =>
      match zreq s with
      | [] => (s, OFlag false)
      | n :: q =>
          let n' := if zwheel s then mkNode (nid n) (ndl n + ztt s + nper n) (nper n) else n in
          let p := if mem (nid n) (zrefer s) then zpending s ++ [n'] else zpending s in
          (mkS (zwheel s) (zclock s) (ztt s) (zrefer s) (znext s) q (zdels s) p, OFlag true)
      end
  | HandleDel =>
      if 0 <? zdels s
      then (mkS (zwheel s) (zclock s) (ztt s) (zrefer s) (znext s) (zreq s) (zdels s - 1) (zpending s), OFlag true)
      else (s, OFlag false)
  | Pass n => (mkS (zwheel s) (zclock s + n) (ztt s) (zrefer s) (znext s) (zreq s) (zdels s) (zpending s), ONone)
  | Tick =>
      if zwheel s then
        let '(t, p, r, o) := N.iter (Z.to_N (zclock s - ztt s)) ticks_acc (ztt s, zpending s, zrefer s, []) in
        (mkS true (Z.max (zclock s) (ztt s)) t r (znext s) (zreq s) (zdels s) p, ODeliv o)
      else
        let '(p, r, o) := spec_tick (zclock s) (zpending s) (zrefer s) in
        (mkS false (zclock s) (ztt s) r (znext s) (zreq s) (zdels s) p, ODeliv o)
  | Probe => (s, OProbe (map (mkW 0 0) (dsort (zpending s))))
  end.

Definition sinit (wheel : bool) (tt : Z) : sst := mkS wheel tt tt [] 0 [] 0 [].

Fixpoint srun (s : sst) (ops : list op) : sst * list out :=
  match ops with
  | [] => (s, [])
  | o :: r => let '(s1, x) := sstep s o in let '(s2, xs) := srun s1 r in (s2, x :: xs)
  end.
