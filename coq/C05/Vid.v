(* C05 / C06 — visible timer ids over node identities.  Executable; nothing is proved here.

   In the code a node is a pointer and `refer` maps the id the application sees to the node
   that currently owns it: `refer[node.id] == node` asks whether THIS node is scheduled,
   and an id may be handed out again (after the id counter wrapped) while an old,
   cancelled node that carried it is still linked in the wheel / heap or queued.
   The machines of Model.v / HeapArr.v / Spec.v name a node by a key that is never reused
   (their `nid`; their own counter counts start calls).  This wrapper puts the visible ids
   on top: [vnext] is the code's nextId, [vsched] the visible id of every scheduled node
   (the code's refer map: id -> node), [vall] the id every node ever got (node.id).
   nextID() probes the ids in use, Cancel / IsScheduled look the id up in the map, what a
   tick delivers and what the probe lists is shown under the nodes' own ids. *)
From Coq Require Import ZArith List Bool.
From FV Require Import C05.Model.
Import ListNotations.
Open Scope Z_scope.

Record vw (S : Type) := mkV {
  vin : S;
  vnext : Z;
  vsched : list (Z * Z);     (* (visible id, key) of the scheduled nodes, in start order *)
  vall : list (Z * Z)        (* (key, visible id) of every node *)
}.
Arguments mkV {S}. Arguments vin {S}. Arguments vnext {S}. Arguments vsched {S}. Arguments vall {S}.

Definition v_prune (refer : list Z) (sc : list (Z * Z)) : list (Z * Z) :=
  filter (fun p => mem (snd p) refer) sc.
Definition v_in_use (sc : list (Z * Z)) : list Z := map fst sc.
Definition v_key (sc : list (Z * Z)) (vid : Z) : Z :=
  match find (fun p => fst p =? vid) sc with Some p => snd p | None => 0 end.   (* 0 is nobody's key *)
Definition v_vid (all : list (Z * Z)) (key : Z) : Z :=
  match find (fun p => fst p =? key) all with Some p => snd p | None => key end.

Definition v_row (all : list (Z * Z)) (x : wnode) : wnode :=
  mkW (wlvl x) (wslot x) (mkNode (v_vid all (nid (wn x))) (ndl (wn x)) (nper (wn x))).

Definition vstep {S : Type} (stepf : S -> op -> S * out) (refer_of : S -> list Z)
                 (w : vw S) (o : op) : vw S * out :=
  let sc := v_prune (refer_of (vin w)) (vsched w) in
  match o with
  | Start _ | Every _ =>
      let '(s', x) := stepf (vin w) o in
      match x with
      | OId b key =>
          let vid := alloc_id (vnext w) (v_in_use sc) in
          (mkV s' vid (v_prune (refer_of s') (sc ++ [(vid, key)])) ((key, vid) :: vall w), OId b vid)
      | _ => (mkV s' (vnext w) sc (vall w), x)
      end
  | Cancel vid =>
      let '(s', x) := stepf (vin w) (Cancel (v_key sc vid)) in
      (mkV s' (vnext w) (v_prune (refer_of s') sc) (vall w), x)
  | IsSched vid =>
      let '(s', x) := stepf (vin w) (IsSched (v_key sc vid)) in
      (mkV s' (vnext w) sc (vall w), x)
  | _ =>
      let '(s', x) := stepf (vin w) o in
      let x' := match x with
                | ODeliv l => ODeliv (map (fun d => (v_vid (vall w) (fst d), snd d)) l)
                | OProbe l => OProbe (map (v_row (vall w)) l)
                | _ => x
                end in
      (mkV s' (vnext w) (v_prune (refer_of s') sc) (vall w), x')
  end.

Definition vinit {S : Type} (s : S) : vw S := mkV s 0 [] [].
Definition vset_next {S : Type} (w : vw S) (v : Z) : vw S := mkV (vin w) v (vsched w) (vall w).
