(* C05 — correspondence check: see Check.v (shared with C06) for the case format, the
   comparison with the model and the property's executable form (the reference
   specification's deliveries evaluated against what the implementation delivered). *)
From FV Require Import Lib.Sx C05.Model C05.Spec C05.Check.

Definition check (c : sx) : verdict := check_case c.
