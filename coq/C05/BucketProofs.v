(* C05 / C06 — the pointer surgery of a wheel bucket refines the flat list of the model:
   the bucket represents the list L of its node ids (head = first, tail = last, next/prev
   link neighbours), addNode appends, removeNode deletes exactly the given node from any
   position (only node, head, middle, tail), replaceInit hands out the whole chain. *)
From Coq Require Import ZArith List Bool Lia.
From FV Require Import C05.BucketModel.
Import ListNotations.
Open Scope Z_scope.

Fixpoint chain (b : bucket) (p : option Z) (L : list Z) : Prop :=
  match L with
  | [] => True
  | x :: r => bprev b x = p /\ bnext b x = hd_error r /\ chain b (Some x) r
  end.

Definition last_error (L : list Z) : option Z :=
  match L with [] => None | _ => Some (last L 0) end.

Definition repr (b : bucket) (L : list Z) : Prop :=
  NoDup L /\ bhead b = hd_error L /\ btail b = last_error L /\ chain b None L.

Lemma upd_same f k v : upd f k v k = v.
Proof. unfold upd. rewrite Z.eqb_refl. reflexivity. Qed.
Lemma upd_other f k v x : x <> k -> upd f k v x = f x.
Proof. unfold upd. intros H. destruct (Z.eqb_spec x k); [contradiction|reflexivity]. Qed.

(* a chain only reads the fields of its own nodes *)
Lemma chain_ext b b' p L :
  (forall x, In x L -> bnext b' x = bnext b x /\ bprev b' x = bprev b x) -> chain b p L -> chain b' p L.
Proof.
  revert p. induction L as [|x r IH]; intros p H Hc; [exact I|].
  destruct Hc as [H1 [H2 H3]]. destruct (H x (or_introl eq_refl)) as [E1 E2]. cbn.
  rewrite E1, E2. split; [exact H1|split; [exact H2|]]. apply IH; [|exact H3].
  intros y Hy. apply H. right. exact Hy.
Qed.

Lemma last_error_app L n : last_error (L ++ [n]) = Some n.
Proof. unfold last_error. destruct (L ++ [n]) eqn:E; [destruct L; discriminate|]. rewrite <- E. rewrite last_last. reflexivity. Qed.

Lemma last_in (l : list Z) d : l <> [] -> In (last l d) l.
Proof.
  induction l as [|x r IH]; intros H; [contradiction|]. destruct r as [|y r']; [left; reflexivity|].
  right. apply IH. discriminate.
Qed.

Lemma nodup_snoc (L : list Z) n : NoDup L -> ~ In n L -> NoDup (L ++ [n]).
Proof.
  induction L as [|x r IH]; intros Hnd Hn; cbn; [constructor; [intros []|constructor]|].
  inversion Hnd; subst. constructor.
  - rewrite in_app_iff. intros [H|[H|[]]]; [contradiction|]. apply Hn. left. symmetry. exact H.
  - apply IH; [assumption|]. intros H. apply Hn. right. exact H.
Qed.

(* ---------------- addNode ---------------- *)

Lemma chain_add b p L t n :
  L <> [] -> last L 0 = t -> ~ In n L -> NoDup L -> bnext b n = None ->
  chain b p L ->
  chain (mkB (bhead b) (Some n) (upd (bnext b) t (Some n)) (upd (bprev b) n (Some t))) p (L ++ [n]).
Proof.
  revert p. induction L as [|x r IH]; intros p Hne Hl Hn Hnd Hnx Hc; [contradiction|].
  destruct Hc as [H1 [H2 H3]]. apply NoDup_cons_iff in Hnd. destruct Hnd as [Hxr Hnd'].
  assert (Hxn : x <> n) by (intros E; apply Hn; left; exact E).
  destruct r as [|y r'].
  - cbn [last] in Hl. subst t. cbn [app chain bprev bnext hd_error].
    rewrite (upd_other (bprev b) n) by exact Hxn. rewrite !upd_same.
    rewrite (upd_other (bnext b) x) by (intros E; apply Hxn; symmetry; exact E).
    split; [exact H1|split; [reflexivity|]]. split; [reflexivity|split; [exact Hnx|exact I]].
  - change ((x :: y :: r') ++ [n]) with (x :: ((y :: r') ++ [n])).
    assert (Hlast : last (y :: r') 0 = last (x :: y :: r') 0) by reflexivity.
    assert (Hxt : x <> last (x :: y :: r') 0).
    { intros E. apply Hxr. rewrite E, <- Hlast. apply last_in. discriminate. }
    rewrite Hl in Hxt.
    cbn [chain bprev bnext]. rewrite upd_other by exact Hxn. rewrite upd_other by exact Hxt.
    split; [exact H1|]. split; [exact H2|].
    apply (IH (Some x)); try assumption; try discriminate.
    intros Hi. apply Hn. right. exact Hi.
Qed.

Theorem add_repr b L n :
  repr b L -> ~ In n L -> bnext b n = None -> bprev b n = None -> repr (b_add b n) (L ++ [n]).
Proof.
  intros [Hnd [Hh [Ht Hc]]] Hn Hnx Hpv. unfold b_add. rewrite Hh, Ht.
  destruct L as [|x r].
  - cbn. split; [constructor; [intros []|constructor]|]. repeat split; assumption.
  - cbn [hd_error last_error]. split; [|split; [reflexivity|split; [symmetry; apply last_error_app|]]].
    + apply (nodup_snoc (x :: r) n); assumption.
    + eapply chain_ext; [|apply (chain_add b None (x :: r) (last (x :: r) 0) n); try assumption; [discriminate|reflexivity]].
      intros y Hy. split; reflexivity.
Qed.

(* ---------------- removeNode ---------------- *)

Definition prevof (p : option Z) (l1 : list Z) : option Z :=
  match l1 with [] => p | _ => Some (last l1 0) end.

Lemma chain_mid b l1 n l2 : forall p,
  chain b p (l1 ++ n :: l2) -> bprev b n = prevof p l1 /\ bnext b n = hd_error l2.
Proof.
  induction l1 as [|x l1' IH]; intros p Hc.
  - destruct Hc as [H1 [H2 _]]. split; assumption.
  - destruct Hc as [_ [_ H3]]. destruct (IH (Some x) H3) as [E1 E2]. split; [|exact E2].
    rewrite E1. destruct l1' as [|y r]; reflexivity.
Qed.

Lemma bnext_remove b n :
  bnext (b_remove b n) =
  upd (match bprev b n with Some p => upd (bnext b) p (bnext b n) | None => bnext b end) n None.
Proof. unfold b_remove. destruct (oeqb (bhead b) n), (oeqb (btail b) n); reflexivity. Qed.

Lemma bprev_remove b n :
  bprev (b_remove b n) =
  upd (match bnext b n with Some x => upd (bprev b) x (bprev b n) | None => bprev b end) n None.
Proof. unfold b_remove. destruct (oeqb (bhead b) n), (oeqb (btail b) n); reflexivity. Qed.

Lemma next_remove_other b n x :
  x <> n -> bprev b n <> Some x -> bnext (b_remove b n) x = bnext b x.
Proof.
  intros H1 H2. rewrite bnext_remove, upd_other by exact H1.
  destruct (bprev b n) as [p|]; [|reflexivity]. apply upd_other. intros E. apply H2. rewrite E. reflexivity.
Qed.

Lemma prev_remove_other b n x :
  x <> n -> bnext b n <> Some x -> bprev (b_remove b n) x = bprev b x.
Proof.
  intros H1 H2. rewrite bprev_remove, upd_other by exact H1.
  destruct (bnext b n) as [p|]; [|reflexivity]. apply upd_other. intros E. apply H2. rewrite E. reflexivity.
Qed.

Lemma next_remove_pred b n x : x <> n -> bprev b n = Some x -> bnext (b_remove b n) x = bnext b n.
Proof. intros H1 H2. rewrite bnext_remove, upd_other by exact H1. rewrite H2. apply upd_same. Qed.

Lemma prev_remove_succ b n x : x <> n -> bnext b n = Some x -> bprev (b_remove b n) x = bprev b n.
Proof. intros H1 H2. rewrite bprev_remove, upd_other by exact H1. rewrite H2. apply upd_same. Qed.

Lemma nodup_mid (l1 : list Z) n l2 : NoDup (l1 ++ n :: l2) -> ~ In n l1 /\ ~ In n l2 /\ NoDup (l1 ++ l2).
Proof.
  intros H. pose proof (NoDup_remove_1 _ _ _ H) as H1. pose proof (NoDup_remove_2 _ _ _ H) as H2.
  rewrite in_app_iff in H2. tauto.
Qed.

Lemma chain_remove b n l2 : forall l1 p,
  NoDup (l1 ++ n :: l2) -> (forall q, p = Some q -> ~ In q (l1 ++ n :: l2)) ->
  chain b p (l1 ++ n :: l2) -> chain (b_remove b n) p (l1 ++ l2).
Proof.
  induction l1 as [|x l1' IH]; intros p Hnd Hp Hc.
  - cbn [app] in *. destruct (chain_mid b [] n l2 p Hc) as [EP EX]. cbn [prevof] in EP.
    destruct Hc as [_ [_ H3]]. destruct l2 as [|y r]; [exact I|].
    destruct H3 as [Y1 [Y2 Y3]]. cbn [hd_error] in EX.
    apply NoDup_cons_iff in Hnd. destruct Hnd as [Hn Hnd']. apply NoDup_cons_iff in Hnd'. destruct Hnd' as [Hy Hndr].
    assert (Hyn : y <> n) by (intros E; apply Hn; left; exact E).
    cbn [chain]. split; [|split].
    + rewrite (prev_remove_succ b n y Hyn EX). exact EP.
    + rewrite next_remove_other; [exact Y2|exact Hyn|]. rewrite EP. intros E. apply (Hp y E). right. left. reflexivity.
    + eapply chain_ext; [|exact Y3]. intros z Hz.
      assert (Hzn : z <> n) by (intros E; apply Hn; right; rewrite <- E; exact Hz).
      split.
      * apply next_remove_other; [exact Hzn|]. rewrite EP. intros E. apply (Hp z E). right. right. exact Hz.
      * apply prev_remove_other; [exact Hzn|]. rewrite EX. intros E. inversion E; subst. contradiction.
  - change ((x :: l1') ++ n :: l2) with (x :: (l1' ++ n :: l2)) in *. change ((x :: l1') ++ l2) with (x :: (l1' ++ l2)).
    destruct Hc as [X1 [X2 X3]]. destruct (chain_mid b l1' n l2 (Some x) X3) as [EP EX].
    apply NoDup_cons_iff in Hnd. destruct Hnd as [Hx Hnd'].
    assert (Hxn : x <> n) by (intros E; apply Hx; apply in_app_iff; right; left; symmetry; exact E).
    destruct (nodup_mid l1' n l2 Hnd') as [Hn1 [Hn2 _]].
    cbn [chain]. split; [|split].
    + rewrite prev_remove_other; [exact X1|exact Hxn|]. rewrite EX. intros E.
      apply Hx. apply in_app_iff. right. right. destruct l2; [discriminate|]. inversion E; subst. left. reflexivity.
    + destruct l1' as [|z r].
      * cbn [prevof] in EP. rewrite (next_remove_pred b n x Hxn EP). exact EX.
      * rewrite next_remove_other; [exact X2|exact Hxn|]. rewrite EP. cbn [prevof]. intros E.
        assert (E' : last (z :: r) 0 = x) by congruence.
        apply Hx. apply in_app_iff. left. rewrite <- E'. apply last_in. discriminate.
    + apply IH; [exact Hnd'| |exact X3]. intros q E. inversion E; subst. exact Hx.
Qed.

Lemma last_app_ne (l m : list Z) d : m <> [] -> last (l ++ m) d = last m d.
Proof.
  intros H. induction l as [|x r IH]; [reflexivity|]. cbn [app]. destruct (r ++ m) eqn:E.
  - destruct r; [cbn in E; contradiction|discriminate].
  - exact IH.
Qed.

Theorem remove_repr b l1 n l2 :
  repr b (l1 ++ n :: l2) ->
  repr (b_remove b n) (l1 ++ l2) /\ bnext (b_remove b n) n = None /\ bprev (b_remove b n) n = None.
Proof.
  intros [Hnd [Hh [Ht Hc]]].
  destruct (chain_mid b l1 n l2 None Hc) as [EP EX].
  destruct (nodup_mid l1 n l2 Hnd) as [Hn1 [Hn2 Hnd']].
  split; [|split; [rewrite bnext_remove; apply upd_same|rewrite bprev_remove; apply upd_same]].
  split; [exact Hnd'|]. split; [|split].
  - (* head *)
    unfold b_remove. rewrite Hh, Ht. destruct l1 as [|x l1'].
    + cbn [app hd_error oeqb]. rewrite Z.eqb_refl. destruct l2 as [|y r].
      * cbn. rewrite Z.eqb_refl. reflexivity.
      * assert (Hl : last (n :: y :: r) 0 <> n).
        { intros E. apply Hn2. rewrite <- E. change (last (n :: y :: r) 0) with (last (y :: r) 0). apply last_in. discriminate. }
        cbn [last_error oeqb]. destruct (Z.eqb_spec (last (n :: y :: r) 0) n); [contradiction|]. cbn [bhead]. exact EX.
    + assert (Hxn : x <> n) by (intros E; apply Hn1; left; exact E).
      cbn [app hd_error oeqb]. destruct (Z.eqb_spec x n); [contradiction|].
      destruct (oeqb (last_error (x :: l1' ++ n :: l2)) n); reflexivity.
  - (* tail *)
    unfold b_remove. rewrite Hh, Ht. destruct l1 as [|x l1'].
    + cbn [app hd_error oeqb]. rewrite Z.eqb_refl. destruct l2 as [|y r].
      * cbn. rewrite Z.eqb_refl. reflexivity.
      * assert (Hl : last (n :: y :: r) 0 <> n).
        { intros E. apply Hn2. rewrite <- E. change (last (n :: y :: r) 0) with (last (y :: r) 0). apply last_in. discriminate. }
        cbn [last_error oeqb]. destruct (Z.eqb_spec (last (n :: y :: r) 0) n); [contradiction|]. reflexivity.
    + assert (Hxn : x <> n) by (intros E; apply Hn1; left; exact E).
      cbn [app hd_error oeqb]. destruct (Z.eqb_spec x n); [contradiction|].
      change (last_error (x :: l1' ++ n :: l2)) with (Some (last ((x :: l1') ++ n :: l2) 0)).
      rewrite last_app_ne by discriminate. cbn [oeqb]. destruct l2 as [|y r].
      * cbn [last]. rewrite Z.eqb_refl. cbn [btail]. rewrite EP. cbn [prevof]. rewrite app_nil_r. reflexivity.
      * assert (Hl : last (n :: y :: r) 0 <> n).
        { intros E. apply Hn2. rewrite <- E. change (last (n :: y :: r) 0) with (last (y :: r) 0). apply last_in. discriminate. }
        destruct (Z.eqb_spec (last (n :: y :: r) 0) n); [contradiction|]. cbn [btail].
        change (last_error (x :: l1' ++ y :: r)) with (Some (last ((x :: l1') ++ y :: r) 0)).
        rewrite last_app_ne by discriminate. reflexivity.
  - apply chain_remove; [exact Hnd|intros q E; discriminate|exact Hc].
Qed.

(* ---------------- replaceInit + the walk of cascade() / expireNear() ---------------- *)

Lemma walk_chain b L : forall p fuel,
  chain b p L -> (length L <= fuel)%nat -> b_walk fuel (bnext b) (hd_error L) = L.
Proof.
  induction L as [|x r IH]; intros p fuel Hc Hf.
  - destruct fuel; reflexivity.
  - destruct fuel as [|f]; [cbn in Hf; lia|]. destruct Hc as [_ [H2 H3]]. cbn [hd_error b_walk].
    f_equal. rewrite H2. apply (IH (Some x)); [exact H3|cbn in Hf; lia].
Qed.

Theorem replace_init_repr b L :
  repr b L ->
  repr (snd (b_replace_init b)) [] /\
  b_walk (length L) (bnext b) (fst (b_replace_init b)) = L.
Proof.
  intros [Hnd [Hh [Ht Hc]]]. split.
  - unfold b_replace_init, repr. cbn. repeat split; constructor.
  - cbn [b_replace_init fst]. rewrite Hh. apply (walk_chain b L None); [exact Hc|lia].
Qed.
