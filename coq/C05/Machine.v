(* C05 / C06 — the whole scheduler (core + API side + worker steps) against the
   reference specification: machine invariant and simulation, for every history. *)
From Coq Require Import ZArith List Bool Lia ZifyBool Permutation Sorted.
From FV Require Import Generated.Consts C05.Model C05.Spec C05.Geom C05.WheelInv C05.ListFacts C05.Refine.
Import ListNotations.
Open Scope Z_scope.

Definition core_content (c : core) : list node :=
  match c with CWheel w => wcontent w | CHeap h => h end.

Definition req_ok (c : core) (n : node) : Prop :=
  match c with CWheel _ => 0 <= ndl n /\ 0 <= nper n | CHeap _ => True end.

Definition all_ids (m : st) : list Z := map nid (spadd m) ++ map nid (core_content (score m)).

Record minv (m : st) : Prop := mkMinv {
  mi_next : 0 <= snext m;
  mi_refer : Forall (fun x => 0 < x <= snext m) (srefer m);
  mi_refer_nd : NoDup (srefer m);
  mi_ids : NoDup (all_ids m);
  mi_ids_le : Forall (fun x => x <= snext m) (all_ids m);
  mi_pdel : Forall (fun x => ~ In x (srefer m) /\ x <= snext m) (spdel m);
  mi_core : match score m with CWheel w => winv w | CHeap h => True end;
  mi_req : Forall (req_ok (score m)) (spadd m)
}.

Definition rel (m : st) (z : sst) : Prop :=
  zclock z = sclock m /\ zrefer z = srefer m /\ znext z = snext m /\ zreq z = spadd m /\
  zdels z = Z.of_nat (length (spdel m)) /\
  Permutation (zpending z) (filter (alive (srefer m)) (core_content (score m))) /\
  match score m with
  | CWheel w => zwheel z = true /\ ztt z = wtt w
  | CHeap _ => zwheel z = false
  end.

(* outputs: equal, deliveries up to the order among equal due times; the probe looks at
   the structure, which the specification does not have *)
Definition out_eq (a b : out) : Prop :=
  match a, b with
  | ODeliv x, ODeliv y => deq x y
  | OProbe _, OProbe _ => True
  | _, _ => a = b
  end.

(* ------------------------------------------------------------------------------------ *)
(* helpers *)

Lemma next_id_loop_fresh fuel newId refer :
  0 < newId -> mem newId refer = false -> next_id_loop fuel newId refer = newId.
Proof.
  intros Hp Hm. destruct fuel as [|f]; cbn [next_id_loop]; [reflexivity|].
  destruct (Z.leb_spec newId 0); [lia|]. rewrite Hm. reflexivity.
Qed.

(* as long as the 63-bit counter has not reached its top, the next id is the successor *)
Lemma wrap64_small z : z < 2 ^ 63 -> wrap64 z = z.
Proof. intros H. unfold wrap64. destruct (Z.leb_spec (2 ^ 63) z); [lia|reflexivity]. Qed.

Lemma alloc_fresh next refer :
  0 <= next -> next + 1 < 2 ^ 63 -> Forall (fun x => x <= next) refer -> alloc_id next refer = next + 1.
Proof.
  intros H0 Hroom Hle. unfold alloc_id. rewrite wrap64_small by exact Hroom.
  apply next_id_loop_fresh; [lia|]. apply not_true_is_false. intros Hm. apply mem_In in Hm.
  rewrite Forall_forall in Hle. specialize (Hle _ Hm). lia.
Qed.

Lemma next_id_eq m : minv m -> snext m + 1 < 2 ^ 63 -> next_id m = snext m + 1.
Proof.
  intros H Hroom. unfold next_id, alloc_id. rewrite wrap64_small by exact Hroom.
  apply next_id_loop_fresh; [pose proof (mi_next m H); lia|].
  apply not_true_is_false. intros Hm. apply mem_In in Hm.
  pose proof (mi_refer m H) as Hr. rewrite Forall_forall in Hr. specialize (Hr _ Hm). lia.
Qed.

Lemma perm_filter {A} (f : A -> bool) l l' : Permutation l l' -> Permutation (filter f l) (filter f l').
Proof.
  induction 1 as [|x l l' Hp IH|x y l|l l' l'' H1 IH1 H2 IH2]; cbn.
  - constructor.
  - destruct (f x); [constructor|]; exact IH.
  - destruct (f x), (f y); try reflexivity. apply perm_swap.
  - etransitivity; eassumption.
Qed.

Lemma alive_app_fresh r id n : nid n <> id -> alive (r ++ [id]) n = alive r n.
Proof.
  intros H. unfold alive, mem. rewrite existsb_app. cbn.
  destruct (Z.eqb_spec (nid n) id); [contradiction|]. rewrite !orb_false_r. reflexivity.
Qed.

Lemma alive_unrefer r id n : alive (unrefer r id) n = alive r n && negb (nid n =? id).
Proof. unfold alive. apply mem_unrefer. Qed.

Lemma wcontent_add w n : wcontent (add_node w n) = wcontent w ++ [n].
Proof. unfold wcontent. rewrite add_node_eq. cbn [wnodes]. rewrite map_app. cbn. rewrite wn_tag. reflexivity. Qed.

Lemma wcontent_del w id : wcontent (wdel w id) = filter (fun n => negb (nid n =? id)) (wcontent w).
Proof. unfold wcontent, wdel. cbn [wnodes set_nodes]. apply (map_filter_wn (fun n => negb (nid n =? id))). Qed.

Lemma add_node_inv w n :
  winv w -> wtt w <= ndl n -> (0 < nper n -> wtt w < ndl n) -> ~ In (nid n) (map nid (wcontent w)) ->
  winv (add_node w n).
Proof.
  intros [Hc [Hall [Hnd Hper]]] Hd Hp Hf. unfold winv. rewrite wcontent_add. rewrite add_node_eq. cbn [wcur wtt wnodes].
  split; [exact Hc|]. split; [|split].
  - apply Forall_app. split; [exact Hall|]. constructor; [|constructor]. apply tag_ok; assumption.
  - rewrite map_app. cbn. apply nodup_app_intro; [exact Hnd|constructor; [intros []|constructor]|].
    intros x Hx [<-|[]]. contradiction.
  - unfold per_ok in *. apply Forall_app. split; [exact Hper|]. constructor; [exact Hp|constructor].
Qed.

Lemma wdel_inv w id : winv w -> winv (wdel w id).
Proof.
  intros [Hc [Hall [Hnd Hper]]]. unfold winv. rewrite wcontent_del. unfold wdel. cbn [set_nodes wcur wtt wnodes].
  split; [exact Hc|]. split; [|split].
  - apply Forall_forall. intros x Hx. apply filter_In in Hx. rewrite Forall_forall in Hall. apply Hall. tauto.
  - apply NoDup_map_filter. exact Hnd.
  - unfold per_ok in *. apply Forall_forall. intros x Hx. apply filter_In in Hx. rewrite Forall_forall in Hper. apply Hper. tauto.
Qed.

(* ids never appear out of nothing *)
Lemma phase_ids t r N : incl (map nid (fst (fst (phase t r N)))) (map nid N).
Proof.
  intros x Hx. apply in_map_iff in Hx. destruct Hx as [n [<- Hn]]. apply phase_in in Hn.
  destruct Hn as [[Hn _]|[m [Hm [_ [_ ->]]]]]; [apply in_map; exact Hn|].
  cbn. apply in_map_iff. exists m. split; [reflexivity|exact Hm].
Qed.

Lemma wtick_ids w r w' r' o :
  winv w -> wtick w r = (w', r', o) -> incl (map nid (wcontent w')) (map nid (wcontent w)).
Proof.
  intros Hi E. destruct (wtick_spec w r Hi) as [w2 [N3 [E2 [HN3 [EN _]]]]]. cbn zeta in *.
  rewrite E in E2. inversion E2; subst w2. rewrite EN.
  intros x Hx. apply phase_ids in Hx.
  apply (Permutation_in _ (Permutation_map nid HN3)) in Hx. apply phase_ids in Hx. exact Hx.
Qed.

Lemma wtick_acc_ids k : forall w r o w' r' o',
  winv w -> N.iter k wtick_acc (w, r, o) = (w', r', o') ->
  winv w' /\ incl (map nid (wcontent w')) (map nid (wcontent w)).
Proof.
  induction k as [|k IH] using N.peano_ind; intros w r o w' r' o' Hi E.
  - cbn in E. inversion E; subst. split; [exact Hi|apply incl_refl].
  - rewrite N.iter_succ in E. destruct (N.iter k wtick_acc (w, r, o)) as [[w1 r1] o1] eqn:E1.
    destruct (IH _ _ _ _ _ _ Hi E1) as [Hi1 Hs1]. unfold wtick_acc in E.
    destruct (wtick w1 r1) as [[w2 r2] o2] eqn:E2. inversion E; subst.
    split; [eapply wtick_inv; eassumption|].
    eapply incl_tran; [eapply wtick_ids; eassumption|exact Hs1].
Qed.

Lemma htick_ids h r now :
  NoDup (map nid h) -> incl (map nid (fst (fst (htick h r now)))) (map nid h).
Proof.
  intros Hnd. rewrite ht_eq by exact Hnd. cbn [fst]. rewrite map_app, map_nid_rearm.
  intros x Hx. apply in_app_iff in Hx. destruct Hx as [Hx|Hx];
    apply in_map_iff in Hx; destruct Hx as [n [<- Hn]]; apply in_map.
  - apply filter_In in Hn. tauto.
  - apply filter_In in Hn. destruct Hn as [Hn _]. apply ht_in_D in Hn. tauto.
Qed.

Lemma nodup_app_elim {A} (a b : list A) :
  NoDup (a ++ b) -> NoDup a /\ NoDup b /\ (forall x, In x a -> ~ In x b).
Proof.
  induction a as [|x a IH]; cbn; intros H.
  - split; [constructor|split; [exact H|intros x []]].
  - inversion H as [|? ? Hn Hd]; subst. destruct (IH Hd) as [Ha [Hb Hdis]].
    split; [constructor; [intros Hi; apply Hn; apply in_app_iff; left; exact Hi|exact Ha]|].
    split; [exact Hb|]. intros y [<-|Hy]; [intros Hi; apply Hn; apply in_app_iff; right; exact Hi|apply Hdis; exact Hy].
Qed.

(* NoDup / bounds of padd ids ++ content ids survive when the content's ids shrink *)
Lemma ids_shrink (a c c' : list Z) (bound : Z) :
  NoDup (a ++ c) -> Forall (fun x => x <= bound) (a ++ c) -> NoDup c' -> incl c' c ->
  NoDup (a ++ c') /\ Forall (fun x => x <= bound) (a ++ c').
Proof.
  intros Hnd Hle Hnd' Hin. split.
  - destruct (nodup_app_elim _ _ Hnd) as [Ha [_ Hdis]].
    apply nodup_app_intro; [exact Ha|exact Hnd'|].
    intros x Hx Hy. apply (Hdis x Hx). apply Hin. exact Hy.
  - rewrite Forall_forall in *. intros x Hx. apply Hle. apply in_app_iff in Hx. apply in_app_iff.
    destruct Hx as [Hx|Hx]; [left; exact Hx|right; apply Hin; exact Hx].
Qed.

(* ------------------------------------------------------------------------------------ *)
(* one step of the scheduler against one step of the specification *)

Definition sim_step (m : st) (z : sst) (m' : st) (a : out) (z' : sst) (b : out) : Prop :=
  minv m' /\ rel m' z' /\ out_eq a b.

Lemma nid_request m id d p : nid (request m id d p) = id.
Proof. unfold request. destruct (score m); reflexivity. Qed.

Lemma schedule_sim m z d p :
  minv m -> rel m z -> snext m + 1 < 2 ^ 63 -> 0 <= d -> 0 <= p ->
  sim_step m z (fst (schedule m d p)) (snd (schedule m d p)) (fst (sschedule z d p)) (snd (sschedule z d p)).
Proof.
  intros Hm Hr Hroom Hd Hp. pose proof (next_id_eq m Hm Hroom) as Hid.
  destruct Hr as [Rc [Rr [Rn [Rq [Rd [Rp Rk]]]]]].
  destruct Hm as [Mn Mr Mrn Mi Ml Mp Mc Mq].
  unfold schedule, sschedule. rewrite Rn, Rr. change (alloc_id (snext m) (srefer m)) with (next_id m).
  rewrite Hid. cbn [fst snd].
  set (id := snext m + 1) in *.
  assert (Hreq : request m id d p =
                 (if zwheel z then mkNode id d p else mkNode id (sclock m + d + p) p)).
  { unfold request. destruct (score m); [destruct Rk as [-> _]|rewrite Rk]; reflexivity. }
  assert (Hfresh : ~ In id (all_ids m)).
  { intros Hi. rewrite Forall_forall in Ml. specialize (Ml _ Hi). lia. }
  assert (Hfr : ~ In id (srefer m)).
  { intros Hi. rewrite Forall_forall in Mr. specialize (Mr _ Hi). lia. }
  unfold sim_step. split; [|split].
  - constructor; cbn [snext srefer spadd spdel score].
    + lia.
    + apply Forall_app. split; [eapply Forall_impl; [|exact Mr]; cbn; intros; lia|].
      constructor; [lia|constructor].
    + apply nodup_app_intro; [exact Mrn|constructor; [intros []|constructor]|].
      intros x Hx [<-|[]]. contradiction.
    + unfold all_ids in *. cbn [spadd score]. rewrite map_app. cbn [map]. rewrite nid_request, <- app_assoc.
      cbn [app]. eapply Permutation_NoDup; [apply Permutation_middle|]. constructor; [exact Hfresh|exact Mi].
    + unfold all_ids in *. cbn [spadd score]. rewrite map_app. cbn [map]. rewrite nid_request, <- app_assoc.
      apply Forall_app. apply Forall_app in Ml. destruct Ml as [Ml1 Ml2].
      split; [eapply Forall_impl; [|exact Ml1]; cbn; intros; lia|].
      constructor; [lia|eapply Forall_impl; [|exact Ml2]; cbn; intros; lia].
    + eapply Forall_impl; [|exact Mp]. cbn. intros x [Hx Hle]. split; [|lia].
      rewrite in_app_iff. intros [Hi|[<-|[]]]; [contradiction|lia].
    + exact Mc.
    + apply Forall_app. split; [exact Mq|]. constructor; [|constructor].
      unfold req_ok, request. destruct (score m); cbn; [lia|exact I].
  - unfold rel. cbn [zclock zrefer znext zreq zdels zpending zwheel ztt sclock srefer snext spadd spdel score].
    rewrite Rq, Rc, Hreq. fold id.
    split; [reflexivity|]. split; [reflexivity|]. split; [reflexivity|]. split; [reflexivity|].
    split; [exact Rd|]. split; [|exact Rk].
    rewrite (filter_ext_in' (alive (srefer m ++ [id])) (alive (srefer m))); [exact Rp|].
    intros n Hn. apply alive_app_fresh. intros E. apply Hfresh. unfold all_ids. apply in_app_iff. right.
    rewrite <- E. apply in_map. exact Hn.
  - unfold out_eq. rewrite Rq. reflexivity.
Qed.

Lemma cancel_sim m z id :
  minv m -> rel m z ->
  sim_step m z (fst (step m (Cancel id))) (snd (step m (Cancel id)))
           (fst (sstep z (Cancel id))) (snd (sstep z (Cancel id))).
Proof.
  intros Hm Hr. destruct Hr as [Rc [Rr [Rn [Rq [Rd [Rp Rk]]]]]].
  cbn [step sstep]. rewrite Rr. destruct (mem id (srefer m)) eqn:Hin; cbn [fst snd].
  2:{ split; [exact Hm|split; [unfold rel; tauto|reflexivity]]. }
  destruct Hm as [Mn Mr Mrn Mi Ml Mp Mc Mq]. apply mem_In in Hin.
  split; [|split].
  - constructor; cbn [snext srefer spadd spdel score]; try assumption.
    + unfold unrefer. apply Forall_forall. intros x Hx. apply filter_In in Hx.
      rewrite Forall_forall in Mr. apply Mr. tauto.
    + unfold unrefer. apply NoDup_filter. exact Mrn.
    + apply Forall_app. split.
      * eapply Forall_impl; [|exact Mp]. cbn. intros x [Hx Hle]. split; [|exact Hle].
        unfold unrefer. rewrite filter_In. tauto.
      * constructor; [|constructor]. split.
        -- unfold unrefer. rewrite filter_In, Z.eqb_refl. cbn. intros [_ H]. discriminate.
        -- rewrite Forall_forall in Mr. specialize (Mr _ Hin). lia.
  - unfold rel. cbn [zclock zrefer znext zreq zdels zpending zwheel ztt sclock srefer snext spadd spdel score].
    split; [exact Rc|]. split; [reflexivity|]. split; [exact Rn|]. split; [exact Rq|].
    split; [rewrite app_length; cbn; lia|]. split; [|exact Rk].
    rewrite (filter_ext (alive (unrefer (srefer m) id)) (fun n => alive (srefer m) n && negb (nid n =? id)))
      by (intros n; apply alive_unrefer).
    rewrite <- filter_filter'. apply perm_filter. exact Rp.
  - unfold out_eq. rewrite Rd. reflexivity.
Qed.

Lemma handle_add_sim m z :
  minv m -> rel m z ->
  sim_step m z (fst (step m HandleAdd)) (snd (step m HandleAdd))
           (fst (sstep z HandleAdd)) (snd (sstep z HandleAdd)).
Proof.
  intros Hm Hr. destruct Hr as [Rc [Rr [Rn [Rq [Rd [Rp Rk]]]]]].
  cbn [step sstep]. rewrite Rq. destruct (spadd m) as [|n q] eqn:Eq; cbn [fst snd].
  { split; [exact Hm|split; [unfold rel; rewrite Eq; tauto|reflexivity]]. }
  destruct Hm as [Mn Mr Mrn Mi Ml Mp Mc Mq]. unfold all_ids in *. rewrite Eq in *. cbn [map app] in Mi, Ml.
  inversion Mi as [|? ? Hfresh Mi']; subst. inversion Ml as [|? ? Hle Ml']; subst.
  inversion Mq as [|? ? Hreq Mq']; subst.
  assert (Hfc : ~ In (nid n) (map nid (core_content (score m)))).
  { intros Hi. apply Hfresh. apply in_app_iff. right. exact Hi. }
  rewrite Rr. fold (alive (srefer m) n).
  destruct (alive (srefer m) n) eqn:Ha.
  2:{ split; [|split; [|reflexivity]].
      - constructor; unfold all_ids; cbn [snext srefer spadd spdel score]; try assumption.
      - unfold rel. cbn [zclock zrefer znext zreq zdels zpending zwheel ztt sclock srefer snext spadd spdel score]. tauto. }
  destruct (score m) as [w|h] eqn:Ec; cbn [core_add core_content] in *.
  - destruct Rk as [Rw Rt]. rewrite Rw, Rt. destruct Hreq as [Hd Hp].
    set (n' := mkNode (nid n) (ndl n + wtt w + nper n) (nper n)).
    assert (Hi' : winv (add_node w n')).
    { apply add_node_inv; [exact Mc|cbn; lia|cbn; lia|exact Hfc]. }
    split; [|split; [|reflexivity]].
    + constructor; unfold all_ids; cbn [snext srefer spadd spdel score core_content]; try assumption.
      * rewrite wcontent_add, map_app. cbn [map]. change (nid n') with (nid n).
        rewrite app_assoc. eapply Permutation_NoDup; [apply Permutation_cons_append|].
        constructor; [exact Hfresh|exact Mi'].
      * rewrite wcontent_add, map_app. cbn [map]. change (nid n') with (nid n).
        apply Forall_app in Ml'. destruct Ml' as [M1 M2].
        apply Forall_app. split; [exact M1|]. apply Forall_app. split; [exact M2|]. constructor; [exact Hle|constructor].
    + unfold rel. cbn [zclock zrefer znext zreq zdels zpending zwheel ztt sclock srefer snext spadd spdel score core_content].
      repeat (split; [assumption || reflexivity|]). split; [|split; [reflexivity|]].
      * rewrite wcontent_add, filter_app. cbn [filter]. change (alive (srefer m) n') with (alive (srefer m) n).
        rewrite Ha. apply Permutation_app; [exact Rp|reflexivity].
      * rewrite add_node_eq. reflexivity.
  - rewrite Rk.
    split; [|split; [|reflexivity]].
    + constructor; unfold all_ids; cbn [snext srefer spadd spdel score core_content]; try assumption.
      * rewrite map_app. cbn [map]. rewrite app_assoc. eapply Permutation_NoDup; [apply Permutation_cons_append|].
        constructor; [exact Hfresh|exact Mi'].
      * rewrite map_app. cbn [map].
        apply Forall_app in Ml'. destruct Ml' as [M1 M2].
        apply Forall_app. split; [exact M1|]. apply Forall_app. split; [exact M2|]. constructor; [exact Hle|constructor].
    + unfold rel. cbn [zclock zrefer znext zreq zdels zpending zwheel ztt sclock srefer snext spadd spdel score core_content].
      repeat (split; [assumption || reflexivity|]). split; [|reflexivity].
      rewrite filter_app. cbn [filter]. rewrite Ha. apply Permutation_app; [exact Rp|reflexivity].
Qed.

Lemma core_content_del c id :
  core_content (core_del c id) = filter (fun n => negb (nid n =? id)) (core_content c).
Proof. destruct c; cbn; [apply wcontent_del|reflexivity]. Qed.

Lemma handle_del_sim m z :
  minv m -> rel m z ->
  sim_step m z (fst (step m HandleDel)) (snd (step m HandleDel))
           (fst (sstep z HandleDel)) (snd (sstep z HandleDel)).
Proof.
  intros Hm Hr. destruct Hr as [Rc [Rr [Rn [Rq [Rd [Rp Rk]]]]]].
  cbn [step sstep]. rewrite Rd. destruct (spdel m) as [|id q] eqn:Eq; cbn [fst snd length].
  { cbn. split; [exact Hm|split; [unfold rel; rewrite Eq; tauto|reflexivity]]. }
  destruct (Z.ltb_spec 0 (Z.of_nat (S (length q)))) as [_|Hbad]; [|lia]. cbn [fst snd].
  destruct Hm as [Mn Mr Mrn Mi Ml Mp Mc Mq]. rewrite Eq in Mp.
  inversion Mp as [|? ? [Hdead Hle] Mp']; subst.
  assert (Hsub : incl (map nid (core_content (core_del (score m) id))) (map nid (core_content (score m)))).
  { rewrite core_content_del. intros x Hx. apply in_map_iff in Hx. destruct Hx as [n [<- Hn]].
    apply filter_In in Hn. apply in_map. tauto. }
  assert (Hndc : NoDup (map nid (core_content (core_del (score m) id)))).
  { rewrite core_content_del. apply NoDup_map_filter. unfold all_ids in Mi.
    apply nodup_app_elim in Mi. tauto. }
  destruct (ids_shrink _ _ _ _ Mi Ml Hndc Hsub) as [Mi2 Ml2].
  split; [|split; [|reflexivity]].
  - constructor; unfold all_ids; cbn [snext srefer spadd spdel score]; try assumption.
    + destruct (score m); cbn [core_del]; [apply wdel_inv; exact Mc|exact I].
    + destruct (score m); exact Mq.
  - unfold rel. cbn [zclock zrefer znext zreq zdels zpending zwheel ztt sclock srefer snext spadd spdel score].
    split; [exact Rc|]. split; [exact Rr|]. split; [exact Rn|]. split; [exact Rq|].
    split; [lia|]. split; [|destruct (score m); exact Rk].
    rewrite core_content_del, filter_filter'.
    rewrite (filter_ext_in' (fun n => negb (nid n =? id) && alive (srefer m) n) (alive (srefer m))); [exact Rp|].
    intros n Hn. destruct (Z.eqb_spec (nid n) id) as [E|E]; [|reflexivity]. cbn.
    symmetry. apply not_true_is_false. intros Ha. apply Hdead. rewrite <- E. apply mem_In. exact Ha.
Qed.

(* ticks only take ids out of the refer map *)
Lemma spec_tick_refer t P r : exists f, snd (fst (spec_tick t P r)) = filter f r.
Proof. unfold spec_tick. cbn [fst snd]. rewrite unrefer_fold. eexists. reflexivity. Qed.

Lemma ticks_iter_refer k : forall t P r o,
  exists f, snd (fst (N.iter k ticks_acc (t, P, r, o))) = filter f r.
Proof.
  induction k as [|k IH] using N.peano_ind; intros t P r o.
  - exists (fun _ => true). cbn. symmetry. apply filter_true.
  - rewrite N.iter_succ. destruct (IH t P r o) as [f Hf].
    destruct (N.iter k ticks_acc (t, P, r, o)) as [[[t1 P1] r1] o1]. cbn [fst snd] in Hf. subst r1.
    unfold ticks_acc. destruct (spec_tick_refer (t1 + 1) P1 (filter f r)) as [g Hg].
    destruct (spec_tick (t1 + 1) P1 (filter f r)) as [[P2 r2] o2]. cbn [fst snd] in *. subst r2.
    rewrite filter_filter'. eexists. reflexivity.
Qed.

Lemma refer_filter_inv (f : Z -> bool) (m : st) :
  Forall (fun x => 0 < x <= snext m) (srefer m) -> NoDup (srefer m) ->
  Forall (fun x => ~ In x (srefer m) /\ x <= snext m) (spdel m) ->
  Forall (fun x => 0 < x <= snext m) (filter f (srefer m)) /\ NoDup (filter f (srefer m)) /\
  Forall (fun x => ~ In x (filter f (srefer m)) /\ x <= snext m) (spdel m).
Proof.
  intros H1 H2 H3. split; [|split].
  - apply Forall_forall. intros x Hx. apply filter_In in Hx. rewrite Forall_forall in H1. apply H1. tauto.
  - apply NoDup_filter. exact H2.
  - eapply Forall_impl; [|exact H3]. cbn. intros x [Hx Hle]. split; [|exact Hle].
    rewrite filter_In. tauto.
Qed.

Lemma tick_sim m z :
  minv m -> rel m z ->
  sim_step m z (fst (step m Tick)) (snd (step m Tick)) (fst (sstep z Tick)) (snd (sstep z Tick)).
Proof.
  intros Hm Hr. destruct Hr as [Rc [Rr [Rn [Rq [Rd [Rp Rk]]]]]].
  destruct Hm as [Mn Mr Mrn Mi Ml Mp Mc Mq].
  cbn [step sstep]. unfold core_tick. unfold all_ids in Mi, Ml.
  destruct (score m) as [w|h] eqn:Ec; cbn [core_content] in *.
  - destruct Rk as [Rw Rt]. rewrite Rw. unfold wupdate. rewrite Rc, Rt, Rr.
    set (k := Z.to_N (sclock m - wtt w)).
    assert (H0 : racc (wcur w - wtt w) (w, srefer m, []) (wtt w, zpending z, srefer m, [])).
    { unfold racc. split; [exact Mc|]. split; [reflexivity|]. split; [lia|]. split; [reflexivity|].
      split; [exact Rp|apply deq_refl]. }
    pose proof (racc_iter _ k _ _ H0) as H1.
    destruct (N.iter k wtick_acc (w, srefer m, [])) as [[w' r'] o'] eqn:E1.
    destruct (N.iter k ticks_acc (wtt w, zpending z, srefer m, [])) as [[[t2 P2] r2] o2] eqn:E2.
    unfold racc in H1. destruct H1 as [Hi' [Ht' [Hc' [<- [HP' Ho']]]]].
    destruct (wtick_acc_ids k _ _ _ _ _ _ Mc E1) as [_ Hsub].
    assert (Hndc : NoDup (map nid (wcontent w'))) by (destruct Hi' as [_ [_ [H _]]]; exact H).
    destruct (ids_shrink _ _ _ _ Mi Ml Hndc Hsub) as [Mi2 Ml2].
    destruct (ticks_iter_refer k (wtt w) (zpending z) (srefer m) []) as [f Hf].
    rewrite E2 in Hf. cbn [fst snd] in Hf. subst r'.
    destruct (refer_filter_inv f m Mr Mrn Mp) as [Mr2 [Mrn2 Mp2]].
    cbn [fst snd]. split; [|split; [|exact Ho']].
    + constructor; unfold all_ids; cbn [snext srefer spadd spdel score core_content]; assumption.
    + unfold rel, tick_clock. rewrite Ec. cbn [zclock zrefer znext zreq zdels zpending zwheel ztt sclock srefer snext spadd spdel score core_content].
      repeat (split; [assumption || reflexivity|]). symmetry. exact Ht'.
  - rewrite Rk, Rc, Rr.
    assert (Hnd : NoDup (map nid h)) by (apply nodup_app_elim in Mi; tauto).
    destruct (htick_refines h (srefer m) (sclock m) (zpending z) Hnd Rp)
      as [h' [r' [o [P' [o' [E [E' [Hnd' [HP' Ho']]]]]]]]].
    pose proof (htick_ids h (srefer m) (sclock m) Hnd) as Hsub.
    pose proof (ht_r2 (sclock m) (srefer m) h Hnd) as Hr2.
    rewrite E in Hsub, Hr2. cbn [fst snd] in Hsub, Hr2. rewrite E, E'. cbn [fst snd].
    destruct (ids_shrink _ _ _ _ Mi Ml Hnd' Hsub) as [Mi2 Ml2].
    subst r'. match goal with |- context [filter ?g (srefer m)] => set (f := g) in * end.
    destruct (refer_filter_inv f m Mr Mrn Mp) as [Mr2 [Mrn2 Mp2]].
    split; [|split; [|exact Ho']].
    + constructor; unfold all_ids; cbn [snext srefer spadd spdel score core_content]; assumption.
    + unfold rel, tick_clock. rewrite Ec. cbn [zclock zrefer znext zreq zdels zpending zwheel ztt sclock srefer snext spadd spdel score core_content].
      repeat (split; [assumption || reflexivity|]). reflexivity.
Qed.

Lemma step_sim m z o :
  minv m -> rel m z -> snext m + 1 < 2 ^ 63 ->
  sim_step m z (fst (step m o)) (snd (step m o)) (fst (sstep z o)) (snd (sstep z o)).
Proof.
  intros Hm Hr Hroom. destruct o.
  - cbn [step sstep]. apply schedule_sim; [exact Hm|exact Hr|exact Hroom|lia|lia].
  - cbn [step sstep]. apply schedule_sim; [exact Hm|exact Hr|exact Hroom|lia|].
    destruct (Z.ltb_spec p 0); lia.
  - apply cancel_sim; assumption.
  - cbn [step sstep fst snd]. destruct Hr as [Rc [Rr R]]. split; [exact Hm|split; [unfold rel; tauto|]].
    unfold out_eq. rewrite Rr. reflexivity.
  - cbn [step sstep fst snd]. destruct Hr as [Rc [Rr R]]. split; [exact Hm|split; [unfold rel; tauto|]].
    unfold out_eq. rewrite Rr. reflexivity.
  - apply handle_add_sim; assumption.
  - apply handle_del_sim; assumption.
  - cbn [step sstep fst snd]. destruct Hr as [Rc [Rr [Rn [Rq [Rd [Rp Rk]]]]]].
    destruct Hm as [Mn Mr Mrn Mi Ml Mp Mc Mq].
    split; [constructor; assumption|split; [|reflexivity]].
    unfold rel. cbn [zclock zrefer znext zreq zdels zpending zwheel ztt sclock srefer snext spadd spdel score].
    rewrite Rc. tauto.
  - apply tick_sim; assumption.
  - cbn [step sstep fst snd]. split; [exact Hm|split; [exact Hr|exact I]].
Qed.

(* the id counter moves by at most one per step *)
Lemma step_next_le m o : minv m -> snext m + 1 < 2 ^ 63 -> snext m <= snext (fst (step m o)) <= snext m + 1.
Proof.
  intros Hm Hroom. pose proof (next_id_eq m Hm Hroom) as Hid. destruct o; cbn [step].
  - unfold schedule. cbn [fst snext]. lia.
  - unfold schedule. cbn [fst snext]. lia.
  - destruct (mem id (srefer m)); cbn [fst snext]; lia.
  - cbn [fst]. lia.
  - cbn [fst]. lia.
  - destruct (spadd m); cbn [fst snext]; lia.
  - destruct (spdel m); cbn [fst snext]; lia.
  - cbn [fst snext]. lia.
  - destruct (core_tick (score m) (srefer m) (sclock m)) as [[c r] o]. cbn [fst snext]. lia.
  - cbn [fst]. lia.
Qed.

(* every history that does not exhaust the 63-bit id counter *)
Definition fits (m : st) (ops : list op) : Prop := snext m + Z.of_nat (length ops) < 2 ^ 63 - 1.

(* histories from a fresh scheduler (counter 0) that do not exhaust the counter *)
Definition short (ops : list op) : Prop := Z.of_nat (length ops) < 2 ^ 63 - 1.

Theorem run_refines ops : forall m z,
  minv m -> rel m z -> fits m ops ->
  minv (fst (run m ops)) /\ rel (fst (run m ops)) (fst (srun z ops)) /\
  Forall2 out_eq (snd (run m ops)) (snd (srun z ops)).
Proof.
  induction ops as [|o ops IH]; intros m z Hm Hr Hf; cbn [run srun].
  - cbn. split; [exact Hm|split; [exact Hr|constructor]].
  - unfold fits in Hf. cbn [length] in Hf.
    assert (Hroom : snext m + 1 < 2 ^ 63) by lia.
    destruct (step_sim m z o Hm Hr Hroom) as [Hm1 [Hr1 Ho]].
    pose proof (step_next_le m o Hm Hroom) as Hn.
    destruct (step m o) as [m1 a]. destruct (sstep z o) as [z1 b]. cbn [fst snd] in *.
    destruct (IH m1 z1 Hm1 Hr1) as [Hm2 [Hr2 Hos]]; [unfold fits; lia|].
    destruct (run m1 ops) as [m2 xs]. destruct (srun z1 ops) as [z2 ys]. cbn [fst snd] in *.
    split; [exact Hm2|split; [exact Hr2|constructor; assumption]].
Qed.

Lemma minv_init_wheel cur tt : 0 <= cur -> minv (init_wheel cur tt).
Proof.
  intros Hc. constructor; cbn; try (constructor; fail); try lia.
  unfold winv, per_ok. cbn. split; [exact Hc|split; [constructor|split; constructor]].
Qed.

Lemma minv_init_heap now : minv (init_heap now).
Proof. constructor; cbn; try constructor; lia. Qed.

Lemma rel_init_wheel cur tt : rel (init_wheel cur tt) (sinit true tt).
Proof. unfold rel. cbn. repeat split; constructor. Qed.

Lemma rel_init_heap now : rel (init_heap now) (sinit false now).
Proof. unfold rel. cbn. repeat split; constructor. Qed.
