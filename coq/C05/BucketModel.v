(* C05 / C06 — a wheel bucket as the code has it (sched/hhwheel_timer.go, WheelTimerBucket
   and the next/prev fields of WheelTimerNode): head and tail pointers and two pointer
   fields per node, transcribed from addNode / removeNode / unchain / replaceInit.
   Nodes are named by their ids; a nil pointer is None.  Nothing is proved here. *)
From Coq Require Import ZArith List Bool.
Import ListNotations.
Open Scope Z_scope.

Record bucket := mkB {
  bhead : option Z;
  btail : option Z;
  bnext : Z -> option Z;     (* node.next *)
  bprev : Z -> option Z      (* node.prev *)
}.

Definition upd (f : Z -> option Z) (k : Z) (v : option Z) : Z -> option Z :=
  fun x => if x =? k then v else f x.

Definition oeqb (a : option Z) (n : Z) : bool :=
  match a with Some x => x =? n | None => false end.

(* (b *WheelTimerBucket) addNode(node): node.next / node.prev are nil (unchained) *)
Definition b_add (b : bucket) (n : Z) : bucket :=
  match bhead b with
  | None => mkB (Some n) (Some n) (bnext b) (bprev b)
  | Some _ =>
      match btail b with
      | Some t => mkB (bhead b) (Some n) (upd (bnext b) t (Some n)) (upd (bprev b) n (Some t))
      | None => b                                   (* unreachable: head != nil implies tail != nil *)
      end
  end.

(* (b *WheelTimerBucket) removeNode(node), followed by node.unchain() *)
Definition b_remove (b : bucket) (n : Z) : bucket :=
  let next := bnext b n in
  let prev := bprev b n in
  let nx1 := match prev with Some p => upd (bnext b) p next | None => bnext b end in
  let pv1 := match next with Some x => upd (bprev b) x prev | None => bprev b end in
  let '(h, t) :=
    if oeqb (bhead b) n then
      if oeqb (btail b) n then (None, None) else (next, btail b)
    else if oeqb (btail b) n then (bhead b, prev) else (bhead b, btail b) in
  mkB h t (upd nx1 n None) (upd pv1 n None).

(* replaceInit: the chain stays linked through next; the bucket forgets it *)
Definition b_replace_init (b : bucket) : option Z * bucket :=
  (bhead b, mkB None None (bnext b) (bprev b)).

(* walking the detached chain as cascade() / expireNear() do: next = node.next; node.unchain() *)
Fixpoint b_walk (fuel : nat) (nx : Z -> option Z) (p : option Z) : list Z :=
  match fuel, p with
  | S f, Some x => x :: b_walk f nx (nx x)
  | _, _ => []
  end.
