(* C05 — facts about the specification's tick: membership, order, and the closed form for
   a one-shot timer (delivered exactly once, during the first tick at or after its due
   time, never earlier, never again). *)
From Coq Require Import ZArith List Bool Lia ZifyBool Permutation Sorted.
From FV Require Import C05.Model C05.Spec C05.WheelInv C05.ListFacts C05.Refine.
Import ListNotations.
Open Scope Z_scope.

Lemma in_dsort n l : In n (dsort l) <-> In n l.
Proof.
  split; intros H; [apply (Permutation_in _ (dsort_perm l)) in H|apply (Permutation_in _ (Permutation_sym (dsort_perm l))) in H]; exact H.
Qed.

Lemma in_dsort_1 n l : In n (dsort l) -> In n l.
Proof. apply in_dsort. Qed.
Lemma in_dsort_2 n l : In n l -> In n (dsort l).
Proof. apply in_dsort. Qed.

Lemma spec_tick_pending t P r m :
  In m (fst (fst (spec_tick t P r))) <->
  (In m P /\ t < ndl m) \/ (exists n, In n P /\ ndl n <= t /\ periodic n = true /\ m = rearm t n).
Proof.
  unfold spec_tick. cbn [fst]. rewrite in_app_iff, filter_In, in_map_iff. unfold is_due. split.
  - intros [[H Hd]|[n [E H]]]; [left; split; [exact H|lia]|right].
    exists n. apply filter_In in H. destruct H as [H Hp]. apply in_dsort_1 in H. apply filter_In in H.
    unfold is_due in H. split; [tauto|split; [lia|split; [exact Hp|congruence]]].
  - intros [[H Hd]|[n [H [Hd [Hp E]]]]]; [left; split; [exact H|lia]|right].
    exists n. split; [congruence|]. apply filter_In. split; [|exact Hp]. apply in_dsort_2. apply filter_In.
    unfold is_due. split; [exact H|lia].
Qed.

Lemma spec_tick_out t P r x :
  In x (snd (spec_tick t P r)) <-> exists n, In n P /\ ndl n <= t /\ x = deliv_of n.
Proof.
  unfold spec_tick. cbn [snd]. rewrite in_map_iff. split.
  - intros [n [E H]]. exists n. apply in_dsort_1 in H. apply filter_In in H. unfold is_due in H.
    split; [tauto|split; [lia|symmetry; exact E]].
  - intros [n [H [Hd E]]]. exists n. split; [symmetry; exact E|]. apply in_dsort_2. apply filter_In.
    unfold is_due. split; [exact H|lia].
Qed.

Lemma spec_tick_refer_eq t P r :
  snd (fst (spec_tick t P r)) =
  filter (fun x => negb (mem x (map nid (filter (fun n => negb (periodic n)) (dsort (filter (is_due t) P)))))) r.
Proof. unfold spec_tick. cbn [fst snd]. apply unrefer_fold. Qed.

(* deliveries of one tick are in non-decreasing due order, and none is later than t *)
Lemma spec_tick_sorted t P r :
  StronglySorted Z.le (map snd (snd (spec_tick t P r))) /\
  Forall (fun d => d <= t) (map snd (snd (spec_tick t P r))).
Proof.
  unfold spec_tick. cbn [snd]. rewrite map_map. cbn [snd]. split.
  - change (map (fun x : node => ndl x) (dsort (filter (is_due t) P))) with (map ndl (dsort (filter (is_due t) P))).
    apply dsort_sorted.
  - apply Forall_forall. intros d Hd. apply in_map_iff in Hd. destruct Hd as [n [<- Hn]].
    apply in_dsort_1 in Hn. apply filter_In in Hn. unfold is_due in Hn. lia.
Qed.

Lemma spec_tick_after t P r : Forall (fun n => t < ndl n) (filter periodic (fst (fst (spec_tick t P r))))
  /\ Forall (fun n => periodic n = true -> t < ndl n) (fst (fst (spec_tick t P r))).
Proof.
  split; apply Forall_forall; intros m Hm.
  - apply filter_In in Hm. destruct Hm as [Hm Hp]. apply spec_tick_pending in Hm.
    destruct Hm as [[_ H]|[n [_ [_ [Hpn ->]]]]]; [exact H|]. cbn. unfold periodic in Hpn. lia.
  - intros _. apply spec_tick_pending in Hm.
    destruct Hm as [[_ H]|[n [_ [_ [Hpn ->]]]]]; [exact H|]. cbn. unfold periodic in Hpn. lia.
Qed.

Lemma spec_tick_all_after t P r : Forall (fun n => t < ndl n) (fst (fst (spec_tick t P r))).
Proof.
  apply Forall_forall. intros m Hm. apply spec_tick_pending in Hm.
  destruct Hm as [[_ H]|[n [_ [_ [Hpn ->]]]]]; [exact H|]. cbn. unfold periodic in Hpn. lia.
Qed.

Lemma sorted_app (a b : list Z) (t : Z) :
  StronglySorted Z.le a -> StronglySorted Z.le b ->
  Forall (fun d => d <= t) a -> Forall (fun d => t <= d) b -> StronglySorted Z.le (a ++ b).
Proof.
  induction a as [|x a IH]; cbn; intros Ha Hb Hla Hlb; [exact Hb|].
  inversion Ha as [|? ? Ha' Hx]; subst. inversion Hla as [|? ? Hxt Hla']; subst.
  constructor; [apply IH; assumption|].
  apply Forall_app. split; [exact Hx|]. eapply Forall_impl; [|exact Hlb]. cbn. intros; lia.
Qed.

(* a burst of ticks delivers in non-decreasing due order *)
Definition burst_ok (acc : Z * list node * list Z * list deliv) : Prop :=
  let '(t, P, r, o) := acc in
  StronglySorted Z.le (map snd o) /\ Forall (fun d => d <= t) (map snd o) /\
  (o = [] \/ Forall (fun n => t < ndl n) P).

Lemma burst_step acc : burst_ok acc -> burst_ok (ticks_acc acc).
Proof.
  destruct acc as [[[t P] r] o]. unfold burst_ok, ticks_acc. intros [Hs [Hle Hp]].
  pose proof (spec_tick_sorted (t + 1) P r) as [Hs' Hle'].
  pose proof (spec_tick_all_after (t + 1) P r) as Haft.
  assert (Hlow : o = [] \/ Forall (fun d => t <= d) (map snd (snd (spec_tick (t + 1) P r)))).
  { destruct Hp as [->|Hp]; [left; reflexivity|right].
    apply Forall_forall. intros d Hd. apply in_map_iff in Hd. destruct Hd as [x [<- Hx]].
    apply spec_tick_out in Hx. destruct Hx as [n [Hn [_ ->]]]. cbn.
    rewrite Forall_forall in Hp. specialize (Hp n Hn). lia. }
  destruct (spec_tick (t + 1) P r) as [[P' r'] o']. cbn [fst snd] in *.
  split; [|split; [|right; exact Haft]].
  - rewrite map_app. destruct Hlow as [->|Hlow]; [exact Hs'|].
    eapply sorted_app; eassumption.
  - rewrite map_app. apply Forall_app. split; [eapply Forall_impl; [|exact Hle]; cbn; intros; lia|exact Hle'].
Qed.

Lemma burst_iter k acc : burst_ok acc -> burst_ok (N.iter k ticks_acc acc).
Proof.
  intros H. induction k as [|k IH] using N.peano_ind; [exact H|]. rewrite N.iter_succ. apply burst_step. exact IH.
Qed.

(* ------------------------------------------------------------------------------------ *)
(* closed form for a one-shot timer *)

Lemma spec_tick_nodup t P r : NoDup (map nid P) -> NoDup (map nid (fst (fst (spec_tick t P r)))).
Proof.
  intros Hnd. unfold spec_tick. cbn [fst]. rewrite map_app, map_nid_rearm. apply nodup_app_intro.
  - apply NoDup_map_filter. exact Hnd.
  - apply NoDup_map_filter. eapply Permutation_NoDup; [apply Permutation_map, Permutation_sym, dsort_perm|].
    apply NoDup_map_filter. exact Hnd.
  - intros x Hx Hy. apply in_map_iff in Hx. destruct Hx as [a [Ea Ha]].
    apply in_map_iff in Hy. destruct Hy as [b [Eb Hb]].
    apply filter_In in Ha. destruct Ha as [Ha Hda]. apply negb_true_iff in Hda.
    apply filter_In in Hb. destruct Hb as [Hb _]. apply in_dsort_1 in Hb. apply filter_In in Hb. destruct Hb as [Hb Hdb].
    assert (a = b) by (eapply nodup_ids_inj; try eassumption; congruence). subst b. congruence.
Qed.

Lemma count_deliv_ids t P r i :
  NoDup (map nid P) ->
  count_occ Z.eq_dec (map fst (snd (spec_tick t P r))) i =
  if existsb (fun n => (nid n =? i) && is_due t n) P then 1%nat else 0%nat.
Proof.
  intros Hnd.
  assert (Hnd' : NoDup (map fst (snd (spec_tick t P r)))).
  { unfold spec_tick. cbn [snd]. rewrite map_map. cbn [fst].
    eapply Permutation_NoDup; [apply Permutation_map, Permutation_sym, dsort_perm|].
    apply (NoDup_map_filter nid). exact Hnd. }
  destruct (existsb (fun n => (nid n =? i) && is_due t n) P) eqn:Hex.
  - apply existsb_exists in Hex. destruct Hex as [n [Hn Hb]]. apply andb_true_iff in Hb. destruct Hb as [Hi Hd].
    apply Z.eqb_eq in Hi. apply NoDup_count_occ'; [exact Hnd'|].
    apply in_map_iff. exists (deliv_of n). split; [exact Hi|]. apply spec_tick_out. exists n.
    unfold is_due in Hd. split; [exact Hn|split; [lia|reflexivity]].
  - apply count_occ_not_In. intros Hi. apply in_map_iff in Hi. destruct Hi as [x [Ex Hx]].
    apply spec_tick_out in Hx. destruct Hx as [n [Hn [Hd ->]]]. cbn in Ex.
    assert (existsb (fun n => (nid n =? i) && is_due t n) P = true); [|congruence].
    apply existsb_exists. exists n. split; [exact Hn|]. unfold is_due. rewrite Ex, Z.eqb_refl. cbn. lia.
Qed.

(* state of the one-shot timer n after k ticks from time t0 *)
Definition track (t0 : Z) (n : node) (k : N) (acc : Z * list node * list Z * list deliv) : Prop :=
  let '(t, P, r, o) := acc in
  t = t0 + Z.of_N k /\ NoDup (map nid P) /\
  if (k =? 0)%N || (t0 + Z.of_N k <? ndl n)
  then In n P /\ count_occ Z.eq_dec (map fst o) (nid n) = 0%nat
  else ~ In (nid n) (map nid P) /\ count_occ Z.eq_dec (map fst o) (nid n) = 1%nat.

Lemma track_step t0 n k acc :
  nper n = 0 -> track t0 n k acc -> track t0 n (N.succ k) (ticks_acc acc).
Proof.
  intros Hone. destruct acc as [[[t P] r] o]. unfold track, ticks_acc. intros [Ht [Hnd H]].
  pose proof (spec_tick_nodup (t + 1) P r Hnd) as Hnd'.
  pose proof (count_deliv_ids (t + 1) P r (nid n) Hnd) as Hcnt.
  pose proof (spec_tick_pending (t + 1) P r) as Hpend.
  destruct (spec_tick (t + 1) P r) as [[P' r'] o'] eqn:E. cbn [fst snd] in *.
  split; [lia|]. split; [exact Hnd'|].
  rewrite map_app, count_occ_app.
  replace ((N.succ k =? 0)%N) with false by (symmetry; apply N.eqb_neq; lia). cbn [orb].
  set (ca := count_occ Z.eq_dec (map fst o) (nid n)) in *.
  set (cb := count_occ Z.eq_dec (map fst o') (nid n)) in *.
  set (ex := existsb (fun m => (nid m =? nid n) && is_due (t + 1) m) P) in *.
  destruct ((k =? 0)%N || (t0 + Z.of_N k <? ndl n)) eqn:Hph.
  - destruct H as [Hin Hc].
    destruct (Z.ltb_spec (t0 + Z.of_N (N.succ k)) (ndl n)) as [Hlt|Hge].
    + (* still not due *)
      assert (Hex : ex = false).
      { apply not_true_is_false. intros Hex. apply existsb_exists in Hex. destruct Hex as [m [Hm Hb]].
        apply andb_true_iff in Hb. destruct Hb as [Hi Hd]. apply Z.eqb_eq in Hi.
        assert (m = n) by (apply (nodup_ids_inj P); assumption). subst m. unfold is_due in Hd. lia. }
      rewrite Hex in Hcnt. cbv iota in Hcnt.
      split; [apply Hpend; left; split; [exact Hin|lia]|change (ca + cb = 0)%nat; lia].
    + (* due now *)
      assert (Hex : ex = true).
      { apply existsb_exists. exists n. split; [exact Hin|]. rewrite Z.eqb_refl. unfold is_due. cbn. lia. }
      rewrite Hex in Hcnt. cbv iota in Hcnt.
      split; [|change (ca + cb = 1)%nat; lia].
      intros Hi. apply in_map_iff in Hi. destruct Hi as [m [Em Hm]]. apply Hpend in Hm.
      destruct Hm as [[Hm Hd]|[m0 [Hm0 [_ [Hp ->]]]]].
      * assert (m = n) by (apply (nodup_ids_inj P); assumption). subst m. lia.
      * cbn in Em. assert (m0 = n) by (apply (nodup_ids_inj P); assumption). subst m0.
        unfold periodic in Hp. lia.
  - destruct H as [Hnot Hc]. apply orb_false_iff in Hph. destruct Hph as [Hk Hge].
    replace (t0 + Z.of_N (N.succ k) <? ndl n) with false by (symmetry; lia).
    assert (Hex : ex = false).
    { apply not_true_is_false. intros Hex. apply existsb_exists in Hex. destruct Hex as [m [Hm Hb]].
      apply andb_true_iff in Hb. destruct Hb as [Hi _]. apply Z.eqb_eq in Hi. apply Hnot. rewrite <- Hi.
      apply in_map. exact Hm. }
    rewrite Hex in Hcnt. cbv iota in Hcnt.
    split; [|change (ca + cb = 1)%nat; lia]. intros Hi. apply Hnot. apply in_map_iff in Hi. destruct Hi as [m [Em Hm]].
    apply Hpend in Hm. destruct Hm as [[Hm _]|[m0 [Hm0 [_ [_ ->]]]]].
    + rewrite <- Em. apply in_map. exact Hm.
    + cbn in Em. rewrite <- Em. apply in_map. exact Hm0.
Qed.

Lemma track_iter t0 n k P r :
  nper n = 0 -> NoDup (map nid P) -> In n P ->
  track t0 n k (N.iter k ticks_acc (t0, P, r, [])).
Proof.
  intros Hone Hnd Hin. induction k as [|k IH] using N.peano_ind.
  - cbn. split; [lia|]. split; [exact Hnd|]. split; [exact Hin|reflexivity].
  - rewrite N.iter_succ. apply track_step; assumption.
Qed.

(* the closed form: after k ticks from t0, a one-shot timer with due time dl has been
   delivered exactly once if k >= 1 and t0 + k >= dl, and not at all otherwise *)
Theorem spec_exact t0 n k P r :
  nper n = 0 -> NoDup (map nid P) -> In n P ->
  count_occ Z.eq_dec (map fst (snd (N.iter k ticks_acc (t0, P, r, [])))) (nid n) =
  if (k =? 0)%N || (t0 + Z.of_N k <? ndl n) then 0%nat else 1%nat.
Proof.
  intros Hone Hnd Hin. pose proof (track_iter t0 n k P r Hone Hnd Hin) as H.
  destruct (N.iter k ticks_acc (t0, P, r, [])) as [[[t P'] r'] o]. unfold track in H. cbn [snd].
  destruct H as [_ [_ H]]. destruct ((k =? 0)%N || (t0 + Z.of_N k <? ndl n)); tauto.
Qed.

(* ------------------------------------------------------------------------------------ *)
(* closed form for a periodic timer: with due time D > t0 and period p > 0 it is delivered
   during the ticks D, D+p, D+2p, ... and at no other tick *)

Definition pcount (t0 D p : Z) (k : N) : Z :=
  if t0 + Z.of_N k <? D then 0 else (t0 + Z.of_N k - D) / p + 1.

Lemma pcount_bounds t0 D p k : 0 < p -> t0 < D -> 0 <= pcount t0 D p k /\ t0 + Z.of_N k < D + pcount t0 D p k * p.
Proof.
  intros Hp Hd. unfold pcount. destruct (Z.ltb_spec (t0 + Z.of_N k) D); [lia|].
  pose proof (Z.div_mod (t0 + Z.of_N k - D) p ltac:(lia)). pose proof (Z.mod_pos_bound (t0 + Z.of_N k - D) p Hp).
  assert (0 <= (t0 + Z.of_N k - D) / p) by (apply Z.div_pos; lia). nia.
Qed.

Lemma pcount_succ t0 D p k : 0 < p -> t0 < D ->
  pcount t0 D p (N.succ k) =
  if D + pcount t0 D p k * p =? t0 + Z.of_N k + 1 then pcount t0 D p k + 1 else pcount t0 D p k.
Proof.
  intros Hp Hd. pose proof (pcount_bounds t0 D p k Hp Hd) as [Hb1 Hb2]. unfold pcount in *.
  rewrite N2Z.inj_succ.
  destruct (Z.ltb_spec (t0 + Z.of_N k) D) as [H1|H1]; destruct (Z.ltb_spec (t0 + Z.succ (Z.of_N k)) D) as [H2|H2]; try lia.
  - destruct (Z.eqb_spec (D + 0 * p) (t0 + Z.of_N k + 1)); [lia|reflexivity].
  - destruct (Z.eqb_spec (D + 0 * p) (t0 + Z.of_N k + 1)); [|lia].
    replace (t0 + Z.succ (Z.of_N k) - D) with 0 by lia. rewrite Z.div_0_l by lia. reflexivity.
  - set (a := t0 + Z.of_N k - D) in *. replace (t0 + Z.succ (Z.of_N k) - D) with (a + 1) by lia.
    pose proof (Z.div_mod a p ltac:(lia)). pose proof (Z.mod_pos_bound a p Hp).
    pose proof (Z.div_mod (a + 1) p ltac:(lia)). pose proof (Z.mod_pos_bound (a + 1) p Hp).
    destruct (Z.eqb_spec (D + (a / p + 1) * p) (t0 + Z.of_N k + 1)); nia.
Qed.

Definition ptrack (t0 : Z) (n : node) (k : N) (acc : Z * list node * list Z * list deliv) : Prop :=
  let '(t, P, r, o) := acc in
  t = t0 + Z.of_N k /\ NoDup (map nid P) /\
  In (mkNode (nid n) (ndl n + pcount t0 (ndl n) (nper n) k * nper n) (nper n)) P /\
  Z.of_nat (count_occ Z.eq_dec (map fst o) (nid n)) = pcount t0 (ndl n) (nper n) k.

Lemma ptrack_step t0 n k acc :
  0 < nper n -> t0 < ndl n -> ptrack t0 n k acc -> ptrack t0 n (N.succ k) (ticks_acc acc).
Proof.
  intros Hper Hd. destruct acc as [[[t P] r] o]. unfold ptrack, ticks_acc. intros [Ht [Hnd [Hin Hc]]].
  pose proof (pcount_bounds t0 (ndl n) (nper n) k Hper Hd) as [Hb1 Hb2].
  set (c := pcount t0 (ndl n) (nper n) k) in *.
  set (m := mkNode (nid n) (ndl n + c * nper n) (nper n)) in *.
  pose proof (spec_tick_nodup (t + 1) P r Hnd) as Hnd'.
  pose proof (count_deliv_ids (t + 1) P r (nid n) Hnd) as Hcnt.
  pose proof (spec_tick_pending (t + 1) P r) as Hpend.
  destruct (spec_tick (t + 1) P r) as [[P' r'] o'] eqn:E. cbn [fst snd] in *.
  split; [lia|]. split; [exact Hnd'|].
  rewrite map_app, count_occ_app, Nat2Z.inj_add.
  set (ca := count_occ Z.eq_dec (map fst o) (nid n)) in *.
  set (cb := count_occ Z.eq_dec (map fst o') (nid n)) in *.
  set (ex := existsb (fun x => (nid x =? nid n) && is_due (t + 1) x) P) in *.
  rewrite (pcount_succ t0 (ndl n) (nper n) k Hper Hd). fold c.
  destruct (Z.eqb_spec (ndl n + c * nper n) (t0 + Z.of_N k + 1)) as [Edue|Endue].
  - (* due at this tick: delivered and re-armed one period later *)
    assert (Hex : ex = true).
    { apply existsb_exists. exists m. split; [exact Hin|]. cbn [nid m]. rewrite Z.eqb_refl. unfold is_due. cbn [ndl m]. lia. }
    rewrite Hex in Hcnt. split.
    + apply Hpend. right. exists m. split; [exact Hin|]. split; [cbn [ndl m]; lia|]. split; [unfold periodic; cbn [nper m]; lia|].
      unfold rearm. cbn [nid ndl nper m]. f_equal. lia.
    + change (Z.of_nat ca + Z.of_nat cb = c + 1). lia.
  - assert (Hex : ex = false).
    { apply not_true_is_false. intros Hex. apply existsb_exists in Hex. destruct Hex as [x [Hx Hb]].
      apply andb_true_iff in Hb. destruct Hb as [Hi Hdx]. apply Z.eqb_eq in Hi.
      assert (x = m) by (apply (nodup_ids_inj P); assumption). subst x. unfold is_due in Hdx. cbn [ndl m] in Hdx. lia. }
    rewrite Hex in Hcnt. split.
    + apply Hpend. left. split; [exact Hin|]. cbn [ndl m]. lia.
    + change (Z.of_nat ca + Z.of_nat cb = c). lia.
Qed.

Theorem spec_periodic_exact t0 n k P r :
  0 < nper n -> t0 < ndl n -> NoDup (map nid P) -> In n P ->
  Z.of_nat (count_occ Z.eq_dec (map fst (snd (N.iter k ticks_acc (t0, P, r, [])))) (nid n)) =
  pcount t0 (ndl n) (nper n) k.
Proof.
  intros Hper Hd Hnd Hin.
  assert (H : ptrack t0 n k (N.iter k ticks_acc (t0, P, r, []))).
  { induction k as [|k IH] using N.peano_ind.
    - cbn. split; [lia|]. split; [exact Hnd|]. unfold pcount. cbn.
      destruct (Z.ltb_spec (t0 + 0) (ndl n)); [|lia]. split; [|reflexivity].
      replace (ndl n + 0 * nper n) with (ndl n) by lia. destruct n; exact Hin.
    - rewrite N.iter_succ. apply ptrack_step; assumption. }
  destruct (N.iter k ticks_acc (t0, P, r, [])) as [[[t P'] r'] o]. unfold ptrack in H. cbn [snd]. tauto.
Qed.
