(* C05 — geometry of the wheel: where addNode puts a node, as arithmetic.
   [pos_ok lo cur e lvl slot]: a node whose absolute expiry tick is [e] may sit in bucket
   (lvl, slot) while the wheel is at tick [cur]:
   - near wheel: cur <= e < cur + 2^8 and slot = e mod 2^8;
   - outer level k (lvl = k+1, shift sh = 8+6k): there is a cascade time C, a multiple of
     2^sh with lo <= C <= e, less than 2^(sh+6) ticks ahead, and slot = (C / 2^sh) mod 64.
   [lo] is cur+1 between ticks (strict: the bucket will be cascaded in the future) and cur
   right after the tick counter moved, before shiftWheels ran. *)
From Coq Require Import ZArith List Bool Lia ZifyBool.
From FV Require Import Generated.Consts Lib.Bits C05.Model.
Import ListNotations.
Open Scope Z_scope.
Ltac Zify.zify_post_hook ::= Z.div_mod_to_equations.

Definition lvl_ok (sh lo cur e slot : Z) : Prop :=
  exists C, lo <= C <= e /\ C mod 2 ^ sh = 0 /\ slot = (C / 2 ^ sh) mod 64 /\ C - cur < 2 ^ (sh + 6).

Definition pos_ok (lo cur e lvl slot : Z) : Prop :=
  (lvl = 0 /\ cur <= e < cur + 256 /\ slot = e mod 256) \/
  (lvl = 1 /\ lvl_ok 8 lo cur e slot) \/
  (lvl = 2 /\ lvl_ok 14 lo cur e slot) \/
  (lvl = 3 /\ lvl_ok 20 lo cur e slot) \/
  (lvl = 4 /\ lvl_ok 26 lo cur e slot).

(* masks and shifts as arithmetic *)
Lemma land_255 x : Z.land x 255 = x mod 256.
Proof. change 255 with (2 ^ 8 - 1). rewrite land_ones_mod by lia. reflexivity. Qed.
Lemma land_63 x : Z.land x 63 = x mod 64.
Proof. change 63 with (2 ^ 6 - 1). rewrite land_ones_mod by lia. reflexivity. Qed.

Lemma tvn_index_0 x : tvn_index x 0 = (x / 2 ^ 8) mod 64.
Proof. unfold tvn_index, level_shift, sched_TVR_BITS, sched_TVN_BITS, sched_TVN_MASK.
  rewrite land_63, shiftr_div by lia. reflexivity. Qed.
Lemma tvn_index_1 x : tvn_index x 1 = (x / 2 ^ 14) mod 64.
Proof. unfold tvn_index, level_shift, sched_TVR_BITS, sched_TVN_BITS, sched_TVN_MASK.
  rewrite land_63, shiftr_div by lia. reflexivity. Qed.
Lemma tvn_index_2 x : tvn_index x 2 = (x / 2 ^ 20) mod 64.
Proof. unfold tvn_index, level_shift, sched_TVR_BITS, sched_TVN_BITS, sched_TVN_MASK.
  rewrite land_63, shiftr_div by lia. reflexivity. Qed.
Lemma tvn_index_3 x : tvn_index x 3 = (x / 2 ^ 26) mod 64.
Proof. unfold tvn_index, level_shift, sched_TVR_BITS, sched_TVN_BITS, sched_TVN_MASK.
  rewrite land_63, shiftr_div by lia. reflexivity. Qed.

(* bucket_of without bit operations *)
Definition bucket_arith (cur tt : Z) (n : node) : Z * Z :=
  let ticks := Z.min (Z.max 0 (ndl n - tt)) (2 ^ 32 - 1) in
  let expires := (cur mod 2 ^ 32 + ticks) mod 2 ^ 32 in
  if ticks <? 2 ^ 8 then (0, expires mod 256)
  else if ticks <? 2 ^ 14 then (1, (expires / 2 ^ 8) mod 64)
  else if ticks <? 2 ^ 20 then (2, (expires / 2 ^ 14) mod 64)
  else if ticks <? 2 ^ 26 then (3, (expires / 2 ^ 20) mod 64)
  else (4, (expires / 2 ^ 26) mod 64).

Lemma bucket_of_arith cur tt n : bucket_of cur tt n = bucket_arith cur tt n.
Proof.
  unfold bucket_of, bucket_arith, max_u32, u32.
  rewrite tvn_index_0, tvn_index_1, tvn_index_2, tvn_index_3.
  unfold sched_TVR_SIZE, sched_TVR_MASK, level_shift, sched_TVR_BITS, sched_TVN_BITS.
  rewrite land_255. reflexivity.
Qed.

(* the placement theorem: addNode's bucket is a correct position, with a cascade time
   strictly in the future, for every position of the wheel and every deadline *)
Lemma bucket_of_ok cur tt n l s :
  0 <= cur -> tt <= ndl n -> bucket_of cur tt n = (l, s) ->
  pos_ok (cur + 1) cur (cur + (ndl n - tt)) l s.
Proof.
  intros Hcur Hdl. rewrite bucket_of_arith. unfold bucket_arith.
  set (d := ndl n - tt). assert (Hd : 0 <= d) by lia.
  replace (Z.max 0 d) with d by lia.
  set (ticks := Z.min d (2 ^ 32 - 1)).
  assert (Ht : 0 <= ticks <= 2 ^ 32 - 1 /\ (ticks = d \/ (ticks = 2 ^ 32 - 1 /\ ticks <= d))) by lia.
  clearbody ticks d.
  destruct (ticks <? 2 ^ 8) eqn:H8.
  { intros H; inversion H; subst l s; clear H. left. lia. }
  destruct (ticks <? 2 ^ 14) eqn:H14.
  { intros H; inversion H; subst l s; clear H. right; left. split; [reflexivity|].
    exists ((cur + ticks) - (cur + ticks) mod 2 ^ 8). repeat split; lia. }
  destruct (ticks <? 2 ^ 20) eqn:H20.
  { intros H; inversion H; subst l s; clear H. right; right; left. split; [reflexivity|].
    exists ((cur + ticks) - (cur + ticks) mod 2 ^ 14). repeat split; lia. }
  destruct (ticks <? 2 ^ 26) eqn:H26.
  { intros H; inversion H; subst l s; clear H. right; right; right; left. split; [reflexivity|].
    exists ((cur + ticks) - (cur + ticks) mod 2 ^ 20). repeat split; lia. }
  intros H; inversion H; subst l s; clear H. right; right; right; right. split; [reflexivity|].
  exists ((cur + ticks) - (cur + ticks) mod 2 ^ 26). repeat split; lia.
Qed.
