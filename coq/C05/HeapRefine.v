(* C05 — the array heap scheduler (HeapArr.v) refines the abstract heap scheduler of
   Model.v (CHeap: a list + the order Less) for every history: same outputs (the probe
   apart, which shows the array), and in every reachable state the array is a heap,
   node.index = position for nodes in the array and -1 for nodes outside it. *)
From Coq Require Import ZArith List Bool Arith Lia ZifyBool ZifyNat Permutation Sorted.
From FV Require Import Generated.Consts C05.Model C05.Spec C05.WheelInv C05.ListFacts C05.Refine C05.Machine
  C05.HeapArr C05.HeapOps.
Import ListNotations.
Open Scope Z_scope.

(* ------------------------------------------------------------------------------------ *)
(* the sorted list of distinct nodes is unique *)

Definition nle (a b : node) : Prop := hless b a = false.

Lemma nle_spec a b : nle a b <-> (ndl a < ndl b \/ (ndl a = ndl b /\ nid b <= nid a)).
Proof. pose proof (hle_spec (mkH a 0) (mkH b 0)) as H. exact H. Qed.

Lemma hinsert_nsorted n l : StronglySorted nle l -> StronglySorted nle (hinsert n l).
Proof.
  induction l as [|x r IH]; cbn; intros H; [constructor; constructor|].
  inversion H as [|? ? Hr Hx]; subst. destruct (hless x n) eqn:Hd.
  - constructor; [apply IH; exact Hr|].
    apply Forall_forall. intros y Hy. apply (Permutation_in _ (hinsert_perm n r)) in Hy.
    destruct Hy as [<-|Hy]; [apply nle_spec; apply hless_spec in Hd; lia|].
    rewrite Forall_forall in Hx. apply Hx. exact Hy.
  - constructor; [exact H|]. constructor; [exact Hd|].
    eapply Forall_impl; [|exact Hx]. intros y Hy. apply nle_spec. apply nle_spec in Hy.
    assert (Hxn : nle n x) by exact Hd. apply nle_spec in Hxn. lia.
Qed.

Lemma hsort_nsorted l : StronglySorted nle (hsort l).
Proof. induction l as [|x r IH]; cbn; [constructor|]. apply hinsert_nsorted. exact IH. Qed.

Lemma nsorted_unique (a : list node) : forall b,
  StronglySorted nle a -> StronglySorted nle b -> Permutation a b -> NoDup (map nid a) -> a = b.
Proof.
  induction a as [|x a IH]; intros b Ha Hb Hp Hnd.
  - apply Permutation_nil in Hp. subst. reflexivity.
  - destruct b as [|y b]; [apply Permutation_sym, Permutation_nil in Hp; discriminate|].
    inversion Ha as [|? ? Ha' Hxa]; subst. inversion Hb as [|? ? Hb' Hyb]; subst.
    assert (x = y).
    { assert (Hx : In x (y :: b)) by (eapply Permutation_in; [exact Hp|left; reflexivity]).
      assert (Hy : In y (x :: a)) by (eapply Permutation_in; [apply Permutation_sym; exact Hp|left; reflexivity]).
      destruct Hx as [Hx|Hx]; [congruence|]. destruct Hy as [Hy|Hy]; [congruence|].
      rewrite Forall_forall in Hxa, Hyb. specialize (Hxa y Hy). specialize (Hyb x Hx).
      apply nle_spec in Hxa, Hyb.
      apply (nodup_ids_inj (x :: a)); [exact Hnd|left; reflexivity|right; exact Hy|lia]. }
    subst y. f_equal. apply IH; [exact Ha'|exact Hb'|eapply Permutation_cons_inv; exact Hp|].
    inversion Hnd; assumption.
Qed.

Lemma hsort_perm_eq a b : Permutation a b -> NoDup (map nid a) -> hsort a = hsort b.
Proof.
  intros Hp Hnd. apply nsorted_unique; [apply hsort_nsorted|apply hsort_nsorted| |].
  - etransitivity; [apply hsort_perm|]. etransitivity; [exact Hp|apply Permutation_sym, hsort_perm].
  - eapply Permutation_NoDup; [apply Permutation_map, Permutation_sym, hsort_perm|exact Hnd].
Qed.

(* a sorted list headed by a minimum *)
Lemma hsort_cons_min x l :
  (forall y, In y l -> nle x y) -> NoDup (map nid (x :: l)) -> hsort (x :: l) = x :: hsort l.
Proof.
  intros Hmin Hnd. apply nsorted_unique; [apply hsort_nsorted| | |].
  - constructor; [apply hsort_nsorted|]. apply Forall_forall. intros y Hy.
    apply Hmin. apply (Permutation_in _ (hsort_perm l)). exact Hy.
  - etransitivity; [apply hsort_perm|]. constructor. apply Permutation_sym, hsort_perm.
  - eapply Permutation_NoDup; [apply Permutation_map, Permutation_sym, hsort_perm|exact Hnd].
Qed.

(* ------------------------------------------------------------------------------------ *)
(* trigger(now) on the array = the abstract expiry of the due nodes in Less order *)

Lemma hfold_perm now D X1 X2 r o :
  NoDup (map nid D) -> Permutation X1 X2 ->
  snd (fst (fold_left (hexpire_one now) D (X1, r, o))) = snd (fst (fold_left (hexpire_one now) D (X2, r, o))) /\
  snd (fold_left (hexpire_one now) D (X1, r, o)) = snd (fold_left (hexpire_one now) D (X2, r, o)) /\
  Permutation (fst (fst (fold_left (hexpire_one now) D (X1, r, o))))
              (fst (fst (fold_left (hexpire_one now) D (X2, r, o)))).
Proof.
  intros Hnd Hp. rewrite !hexpire_fold by exact Hnd. cbn [fst snd].
  split; [reflexivity|split; [reflexivity|]]. apply Permutation_app_tail. exact Hp.
Qed.

Lemma in_hget (l : list hnode) x : In x l -> exists k, (k < length l)%nat /\ hget l k = x.
Proof. intros H. destruct (In_nth l x hdflt H) as [k [Hk E]]. exists k. split; assumption. Qed.

Lemma root_min (arr : list hnode) top rest :
  arr = top :: rest -> harr_ok arr -> forall y, In y (map hn arr) -> nle (hn top) y.
Proof.
  intros E [Hh _] y Hy. apply in_map_iff in Hy. destruct Hy as [x [<- Hx]].
  destruct (in_hget arr x Hx) as [k [Hk Ek]]. pose proof (hp_root_min arr (length arr) Hh k Hk) as H.
  rewrite Ek in H. subst arr. exact H.
Qed.

Lemma filter_length_perm {A} (f : A -> bool) l l' :
  Permutation l l' -> length (filter f l) = length (filter f l').
Proof. intros H. apply Permutation_length. apply perm_filter. exact H. Qed.

Lemma filter_length_le' {A} (f : A -> bool) l : (length (filter f l) <= length l)%nat.
Proof. induction l as [|x r IH]; cbn; [lia|]. destruct (f x); cbn; lia. Qed.

Definition notdue (now : Z) (n : node) : bool := negb (is_due now n).

Lemma atrigger_spec now fuel : forall arr outside r o,
  harr_ok arr -> Forall (fun x => hidx x = -1) outside -> NoDup (map nid (map hn arr)) ->
  (length (filter (is_due now) (map hn arr)) < fuel)%nat ->
  let res := atrigger fuel now arr outside r o in
  let abs := fold_left (hexpire_one now) (hsort (filter (is_due now) (map hn arr)))
                       (filter (notdue now) (map hn arr), r, o) in
  snd (fst res) = snd (fst abs) /\ snd res = snd abs /\
  Permutation (map hn (fst (fst (fst res)))) (fst (fst abs)) /\
  harr_ok (fst (fst (fst res))) /\ Forall (fun x => hidx x = -1) (snd (fst (fst res))).
Proof.
  induction fuel as [|f IH]; intros arr outside r o Hok Hout Hnd Hfuel; [lia|].
  cbn zeta. cbn [atrigger].
  destruct arr as [|top rest] eqn:Earr.
  { cbn. split; [reflexivity|split; [reflexivity|split; [constructor|split; [exact Hok|exact Hout]]]]. }
  rewrite <- Earr in *.
  assert (Hmin : forall y, In y (map hn arr) -> nle (hn top) y) by (apply (root_min arr top rest Earr Hok)).
  assert (EN : map hn arr = hn top :: map hn rest) by (rewrite Earr; reflexivity).
  destruct (Z.ltb_spec now (ndl (hn top))) as [Hnot|Hdue].
  { (* nothing is due *)
    assert (Hnone : filter (is_due now) (map hn arr) = []).
    { apply filter_none. intros y Hy. specialize (Hmin y Hy). apply nle_spec in Hmin. unfold is_due. lia. }
    rewrite Hnone. cbn [hsort fold_right fold_left fst snd].
    rewrite (filter_all (notdue now)).
    - cbn [fst snd]. split; [reflexivity|split; [reflexivity|split; [reflexivity|split; [exact Hok|exact Hout]]]].
    - intros y Hy. specialize (Hmin y Hy). apply nle_spec in Hmin. unfold notdue, is_due. lia. }
  (* the due list begins with the root *)
  assert (Htd : is_due now (hn top) = true) by (unfold is_due; lia).
  set (F := filter (is_due now) (map hn rest)).
  assert (EF : filter (is_due now) (map hn arr) = hn top :: F) by (rewrite EN; cbn [filter]; rewrite Htd; reflexivity).
  assert (ED : hsort (filter (is_due now) (map hn arr)) = hn top :: hsort F).
  { rewrite EF. apply hsort_cons_min.
    - intros y Hy. apply Hmin. rewrite EN. right. unfold F in Hy. apply filter_In in Hy. tauto.
    - rewrite <- EF. apply NoDup_map_filter. exact Hnd. }
  assert (EA : filter (notdue now) (map hn arr) = filter (notdue now) (map hn rest)).
  { rewrite EN. cbn [filter]. unfold notdue at 1. rewrite Htd. reflexivity. }
  rewrite ED, EA. cbn [fold_left]. rewrite hexpire_one_eq.
  assert (Hndrest : NoDup (map nid (map hn rest))) by (rewrite EN in Hnd; inversion Hnd; assumption).
  assert (HndF : NoDup (map nid (hsort F))).
  { eapply Permutation_NoDup; [apply Permutation_map, Permutation_sym, hsort_perm|].
    unfold F. apply NoDup_map_filter. exact Hndrest. }
  assert (Hne : arr <> []) by (rewrite Earr; discriminate).
  assert (Hlen : (length F < f)%nat) by (rewrite EF in Hfuel; cbn [length] in Hfuel; lia).
  assert (Htop0 : hidx top = 0).
  { destruct Hok as [_ Hi]. specialize (Hi 0%nat). rewrite Earr in Hi. cbn in Hi. apply Hi. lia. }
  (* continue with an array whose nodes are a permutation of N2 *)
  assert (Hcont : forall arr2 outside2 r2 o2 N2 X,
             harr_ok arr2 -> Forall (fun x => hidx x = -1) outside2 ->
             Permutation (map hn arr2) N2 -> NoDup (map nid N2) ->
             filter (is_due now) N2 = F \/ Permutation (filter (is_due now) N2) F ->
             Permutation (filter (notdue now) N2) X ->
             let res := atrigger f now arr2 outside2 r2 o2 in
             let abs := fold_left (hexpire_one now) (hsort F) (X, r2, o2) in
             snd (fst res) = snd (fst abs) /\ snd res = snd abs /\
             Permutation (map hn (fst (fst (fst res)))) (fst (fst abs)) /\
             harr_ok (fst (fst (fst res))) /\ Forall (fun x => hidx x = -1) (snd (fst (fst res)))).
  { intros arr2 outside2 r2 o2 N2 X Hok2 Hout2 Hp2 Hnd2 HF2 HX2.
    assert (HpF : Permutation (filter (is_due now) (map hn arr2)) F).
    { etransitivity; [apply perm_filter; exact Hp2|]. destruct HF2 as [->|H]; [reflexivity|exact H]. }
    assert (Hnd2' : NoDup (map nid (map hn arr2))).
    { eapply Permutation_NoDup; [apply Permutation_map, Permutation_sym; exact Hp2|exact Hnd2]. }
    specialize (IH arr2 outside2 r2 o2 Hok2 Hout2 Hnd2').
    destruct IH as [I1 [I2 [I3 [I4 I5]]]].
    - rewrite (Permutation_length HpF). exact Hlen.
    - cbn zeta in *.
      rewrite (hsort_perm_eq _ F HpF) in I1, I2, I3 by (apply NoDup_map_filter; exact Hnd2').
      assert (HXp : Permutation (filter (notdue now) (map hn arr2)) X).
      { etransitivity; [apply perm_filter; exact Hp2|exact HX2]. }
      destruct (hfold_perm now (hsort F) _ _ r2 o2 HndF HXp) as [P1 [P2 P3]].
      rewrite P1 in I1. rewrite P2 in I2.
      split; [exact I1|split; [exact I2|split; [etransitivity; [exact I3|exact P3]|split; assumption]]]. }
  destruct (alive r (hn top)) eqn:Ha.
  - change (0 <? nper (hn top)) with (periodic (hn top)). destruct (periodic (hn top)) eqn:Hp.
    + (* re-armed in place, heap.Fix *)
      rewrite Htop0. change (Z.to_nat 0) with 0%nat.
      set (top' := set_deadline top (now + nper (hn top))).
      assert (Hn' : hn top' = rearm now (hn top)) by reflexivity.
      destruct (heap_fix_root_spec arr top' Hok Hne ltac:(exact Htop0)) as [Hok2 [Hperm2 _]].
      rewrite EN in Hperm2. cbn [tl] in Hperm2. rewrite Hn' in Hperm2.
      assert (Hnd' : ~ is_due now (rearm now (hn top)) = true).
      { unfold is_due, rearm, periodic in *. cbn. lia. }
      apply (Hcont _ _ _ _ (rearm now (hn top) :: map hn rest)); try assumption.
      * cbn [map]. change (nid (rearm now (hn top))) with (nid (hn top)). rewrite EN in Hnd. exact Hnd.
      * left. cbn [filter]. destruct (is_due now (rearm now (hn top))); [contradiction Hnd'; reflexivity|reflexivity].
      * cbn [filter]. unfold notdue at 1. destruct (is_due now (rearm now (hn top))); [contradiction Hnd'; reflexivity|].
        cbn [negb]. apply Permutation_cons_append.
    + (* one-shot: heap.Pop, leaves the refer map *)
      pose proof (heap_pop_spec arr Hok Hne) as Hpop. destruct (heap_pop arr) as [arr1 x].
      destruct Hpop as [Hok1 [Hx [Hxi [Hperm1 _]]]].
      assert (Hp1 : Permutation (map hn arr1) (map hn rest)).
      { rewrite EN, Hx in Hperm1. rewrite Earr in Hperm1. cbn [hget nth] in Hperm1.
        apply Permutation_sym. eapply Permutation_cons_inv. exact Hperm1. }
      apply (Hcont _ _ _ _ (map hn rest)); try assumption.
      * apply Forall_app. split; [exact Hout|constructor; [exact Hxi|constructor]].
      * left. reflexivity.
      * reflexivity.
  - (* dropped silently *)
    pose proof (heap_pop_spec arr Hok Hne) as Hpop. destruct (heap_pop arr) as [arr1 x].
    destruct Hpop as [Hok1 [Hx [Hxi [Hperm1 _]]]].
    assert (Hp1 : Permutation (map hn arr1) (map hn rest)).
    { rewrite EN, Hx in Hperm1. rewrite Earr in Hperm1. cbn [hget nth] in Hperm1.
      apply Permutation_sym. eapply Permutation_cons_inv. exact Hperm1. }
    apply (Hcont _ _ _ _ (map hn rest)); try assumption.
    * apply Forall_app. split; [exact Hout|constructor; [exact Hxi|constructor]].
    * left. reflexivity.
    * reflexivity.
Qed.

(* ------------------------------------------------------------------------------------ *)
(* the scheduler around the array against the abstract heap scheduler *)

Definition arel (s : ast) (m : st) : Prop :=
  exists h, score m = CHeap h /\ Permutation (map hn (aarr s)) h /\
  aclock s = sclock m /\ arefer s = srefer m /\ anext s = snext m /\ apadd s = spadd m /\
  apdel s = spdel m /\ harr_ok (aarr s) /\ Forall (fun x => hidx x = -1) (aoutside s).

Definition out_eqp (a b : out) : Prop :=
  match a, b with
  | OProbe _, OProbe _ => True
  | _, _ => a = b
  end.

Definition good (m : st) : Prop := minv m /\ exists z, rel m z.

Lemma good_step m o : good m -> snext m + 1 < 2 ^ 63 -> good (fst (step m o)).
Proof.
  intros [Hm [z Hr]] Hroom. destruct (step_sim m z o Hm Hr Hroom) as [Hm1 [Hr1 _]]. split; [exact Hm1|eexists; exact Hr1].
Qed.

Lemma find_app {A} (f : A -> bool) a b :
  find f (a ++ b) = match find f a with Some x => Some x | None => find f b end.
Proof. induction a as [|x a IH]; cbn; [reflexivity|]. destruct (f x); [reflexivity|exact IH]. Qed.

Lemma filter_id_remove (h : list node) x rest :
  NoDup (map nid h) -> Permutation h (x :: rest) ->
  Permutation (filter (fun n => negb (nid n =? nid x)) h) rest.
Proof.
  intros Hnd Hp.
  assert (Hnd2 : NoDup (map nid (x :: rest))) by (eapply Permutation_NoDup; [apply Permutation_map; exact Hp|exact Hnd]).
  etransitivity; [apply perm_filter; exact Hp|]. cbn [filter]. rewrite Z.eqb_refl. cbn [negb].
  rewrite filter_all; [reflexivity|]. intros y Hy. cbn [map] in Hnd2. inversion Hnd2 as [|? ? Hn _]; subst.
  apply negb_true_iff, Z.eqb_neq. intros E. apply Hn. rewrite <- E. apply in_map. exact Hy.
Qed.

Lemma astep_sim s m o :
  good m -> arel s m ->
  arel (fst (astep s o)) (fst (step m o)) /\ out_eqp (snd (astep s o)) (snd (step m o)).
Proof.
  intros [Hm _] [h [Ec [Hp [Rc [Rr [Rn [Rq [Rd [Hok Hout]]]]]]]]].
  assert (Hsched : forall d p, arel (fst (aschedule s d p)) (fst (schedule m d p)) /\
                               snd (aschedule s d p) = snd (schedule m d p)).
  { intros d p. unfold aschedule, schedule, next_id, request. rewrite Rn, Rr, Rq, Rc, Ec. cbn [fst snd].
    split; [|reflexivity]. exists h. cbn [score sclock srefer snext spadd spdel aarr aoutside aclock arefer anext apadd apdel].
    repeat split; auto; apply Hok. }
  destruct o; cbn [astep step].
  - destruct (Hsched (Z.max d 0) 0) as [H1 H2]. split; [exact H1|rewrite H2; destruct (snd (schedule m (Z.max d 0) 0)); reflexivity].
  - destruct (Hsched 0 (if p <? 0 then 1 else p)) as [H1 H2]. split; [exact H1|rewrite H2; destruct (snd (schedule m 0 (if p <? 0 then 1 else p))); reflexivity].
  - rewrite Rr, Rd. destruct (mem id (srefer m)); cbn [fst snd].
    + split; [|reflexivity]. exists h. cbn [score sclock srefer snext spadd spdel aarr aoutside aclock arefer anext apadd apdel].
      repeat split; auto; apply Hok.
    + split; [|reflexivity]. exists h. repeat split; auto; apply Hok.
  - cbn [fst snd]. rewrite Rr. split; [|reflexivity]. exists h. repeat split; auto; apply Hok.
  - cbn [fst snd]. rewrite Rr. split; [|reflexivity]. exists h. repeat split; auto; apply Hok.
  - (* HandleAdd *)
    rewrite Rq. destruct (spadd m) as [|n q] eqn:Eq; cbn [fst snd].
    + split; [|reflexivity]. exists h. rewrite Eq. repeat split; auto; apply Hok.
    + rewrite Rr, Ec. destruct (alive (srefer m) n); cbn [fst snd core_add].
      * split; [|reflexivity]. destruct (heap_push_spec (aarr s) n Hok) as [Hok2 [Hp2 _]].
        exists (h ++ [n]). cbn [score sclock srefer snext spadd spdel aarr aoutside aclock arefer anext apadd apdel].
        split; [reflexivity|]. split; [etransitivity; [exact Hp2|]; etransitivity; [apply perm_skip; exact Hp|apply Permutation_cons_append]|].
        repeat split; auto; apply Hok2.
      * split; [|reflexivity]. exists h. cbn [score sclock srefer snext spadd spdel aarr aoutside aclock arefer anext apadd apdel].
        split; [reflexivity|]. split; [exact Hp|]. repeat split; auto; try apply Hok.
        apply Forall_app. split; [exact Hout|constructor; [reflexivity|constructor]].
  - (* HandleDel *)
    rewrite Rd. destruct (spdel m) as [|id q] eqn:Eq; cbn [fst snd].
    + split; [|reflexivity]. exists h. rewrite Eq. repeat split; auto; apply Hok.
    + assert (Hndh : NoDup (map nid h)).
      { pose proof (mi_ids m Hm) as Hi. unfold all_ids in Hi. rewrite Ec in Hi. cbn [core_content] in Hi.
        apply nodup_app_elim in Hi. tauto. }
      unfold node_index. rewrite find_app.
      destruct (find (fun x => nid (hn x) =? id) (aarr s)) as [x|] eqn:Ef.
      * (* the node is in the array: its index field is its position *)
        apply find_some in Ef. destruct Ef as [Hx Hid]. apply Z.eqb_eq in Hid.
        destruct (in_hget (aarr s) x Hx) as [k [Hk Ek]].
        assert (Hidx : hidx x = Z.of_nat k) by (rewrite <- Ek; apply Hok; exact Hk).
        rewrite Hidx. destruct (Z.leb_spec 0 (Z.of_nat k)); [|lia]. rewrite Nat2Z.id.
        pose proof (heap_remove_spec (aarr s) k Hok Hk) as Hrm. destruct (heap_remove (aarr s) k) as [arr1 y].
        destruct Hrm as [Hok1 [Hy [Hyi [Hperm _]]]]. cbn [fst snd]. split; [|reflexivity].
        rewrite Ec. cbn [core_del]. exists (hdel h id).
        cbn [score sclock srefer snext spadd spdel aarr aoutside aclock arefer anext apadd apdel].
        split; [reflexivity|]. split.
        -- unfold hdel. rewrite Ek in Hy. rewrite <- Hid, <- Hy. apply Permutation_sym. apply filter_id_remove; [exact Hndh|].
           etransitivity; [apply Permutation_sym; exact Hp|exact Hperm].
        -- repeat split; auto; try apply Hok1. apply Forall_app. split; [exact Hout|constructor; [exact Hyi|constructor]].
      * (* not in the array: index -1 (outside, or never seen by the worker) *)
        assert (Hneg : match find (fun x => nid (hn x) =? id) (aoutside s) with Some x => hidx x | None => -1 end = -1).
        { destruct (find (fun x => nid (hn x) =? id) (aoutside s)) as [x|] eqn:Ef2; [|reflexivity].
          apply find_some in Ef2. rewrite Forall_forall in Hout. apply Hout. tauto. }
        rewrite Hneg. cbn [Z.leb fst snd]. split; [|reflexivity].
        rewrite Ec. cbn [core_del]. exists (hdel h id).
        cbn [score sclock srefer snext spadd spdel aarr aoutside aclock arefer anext apadd apdel].
        split; [reflexivity|]. split; [|repeat split; auto; apply Hok].
        unfold hdel. rewrite filter_all; [exact Hp|].
        intros y Hy. apply negb_true_iff, Z.eqb_neq. intros E.
        apply (Permutation_in _ (Permutation_sym Hp)) in Hy. apply in_map_iff in Hy. destruct Hy as [x [Ex Hx]].
        pose proof (find_none _ _ Ef x Hx) as Hn. cbn in Hn. rewrite Ex in Hn. apply Z.eqb_neq in Hn. contradiction.
  - cbn [fst snd]. split; [|reflexivity]. exists h. cbn [score sclock srefer snext spadd spdel aarr aoutside aclock arefer anext apadd apdel].
    rewrite Rc. repeat split; auto; apply Hok.
  - (* Tick *)
    unfold core_tick. rewrite Ec.
    assert (Hndh : NoDup (map nid h)).
    { pose proof (mi_ids m Hm) as Hi. unfold all_ids in Hi. rewrite Ec in Hi. cbn [core_content] in Hi.
      apply nodup_app_elim in Hi. tauto. }
    assert (Hleh : Forall (fun n => nid n <= snext m) h).
    { pose proof (mi_ids_le m Hm) as Hi. unfold all_ids in Hi. rewrite Ec in Hi. cbn [core_content] in Hi.
      apply Forall_app in Hi. destruct Hi as [_ Hi]. rewrite Forall_forall in *. intros n Hn. apply Hi. apply in_map. exact Hn. }
    assert (HndN : NoDup (map nid (map hn (aarr s)))).
    { eapply Permutation_NoDup; [apply Permutation_map, Permutation_sym; exact Hp|exact Hndh]. }
    pose proof (atrigger_spec (aclock s) (S (length (aarr s))) (aarr s) (aoutside s) (arefer s) [] Hok Hout HndN) as Hs.
    cbn zeta in Hs. destruct Hs as [S1 [S2 [S3 [S4 S5]]]].
    { pose proof (filter_length_le' (is_due (aclock s)) (map hn (aarr s))) as Hl. rewrite map_length in Hl. lia. }
    destruct (atrigger (S (length (aarr s))) (aclock s) (aarr s) (aoutside s) (arefer s) []) as [[[arr1 out1] r1] o1].
    cbn [fst snd] in *.
    (* the abstract tick on h *)
    unfold htick. rewrite <- Rc, <- Rr.
    change (fun n : node => ndl n <=? aclock s) with (is_due (aclock s)).
    rewrite (filter_ext (fun n => aclock s <? ndl n) (notdue (aclock s))) by (intros n; unfold notdue, is_due; lia).
    assert (HpF : Permutation (filter (is_due (aclock s)) (map hn (aarr s))) (filter (is_due (aclock s)) h)) by (apply perm_filter; exact Hp).
    rewrite <- (hsort_perm_eq _ _ HpF) by (apply NoDup_map_filter; exact HndN).
    assert (HndD : NoDup (map nid (hsort (filter (is_due (aclock s)) (map hn (aarr s)))))).
    { eapply Permutation_NoDup; [apply Permutation_map, Permutation_sym, hsort_perm|]. apply NoDup_map_filter. exact HndN. }
    destruct (hfold_perm (aclock s) _ _ _ (arefer s) [] HndD (perm_filter (notdue (aclock s)) _ _ Hp)) as [P1 [P2 P3]].
    rewrite P1 in S1. rewrite P2 in S2.
    destruct (fold_left (hexpire_one (aclock s)) (hsort (filter (is_due (aclock s)) (map hn (aarr s))))
                        (filter (notdue (aclock s)) h, arefer s, [])) as [[h2 r2] o2].
    cbn [fst snd] in *. subst r2 o2. split; [|reflexivity].
    assert (Htc : tick_clock m = sclock m) by (unfold tick_clock; rewrite Ec; reflexivity).
    exists h2. cbn [score sclock srefer snext spadd spdel aarr aoutside aclock arefer anext apadd apdel].
    rewrite Htc.
    split; [reflexivity|]. split; [etransitivity; [exact S3|exact P3]|]. repeat split; auto; apply S4.
  - cbn [fst snd]. split; [|exact I]. exists h. repeat split; auto; apply Hok.
Qed.

Lemma arun_sim ops : forall s m,
  good m -> arel s m -> fits m ops ->
  arel (fst (arun s ops)) (fst (run m ops)) /\ Forall2 out_eqp (snd (arun s ops)) (snd (run m ops)).
Proof.
  induction ops as [|o ops IH]; intros s m Hg Hr Hf; cbn [arun run].
  - cbn. split; [exact Hr|constructor].
  - unfold fits in Hf. cbn [length] in Hf. assert (Hroom : snext m + 1 < 2 ^ 63) by lia.
    destruct (astep_sim s m o Hg Hr) as [Hr1 Ho]. pose proof (good_step m o Hg Hroom) as Hg1.
    pose proof (step_next_le m o (proj1 Hg) Hroom) as Hn.
    destruct (astep s o) as [s1 a]. destruct (step m o) as [m1 b]. cbn [fst snd] in *.
    destruct (IH s1 m1 Hg1 Hr1) as [Hr2 Hos]; [unfold fits; lia|].
    destruct (arun s1 ops) as [s2 xs]. destruct (run m1 ops) as [m2 ys]. cbn [fst snd] in *.
    split; [exact Hr2|constructor; assumption].
Qed.

Lemma good_init_heap now : good (init_heap now).
Proof. split; [apply minv_init_heap|eexists; apply rel_init_heap]. Qed.

Lemma arel_init now : arel (ainit now) (init_heap now).
Proof.
  exists []. unfold ainit, init_heap. cbn [score sclock srefer snext spadd spdel aarr aoutside aclock arefer anext apadd apdel map].
  split; [reflexivity|]. split; [constructor|]. repeat (split; [reflexivity|]).
  split; [split|constructor].
  - intros k Hk. cbn in Hk. lia.
  - intros k Hk. cbn in Hk. lia.
Qed.

(* every history: same answers as the abstract heap scheduler *)
Lemma fits_init now ops : short ops -> fits (init_heap now) ops.
Proof. unfold short, fits. cbn. lia. Qed.

Theorem heap_array_refines ops now :
  short ops ->
  Forall2 out_eqp (snd (arun (ainit now) ops)) (snd (run (init_heap now) ops)).
Proof. intros Hs. apply arun_sim; [apply good_init_heap|apply arel_init|apply fits_init; exact Hs]. Qed.

(* every history: the array is a heap under Less, node.index is the position of every node
   in the array and -1 for the nodes outside it, ids in the array are distinct *)
Theorem heap_array_inv ops now :
  short ops ->
  let s := fst (arun (ainit now) ops) in
  hp (aarr s) (length (aarr s)) /\ idx_ok (aarr s) /\
  Forall (fun x => hidx x = -1) (aoutside s) /\ NoDup (map (fun x => nid (hn x)) (aarr s)).
Proof.
  intros Hs. cbn zeta. destruct (arun_sim ops _ _ (good_init_heap now) (arel_init now) (fits_init now ops Hs)) as [[h [Ec [Hp [_ [_ [_ [_ [_ [[Hh Hi] Hout]]]]]]]]] _].
  split; [exact Hh|split; [exact Hi|split; [exact Hout|]]].
  assert (Hg : good (fst (run (init_heap now) ops))).
  { destruct (run_refines ops _ _ (minv_init_heap now) (rel_init_heap now) (fits_init now ops Hs)) as [Hm [Hr _]]. split; [exact Hm|eexists; exact Hr]. }
  destruct Hg as [Hm _]. pose proof (mi_ids _ Hm) as Hids. unfold all_ids in Hids. rewrite Ec in Hids. cbn [core_content] in Hids.
  apply nodup_app_elim in Hids. destruct Hids as [_ [Hnd _]].
  rewrite <- map_map. eapply Permutation_NoDup; [apply Permutation_map, Permutation_sym; exact Hp|exact Hnd].
Qed.

(* ... hence the array scheduler refines the pending-multiset specification too *)
Lemma out_eqp_eq a b c : out_eqp a b -> out_eq b c -> out_eq a c.
Proof.
  intros H1 H2. destruct a; cbn in H1; try (subst b; exact H2).
  destruct b; try discriminate. destruct c; cbn in *; try discriminate; exact I.
Qed.

Theorem heap_array_refines_spec ops now :
  short ops ->
  Forall2 out_eq (snd (arun (ainit now) ops)) (snd (srun (sinit false now) ops)).
Proof.
  intros Hs. pose proof (heap_array_refines ops now Hs) as H1.
  destruct (run_refines ops _ _ (minv_init_heap now) (rel_init_heap now) (fits_init now ops Hs)) as [_ [_ H2]].
  revert H2. generalize (snd (srun (sinit false now) ops)). induction H1 as [|a b l l' Hab H IH]; intros zs H2.
  - inversion H2. constructor.
  - inversion H2 as [|? c ? zs' Hbc Hr]; subst. constructor; [eapply out_eqp_eq; eassumption|apply IH; exact Hr].
Qed.

(* Pop takes out a minimum under Less *)
Lemma heap_pop_min l :
  harr_ok l -> l <> [] ->
  forall y, In y l -> hle (hget l 0) y.
Proof.
  intros [Hh _] _ y Hy. destruct (in_hget l y Hy) as [k [Hk <-]]. apply (hp_root_min l (length l) Hh k Hk).
Qed.
