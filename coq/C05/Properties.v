(* C05 — Timers fire exactly once, on their due tick, in due order (wheel and heap).
   Only the property theorems: each is closed by an exact lemma and followed by
   Print Assumptions.  Model: C05/Model.v (wheel + heap + API side), reference
   specification: C05/Spec.v (a multiset of pending timers). *)
From Coq Require Import ZArith List Bool Sorted.
From FV Require Import C05.Model C05.Spec C05.Geom C05.WheelInv C05.Refine C05.Machine C05.SpecFacts C05.Proofs
  C05.HeapArr C05.HeapOps C05.HeapRefine C05.BucketModel C05.BucketProofs.
Import ListNotations.
Open Scope Z_scope.

(* Placement: wherever the wheel stands (any tick count cur >= 0: every cascade boundary,
   and every wrap of the 32-bit currTick = cur mod 2^32) and whatever the deadline, addNode
   puts the node into a bucket from which it will be taken in time: the near bucket of its
   expiry tick, or an outer bucket whose cascade time C is a multiple of the level's span
   with cur < C <= expiry, less than 64 spans ahead. *)
Theorem c05_wheel_placement : forall cur tt n l s,
  0 <= cur -> tt <= ndl n -> bucket_of cur tt n = (l, s) ->
  pos_ok (cur + 1) cur (cur + (ndl n - tt)) l s.
Proof. exact bucket_of_ok. Qed.
Print Assumptions c05_wheel_placement.

(* The wheel invariant (every node correctly placed for the current position, ids
   distinct, periodic nodes strictly in the future) holds after EVERY history of API calls
   and worker steps, from every start position.  [short ops]: the history has fewer than
   2^63 - 1 operations, i.e. it does not exhaust the scheduler's 63-bit id counter (the id
   allocation itself is modelled with the wrap, see c06_ids_unique_wrap; after a wrap an
   id can be handed out again while a cancelled node that carried it is still linked,
   which the id-based node identity of this model does not distinguish). *)
Theorem c05_wheel_inv : forall ops cur0 tt0,
  0 <= cur0 -> short ops -> core_winv (score (fst (run (init_wheel cur0 tt0) ops))).
Proof. exact wheel_inv_all. Qed.
Print Assumptions c05_wheel_inv.

(* One tick preserves the invariant (cascade chain included). *)
Theorem c05_wheel_tick_inv : forall w r w' r' o, winv w -> wtick w r = (w', r', o) -> winv w'.
Proof. exact wtick_inv. Qed.
Print Assumptions c05_wheel_tick_inv.

(* Refinement: for every history and every start position the wheel scheduler answers
   exactly like the pending-multiset specification (which does not know the position):
   ids, Cancel, Size, IsScheduled, worker steps are equal, and what each tick step
   delivers is the specification's delivery list up to the order among equal due times.
   Hence: delivered exactly once, on the first tick at or after the due time, never
   earlier, never postponed; periodic timers re-armed one period after the delivering
   tick; a delivered one-shot timer not counted or reported any more. *)
Theorem c05_wheel_refines_spec : forall ops cur0 tt0,
  0 <= cur0 -> short ops ->
  Forall2 out_eq (snd (run (init_wheel cur0 tt0) ops)) (snd (srun (sinit true tt0) ops)).
Proof. exact wheel_refines. Qed.
Print Assumptions c05_wheel_refines_spec.

Theorem c05_heap_refines_spec : forall ops now,
  short ops ->
  Forall2 out_eq (snd (run (init_heap now) ops)) (snd (srun (sinit false now) ops)).
Proof. exact heap_refines. Qed.
Print Assumptions c05_heap_refines_spec.

(* Exact firing tick (closed form): a one-shot timer accepted with delay d >= 0 while the
   wheel is at any position is, after k further ticks, delivered exactly once if
   k >= max d 1 and not at all before: it fires during tick number
   max (cur0 + d) (cur0 + 1), never earlier, never later, never twice. *)
Theorem c05_wheel_exact : forall w r id d k,
  winv w -> ~ In id (map nid (wcontent w)) -> mem id r = true -> 0 <= d ->
  count_occ Z.eq_dec
    (map fst (snd (wupdate (add_node w (mkNode id (wtt w + d) 0)) r (wtt w + Z.of_N k)))) id =
  if Z.of_N k <? Z.max d 1 then 0%nat else 1%nat.
Proof. exact wheel_exact. Qed.
Print Assumptions c05_wheel_exact.

(* The same for the specification (shared by both implementations through the refinement
   theorems): after k ticks from time t0 a pending one-shot timer with due time dl has
   been delivered exactly once iff k >= 1 and t0 + k >= dl. *)
Theorem c05_spec_exact : forall t0 n k P r,
  nper n = 0 -> NoDup (map nid P) -> In n P ->
  count_occ Z.eq_dec (map fst (snd (N.iter k ticks_acc (t0, P, r, [])))) (nid n) =
  if (k =? 0)%N || (t0 + Z.of_N k <? ndl n) then 0%nat else 1%nat.
Proof. exact spec_exact. Qed.
Print Assumptions c05_spec_exact.

(* One tick of the wheel, any reachable state: a scheduled node that is due is delivered;
   a periodic one is back in the wheel re-armed at (this tick + period) and still
   scheduled; a one-shot one is no longer in the refer map (Size / IsScheduled drop it). *)
Theorem c05_wheel_periodic_and_unscheduled : forall w r n w' r' o,
  winv w -> In n (wcontent w) -> alive r n = true -> ndl n <= wtt w + 1 ->
  wtick w r = (w', r', o) ->
  In (deliv_of n) o /\
  (periodic n = true -> In (rearm (wtt w + 1) n) (wcontent w') /\ alive r' n = true) /\
  (periodic n = false -> ~ In (nid n) r').
Proof. exact wheel_tick_due. Qed.
Print Assumptions c05_wheel_periodic_and_unscheduled.

(* ... and a node that is not due is not delivered and stays. *)
Theorem c05_wheel_not_early : forall w r n w' r' o,
  winv w -> In n (wcontent w) -> alive r n = true -> wtt w + 1 < ndl n ->
  wtick w r = (w', r', o) ->
  ~ In (nid n) (map fst o) /\ In n (wcontent w') /\ alive r' n = true.
Proof. exact wheel_tick_not_due. Qed.
Print Assumptions c05_wheel_not_early.

(* Order: what any tick step (a burst of any size) puts on Chan() is in non-decreasing
   due-time order, in every history, for both implementations. *)
Theorem c05_wheel_order : forall ops cur0 tt0 l,
  0 <= cur0 -> short ops -> In (ODeliv l) (snd (run (init_wheel cur0 tt0) ops)) -> StronglySorted Z.le (map snd l).
Proof. exact wheel_order. Qed.
Print Assumptions c05_wheel_order.

Theorem c05_heap_order : forall ops now l,
  short ops -> In (ODeliv l) (snd (run (init_heap now) ops)) -> StronglySorted Z.le (map snd l).
Proof. exact heap_order. Qed.
Print Assumptions c05_heap_order.

(* Periodic timers, closed form.  A scheduled periodic node with due time D (always in
   the future of the tick time: the wheel invariant) and period p > 0 has been delivered,
   after k ticks, exactly [pcount] times: 0 while tt+k < D, else (tt+k-D)/p + 1 — i.e.
   during the ticks D, D+p, D+2p, ... and during no other tick. *)
Theorem c05_wheel_periodic_exact : forall w r n k,
  winv w -> In n (wcontent w) -> alive r n = true -> 0 < nper n ->
  Z.of_nat (count_occ Z.eq_dec (map fst (snd (N.iter k wtick_acc (w, r, [])))) (nid n)) =
  pcount (wtt w) (ndl n) (nper n) k.
Proof. exact wheel_periodic_exact. Qed.
Print Assumptions c05_wheel_periodic_exact.

(* RunEvery(p), p > 0, accepted while the wheel is at any position: after k further ticks
   it has fired k / p times — during the ticks cur0+p, cur0+2p, ... exactly. *)
Theorem c05_wheel_every_exact : forall w r id p k,
  winv w -> ~ In id (map nid (wcontent w)) -> mem id r = true -> 0 < p ->
  Z.of_nat (count_occ Z.eq_dec
    (map fst (snd (wupdate (add_node w (mkNode id (wtt w + p) p)) r (wtt w + Z.of_N k)))) id) =
  Z.of_N k / p.
Proof. exact wheel_every_exact. Qed.
Print Assumptions c05_wheel_every_exact.

Theorem c05_spec_periodic_exact : forall t0 n k P r,
  0 < nper n -> t0 < ndl n -> NoDup (map nid P) -> In n P ->
  Z.of_nat (count_occ Z.eq_dec (map fst (snd (N.iter k ticks_acc (t0, P, r, [])))) (nid n)) =
  pcount t0 (ndl n) (nper n) k.
Proof. exact spec_periodic_exact. Qed.
Print Assumptions c05_spec_periodic_exact.

(* The heap in terms of the `now` readings of its ticks (tick bursts: one call of
   tick(now) whatever time passed): a scheduled node is delivered by tick(now) iff its
   deadline is <= now; a periodic one is then re-armed at now + period, so its next
   delivery is on the first tick at or after one period past this delivery; a one-shot
   one leaves the refer map. *)
Theorem c05_heap_tick_due : forall h r now n,
  NoDup (map nid h) -> In n h -> alive r n = true -> ndl n <= now ->
  let '(h', r', o) := htick h r now in
  In (deliv_of n) o /\
  (periodic n = true -> In (rearm now n) h' /\ alive r' n = true) /\
  (periodic n = false -> ~ In (nid n) r').
Proof. exact heap_tick_due. Qed.
Print Assumptions c05_heap_tick_due.

Theorem c05_heap_tick_not_due : forall h r now n,
  NoDup (map nid h) -> In n h -> alive r n = true -> now < ndl n ->
  let '(h', r', o) := htick h r now in
  ~ In (nid n) (map fst o) /\ In n h' /\ alive r' n = true.
Proof. exact heap_tick_not_due. Qed.
Print Assumptions c05_heap_tick_not_due.

(* ---- the heap timer with its real array (HeapArr.v: timerHeap's Swap/Push/Pop index
   updates and container/heap's up/down/Push/Pop/Remove/Fix transcribed) ---- *)

(* After EVERY history of API calls and worker steps: the array is a heap under Less
   (no child is Less than its parent), node.index is the position of every node in the
   array and -1 for every node outside it, ids in the array are distinct. *)
Theorem c05_heap_array_inv : forall ops now,
  short ops ->
  let s := fst (arun (ainit now) ops) in
  hp (aarr s) (length (aarr s)) /\ idx_ok (aarr s) /\
  Forall (fun x => hidx x = -1) (aoutside s) /\ NoDup (map (fun x => nid (hn x)) (aarr s)).
Proof. exact heap_array_inv. Qed.
Print Assumptions c05_heap_array_inv.

(* heap.Remove(h, i) on a well-formed array takes out exactly the node at position i
   (and gives it index -1), keeps the heap order and the index fields of the others. *)
Theorem c05_heap_remove_exact : forall l i,
  harr_ok l -> (i < length l)%nat ->
  let '(l', x) := heap_remove l i in
  harr_ok l' /\ hn x = hn (hget l i) /\ hidx x = (-1)%Z /\
  Permutation.Permutation (map hn l) (hn x :: map hn l') /\ length l' = (length l - 1)%nat.
Proof. exact heap_remove_spec. Qed.
Print Assumptions c05_heap_remove_exact.

(* heap.Pop takes out the root, which is a minimum under Less; heap.Push adds the node. *)
Theorem c05_heap_pop_root : forall l,
  harr_ok l -> l <> [] ->
  let '(l', x) := heap_pop l in
  harr_ok l' /\ hn x = hn (hget l 0) /\ hidx x = (-1)%Z /\
  Permutation.Permutation (map hn l) (hn x :: map hn l') /\ length l' = (length l - 1)%nat.
Proof. exact heap_pop_spec. Qed.
Print Assumptions c05_heap_pop_root.

Theorem c05_heap_root_min : forall l,
  harr_ok l -> l <> [] -> forall y, In y l -> hle (hget l 0) y.
Proof. exact heap_pop_min. Qed.
Print Assumptions c05_heap_root_min.

Theorem c05_heap_push : forall l x,
  harr_ok l ->
  harr_ok (heap_push l x) /\ Permutation.Permutation (map hn (heap_push l x)) (x :: map hn l) /\
  length (heap_push l x) = S (length l).
Proof. exact heap_push_spec. Qed.
Print Assumptions c05_heap_push.

(* Refinement, every history: the array scheduler gives the same answers as the abstract
   heap scheduler of Model.v (the probe apart, which shows the array), hence as the
   pending-multiset specification: every heap theorem of C05 and C06 transfers. *)
Theorem c05_heap_array_refines : forall ops now,
  short ops ->
  Forall2 out_eqp (snd (arun (ainit now) ops)) (snd (run (init_heap now) ops)).
Proof. exact heap_array_refines. Qed.
Print Assumptions c05_heap_array_refines.

Theorem c05_heap_array_refines_spec : forall ops now,
  short ops ->
  Forall2 out_eq (snd (arun (ainit now) ops)) (snd (srun (sinit false now) ops)).
Proof. exact heap_array_refines_spec. Qed.
Print Assumptions c05_heap_array_refines_spec.

(* ---- a wheel bucket as a real doubly linked list (BucketModel.v: head/tail pointers,
   next/prev fields, addNode / removeNode+unchain / replaceInit transcribed) refines the
   flat list the wheel model uses: [repr b L] = the bucket holds exactly the nodes L in
   this order (head = first, tail = last, neighbours linked both ways) ---- *)
Theorem c05_bucket_add : forall b L n,
  repr b L -> ~ In n L -> bnext b n = None -> bprev b n = None -> repr (b_add b n) (L ++ [n]).
Proof. exact add_repr. Qed.
Print Assumptions c05_bucket_add.

(* removeNode unlinks exactly the given node from ANY position (only node, head, middle,
   tail) and leaves it unchained *)
Theorem c05_bucket_remove : forall b l1 n l2,
  repr b (l1 ++ n :: l2) ->
  repr (b_remove b n) (l1 ++ l2) /\ bnext (b_remove b n) n = None /\ bprev (b_remove b n) n = None.
Proof. exact remove_repr. Qed.
Print Assumptions c05_bucket_remove.

(* replaceInit empties the bucket; walking node.next from the old head (as cascade and
   expireNear do) visits exactly L in order *)
Theorem c05_bucket_replace_init : forall b L,
  repr b L ->
  repr (snd (b_replace_init b)) [] /\
  b_walk (length L) (bnext b) (fst (b_replace_init b)) = L.
Proof. exact replace_init_repr. Qed.
Print Assumptions c05_bucket_replace_init.

(* non-vacuity: the design's failing inputs, now computed by the model — position 1000,
   delay 5 fires during tick 1005; position 16000, delay 500 (slot 0 of level 1) fires
   during tick 16500; position 2^32-6, delay 10 fires 4 ticks after the wrap; a periodic
   timer of period 3 fires at 3, 6, 9; hypotheses of c05_wheel_exact are met by the
   empty wheel at position 2^32-6. *)
Definition ex_run (cur0 : Z) (ops : list op) : list out := snd (run (init_wheel cur0 0) ops).

Example c05_example_1000_5 :
  ex_run 1000 [Start 5; HandleAdd; Pass 4; Tick; Pass 1; Tick; Pass 100; Tick; Size]
  = [OId false 1; OFlag true; ONone; ODeliv []; ONone; ODeliv [(1, 5)]; ONone; ODeliv []; ONum 0].
Proof. vm_compute. reflexivity. Qed.

Example c05_example_16000_500 :
  ex_run 16000 [Start 500; HandleAdd; Pass 499; Tick; Pass 1; Tick]
  = [OId false 1; OFlag true; ONone; ODeliv []; ONone; ODeliv [(1, 500)]].
Proof. vm_compute. reflexivity. Qed.

Example c05_example_wrap :
  ex_run (2 ^ 32 - 6) [Start 10; HandleAdd; Pass 9; Tick; Pass 1; Tick; Every 3; HandleAdd; Pass 9; Tick]
  = [OId false 1; OFlag true; ONone; ODeliv []; ONone; ODeliv [(1, 10)];
     OId false 2; OFlag true; ONone; ODeliv [(2, 13); (2, 16); (2, 19)]].
Proof. vm_compute. reflexivity. Qed.

(* the clock reading goes backwards by 3 before a tick (update's "time gone backwards"
   branch): that tick delivers nothing and takes the earlier reading as reference; the
   timer fires after exactly 5 further units of forward time, during wheel tick 1005 *)
Example c05_example_clock_back :
  ex_run 1000 [Start 5; HandleAdd; Pass (-3); Tick; Pass 4; Tick; Pass 1; Tick]
  = [OId false 1; OFlag true; ONone; ODeliv []; ONone; ODeliv []; ONone; ODeliv [(1, 5)]].
Proof. vm_compute. reflexivity. Qed.

Example c05_example_heap_array :
  map (fun x => (nid (hn x), hidx x))
      (aarr (fst (arun (ainit 0) [Start 9; Start 3; Start 5; Start 1; HandleAdd; HandleAdd; HandleAdd; HandleAdd; Cancel 2; HandleDel])))
  = [(4, 0); (1, 1); (3, 2)]%Z.
Proof. vm_compute. reflexivity. Qed.

Example c05_example_hyps :
  winv (mkWheel (2 ^ 32 - 6) 77 []) /\ ~ In 1 (map nid (wcontent (mkWheel (2 ^ 32 - 6) 77 []))) /\ mem 1 [1] = true.
Proof.
  split; [|split; [intros []|reflexivity]].
  unfold winv, per_ok. cbn. split; [discriminate|split; [constructor|split; constructor]].
Qed.

(* ------------------------------------------------------------------------------------------
   Tie to the source (C05/Source.v): the arithmetic at the head of HHWheelTimer.addNode and
   HHWheelTimer.shiftWheels is regenerated from hhwheel_timer.go by tools/gofunc on every run
   (Generated/Wheel.v, fragments "F#prefix") and equals the model's: the clamped remaining
   ticks and the wrapping absolute expiry from which bucket_of chooses level and slot, and
   the guard / start value of the cascade loop.  If those statements change in the source,
   these obligations are re-checked. *)
From FV Require Import Generated.Consts Generated.Wheel Lib.GoSem C05.Source.

Theorem c05_src_add_node : forall cur tt n,
  0 <= cur < 2 ^ 32 -> - 2 ^ 62 < tt < 2 ^ 62 -> - 2 ^ 62 < ndl n < 2 ^ 62 ->
  go_HHWheelTimer_addNode_prefix tt cur (ndl n) = Reached (model_ticks tt n, model_expires cur tt n).
Proof. exact src_add_node. Qed.
Print Assumptions c05_src_add_node.

(* model_ticks / model_expires are exactly the quantities bucket_of places a node by *)
Theorem c05_src_bucket_of : forall cur tt n,
  bucket_of cur tt n =
  let ticks := model_ticks tt n in
  let expires := model_expires cur tt n in
  if ticks <? sched_TVR_SIZE then (0, Z.land expires sched_TVR_MASK)
  else if ticks <? Z.shiftl 1 (level_shift 1) then (1, tvn_index expires 0)
  else if ticks <? Z.shiftl 1 (level_shift 2) then (2, tvn_index expires 1)
  else if ticks <? Z.shiftl 1 (level_shift 3) then (3, tvn_index expires 2)
  else (4, tvn_index expires 3).
Proof. exact bucket_of_unfold. Qed.
Print Assumptions c05_src_bucket_of.

Theorem c05_src_shift_wheels : forall w, 0 <= wcur w < 2 ^ 32 ->
  shift_wheels w =
  match go_HHWheelTimer_shiftWheels_prefix (wcur w) with
  | Returned _ _ => w
  | Reached (ct, ticks) => shift_loop (Z.to_nat sched_WHEEL_LEVEL) 0 ticks w
  end.
Proof. exact src_shift_wheels. Qed.
Print Assumptions c05_src_shift_wheels.
