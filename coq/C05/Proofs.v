(* C05 — the statements used by Properties.v, assembled from Geom / WheelInv / Refine /
   Machine / SpecFacts. *)
From Coq Require Import ZArith List Bool Lia ZifyBool Permutation Sorted.
From FV Require Import Generated.Consts C05.Model C05.Spec C05.Geom C05.WheelInv C05.ListFacts
  C05.Refine C05.Machine C05.SpecFacts.
Import ListNotations.
Open Scope Z_scope.

Definition core_winv (c : core) : Prop := match c with CWheel w => winv w | CHeap _ => True end.

(* the wheel invariant holds after every history *)
Lemma fits_init_wheel cur0 tt0 ops : short ops -> fits (init_wheel cur0 tt0) ops.
Proof. unfold short, fits. cbn. lia. Qed.
Lemma fits_init_heap now ops : short ops -> fits (init_heap now) ops.
Proof. unfold short, fits. cbn. lia. Qed.

Lemma wheel_inv_all ops cur0 tt0 :
  0 <= cur0 -> short ops -> core_winv (score (fst (run (init_wheel cur0 tt0) ops))).
Proof.
  intros Hc Hs. destruct (run_refines ops _ _ (minv_init_wheel cur0 tt0 Hc) (rel_init_wheel cur0 tt0) (fits_init_wheel _ _ _ Hs)) as [Hm _].
  exact (mi_core _ Hm).
Qed.

Lemma wheel_refines ops cur0 tt0 :
  0 <= cur0 -> short ops ->
  Forall2 out_eq (snd (run (init_wheel cur0 tt0) ops)) (snd (srun (sinit true tt0) ops)).
Proof.
  intros Hc Hs. destruct (run_refines ops _ _ (minv_init_wheel cur0 tt0 Hc) (rel_init_wheel cur0 tt0) (fits_init_wheel _ _ _ Hs)) as [_ [_ H]].
  exact H.
Qed.

Lemma heap_refines ops now :
  short ops ->
  Forall2 out_eq (snd (run (init_heap now) ops)) (snd (srun (sinit false now) ops)).
Proof.
  intros Hs. destruct (run_refines ops _ _ (minv_init_heap now) (rel_init_heap now) (fits_init_heap _ _ Hs)) as [_ [_ H]]. exact H.
Qed.

(* order *)
Lemma sstep_sorted z o l :
  snd (sstep z o) = ODeliv l -> StronglySorted Z.le (map snd l).
Proof.
  destruct o; cbn [sstep]; try (unfold sschedule; cbn; discriminate).
  - destruct (mem id (zrefer z)); cbn; discriminate.
  - destruct (zreq z); cbn; discriminate.
  - destruct (0 <? zdels z); cbn; discriminate.
  - destruct (zwheel z).
    + pose proof (burst_iter (Z.to_N (zclock z - ztt z)) (ztt z, zpending z, zrefer z, [])) as H.
      destruct (N.iter (Z.to_N (zclock z - ztt z)) ticks_acc (ztt z, zpending z, zrefer z, [])) as [[[t P] r] o].
      cbn [snd]. intros E. inversion E; subst l. apply H. unfold burst_ok. cbn. split; [constructor|split; [constructor|left; reflexivity]].
    + pose proof (spec_tick_sorted (zclock z) (zpending z) (zrefer z)) as [H _].
      destruct (spec_tick (zclock z) (zpending z) (zrefer z)) as [[P r] o]. cbn [snd] in *.
      intros E. inversion E; subst l. exact H.
Qed.

Lemma srun_sorted ops : forall z l, In (ODeliv l) (snd (srun z ops)) -> StronglySorted Z.le (map snd l).
Proof.
  induction ops as [|o ops IH]; intros z l; cbn [srun]; [cbn; tauto|].
  destruct (sstep z o) as [z1 b] eqn:E1. destruct (srun z1 ops) as [z2 ys] eqn:E2. cbn [snd].
  intros [Hb|Hin].
  - eapply sstep_sorted. rewrite E1. cbn. exact Hb.
  - apply (IH z1). rewrite E2. exact Hin.
Qed.

Lemma forall2_in_l {A B} (R : A -> B -> Prop) l l' x :
  Forall2 R l l' -> In x l -> exists y, In y l' /\ R x y.
Proof.
  induction 1 as [|a b l l' Hab H IH]; cbn; [tauto|].
  intros [<-|Hx]; [exists b; tauto|]. destruct (IH Hx) as [y [Hy Hr]]. exists y. tauto.
Qed.

Lemma refines_sorted outs outs' l :
  Forall2 out_eq outs outs' ->
  (forall l', In (ODeliv l') outs' -> StronglySorted Z.le (map snd l')) ->
  In (ODeliv l) outs -> StronglySorted Z.le (map snd l).
Proof.
  intros HF Hs Hin. destruct (forall2_in_l _ _ _ _ HF Hin) as [y [Hy Hr]].
  destruct y; cbn in Hr; try discriminate. destruct Hr as [_ E].
  replace (map snd l) with (map snd l0) by (symmetry; exact E). apply Hs. exact Hy.
Qed.

Lemma wheel_order ops cur0 tt0 l :
  0 <= cur0 -> short ops -> In (ODeliv l) (snd (run (init_wheel cur0 tt0) ops)) -> StronglySorted Z.le (map snd l).
Proof.
  intros Hc Hs. apply (refines_sorted _ _ l (wheel_refines ops cur0 tt0 Hc Hs)). apply srun_sorted.
Qed.

Lemma heap_order ops now l :
  short ops -> In (ODeliv l) (snd (run (init_heap now) ops)) -> StronglySorted Z.le (map snd l).
Proof. intros Hs. apply (refines_sorted _ _ l (heap_refines ops now Hs)). apply srun_sorted. Qed.

(* exact firing tick of a one-shot timer, wheel left ticking *)
Lemma wheel_exact_iter w r n k :
  winv w -> In n (wcontent w) -> alive r n = true -> nper n = 0 ->
  count_occ Z.eq_dec (map fst (snd (N.iter k wtick_acc (w, r, [])))) (nid n) =
  if (k =? 0)%N || (wtt w + Z.of_N k <? ndl n) then 0%nat else 1%nat.
Proof.
  intros Hi Hn Ha Hone.
  set (P := filter (alive r) (wcontent w)).
  assert (H0 : racc (wcur w - wtt w) (w, r, []) (wtt w, P, r, [])).
  { unfold racc. split; [exact Hi|]. split; [reflexivity|]. split; [lia|]. split; [reflexivity|].
    split; [reflexivity|apply deq_refl]. }
  pose proof (racc_iter _ k _ _ H0) as H1.
  assert (HndP : NoDup (map nid P)) by (apply NoDup_map_filter; destruct Hi as [_ [_ [H _]]]; exact H).
  assert (HinP : In n P) by (apply filter_In; tauto).
  pose proof (spec_exact (wtt w) n k P r Hone HndP HinP) as Hs.
  destruct (N.iter k wtick_acc (w, r, [])) as [[w' r'] o].
  destruct (N.iter k ticks_acc (wtt w, P, r, [])) as [[[t P'] r2] o'].
  unfold racc in H1. destruct H1 as [_ [_ [_ [_ [_ [Hperm _]]]]]]. cbn [snd] in *.
  rewrite <- Hs. apply Permutation_count_occ. apply Permutation_map. exact Hperm.
Qed.

Lemma wheel_exact w r id d k :
  winv w -> ~ In id (map nid (wcontent w)) -> mem id r = true -> 0 <= d ->
  count_occ Z.eq_dec
    (map fst (snd (wupdate (add_node w (mkNode id (wtt w + d) 0)) r (wtt w + Z.of_N k)))) id =
  if Z.of_N k <? Z.max d 1 then 0%nat else 1%nat.
Proof.
  intros Hi Hf Ha Hd. set (n := mkNode id (wtt w + d) 0).
  assert (Hi1 : winv (add_node w n)) by (apply add_node_inv; [exact Hi|cbn; lia|cbn; lia|exact Hf]).
  unfold wupdate. rewrite add_node_eq. cbn [wtt]. replace (wtt w + Z.of_N k - wtt w) with (Z.of_N k) by lia.
  rewrite N2Z.id. rewrite <- add_node_eq.
  pose proof (wheel_exact_iter (add_node w n) r n k Hi1) as H.
  rewrite wcontent_add in H. specialize (H ltac:(apply in_app_iff; right; left; reflexivity) Ha eq_refl).
  change (nid n) with id in H. rewrite H. rewrite add_node_eq. cbn [wtt ndl n].
  destruct (N.eqb_spec k 0) as [->|Hk]; cbn [orb].
  - destruct (Z.ltb_spec (Z.of_N 0) (Z.max d 1)); [reflexivity|lia].
  - destruct (Z.ltb_spec (wtt w + Z.of_N k) (wtt w + d)), (Z.ltb_spec (Z.of_N k) (Z.max d 1)); try reflexivity; lia.
Qed.

(* one tick: what is due is delivered, what is not due is not *)
Lemma wheel_tick_due w r n w' r' o :
  winv w -> In n (wcontent w) -> alive r n = true -> ndl n <= wtt w + 1 ->
  wtick w r = (w', r', o) ->
  In (deliv_of n) o /\
  (periodic n = true -> In (rearm (wtt w + 1) n) (wcontent w') /\ alive r' n = true) /\
  (periodic n = false -> ~ In (nid n) r').
Proof.
  intros Hi Hn Ha Hd E.
  destruct (wtick_refines w r (filter (alive r) (wcontent w)) Hi (Permutation_refl _))
    as [w2 [r2 [o2 [P' [o' [E2 [Es [Hi2 [_ [_ [HP' [Hperm _]]]]]]]]]]]].
  rewrite E in E2. inversion E2; subst w2 r2 o2. clear E2.
  assert (HinP : In n (filter (alive r) (wcontent w))) by (apply filter_In; tauto).
  split; [|split].
  - apply (Permutation_in _ (Permutation_sym Hperm)).
    replace o' with (snd (spec_tick (wtt w + 1) (filter (alive r) (wcontent w)) r)) by (rewrite Es; reflexivity).
    apply spec_tick_out. exists n. tauto.
  - intros Hp.
    assert (In (rearm (wtt w + 1) n) P').
    { replace P' with (fst (fst (spec_tick (wtt w + 1) (filter (alive r) (wcontent w)) r))) by (rewrite Es; reflexivity).
      apply spec_tick_pending. right. exists n. tauto. }
    apply (Permutation_in _ HP') in H. apply filter_In in H. exact H.
  - intros Hp Hin.
    replace r' with (snd (fst (spec_tick (wtt w + 1) (filter (alive r) (wcontent w)) r))) in Hin by (rewrite Es; reflexivity).
    rewrite spec_tick_refer_eq in Hin. apply filter_In in Hin. destruct Hin as [_ Hneg].
    apply negb_true_iff in Hneg. apply not_true_iff_false in Hneg. apply Hneg. apply mem_In.
    apply in_map. apply filter_In. split; [|rewrite Hp; reflexivity].
    apply in_dsort_2. apply filter_In. split; [exact HinP|]. unfold is_due. lia.
Qed.

Lemma wheel_tick_not_due w r n w' r' o :
  winv w -> In n (wcontent w) -> alive r n = true -> wtt w + 1 < ndl n ->
  wtick w r = (w', r', o) ->
  ~ In (nid n) (map fst o) /\ In n (wcontent w') /\ alive r' n = true.
Proof.
  intros Hi Hn Ha Hd E.
  destruct (wtick_refines w r (filter (alive r) (wcontent w)) Hi (Permutation_refl _))
    as [w2 [r2 [o2 [P' [o' [E2 [Es [Hi2 [_ [_ [HP' [Hperm _]]]]]]]]]]]].
  rewrite E in E2. inversion E2; subst w2 r2 o2. clear E2.
  assert (HinP : In n (filter (alive r) (wcontent w))) by (apply filter_In; tauto).
  assert (Hnd : NoDup (map nid (wcontent w))) by (destruct Hi as [_ [_ [H _]]]; exact H).
  split.
  - intros Hin. apply in_map_iff in Hin. destruct Hin as [x [Ex Hx]].
    apply (Permutation_in _ Hperm) in Hx.
    replace o' with (snd (spec_tick (wtt w + 1) (filter (alive r) (wcontent w)) r)) in Hx by (rewrite Es; reflexivity).
    apply spec_tick_out in Hx. destruct Hx as [m [Hm [Hdm ->]]]. cbn in Ex.
    apply filter_In in Hm. destruct Hm as [Hm _].
    assert (m = n) by (apply (nodup_ids_inj (wcontent w)); assumption). subst m. lia.
  - assert (In n P').
    { replace P' with (fst (fst (spec_tick (wtt w + 1) (filter (alive r) (wcontent w)) r))) by (rewrite Es; reflexivity).
      apply spec_tick_pending. left. tauto. }
    apply (Permutation_in _ HP') in H. apply filter_In in H. exact H.
Qed.

(* periodic closed form on the wheel left ticking *)
Lemma wheel_periodic_exact w r n k :
  winv w -> In n (wcontent w) -> alive r n = true -> 0 < nper n ->
  Z.of_nat (count_occ Z.eq_dec (map fst (snd (N.iter k wtick_acc (w, r, [])))) (nid n)) =
  pcount (wtt w) (ndl n) (nper n) k.
Proof.
  intros Hi Hn Ha Hper.
  set (P := filter (alive r) (wcontent w)).
  assert (H0 : racc (wcur w - wtt w) (w, r, []) (wtt w, P, r, [])).
  { unfold racc. split; [exact Hi|]. split; [reflexivity|]. split; [lia|]. split; [reflexivity|].
    split; [reflexivity|apply deq_refl]. }
  pose proof (racc_iter _ k _ _ H0) as H1.
  assert (HndP : NoDup (map nid P)) by (apply NoDup_map_filter; destruct Hi as [_ [_ [H _]]]; exact H).
  assert (HinP : In n P) by (apply filter_In; tauto).
  assert (Hdl : wtt w < ndl n).
  { destruct Hi as [_ [_ [_ Hp]]]. unfold per_ok in Hp. rewrite Forall_forall in Hp. apply Hp; assumption. }
  pose proof (spec_periodic_exact (wtt w) n k P r Hper Hdl HndP HinP) as Hs.
  destruct (N.iter k wtick_acc (w, r, [])) as [[w' r'] o].
  destruct (N.iter k ticks_acc (wtt w, P, r, [])) as [[[t P'] r2] o'].
  unfold racc in H1. destruct H1 as [_ [_ [_ [_ [_ [Hperm _]]]]]]. cbn [snd] in *.
  rewrite <- Hs. f_equal. apply Permutation_count_occ. apply Permutation_map. exact Hperm.
Qed.

(* RunEvery(p) accepted at tick time tt0: deliveries during the ticks tt0+p, tt0+2p, ... *)
Lemma wheel_every_exact w r id p k :
  winv w -> ~ In id (map nid (wcontent w)) -> mem id r = true -> 0 < p ->
  Z.of_nat (count_occ Z.eq_dec
    (map fst (snd (wupdate (add_node w (mkNode id (wtt w + p) p)) r (wtt w + Z.of_N k)))) id) =
  Z.of_N k / p.
Proof.
  intros Hi Hf Ha Hp. set (n := mkNode id (wtt w + p) p).
  assert (Hi1 : winv (add_node w n)) by (apply add_node_inv; [exact Hi|cbn; lia|cbn; lia|exact Hf]).
  unfold wupdate. rewrite add_node_eq. cbn [wtt]. replace (wtt w + Z.of_N k - wtt w) with (Z.of_N k) by lia.
  rewrite N2Z.id. rewrite <- add_node_eq.
  pose proof (wheel_periodic_exact (add_node w n) r n k Hi1) as H.
  rewrite wcontent_add in H. specialize (H ltac:(apply in_app_iff; right; left; reflexivity) Ha Hp).
  change (nid n) with id in H. rewrite H. rewrite add_node_eq. cbn [wtt ndl nper n]. unfold pcount.
  destruct (Z.ltb_spec (wtt w + Z.of_N k) (wtt w + p)) as [Hlt|Hge].
  - symmetry. apply Z.div_small. lia.
  - replace (wtt w + Z.of_N k - (wtt w + p)) with (Z.of_N k + (-1) * p) by lia.
    rewrite Z.div_add by lia. lia.
Qed.

(* the heap's tick(now): what is due is delivered; a periodic timer is re-armed at now +
   period (so it is delivered again on the first tick at or after one period past this
   one); what is not due stays *)
Lemma heap_tick_due h r now n :
  NoDup (map nid h) -> In n h -> alive r n = true -> ndl n <= now ->
  let '(h', r', o) := htick h r now in
  In (deliv_of n) o /\
  (periodic n = true -> In (rearm now n) h' /\ alive r' n = true) /\
  (periodic n = false -> ~ In (nid n) r').
Proof.
  intros Hnd Hn Ha Hd.
  destruct (htick_refines h r now (filter (alive r) h) Hnd (Permutation_refl _))
    as [h' [r' [o [P' [o' [E [Es [_ [HP' [Hperm _]]]]]]]]]].
  rewrite E. assert (HinP : In n (filter (alive r) h)) by (apply filter_In; tauto).
  split; [|split].
  - apply (Permutation_in _ (Permutation_sym Hperm)).
    replace o' with (snd (spec_tick now (filter (alive r) h) r)) by (rewrite Es; reflexivity).
    apply spec_tick_out. exists n. tauto.
  - intros Hp. assert (In (rearm now n) P').
    { replace P' with (fst (fst (spec_tick now (filter (alive r) h) r))) by (rewrite Es; reflexivity).
      apply spec_tick_pending. right. exists n. tauto. }
    apply (Permutation_in _ HP') in H. apply filter_In in H. exact H.
  - intros Hp Hin.
    replace r' with (snd (fst (spec_tick now (filter (alive r) h) r))) in Hin by (rewrite Es; reflexivity).
    rewrite spec_tick_refer_eq in Hin. apply filter_In in Hin. destruct Hin as [_ Hneg].
    apply negb_true_iff in Hneg. apply not_true_iff_false in Hneg. apply Hneg. apply mem_In.
    apply in_map. apply filter_In. split; [|rewrite Hp; reflexivity].
    apply in_dsort_2. apply filter_In. split; [exact HinP|]. unfold is_due. lia.
Qed.

Lemma heap_tick_not_due h r now n :
  NoDup (map nid h) -> In n h -> alive r n = true -> now < ndl n ->
  let '(h', r', o) := htick h r now in
  ~ In (nid n) (map fst o) /\ In n h' /\ alive r' n = true.
Proof.
  intros Hnd Hn Ha Hd.
  destruct (htick_refines h r now (filter (alive r) h) Hnd (Permutation_refl _))
    as [h' [r' [o [P' [o' [E [Es [_ [HP' [Hperm _]]]]]]]]]].
  rewrite E. assert (HinP : In n (filter (alive r) h)) by (apply filter_In; tauto).
  split.
  - intros Hin. apply in_map_iff in Hin. destruct Hin as [x [Ex Hx]].
    apply (Permutation_in _ Hperm) in Hx.
    replace o' with (snd (spec_tick now (filter (alive r) h) r)) in Hx by (rewrite Es; reflexivity).
    apply spec_tick_out in Hx. destruct Hx as [m [Hm [Hdm ->]]]. cbn in Ex.
    apply filter_In in Hm. destruct Hm as [Hm _].
    assert (m = n) by (apply (nodup_ids_inj h); assumption). subst m. lia.
  - assert (In n P').
    { replace P' with (fst (fst (spec_tick now (filter (alive r) h) r))) by (rewrite Es; reflexivity).
      apply spec_tick_pending. left. tauto. }
    apply (Permutation_in _ HP') in H. apply filter_In in H. exact H.
Qed.
